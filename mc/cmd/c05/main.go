// C05 — CSRs, legacy CRLs and v2 revocation lists round-trip and self-verify.
//
// Engine E2, G-field generator: every object is described by a record of
// fields (default + alternatives); every assignment with at most d non-default
// fields is created with the real zcrypto API, parsed back with the real
// zcrypto parser and compared, field by field, with an expectation written from
// the property statement and the API documentation. Independent cross-checks:
// Go's standard crypto/x509 parses the same DER (where it accepts it) and must
// report the same fields; the signature is verified with the standard
// library's primitives (crypto/rsa, crypto/ecdsa, crypto/ed25519) against the
// ORIGINAL key, under the algorithm the DER declares (decoded with an OID
// table written from RFC 3279/4055/5758/8410).
//
// Every case is built twice, separately: one set of objects is handed to the
// creation call, the other one only supplies the expectations. Reuse histories
// (hist.go) put the SAME input objects through several creation calls with
// in-place edits in between; an input immutability probe (snap.go) brackets
// every creation call.
package main

import (
	"bytes"
	"encoding/json"
	"fmt"
	"sort"
	"strings"
	"sync"
	"sync/atomic"

	"verifmc/internal/ev"
)

// field of a G-field record: alts[0] is the default.
type field struct {
	name string
	alts []string
}

// caseObj is one assignment turned into objects: the inputs of the creation call
// and, independently, the values the created object must report.
type caseObj interface {
	// create performs the creation call on the case's input objects.
	create() (der []byte, err error)
	// adopt transplants G-field f from donor (a freshly built case of the NEW
	// assignment) into this case's input objects, IN PLACE: the objects stay the
	// same, as in a caller's loop that reuses one template.
	adopt(donor caseObj, f int)
	// inputs are the objects handed to the creation call (immutability probe).
	inputs() map[string]any
}

// space is one object family (csr / crl / rl).
type space struct {
	kind   string
	api    string // the creation function
	fields []field
	// canonical reports whether the assignment is the canonical description of
	// its input (false: a non-default value sits in a slot that is not used by
	// this assignment, i.e. the input duplicates one with fewer deviations).
	canonical func(a []int) bool
	// slotPer > 0: fields 1..3*slotPer are three entry slots of slotPer fields each, field 0 is the entry count
	slotPer int
	// build turns an assignment into fresh objects (nothing shared with any other case).
	build func(r *runner, a []int) caseObj
	// check judges what the creation call returned by the expectations of exp, a
	// case that was built separately and never handed to zcrypto.
	check func(r *runner, a []int, exp caseObj, der []byte, err error)
	// editAlts restricts the alternatives a reuse history may switch field f to
	// (nil: all). cur is the field's current alternative.
	editAlts func(f, cur int, full bool) []int
}

// tryCreate runs the creation call, recovering a panic.
func tryCreate(cs caseObj) (der []byte, err error, panicked bool, msg, site string) {
	panicked, msg, site = ev.Try(func() { der, err = cs.create() })
	return
}

// run is the single-shot case: fresh objects, one creation call, judged.
func (sp *space) run(r *runner, a []int) {
	live, exp := sp.build(r, a), sp.build(r, a)
	before := takeDigest(live.inputs())
	der, err, panicked, msg, site := tryCreate(live)
	r.c.Transitions.Add(1)
	if !bytes.Equal(before, takeDigest(live.inputs())) {
		// the same case again with the path-naming snapshots
		again := sp.build(r, a)
		full := takeSnap(again.inputs())
		tryCreate(again)
		for _, p := range full.changedPaths(takeSnap(again.inputs())) {
			r.mutated(p)
		}
	}
	if panicked {
		r.viol("panic@"+site+" in "+sp.api+": "+ev.MsgClass(msg), msg)
		return
	}
	sp.check(r, a, exp, der, err)
}

// describe renders the non-default part of an assignment.
func (s *space) describe(a []int) string {
	var parts []string
	for i, v := range a {
		if v != 0 {
			parts = append(parts, s.fields[i].name+"="+s.fields[i].alts[v])
		}
	}
	if len(parts) == 0 {
		return s.kind + "{baseline}"
	}
	return s.kind + "{" + strings.Join(parts, ", ") + "}"
}

// full renders the whole assignment (for the witness).
func (s *space) full(a []int) map[string]string {
	m := map[string]string{}
	for i, v := range a {
		m[s.fields[i].name] = s.fields[i].alts[v]
	}
	return m
}

// enumerate lists every assignment with at most d non-default fields, in a
// fixed order (by number of deviations, then lexicographic).
func (s *space) enumerate(d int) (out [][]int, total int) {
	n := len(s.fields)
	cur := make([]int, n)
	var rec func(start, left int)
	rec = func(start, left int) {
		total++
		if s.canonical == nil || s.canonical(cur) {
			out = append(out, append([]int(nil), cur...))
		}
		if left == 0 {
			return
		}
		for i := start; i < n; i++ {
			for v := 1; v < len(s.fields[i].alts); v++ {
				cur[i] = v
				rec(i+1, left-1)
			}
			cur[i] = 0
		}
	}
	rec(0, d)
	sort.SliceStable(out, func(i, j int) bool { return ndev(out[i]) < ndev(out[j]) })
	return
}

func ndev(a []int) int {
	n := 0
	for _, v := range a {
		if v != 0 {
			n++
		}
	}
	return n
}

// witness is what a violation carries and what --replay re-executes.
type witness struct {
	Kind   string            `json:"kind"`
	Assign []int             `json:"assign"` // reuse history: the assignment the reused objects hold at the last call
	Base   []int             `json:"history_base,omitempty"`
	Edits  [][2]int          `json:"history_edits,omitempty"` // (field, new alternative), applied in place between the calls; field -1 = no edit
	Case   string            `json:"case"`
	Fields map[string]string `json:"fields,omitempty"`
	Detail string            `json:"detail"`
	DER    string            `json:"der_hex,omitempty"`
}

// runner is the per-worker context.
type runner struct {
	c    *ev.Ctx
	h    ev.Hist
	sp   *space
	a    []int
	der  []byte
	keys map[string]*keyMat

	hist    *history // non-nil: the last call of a reuse history is being judged
	collect *[]pviol // non-nil: violations are collected instead of reported
	mute    bool     // outcome classes of the single-shot checks are not counted
}

type pviol struct {
	sig, detail string
	der         []byte
}

func (r *runner) key(kind string) *keyMat {
	if k, ok := r.keys[kind]; ok {
		return k
	}
	k := newKeyMat(kind)
	r.keys[kind] = k
	return k
}

// sampleOK lets every family contribute at most two samples.
var sampleCount sync.Map

func (r *runner) sampleOK() bool {
	if !r.c.WantSample() {
		return false
	}
	v, _ := sampleCount.LoadOrStore(r.sp.kind, new(atomic.Int32))
	return v.(*atomic.Int32).Add(1) <= 2
}

func (r *runner) out(class string) {
	if !r.mute {
		r.h[r.sp.kind+": "+class]++
	}
}

// mutated records that the creation call changed its input at path (immutability probe).
func (r *runner) mutated(path string) {
	r.h[r.sp.kind+": probe: "+r.sp.api+" changed its input "+path+" (undocumented; what that does to a later call is judged by the reuse histories)"]++
	mutatedMu.Lock()
	mutatedPaths[r.sp.api+": "+path] = true
	mutatedMu.Unlock()
}

var (
	mutatedMu    sync.Mutex
	mutatedPaths = map[string]bool{}
)

// viol records a violation; sig is the class, detail the concrete mismatch.
func (r *runner) viol(sig, detail string) {
	if r.collect != nil {
		*r.collect = append(*r.collect, pviol{sig, detail, r.der})
		return
	}
	r.report(sig, detail, r.der)
}

func (r *runner) report(sig, detail string, der []byte) {
	w := witness{Kind: r.sp.kind, Assign: r.a, Case: r.sp.describe(r.a), Fields: r.sp.full(r.a), Detail: detail}
	if r.hist != nil {
		w.Base, w.Edits, w.Case = r.hist.base, r.hist.edits, r.hist.describe(r.sp)
	}
	if len(der) > 0 && len(der) <= 4096 {
		w.DER = fmt.Sprintf("%x", der)
	}
	r.c.Violation(r.sp.kind+": "+sig, w)
	r.h[r.sp.kind+": VIOLATION"]++
}

func main() {
	ev.Main("C05", "model_checking", func(c *ev.Ctx) {
		buildIssuers(c)
		spaces := []*space{csrSpace(), crlSpace(), rlSpace()}
		d := ev.Pick(c, 2, 3)

		if c.Replay != nil {
			var w witness
			if err := json.Unmarshal(c.Replay, &w); err != nil {
				c.Broken("bad witness: %v", err)
			}
			for _, sp := range spaces {
				if sp.kind == w.Kind {
					if len(w.Assign) != len(sp.fields) {
						c.Broken("witness has %d fields, space %s has %d", len(w.Assign), sp.kind, len(sp.fields))
					}
					r := &runner{c: c, h: ev.Hist{}, sp: sp, a: w.Assign, keys: map[string]*keyMat{}}
					if w.Base != nil {
						if len(w.Base) != len(sp.fields) {
							c.Broken("witness history does not fit space %s", sp.kind)
						}
						sp.runHistory(r, history{w.Base, w.Edits})
					} else {
						sp.run(r, w.Assign)
					}
					c.Merge(r.h)
					c.States.Add(1)
				}
			}
			return
		}

		var rule []string
		type job struct {
			sp *space
			a  []int
			h  *history
		}
		var jobs []job
		for _, sp := range spaces {
			as, total := sp.enumerate(d)
			nalt := 0
			var fd []string
			for _, f := range sp.fields {
				nalt += len(f.alts) - 1
				fd = append(fd, fmt.Sprintf("%s[%d]", f.name, len(f.alts)))
			}
			c.Set(sp.kind+"_space", map[string]any{"fields": len(sp.fields), "alternatives": nalt, "max_deviations": d,
				"assignments": total, "canonical_assignments": len(as), "field_sizes": strings.Join(fd, " ")})
			rule = append(rule, fmt.Sprintf("%s: %d fields/%d alternatives, %d canonical assignments", sp.kind, len(sp.fields), nalt, len(as)))
			for _, a := range as {
				jobs = append(jobs, job{sp: sp, a: a})
			}
		}
		// reuse histories (hist.go): the same input objects through several creation calls
		histInfo := map[string]any{}
		for _, sp := range spaces {
			bases, _ := sp.enumerate(1)
			n2, n3 := 0, 0
			for _, h := range sp.histories(bases, 2, !c.Quick()) {
				h := h
				jobs = append(jobs, job{sp: sp, h: &h})
				n2++
			}
			if !c.Quick() {
				for _, h := range sp.histories(bases, 3, false) {
					h := h
					jobs = append(jobs, job{sp: sp, h: &h})
					n3++
				}
			}
			histInfo[sp.kind] = map[string]int{"bases": len(bases), "length_2": n2, "length_3": n3}
			rule = append(rule, fmt.Sprintf("%s reuse histories: %d bases, %d of length 2, %d of length 3", sp.kind, len(bases), n2, n3))
		}
		c.Set("reuse_histories", histInfo)
		c.Rule("G-field: every assignment of the csr/crl/rl field records with <= " + fmt.Sprint(d) +
			" non-default fields (" + strings.Join(rule, "; ") + "); a case is non-trivial/distinct when the object was created and parsed back; " +
			"assignments that only deviate an unused entry slot are dropped as duplicates. " +
			"Reuse histories: every base assignment with <= 1 non-default field x every sequence of in-place edits 'field := other alternative' (plus 'no edit'; quick: the joint signer field only moves along one of its two axes, key kind or algorithm; length 3 in the thorough tier only) on the SAME template / entry list / hand-built issuer objects between consecutive creation calls: " +
			"the object created by the last call is judged by the single-shot checks against the expectation of a freshly built case of the assignment the objects hold then, and its TBS bytes must equal those created from such fresh objects; " +
			"every creation call is bracketed by a deep snapshot of its input objects (changed paths are outcome classes 'probe: ...')")
		c.Assume(
			"expectations are written from the property statement and the doc comments of CreateCertificateRequest / CreateCRL / CreateRevocationList / RevokedCertificate, not from the implementation",
			"independent oracles: crypto/x509 ParseCertificateRequest/ParseRevocationList for the fields, crypto/rsa|ecdsa|ed25519 primitives for the signature (trusted)",
			"statement-silent inputs (negative or duplicate serials, algorithm/key mismatches, MD2/MD5, CRL number 2^159 or nil, expiry before now in CreateCRL, conflicting RawSubject+Subject) are probed for panics and reported as outcome classes only",
			"the Time fields of created CRLs are additionally compared with the encoding RFC 5280 5.1.2.4-5.1.2.6 prescribes (UTCTime..2049 / GeneralizedTime 2050.., Zulu, whole seconds), read with encoding/asn1",
			"key kind and SignatureAlgorithm form one joint field 'signer' whose alternatives are ALL 6x18 (key kind, algorithm) pairs: which pairs are accepted is observed, not assumed",
			"entry lists are compared as multisets of (serial, time, reason, extensions) tuples; order preservation is reported as an outcome class",
			"reuse histories: 'that were supplied' is read as what the input objects hold AT THE TIME OF THE CALL; a creation call that changes its inputs is not a violation by itself (outcome class), only its effect on a later call is",
		"CSR extensions are compared with their Critical flag; only when the (deprecated) template.Attributes already holds an extensionRequest attribute, into whose flag-less AttributeTypeAndValue list ExtraExtensions are merged, kept/dropped are both accepted and counted",
		)

		// VERIF_SEED only rotates the execution order
		if c.Seed != 0 {
			rot := int(uint64(c.Seed) % uint64(len(jobs)))
			jobs = append(jobs[rot:], jobs[:rot]...)
		}
		W := c.Workers()
		runners := make([]*runner, W)
		var mu sync.Mutex
		done := c.Parallel(len(jobs), func(w, i int) {
			r := runners[w]
			if r == nil {
				r = &runner{c: c, h: ev.Hist{}, keys: map[string]*keyMat{}}
				mu.Lock()
				runners[w] = r
				mu.Unlock()
			}
			j := jobs[i]
			r.sp, r.a, r.der = j.sp, j.a, nil
			r.hist, r.collect, r.mute = nil, nil, false
			panicked, msg, site := ev.Try(func() {
				if j.h != nil {
					j.sp.runHistory(r, *j.h)
				} else {
					j.sp.run(r, j.a)
				}
			})
			if panicked {
				// panics inside zcrypto calls are caught closer to the call; this is the harness itself
				what := ""
				if j.h != nil {
					what = j.h.describe(j.sp)
				} else {
					what = j.sp.describe(j.a)
				}
				c.Broken("harness panic in %s at %s: %s", what, site, msg)
			}
			c.States.Add(1)
		})
		for _, r := range runners {
			if r != nil {
				c.Merge(r.h)
			}
		}
		if !done {
			c.Incomplete("budget hit before all enumerated assignments and reuse histories were executed")
		}
		var mp []string
		for p := range mutatedPaths {
			mp = append(mp, p)
		}
		sort.Strings(mp)
		c.Set("inputs_changed_by_creation_calls", mp)
	})
}
