package main

// Independent signature oracle: split the signed object with the standard
// encoding/asn1, decode the declared AlgorithmIdentifier with an OID table
// written from RFC 3279 / 4055 / 5758 / 8410, and verify with the standard
// library's primitives against the ORIGINAL key fixture.

import (
	"crypto"
	"crypto/ecdsa"
	"crypto/ed25519"
	_ "crypto/md5"
	stdrsa "crypto/rsa"
	_ "crypto/sha1"
	_ "crypto/sha256"
	_ "crypto/sha512"
	stdasn1 "encoding/asn1"
	"fmt"

	"github.com/zmap/zcrypto/x509"
	"verifmc/internal/fx"
)

// key kinds of the space (6).
var keyKinds = []string{"ed25519", "rsa2048", "p224", "p256", "p384", "p521"}

type keyMat struct {
	kind   string
	family string // "rsa" | "ecdsa" | "ed25519"
	signer crypto.Signer
	stdPub crypto.PublicKey
}

func keyFixture(kind string) string {
	if kind == "ed25519" {
		return "c05-ed25519"
	}
	return kind
}

func newKeyMat(kind string) *keyMat {
	k := &keyMat{kind: kind, signer: fx.Signer(keyFixture(kind))}
	switch {
	case kind == "ed25519":
		k.family = "ed25519"
		k.stdPub = fx.Ed(keyFixture(kind)).Public()
	case kind[0] == 'r':
		k.family = "rsa"
		k.stdPub = &fx.StdRSA(kind).PublicKey
	default:
		k.family = "ecdsa"
		k.stdPub = &fx.EC(kind).PublicKey
	}
	return k
}

// algInfo is the independent description of a signature algorithm; the index
// is the numeric value of x509.SignatureAlgorithm (documented constants).
type algInfo struct {
	name   string
	family string // rsa-pkcs1 | rsa-pss | ecdsa | ed25519 | dsa | none
	hash   crypto.Hash
}

var algs = map[x509.SignatureAlgorithm]algInfo{
	x509.UnknownSignatureAlgorithm: {"default(0)", "none", 0},
	x509.MD2WithRSA:                {"MD2WithRSA", "rsa-pkcs1", 0},
	x509.MD5WithRSA:                {"MD5WithRSA", "rsa-pkcs1", crypto.MD5},
	x509.SHA1WithRSA:               {"SHA1WithRSA", "rsa-pkcs1", crypto.SHA1},
	x509.SHA256WithRSA:             {"SHA256WithRSA", "rsa-pkcs1", crypto.SHA256},
	x509.SHA384WithRSA:             {"SHA384WithRSA", "rsa-pkcs1", crypto.SHA384},
	x509.SHA512WithRSA:             {"SHA512WithRSA", "rsa-pkcs1", crypto.SHA512},
	x509.DSAWithSHA1:               {"DSAWithSHA1", "dsa", crypto.SHA1},
	x509.DSAWithSHA256:             {"DSAWithSHA256", "dsa", crypto.SHA256},
	x509.ECDSAWithSHA1:             {"ECDSAWithSHA1", "ecdsa", crypto.SHA1},
	x509.ECDSAWithSHA256:           {"ECDSAWithSHA256", "ecdsa", crypto.SHA256},
	x509.ECDSAWithSHA384:           {"ECDSAWithSHA384", "ecdsa", crypto.SHA384},
	x509.ECDSAWithSHA512:           {"ECDSAWithSHA512", "ecdsa", crypto.SHA512},
	x509.SHA256WithRSAPSS:          {"SHA256WithRSAPSS", "rsa-pss", crypto.SHA256},
	x509.SHA384WithRSAPSS:          {"SHA384WithRSAPSS", "rsa-pss", crypto.SHA384},
	x509.SHA512WithRSAPSS:          {"SHA512WithRSAPSS", "rsa-pss", crypto.SHA512},
	x509.Ed25519Sig:                {"Ed25519", "ed25519", 0},
}

// sigAlgAlts is the SignatureAlgorithm axis: every constant plus one value
// beyond the last constant.
var sigAlgAlts = func() (names []string, vals []x509.SignatureAlgorithm) {
	for a := x509.SignatureAlgorithm(0); a <= x509.Ed25519Sig+1; a++ {
		vals = append(vals, a)
		if i, ok := algs[a]; ok {
			names = append(names, i.name)
		} else {
			names = append(names, fmt.Sprintf("undefined(%d)", int(a)))
		}
	}
	return
}

// signerAlt is one alternative of the joint "signer" field: DESIGN's
// "SignatureAlgorithm (all accepted) x key kind" is enumerated as ALL
// (key kind, SignatureAlgorithm) pairs, so that which pairs are accepted is
// observed, not assumed, and every pair meets every other single deviation.
type signerAlt struct {
	kind string
	alg  x509.SignatureAlgorithm
}

var signerAlts, signerNames = func() (alts []signerAlt, names []string) {
	_, vals := sigAlgAlts()
	for _, k := range keyKinds { // keyKinds[0] x vals[0] = (ed25519, default) is the baseline
		for _, a := range vals {
			alts = append(alts, signerAlt{k, a})
			n := fmt.Sprintf("undefined(%d)", int(a))
			if i, ok := algs[a]; ok {
				n = i.name
			}
			names = append(names, k+"/"+n)
		}
	}
	return
}()

// algDomain classifies (key family, requested algorithm):
// "must"   creation must succeed (algorithm fits the key, hash is a current one),
// "either" the statement is silent (mismatch, undefined, DSA, MD2, MD5).
func algDomain(k *keyMat, a x509.SignatureAlgorithm) string {
	info, ok := algs[a]
	if !ok {
		return "either"
	}
	if a == 0 {
		return "must"
	}
	switch k.family {
	case "rsa":
		if (info.family == "rsa-pkcs1" || info.family == "rsa-pss") && info.hash != 0 && info.hash != crypto.MD5 {
			return "must"
		}
	case "ecdsa":
		if info.family == "ecdsa" {
			return "must"
		}
	case "ed25519":
		if info.family == "ed25519" {
			return "must"
		}
	}
	return "either"
}

type signedObj struct {
	TBS stdasn1.RawValue
	Alg algID
	Sig stdasn1.BitString
}

type algID struct {
	Algorithm  stdasn1.ObjectIdentifier
	Parameters stdasn1.RawValue `asn1:"optional"`
}

type pssParams struct {
	Hash    algID `asn1:"explicit,tag:0"`
	MGF     algID `asn1:"explicit,tag:1"`
	SaltLen int   `asn1:"explicit,tag:2"`
	Trailer int   `asn1:"optional,explicit,tag:3,default:1"`
}

var oidToAlg = map[string]x509.SignatureAlgorithm{
	"1.2.840.113549.1.1.2":   x509.MD2WithRSA,
	"1.2.840.113549.1.1.4":   x509.MD5WithRSA,
	"1.2.840.113549.1.1.5":   x509.SHA1WithRSA,
	"1.3.14.3.2.29":          x509.SHA1WithRSA,
	"1.2.840.113549.1.1.11":  x509.SHA256WithRSA,
	"1.2.840.113549.1.1.12":  x509.SHA384WithRSA,
	"1.2.840.113549.1.1.13":  x509.SHA512WithRSA,
	"1.2.840.10040.4.3":      x509.DSAWithSHA1,
	"2.16.840.1.101.3.4.3.2": x509.DSAWithSHA256,
	"1.2.840.10045.4.1":      x509.ECDSAWithSHA1,
	"1.2.840.10045.4.3.2":    x509.ECDSAWithSHA256,
	"1.2.840.10045.4.3.3":    x509.ECDSAWithSHA384,
	"1.2.840.10045.4.3.4":    x509.ECDSAWithSHA512,
	"1.3.101.112":            x509.Ed25519Sig,
}

var pssHashOID = map[string]x509.SignatureAlgorithm{
	"2.16.840.1.101.3.4.2.1": x509.SHA256WithRSAPSS,
	"2.16.840.1.101.3.4.2.2": x509.SHA384WithRSAPSS,
	"2.16.840.1.101.3.4.2.3": x509.SHA512WithRSAPSS,
}

// splitSigned parses SEQUENCE { tbs, AlgorithmIdentifier, BIT STRING }.
func splitSigned(der []byte) (tbs []byte, declared x509.SignatureAlgorithm, sig []byte, err error) {
	var o signedObj
	rest, err := stdasn1.Unmarshal(der, &o)
	if err != nil {
		return nil, 0, nil, err
	}
	if len(rest) != 0 {
		return nil, 0, nil, fmt.Errorf("trailing data")
	}
	if o.Sig.BitLength%8 != 0 {
		return nil, 0, nil, fmt.Errorf("signature bit string has %d bits", o.Sig.BitLength)
	}
	oid := o.Alg.Algorithm.String()
	if oid == "1.2.840.113549.1.1.10" {
		var p pssParams
		if rest, err := stdasn1.Unmarshal(o.Alg.Parameters.FullBytes, &p); err != nil || len(rest) != 0 {
			return nil, 0, nil, fmt.Errorf("RSASSA-PSS parameters do not parse: %v", err)
		}
		a, ok := pssHashOID[p.Hash.Algorithm.String()]
		if !ok {
			return nil, 0, nil, fmt.Errorf("RSASSA-PSS hash %v", p.Hash.Algorithm)
		}
		if p.MGF.Algorithm.String() != "1.2.840.113549.1.1.8" {
			return nil, 0, nil, fmt.Errorf("RSASSA-PSS mgf %v", p.MGF.Algorithm)
		}
		var mh algID
		if _, err := stdasn1.Unmarshal(p.MGF.Parameters.FullBytes, &mh); err != nil || !mh.Algorithm.Equal(p.Hash.Algorithm) {
			return nil, 0, nil, fmt.Errorf("RSASSA-PSS mgf hash differs from message hash")
		}
		if p.SaltLen != algs[a].hash.Size() || p.Trailer != 1 {
			return nil, 0, nil, fmt.Errorf("RSASSA-PSS salt %d trailer %d", p.SaltLen, p.Trailer)
		}
		return o.TBS.FullBytes, a, o.Sig.Bytes, nil
	}
	a, ok := oidToAlg[oid]
	if !ok {
		return nil, 0, nil, fmt.Errorf("unknown signature algorithm OID %s", oid)
	}
	return o.TBS.FullBytes, a, o.Sig.Bytes, nil
}

// primVerify verifies sig over tbs under algorithm a with the standard
// library primitives. err == nil means genuine.
func primVerify(pub crypto.PublicKey, a x509.SignatureAlgorithm, tbs, sig []byte) error {
	info, ok := algs[a]
	if !ok || info.family == "none" {
		return fmt.Errorf("no such algorithm %d", int(a))
	}
	digest := tbs
	if info.family != "ed25519" {
		if info.hash == 0 || !info.hash.Available() {
			return fmt.Errorf("hash of %s unavailable", info.name)
		}
		h := info.hash.New()
		h.Write(tbs)
		digest = h.Sum(nil)
	}
	switch p := pub.(type) {
	case *stdrsa.PublicKey:
		switch info.family {
		case "rsa-pkcs1":
			return stdrsa.VerifyPKCS1v15(p, info.hash, digest, sig)
		case "rsa-pss":
			return stdrsa.VerifyPSS(p, info.hash, digest, sig, &stdrsa.PSSOptions{SaltLength: info.hash.Size(), Hash: info.hash})
		}
	case *ecdsa.PublicKey:
		if info.family == "ecdsa" {
			if ecdsa.VerifyASN1(p, digest, sig) {
				return nil
			}
			return fmt.Errorf("ecdsa verification failure")
		}
	case ed25519.PublicKey:
		if info.family == "ed25519" {
			if ed25519.Verify(p, tbs, sig) {
				return nil
			}
			return fmt.Errorf("ed25519 verification failure")
		}
	}
	return fmt.Errorf("%s does not fit key %T", info.name, pub)
}

// verifiesAs names every algorithm family under which the signature IS genuine
// (diagnosis only: it goes into the violation signature so that "PSS declared,
// PKCS#1 v1.5 produced" is visible).
func verifiesAs(pub crypto.PublicKey, tbs, sig []byte) string {
	fams := map[string]bool{}
	for a := x509.MD5WithRSA; a <= x509.Ed25519Sig; a++ {
		if primVerify(pub, a, tbs, sig) == nil {
			fams[algs[a].family] = true
		}
	}
	out := ""
	for _, f := range []string{"rsa-pkcs1", "rsa-pss", "ecdsa", "ed25519"} {
		if fams[f] {
			if out != "" {
				out += "+"
			}
			out += f
		}
	}
	if out == "" {
		return "nothing"
	}
	return out
}

// checkSignatureIndependent runs the primitive oracle on a created object.
// requested is the template's SignatureAlgorithm (0 = library default).
func (r *runner) checkSignatureIndependent(k *keyMat, requested x509.SignatureAlgorithm) (declared x509.SignatureAlgorithm, ok bool) {
	tbs, declared, sig, err := splitSigned(r.der)
	r.c.Evaluations.Add(1)
	if err != nil {
		r.viol("independent decoder cannot split the signed object / its AlgorithmIdentifier", err.Error())
		return 0, false
	}
	if requested != 0 && declared != requested {
		r.viol("declared AlgorithmIdentifier differs from the requested SignatureAlgorithm",
			fmt.Sprintf("requested %s, DER declares %s", algs[requested].name, algs[declared].name))
		return declared, false
	}
	if err := primVerify(k.stdPub, declared, tbs, sig); err != nil {
		r.viol(fmt.Sprintf("standard-library primitive rejects the signature under the declared algorithm [declared=%s, genuine as %s]",
			algs[declared].family, verifiesAs(k.stdPub, tbs, sig)),
			fmt.Sprintf("declared %s key %s: %v", algs[declared].name, k.kind, err))
		return declared, false
	}
	r.out("signature genuine under declared algorithm (stdlib primitives) [" + algs[declared].family + "]")
	return declared, true
}
