package main

import (
	"bytes"
	stdx509 "crypto/x509"
	stdasn1 "encoding/asn1"
	"errors"
	"fmt"
	"net"

	"github.com/zmap/zcrypto/x509"
	"github.com/zmap/zcrypto/x509/pkix"
	"verifmc/internal/ev"
	"verifmc/internal/fx"
)

// rawSubjectDER is a Name the pkix.Name struct cannot express: a multi-valued
// RDN {CN, OU} followed by an IA5String emailAddress. Built with the standard
// encoding/asn1.
var rawSubjectDER, rawSubjectAttrs = func() ([]byte, []atv) {
	type a struct {
		T stdasn1.ObjectIdentifier
		V stdasn1.RawValue
	}
	str := func(tag int, s string) stdasn1.RawValue { return stdasn1.RawValue{Tag: tag, Bytes: []byte(s)} }
	type set []a
	seq := []stdasn1.RawValue{}
	for _, s := range []set{
		{{stdOID("2.5.4.3"), str(stdasn1.TagPrintableString, "raw.example")}, {stdOID("2.5.4.11"), str(stdasn1.TagUTF8String, "räw")}},
		{{stdOID("1.2.840.113549.1.9.1"), str(stdasn1.TagIA5String, "r@example.org")}},
	} {
		var content []byte
		for _, e := range s {
			b, err := stdasn1.Marshal(e)
			if err != nil {
				panic(err)
			}
			content = append(content, b...)
		}
		seq = append(seq, stdasn1.RawValue{Tag: stdasn1.TagSet, IsCompound: true, Bytes: content})
	}
	b, err := stdasn1.Marshal(seq)
	if err != nil {
		panic(err)
	}
	return b, []atv{{"2.5.4.3", "raw.example"}, {"2.5.4.11", "räw"}, {"1.2.840.113549.1.9.1", "r@example.org"}}
}()

type ipAlt struct {
	id  string
	ips []net.IP
}

var (
	csrSubjects = []string{"cn", "multi", "utf8+extra", "empty", "raw", "raw+conflicting-Subject"}
	csrDNS      = [][]string{{"csr.example"}, nil, {"a.example", "*.b.example", "xn--nxasmq6b.example"}}
	csrEmail    = [][]string{nil, {"a@example.org"}, {"a@example.org", "b+c@sub.example.org"}}
	csrIPs      = []ipAlt{
		{"none", nil},
		{"v4", []net.IP{net.IP{192, 0, 2, 1}}},
		{"v4-in-16-byte-form", []net.IP{net.ParseIP("192.0.2.7")}},
		{"v6", []net.IP{net.ParseIP("2001:db8::1")}},
		{"v4+v6", []net.IP{net.IP{198, 51, 100, 9}, net.ParseIP("2001:db8::2")}},
	}
	csrExtras = []string{"none", "unknown", "san-override", "unknown-critical", "unknown+san-override"}
	csrAttrs  = []string{"none", "extensionRequest-naming-SAN", "extensionRequest-naming-the-unknown-extension",
		"extensionRequest-with-another-extension", "non-extension-attribute", "non-extension+extensionRequest-naming-SAN"}
)

func csrSpace() *space {
	names := func(n int, f func(i int) string) []string {
		out := make([]string, n)
		for i := range out {
			out[i] = f(i)
		}
		return out
	}
	sp := &space{kind: "csr", fields: []field{
		{"subject", csrSubjects},
		{"dns", names(len(csrDNS), func(i int) string { return fmt.Sprintf("%d-names", len(csrDNS[i])) })},
		{"email", names(len(csrEmail), func(i int) string { return fmt.Sprintf("%d-addrs", len(csrEmail[i])) })},
		{"ip", names(len(csrIPs), func(i int) string { return csrIPs[i].id })},
		{"extraExtensions", csrExtras},
		{"attributes", csrAttrs},
		{"signer", signerNames},
	}}
	sp.api = "CreateCertificateRequest"
	sp.build = func(r *runner, a []int) caseObj { return buildCSR(r, a) }
	sp.check = checkCSR
	sp.editAlts = func(f, cur int, full bool) []int { return signerEditAlts(f == 6, f, cur, full, len(sp.fields[f].alts)) }
	return sp
}

// signerEditAlts: the alternatives a reuse history may switch a field to. Only the joint signer field
// (108 alternatives = key kind x algorithm) is restricted in the quick tier: it moves along one of its
// two axes (another algorithm with the same key, or another key with the default algorithm).
func signerEditAlts(isSigner bool, f, cur int, full bool, n int) []int {
	var out []int
	nAlg := len(signerAlts) / len(keyKinds)
	for v := 0; v < n; v++ {
		if isSigner && !full && v/nAlg != cur/nAlg && v%nAlg != 0 {
			continue
		}
		out = append(out, v)
	}
	return out
}

// csrCase: the inputs of CreateCertificateRequest and what the request must report.
type csrCase struct {
	t   *x509.CertificateRequest
	k   *keyMat
	alg x509.SignatureAlgorithm

	wantAttrs                 []atv
	wantName                  pkix.Name
	rawSubject, subjectEither bool
	wantExts                  []xext
	critStrict, critSupplied  bool
	wantDNS, wantEmail        []string
	wantIPs                   []net.IP
	generatedSAN              bool
}

func (cs *csrCase) create() ([]byte, error) {
	return x509.CreateCertificateRequest(fx.NewRand("c05-csr"), cs.t, cs.k.signer)
}

func (cs *csrCase) inputs() map[string]any { return map[string]any{"template": cs.t} }

func (cs *csrCase) adopt(donor caseObj, f int) {
	d := donor.(*csrCase)
	switch f {
	case 0:
		// the caller assigns what the new alternative supplies and nothing else: RawSubject is only
		// touched when the old or the new alternative is about RawSubject (whatever a creation call may
		// have left in a field the caller never set stays there)
		cs.t.Subject = d.t.Subject
		if cs.rawSubject || cs.subjectEither || d.rawSubject || d.subjectEither {
			cs.t.RawSubject = d.t.RawSubject
		}
		cs.rawSubject, cs.subjectEither = d.rawSubject, d.subjectEither
	case 1:
		cs.t.DNSNames = d.t.DNSNames
	case 2:
		cs.t.EmailAddresses = d.t.EmailAddresses
	case 3:
		cs.t.IPAddresses = d.t.IPAddresses
	case 4:
		cs.t.ExtraExtensions = d.t.ExtraExtensions
	case 5:
		cs.t.Attributes = d.t.Attributes
	case 6:
		cs.t.SignatureAlgorithm, cs.alg, cs.k = d.t.SignatureAlgorithm, d.alg, d.k
	}
}

func cloneIPs(in []net.IP) []net.IP {
	if in == nil {
		return nil
	}
	out := make([]net.IP, len(in))
	for i, ip := range in {
		out[i] = append(net.IP{}, ip...)
	}
	return out
}

func cloneStrs(in []string) []string {
	if in == nil {
		return nil
	}
	return append([]string{}, in...)
}

func buildCSR(r *runner, a []int) *csrCase {
	subjAlt, extraAlt, attrAlt := csrSubjects[a[0]], csrExtras[a[4]], csrAttrs[a[5]]
	// nothing is shared with the alternative tables or with another case
	dns, email, ips := cloneStrs(csrDNS[a[1]]), cloneStrs(csrEmail[a[2]]), cloneIPs(csrIPs[a[3]].ips)
	alg := signerAlts[a[6]].alg
	k := r.key(signerAlts[a[6]].kind)

	// ---- template ----
	t := &x509.CertificateRequest{DNSNames: cloneStrs(dns), EmailAddresses: cloneStrs(email), IPAddresses: cloneIPs(ips), SignatureAlgorithm: alg}
	var wantAttrs []atv
	var wantName pkix.Name
	rawSubject, subjectEither := false, false
	switch subjAlt {
	case "cn":
		s := shapeCN("csr.example")
		t.Subject, wantAttrs, wantName = s.name, s.attrs, s.name
	case "multi":
		s := shapeMulti("multi.example")
		t.Subject, wantAttrs, wantName = s.name, s.attrs, s.name
	case "utf8+extra":
		s := shapeUTF8("csr")
		t.Subject, wantAttrs, wantName = s.name, s.attrs, s.name
	case "empty":
	case "raw":
		t.RawSubject, wantAttrs, rawSubject = append([]byte{}, rawSubjectDER...), rawSubjectAttrs, true
		wantName = pkix.Name{CommonName: "raw.example", OrganizationalUnit: []string{"räw"}, EmailAddress: []string{"r@example.org"}}
	case "raw+conflicting-Subject":
		t.RawSubject, t.Subject, subjectEither = append([]byte{}, rawSubjectDER...), pkix.Name{CommonName: "conflict.example"}, true
	}

	// expected extensions (multiset of id/value), written from the doc of ExtraExtensions:
	// "Values override any extensions that would otherwise be produced based on the other
	// fields but are overridden by any extensions specified in Attributes."
	sanOverride := xext{oidSAN, false, sanValue([]string{"override.example"}, nil, nil)}
	sanAttr := xext{oidSAN, false, sanValue([]string{"attr.example"}, []string{"attr@example.org"}, nil)}
	unkA := xext{oidUnknownA, false, unknownAValue}
	var extras []xext
	switch extraAlt {
	case "unknown":
		extras = []xext{unkA}
	case "san-override":
		extras = []xext{sanOverride}
	case "unknown-critical":
		extras = []xext{{oidUnknownA, true, unknownAValue}}
	case "unknown+san-override":
		extras = []xext{unkA, sanOverride}
	}
	for _, e := range extras {
		t.ExtraExtensions = append(t.ExtraExtensions, e.z())
	}
	var attrExts []xext
	extReq := func(es ...xext) pkix.AttributeTypeAndValueSET {
		var l []pkix.AttributeTypeAndValue
		for _, e := range es {
			l = append(l, pkix.AttributeTypeAndValue{Type: oid(e.id), Value: hexb(e.val)})
		}
		attrExts = append(attrExts, es...)
		return pkix.AttributeTypeAndValueSET{Type: oid(oidExtReq), Value: [][]pkix.AttributeTypeAndValue{l}}
	}
	nonExt := pkix.AttributeTypeAndValueSET{Type: oid(oidPrivAttr),
		Value: [][]pkix.AttributeTypeAndValue{{{Type: oid("2.5.4.3"), Value: "attribute value"}}}}
	switch attrAlt {
	case "extensionRequest-naming-SAN":
		t.Attributes = []pkix.AttributeTypeAndValueSET{extReq(sanAttr)}
	case "extensionRequest-naming-the-unknown-extension":
		t.Attributes = []pkix.AttributeTypeAndValueSET{extReq(xext{oidUnknownA, false, "0403010203"})}
	case "extensionRequest-with-another-extension":
		t.Attributes = []pkix.AttributeTypeAndValueSET{extReq(xext{oidUnknownB, false, "0500"})}
	case "non-extension-attribute":
		t.Attributes = []pkix.AttributeTypeAndValueSET{nonExt}
	case "non-extension+extensionRequest-naming-SAN":
		t.Attributes = []pkix.AttributeTypeAndValueSET{nonExt, extReq(sanAttr)}
	}

	// The critical flag of an ExtraExtension is part of what was supplied. One
	// exception: when template.Attributes (deprecated) already carries an
	// extensionRequest attribute, the extensions are merged into that caller-built
	// []AttributeTypeAndValue, a type with no field for the flag (crypto/x509 has
	// the same limitation): kept or dropped are both accepted there and counted.
	critStrict := len(attrExts) == 0
	critSupplied := false
	wantExts := append([]xext(nil), attrExts...)
	for _, e := range extras {
		if countExt(attrExts, e.id) == 0 {
			wantExts = append(wantExts, xext{e.id, e.crit, e.val})
			critSupplied = critSupplied || e.crit
		}
	}
	// effective SAN source
	wantDNS, wantEmail, wantIPs := dns, email, ips
	generatedSAN := false
	switch {
	case countExt(attrExts, oidSAN) > 0:
		wantDNS, wantEmail, wantIPs = []string{"attr.example"}, []string{"attr@example.org"}, nil
	case countExt(extras, oidSAN) > 0:
		wantDNS, wantEmail, wantIPs = []string{"override.example"}, nil, nil
	case len(dns)+len(email)+len(ips) > 0:
		generatedSAN = true
	}

	return &csrCase{t: t, k: k, alg: alg, wantAttrs: wantAttrs, wantName: wantName, rawSubject: rawSubject, subjectEither: subjectEither,
		wantExts: wantExts, critStrict: critStrict, critSupplied: critSupplied, wantDNS: wantDNS, wantEmail: wantEmail, wantIPs: wantIPs,
		generatedSAN: generatedSAN}
}

// checkCSR judges the outcome of the creation call by the expectations of exp.
func checkCSR(r *runner, a []int, exp caseObj, der []byte, err error) {
	c := r.c
	cs := exp.(*csrCase)
	k, alg := cs.k, cs.alg
	wantAttrs, wantName, rawSubject, subjectEither := cs.wantAttrs, cs.wantName, cs.rawSubject, cs.subjectEither
	wantExts, critStrict, critSupplied := cs.wantExts, cs.critStrict, cs.critSupplied
	wantDNS, wantEmail, wantIPs, generatedSAN := cs.wantDNS, cs.wantEmail, cs.wantIPs, cs.generatedSAN

	dom := algDomain(k, alg)
	if err != nil {
		if dom == "must" {
			r.viol("CreateCertificateRequest fails inside the documented domain: "+ev.MsgClass(err.Error()), err.Error())
			return
		}
		r.out("create refused (statement-silent algorithm/key combination): " + ev.MsgClass(err.Error()))
		return
	}
	r.der = der
	c.Traces.Add(1)
	if dom != "must" {
		r.out("created with a statement-silent algorithm/key combination (" + algs[alg].name + ")")
	}

	// ---- parse back (zcrypto) ----
	var p *x509.CertificateRequest
	panicked, msg, site := ev.Try(func() { p, err = x509.ParseCertificateRequest(der) })
	c.Transitions.Add(1)
	if panicked {
		r.viol("panic@"+site+" in ParseCertificateRequest of a created request: "+ev.MsgClass(msg), msg)
		return
	}
	if err != nil {
		r.viol("ParseCertificateRequest rejects a created request: "+ev.MsgClass(err.Error()), err.Error())
		return
	}
	c.Distinct.Add(1)

	// subject
	c.Evaluations.Add(1)
	switch {
	case subjectEither:
		if bytes.Equal(p.RawSubject, rawSubjectDER) {
			r.out("RawSubject+Subject both set: RawSubject wins")
		} else if canonATVs(zNames(p.Subject.Names)) == canonATVs([]atv{{"2.5.4.3", "conflict.example"}}) {
			r.out("RawSubject+Subject both set: Subject wins")
		} else {
			r.viol("parsed subject is neither the supplied RawSubject nor the supplied Subject", fmt.Sprintf("raw subject %x", p.RawSubject))
		}
	default:
		if rawSubject && !bytes.Equal(p.RawSubject, rawSubjectDER) {
			r.viol("parsed RawSubject differs from the supplied RawSubject", fmt.Sprintf("got %x want %x", p.RawSubject, rawSubjectDER))
		}
		if g, w := canonATVs(zNames(p.Subject.Names)), canonATVs(wantAttrs); g != w {
			r.viol("parsed subject attributes differ from the supplied subject", fmt.Sprintf("got [%s] want [%s]", g, w))
		} else if d := nameFieldsDiff(wantName, p.Subject); d != "" {
			r.viol("parsed subject fields differ from the supplied subject", d)
		}
	}

	// SANs
	c.Evaluations.Add(1)
	if !sameStrings(p.DNSNames, wantDNS) || !sameStrings(p.EmailAddresses, wantEmail) {
		r.viol("parsed DNS/email SANs differ from the supplied ones",
			fmt.Sprintf("dns %q want %q; email %q want %q", p.DNSNames, wantDNS, p.EmailAddresses, wantEmail))
	}
	if d := ipDiff(p.IPAddresses, wantIPs); d != "" {
		r.viol("parsed IP SANs differ from the supplied ones", d)
	}

	// extensions
	c.Evaluations.Add(1)
	got := zExts(p.Extensions)
	if generatedSAN {
		if n := countExt(got, oidSAN); n != 1 {
			r.viol("created request does not carry exactly one generated subjectAltName extension", fmt.Sprintf("%d SAN extensions", n))
		}
		got = without(got, oidSAN)
	}
	if g, w := canonExts(got, false), canonExts(wantExts, false); g != w {
		r.viol("parsed extensions differ from the supplied ExtraExtensions/Attributes (override rules of the ExtraExtensions doc)",
			fmt.Sprintf("got [%s] want [%s]", g, w))
	} else if g, w := canonExts(got, true), canonExts(wantExts, true); g != w {
		if critStrict {
			r.viol("parsed extensions lost or gained the Critical flag of the supplied ExtraExtensions", fmt.Sprintf("got [%s] want [%s]", g, w))
		} else {
			r.out("critical ExtraExtension merged into a caller-supplied extensionRequest attribute: flag dropped (AttributeTypeAndValue cannot carry it)")
		}
	} else if critSupplied {
		if critStrict {
			r.out("critical ExtraExtension: flag round-trips")
		} else {
			r.out("critical ExtraExtension merged into a caller-supplied extensionRequest attribute: flag kept")
		}
	}

	// ---- self-verification (zcrypto API) ----
	panicked, msg, site = ev.Try(func() { err = p.CheckSignature() })
	c.Transitions.Add(1)
	c.Evaluations.Add(1)
	fam := algs[alg].family
	if panicked {
		r.viol("panic@"+site+" in CertificateRequest.CheckSignature: "+ev.MsgClass(msg), msg)
	} else if err != nil {
		r.viol("CertificateRequest.CheckSignature rejects a created request [requested algorithm family "+fam+"]",
			fmt.Sprintf("requested %s key %s: %v", algs[alg].name, k.kind, err))
	} else {
		r.out("CheckSignature accepts [" + fam + "]")
	}

	// ---- independent signature oracle ----
	r.checkSignatureIndependent(k, alg)

	// ---- independent parse (crypto/x509) ----
	sp, serr := stdx509.ParseCertificateRequest(der)
	c.Evaluations.Add(1)
	if serr != nil {
		r.out("crypto/x509 does not accept the DER: " + ev.MsgClass(serr.Error()))
		return
	}
	r.out("crypto/x509 parses the DER")
	if !subjectEither {
		if g, w := canonATVs(stdNames(sp.Subject.Names)), canonATVs(wantAttrs); g != w {
			r.viol("crypto/x509 reads a different subject from the created request", fmt.Sprintf("got [%s] want [%s]", g, w))
		}
	}
	if !sameStrings(sp.DNSNames, wantDNS) || !sameStrings(sp.EmailAddresses, wantEmail) || ipDiff(sp.IPAddresses, wantIPs) != "" {
		r.viol("crypto/x509 reads different SANs from the created request",
			fmt.Sprintf("dns %q email %q ip %v; want %q %q %v", sp.DNSNames, sp.EmailAddresses, sp.IPAddresses, wantDNS, wantEmail, wantIPs))
	}
	sgot := stdExts(sp.Extensions)
	if generatedSAN {
		sgot = without(sgot, oidSAN)
	}
	if g, w := canonExts(sgot, false), canonExts(wantExts, false); g != w {
		r.viol("crypto/x509 reads different extensions from the created request", fmt.Sprintf("got [%s] want [%s]", g, w))
	} else if g, w := canonExts(sgot, true), canonExts(wantExts, true); g != w && critStrict {
		r.viol("crypto/x509 reads another Critical flag than the supplied ExtraExtensions carry", fmt.Sprintf("got [%s] want [%s]", g, w))
	}
	if err := sp.CheckSignature(); err != nil {
		var insecure stdx509.InsecureAlgorithmError
		if errors.As(err, &insecure) || errors.Is(err, stdx509.ErrUnsupportedAlgorithm) {
			r.out("crypto/x509 CheckSignature abstains (insecure/unsupported algorithm)")
		} else {
			r.viol("crypto/x509 CertificateRequest.CheckSignature rejects the created request [requested algorithm family "+fam+"]",
				fmt.Sprintf("requested %s key %s: %v", algs[alg].name, k.kind, err))
		}
	} else {
		r.out("crypto/x509 CheckSignature accepts")
	}
	if ndev(a) == 2 && a[4] != 0 && a[5] != 0 && r.sampleOK() {
		c.Sample(map[string]any{"case": r.sp.describe(a), "der_len": len(der), "extensions": canonExts(zExts(p.Extensions), false)})
	}
}

func ipDiff(got, want []net.IP) string {
	if len(got) != len(want) {
		return fmt.Sprintf("got %v want %v", got, want)
	}
	used := make([]bool, len(got))
outer:
	for _, w := range want {
		for i, g := range got {
			if !used[i] && g.Equal(w) {
				used[i] = true
				continue outer
			}
		}
		return fmt.Sprintf("got %v want %v", got, want)
	}
	return ""
}
