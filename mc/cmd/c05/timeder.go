package main

// Independent check of the Time encodings inside a created CRL / revocation
// list, written from RFC 5280 5.1.2.4-5.1.2.6 and 4.1.2.5: dates through 2049
// are UTCTime "YYMMDDHHMMSSZ", dates in 2050 or later are GeneralizedTime
// "YYYYMMDDHHMMSSZ"; both are expressed in Zulu, include seconds and carry no
// fractional seconds. The TBSCertList is walked with the standard encoding/asn1.

import (
	stdasn1 "encoding/asn1"
	"fmt"
	"sort"
	"strings"
	"time"
)

func rfc5280Time(t time.Time) string {
	u := t.UTC()
	if u.Year() < 2050 {
		return "UTCTime " + u.Format("060102150405Z")
	}
	return "GeneralizedTime " + u.Format("20060102150405Z")
}

func children(content []byte) ([]stdasn1.RawValue, error) {
	var out []stdasn1.RawValue
	for len(content) > 0 {
		var rv stdasn1.RawValue
		rest, err := stdasn1.Unmarshal(content, &rv)
		if err != nil {
			return nil, err
		}
		out = append(out, rv)
		content = rest
	}
	return out, nil
}

func timeString(rv stdasn1.RawValue) (string, bool) {
	if rv.Class != 0 {
		return "", false
	}
	switch rv.Tag {
	case stdasn1.TagUTCTime:
		return "UTCTime " + string(rv.Bytes), true
	case stdasn1.TagGeneralizedTime:
		return "GeneralizedTime " + string(rv.Bytes), true
	}
	return "", false
}

// crlTimesDER extracts (thisUpdate, nextUpdate, revocation dates) as written.
func crlTimesDER(der []byte) (upd []string, revoked []string, err error) {
	var outer stdasn1.RawValue
	if _, err = stdasn1.Unmarshal(der, &outer); err != nil {
		return
	}
	top, err := children(outer.Bytes)
	if err != nil || len(top) != 3 {
		return nil, nil, fmt.Errorf("CertificateList does not have 3 members (%v)", err)
	}
	tbs, err := children(top[0].Bytes)
	if err != nil {
		return
	}
	i := 0
	if i < len(tbs) && tbs[i].Class == 0 && tbs[i].Tag == stdasn1.TagInteger {
		i++ // version
	}
	i += 2 // signature, issuer
	for ; i < len(tbs); i++ {
		s, ok := timeString(tbs[i])
		if !ok {
			break
		}
		upd = append(upd, s)
	}
	if i < len(tbs) && tbs[i].Class == 0 && tbs[i].Tag == stdasn1.TagSequence {
		entries, err := children(tbs[i].Bytes)
		if err != nil {
			return nil, nil, err
		}
		for _, e := range entries {
			ec, err := children(e.Bytes)
			if err != nil || len(ec) < 2 {
				return nil, nil, fmt.Errorf("revoked entry with %d members (%v)", len(ec), err)
			}
			s, ok := timeString(ec[1])
			if !ok {
				return nil, nil, fmt.Errorf("revocationDate has tag %d", ec[1].Tag)
			}
			revoked = append(revoked, s)
		}
	}
	return
}

func (r *runner) checkTimesDER(thisUpd, nextUpd time.Time, want []entry) {
	r.c.Evaluations.Add(1)
	upd, rev, err := crlTimesDER(r.der)
	if err != nil {
		r.viol("independent walker cannot read the TBSCertList of the created list", err.Error())
		return
	}
	wantUpd := []string{rfc5280Time(thisUpd), rfc5280Time(nextUpd)}
	var wantRev []string
	for _, e := range want {
		wantRev = append(wantRev, rfc5280Time(e.t))
	}
	sort.Strings(wantRev)
	sort.Strings(rev)
	if strings.Join(upd, ",") != strings.Join(wantUpd, ",") {
		r.viol("thisUpdate/nextUpdate are not encoded as RFC 5280 5.1.2.4/5.1.2.5 requires (UTCTime through 2049, GeneralizedTime from 2050, Zulu, whole seconds)",
			fmt.Sprintf("DER has %q, RFC 5280 encoding of the supplied instants is %q", upd, wantUpd))
	}
	if strings.Join(rev, ",") != strings.Join(wantRev, ",") {
		r.viol("revocation dates are not encoded as RFC 5280 5.1.2.6 requires (UTCTime through 2049, GeneralizedTime from 2050, Zulu, whole seconds)",
			fmt.Sprintf("DER has %q, RFC 5280 encoding of the supplied instants is %q", rev, wantRev))
	}
}
