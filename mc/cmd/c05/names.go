package main

import (
	stdx509 "crypto/x509"
	stdpkix "crypto/x509/pkix"
	stdasn1 "encoding/asn1"
	"fmt"
	"math/big"
	"sort"
	"strings"
	"time"

	zasn1 "github.com/zmap/zcrypto/encoding/asn1"
	"github.com/zmap/zcrypto/x509"
	"github.com/zmap/zcrypto/x509/pkix"
	"verifmc/internal/ev"
	"verifmc/internal/fx"
)

// ---- distinguished names -------------------------------------------------

type atv struct{ oid, val string }

// nameShape is a distinguished name given twice, independently: as the
// pkix.Name handed to zcrypto and as the attribute multiset expected back.
type nameShape struct {
	id    string
	name  pkix.Name
	attrs []atv
}

func oid(s string) zasn1.ObjectIdentifier {
	var o zasn1.ObjectIdentifier
	for _, p := range strings.Split(s, ".") {
		var n int
		fmt.Sscanf(p, "%d", &n)
		o = append(o, n)
	}
	return o
}

func stdOID(s string) stdasn1.ObjectIdentifier { return stdasn1.ObjectIdentifier(oid(s)) }

func shapeCN(cn string) nameShape {
	return nameShape{id: "cn", name: pkix.Name{CommonName: cn}, attrs: []atv{{"2.5.4.3", cn}}}
}

func shapeMulti(cn string) nameShape {
	return nameShape{id: "multi",
		name: pkix.Name{Country: []string{"US"}, Organization: []string{"Org One", "Org Two"}, OrganizationalUnit: []string{"Unit"},
			Locality: []string{"City"}, Province: []string{"State"}, StreetAddress: []string{"1 Main St"}, PostalCode: []string{"12345"},
			CommonName: cn, SerialNumber: "SN-42"},
		attrs: []atv{{"2.5.4.6", "US"}, {"2.5.4.10", "Org One"}, {"2.5.4.10", "Org Two"}, {"2.5.4.11", "Unit"}, {"2.5.4.7", "City"},
			{"2.5.4.8", "State"}, {"2.5.4.9", "1 Main St"}, {"2.5.4.17", "12345"}, {"2.5.4.3", cn}, {"2.5.4.5", "SN-42"}}}
}

func shapeUTF8(cn string) nameShape {
	return nameShape{id: "utf8+extra",
		name: pkix.Name{CommonName: cn + " Zoë Ünï", Organization: []string{"Ørg"},
			ExtraNames: []pkix.AttributeTypeAndValue{{Type: oid("2.5.4.12"), Value: "Dr"}, {Type: oid("1.3.6.1.4.1.55555.1"), Value: "custom"}}},
		attrs: []atv{{"2.5.4.3", cn + " Zoë Ünï"}, {"2.5.4.10", "Ørg"}, {"2.5.4.12", "Dr"}, {"1.3.6.1.4.1.55555.1", "custom"}}}
}

func canonATVs(in []atv) string {
	s := make([]string, len(in))
	for i, a := range in {
		s[i] = a.oid + "=" + a.val
	}
	sort.Strings(s)
	return strings.Join(s, " | ")
}

func zNames(n []pkix.AttributeTypeAndValue) []atv {
	out := make([]atv, len(n))
	for i, a := range n {
		out[i] = atv{a.Type.String(), fmt.Sprint(a.Value)}
	}
	return out
}

func zRDNs(r pkix.RDNSequence) []atv {
	var out []atv
	for _, set := range r {
		out = append(out, zNames(set)...)
	}
	return out
}

func stdNames(n []stdpkix.AttributeTypeAndValue) []atv {
	out := make([]atv, len(n))
	for i, a := range n {
		out[i] = atv{a.Type.String(), fmt.Sprint(a.Value)}
	}
	return out
}

func sortedCopy(s []string) []string {
	c := append([]string(nil), s...)
	sort.Strings(c)
	return c
}

func sameStrings(a, b []string) bool {
	return strings.Join(sortedCopy(a), "\x00") == strings.Join(sortedCopy(b), "\x00") && len(a) == len(b)
}

// nameFieldsDiff compares the convenience fields of a parsed zcrypto Name with
// the template's (multi-valued fields as multisets).
func nameFieldsDiff(want, got pkix.Name) string {
	if want.CommonName != got.CommonName {
		return fmt.Sprintf("CommonName %q != %q", got.CommonName, want.CommonName)
	}
	if want.SerialNumber != got.SerialNumber {
		return fmt.Sprintf("SerialNumber %q != %q", got.SerialNumber, want.SerialNumber)
	}
	for _, f := range []struct {
		n    string
		w, g []string
	}{{"Country", want.Country, got.Country}, {"Organization", want.Organization, got.Organization},
		{"OrganizationalUnit", want.OrganizationalUnit, got.OrganizationalUnit}, {"Locality", want.Locality, got.Locality},
		{"Province", want.Province, got.Province}, {"StreetAddress", want.StreetAddress, got.StreetAddress},
		{"PostalCode", want.PostalCode, got.PostalCode}, {"EmailAddress", want.EmailAddress, got.EmailAddress},
		{"DomainComponent", want.DomainComponent, got.DomainComponent}} {
		if !sameStrings(f.w, f.g) {
			return fmt.Sprintf("%s %q != %q", f.n, f.g, f.w)
		}
	}
	return ""
}

// ---- extensions ----------------------------------------------------------

const (
	oidSAN        = "2.5.29.17"
	oidReason     = "2.5.29.21"
	oidCRLNumber  = "2.5.29.20"
	oidAKID       = "2.5.29.35"
	oidExtReq     = "1.2.840.113549.1.9.14"
	oidUnknownA   = "1.3.6.1.4.1.55555.2"
	oidUnknownB   = "1.3.6.1.4.1.55555.3"
	oidUnknownC   = "1.3.6.1.4.1.55555.4"
	oidPrivAttr   = "1.3.6.1.4.1.55555.9"
	unknownAValue = "0402abcd"
)

type xext struct {
	id   string
	crit bool
	val  string // hex
}

func hexb(s string) []byte {
	var b []byte
	fmt.Sscanf(s, "%x", &b)
	return b
}

func (e xext) z() pkix.Extension {
	return pkix.Extension{Id: oid(e.id), Critical: e.crit, Value: hexb(e.val)}
}

func canonExts(in []xext, withCrit bool) string {
	s := make([]string, len(in))
	for i, e := range in {
		s[i] = e.id + ":" + e.val
		if withCrit && e.crit {
			s[i] += ":critical"
		}
	}
	sort.Strings(s)
	return strings.Join(s, " | ")
}

func zExts(in []pkix.Extension) []xext {
	out := make([]xext, len(in))
	for i, e := range in {
		out[i] = xext{e.Id.String(), e.Critical, fmt.Sprintf("%x", e.Value)}
	}
	return out
}

func stdExts(in []stdpkix.Extension) []xext {
	out := make([]xext, len(in))
	for i, e := range in {
		out[i] = xext{e.Id.String(), e.Critical, fmt.Sprintf("%x", e.Value)}
	}
	return out
}

func countExt(in []xext, id string) int {
	n := 0
	for _, e := range in {
		if e.id == id {
			n++
		}
	}
	return n
}

func without(in []xext, id string) []xext {
	var out []xext
	for _, e := range in {
		if e.id != id {
			out = append(out, e)
		}
	}
	return out
}

// sanValue builds a SubjectAltName value with the standard encoding/asn1.
func sanValue(dns, email []string, ips [][]byte) string {
	var rvs []stdasn1.RawValue
	for _, d := range dns {
		rvs = append(rvs, stdasn1.RawValue{Class: 2, Tag: 2, Bytes: []byte(d)})
	}
	for _, e := range email {
		rvs = append(rvs, stdasn1.RawValue{Class: 2, Tag: 1, Bytes: []byte(e)})
	}
	for _, ip := range ips {
		rvs = append(rvs, stdasn1.RawValue{Class: 2, Tag: 7, Bytes: ip})
	}
	b, err := stdasn1.Marshal(rvs)
	if err != nil {
		panic(err)
	}
	return fmt.Sprintf("%x", b)
}

// reasonValue is the DER of ENUMERATED n (RFC 5280 5.3.1), n < 128.
func reasonValue(n int) string { return fmt.Sprintf("0a01%02x", n) }

// ---- times ---------------------------------------------------------------

type timeAlt struct {
	id string
	t  time.Time
}

var (
	zoneEast = time.FixedZone("+0530", 5*3600+1800)
	zoneWest = time.FixedZone("-0500", -5*3600)
)

// ---- issuers -------------------------------------------------------------

type issuer struct {
	id     string
	kind   string
	z      *x509.Certificate // what is handed to zcrypto as issuer (may be a hand-built struct)
	verify *x509.Certificate // a parsed certificate with the same key: used for the self-verification APIs
	std    *stdx509.Certificate
	attrs  []atv // expected issuer DN
	skid   []byte
	mk     func() *x509.Certificate // hand-built issuers: a new object holding the same values
}

// arg is the issuer object for one case: the shared parsed certificate, or a private new object for the
// hand-built issuers (a reuse history edits it in place, and nothing a creation call might write into it
// is shared between goroutines).
func (is *issuer) arg() *x509.Certificate {
	if is.mk != nil {
		return is.mk()
	}
	return is.z
}

var issuers = map[string]*issuer{}

func issuerFor(variant, kind string) *issuer { return issuers[variant+"/"+kind] }

var skid20 = []byte{0x11, 0x22, 0x33, 0x44, 0x55, 0x66, 0x77, 0x88, 0x99, 0xaa, 0xbb, 0xcc, 0xdd, 0xee, 0xff, 0x01, 0x02, 0x03, 0x04, 0x05}

func buildIssuers(c *ev.Ctx) {
	type variant struct {
		id    string
		shape func(cn string) nameShape
		ku    x509.KeyUsage
		skid  []byte
	}
	variants := []variant{
		{"ca", shapeCN, x509.KeyUsageCertSign | x509.KeyUsageCRLSign, skid20},
		{"noskid", shapeCN, x509.KeyUsageCertSign | x509.KeyUsageCRLSign, nil},
		{"nocrlsign", shapeCN, x509.KeyUsageCertSign | x509.KeyUsageDigitalSignature, skid20},
		{"noku", shapeCN, 0, skid20},
		{"multidn", shapeMulti, x509.KeyUsageCertSign | x509.KeyUsageCRLSign, skid20},
		{"utf8dn", shapeUTF8, x509.KeyUsageCertSign | x509.KeyUsageCRLSign, skid20[:8]},
	}
	for _, kind := range keyKinds {
		for _, v := range variants {
			sh := v.shape("C05 issuer " + v.id + " " + kind)
			m, err := fx.Mint(fx.CertSpec{CN: "c05-" + v.id + "-" + kind, Key: keyFixture(kind), IsCA: true, KeyUsage: v.ku, SKID: v.skid,
				Tweak: func(t *x509.Certificate) { t.Subject = sh.name }}, nil)
			if err != nil {
				c.Broken("cannot mint issuer %s/%s: %v", v.id, kind, err)
			}
			if (len(v.skid) == 0) != (len(m.X.SubjectKeyId) == 0) || m.X.KeyUsage != v.ku {
				c.Broken("issuer fixture %s/%s does not have the intended SKID/KeyUsage (skid %x ku %d)", v.id, kind, m.X.SubjectKeyId, m.X.KeyUsage)
			}
			is := &issuer{id: v.id, kind: kind, z: m.X, verify: m.X, attrs: sh.attrs, skid: v.skid}
			if sc, err := stdx509.ParseCertificate(m.DER); err == nil {
				is.std = sc
			}
			issuers[v.id+"/"+kind] = is
		}
		// hand-built (never parsed) issuer value: only the documented inputs are set
		base := issuers["ca/"+kind]
		sh := shapeCN("C05 issuer ca " + kind)
		mkStruct := func(shape func(cn string) nameShape, cn string, skid []byte) func() *x509.Certificate {
			return func() *x509.Certificate {
				return &x509.Certificate{Subject: shape(cn).name, KeyUsage: x509.KeyUsageCRLSign, SubjectKeyId: append([]byte{}, skid...)}
			}
		}
		mk := mkStruct(shapeCN, "C05 issuer ca "+kind, skid20)
		issuers["struct/"+kind] = &issuer{id: "struct", kind: kind, verify: base.verify, std: base.std, attrs: sh.attrs, skid: skid20, z: mk(), mk: mk}
		// the same key under another hand-built name and key identifier; the verification APIs that compare
		// names get the parsed certificate of that name
		mbase := issuers["multidn/"+kind]
		sh2 := shapeMulti("C05 issuer multidn " + kind)
		mk2 := mkStruct(shapeMulti, "C05 issuer multidn "+kind, skid20[:12])
		issuers["struct2/"+kind] = &issuer{id: "struct2", kind: kind, verify: mbase.verify, std: mbase.std, attrs: sh2.attrs, skid: skid20[:12], z: mk2(), mk: mk2}
		issuers["nil/"+kind] = &issuer{id: "nil", kind: kind, verify: base.verify, std: base.std}
	}
}

func bigPow2(n uint, delta int64) *big.Int {
	x := new(big.Int).Lsh(big.NewInt(1), n)
	return x.Add(x, big.NewInt(delta))
}
