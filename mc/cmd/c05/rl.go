package main

import (
	"fmt"
	"math/big"
	"time"

	"github.com/zmap/zcrypto/x509"
	"github.com/zmap/zcrypto/x509/pkix"
	"verifmc/internal/ev"
	"verifmc/internal/fx"
)

// ---- v2 revocation list (CreateRevocationList) ----------------------------

var rlSerialNames = []string{"small", "2^70"}
var rlReasonNames = []string{"nil", "0", "1", "10"}
var rlEntryExtraNames = []string{"none", "unknown", "user-reasonCode(5)", "unknown+user-reasonCode(5)", "unknown-critical"}

type numAlt struct {
	id  string
	n   *big.Int
	exp string // "ok" | "must-error" | "either"
}

var rlNumbers = []numAlt{
	{"1", big.NewInt(1), "ok"},
	{"0", big.NewInt(0), "ok"},
	{"2^159-1", bigPow2(159, -1), "ok"},
	{"2^159", bigPow2(159, 0), "either"}, // 20 value octets but 21 content octets: RFC 5280 5.2.3 reading differs
	{"2^160", bigPow2(160, 0), "must-error"},
	{"nil", nil, "either"},
}

type updPair struct {
	id         string
	this, next time.Time
	exp        string
}

var rlUpdates = []updPair{
	{"ordered", fx.T0, fx.T0.Add(7 * 24 * time.Hour), "ok"},
	{"equal", fx.T0, fx.T0, "either"}, // field doc "must be greater", function accepts: statement silent
	{"reversed", fx.T0, fx.T0.Add(-time.Second), "must-error"},
	{"reversed-by-a-day-zoned", time.Date(2026, 1, 15, 17, 30, 0, 0, zoneEast), time.Date(2026, 1, 14, 7, 0, 0, 0, zoneWest), "must-error"},
	{"zoned-ordered-wallclock-reversed", time.Date(2026, 1, 15, 17, 30, 0, 0, zoneEast), time.Date(2026, 1, 15, 8, 0, 0, 0, zoneWest), "ok"},
	{"2049/2050-boundary", time.Date(2049, 12, 31, 23, 59, 59, 0, time.UTC), time.Date(2050, 1, 1, 0, 0, 0, 0, time.UTC), "ok"},
	{"both>=2050-zoned-2049-wallclock", time.Date(2049, 12, 31, 20, 0, 0, 0, zoneWest), time.Date(2051, 6, 1, 0, 0, 0, 0, time.UTC), "ok"},
	{"sub-second", fx.T0.Add(500 * time.Millisecond), fx.T0.Add(time.Hour + 999*time.Millisecond), "ok"},
}

var rlListExtraNames = []string{"none", "unknown", "unknown-critical", "two-unknown"}

type rlIssuerAlt struct {
	id  string
	exp string
}

var rlIssuers = []rlIssuerAlt{
	{"ca", "ok"}, {"nocrlsign", "must-error"}, {"noku", "must-error"}, {"noskid", "must-error"}, {"nil", "must-error"},
	{"multidn", "ok"}, {"utf8dn", "ok"}, {"struct", "ok"},
	{"struct2", "ok"}, // another hand-built issuer value: a reuse history moving struct <-> struct2 renames the SAME object in place
}

func rlSpace() *space {
	sp := &space{kind: "rl"}
	sp.fields = append(sp.fields, field{"entries", entryCountNames})
	for s := 0; s < 3; s++ {
		sp.fields = append(sp.fields,
			field{fmt.Sprintf("serial%d", s), rlSerialNames},
			field{fmt.Sprintf("time%d", s), entryTimeNames},
			field{fmt.Sprintf("reason%d", s), rlReasonNames},
			field{fmt.Sprintf("entryExtra%d", s), rlEntryExtraNames})
	}
	var nn, un, in []string
	for _, x := range rlNumbers {
		nn = append(nn, x.id)
	}
	for _, x := range rlUpdates {
		un = append(un, x.id)
	}
	for _, x := range rlIssuers {
		in = append(in, x.id)
	}
	sp.fields = append(sp.fields,
		field{"number", nn},
		field{"updates", un},
		field{"listExtra", rlListExtraNames},
		field{"issuer", in},
		field{"signer", signerNames})
	sp.canonical = func(a []int) bool { return slotsCanonical(a, 4) }
	sp.slotPer = 4
	sp.api = "CreateRevocationList"
	sp.build = func(r *runner, a []int) caseObj { return buildRL(r, a) }
	sp.check = checkRL
	sp.editAlts = func(f, cur int, full bool) []int { return signerEditAlts(f == 17, f, cur, full, len(sp.fields[f].alts)) }
	return sp
}

// rlCase: the inputs of CreateRevocationList and what the list must report.
type rlCase struct {
	t         *x509.RevocationList
	k         *keyMat
	alg       x509.SignatureAlgorithm
	is        *issuer
	issuerArg *x509.Certificate

	num       numAlt
	upd       updPair
	ia        rlIssuerAlt
	want      []entry
	listExtra []xext
}

func (cs *rlCase) create() ([]byte, error) {
	return x509.CreateRevocationList(fx.NewRand("c05-rl"), cs.t, cs.issuerArg, cs.k.signer)
}

func (cs *rlCase) inputs() map[string]any {
	return map[string]any{"template": cs.t, "issuer": cs.issuerArg}
}

func (cs *rlCase) adopt(donor caseObj, f int) {
	d := donor.(*rlCase)
	switch {
	case f == 0: // entry count: the same list is cut or extended
		if len(d.t.RevokedCertificates) <= len(cs.t.RevokedCertificates) {
			cs.t.RevokedCertificates = cs.t.RevokedCertificates[:len(d.t.RevokedCertificates)]
		} else {
			cs.t.RevokedCertificates = append(cs.t.RevokedCertificates, d.t.RevokedCertificates[len(cs.t.RevokedCertificates):]...)
		}
	case f >= 1 && f <= 12: // a field of an entry: written into the existing element
		s := (f - 1) / 4
		if s >= len(cs.t.RevokedCertificates) || s >= len(d.t.RevokedCertificates) {
			return // the slot fell out of the list with an entry-count edit
		}
		e, de := &cs.t.RevokedCertificates[s], &d.t.RevokedCertificates[s]
		switch (f - 1) % 4 {
		case 0:
			e.SerialNumber = de.SerialNumber
		case 1:
			e.RevocationTime = de.RevocationTime
		case 2:
			e.ReasonCode = de.ReasonCode
		case 3:
			e.ExtraExtensions = de.ExtraExtensions
		}
	case f == 13:
		cs.t.Number = d.t.Number
	case f == 14:
		cs.t.ThisUpdate, cs.t.NextUpdate = d.t.ThisUpdate, d.t.NextUpdate
	case f == 15:
		cs.t.ExtraExtensions = d.t.ExtraExtensions
	case f == 16:
		cs.issuerArg = adoptIssuer(cs.is, cs.issuerArg, d.is, d.issuerArg)
		cs.is = d.is
	case f == 17:
		cs.t.SignatureAlgorithm, cs.alg, cs.k = d.t.SignatureAlgorithm, d.alg, d.k
		// the issuer fixture belongs to the key kind
		cs.issuerArg = adoptIssuer(cs.is, cs.issuerArg, d.is, d.issuerArg)
		cs.is = d.is
	}
}

func buildRL(r *runner, a []int) *rlCase {
	n := entryCounts[a[0]]
	num, upd := rlNumbers[a[13]], rlUpdates[a[14]]
	ia := rlIssuers[a[16]]
	alg := signerAlts[a[17]].alg
	k := r.key(signerAlts[a[17]].kind)
	is := issuerFor(ia.id, k.kind)

	unkA := xext{oidUnknownA, false, unknownAValue}
	unkCrit := xext{oidUnknownB, true, "0101ff"}
	userReason := xext{oidReason, false, reasonValue(5)}

	var number *big.Int // a big.Int of the case's own
	if num.n != nil {
		number = new(big.Int).Set(num.n)
	}
	t := &x509.RevocationList{Number: number, ThisUpdate: upd.this, NextUpdate: upd.next, SignatureAlgorithm: alg}
	var want []entry
	for s := 0; s < n; s++ {
		sa, ta, ra, xa := a[1+4*s], a[2+4*s], a[3+4*s], a[4+4*s]
		e := entry{serial: entrySerial(s, sa), t: entryTime(s, ta)}
		rc := x509.RevokedCertificate{SerialNumber: e.serial, RevocationTime: e.t}
		// stale values in fields documented as ignored on creation
		rc.Extensions = []pkix.Extension{{Id: oid(oidUnknownC), Value: []byte{5, 0}}}
		var extra []xext
		switch rlEntryExtraNames[xa] {
		case "unknown":
			extra = []xext{unkA}
		case "user-reasonCode(5)":
			extra = []xext{userReason}
		case "unknown+user-reasonCode(5)":
			extra = []xext{unkA, userReason}
		case "unknown-critical":
			extra = []xext{unkCrit}
		}
		for _, x := range extra {
			rc.ExtraExtensions = append(rc.ExtraExtensions, x.z())
		}
		// doc of RevokedCertificate.ReasonCode: "When creating a CRL, a value of nil or zero will
		// result in the reasonCode extension being omitted"; a user-supplied reasonCode extension is replaced.
		e.exts = without(extra, oidReason)
		if ra > 0 {
			code := []int{0, 0, 1, 10}[ra]
			rc.ReasonCode = &code
			if code != 0 {
				cc := code
				e.reason = &cc
				e.exts = append(e.exts, xext{oidReason, false, reasonValue(code)})
			}
		}
		t.RevokedCertificates = append(t.RevokedCertificates, rc)
		want = append(want, e)
	}
	var listExtra []xext
	switch rlListExtraNames[a[15]] {
	case "unknown":
		listExtra = []xext{unkA}
	case "unknown-critical":
		listExtra = []xext{unkCrit}
	case "two-unknown":
		listExtra = []xext{unkA, {oidUnknownC, false, "0500"}}
	}
	for _, x := range listExtra {
		t.ExtraExtensions = append(t.ExtraExtensions, x.z())
	}
	t.Extensions = []pkix.Extension{{Id: oid(oidUnknownC), Value: []byte{1, 1, 0}}} // documented as ignored
	return &rlCase{t: t, k: k, alg: alg, is: is, issuerArg: is.arg(), num: num, upd: upd, ia: ia, want: want, listExtra: listExtra}
}

// checkRL judges the outcome of the creation call by the expectations of exp.
func checkRL(r *runner, a []int, expCase caseObj, der []byte, err error) {
	c := r.c
	cs := expCase.(*rlCase)
	k, alg, is, num, upd, ia, want, listExtra := cs.k, cs.alg, cs.is, cs.num, cs.upd, cs.ia, cs.want, cs.listExtra

	// ---- expectation on creation ----
	exp := "ok"
	var why []string
	for _, x := range []struct{ e, w string }{{num.exp, "number=" + num.id}, {upd.exp, "updates=" + upd.id}, {ia.exp, "issuer=" + ia.id}} {
		if x.e == "must-error" {
			exp = "must-error"
			why = append(why, x.w)
		}
	}
	if exp == "ok" && (num.exp == "either" || upd.exp == "either" || algDomain(k, alg) == "either") {
		exp = "either"
	}

	if exp == "must-error" {
		c.Evaluations.Add(1)
		if err == nil {
			r.der = der
			for _, w := range why {
				r.viol("documented error case did not error: "+w, "CreateRevocationList returned a list")
			}
		} else {
			r.out("documented error case errors: " + ev.MsgClass(err.Error()))
		}
		return
	}
	if err != nil {
		if exp == "either" {
			r.out("create refused (statement-silent input): " + ev.MsgClass(err.Error()))
			return
		}
		r.viol("CreateRevocationList fails inside the documented domain: "+ev.MsgClass(err.Error()), err.Error())
		return
	}
	r.der = der
	c.Traces.Add(1)
	if exp == "either" {
		r.out("created from a statement-silent input")
	}

	// ---- parse back ----
	var rl *x509.RevocationList
	panicked, msg, site := ev.Try(func() { rl, err = x509.ParseRevocationList(der) })
	c.Transitions.Add(1)
	if panicked {
		r.viol("panic@"+site+" in ParseRevocationList of a created list: "+ev.MsgClass(msg), msg)
		return
	}
	if err != nil {
		r.viol("ParseRevocationList rejects a created list: "+ev.MsgClass(err.Error()), err.Error())
		return
	}
	c.Distinct.Add(1)
	c.Evaluations.Add(1)
	if g, w := canonATVs(zNames(rl.Issuer.Names)), canonATVs(is.attrs); g != w {
		r.viol("parsed issuer differs from the issuing certificate's subject", fmt.Sprintf("got [%s] want [%s]", g, w))
	}
	if rl.ThisUpdate.Unix() != upd.this.Unix() || rl.NextUpdate.Unix() != upd.next.Unix() {
		r.viol("parsed thisUpdate/nextUpdate differ from the template (to the second)",
			fmt.Sprintf("thisUpdate %s want %s; nextUpdate %s want %s", rl.ThisUpdate.UTC(), upd.this.UTC(), rl.NextUpdate.UTC(), upd.next.UTC()))
	}
	if num.n != nil && (rl.Number == nil || rl.Number.Cmp(num.n) != 0) {
		r.viol("parsed CRL number differs from the template", fmt.Sprintf("got %v want %v", rl.Number, num.n))
	}
	var got []entry
	for _, rc := range rl.RevokedCertificates {
		ge := entry{serial: rc.SerialNumber, t: rc.RevocationTime, reason: rc.ReasonCode, exts: zExts(rc.Extensions)}
		if nr := countExt(ge.exts, oidReason); nr > 1 || (nr == 1) != (rc.ReasonCode != nil) {
			r.viol("entry does not carry exactly one reasonCode extension for its ReasonCode",
				fmt.Sprintf("%d reasonCode extensions, ReasonCode nil=%v", nr, rc.ReasonCode == nil))
		}
		got = append(got, ge)
	}
	r.compareEntries("ParseRevocationList", want, got, false, true)
	// list extensions: every supplied extra extension exactly once, unchanged
	lgot := zExts(rl.Extensions)
	for _, x := range listExtra {
		cnt := 0
		for _, g := range lgot {
			if g == x {
				cnt++
			}
		}
		if cnt != 1 {
			r.viol("list ExtraExtensions are not carried unchanged into the created list", fmt.Sprintf("%v present %d times in [%s]", x, cnt, canonExts(lgot, true)))
			break
		}
	}
	if countExt(lgot, oidUnknownC) > 0 && rlListExtraNames[a[15]] != "two-unknown" {
		r.viol("template.Extensions (documented as ignored) leaked into the created list", canonExts(lgot, true))
	}
	if countExt(lgot, oidCRLNumber) != 1 || countExt(lgot, oidAKID) != 1 {
		r.out("created list does not carry exactly one cRLNumber and one authorityKeyIdentifier")
	}

	r.checkTimesDER(upd.this, upd.next, want)

	// ---- self-verification ----
	panicked, msg, site = ev.Try(func() { err = rl.CheckSignatureFrom(is.verify) })
	c.Transitions.Add(1)
	c.Evaluations.Add(1)
	fam := algs[alg].family
	if panicked {
		r.viol("panic@"+site+" in RevocationList.CheckSignatureFrom: "+ev.MsgClass(msg), msg)
	} else if err != nil {
		r.viol("RevocationList.CheckSignatureFrom rejects a created list [requested algorithm family "+fam+"]",
			fmt.Sprintf("requested %s key %s: %v", algs[alg].name, k.kind, err))
	} else {
		r.out("CheckSignatureFrom accepts [" + fam + "]")
	}
	r.checkSignatureIndependent(k, alg)

	// ---- crypto/x509 ----
	r.stdCRL(is, k, want, upd.this, upd.next, num.n, false, is.skid)
	if ndev(a) == 2 && a[3] != 0 && a[4] != 0 && r.sampleOK() {
		c.Sample(map[string]any{"case": r.sp.describe(a), "der_len": len(der)})
	}
}
