package main

// Input immutability probe: a deep, reflection-based rendering of everything
// reachable from the objects handed to a creation call (exported and
// unexported fields, through pointers, slices, maps and interfaces) as
// path -> scalar lines. Taken before and after the call; the paths whose line
// changed are the places where the creation function wrote into its inputs.
// nil and empty slices render alike (nobody can observe that difference through
// the creation API). Bytes beyond len() of a slice are not part of the value.
//
// Two tiers: takeDigest is the same walk without paths (a byte string of the
// values in walk order) and is what runs around every creation call; only when
// the digest changed is the case re-executed with the path-naming takeSnap.

import (
	"encoding/binary"
	"encoding/hex"
	"fmt"
	"reflect"
	"regexp"
	"sort"
	"strconv"
	"strings"
	"time"
)

type snap map[string]string

type snapKey struct {
	p uintptr
	t reflect.Type
}

var typTime = reflect.TypeOf(time.Time{})

func takeSnap(roots map[string]any) snap {
	s := snap{}
	seen := map[snapKey]string{}
	names := make([]string, 0, len(roots))
	for n := range roots {
		names = append(names, n)
	}
	sort.Strings(names)
	for _, n := range names {
		snapWalk(s, seen, n, reflect.ValueOf(roots[n]), 0)
	}
	return s
}

func snapWalk(s snap, seen map[snapKey]string, path string, v reflect.Value, depth int) {
	if !v.IsValid() {
		s[path] = "<nil>"
		return
	}
	if depth > 16 {
		s[path] = "<too deep>"
		return
	}
	if v.Type() == typTime {
		if v.CanInterface() {
			tm := v.Interface().(time.Time)
			_, off := tm.Zone()
			s[path] = fmt.Sprintf("unix=%d nsec=%d zone-offset=%d", tm.Unix(), tm.Nanosecond(), off)
		} else {
			s[path] = fmt.Sprintf("wall=%d ext=%d loc=%#x", v.Field(0).Uint(), v.Field(1).Int(), v.Field(2).Pointer())
		}
		return
	}
	switch v.Kind() {
	case reflect.Bool:
		s[path] = strconv.FormatBool(v.Bool())
	case reflect.Int, reflect.Int8, reflect.Int16, reflect.Int32, reflect.Int64:
		s[path] = strconv.FormatInt(v.Int(), 10)
	case reflect.Uint, reflect.Uint8, reflect.Uint16, reflect.Uint32, reflect.Uint64, reflect.Uintptr:
		s[path] = strconv.FormatUint(v.Uint(), 10)
	case reflect.Float32, reflect.Float64:
		s[path] = strconv.FormatFloat(v.Float(), 'g', -1, 64)
	case reflect.Complex64, reflect.Complex128:
		s[path] = fmt.Sprint(v.Complex())
	case reflect.String:
		s[path] = strconv.Quote(v.String())
	case reflect.Pointer:
		if v.IsNil() {
			s[path] = "<nil>"
			return
		}
		k := snapKey{v.Pointer(), v.Type()}
		if first, ok := seen[k]; ok {
			s[path] = "-> same object as " + first
			return
		}
		seen[k] = path
		snapWalk(s, seen, path, v.Elem(), depth+1)
	case reflect.Interface:
		if v.IsNil() {
			s[path] = "<nil>"
			return
		}
		s[path+".(type)"] = v.Elem().Type().String()
		snapWalk(s, seen, path, v.Elem(), depth+1)
	case reflect.Slice:
		if v.Type().Elem().Kind() == reflect.Uint8 {
			s[path] = "bytes:" + hex.EncodeToString(v.Bytes())
			return
		}
		s[path+".len"] = strconv.Itoa(v.Len())
		for i := 0; i < v.Len(); i++ {
			snapWalk(s, seen, path+"["+strconv.Itoa(i)+"]", v.Index(i), depth+1)
		}
	case reflect.Array:
		for i := 0; i < v.Len(); i++ {
			snapWalk(s, seen, path+"["+strconv.Itoa(i)+"]", v.Index(i), depth+1)
		}
	case reflect.Map:
		s[path+".len"] = strconv.Itoa(v.Len())
		type kv struct {
			k string
			v reflect.Value
		}
		var l []kv
		it := v.MapRange()
		for it.Next() {
			ks := snap{}
			snapWalk(ks, map[snapKey]string{}, "", it.Key(), depth+1)
			l = append(l, kv{fmt.Sprint(map[string]string(ks)), it.Value()})
		}
		sort.Slice(l, func(i, j int) bool { return l[i].k < l[j].k })
		for _, e := range l {
			snapWalk(s, seen, path+"{"+e.k+"}", e.v, depth+1)
		}
	case reflect.Struct:
		t := v.Type()
		for i := 0; i < v.NumField(); i++ {
			snapWalk(s, seen, path+"."+t.Field(i).Name, v.Field(i), depth+1)
		}
	case reflect.Func, reflect.Chan, reflect.UnsafePointer:
		if v.IsNil() {
			s[path] = "<nil>"
		} else {
			s[path] = fmt.Sprintf("%s@%#x", v.Kind(), v.Pointer())
		}
	default:
		s[path] = "<" + v.Kind().String() + ">"
	}
}

var snapIndex = regexp.MustCompile(`\[\d+\]`)

// changedPaths lists the places where after differs from before, indices
// generalised ([3] -> [i]) so that one write pattern is one class.
func (before snap) changedPaths(after snap) []string {
	// a slice that grew or shrank is reported once (as X.len), not once more per scalar of the elements
	// that appeared or disappeared
	var resized []string
	for k, v := range before {
		if w, ok := after[k]; ok && w != v && strings.HasSuffix(k, ".len") {
			resized = append(resized, strings.TrimSuffix(k, ".len")+"[")
		}
	}
	onlyOneSide := func(k string) bool {
		for _, p := range resized {
			if strings.HasPrefix(k, p) {
				return true
			}
		}
		return false
	}
	set := map[string]bool{}
	for k, v := range before {
		if w, ok := after[k]; !ok {
			if !onlyOneSide(k) {
				set[snapIndex.ReplaceAllString(k, "[i]")] = true
			}
		} else if w != v {
			set[snapIndex.ReplaceAllString(k, "[i]")] = true
		}
	}
	for k := range after {
		if _, ok := before[k]; !ok && !onlyOneSide(k) {
			set[snapIndex.ReplaceAllString(k, "[i]")] = true
		}
	}
	out := make([]string, 0, len(set))
	for k := range set {
		out = append(out, k)
	}
	sort.Strings(out)
	return out
}

// takeDigest renders the same reachable values as takeSnap, without paths.
func takeDigest(roots ...any) []byte {
	buf := make([]byte, 0, 4096)
	seen := map[snapKey]int{}
	for _, r := range roots {
		digestWalk(&buf, seen, reflect.ValueOf(r), 0)
	}
	return buf
}

func digestWalk(buf *[]byte, seen map[snapKey]int, v reflect.Value, depth int) {
	put := func(tag byte, n uint64) {
		*buf = append(*buf, tag)
		*buf = binary.AppendUvarint(*buf, n)
	}
	if !v.IsValid() || depth > 16 {
		put('0', 0)
		return
	}
	if v.Type() == typTime {
		put('T', v.Field(0).Uint())
		put('t', uint64(v.Field(1).Int()))
		put('l', uint64(v.Field(2).Pointer()))
		return
	}
	switch v.Kind() {
	case reflect.Bool:
		if v.Bool() {
			put('b', 1)
		} else {
			put('b', 0)
		}
	case reflect.Int, reflect.Int8, reflect.Int16, reflect.Int32, reflect.Int64:
		put('i', uint64(v.Int()))
	case reflect.Uint, reflect.Uint8, reflect.Uint16, reflect.Uint32, reflect.Uint64, reflect.Uintptr:
		put('u', v.Uint())
	case reflect.Float32, reflect.Float64, reflect.Complex64, reflect.Complex128:
		*buf = append(*buf, 'f')
		*buf = append(*buf, fmt.Sprint(v)...)
	case reflect.String:
		put('s', uint64(v.Len()))
		*buf = append(*buf, v.String()...)
	case reflect.Pointer:
		if v.IsNil() {
			put('p', 0)
			return
		}
		k := snapKey{v.Pointer(), v.Type()}
		if n, ok := seen[k]; ok {
			put('r', uint64(n))
			return
		}
		seen[k] = len(seen) + 1
		put('p', 1)
		digestWalk(buf, seen, v.Elem(), depth+1)
	case reflect.Interface:
		if v.IsNil() {
			put('I', 0)
			return
		}
		put('I', 1)
		*buf = append(*buf, v.Elem().Type().String()...)
		digestWalk(buf, seen, v.Elem(), depth+1)
	case reflect.Slice:
		put('[', uint64(v.Len()))
		if v.Type().Elem().Kind() == reflect.Uint8 {
			*buf = append(*buf, v.Bytes()...)
			return
		}
		for i := 0; i < v.Len(); i++ {
			digestWalk(buf, seen, v.Index(i), depth+1)
		}
	case reflect.Array:
		for i := 0; i < v.Len(); i++ {
			digestWalk(buf, seen, v.Index(i), depth+1)
		}
	case reflect.Map:
		put('{', uint64(v.Len()))
		var l [][]byte
		it := v.MapRange()
		for it.Next() {
			var e []byte
			digestWalk(&e, map[snapKey]int{}, it.Key(), depth+1)
			e = append(e, '=')
			digestWalk(&e, map[snapKey]int{}, it.Value(), depth+1)
			l = append(l, e)
		}
		sort.Slice(l, func(i, j int) bool { return string(l[i]) < string(l[j]) })
		for _, e := range l {
			*buf = append(*buf, e...)
		}
	case reflect.Struct:
		for i := 0; i < v.NumField(); i++ {
			digestWalk(buf, seen, v.Field(i), depth+1)
		}
	case reflect.Func, reflect.Chan, reflect.UnsafePointer:
		put('F', uint64(v.Pointer()))
	default:
		put('?', uint64(v.Kind()))
	}
}
