package main

// Reuse histories: a creation function is called repeatedly on the SAME input
// objects (CSR template; revoked-entry list and hand-built issuer of CreateCRL;
// revocation-list template and hand-built issuer of CreateRevocationList),
// which are edited in place between the calls. The object created by the last
// call must report what the inputs hold at that call, exactly as if it had been
// created from freshly built objects holding the same values:
//
//   - the single-shot checks of the space (sp.check), against the expectation
//     of a separately built case of the assignment reached by the edits;
//   - differential: the TBS bytes (cut out with encoding/asn1) must equal those
//     of an object created from a second freshly built case;
//   - input immutability probe (snap.go) around every creation call, reported
//     as outcome classes.
//
// Only the last call of a history is judged: every proper prefix is a history
// of its own.

import (
	"bytes"
	"fmt"
	"strings"

	"verifmc/internal/ev"
)

// history: base assignment and the edits (field, new alternative); field -1 = the call is repeated unchanged.
type history struct {
	base  []int
	edits [][2]int
}

func (h history) describe(sp *space) string {
	var parts []string
	for _, e := range h.edits {
		if e[0] < 0 {
			parts = append(parts, "(no edit)")
		} else {
			parts = append(parts, sp.fields[e[0]].name+":="+sp.fields[e[0]].alts[e[1]])
		}
	}
	return "reuse " + sp.describe(h.base) + " then in place [" + strings.Join(parts, "] [") + "]"
}

// applyEdit returns the assignment after the edit and the fields whose value changed
// (an entry-count edit also resets the slots that fall out of the list). ok=false: the
// edit addresses a slot outside the list (it would not change the input).
func (sp *space) applyEdit(a []int, e [2]int) (next []int, changed []int, ok bool) {
	next = append([]int(nil), a...)
	if e[0] < 0 {
		return next, nil, true
	}
	next[e[0]] = e[1]
	changed = []int{e[0]}
	if sp.slotPer > 0 {
		n := entryCounts[next[0]]
		if f := e[0]; f >= 1 && f <= 3*sp.slotPer && (f-1)/sp.slotPer >= n {
			return nil, nil, false // a slot outside the list
		}
		if e[0] == 0 {
			// the list shrank: the slots beyond it are no longer part of the input
			for f := 1; f <= 3*sp.slotPer; f++ {
				if (f-1)/sp.slotPer >= n && next[f] != 0 {
					next[f] = 0
					changed = append(changed, f)
				}
			}
		}
	}
	if sp.canonical != nil && !sp.canonical(next) {
		return nil, nil, false
	}
	return next, changed, true
}

// histories enumerates, for every base, every edit sequence of length n-1.
func (sp *space) histories(bases [][]int, n int, fullAlphabet bool) []history {
	var out []history
	for _, b := range bases {
		var rec func(a []int, edits [][2]int)
		rec = func(a []int, edits [][2]int) {
			if len(edits) == n-1 {
				out = append(out, history{b, append([][2]int(nil), edits...)})
				return
			}
			rec(a, append(edits, [2]int{-1, 0}))
			for f := range sp.fields {
				alts := make([]int, 0, len(sp.fields[f].alts))
				if sp.editAlts != nil {
					alts = sp.editAlts(f, a[f], fullAlphabet)
				} else {
					for v := range sp.fields[f].alts {
						alts = append(alts, v)
					}
				}
				for _, v := range alts {
					if v == a[f] {
						continue
					}
					next, _, ok := sp.applyEdit(a, [2]int{f, v})
					if !ok {
						continue
					}
					rec(next, append(edits, [2]int{f, v}))
				}
			}
		}
		rec(b, nil)
	}
	return out
}

const reusePrefix = "reused input objects (edited in place between creation calls): "

// runHistory executes a history on one set of input objects and judges its last call.
func (sp *space) runHistory(r *runner, h history) {
	c := r.c
	h2 := h
	r.hist = &h2
	a := append([]int(nil), h.base...)
	live := sp.build(r, a)
	for _, e := range h.edits {
		sp.probedCreate(r, a, live)
		next, changed, ok := sp.applyEdit(a, e)
		if !ok {
			c.Broken("history %s contains an inapplicable edit", h.describe(sp))
		}
		donor := sp.build(r, next)
		for _, f := range changed {
			live.adopt(donor, f)
		}
		a = next
	}
	r.a, r.der = a, nil
	exp := sp.build(r, a)
	var pend []pviol
	r.collect, r.mute = &pend, true
	der, err, panicked, msg, site := sp.probedCreate(r, a, live)
	if panicked {
		r.viol("panic@"+site+" in "+sp.api+": "+ev.MsgClass(msg), msg)
	} else {
		sp.check(r, a, exp, der, err)
	}
	liveDER := r.der

	// differential: a second freshly built case of the same assignment
	fresh := sp.build(r, a)
	fder, ferr, fpanicked, fmsg, _ := tryCreate(fresh)
	c.Transitions.Add(1)
	c.Evaluations.Add(1)
	same := "created"
	switch {
	case panicked != fpanicked:
		r.viol("the creation call panics for one of {reused objects, freshly built objects holding the same values} only",
			fmt.Sprintf("reused panic=%v (%s); fresh panic=%v (%s)", panicked, msg, fpanicked, fmsg))
	case panicked:
		same = "panic"
	case (err == nil) != (ferr == nil):
		r.viol("the creation call succeeds for one of {reused objects, freshly built objects holding the same values} only",
			fmt.Sprintf("reused err=%v; fresh err=%v", err, ferr))
	case err != nil:
		same = "refused"
	default:
		lt, _, _, e1 := splitSigned(der)
		ft, _, _, e2 := splitSigned(fder)
		if e1 != nil || e2 != nil || !bytes.Equal(lt, ft) {
			r.der = der
			r.viol("the TBS bytes differ from those created from freshly built objects holding the same values (an earlier call left state in its inputs)",
				fmt.Sprintf("reused tbs=%x fresh tbs=%x", lt, ft))
		}
	}
	r.collect, r.mute = nil, false

	if len(pend) == 0 {
		switch same {
		case "created":
			r.out("reuse history: last call passes the single-shot checks for the edited inputs; TBS bytes equal those from fresh objects")
		case "refused":
			r.out("reuse history: last call refused for reused and fresh objects alike")
		}
		return
	}
	// Is it the reuse, or do freshly built objects fail alike? The latter is a failure of the
	// input's shape and keeps the signature of the single-shot enumeration.
	var single []pviol
	r.collect, r.mute, r.der = &single, true, nil
	sp.run(r, a)
	r.collect, r.mute = nil, false
	alsoFresh := map[string]bool{}
	for _, v := range single {
		alsoFresh[v.sig] = true
	}
	seen := map[string]bool{}
	for _, v := range pend {
		sig := v.sig
		if !alsoFresh[sig] {
			sig = reusePrefix + sig
		}
		if seen[sig] {
			continue
		}
		seen[sig] = true
		d := v.der
		if d == nil {
			d = liveDER
		}
		r.report(sig, v.detail, d)
	}
}

// probedCreate brackets one creation call on live with the immutability probe.
func (sp *space) probedCreate(r *runner, a []int, live caseObj) (der []byte, err error, panicked bool, msg, site string) {
	before := takeDigest(live.inputs())
	der, err, panicked, msg, site = tryCreate(live)
	r.c.Transitions.Add(1)
	if !bytes.Equal(before, takeDigest(live.inputs())) {
		// name the paths on a separate freshly built case of the same assignment (a creation call writes
		// into fresh inputs what it wrote into these when they were fresh; for inputs that earlier calls
		// have already changed the digest is all there is)
		again := sp.build(r, a)
		full := takeSnap(again.inputs())
		tryCreate(again)
		paths := full.changedPaths(takeSnap(again.inputs()))
		if len(paths) == 0 {
			paths = []string{"(only when the inputs have been through an earlier call)"}
		}
		for _, p := range paths {
			r.mutated(p)
		}
	}
	return
}
