package main

import (
	stdx509 "crypto/x509"
	"encoding/pem"
	"errors"
	"fmt"
	"math/big"
	"sort"
	"strings"
	"time"

	"github.com/zmap/zcrypto/x509"
	"github.com/zmap/zcrypto/x509/pkix"
	"verifmc/internal/ev"
	"verifmc/internal/fx"
)

// ---- shared entry model ---------------------------------------------------

// entry is one expected revoked-certificate entry.
type entry struct {
	serial *big.Int
	t      time.Time
	reason *int   // expected parsed reason (nil = no reasonCode extension)
	exts   []xext // expected extensions incl. the reasonCode one
}

func (e entry) canon() string {
	rs := "nil"
	if e.reason != nil {
		rs = fmt.Sprint(*e.reason)
	}
	return fmt.Sprintf("serial=%s time=%d reason=%s exts=[%s]", e.serial, e.t.Unix(), rs, canonExts(e.exts, true))
}

func canonEntries(es []entry) (multiset string, ordered string) {
	s := make([]string, len(es))
	for i, e := range es {
		s[i] = e.canon()
	}
	ordered = strings.Join(s, " ; ")
	sort.Strings(s)
	return strings.Join(s, " ; "), ordered
}

func serialsOnly(es []entry) string {
	s := make([]string, len(es))
	for i, e := range es {
		s[i] = e.serial.String()
	}
	sort.Strings(s)
	return strings.Join(s, ",")
}

// stripSerials replaces serials (used when the serial list is statement-silent).
func stripSerials(es []entry) []entry {
	out := make([]entry, len(es))
	for i, e := range es {
		e.serial = big.NewInt(0)
		out[i] = e
	}
	return out
}

var entryCounts = []int{3, 0, 1}
var entryCountNames = []string{"3-entries", "0-entries", "1-entry"}

var entrySerialNames = []string{"small", "2^70", "negative", "duplicate"}

func entrySerial(slot, alt int) *big.Int {
	switch alt {
	case 1:
		return bigPow2(70, int64(slot))
	case 2:
		return big.NewInt(int64(-5 - slot))
	case 3:
		if slot == 0 {
			return big.NewInt(2) // duplicates slot 1's default
		}
		return big.NewInt(1) // duplicates slot 0's default
	}
	return big.NewInt(int64(slot + 1))
}

var entryTimeNames = []string{"UTC", "zoned", ">=2050", "zoned-2049-wallclock-2050-UTC"}

func entryTime(slot, alt int) time.Time {
	switch alt {
	case 1:
		return time.Date(2026, 1, 14, 18, 45, slot, 0, zoneEast)
	case 2:
		return time.Date(2050, 1, 1, 0, 0, slot, 0, time.UTC)
	case 3:
		return time.Date(2049, 12, 31, 20, 0, slot, 0, zoneWest)
	}
	return fx.T0.Add(-time.Hour - time.Duration(slot)*time.Minute)
}

type updAlt struct {
	id string
	t  time.Time
}

var thisUpdAlts = []updAlt{
	{"T0-UTC", fx.T0},
	{"zoned", time.Date(2026, 1, 15, 17, 30, 0, 0, zoneEast)},
	{"2049-last-second", time.Date(2049, 12, 31, 23, 59, 59, 0, time.UTC)},
	{">=2050", time.Date(2050, 1, 1, 0, 0, 0, 0, time.UTC)},
	{"sub-second", fx.T0.Add(500 * time.Millisecond)},
}

// ---- legacy CRL (Certificate.CreateCRL) -----------------------------------

var crlExpiryAlts = []updAlt{
	{"T0+7d-UTC", fx.T0.Add(7 * 24 * time.Hour)},
	{"zoned", time.Date(2026, 1, 22, 7, 0, 0, 0, zoneWest)},
	{"zoned-2049-wallclock-2050-UTC", time.Date(2049, 12, 31, 20, 0, 0, 0, zoneWest)},
	{">=2050", time.Date(2051, 6, 1, 0, 0, 0, 0, time.UTC)},
	{"sub-second", fx.T0.Add(7*24*time.Hour + 999*time.Millisecond)},
	{"equal-to-now", fx.T0},
	{"before-now", fx.T0.Add(-time.Hour)},
}

var crlEntryExtNames = []string{"none", "reasonCode=1", "reasonCode=10"}
// "struct"/"struct2": hand-built (never parsed) issuer values; a reuse history that moves between the two
// renames the SAME issuer object in place
var crlIssuerAlts = []string{"ca", "noskid", "multidn", "utf8dn", "struct", "struct2"}

func altNames(a []updAlt) []string {
	out := make([]string, len(a))
	for i, x := range a {
		out[i] = x.id
	}
	return out
}

func crlSpace() *space {
	sp := &space{kind: "crl"}
	sp.fields = append(sp.fields, field{"entries", entryCountNames})
	for s := 0; s < 3; s++ {
		sp.fields = append(sp.fields,
			field{fmt.Sprintf("serial%d", s), entrySerialNames},
			field{fmt.Sprintf("time%d", s), entryTimeNames},
			field{fmt.Sprintf("entryExt%d", s), crlEntryExtNames})
	}
	sp.fields = append(sp.fields,
		field{"now", altNames(thisUpdAlts)},
		field{"expiry", altNames(crlExpiryAlts)},
		field{"issuer", crlIssuerAlts},
		field{"key", keyKinds})
	sp.canonical = func(a []int) bool { return slotsCanonical(a, 3) }
	sp.slotPer = 3
	sp.api = "CreateCRL"
	sp.build = func(r *runner, a []int) caseObj { return buildCRL(r, a) }
	sp.check = checkCRL
	return sp
}

// crlCase: the inputs of Certificate.CreateCRL and what the CRL must report.
type crlCase struct {
	k           *keyMat
	is          *issuer           // expectation side (name, key identifier, verification certificates)
	issuerArg   *x509.Certificate // the receiver of CreateCRL (a private object for the hand-built issuers)
	revoked     []pkix.RevokedCertificate
	now, expiry time.Time

	want          []entry
	silentSerials bool
}

func (cs *crlCase) create() ([]byte, error) {
	return cs.issuerArg.CreateCRL(fx.NewRand("c05-crl"), cs.k.signer, cs.revoked, cs.now, cs.expiry)
}

func (cs *crlCase) inputs() map[string]any {
	return map[string]any{"issuer": cs.issuerArg, "revokedCerts": cs.revoked}
}

func (cs *crlCase) adopt(donor caseObj, f int) {
	d := donor.(*crlCase)
	switch {
	case f == 0: // entry count: the same list is cut or extended
		if len(d.revoked) <= len(cs.revoked) {
			cs.revoked = cs.revoked[:len(d.revoked)]
		} else {
			cs.revoked = append(cs.revoked, d.revoked[len(cs.revoked):]...)
		}
	case f >= 1 && f <= 9: // a field of an entry: written into the existing element
		s := (f - 1) / 3
		if s >= len(cs.revoked) || s >= len(d.revoked) {
			return // the slot fell out of the list with an entry-count edit
		}
		switch (f - 1) % 3 {
		case 0:
			cs.revoked[s].SerialNumber = d.revoked[s].SerialNumber
		case 1:
			cs.revoked[s].RevocationTime = d.revoked[s].RevocationTime
		case 2:
			cs.revoked[s].Extensions = d.revoked[s].Extensions
		}
	case f == 10:
		cs.now = d.now
	case f == 11:
		cs.expiry = d.expiry
	case f == 12:
		cs.issuerArg = adoptIssuer(cs.is, cs.issuerArg, d.is, d.issuerArg)
		cs.is = d.is
	case f == 13:
		// the issuer fixture belongs to the key kind
		cs.k = d.k
		cs.issuerArg = adoptIssuer(cs.is, cs.issuerArg, d.is, d.issuerArg)
		cs.is = d.is
	}
}

// adoptIssuer: between two hand-built issuer values the existing object is edited in place;
// otherwise the caller switches to another issuer object.
func adoptIssuer(cur *issuer, curArg *x509.Certificate, next *issuer, nextArg *x509.Certificate) *x509.Certificate {
	if cur != nil && next != nil && cur.mk != nil && next.mk != nil && curArg != nil && nextArg != nil {
		curArg.Subject, curArg.SubjectKeyId, curArg.KeyUsage = nextArg.Subject, nextArg.SubjectKeyId, nextArg.KeyUsage
		return curArg
	}
	return nextArg
}

// slotsCanonical: fields 1.. are per-slot groups of `per` fields; a slot beyond
// the entry count must be all-default.
func slotsCanonical(a []int, per int) bool {
	n := entryCounts[a[0]]
	for s := n; s < 3; s++ {
		for f := 0; f < per; f++ {
			if a[1+s*per+f] != 0 {
				return false
			}
		}
	}
	return true
}

func buildCRL(r *runner, a []int) *crlCase {
	n := entryCounts[a[0]]
	now, expiry := thisUpdAlts[a[10]].t, crlExpiryAlts[a[11]].t
	k := r.key(keyKinds[a[13]])
	is := issuerFor(crlIssuerAlts[a[12]], k.kind)

	var revoked []pkix.RevokedCertificate
	var want []entry
	silentSerials := false
	for s := 0; s < n; s++ {
		sa, ta, ea := a[1+3*s], a[2+3*s], a[3+3*s]
		if sa >= 2 {
			silentSerials = true // negative / duplicate serials: outcome not defined by the statement
		}
		e := entry{serial: entrySerial(s, sa), t: entryTime(s, ta)}
		rc := pkix.RevokedCertificate{SerialNumber: e.serial, RevocationTime: e.t}
		if ea > 0 {
			code := []int{0, 1, 10}[ea]
			e.reason = &code
			e.exts = []xext{{oidReason, false, reasonValue(code)}}
			rc.Extensions = []pkix.Extension{e.exts[0].z()}
		}
		revoked = append(revoked, rc)
		want = append(want, e)
	}
	return &crlCase{k: k, is: is, issuerArg: is.arg(), revoked: revoked, now: now, expiry: expiry, want: want, silentSerials: silentSerials}
}

// checkCRL judges the outcome of the creation call by the expectations of exp.
func checkCRL(r *runner, a []int, exp caseObj, der []byte, err error) {
	c := r.c
	cs := exp.(*crlCase)
	k, is, now, expiry, want, silentSerials := cs.k, cs.is, cs.now, cs.expiry, cs.want, cs.silentSerials
	timesSilent := !expiry.After(now) // CreateCRL documents no ordering constraint: probe only

	if err != nil {
		if silentSerials || timesSilent {
			r.out("create refused (statement-silent serials/times): " + ev.MsgClass(err.Error()))
			return
		}
		r.viol("CreateCRL fails inside the documented domain: "+ev.MsgClass(err.Error()), err.Error())
		return
	}
	r.der = der
	c.Traces.Add(1)

	// ---- parse back with the legacy parser ----
	var cl *pkix.CertificateList
	panicked, msg, site := ev.Try(func() { cl, err = x509.ParseDERCRL(der) })
	c.Transitions.Add(1)
	if panicked {
		r.viol("panic@"+site+" in ParseDERCRL of a created CRL: "+ev.MsgClass(msg), msg)
		return
	}
	if err != nil {
		if silentSerials {
			r.out("ParseDERCRL refuses a CRL with statement-silent serials: " + ev.MsgClass(err.Error()))
			return
		}
		r.viol("ParseDERCRL rejects a created CRL: "+ev.MsgClass(err.Error()), err.Error())
		return
	}
	c.Distinct.Add(1)
	// ParseCRL must give the same for DER and for the PEM armour it documents
	for _, in := range [][]byte{der, pem.EncodeToMemory(&pem.Block{Type: "X509 CRL", Bytes: der})} {
		cl2, err := x509.ParseCRL(in)
		c.Transitions.Add(1)
		if err != nil || string(cl2.TBSCertList.Raw) != string(cl.TBSCertList.Raw) {
			r.viol("ParseCRL (DER or PEM input) disagrees with ParseDERCRL on a created CRL", fmt.Sprint(err))
		}
	}

	c.Evaluations.Add(1)
	tbs := cl.TBSCertList
	if g, w := canonATVs(zRDNs(tbs.Issuer)), canonATVs(is.attrs); g != w {
		r.viol("parsed issuer differs from the issuing certificate's subject", fmt.Sprintf("got [%s] want [%s]", g, w))
	}
	if tbs.ThisUpdate.Unix() != now.Unix() || tbs.NextUpdate.Unix() != expiry.Unix() {
		r.viol("parsed thisUpdate/nextUpdate differ from now/expiry (to the second)",
			fmt.Sprintf("thisUpdate %s want %s; nextUpdate %s want %s", tbs.ThisUpdate.UTC(), now.UTC(), tbs.NextUpdate.UTC(), expiry.UTC()))
	}
	var got []entry
	for _, rc := range tbs.RevokedCertificates {
		got = append(got, entry{serial: rc.SerialNumber, t: rc.RevocationTime, exts: zExts(rc.Extensions)})
	}
	r.compareEntries("ParseDERCRL", want, got, silentSerials, false)

	if !silentSerials {
		r.checkTimesDER(now, expiry, want)
	}

	// ---- self-verification ----
	panicked, msg, site = ev.Try(func() { err = is.verify.CheckCRLSignature(cl) })
	c.Transitions.Add(1)
	c.Evaluations.Add(1)
	if panicked {
		r.viol("panic@"+site+" in CheckCRLSignature: "+ev.MsgClass(msg), msg)
	} else if err != nil {
		r.viol("issuer.CheckCRLSignature rejects a created CRL [key family "+k.family+"]", fmt.Sprintf("key %s: %v", k.kind, err))
	} else {
		r.out("CheckCRLSignature accepts [" + k.family + "]")
	}
	r.checkSignatureIndependent(k, 0)

	// ---- the v2 parser of the library on the same DER: the only place where reason codes surface ----
	var rl *x509.RevocationList
	panicked, msg, site = ev.Try(func() { rl, err = x509.ParseRevocationList(der) })
	c.Transitions.Add(1)
	if panicked {
		r.viol("panic@"+site+" in ParseRevocationList of a created CRL: "+ev.MsgClass(msg), msg)
	} else if err != nil {
		if silentSerials {
			r.out("ParseRevocationList refuses a CRL with statement-silent serials: " + ev.MsgClass(err.Error()))
		} else {
			r.viol("ParseRevocationList rejects a CRL created by CreateCRL: "+ev.MsgClass(err.Error()), err.Error())
		}
	} else {
		c.Evaluations.Add(1)
		if g, w := canonATVs(zNames(rl.Issuer.Names)), canonATVs(is.attrs); g != w {
			r.viol("ParseRevocationList reads a different issuer from a CRL created by CreateCRL", fmt.Sprintf("got [%s] want [%s]", g, w))
		}
		if rl.ThisUpdate.Unix() != now.Unix() || rl.NextUpdate.Unix() != expiry.Unix() {
			r.viol("ParseRevocationList reads different update times from a CRL created by CreateCRL",
				fmt.Sprintf("thisUpdate %s nextUpdate %s", rl.ThisUpdate.UTC(), rl.NextUpdate.UTC()))
		}
		var got2 []entry
		for _, rc := range rl.RevokedCertificates {
			got2 = append(got2, entry{serial: rc.SerialNumber, t: rc.RevocationTime, reason: rc.ReasonCode, exts: zExts(rc.Extensions)})
		}
		r.compareEntries("ParseRevocationList", want, got2, silentSerials, true)
		if err := rl.CheckSignatureFrom(is.verify); err != nil {
			r.viol("RevocationList.CheckSignatureFrom rejects a CRL created by CreateCRL [key family "+k.family+"]", err.Error())
		}
		c.Transitions.Add(1)
	}

	// ---- crypto/x509 ----
	r.stdCRL(is, k, want, now, expiry, nil, silentSerials, is.skid)
	if ndev(a) == 2 && a[0] == 0 && a[2] != 0 && r.sampleOK() {
		c.Sample(map[string]any{"case": r.sp.describe(a), "der_len": len(der)})
	}
}

// compareEntries compares expected and parsed entries as multisets.
// withReason: the parser exposes a ReasonCode field.
func (r *runner) compareEntries(parser string, want, got []entry, silentSerials, withReason bool) {
	r.c.Evaluations.Add(1)
	if !withReason {
		w2 := make([]entry, len(want))
		for i, e := range want {
			e.reason = nil
			w2[i] = e
		}
		want = w2
	}
	if silentSerials {
		if serialsOnly(want) == serialsOnly(got) {
			r.out("statement-silent serials (negative/duplicate) round-trip through " + parser)
		} else {
			r.out("statement-silent serials (negative/duplicate) do NOT round-trip through " + parser)
		}
		want, got = stripSerials(want), stripSerials(got)
	}
	wm, wo := canonEntries(want)
	gm, g0 := canonEntries(got)
	if wm != gm {
		// name the first differing aspect to keep signatures few
		aspect := "entry count"
		if len(want) == len(got) {
			aspect = "extensions"
			ws, gs := stripSerials(want), stripSerials(got)
			switch {
			case serialsOnly(want) != serialsOnly(got):
				aspect = "serial numbers"
			case timesOnly(ws) != timesOnly(gs):
				aspect = "revocation times"
			case reasonsOnly(ws) != reasonsOnly(gs):
				aspect = "reason codes"
			}
		}
		r.viol(parser+": parsed revoked entries differ from the supplied ones ("+aspect+")", fmt.Sprintf("got {%s} want {%s}", gm, wm))
		return
	}
	if len(want) > 1 {
		if wo == g0 {
			r.out("entry order preserved (" + parser + ")")
		} else {
			r.out("entry order changed (" + parser + ")")
		}
	}
}

func timesOnly(es []entry) string {
	s := make([]string, len(es))
	for i, e := range es {
		s[i] = fmt.Sprint(e.t.Unix())
	}
	sort.Strings(s)
	return strings.Join(s, ",")
}

func reasonsOnly(es []entry) string {
	s := make([]string, len(es))
	for i, e := range es {
		s[i] = "nil"
		if e.reason != nil {
			s[i] = fmt.Sprint(*e.reason)
		}
	}
	sort.Strings(s)
	return strings.Join(s, ",")
}

// stdCRL is the independent cross-check of a created CRL / revocation list
// with crypto/x509 (fields + signature verdict).
func (r *runner) stdCRL(is *issuer, k *keyMat, want []entry, thisUpd, nextUpd time.Time, number *big.Int, silentSerials bool, skid []byte) {
	c := r.c
	srl, err := stdx509.ParseRevocationList(r.der)
	c.Evaluations.Add(1)
	if err != nil {
		r.out("crypto/x509 does not accept the DER: " + ev.MsgClass(err.Error()))
		return
	}
	r.out("crypto/x509 parses the DER")
	if g, w := canonATVs(stdNames(srl.Issuer.Names)), canonATVs(is.attrs); g != w {
		r.viol("crypto/x509 reads a different issuer from the created list", fmt.Sprintf("got [%s] want [%s]", g, w))
	}
	if is.z != nil && len(is.z.RawSubject) > 0 {
		if string(srl.RawIssuer) == string(is.z.RawSubject) {
			r.out("issuer DN bytes identical to the issuing certificate's subject")
		} else {
			r.out("issuer DN re-encoded (same attributes, different bytes)")
		}
	}
	if srl.ThisUpdate.Unix() != thisUpd.Unix() || srl.NextUpdate.Unix() != nextUpd.Unix() {
		r.viol("crypto/x509 reads different update times from the created list",
			fmt.Sprintf("thisUpdate %s want %s; nextUpdate %s want %s", srl.ThisUpdate.UTC(), thisUpd.UTC(), srl.NextUpdate.UTC(), nextUpd.UTC()))
	}
	if number != nil && (srl.Number == nil || srl.Number.Cmp(number) != 0) {
		r.viol("crypto/x509 reads a different CRL number from the created list", fmt.Sprintf("got %v want %v", srl.Number, number))
	}
	if len(skid) > 0 {
		if string(srl.AuthorityKeyId) == string(skid) {
			r.out("authorityKeyIdentifier = issuer SubjectKeyId")
		} else {
			r.out("authorityKeyIdentifier differs from issuer SubjectKeyId")
		}
	}
	var got []entry
	for _, e := range srl.RevokedCertificateEntries {
		ge := entry{serial: e.SerialNumber, t: e.RevocationTime, exts: stdExts(e.Extensions)}
		// crypto/x509 reports "no reasonCode extension" as 0
		if countExt(ge.exts, oidReason) > 0 || e.ReasonCode != 0 {
			rc := e.ReasonCode
			ge.reason = &rc
		}
		got = append(got, ge)
	}
	r.compareEntries("crypto/x509", want, got, silentSerials, true)
	if is.std == nil {
		r.out("crypto/x509 cannot parse the issuer certificate: signature verdict skipped")
		return
	}
	if err := srl.CheckSignatureFrom(is.std); err != nil {
		var insecure stdx509.InsecureAlgorithmError
		if errors.As(err, &insecure) || errors.Is(err, stdx509.ErrUnsupportedAlgorithm) {
			r.out("crypto/x509 CheckSignatureFrom abstains (insecure/unsupported algorithm)")
		} else {
			r.viol("crypto/x509 RevocationList.CheckSignatureFrom rejects the created list [key family "+k.family+"]", err.Error())
		}
	} else {
		r.out("crypto/x509 CheckSignatureFrom accepts")
	}
}
