// Standalone reproducer for the C19 finding: cryptobyte's OBJECT IDENTIFIER
// reader accepts a sub-identifier whose first octet is 0x80 (a padded,
// non-minimal base-128 number, forbidden by X.690 8.19.2), so decoding is not
// canonical: re-encoding the decoded value yields different (shorter) bytes.
//
//	cd /verif/mc && GOFLAGS=-mod=mod GOPROXY=off go run ./cmd/c19/repro/oid80
//
// Exit status 1 when the defect is present, 0 when it is fixed.
package main

import (
	"bytes"
	"fmt"
	"os"

	"github.com/zmap/zcrypto/cryptobyte"
	"github.com/zmap/zcrypto/encoding/asn1"
)

func main() {
	asn1.AllowPermissiveParsing = false
	bad := 0
	for _, in := range [][]byte{
		{0x06, 0x02, 0x80, 0x01},             // first sub-identifier padded: 0.1
		{0x06, 0x03, 0x55, 0x80, 0x01},       // 2.5.1 with a padded last arc
		{0x06, 0x04, 0x2a, 0x80, 0x80, 0x01}, // 1.2.1 with a doubly padded arc
	} {
		var oid asn1.ObjectIdentifier
		s := cryptobyte.String(in)
		ok := s.ReadASN1ObjectIdentifier(&oid)
		var std asn1.ObjectIdentifier
		_, stdErr := asn1.Unmarshal(in, &std)
		fmt.Printf("input % x\n  encoding/asn1.Unmarshal: err=%v\n  cryptobyte.ReadASN1ObjectIdentifier: ok=%v oid=%v rest=%d\n", in, stdErr, ok, oid, len(s))
		if !ok {
			continue
		}
		var b cryptobyte.Builder
		b.AddASN1ObjectIdentifier(oid)
		re, err := b.Bytes()
		fmt.Printf("  re-encoded with Builder.AddASN1ObjectIdentifier: % x (err=%v)\n", re, err)
		if !bytes.Equal(re, in) {
			fmt.Println("  => DEFECT: accepted, but re-encoding does not reproduce the consumed bytes")
			bad++
		}
	}
	if bad > 0 {
		os.Exit(1)
	}
	fmt.Println("no defect: all non-minimal sub-identifiers rejected")
}
