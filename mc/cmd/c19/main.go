// C19 — strict DER decoding is canonical in both ASN.1 codecs.
//
// Engine E2, generator G-bytes (truly exhaustive): every short encoding of an
// INTEGER, BOOLEAN, OBJECT IDENTIFIER, BIT STRING, identifier/length header,
// a grid of GeneralizedTime strings and a family of long elements (127..257,
// 65535, 65536 content octets under every length form) is decoded by
// encoding/asn1 and by the cryptobyte readers with
// asn1.AllowPermissiveParsing = false. Accepted cases are decoded again with a
// trailing octet and under the other identifier octets of the same tag number.
//
// Oracle (from the property statement): the decoder rejects, OR re-encoding the
// decoded value with the same library reproduces exactly the consumed bytes.
// In addition the accept decision is compared with an independent DER
// canonicity predicate (ref.go, transcribed from X.690): accepting something
// the predicate calls non-canonical is a violation. Rejecting a canonical
// encoding is a violation only inside the documented range of the target Go
// type; everything else is counted as information.
package main

import (
	"bytes"
	"encoding/hex"
	"encoding/json"
	"fmt"
	"os"
	"runtime"
	"runtime/debug"
	"sort"
	"strings"
	"sync/atomic"
	"time"

	"github.com/zmap/zcrypto/cryptobyte"
	"github.com/zmap/zcrypto/encoding/asn1"
	"verifmc/internal/ev"
	"verifmc/internal/nohb"
)

// ---------------------------------------------------------------- framework

type family struct {
	name      string
	targets   []string
	reasons   []string // reason 0 = canonical
	tolerated []bool   // reasons on which the statement is silent (nil = none)
	infos     []string // why a canonical encoding may be rejected by a target
	eval      func(w *W, cs []byte)
}

const (
	kAccept       = iota // accepted, canonical, round trip holds
	kAcceptSilent        // accepted, statement-silent class, round trip holds
	kReject              // rejected, not canonical
	kRejectInfo          // rejected although canonical: outside the target's documented range
	nKinds
	maxIdx = 16
)

// violation codes (part of the signature)
const (
	vNonCanonical = iota
	vReencode
	vConsumed
	vValue
	vOverReject
	vPanic
	// prior.go
	vPriorDecision
	vPriorValue
	vInput
	vClobber
	vShare
)

var vText = []string{
	"accepts a non-canonical encoding",
	"re-encoding the decoded value does not reproduce the consumed bytes",
	"consumed length differs from the element length",
	"decoded value differs from the DER value",
	"rejects a canonical encoding inside the Go type's range",
	"panic",
	"the accept/reject decision depends on what the destination held before the call",
	"the decoded value depends on what the destination held before the call",
	"decoding modified the input bytes",
	"an earlier result changed when the same input was decoded into a second destination",
	"the results in two destinations share storage: writing through one changed the other",
}

type witness struct {
	Family   string `json:"family"`
	Target   string `json:"target"`
	CaseHex  string `json:"case_hex"` // argument of the family's evaluator (first 160 octets; only TAG/LENGTH cases are longer: fillAt(i) beyond)
	CaseLen  int    `json:"case_len"`
	InputHex string `json:"input_hex"` // first octets of the encoding handed to the decoder
	InputLen int    `json:"input_len"`
	Detail   string `json:"detail"`
	Count    int64  `json:"violating_inputs_in_run"`
}

type vkey struct {
	t, code int
	extra   string
}

type vrec struct {
	sig   string
	count int64
	cs    []byte // smallest case so far (first 160 octets; longer cases hold fillAt(i) beyond them)
	csLen int
	in    []byte
	inLen int
	t     int
	det   string
}

// W is the state of one worker for one family.
type W struct {
	c    *ev.Ctx
	f    *family
	hist []int64
	viol map[vkey]*vrec

	cases, evals, ops, accepts, distinct int64
	anyAccept                            bool
	sampleAcc, sampleRej                 string

	cs  []byte // current case (for panic reports)
	cur []byte // current decoder input
	ct  int    // current target

	caseBuf [160]byte
	tlv     [160]byte
	out     []byte // scratch for builders
	bld     *cryptobyte.Builder
	s       cryptobyte.String
	big     []byte // header family: buffer holding fillAt(i) at offset i
	limit   int    // header family: largest contents length that is supplied
	long    []byte // long-contents families: decoder input
	d       dests

	// prior.go: destination independence and input immutability
	e, s0  dests  // second destination object (holds the prior contents), snapshot of the baseline result
	inSave []byte // copy of the decoder input taken before the call
	pf     bool   // the current case takes part in the destination pre-fill (set by the family's evaluator)
	pfAll  bool   // thorough tier, replay: every case of the exhaustive INTEGER / BIT STRING families takes part

	pfReads, pfAccepts, pfRejects, pfWrites, pfWindows int64

	// allVariants (thorough tier, replay): the trailing-octet and other-identifier
	// variants run on every accepted 3-octet OID body and on the accepted 3-octet
	// INTEGER contents whose last octet is in edge6, instead of the quick tier's
	// slices (INTEGER: first and last octet in edge6; OID: last octet in edge6).
	allVariants bool
}

func newW(c *ev.Ctx, f *family) *W {
	return &W{c: c, f: f, hist: make([]int64, len(f.targets)*nKinds*maxIdx), viol: map[vkey]*vrec{}, out: make([]byte, 0, 512), bld: new(cryptobyte.Builder),
		allVariants: !c.Quick() || c.Replay != nil, pfAll: !c.Quick() || c.Replay != nil}
}

func (w *W) bump(t, kind, idx int) { w.hist[(t*nKinds+kind)*maxIdx+idx]++ }

func clip(b []byte, n int) []byte {
	if len(b) > n {
		b = b[:n]
	}
	return append([]byte(nil), b...)
}

func lessCase(a []byte, alen int, b []byte, blen int) bool {
	if alen != blen {
		return alen < blen
	}
	return bytes.Compare(a, b) < 0
}

// violate records one violating (input, target). Only the smallest case per
// signature is kept as the witness; detail is built lazily.
func (w *W) violate(t, code int, extra string, detail func() string) {
	k := vkey{t, code, extra}
	r := w.viol[k]
	if r == nil {
		sig := w.f.name + " " + w.f.targets[t] + ": " + vText[code]
		if extra != "" {
			sig += " (" + extra + ")"
		}
		r = &vrec{sig: sig, csLen: 1 << 62}
		w.viol[k] = r
	}
	r.count++
	if lessCase(w.cs[:min(len(w.cs), 160)], len(w.cs), r.cs, r.csLen) {
		r.cs, r.csLen = clip(w.cs, 160), len(w.cs)
		r.in, r.inLen = clip(w.cur, 48), len(w.cur)
		r.t = t
		r.det = detail()
	}
}

// verdict of the reference predicate for one decoder input.
type verdict struct {
	reason  int // 0 = canonical
	elemLen int // length of the element at the start of the input (when canonical / tolerated)
}

// rejected: the decoder refused the input. core = the statement (together with
// the documented range of the target type) requires acceptance when canonical.
func (w *W) rejected(t int, v verdict, core bool, info int, why func() string) {
	w.evals++
	if v.reason != 0 {
		w.bump(t, kReject, v.reason)
		if w.sampleRej == "" && len(w.cur) >= 3 {
			w.sampleRej = hexClip(w.cur) + " -> " + w.f.targets[t] + " rejects (" + w.f.reasons[v.reason] + ")"
		}
		return
	}
	if core {
		w.violate(t, vOverReject, "", why)
		return
	}
	w.bump(t, kRejectInfo, info)
}

// accepted: the decoder accepted and consumed `consumed` octets; re/reErr is the
// re-encoding of the decoded value by the same library.
func (w *W) accepted(t int, v verdict, consumed int, re []byte, reErr error, valOK bool, val func() string) {
	w.evals++
	w.accepts++
	w.anyAccept = true
	in := w.cur
	det := func() string {
		s := "decoded " + val() + "; consumed " + fmt.Sprint(consumed) + " of " + fmt.Sprint(len(in)) + " octets; re-encoded as "
		if reErr != nil {
			return s + "error: " + reErr.Error()
		}
		return s + hexClip(re)
	}
	tolerated := v.reason != 0 && w.f.tolerated != nil && w.f.tolerated[v.reason]
	if v.reason != 0 && !tolerated {
		w.violate(t, vNonCanonical, w.f.reasons[v.reason], det)
		return
	}
	if consumed != v.elemLen {
		w.violate(t, vConsumed, "", det)
		return
	}
	if reErr != nil || consumed < 0 || consumed > len(in) || !bytes.Equal(re, in[:consumed]) {
		w.violate(t, vReencode, "", det)
		return
	}
	if !valOK {
		w.violate(t, vValue, "", det)
		return
	}
	if tolerated {
		w.bump(t, kAcceptSilent, v.reason)
	} else {
		w.bump(t, kAccept, 0)
	}
	if w.sampleAcc == "" && len(in) >= 3 {
		w.sampleAcc = hexClip(in) + " -> " + w.f.targets[t] + " accepts " + val() + ", re-encodes to the same " + fmt.Sprint(consumed) + " octets"
	}
}

func hexClip(b []byte) string {
	if len(b) > 48 {
		return hex.EncodeToString(b[:48]) + fmt.Sprintf("… (%d octets)", len(b))
	}
	return hex.EncodeToString(b)
}

// run1 evaluates one case under recover(): a panic inside zcrypto is a
// violation attributed to the first zcrypto frame, and enumeration goes on.
func (w *W) run1(cs []byte) {
	w.cases++
	w.cs = cs
	w.anyAccept = false
	defer func() {
		if r := recover(); r != nil {
			site := panicSite()
			msg := ev.MsgClass(fmt.Sprint(r))
			w.violate(w.ct, vPanic, "@"+site+": "+msg, func() string { return fmt.Sprint(r) })
		}
		if w.anyAccept {
			w.distinct++
		}
	}()
	w.f.eval(w, cs)
}

func panicSite() string {
	pcs := make([]uintptr, 64)
	n := runtime.Callers(3, pcs)
	frames := runtime.CallersFrames(pcs[:n])
	first := ""
	for {
		fr, more := frames.Next()
		fn := fr.Function
		if strings.Contains(fn, "github.com/zmap/zcrypto/") {
			return strings.TrimPrefix(fn, "github.com/zmap/zcrypto/")
		}
		if first == "" && !strings.HasPrefix(fn, "runtime.") {
			first = fn
		}
		if !more {
			break
		}
	}
	return first
}

type shard func(w *W)

type famStats struct {
	Cases, Evaluations, Operations, Accepts, Distinct int64
	// destination pre-fill (prior.go): decodes into a pre-filled destination, of which accepted with the same
	// value / rejected like the baseline; results written through; of which windows of the input
	PrefilledDecodes, PrefilledAccepts, PrefilledRejects, WrittenThrough, InputWindows int64
	Shards, ShardsDone                                                                 int
	WallSeconds                                                                        float64 // information only, never part of a verdict
}

var total famStats

// runFamily enumerates all shards of one family in parallel and merges the
// worker-local results. setup prepares family-specific worker state.
func runFamily(c *ev.Ctx, f *family, part string, shards []shard, setup func(w *W)) {
	ws := make([]*W, c.Workers())
	t0 := time.Now()
	var done atomic.Int64
	finished := c.Parallel(len(shards), func(wi, i int) {
		w := ws[wi]
		if w == nil {
			w = newW(c, f)
			if setup != nil {
				setup(w)
			}
			ws[wi] = w
		}
		shards[i](w)
		done.Add(1)
	})
	var live []*W
	for _, w := range ws {
		if w != nil {
			live = append(live, w)
		}
	}
	st := merge(c, f, live)
	st.Shards, st.ShardsDone = len(shards), int(done.Load())
	st.WallSeconds = float64(time.Since(t0).Milliseconds()) / 1000
	label := f.name
	if part != "" {
		label += " / " + part
	}
	c.Set("family: "+label, st)
	if len(live) > 0 {
		c.Sample(map[string]string{"family": label, "accepted": live[0].sampleAcc, "rejected": live[0].sampleRej})
	}
	if !finished || st.ShardsDone != st.Shards {
		c.Incomplete(fmt.Sprintf("%s: only %d of %d shards were enumerated before the time budget ran out", label, st.ShardsDone, st.Shards))
	}
}

var perTarget = map[string]map[string]int64{}

func merge(c *ev.Ctx, f *family, ws []*W) famStats {
	var st famStats
	hist := make([]int64, len(f.targets)*nKinds*maxIdx)
	viol := map[string]*vrec{}
	for _, w := range ws {
		st.Cases += w.cases
		st.Evaluations += w.evals
		st.Operations += w.ops
		st.Accepts += w.accepts
		st.Distinct += w.distinct
		st.PrefilledDecodes += w.pfReads
		st.PrefilledAccepts += w.pfAccepts
		st.PrefilledRejects += w.pfRejects
		st.WrittenThrough += w.pfWrites
		st.InputWindows += w.pfWindows
		for i, v := range w.hist {
			hist[i] += v
		}
		for _, r := range w.viol {
			sig := r.sig
			m := viol[sig]
			if m == nil {
				viol[sig] = r
				continue
			}
			m.count += r.count
			if lessCase(r.cs, r.csLen, m.cs, m.csLen) {
				r.count = m.count
				viol[sig] = r
			}
		}
	}
	c.States.Add(st.Cases)
	c.Evaluations.Add(st.Evaluations)
	c.Transitions.Add(st.Operations)
	c.Traces.Add(st.Accepts)
	c.Distinct.Add(st.Distinct)
	total.Cases += st.Cases
	total.Evaluations += st.Evaluations
	total.Operations += st.Operations
	total.Accepts += st.Accepts
	total.Distinct += st.Distinct
	total.PrefilledDecodes += st.PrefilledDecodes
	total.PrefilledAccepts += st.PrefilledAccepts
	total.PrefilledRejects += st.PrefilledRejects
	total.WrittenThrough += st.WrittenThrough
	total.InputWindows += st.InputWindows

	oc := ev.Hist{}
	for cls, n := range map[string]int64{
		"accepted with the value, rest and decision of the decode into a zero destination":                                                      st.PrefilledAccepts,
		"rejected like the decode into a zero destination (state of the destination: undocumented, no verdict)":                                 st.PrefilledRejects,
		"result written through by the harness: first result and input unchanged":                                                               st.WrittenThrough - st.InputWindows,
		"result written through by the harness: it is a window of the input (cryptobyte by design, encoding/asn1 undocumented; input restored)": st.InputWindows,
	} {
		if n != 0 {
			oc[f.name+" | destination pre-filled | "+cls] += n
		}
	}
	for t, tn := range f.targets {
		codec := "cryptobyte"
		if strings.HasPrefix(tn, "encoding/asn1") {
			codec = "encoding/asn1"
		}
		pt := perTarget[f.name+" "+tn]
		if pt == nil {
			pt = map[string]int64{}
			perTarget[f.name+" "+tn] = pt
		}
		for k := 0; k < nKinds; k++ {
			for i := 0; i < maxIdx; i++ {
				n := hist[(t*nKinds+k)*maxIdx+i]
				if n == 0 {
					continue
				}
				var cls string
				switch k {
				case kAccept:
					cls = "accept, round trip exact"
				case kAcceptSilent:
					cls = "accept (statement silent), round trip exact: " + f.reasons[i]
				case kReject:
					cls = "reject: " + f.reasons[i]
				case kRejectInfo:
					cls = "reject canonical (info): " + f.infos[i]
				}
				oc[f.name+" | "+codec+" | "+cls] += n
				pt[cls] += n
			}
		}
	}
	sigs := make([]string, 0, len(viol))
	for s := range viol {
		sigs = append(sigs, s)
	}
	sort.Strings(sigs)
	for _, s := range sigs {
		r := viol[s]
		oc[f.name+" | VIOLATION | "+s] += r.count
		c.Violation(s, witness{Family: f.name, Target: f.targets[r.t], CaseHex: hex.EncodeToString(r.cs), CaseLen: r.csLen,
			InputHex: hex.EncodeToString(r.in), InputLen: r.inLen, Detail: r.det, Count: r.count})
	}
	c.Merge(oc)
	return st
}

// byteShards: every byte string of each length in [minLen,maxLen], in shards
// of at most 65536 strings (the leading octets are fixed per shard).
func byteShards(minLen, maxLen int) []shard {
	var out []shard
	for L := minLen; L <= maxLen; L++ {
		L := L
		fixed := 0
		if L > 2 {
			fixed = L - 2
		}
		nsh := 1 << (8 * fixed)
		free := L - fixed
		for s := 0; s < nsh; s++ {
			s := s
			out = append(out, func(w *W) {
				p := w.caseBuf[:L]
				for i := 0; i < fixed; i++ {
					p[i] = byte(s >> (8 * (fixed - 1 - i)))
				}
				n := 1 << (8 * free)
				for x := 0; x < n; x++ {
					for i := 0; i < free; i++ {
						p[fixed+i] = byte(x >> (8 * (free - 1 - i)))
					}
					w.run1(p)
				}
			})
		}
	}
	return out
}

func pow(b, e int) int {
	r := 1
	for ; e > 0; e-- {
		r *= b
	}
	return r
}

// gridShard: every string of length k over the alphabet, appended to prefix.
func forAllOver(alpha []byte, k int, buf []byte, f func()) {
	n := pow(len(alpha), k)
	for x := 0; x < n; x++ {
		y := x
		for i := k - 1; i >= 0; i-- {
			buf[i] = alpha[y%len(alpha)]
			y /= len(alpha)
		}
		f()
	}
}

func main() {
	if nohb.IsWorker() {
		nohb.WorkerMain(reentrantOps(), reentrantRepoDir())
		return
	}
	asn1.AllowPermissiveParsing = false // process-global; set once, never toggled
	ev.Main("C19", "model_checking", func(c *ev.Ctx) {
		if asn1.AllowPermissiveParsing {
			c.Broken("AllowPermissiveParsing is on")
		}
		// The decoders and encoders allocate a handful of small objects per call and
		// the live heap is tiny: collect less often than the default pacer would.
		setGC()

		fams := []*family{famInt, famBool, famOID, famBit, famHdr, famTime, famIntLong, famBitLong, famOIDLong, famOct}
		if c.Replay != nil {
			replay(c, fams)
			return
		}
		thorough := !c.Quick()
		hdrLimit := ev.Pick(c, 1<<17, 1<<24)
		c.Rule("G-bytes, permissive parsing off. One case = one byte string (or a 9-octet descriptor of a long element); it is decoded by every listed target of both codecs. " +
			"INTEGER: all contents of 0..3 octets + boundary family (lengths 4,5,8,9,10; first two and last octet over E6={00,01,7f,80,fe,ff}, fill over {00,5a,ff}), 19 targets: 6 encoding/asn1 destinations, cryptobyte ReadASN1Integer into *int8/*int16/*int32/*int64/*int/*uint8/*uint16/*uint32/*uint64/*uint/*big.Int (exact oracle: accepted iff canonical and the value fits the destination type), ReadASN1Int64WithTag, ReadASN1Enum " +
			"(asn1 interface{} and cryptobyte *int8/*int32/*int/*uint8/*uint32/*uint skip the 2^24 three-octet contents; *int16/*uint16 see all of them); " +
			"BOOLEAN: all contents of 0..2 octets; OID: all bodies of 0..3 octets + 5..6-octet sub-identifier boundary family + all 4-octet bodies with two adjacent octets exhaustive and the two others over B8={00,01,50,7f,80,81,fe,ff} (3 x 64 x 65536; thorough: all 2^32 4-octet bodies); " +
			"BIT STRING: all bodies of 0..3 octets (pad octet + 0..2 content octets); " +
			"long elements (harness DER length helper): INTEGER, BIT STRING, OBJECT IDENTIFIER with 127,128,129,255,256,257 content octets, OCTET STRING with 0,1,2,126..129,255..257 (INTEGER, BIT STRING, OCTET STRING also 65535, 65536), each x length form {DER, long form with 1 or 2 superfluous leading zero octets, 0x81 L for L<128, indefinite with end-of-contents} x {complete, last content octet missing} x first/second/last content octet over type-specific edge sets x fill generators (position-dependent octets; OID: 1-, 2- and 3-octet arcs); " +
			"variants: every case of <= 2 content octets, of the boundary and long families and every BIT STRING / GeneralizedTime case that some decoder accepts is decoded again (a) followed by one octet 0xff: consumed length and rest must be exact, (b) under the 7 other identifier octets with the same tag number (constructed bit, the three other classes, both; relative to the tag the caller passes for ReadASN1Int64WithTag): every target that states its expected identifier must reject (interface{} destinations are ANY and are skipped); " +
			"of the 2^24 three-octet INTEGER contents the quick tier takes those with first and last octet in E6, of the three-octet OID bodies those with last octet in E6, of the four-octet OID bodies those with all octets in B8 (thorough: all three-octet OID bodies, and the three-octet INTEGER contents with last octet in E6; boundary-family bodies of 3 or 4 octets follow the same slices); " +
			"headers: every 1,2,3-octet prefix, every 4,5,6-octet header (identifier+length octets spanning or overrunning the prefix) with octets 3.. over {00,01,7f,80,ff}, " +
			"a high-tag-number family (8 leading octets x 1..6 subsequent octets over {00,1e,1f,7f,80,87,88,ff} x length {00,01}) and a long length-of-length family (1..9,126,127 length octets), " +
			"each completed with position-dependent contents (offset i of the input holds byte(131i+7)^byte(i>>8)^byte(i>>15)) of the declared length when that is at most 2^17 (thorough: at most 2^24 for the 8 identifier octets with tag number 4), plus one-short and one-long variants up to 300 octets, otherwise left truncated; " +
			"GeneralizedTime (cryptobyte): field grid + every single-octet substitution/truncation/extension of 20000229235959Z. " +
			"Destination independence and input immutability (prior.go): every decode of the INTEGER, BOOLEAN, OBJECT IDENTIFIER, BIT STRING, OCTET STRING and GeneralizedTime families (both codecs, every destination kind, accepted and rejected cases, trailing-octet and other-identifier variants included) " +
			"[the pre-fill runs under the expected identifier, with the trailing octet and under the first (constructed) of the 7 other identifier octets; the input comparison follows every decode] " +
			"is followed by a comparison of the input bytes with a copy taken before the call; the cases named below are decoded again into a SECOND destination object pre-filled with each prior content of its kind " +
			"(integers: all ones and 0x5b5a59.. in every octet; bool: the complement; big.Int / *big.Int: -1 and a 44-octet value; []byte, cryptobyte.String, BitString, ObjectIdentifier: a longer non-empty value in a retained backing array with spare capacity and a one-element full one; interface{}: int64(-1) and a []byte; time.Time: a zoned instant with nanoseconds and one before year 1): " +
			"accept/reject decision, consumed length and decoded value must equal those of the decode into the zero destination (after a rejected decode the destination is documented by neither codec: no demand); the first result must be unchanged by the second decode and after the harness has written through the second result " +
			"(slice elements, big.Int words; a result that is a window of the input - cryptobyte by design, encoding/asn1 undocumented - is counted and the input restored). Pre-filled cases: all of BOOLEAN, GeneralizedTime, OCTET STRING, the long-contents families, INTEGER contents of 0..2 octets + boundary family, BIT STRING bodies of 0..2 octets; " +
			"of the three-octet INTEGER contents those with first and last octet in E6, of the three-octet BIT STRING bodies those with last octet in E6, of the OID bodies those that also get the variants (thorough: every three-octet INTEGER content, BIT STRING body and OID body); the TAG/LENGTH family takes no part in this pass. " +
			"distinct_nontrivial = cases accepted by at least one decoder (they exercise the re-encoding oracle); " +
			"transitions = decode and re-encode calls on the real code; traces = accepted decodes whose re-encoding was compared")
		c.Assume("reference DER predicates in ref.go transcribe X.690 8.x/10/11 and are independent of zcrypto",
			"re-encoders: asn1.Marshal for encoding/asn1 values; Builder.AddASN1* (Builder.MarshalASN1 for BIT STRINGs with unused bits) for cryptobyte values",
			"over-rejection is a violation only for canonical encodings inside the documented range of the target Go type; cryptobyte high-tag-number identifiers (documented unsupported), sub-identifiers > MaxInt32 (both decoders), values outside the Go type are information",
			"an OCTET STRING is covered as 'a tag/length header' read by the readers that expect one given identifier",
			"GeneralizedTime: non-UTC offsets, fractional seconds, second 60 are classes on which the statement is silent: reject or accept-with-exact-round-trip are both conforming",
			"destination independence: 'the decoded value' of the statement is a function of the input bytes; a decoder whose result depends on the previous content of the caller's variable, that writes to its input, or whose results share storage with each other breaks 'decode, then re-encode the decoded value' for every caller that reuses a destination or keeps two results",
			"64-bit platform (Go int = 64 bits)")
		c.Set("header_content_limit", hdrLimit)

		runFamily(c, famBool, "", byteShards(0, 2), nil)
		runFamily(c, famTime, "", timeShards(), nil)
		withAny := func(w *W) { w.d.withAny = true }
		runFamily(c, famIntLong, "", longShards(intLongSpace), nil)
		runFamily(c, famBitLong, "", longShards(bitLongSpace), nil)
		runFamily(c, famOIDLong, "", longShards(oidLongSpace), withAny)
		runFamily(c, famOct, "", longShards(octLongSpace), nil)
		runFamily(c, famInt, "", append(byteShards(0, 3), intBoundaryShards()...), nil)
		runFamily(c, famBit, "", byteShards(0, 3), nil)
		runFamily(c, famOID, "bodies of 0..3 octets + boundary family", append(byteShards(0, 3), oidBoundaryShards()...), withAny)
		runFamily(c, famOID, "bodies of 4 octets, two adjacent octets exhaustive", oid4Shards(), nil)
		if thorough {
			debug.SetGCPercent(50) // 16 MiB inputs and re-encodings: keep the heap small
		}
		runFamily(c, famHdr, "", headerShards(), hdrSetup(hdrLimit))
		if thorough {
			setGC()
			runFamily(c, famOID, "all bodies of 4 octets (2^32)", byteShards(4, 4), nil)
		}
		reentrantPhase(c)
		c.Set("per_target_outcomes", perTarget)
		c.Set("totals", total)
	})
}

func setGC() {
	if os.Getenv("GOGC") == "" {
		debug.SetGCPercent(400)
	}
}

func hdrSetup(limit int) func(w *W) {
	return func(w *W) {
		w.limit = limit
		w.big = make([]byte, limit+160)
		for i := range w.big {
			w.big[i] = fillAt(i)
		}
		w.out = make([]byte, 0, limit+64)
	}
}

func replay(c *ev.Ctx, fams []*family) {
	var wt witness
	if err := json.Unmarshal(c.Replay, &wt); err != nil {
		c.Broken("bad witness: %v", err)
	}
	for _, f := range fams {
		if f.name != wt.Family {
			continue
		}
		w := newW(c, f)
		w.d.withAny = true
		head, err := hex.DecodeString(wt.CaseHex)
		if err != nil || wt.CaseLen < len(head) {
			c.Broken("bad witness case")
		}
		cs := make([]byte, wt.CaseLen)
		copy(cs, head)
		if f == famHdr { // beyond the recorded head every header case holds the position-dependent fill
			for i := len(head); i < len(cs); i++ {
				cs[i] = fillAt(i)
			}
		}
		w.run1(cs)
		merge(c, f, []*W{w})
		return
	}
	c.Broken("unknown family %q", wt.Family)
}
