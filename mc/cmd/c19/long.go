package main

// Primitives with long contents (127..257 and 65535/65536 content octets): the
// element needs the long form of the length octets, and the readers' type
// specific code runs on contents that do not fit a short-form element.
//
// One case is a 9-octet descriptor (kept that small so that witnesses stay
// small and replayable):
//
//	cs[0..2] L     declared number of content octets (big-endian)
//	cs[3]    lf    form of the length octets: 0 = DER (minimal), 1 / 2 = long form
//	               with one / two superfluous leading zero octets, 3 = long form
//	               0x81 L for L < 128, 4 = indefinite (0x80 ... 00 00)
//	cs[4]    short 1 = the last content octet is missing from the input
//	cs[5..7] a,b,z first, second and last content octet
//	cs[8]    fill  generator of the octets in between (position dependent)
//
// The reference verdict comes from refHeader on the generated input followed by
// the type's own predicate on the contents the header delimits.

import (
	"fmt"

	"github.com/zmap/zcrypto/cryptobyte"
	cbasn1 "github.com/zmap/zcrypto/cryptobyte/asn1"
	"github.com/zmap/zcrypto/encoding/asn1"
)

// fillAt is the position-dependent content octet used wherever the harness
// supplies "arbitrary" contents: a decoder that returns a window shifted by k
// octets, or zeroed / partially copied contents, cannot reproduce it.
func fillAt(i int) byte { return byte(i*131+7) ^ byte(i>>8) ^ byte(i>>15) }

func fillGeneric(kind byte, i int) byte {
	switch kind {
	case 0:
		return fillAt(i)
	case 1:
		return 0x00
	}
	return 0xff
}

// fillOID: 0 = one arc per octet, 1 = two-octet arcs starting at even offsets,
// 2 = three-octet arcs starting at offsets divisible by 3.
func fillOID(kind byte, i int) byte {
	switch kind {
	case 0:
		return byte(i*7+3) & 0x7f
	case 1:
		if i%2 == 0 {
			return 0x81 + byte(i%100)
		}
		return byte(i*5) & 0x7f
	}
	switch i % 3 {
	case 0:
		return 0x80 | byte(1+i%64)
	case 1:
		return 0x80 | byte(i%128)
	}
	return byte(i) & 0x7f
}

// appendDERLen is the harness' DER length encoder (X.690 8.1.3 + 10.1): short
// form below 128, else long form in the fewest octets.
func appendDERLen(dst []byte, n int) []byte {
	if n < 0x80 {
		return append(dst, byte(n))
	}
	return appendLongLen(dst, n, 0)
}

// appendLongLen: long form 0x80|k followed by pad zero octets and the minimal
// big-endian octets of n (at least one).
func appendLongLen(dst []byte, n, pad int) []byte {
	var be [8]byte
	k := 0
	for v := n; v > 0 || k == 0; v >>= 8 {
		be[7-k] = byte(v)
		k++
	}
	dst = append(dst, 0x80|byte(k+pad))
	for i := 0; i < pad; i++ {
		dst = append(dst, 0)
	}
	return append(dst, be[8-k:]...)
}

const longCaseLen = 9

// genLong builds the decoder input of a descriptor. in[0] is left for the
// targets; supplied = the content octets actually present in the input.
func (w *W) genLong(cs []byte, fill func(kind byte, i int) byte) (in, supplied []byte, L int) {
	if len(cs) != longCaseLen {
		panic("harness: bad long-case descriptor")
	}
	L = int(cs[0])<<16 | int(cs[1])<<8 | int(cs[2])
	lf, short, a, b, z, kind := cs[3], cs[4], cs[5], cs[6], cs[7], cs[8]
	if cap(w.long) < L+32 {
		w.long = make([]byte, 0, max(L+32, 1<<16+64))
	}
	buf := append(w.long[:0], 0)
	switch lf {
	case 0:
		buf = appendDERLen(buf, L)
	case 1, 2:
		buf = appendLongLen(buf, L, int(lf))
	case 3:
		buf = appendLongLen(buf, L, 0)
	default:
		buf = append(buf, 0x80)
	}
	start := len(buf)
	for i := 0; i < L; i++ {
		buf = append(buf, fill(kind, i))
	}
	c := buf[start:]
	if L > 0 {
		c[0] = a
	}
	if L > 1 {
		c[1] = b
	}
	if L > 2 {
		c[L-1] = z
	}
	n := L
	if short == 1 && n > 0 {
		n--
	}
	buf = buf[:start+n]
	supplied = buf[start:]
	if lf == 4 {
		buf = append(buf, 0, 0)
	}
	return buf, supplied, L
}

// longHeader runs the reference header predicate on the generated input and
// returns the contents the header delimits (nil when the header is not DER).
func (w *W) longHeader(in []byte, id byte, x extReasons) (hdrReason int, content []byte, elemLen int) {
	h := &w.d.rHdr
	in[0] = id
	refHeader(in, h)
	if h.reason != 0 {
		return x.mapHdr(h.reason), nil, 0
	}
	return 0, in[h.hdrLen : h.hdrLen+h.n], h.hdrLen + h.n
}

type longSpace struct {
	Ls          []int
	as, bs, zs  []byte
	fills       []byte
	bigLs       []int // contents of 65535 / 65536 octets, with the reduced alphabets below
	bas, bbs    []byte
	bzs, bfills []byte
}

// longShards: one shard per content length; every combination of length form,
// truncation flag, edge octets and fill generator.
func longShards(sp longSpace) []shard {
	var out []shard
	mk := func(L int, as, bs, zs, fills []byte) {
		out = append(out, func(w *W) {
			p := w.caseBuf[:longCaseLen]
			p[0], p[1], p[2] = byte(L>>16), byte(L>>8), byte(L)
			for lf := byte(0); lf <= 4; lf++ {
				if lf == 3 && L >= 128 {
					continue // 0x81 L is the DER form there (lf 0)
				}
				for short := byte(0); short <= 1; short++ {
					if short == 1 && L == 0 {
						continue
					}
					for _, a := range as {
						for _, b := range bs {
							for _, z := range zs {
								for _, f := range fills {
									p[3], p[4], p[5], p[6], p[7], p[8] = lf, short, a, b, z, f
									w.run1(p)
								}
							}
						}
					}
				}
			}
		})
	}
	for _, L := range sp.Ls {
		mk(L, sp.as, sp.bs, sp.zs, sp.fills)
	}
	for _, L := range sp.bigLs {
		mk(L, sp.bas, sp.bbs, sp.bzs, sp.bfills)
	}
	return out
}

var longLs = []int{127, 128, 129, 255, 256, 257}

// ---------------------------------------------------------------- INTEGER

var famIntLong = &family{
	name:    "INTEGER with long contents",
	targets: intTargetNames,
	reasons: intReasons,
	infos:   []string{"value outside the range of the Go type"},
	eval:    evalIntLong,
}

var intLongSpace = longSpace{
	Ls: longLs, as: edge6, bs: edge6, zs: []byte{0x00, 0x5a, 0xff}, fills: []byte{0, 1, 2},
	bigLs: []int{65535, 65536}, bas: []byte{0x00, 0x7f, 0x80, 0xff}, bbs: []byte{0x00, 0x80}, bzs: []byte{0x5a}, bfills: []byte{0},
}

func evalIntLong(w *W, cs []byte) {
	w.pf = true
	in, supplied, L := w.genLong(cs, fillGeneric)
	reason, content, elemLen := w.longHeader(in, 0x02, intX)
	v := verdict{reason, elemLen}
	if reason == 0 {
		refInteger(content, &w.d.rInt)
		v.reason = w.d.rInt.reason
	} else {
		refInteger(supplied, &w.d.rInt)
	}
	w.intTargets(in, v, 0, L)
	if w.anyAccept {
		w.intVariants(in, v, L)
	}
}

// -------------------------------------------------------------- BIT STRING

var famBitLong = &family{
	name:    "BIT STRING with long contents",
	targets: famBit.targets,
	reasons: bitReasons,
	infos:   famBit.infos,
	eval:    evalBitLong,
}

var bitLongSpace = longSpace{
	Ls: longLs, as: []byte{0, 1, 7, 8}, bs: []byte{0x00, 0xff}, zs: []byte{0x00, 0x01, 0x80, 0xfe, 0xff}, fills: []byte{0, 2},
	bigLs: []int{65535, 65536}, bas: []byte{0, 7}, bbs: []byte{0xff}, bzs: []byte{0x00, 0x80, 0xff}, bfills: []byte{0},
}

func evalBitLong(w *W, cs []byte) {
	w.pf = true
	in, supplied, _ := w.genLong(cs, fillGeneric)
	reason, body, elemLen := w.longHeader(in, 0x03, bitX)
	v := verdict{reason, elemLen}
	bitLen := 0
	if reason == 0 {
		v.reason, bitLen = refBitString(body)
	} else {
		body = supplied
	}
	w.bitTargets(in, body, v, 0, bitLen)
	if w.anyAccept {
		w.bitVariants(in, body, v, bitLen)
	}
}

// ------------------------------------------------------- OBJECT IDENTIFIER

var famOIDLong = &family{
	name:    "OBJECT IDENTIFIER with long contents",
	targets: famOID.targets,
	reasons: oidReasons,
	infos:   famOID.infos,
	eval:    evalOIDLong,
}

var oidLongSpace = longSpace{
	Ls: longLs, as: []byte{0x2a, 0x7f, 0x80, 0x81, 0xff}, bs: []byte{0x01, 0x7f, 0x80, 0xff}, zs: []byte{0x00, 0x7f, 0x80, 0xff}, fills: []byte{0, 1, 2},
}

func evalOIDLong(w *W, cs []byte) {
	w.pf = true
	in, supplied, _ := w.genLong(cs, fillOID)
	reason, body, elemLen := w.longHeader(in, 0x06, oidX)
	v := verdict{reason, elemLen}
	if reason == 0 {
		refOID(body, &w.d.rOID)
		v.reason = w.d.rOID.reason
	} else {
		refOID(supplied, &w.d.rOID)
	}
	w.oidTargets(in, v, 0)
	if w.anyAccept {
		w.oidVariants(in, v)
	}
}

// ------------------------------------------------------------ OCTET STRING

// An OCTET STRING is "a tag/length header" with contents: the statement's
// header clause applied to the readers that expect one given identifier.
var famOct = &family{
	name: "OCTET STRING",
	targets: []string{"encoding/asn1.Unmarshal(*[]byte)", "encoding/asn1.Unmarshal(*interface{})",
		"cryptobyte.ReadASN1Bytes(OCTET_STRING)", "cryptobyte.ReadASN1(OCTET_STRING)"},
	reasons: octReasons,
	infos:   []string{"-"},
	eval:    evalOctLong,
}

var octLongSpace = longSpace{
	Ls: []int{0, 1, 2, 126, 127, 128, 129, 255, 256, 257}, as: []byte{0x00, 0x04, 0xff}, bs: []byte{0x30, 0x80}, zs: []byte{0x00, 0x80}, fills: []byte{0, 1},
	bigLs: []int{65535, 65536}, bas: []byte{0x00, 0xff}, bbs: []byte{0x30}, bzs: []byte{0x00, 0x80}, bfills: []byte{0},
}

func evalOctLong(w *W, cs []byte) {
	w.pf = true
	in, supplied, _ := w.genLong(cs, fillGeneric)
	reason, content, elemLen := w.longHeader(in, 0x04, octX)
	v := verdict{reason, elemLen}
	if reason != 0 {
		content = supplied
	}
	w.octTargets(in, content, v, 0)
	if w.anyAccept {
		w.octTargets(withTrailer(in), content, v, 0)
		vv := verdict{octX.wrongID, len(in)}
		pf := w.pf
		for i, m := range idMasks {
			w.pf = pf && i == 0 // destination pre-fill under the first of the other identifier octets only
			w.octTargets(in, content, vv, m)
		}
		w.pf = pf
	}
}

func (w *W) octTargets(in, content []byte, v verdict, mask byte) {
	d := &w.d
	canon := v.reason == 0
	in[0] = 0x04 ^ mask
	eq := func(x []byte) bool { return string(x) == string(content) }

	w.asn1Dec(0, in, v, canon, 0, slotOct, func(d *dests) interface{} { return &d.oct }, func() (interface{}, bool) { return d.oct, eq(d.oct) })
	if mask == 0 { // interface{} is ANY: no expected identifier
		w.asn1Dec(1, in, v, canon, 0, slotAny, func(d *dests) interface{} { return &d.any }, func() (interface{}, bool) {
			x, ok := d.any.([]byte)
			return d.any, ok && eq(x)
		})
	}
	w.cbDec(2, in, v, canon, 0, slotRaw,
		func(s *cryptobyte.String, d *dests) bool { return s.ReadASN1Bytes(&d.rawb, cbasn1.OCTET_STRING) },
		func(b *cryptobyte.Builder) { b.AddASN1OctetString(d.rawb) },
		func() bool { return eq(d.rawb) }, func() string { return hexClip(d.rawb) })
	w.cbDec(3, in, v, canon, 0, slotStr,
		func(s *cryptobyte.String, d *dests) bool { return s.ReadASN1(&d.str, cbasn1.OCTET_STRING) },
		func(b *cryptobyte.Builder) { b.AddASN1OctetString(d.str) },
		func() bool { return eq(d.str) }, func() string { return hexClip(d.str) })
}

var _ = fmt.Sprint
var _ = asn1.Marshal
