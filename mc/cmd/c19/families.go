package main

import (
	"fmt"
	"math"
	"math/big"
	"time"

	"github.com/zmap/zcrypto/cryptobyte"
	cbasn1 "github.com/zmap/zcrypto/cryptobyte/asn1"
	"github.com/zmap/zcrypto/encoding/asn1"
)

// dests holds the decode destinations of one worker, so that handing their
// addresses to the decoders does not allocate in the hot loop.
type dests struct {
	i       int
	i8      int8
	i16     int16
	i32     int32
	i64     int64
	u       uint
	u8      uint8
	u16     uint16
	u32     uint32
	u64     uint64
	oct     []byte
	bigp    *big.Int
	bigv    big.Int
	any     interface{}
	enum    asn1.Enumerated
	cenum   int
	b       bool
	oid     asn1.ObjectIdentifier
	bs      asn1.BitString
	raw     asn1.RawValue
	tm      time.Time
	rawb    []byte            // ReadASN1BitStringAsBytes / ReadASN1Bytes
	str     cryptobyte.String // ReadASN1
	withAny bool
	// prior.go: the BOOLEAN baseline's prior content, and the backing arrays /
	// objects of the prior contents, retained per destination object
	boolBase bool
	prevOID  [2][]int
	prevBS   [2][]byte
	prevOct  [2][]byte
	prevRaw  [2][]byte
	prevStr  [2][]byte
	prevAny  []byte
	prevBig  [2]big.Int
	rInt     refInt
	rOID     refOIDRes
	rHdr     refHdr
	rTime    refTime
}

// idMasks: XORed into the expected identifier octet they give the 7 other
// identifier octets with the same tag number (constructed bit, the three other
// classes, and both). None of them may be accepted by a reader that expects
// the primitive identifier: re-encoding would not reproduce the consumed bytes.
var idMasks = []byte{0x20, 0x40, 0x80, 0xc0, 0x60, 0xa0, 0xe0}

var edge6 = []byte{0x00, 0x01, 0x7f, 0x80, 0xfe, 0xff}

func isEdge6(b byte) bool {
	switch b {
	case 0x00, 0x01, 0x7f, 0x80, 0xfe, 0xff:
		return true
	}
	return false
}

// withTrailer returns in followed by one 0xff octet (in's backing array has room).
func withTrailer(in []byte) []byte {
	out := in[:len(in)+1]
	out[len(in)] = 0xff
	return out
}

func noWhy() string { return "rejected" }

// asn1Dec decodes `in` into the destination dst(&w.d) (slot sl, zero value) with
// encoding/asn1 and, when accepted, re-encodes the value returned by get() with
// asn1.Marshal; then the destination-independence pass (prior.go).
func (w *W) asn1Dec(t int, in []byte, v verdict, core bool, info int, sl *slot, dst func(d *dests) interface{}, get func() (interface{}, bool)) {
	w.cur, w.ct = in, t
	sl.set(&w.d, 0)
	w.keepInput(in)
	rest, err := asn1.Unmarshal(in, dst(&w.d))
	w.ops++
	if err != nil {
		w.rejected(t, v, core, info, func() string { return "Unmarshal error: " + err.Error() })
	} else {
		x, valOK := get()
		re, reErr := asn1.Marshal(x)
		w.ops++
		w.accepted(t, v, len(in)-len(rest), re, reErr, valOK, func() string { return fmt.Sprintf("%v", x) })
	}
	w.afterRead(t, in, sl, err == nil, len(rest), func(d *dests) (bool, int) {
		rest, err := asn1.Unmarshal(in, dst(d))
		return err == nil, len(rest)
	})
}

// builder returns the worker's Builder, reset to write into the scratch buffer
// (a fresh Builder value; only the allocation of the struct is saved).
func (w *W) builder() *cryptobyte.Builder {
	*w.bld = *cryptobyte.NewBuilder(w.out[:0])
	return w.bld
}

// cbDec decodes with a cryptobyte reader into the destination of slot sl in w.d
// (zero value) and re-encodes with the Builder; then the destination-independence
// pass (prior.go). build, valOK and valStr look at w.d.
func (w *W) cbDec(t int, in []byte, v verdict, core bool, info int, sl *slot, read func(s *cryptobyte.String, d *dests) bool, build func(b *cryptobyte.Builder), valOK func() bool, valStr func() string) {
	w.cur, w.ct = in, t
	sl.set(&w.d, 0)
	w.keepInput(in)
	w.s = cryptobyte.String(in)
	ok := read(&w.s, &w.d)
	w.ops++
	left := len(w.s)
	if !ok {
		w.rejected(t, v, core, info, noWhy)
	} else {
		b := w.builder()
		build(b)
		re, reErr := b.Bytes()
		w.ops++
		w.accepted(t, v, len(in)-left, re, reErr, valOK(), valStr)
	}
	w.afterRead(t, in, sl, ok, left, func(d *dests) (bool, int) {
		w.s = cryptobyte.String(in)
		ok := read(&w.s, d)
		return ok, len(w.s)
	})
}

// ================================================================ INTEGER

const (
	tIntA = iota
	tInt32A
	tInt64A
	tBigA
	tAnyA
	tEnumA
	tInt64C
	tInt32C
	tUint64C
	tBigC
	tTagC
	tEnumC
	tInt8C
	tInt16C
	tIntC
	tUint8C
	tUint16C
	tUint32C
	tUintC
)

var intTargetNames = []string{
	"encoding/asn1.Unmarshal(*int)", "encoding/asn1.Unmarshal(*int32)", "encoding/asn1.Unmarshal(*int64)",
	"encoding/asn1.Unmarshal(**big.Int)", "encoding/asn1.Unmarshal(*interface{})", "encoding/asn1.Unmarshal(*Enumerated)",
	"cryptobyte.ReadASN1Integer(*int64)", "cryptobyte.ReadASN1Integer(*int32)", "cryptobyte.ReadASN1Integer(*uint64)",
	"cryptobyte.ReadASN1Integer(*big.Int)", "cryptobyte.ReadASN1Int64WithTag([0])", "cryptobyte.ReadASN1Enum",
	"cryptobyte.ReadASN1Integer(*int8)", "cryptobyte.ReadASN1Integer(*int16)", "cryptobyte.ReadASN1Integer(*int)",
	"cryptobyte.ReadASN1Integer(*uint8)", "cryptobyte.ReadASN1Integer(*uint16)", "cryptobyte.ReadASN1Integer(*uint32)",
	"cryptobyte.ReadASN1Integer(*uint)",
}

var famInt = &family{
	name:    "INTEGER",
	targets: intTargetNames,
	reasons: intReasons,
	infos:   []string{"value outside the range of the Go type"},
	eval:    evalInt,
}

const ctx0 = cbasn1.Tag(0x80) // [0] primitive

func evalInt(w *W, content []byte) {
	n := len(content)
	in := w.tlv[:2+n]
	in[1] = byte(n)
	copy(in[2:], content)
	refInteger(content, &w.d.rInt)
	v := verdict{w.d.rInt.reason, len(in)}
	// destination pre-fill (prior.go): of the 2^24 three-octet contents the quick tier
	// takes those whose first and last octet are in edge6
	w.pf = n != 3 || w.pfAll || isEdge6(content[2]) && isEdge6(content[0])
	w.intTargets(in, v, 0, n)
	if w.anyAccept && (n != 3 || isEdge6(content[2]) && (w.allVariants || isEdge6(content[0]))) {
		w.intVariants(in, v, n)
	}
}

// intVariants: the accepted element followed by one more octet (the rest must
// be exact) and under the 7 other identifier octets (must be rejected).
func (w *W) intVariants(in []byte, v verdict, n int) {
	w.intTargets(withTrailer(in), v, 0, n)
	vv := verdict{intX.wrongID, len(in)}
	pf := w.pf
	for i, m := range idMasks {
		w.pf = pf && i == 0 // destination pre-fill under the first of the other identifier octets only
		w.intTargets(in, vv, m, n)
	}
	w.pf = pf
}

// intTargets hands `in` (identifier octet is set here: expected identifier XOR
// mask) to every INTEGER / ENUMERATED decoder. d.rInt holds the reference value
// of the contents, n is the number of content octets.
func (w *W) intTargets(in []byte, v verdict, mask byte, n int) {
	d := &w.d
	r := &d.rInt
	canon := v.reason == 0
	in64 := canon && r.fitsSigned(64)
	in32 := canon && r.fitsSigned(32)
	inU64 := canon && r.fitsUint64()

	in[0] = 0x02 ^ mask
	w.asn1Dec(tIntA, in, v, in64, 0, slotI, func(d *dests) interface{} { return &d.i }, func() (interface{}, bool) { return d.i, r.eqInt64(int64(d.i)) })
	w.asn1Dec(tInt32A, in, v, in32, 0, slotI32, func(d *dests) interface{} { return &d.i32 }, func() (interface{}, bool) { return d.i32, r.eqInt64(int64(d.i32)) })
	w.asn1Dec(tInt64A, in, v, in64, 0, slotI64, func(d *dests) interface{} { return &d.i64 }, func() (interface{}, bool) { return d.i64, r.eqInt64(d.i64) })
	w.asn1Dec(tBigA, in, v, canon, 0, slotBigP, func(d *dests) interface{} { return &d.bigp }, func() (interface{}, bool) { return d.bigp, r.eqBig(d.bigp) })
	// Targets beyond the design's list skip the 2^24 three-octet contents, except
	// *int16 / *uint16 whose range limits need three content octets.
	extra := n != 3
	if extra && mask == 0 { // an interface{} destination is ANY: it states no expected identifier
		w.asn1Dec(tAnyA, in, v, in64, 0, slotAny, func(d *dests) interface{} { return &d.any }, func() (interface{}, bool) {
			x, ok := d.any.(int64)
			return d.any, ok && r.eqInt64(x)
		})
	}

	w.cbDec(tInt64C, in, v, in64, 0, slotI64,
		func(s *cryptobyte.String, d *dests) bool { return s.ReadASN1Integer(&d.i64) },
		func(b *cryptobyte.Builder) { b.AddASN1Int64(d.i64) },
		func() bool { return r.eqInt64(d.i64) }, func() string { return fmt.Sprint(d.i64) })
	if extra {
		w.cbDec(tInt32C, in, v, in32, 0, slotI32,
			func(s *cryptobyte.String, d *dests) bool { return s.ReadASN1Integer(&d.i32) },
			func(b *cryptobyte.Builder) { b.AddASN1Int64(int64(d.i32)) },
			func() bool { return r.eqInt64(int64(d.i32)) }, func() string { return fmt.Sprint(d.i32) })
	}
	w.cbDec(tUint64C, in, v, inU64, 0, slotU64,
		func(s *cryptobyte.String, d *dests) bool { return s.ReadASN1Integer(&d.u64) },
		func(b *cryptobyte.Builder) { b.AddASN1Uint64(d.u64) },
		func() bool { return r.eqUint64(d.u64) }, func() string { return fmt.Sprint(d.u64) })
	w.cbDec(tBigC, in, v, canon, 0, slotBigV,
		func(s *cryptobyte.String, d *dests) bool { return s.ReadASN1Integer(&d.bigv) },
		func(b *cryptobyte.Builder) { b.AddASN1BigInt(&d.bigv) },
		func() bool { return r.eqBig(&d.bigv) }, func() string { return d.bigv.String() })

	// The remaining destination kinds of ReadASN1Integer: the reader must accept
	// exactly the canonical encodings whose value fits the destination type.
	w.cbDec(tInt16C, in, v, canon && r.fitsSigned(16), 0, slotI16,
		func(s *cryptobyte.String, d *dests) bool { return s.ReadASN1Integer(&d.i16) },
		func(b *cryptobyte.Builder) { b.AddASN1Int64(int64(d.i16)) },
		func() bool { return r.eqInt64(int64(d.i16)) }, func() string { return fmt.Sprint(d.i16) })
	w.cbDec(tUint16C, in, v, canon && r.fitsUnsigned(16), 0, slotU16,
		func(s *cryptobyte.String, d *dests) bool { return s.ReadASN1Integer(&d.u16) },
		func(b *cryptobyte.Builder) { b.AddASN1Uint64(uint64(d.u16)) },
		func() bool { return r.eqUint64(uint64(d.u16)) }, func() string { return fmt.Sprint(d.u16) })
	if extra {
		w.cbDec(tInt8C, in, v, canon && r.fitsSigned(8), 0, slotI8,
			func(s *cryptobyte.String, d *dests) bool { return s.ReadASN1Integer(&d.i8) },
			func(b *cryptobyte.Builder) { b.AddASN1Int64(int64(d.i8)) },
			func() bool { return r.eqInt64(int64(d.i8)) }, func() string { return fmt.Sprint(d.i8) })
		w.cbDec(tIntC, in, v, in64, 0, slotI,
			func(s *cryptobyte.String, d *dests) bool { return s.ReadASN1Integer(&d.i) },
			func(b *cryptobyte.Builder) { b.AddASN1Int64(int64(d.i)) },
			func() bool { return r.eqInt64(int64(d.i)) }, func() string { return fmt.Sprint(d.i) })
		w.cbDec(tUint8C, in, v, canon && r.fitsUnsigned(8), 0, slotU8,
			func(s *cryptobyte.String, d *dests) bool { return s.ReadASN1Integer(&d.u8) },
			func(b *cryptobyte.Builder) { b.AddASN1Uint64(uint64(d.u8)) },
			func() bool { return r.eqUint64(uint64(d.u8)) }, func() string { return fmt.Sprint(d.u8) })
		w.cbDec(tUint32C, in, v, canon && r.fitsUnsigned(32), 0, slotU32,
			func(s *cryptobyte.String, d *dests) bool { return s.ReadASN1Integer(&d.u32) },
			func(b *cryptobyte.Builder) { b.AddASN1Uint64(uint64(d.u32)) },
			func() bool { return r.eqUint64(uint64(d.u32)) }, func() string { return fmt.Sprint(d.u32) })
		w.cbDec(tUintC, in, v, inU64, 0, slotU,
			func(s *cryptobyte.String, d *dests) bool { return s.ReadASN1Integer(&d.u) },
			func(b *cryptobyte.Builder) { b.AddASN1Uint64(uint64(d.u)) },
			func() bool { return r.eqUint64(uint64(d.u)) }, func() string { return fmt.Sprint(d.u) })
	}

	tag0 := cbasn1.Tag(byte(ctx0) ^ mask)
	in[0] = byte(tag0)
	w.cbDec(tTagC, in, v, in64, 0, slotI64,
		func(s *cryptobyte.String, d *dests) bool { return s.ReadASN1Int64WithTag(&d.i64, ctx0) },
		func(b *cryptobyte.Builder) { b.AddASN1Int64WithTag(d.i64, ctx0) },
		func() bool { return r.eqInt64(d.i64) }, func() string { return fmt.Sprint(d.i64) })

	in[0] = 0x0a ^ mask
	w.asn1Dec(tEnumA, in, v, in32, 0, slotEnum, func(d *dests) interface{} { return &d.enum }, func() (interface{}, bool) { return d.enum, r.eqInt64(int64(d.enum)) })
	w.cbDec(tEnumC, in, v, in64, 0, slotCEnm,
		func(s *cryptobyte.String, d *dests) bool { return s.ReadASN1Enum(&d.cenum) },
		func(b *cryptobyte.Builder) { b.AddASN1Enum(int64(d.cenum)) },
		func() bool { return r.eqInt64(int64(d.cenum)) }, func() string { return fmt.Sprint(d.cenum) })
}

// intBoundaryShards: contents of 4, 5, 8, 9 and 10 octets: octets 0, 1 and the
// last one range over edge, the octets in between are one fill value.
func intBoundaryShards() []shard {
	edge := []byte{0x00, 0x01, 0x7f, 0x80, 0xfe, 0xff}
	fill := []byte{0x00, 0x5a, 0xff}
	var out []shard
	for _, L := range []int{4, 5, 8, 9, 10} {
		L := L
		out = append(out, func(w *W) {
			p := w.caseBuf[:L]
			for _, f := range fill {
				for _, a := range edge {
					for _, b := range edge {
						for _, z := range edge {
							for i := range p {
								p[i] = f
							}
							p[0], p[1], p[L-1] = a, b, z
							w.run1(p)
						}
					}
				}
			}
		})
	}
	return out
}

// ================================================================ BOOLEAN

var famBool = &family{
	name:    "BOOLEAN",
	targets: []string{"encoding/asn1.Unmarshal(*bool)", "cryptobyte.ReadASN1Boolean"},
	reasons: boolReasons,
	infos:   []string{"-"},
	eval:    evalBool,
}

func evalBool(w *W, content []byte) {
	n := len(content)
	in := w.tlv[:2+n]
	in[1] = byte(n)
	copy(in[2:], content)
	reason, want := refBoolean(content)
	v := verdict{reason, len(in)}
	w.pf = true
	w.boolTargets(in, v, 0, want)
	if w.anyAccept {
		w.boolTargets(withTrailer(in), v, 0, want)
		vv := verdict{boolX.wrongID, len(in)}
		pf := w.pf
		for i, m := range idMasks {
			w.pf = pf && i == 0 // destination pre-fill under the first of the other identifier octets only
			w.boolTargets(in, vv, m, want)
		}
		w.pf = pf
	}
}

func (w *W) boolTargets(in []byte, v verdict, mask byte, want bool) {
	d := &w.d
	in[0] = 0x01 ^ mask
	d.boolBase = !want // both decodes start from the complement of the expected value
	w.asn1Dec(0, in, v, true, 0, slotBool, func(d *dests) interface{} { return &d.b }, func() (interface{}, bool) { return d.b, d.b == want })
	w.cbDec(1, in, v, true, 0, slotBool,
		func(s *cryptobyte.String, d *dests) bool { return s.ReadASN1Boolean(&d.b) },
		func(b *cryptobyte.Builder) { b.AddASN1Boolean(d.b) },
		func() bool { return d.b == want }, func() string { return fmt.Sprint(d.b) })
}

// ====================================================== OBJECT IDENTIFIER

var famOID = &family{
	name: "OBJECT IDENTIFIER",
	targets: []string{"encoding/asn1.Unmarshal(*ObjectIdentifier)", "cryptobyte.ReadASN1ObjectIdentifier",
		"encoding/asn1.Unmarshal(*interface{})"},
	reasons: oidReasons,
	infos:   []string{"a sub-identifier exceeds MaxInt32 (both decoders document 31-bit arcs)"},
	eval:    evalOID,
}

func oidEq(got asn1.ObjectIdentifier, r *refOIDRes) bool {
	if r.huge || len(got) != r.n {
		return false
	}
	for i, a := range got {
		if a < 0 || uint64(a) != r.arcs[i] {
			return false
		}
	}
	return true
}

var oidB8 = []byte{0x00, 0x01, 0x50, 0x7f, 0x80, 0x81, 0xfe, 0xff}

func inOidB8(b byte) bool {
	switch b {
	case 0x00, 0x01, 0x50, 0x7f, 0x80, 0x81, 0xfe, 0xff:
		return true
	}
	return false
}

// oidVariantsOn: which accepted bodies are also run with a trailing octet and
// under the other identifier octets.
func (w *W) oidVariantsOn(body []byte) bool {
	switch n := len(body); {
	case n <= 2 || n >= 5:
		return true
	case n == 3:
		return w.allVariants || isEdge6(body[2])
	default:
		return inOidB8(body[0]) && inOidB8(body[1]) && inOidB8(body[2]) && inOidB8(body[3])
	}
}

// evalOID is also the body of the 2^32 loop: it does not allocate itself.
func evalOID(w *W, body []byte) {
	n := len(body)
	in := w.tlv[:2+n]
	in[1] = byte(n)
	copy(in[2:], body)
	r := &w.d.rOID
	refOID(body, r)
	v := verdict{r.reason, len(in)}
	vo := w.oidVariantsOn(body)
	w.pf = vo // destination pre-fill (prior.go) on the bodies that also get the variants
	w.oidTargets(in, v, 0)
	if w.anyAccept && vo {
		w.oidVariants(in, v)
	}
}

func (w *W) oidVariants(in []byte, v verdict) {
	w.oidTargets(withTrailer(in), v, 0)
	vv := verdict{oidX.wrongID, len(in)}
	pf := w.pf
	for i, m := range idMasks {
		w.pf = pf && i == 0 // destination pre-fill under the first of the other identifier octets only
		w.oidTargets(in, vv, m)
	}
	w.pf = pf
}

// oidTargets: d.rOID holds the reference arcs of the body.
func (w *W) oidTargets(in []byte, v verdict, mask byte) {
	d := &w.d
	r := &d.rOID
	canon := v.reason == 0
	// Both decoders document (and implement) sub-identifiers up to MaxInt32.
	coreA := canon && !r.huge && r.maxSub <= math.MaxInt32
	coreC := coreA
	in[0] = 0x06 ^ mask

	// encoding/asn1
	w.cur, w.ct = in, 0
	d.oid = nil
	w.keepInput(in)
	rest, err := asn1.Unmarshal(in, &d.oid)
	w.ops++
	if err != nil {
		w.rejected(0, v, coreA, 0, noWhy)
	} else {
		re, reErr := asn1.Marshal(d.oid)
		w.ops++
		w.accepted(0, v, len(in)-len(rest), re, reErr, oidEq(d.oid, r), func() string { return d.oid.String() })
	}
	w.afterRead(0, in, slotOID, err == nil, len(rest), func(d *dests) (bool, int) {
		rest, err := asn1.Unmarshal(in, &d.oid)
		return err == nil, len(rest)
	})

	// cryptobyte
	w.cur, w.ct = in, 1
	d.oid = nil
	w.keepInput(in)
	w.s = cryptobyte.String(in)
	s := &w.s
	ok := s.ReadASN1ObjectIdentifier(&d.oid)
	w.ops++
	left := len(*s)
	if !ok {
		w.rejected(1, v, coreC, 0, noWhy)
	} else {
		b := w.builder()
		b.AddASN1ObjectIdentifier(d.oid)
		re, reErr := b.Bytes()
		w.ops++
		w.accepted(1, v, len(in)-len(*s), re, reErr, oidEq(d.oid, r), func() string { return d.oid.String() })
	}
	w.afterRead(1, in, slotOID, ok, left, func(d *dests) (bool, int) {
		w.s = cryptobyte.String(in)
		ok := w.s.ReadASN1ObjectIdentifier(&d.oid)
		return ok, len(w.s)
	})

	if d.withAny && mask == 0 { // interface{} is ANY: no expected identifier
		w.asn1Dec(2, in, v, coreA, 0, slotAny, func(d *dests) interface{} { return &d.any }, func() (interface{}, bool) {
			x, ok := d.any.(asn1.ObjectIdentifier)
			return d.any, ok && oidEq(x, r)
		})
	}
}

// oid4Shards: bodies of 4 octets with two adjacent octets exhaustive (positions
// 0-1, 1-2 or 2-3) and the two others over oidB8: 3 x 64 x 65536 bodies. This is
// the part of "every OID body up to 4 octets" that the quick tier reaches.
func oid4Shards() []shard {
	var out []shard
	for pos := 0; pos < 3; pos++ {
		var others [2]int
		k := 0
		for i := 0; i < 4; i++ {
			if i != pos && i != pos+1 {
				others[k] = i
				k++
			}
		}
		for _, x := range oidB8 {
			for _, y := range oidB8 {
				pos, x, y, others := pos, x, y, others
				out = append(out, func(w *W) {
					p := w.caseBuf[:4]
					p[others[0]], p[others[1]] = x, y
					for e := 0; e < 65536; e++ {
						p[pos], p[pos+1] = byte(e>>8), byte(e)
						w.run1(p)
					}
				})
			}
		}
	}
	return out
}

// oidBoundaryShards: bodies made of an optional leading arc octet 0x2a, one
// sub-identifier of 1..6 octets (first octet over lead, middle octets over mid,
// last octet over last; a single octet ranges over lead and last) and an
// optional trailing arc octet 0x01. Covers the 2^28, 2^31 and 2^35 limits.
func oidBoundaryShards() []shard {
	lead := []byte{0x80, 0x81, 0x87, 0x88, 0x8f, 0x90, 0xff, 0x7f, 0x01}
	mid := []byte{0x80, 0x81, 0xff}
	last := []byte{0x00, 0x7f, 0x80, 0xff}
	var out []shard
	for k := 1; k <= 6; k++ {
		k := k
		alphas := make([][]byte, k)
		for i := range alphas {
			switch {
			case k == 1:
				alphas[i] = append(append([]byte{}, lead...), last...)
			case i == 0:
				alphas[i] = lead
			case i == k-1:
				alphas[i] = last
			default:
				alphas[i] = mid
			}
		}
		out = append(out, func(w *W) {
			for _, pre := range []int{0, 1} {
				for _, post := range []int{0, 1} {
					p := w.caseBuf[:pre+k+post]
					if pre == 1 {
						p[0] = 0x2a
					}
					if post == 1 {
						p[pre+k] = 0x01
					}
					forAllPos(alphas, p[pre:pre+k], func() { w.run1(p) })
				}
			}
		})
	}
	return out
}

// forAllPos: every string whose i-th octet ranges over alphas[i].
func forAllPos(alphas [][]byte, buf []byte, f func()) {
	idx := make([]int, len(alphas))
	for {
		for i, a := range alphas {
			buf[i] = a[idx[i]]
		}
		f()
		i := len(idx) - 1
		for ; i >= 0; i-- {
			idx[i]++
			if idx[i] < len(alphas[i]) {
				break
			}
			idx[i] = 0
		}
		if i < 0 {
			return
		}
	}
}

// ============================================================== BIT STRING

var famBit = &family{
	name: "BIT STRING",
	targets: []string{"encoding/asn1.Unmarshal(*BitString)", "encoding/asn1.Unmarshal(*interface{})",
		"cryptobyte.ReadASN1BitString (re-encoded with Builder.MarshalASN1)", "cryptobyte.ReadASN1BitStringAsBytes",
		"cryptobyte.ReadASN1BitString (whole octets, re-encoded with Builder.AddASN1BitString)"},
	reasons: bitReasons,
	infos:   []string{"unused bits present: ReadASN1BitStringAsBytes is documented to accept whole octets only"},
	eval:    evalBit,
}

func bsEq(bs asn1.BitString, body []byte, bitLen int) bool {
	return bs.BitLength == bitLen && string(bs.Bytes) == string(body[1:])
}

func evalBit(w *W, body []byte) {
	n := len(body)
	in := w.tlv[:2+n]
	in[1] = byte(n)
	copy(in[2:], body)
	reason, bitLen := refBitString(body)
	v := verdict{reason, len(in)}
	// destination pre-fill (prior.go): of the 2^24 three-octet bodies the quick tier
	// takes those whose last octet is in edge6 (pad octet and first content octet exhaustive)
	w.pf = n != 3 || w.pfAll || isEdge6(body[2])
	w.bitTargets(in, body, v, 0, bitLen)
	if w.anyAccept {
		w.bitVariants(in, body, v, bitLen)
	}
}

func (w *W) bitVariants(in, body []byte, v verdict, bitLen int) {
	w.bitTargets(withTrailer(in), body, v, 0, bitLen)
	vv := verdict{bitX.wrongID, len(in)}
	pf := w.pf
	for i, m := range idMasks {
		w.pf = pf && i == 0 // destination pre-fill under the first of the other identifier octets only
		w.bitTargets(in, body, vv, m, bitLen)
	}
	w.pf = pf
}

// bitTargets: body = the contents octets inside in, bitLen = reference bit length.
func (w *W) bitTargets(in, body []byte, v verdict, mask byte, bitLen int) {
	d := &w.d
	canon := v.reason == 0
	in[0] = 0x03 ^ mask

	w.asn1Dec(0, in, v, canon, 0, slotBS, func(d *dests) interface{} { return &d.bs }, func() (interface{}, bool) { return d.bs, canon && bsEq(d.bs, body, bitLen) })
	if mask == 0 { // interface{} is ANY: no expected identifier
		w.asn1Dec(1, in, v, canon, 0, slotAny, func(d *dests) interface{} { return &d.any }, func() (interface{}, bool) {
			x, ok := d.any.(asn1.BitString)
			return d.any, ok && canon && bsEq(x, body, bitLen)
		})
	}

	// cryptobyte: a BitString value is re-encoded with Builder.MarshalASN1 (the
	// only Builder method that can express unused bits) and, when it is a whole
	// number of octets, also with Builder.AddASN1BitString.
	w.cbDec(2, in, v, canon, 0, slotBS,
		func(s *cryptobyte.String, d *dests) bool { return s.ReadASN1BitString(&d.bs) },
		func(b *cryptobyte.Builder) { b.MarshalASN1(d.bs) },
		func() bool { return canon && bsEq(d.bs, body, bitLen) }, func() string { return bsStr(d.bs) })
	whole := len(body) > 0 && body[0] == 0
	if whole && (canon || mask != 0) {
		w.cbDec(4, in, v, canon, 0, slotBS,
			func(s *cryptobyte.String, d *dests) bool { return s.ReadASN1BitString(&d.bs) },
			func(b *cryptobyte.Builder) { b.AddASN1BitString(d.bs.Bytes) },
			func() bool { return bsEq(d.bs, body, bitLen) }, func() string { return bsStr(d.bs) })
	}
	w.cbDec(3, in, v, canon && whole, 0, slotRaw,
		func(s *cryptobyte.String, d *dests) bool { return s.ReadASN1BitStringAsBytes(&d.rawb) },
		func(b *cryptobyte.Builder) { b.AddASN1BitString(d.rawb) },
		func() bool { return canon && whole && string(d.rawb) == string(body[1:]) }, func() string { return hexClip(d.rawb) })
}

func bsStr(bs asn1.BitString) string {
	return fmt.Sprintf("{BitLength:%d Bytes:%s}", bs.BitLength, hexClip(bs.Bytes))
}

// ================================================== identifier and length

var famHdr = &family{
	name:    "TAG/LENGTH",
	targets: []string{"encoding/asn1.Unmarshal(*RawValue)", "cryptobyte.ReadAnyASN1Element", "cryptobyte.ReadAnyASN1"},
	reasons: hdrReasons,
	infos: []string{"tag number above MaxInt32 (encoding/asn1 keeps tags in 31 bits)",
		"high-tag-number form: documented as unsupported by cryptobyte"},
	eval: evalHeader,
}

// evalHeader: `in` is a header followed by contents (possibly truncated or with
// trailing octets). The octet at offset i of the input, where it is not part of
// the header prefix under test, is fillAt(i): the contents are position
// dependent, so that a decoder returning a shifted, zeroed or partially copied
// window fails the re-encoding comparison.
func evalHeader(w *W, in []byte) {
	d := &w.d
	h := &d.rHdr
	refHeader(in, h)
	v := verdict{h.reason, h.hdrLen + h.n}
	canon := h.reason == 0
	coreA := canon && h.tag <= math.MaxInt32
	coreC := canon && h.tagOctets == 1

	w.cur, w.ct = in, 0
	d.raw = asn1.RawValue{}
	rest, err := asn1.Unmarshal(in, &d.raw)
	w.ops++
	if err != nil {
		w.rejected(0, v, coreA, 0, func() string { return "Unmarshal error: " + err.Error() })
	} else {
		rv := d.raw
		consumed := len(in) - len(rest)
		valOK := canon && rv.Class == h.class && uint64(rv.Tag) == h.tag && rv.Tag >= 0 && rv.IsCompound == h.constructed &&
			len(rv.Bytes) == h.n && len(rv.FullBytes) == consumed
		// FullBytes is dropped so that Marshal has to rebuild the header from the decoded fields.
		re, reErr := asn1.Marshal(asn1.RawValue{Class: rv.Class, Tag: rv.Tag, IsCompound: rv.IsCompound, Bytes: rv.Bytes})
		w.ops++
		w.accepted(0, v, consumed, re, reErr, valOK, func() string {
			return fmt.Sprintf("class=%d tag=%d compound=%v len=%d", rv.Class, rv.Tag, rv.IsCompound, len(rv.Bytes))
		})
	}

	// cryptobyte: element reader. The contents handed to the Builder are
	// obtained by reading the returned element again with ReadAnyASN1.
	w.cur, w.ct = in, 1
	s := cryptobyte.String(in)
	var elem, content cryptobyte.String
	var tag, tag2 cbasn1.Tag
	ok := s.ReadAnyASN1Element(&elem, &tag)
	w.ops++
	if !ok {
		w.rejected(1, v, coreC, 1, noWhy)
	} else {
		consumed := len(in) - len(s)
		e2 := elem
		var re []byte
		var reErr error
		if !e2.ReadAnyASN1(&content, &tag2) || len(e2) != 0 || tag2 != tag {
			reErr = fmt.Errorf("the returned element is not readable as one element by ReadAnyASN1")
		} else {
			b := w.builder()
			b.AddASN1(tag, func(c *cryptobyte.Builder) { c.AddBytes(content) })
			re, reErr = b.Bytes()
		}
		w.ops++
		valOK := canon && byte(tag) == in[0] && len(elem) == consumed
		w.accepted(1, v, consumed, re, reErr, valOK, func() string { return fmt.Sprintf("tag=0x%02x element of %d octets", byte(tag), len(elem)) })
	}

	// cryptobyte: contents reader.
	w.cur, w.ct = in, 2
	s = cryptobyte.String(in)
	content = nil
	ok = s.ReadAnyASN1(&content, &tag)
	w.ops++
	if !ok {
		w.rejected(2, v, coreC, 1, noWhy)
	} else {
		b := w.builder()
		b.AddASN1(tag, func(c *cryptobyte.Builder) { c.AddBytes(content) })
		re, reErr := b.Bytes()
		w.ops++
		valOK := canon && byte(tag) == in[0] && len(content) == h.n
		w.accepted(2, v, len(in)-len(s), re, reErr, valOK, func() string { return fmt.Sprintf("tag=0x%02x contents of %d octets", byte(tag), len(content)) })
	}
}

// lenientHeader is part of the *generator*: a BER-style structural parse (any
// tag form, any definite long form, indefinite) that tells how many content
// octets a prefix declares, so that the input can be completed with zeros.
func lenientHeader(p []byte) (complete bool, hdrLen int, declared uint64, indefinite bool) {
	if len(p) == 0 {
		return
	}
	i := 1
	if p[0]&0x1f == 0x1f {
		for {
			if i >= len(p) {
				return
			}
			b := p[i]
			i++
			if b&0x80 == 0 {
				break
			}
		}
	}
	if i >= len(p) {
		return
	}
	l := p[i]
	i++
	switch {
	case l < 0x80:
		return true, i, uint64(l), false
	case l == 0x80:
		return true, i, 0, true
	}
	k := int(l & 0x7f)
	if i+k > len(p) {
		return
	}
	for j := 0; j < k; j++ {
		if declared >= 1<<55 {
			declared = 1 << 62
		} else {
			declared = declared<<8 | uint64(p[i+j])
		}
	}
	return true, i + k, declared, false
}

// hdrMid: contents up to this length are supplied for every identifier octet.
// Longer contents (up to the tier's limit, 2^24 in the thorough tier) are
// supplied only for identifier octets with tag number 4 (all four classes,
// primitive and constructed): length handling in both codecs does not
// look at the identifier, and copying 8-16 MiB per case for all 256 identifiers
// would cost terabytes of memory traffic. Other identifiers keep such lengths
// truncated (a must-reject case that is still checked).
const hdrMid = 1 << 17

func largeContentID(id byte) bool {
	return id&0x1f == 4
}

const hdrSmall = 300 // the one-short / one-long variants are generated up to this contents length

// headerCase expands one header prefix into decoder inputs: the prefix
// completed with (position-dependent) contents of exactly the declared length and, when the
// header spans the whole prefix, also one octet short and one octet long. A
// prefix that is not a complete header is used as is (truncation); a declared
// length above the limit gets 4 content octets (truncated contents).
// headersOnly skips prefixes whose header ends before the prefix does (their
// header is a shorter prefix, enumerated on its own).
func (w *W) headerCase(p []byte, headersOnly bool) {
	k := len(p)
	complete, hdrLen, declared, indef := lenientHeader(p)
	if headersOnly && complete && hdrLen < k {
		return
	}
	buf := w.big
	copy(buf, p)
	switch {
	case !complete:
		w.run1(buf[:k])
	default:
		if indef {
			declared = 2 // end-of-contents octets, as a BER decoder would want
		}
		if declared > uint64(w.limit) || (declared > hdrMid && !largeContentID(p[0])) {
			w.run1(buf[:k+4])
			break
		}
		end := hdrLen + int(declared)
		w.run1(buf[:max(k, end)])
		if hdrLen == k && declared <= hdrSmall {
			if declared >= 1 {
				w.run1(buf[:end-1])
			}
			w.run1(buf[:end+1])
		}
	}
	for i := 0; i < k; i++ {
		buf[i] = fillAt(i)
	}
}

func headerShards() []shard {
	five := []byte{0x00, 0x01, 0x7f, 0x80, 0xff}
	var out []shard
	// every 1- and 2-octet prefix
	out = append(out, func(w *W) {
		p := w.caseBuf[:1]
		for a := 0; a < 256; a++ {
			p[0] = byte(a)
			w.headerCase(p, false)
		}
	})
	for a := 0; a < 256; a++ {
		a := a
		// every 2- and 3-octet prefix starting with a
		out = append(out, func(w *W) {
			p := w.caseBuf[:2]
			p[0] = byte(a)
			for b := 0; b < 256; b++ {
				p[1] = byte(b)
				w.headerCase(p, false)
			}
			p = w.caseBuf[:3]
			for x := 0; x < 65536; x++ {
				p[1], p[2] = byte(x>>8), byte(x)
				w.headerCase(p, false)
			}
		})
		// 4-, 5-, 6-octet headers: two octets exhaustive, the rest over `five`; only
		// prefixes whose identifier and length octets span (or overrun) all k octets
		for k := 4; k <= 6; k++ {
			k := k
			out = append(out, func(w *W) {
				p := w.caseBuf[:k]
				p[0] = byte(a)
				for b := 0; b < 256; b++ {
					p[1] = byte(b)
					forAllOver(five, k-2, p[2:], func() { w.headerCase(p, true) })
				}
			})
		}
	}
	// high-tag-number family: 8 leading octets x 1..6 subsequent octets over a
	// boundary alphabet x {length 0, length 1}
	alpha := []byte{0x00, 0x1e, 0x1f, 0x7f, 0x80, 0x87, 0x88, 0xff}
	for _, id := range []byte{0x1f, 0x3f, 0x5f, 0x7f, 0x9f, 0xbf, 0xdf, 0xff} {
		id := id
		for k := 1; k <= 6; k++ {
			k := k
			out = append(out, func(w *W) {
				for _, l := range []byte{0x00, 0x01} {
					p := w.caseBuf[:1+k+1]
					p[0] = id
					p[1+k] = l
					forAllOver(alpha, k, p[1:1+k], func() { w.headerCase(p, true) })
				}
			})
		}
	}
	// long length-of-length family: 2..9, 126 length octets holding a small
	// value (all but the minimal form are non-minimal), and 0xff.
	out = append(out, func(w *W) {
		for _, k := range []int{1, 2, 3, 4, 5, 6, 7, 8, 9, 126, 127} {
			for _, val := range []uint64{0, 1, 127, 128, 255, 256, 65535, 65536, 1<<24 - 1, 1 << 24, 1<<32 - 1} {
				if k < 8 && val >= 1<<(8*uint(k)) {
					continue
				}
				p := w.caseBuf[:2+k]
				for i := range p {
					p[i] = 0
				}
				p[0] = 0x04
				p[1] = 0x80 | byte(k)
				for i := 0; i < 8 && i < k; i++ {
					p[2+k-1-i] = byte(val >> (8 * uint(i)))
				}
				w.headerCase(p, false)
			}
		}
	})
	return out
}

// ======================================================== GeneralizedTime

var famTime = &family{
	name:      "GeneralizedTime",
	targets:   []string{"cryptobyte.ReadASN1GeneralizedTime"},
	reasons:   gtReasons,
	tolerated: gtTolerated,
	infos:     []string{"-"},
	eval:      evalTime,
}

func evalTime(w *W, str []byte) {
	n := len(str)
	in := w.tlv[:2+n]
	in[1] = byte(n)
	copy(in[2:], str)
	r := &w.d.rTime
	refGTime(str, r)
	v := verdict{r.reason, len(in)}
	w.pf = true
	w.timeTargets(in, v, 0)
	if w.anyAccept {
		w.timeTargets(withTrailer(in), v, 0)
		vv := verdict{gtX.wrongID, len(in)}
		pf := w.pf
		for i, m := range idMasks {
			w.pf = pf && i == 0 // destination pre-fill under the first of the other identifier octets only
			w.timeTargets(in, vv, m)
		}
		w.pf = pf
	}
}

func (w *W) timeTargets(in []byte, v verdict, mask byte) {
	d := &w.d
	r := &d.rTime
	in[0] = 0x18 ^ mask
	w.cbDec(0, in, v, v.reason == 0, 0, slotTime,
		func(s *cryptobyte.String, d *dests) bool { return s.ReadASN1GeneralizedTime(&d.tm) },
		func(b *cryptobyte.Builder) { b.AddASN1GeneralizedTime(d.tm) },
		func() bool {
			t := d.tm
			_, off := t.Zone()
			return t.Year() == r.y && int(t.Month()) == r.mo && t.Day() == r.d && t.Hour() == r.h && t.Minute() == r.mi &&
				t.Second() == r.s && off == r.off && (t.Nanosecond() == 0) == !r.hasFraction
		},
		func() string { return d.tm.Format(time.RFC3339Nano) })
}

func timeShards() []shard {
	years := []string{"0000", "0001", "1900", "1999", "2000", "2004", "9999"}
	months := []string{"00", "01", "02", "04", "12", "13"}
	days := []string{"00", "01", "28", "29", "30", "31", "32"}
	hours := []string{"00", "23", "24"}
	mins := []string{"00", "59", "60"}
	secs := []string{"00", "59", "60", ""}
	fracs := []string{"", ".0", ".5", ",5"}
	zones := []string{"Z", "+0000", "-0000", "+0100", "-0130", "+2400", "", "z"}
	var out []shard
	for _, y := range years {
		y := y
		out = append(out, func(w *W) {
			for _, mo := range months {
				for _, dd := range days {
					for _, hh := range hours {
						for _, mi := range mins {
							for _, ss := range secs {
								for _, fr := range fracs {
									for _, z := range zones {
										p := append(w.caseBuf[:0], y...)
										p = append(p, mo...)
										p = append(p, dd...)
										p = append(p, hh...)
										p = append(p, mi...)
										p = append(p, ss...)
										p = append(p, fr...)
										p = append(p, z...)
										w.run1(p)
									}
								}
							}
						}
					}
				}
			}
		})
	}
	// every single-octet substitution, every truncation and every one-octet
	// extension of a valid leap-day baseline
	base := "20000229235959Z"
	out = append(out, func(w *W) {
		for i := 0; i < len(base); i++ {
			for x := 0; x < 256; x++ {
				p := append(w.caseBuf[:0], base...)
				p[i] = byte(x)
				w.run1(p)
			}
		}
		for l := 0; l <= len(base); l++ {
			w.run1(append(w.caseBuf[:0], base[:l]...))
		}
		for i := 0; i <= len(base); i++ {
			for x := 0; x < 256; x++ {
				p := append(w.caseBuf[:0], base[:i]...)
				p = append(p, byte(x))
				p = append(p, base[i:]...)
				w.run1(p)
			}
		}
	})
	return out
}
