package main

// Independent DER canonicity predicates, transcribed from ITU-T X.690 (BER
// clause 8, DER clauses 10/11). Nothing here is derived from zcrypto's code.
// Every predicate returns a reason index: 0 means "this is the one canonical
// DER encoding", any other index names the first rule that is broken.

import "math/big"

// Reasons shared by every primitive family, appended after the family's own
// reasons: the identifier octet is not the expected one, or the length octets
// in front of the contents are not the DER form (X.690 10.1).
type extReasons struct {
	wrongID, lenLeadZero, lenShort, contentShort, indef int
}

func mkExt(base []string) ([]string, extReasons) {
	n := len(base)
	out := append(append([]string{}, base...),
		"identifier octet is not the expected primitive one (constructed bit set or another class)",
		"long-form length with a leading zero octet (non-minimal length)",
		"long-form length used for a length below 128 (non-minimal length)",
		"declared contents longer than the input (truncated contents)",
		"indefinite length")
	return out, extReasons{n, n + 1, n + 2, n + 3, n + 4}
}

// mapHdr translates a header verdict of refHeader into the family's reasons.
func (x extReasons) mapHdr(hdrReason int) int {
	switch hdrReason {
	case hdrCanonical:
		return 0
	case hdrLenLeadZero:
		return x.lenLeadZero
	case hdrLenShort:
		return x.lenShort
	case hdrIndefinite:
		return x.indef
	}
	return x.contentShort
}

// ---------------------------------------------------------------- INTEGER

// X.690 8.3.1: the contents octets shall consist of one or more octets.
// X.690 8.3.2: if there is more than one octet, the bits of the first octet
// and bit 8 of the second octet shall not all be ones and shall not all be zero.
// X.690 8.3.3: two's complement binary number.
const (
	intCanonical = iota
	intEmpty
	intLeadZero
	intLeadFF
)

var intReasons, intX = mkExt([]string{
	"canonical",
	"empty contents",
	"non-minimal: 0x00 octet before an octet with bit 8 clear",
	"non-minimal: 0xff octet before an octet with bit 8 set",
})

type refInt struct {
	reason int
	small  bool     // value held in v (contents of at most 8 octets)
	v      int64    // valid when small
	big    *big.Int // valid when !small
}

func refInteger(content []byte, r *refInt) {
	*r = refInt{}
	n := len(content)
	switch {
	case n == 0:
		r.reason = intEmpty
		return
	case n >= 2 && content[0] == 0x00 && content[1] < 0x80:
		r.reason = intLeadZero
	case n >= 2 && content[0] == 0xff && content[1] >= 0x80:
		r.reason = intLeadFF
	}
	if n <= 8 {
		r.small = true
		var u uint64
		if content[0] >= 0x80 {
			u = ^uint64(0) // sign fill
		}
		for _, b := range content {
			u = u<<8 | uint64(b)
		}
		r.v = int64(u)
		return
	}
	x := new(big.Int).SetBytes(content)
	if content[0] >= 0x80 {
		x.Sub(x, new(big.Int).Lsh(big.NewInt(1), uint(8*n)))
	}
	r.big = x
}

func (r *refInt) fitsSigned(bits uint) bool {
	if r.small {
		if bits >= 64 {
			return true
		}
		lim := int64(1) << (bits - 1)
		return r.v >= -lim && r.v < lim
	}
	return r.big.BitLen() < int(bits) || (r.big.Sign() < 0 && new(big.Int).Add(r.big, new(big.Int).Lsh(big.NewInt(1), bits-1)).Sign() == 0)
}

// fitsUnsigned: the value is in [0, 2^bits), bits < 64.
func (r *refInt) fitsUnsigned(bits uint) bool {
	return r.small && r.v >= 0 && r.v < int64(1)<<bits
}

func (r *refInt) fitsUint64() bool {
	if r.small {
		return r.v >= 0
	}
	return r.big.Sign() >= 0 && r.big.BitLen() <= 64
}

func (r *refInt) eqInt64(x int64) bool {
	if r.small {
		return r.v == x
	}
	if r.big == nil { // empty contents: no value
		return false
	}
	return r.big.IsInt64() && r.big.Int64() == x
}

func (r *refInt) eqUint64(x uint64) bool {
	if r.small {
		return r.v >= 0 && uint64(r.v) == x
	}
	if r.big == nil {
		return false
	}
	return r.big.IsUint64() && r.big.Uint64() == x
}

func (r *refInt) eqBig(x *big.Int) bool {
	if x == nil {
		return false
	}
	if r.small {
		return x.IsInt64() && x.Int64() == r.v
	}
	if r.big == nil {
		return false
	}
	return r.big.Cmp(x) == 0
}

// ---------------------------------------------------------------- BOOLEAN

// X.690 8.2.1: a single contents octet. 11.1: TRUE is encoded as 0xff.
const (
	boolCanonical = iota
	boolLength
	boolValue
)

var boolReasons, boolX = mkExt([]string{
	"canonical",
	"contents are not exactly one octet",
	"contents octet is neither 0x00 nor 0xff",
})

func refBoolean(content []byte) (reason int, val bool) {
	if len(content) != 1 {
		return boolLength, false
	}
	switch content[0] {
	case 0x00:
		return boolCanonical, false
	case 0xff:
		return boolCanonical, true
	}
	return boolValue, false
}

// ------------------------------------------------------- OBJECT IDENTIFIER

// X.690 8.19.2: each subidentifier is a series of octets, bit 8 of the last is
// zero, bit 8 of each preceding octet is one; "the subidentifier shall be
// encoded in the fewest possible octets, that is, the leading octet of the
// subidentifier shall not have the value 0x80". 8.19.4: the first
// subidentifier is X*40+Y with X in 0..2 and Y < 40 when X < 2.
const (
	oidCanonical = iota
	oidEmpty
	oidTruncated
	oidLead80
)

var oidReasons, oidX = mkExt([]string{
	"canonical",
	"empty contents",
	"last octet has the continuation bit set (truncated sub-identifier)",
	"sub-identifier with a leading 0x80 octet (non-minimal)",
})

const maxArcs = 272 // bodies of up to 257 octets hold at most 258 arcs

type refOIDRes struct {
	reason int
	n      int             // number of arcs
	arcs   [maxArcs]uint64 // arc values (valid when reason==0 and !huge)
	maxSub uint64          // largest raw sub-identifier value
	huge   bool            // a sub-identifier exceeds 63 bits or more than maxArcs-1 arcs
}

func refOID(body []byte, r *refOIDRes) {
	r.reason, r.n, r.maxSub, r.huge = oidCanonical, 0, 0, false
	if len(body) == 0 {
		r.reason = oidEmpty
		return
	}
	if body[len(body)-1]&0x80 != 0 {
		r.reason = oidTruncated
		return
	}
	start := true
	var cur uint64
	octets := 0
	first := true
	for _, b := range body {
		if start && b == 0x80 {
			r.reason = oidLead80
			return
		}
		start = false
		octets++
		if octets > 9 {
			r.huge = true
		}
		cur = cur<<7 | uint64(b&0x7f)
		if b&0x80 == 0 {
			if cur > r.maxSub {
				r.maxSub = cur
			}
			if r.n >= len(r.arcs)-1 {
				r.huge = true
			} else if first {
				switch {
				case cur < 40:
					r.arcs[0], r.arcs[1] = 0, cur
				case cur < 80:
					r.arcs[0], r.arcs[1] = 1, cur-40
				default:
					r.arcs[0], r.arcs[1] = 2, cur-80
				}
				r.n = 2
			} else {
				r.arcs[r.n] = cur
				r.n++
			}
			first = false
			cur, octets, start = 0, 0, true
		}
	}
}

// -------------------------------------------------------------- BIT STRING

// X.690 8.6.2.2: the initial octet is the number of unused bits, 0..7.
// 8.6.2.3: an empty bit string has no subsequent octets and initial octet 0.
// 11.2.1 (DER): each unused bit in the final octet shall be set to zero.
const (
	bitCanonical = iota
	bitEmpty
	bitPadRange
	bitPadNoContent
	bitPadBits
)

var bitReasons, bitX = mkExt([]string{
	"canonical",
	"empty contents (no initial octet)",
	"initial octet (unused-bit count) above 7",
	"unused-bit count non-zero with no content octets",
	"non-zero padding bits",
})

// OCTET STRING: X.690 8.7 primitive form, any contents; only the header can be wrong.
var octReasons, octX = mkExt([]string{"canonical"})

func refBitString(body []byte) (reason int, bitLen int) {
	if len(body) == 0 {
		return bitEmpty, 0
	}
	pad := int(body[0])
	if pad > 7 {
		return bitPadRange, 0
	}
	if len(body) == 1 {
		if pad != 0 {
			return bitPadNoContent, 0
		}
		return bitCanonical, 0
	}
	last := body[len(body)-1]
	for i := 0; i < pad; i++ {
		if last&(1<<uint(i)) != 0 {
			return bitPadBits, 0
		}
	}
	return bitCanonical, (len(body)-1)*8 - pad
}

// ------------------------------------------------- identifier and length

// X.690 8.1.2.2: tag numbers 0..30 use a single identifier octet.
// 8.1.2.4: tag numbers >= 31 use the high-tag-number form; 8.1.2.4.2 c): bits
// 7..1 of the first subsequent octet shall not all be zero.
// 8.1.3.4/8.1.3.5: short and long definite form; 8.1.3.5 c): 0xff is reserved.
// 10.1 (DER): definite form, encoded in the minimum number of octets.
const (
	hdrCanonical = iota
	hdrTruncated
	hdrTagLead80
	hdrTagLow
	hdrIndefinite
	hdrLenLeadZero
	hdrLenShort
	hdrLenReserved
	hdrContentShort
	hdrHuge
)

var hdrReasons = []string{
	"canonical",
	"truncated identifier or length octets",
	"high-tag-number form whose first subsequent octet is 0x80 (non-minimal tag)",
	"high-tag-number form used for a tag number below 31 (non-minimal tag)",
	"indefinite length",
	"long-form length with a leading zero octet (non-minimal length)",
	"long-form length used for a length below 128 (non-minimal length)",
	"reserved length octet 0xff",
	"declared contents longer than the input (truncated contents)",
	"tag number or length of more than 63 bits",
}

type refHdr struct {
	reason      int
	class       int
	constructed bool
	tag         uint64
	tagOctets   int // identifier octets
	hdrLen      int
	n           int // contents length
}

func refHeader(in []byte, h *refHdr) {
	*h = refHdr{}
	if len(in) == 0 {
		h.reason = hdrTruncated
		return
	}
	id := in[0]
	h.class = int(id >> 6)
	h.constructed = id&0x20 != 0
	h.tag = uint64(id & 0x1f)
	p := 1
	if id&0x1f == 0x1f {
		if p < len(in) && in[p] == 0x80 {
			h.reason = hdrTagLead80
			return
		}
		var t uint64
		k := 0
		for {
			if p >= len(in) {
				h.reason = hdrTruncated
				return
			}
			b := in[p]
			p++
			k++
			if k > 9 {
				h.reason = hdrHuge
				return
			}
			t = t<<7 | uint64(b&0x7f)
			if b&0x80 == 0 {
				break
			}
		}
		if t < 31 {
			h.reason = hdrTagLow
			return
		}
		h.tag = t
	}
	h.tagOctets = p
	if p >= len(in) {
		h.reason = hdrTruncated
		return
	}
	l := in[p]
	p++
	var n uint64
	switch {
	case l < 0x80:
		n = uint64(l)
	case l == 0x80:
		h.reason = hdrIndefinite
		return
	case l == 0xff:
		h.reason = hdrLenReserved
		return
	default:
		k := int(l & 0x7f)
		if p < len(in) && in[p] == 0x00 {
			h.reason = hdrLenLeadZero
			return
		}
		if p+k > len(in) {
			h.reason = hdrTruncated
			return
		}
		if k > 7 {
			// first octet is non-zero: the length is at least 2^56, no input holds it
			h.reason = hdrContentShort
			return
		}
		for i := 0; i < k; i++ {
			n = n<<8 | uint64(in[p+i])
		}
		p += k
		if n < 128 {
			h.reason = hdrLenShort
			return
		}
	}
	h.hdrLen = p
	if n > uint64(len(in)-p) {
		h.reason = hdrContentShort
		return
	}
	h.n = int(n)
}

// -------------------------------------------------------- GeneralizedTime

// X.680 46 (GeneralizedTime = calendar date, time of day, optional fraction,
// and either nothing (local), Z, or a time differential) and X.690 11.7 (DER):
// 11.7.1 the encoding shall terminate with "Z"; 11.7.2 the seconds element
// shall always be present; 11.7.3 fractional seconds, if present, omit trailing
// zeros and the point is omitted when the fraction is zero; 11.7.4 the decimal
// point is ".".
const (
	gtCanonical = iota
	gtMalformed
	gtFieldRange
	gtFractionForm
	gtZeroOffset
	gtSecond60
	gtOffsetRange
	gtOffset
	gtFraction
)

var gtReasons, gtX = mkExt([]string{
	"canonical",
	"not of the form YYYYMMDDHHMMSS[.f](Z|+hhmm|-hhmm): missing seconds or zone, lower-case z, stray octets",
	"calendar or clock field out of range",
	"fraction not in DER form (comma, or trailing zero)",
	"UTC written as +0000/-0000 instead of Z",
	"seconds field 60",
	"time differential with hh > 23 or mm > 59",
	"non-UTC time differential (not DER; round trip can still hold)",
	"fractional seconds in DER form (the library encoder cannot produce them)",
})

// reasons on which the property statement is silent: a decoder may reject them
// or accept them, but if it accepts, the round trip must still hold.
var gtTolerated = []bool{false, false, false, false, false, true, true, true, true, false, false, false, false, false}

type refTime struct {
	reason              int
	y, mo, d, h, mi, s  int
	off                 int // seconds east of UTC
	hasFraction, isZulu bool
}

func isDigit(b byte) bool { return b >= '0' && b <= '9' }

func num(s []byte) int {
	n := 0
	for _, b := range s {
		n = n*10 + int(b-'0')
	}
	return n
}

func daysIn(y, m int) int {
	switch m {
	case 4, 6, 9, 11:
		return 30
	case 2:
		if y%4 == 0 && (y%100 != 0 || y%400 == 0) {
			return 29
		}
		return 28
	}
	return 31
}

func refGTime(s []byte, r *refTime) {
	*r = refTime{}
	if len(s) < 15 {
		r.reason = gtMalformed
		return
	}
	for i := 0; i < 14; i++ {
		if !isDigit(s[i]) {
			r.reason = gtMalformed
			return
		}
	}
	r.y, r.mo, r.d = num(s[0:4]), num(s[4:6]), num(s[6:8])
	r.h, r.mi, r.s = num(s[8:10]), num(s[10:12]), num(s[12:14])
	p := 14
	fracBad := false
	if s[p] == '.' || s[p] == ',' {
		comma := s[p] == ','
		p++
		start := p
		for p < len(s) && isDigit(s[p]) {
			p++
		}
		if p == start {
			r.reason = gtMalformed
			return
		}
		r.hasFraction = true
		if comma || s[p-1] == '0' {
			fracBad = true
		}
	}
	offHH, offMM, sign := 0, 0, 0
	switch {
	case p == len(s)-1 && s[p] == 'Z':
		r.isZulu = true
	case p == len(s)-5 && (s[p] == '+' || s[p] == '-') && isDigit(s[p+1]) && isDigit(s[p+2]) && isDigit(s[p+3]) && isDigit(s[p+4]):
		sign = 1
		if s[p] == '-' {
			sign = -1
		}
		offHH, offMM = num(s[p+1:p+3]), num(s[p+3:p+5])
		r.off = sign * (offHH*3600 + offMM*60)
	default:
		r.reason = gtMalformed
		return
	}
	if r.mo < 1 || r.mo > 12 || r.d < 1 || r.d > daysIn(r.y, r.mo) || r.h > 23 || r.mi > 59 || r.s > 60 {
		r.reason = gtFieldRange
		return
	}
	switch {
	case fracBad:
		r.reason = gtFractionForm
	case sign != 0 && offHH == 0 && offMM == 0:
		r.reason = gtZeroOffset
	case r.s == 60:
		r.reason = gtSecond60
	case sign != 0 && (offHH > 23 || offMM > 59):
		r.reason = gtOffsetRange
	case sign != 0:
		r.reason = gtOffset
	case r.hasFraction:
		r.reason = gtFraction
	}
}
