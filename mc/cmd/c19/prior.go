package main

// Destination independence and input immutability.
//
// "Re-encoding the decoded value reproduces the consumed bytes" speaks about
// THE decoded value of an input: what a decoder returns may depend on the
// bytes it reads only, never on what the caller's destination variable held
// before the call (a destination is reused across the elements of a SET OF, a
// loop, a pooled struct), and decoding may change nothing but that destination
// (and, for cryptobyte, the String's position).
//
// Every decode of the INTEGER, BOOLEAN, OBJECT IDENTIFIER, BIT STRING,
// OCTET STRING and GeneralizedTime families (short and long contents, the
// trailing-octet and the other-identifier variants included; steps 2 and 3 under
// the first of the 7 other identifier octets only) is therefore followed by
// (W.afterRead):
//
//  1. input immutability: the input bytes are compared with a copy taken before
//     the call — after the baseline decode and after every decode below;
//  2. destination pre-fill: the same input is decoded again into a SECOND
//     destination object of the same kind that holds each of the slot's prior
//     contents (all-ones / -1 / true, a large previous value of more octets than
//     the new one; for slices, big.Int and OIDs a longer non-empty previous value
//     in a backing array the harness retains, with spare capacity, and a short
//     full one). The accept/reject decision, the number of octets consumed and,
//     on accept, the decoded value must equal those of the decode into the zero
//     destination. After a rejected decode neither codec documents the state of
//     the destination: nothing is demanded of it;
//  3. aliasing: the result of the baseline decode is still held in the first
//     destination. It must be unchanged after the second decode (no shared
//     scratch storage), and still unchanged after the harness has written through
//     the second result (slice elements, big.Int words). When writing through the
//     result changes the INPUT the result is a window of the input: cryptobyte
//     wraps the caller's []byte by design ("It wraps a []byte slice") and
//     encoding/asn1 documents nothing either way (BitString.Bytes is such a
//     window): counted, the input is restored, no verdict.
//
// Which cases of the large exhaustive families take part is decided by the
// family's evaluator (W.pf); the rule text in main.go states the slices.

import (
	"bytes"
	"fmt"
	"math"
	"math/big"
	"time"

	"github.com/zmap/zcrypto/cryptobyte"
	"github.com/zmap/zcrypto/encoding/asn1"
)

// slot describes one kind of destination: a field of dests.
type slot struct {
	name  string
	n     int                    // prior contents 1..n (0 = the zero value the baseline decode starts from)
	set   func(d *dests, k int)  // pre-fill the destination with prior contents k
	snap  func(d, s *dests)      // deep-copy the destination's value into the snapshot store s
	same  func(d, s *dests) bool // the destination's value equals the snapshot, field for field
	scrib func(d *dests) bool    // write through the value (nil: a scalar holds no storage); false = nothing reachable
	show  func(d *dests) string  // for witnesses
	prior func(k int) string     // for witnesses
}

type integer interface {
	~int | ~int8 | ~int16 | ~int32 | ~int64 | ~uint | ~uint8 | ~uint16 | ~uint32 | ~uint64
}

// intSlot: a fixed-width integer destination. Prior contents: all ones (-1 /
// the maximum), and a value that fills every octet of the type with the top bit
// clear (more octets than any shorter new value; sign differs from all ones).
func intSlot[T integer](name string, p func(d *dests) *T) *slot {
	allOnes := ^T(0)
	var large T
	for i, sz := 0, int(sizeOf[T]()); i < sz; i++ {
		for j := 0; j < 8; j++ {
			large += large // one octet up (a shift by 8 is not defined for every T)
		}
		large += T(0x5b - i) // 0x5b 0x5a 0x59 ...: pairwise different octets, top bit clear
	}
	priors := [2]T{allOnes, large}
	return &slot{name: name, n: 2,
		set: func(d *dests, k int) {
			if k == 0 {
				*p(d) = 0
			} else {
				*p(d) = priors[k-1]
			}
		},
		snap:  func(d, s *dests) { *p(s) = *p(d) },
		same:  func(d, s *dests) bool { return *p(d) == *p(s) },
		show:  func(d *dests) string { return fmt.Sprint(*p(d)) },
		prior: func(k int) string { return fmt.Sprint(priors[k-1]) },
	}
}

func sizeOf[T integer]() uintptr {
	var z T
	switch any(z).(type) {
	case int8, uint8:
		return 1
	case int16, uint16:
		return 2
	case int32, uint32:
		return 4
	}
	// int, uint, int64, uint64 and the named types over them used here (asn1.Enumerated is an int)
	return 8
}

var (
	slotI    = intSlot("int", func(d *dests) *int { return &d.i })
	slotI8   = intSlot("int8", func(d *dests) *int8 { return &d.i8 })
	slotI16  = intSlot("int16", func(d *dests) *int16 { return &d.i16 })
	slotI32  = intSlot("int32", func(d *dests) *int32 { return &d.i32 })
	slotI64  = intSlot("int64", func(d *dests) *int64 { return &d.i64 })
	slotU    = intSlot("uint", func(d *dests) *uint { return &d.u })
	slotU8   = intSlot("uint8", func(d *dests) *uint8 { return &d.u8 })
	slotU16  = intSlot("uint16", func(d *dests) *uint16 { return &d.u16 })
	slotU32  = intSlot("uint32", func(d *dests) *uint32 { return &d.u32 })
	slotU64  = intSlot("uint64", func(d *dests) *uint64 { return &d.u64 })
	slotEnum = intSlot("asn1.Enumerated", func(d *dests) *asn1.Enumerated { return &d.enum })
	slotCEnm = intSlot("int (ReadASN1Enum)", func(d *dests) *int { return &d.cenum })
)

// slotBool: the baseline decode starts from d.boolBase (the evaluator sets it to
// the complement of the expected value, so that a reader that does not write at
// all is seen by the value oracle); the one prior content is its complement.
var slotBool = &slot{name: "bool", n: 1,
	set: func(d *dests, k int) {
		d.b = d.boolBase
		if k == 1 {
			d.b = !d.boolBase
		}
	},
	snap:  func(d, s *dests) { s.b = d.b },
	same:  func(d, s *dests) bool { return d.b == s.b },
	show:  func(d *dests) string { return fmt.Sprint(d.b) },
	prior: func(k int) string { return "the complement of the baseline's prior content" },
}

// ---- big.Int

var bigPriors = func() [2]*big.Int {
	large, _ := new(big.Int).SetString("5b5a59585756555453525150"+"4f4e4d4c4b4a49484746454443424140"+"3f3e3d3c3b3a39383736353433323130", 16) // 44 octets, 6 words
	return [2]*big.Int{big.NewInt(-1), large}
}()

func scribBig(z *big.Int) bool {
	if z == nil {
		return false
	}
	w := z.Bits()
	w = w[:cap(w)] // the whole backing array the value owns
	for i := range w {
		w[i] = ^w[i]
	}
	z.SetInt64(-0x5a5a5a5a5a5a)
	return true
}

// slotBigV: a big.Int value handed to cryptobyte by address. The destination's
// word array survives from decode to decode: the prior contents live in storage
// the destination already owns.
var slotBigV = &slot{name: "big.Int", n: 2,
	set: func(d *dests, k int) {
		if k == 0 {
			d.bigv.SetInt64(0)
		} else {
			d.bigv.Set(bigPriors[k-1])
		}
	},
	snap:  func(d, s *dests) { s.bigv.Set(&d.bigv) },
	same:  func(d, s *dests) bool { return d.bigv.Cmp(&s.bigv) == 0 },
	scrib: func(d *dests) bool { return scribBig(&d.bigv) },
	show:  func(d *dests) string { return d.bigv.String() },
	prior: func(k int) string { return bigPriors[k-1].String() },
}

// slotBigP: the *big.Int variable handed to encoding/asn1 by address; prior
// contents are pointers to big.Int objects the harness keeps (d.prevBig).
var slotBigP = &slot{name: "*big.Int", n: 2,
	set: func(d *dests, k int) {
		if k == 0 {
			d.bigp = nil
			return
		}
		d.prevBig[k-1].Set(bigPriors[k-1])
		d.bigp = &d.prevBig[k-1]
	},
	snap: func(d, s *dests) {
		if d.bigp == nil {
			s.bigp = nil
			return
		}
		s.bigp = &s.prevBig[0]
		s.bigp.Set(d.bigp)
	},
	same: func(d, s *dests) bool {
		if d.bigp == nil || s.bigp == nil {
			return d.bigp == nil && s.bigp == nil
		}
		return d.bigp.Cmp(s.bigp) == 0
	},
	scrib: func(d *dests) bool { return scribBig(d.bigp) },
	show: func(d *dests) string {
		if d.bigp == nil {
			return "nil"
		}
		return d.bigp.String()
	},
	prior: func(k int) string { return "pointer to " + bigPriors[k-1].String() },
}

// ---- slices

// retained returns prior content `p` copied into the backing array *keep, which
// the harness allocates once per destination object with `spare` unused
// elements of capacity (an appending reader stays inside the retained array).
func retained[T any](keep *[]T, p []T, spare int) []T {
	if cap(*keep) == 0 {
		*keep = make([]T, 0, len(p)+spare)
	}
	*keep = append((*keep)[:0], p...)
	return *keep
}

func scribBytes(b []byte) bool {
	for i := range b {
		b[i] ^= 0xa5
	}
	return len(b) > 0
}

var priorBytes = func() [2][]byte {
	long := make([]byte, 48)
	for i := range long {
		long[i] = 0xc0 ^ byte(i*7)
	}
	return [2][]byte{long, {0xff}}
}()

var priorSpare = [2]int{24, 0}

func priorBytesStr(k int) string {
	return fmt.Sprintf("%d octets %s, capacity %d", len(priorBytes[k-1]), hexClip(priorBytes[k-1][:min(4, len(priorBytes[k-1]))]), len(priorBytes[k-1])+priorSpare[k-1])
}

// bytesSlot: a []byte-like destination (field f of dests, retained arrays keep(d)).
func bytesSlot(name string, f func(d *dests) *[]byte, keep func(d *dests) *[2][]byte) *slot {
	return &slot{name: name, n: 2,
		set: func(d *dests, k int) {
			if k == 0 {
				*f(d) = nil
				return
			}
			*f(d) = retained(&keep(d)[k-1], priorBytes[k-1], priorSpare[k-1])
		},
		snap:  func(d, s *dests) { *f(s) = append((*f(s))[:0], *f(d)...) },
		same:  func(d, s *dests) bool { return bytes.Equal(*f(d), *f(s)) },
		scrib: func(d *dests) bool { return scribBytes(*f(d)) },
		show:  func(d *dests) string { return hexClip(*f(d)) },
		prior: priorBytesStr,
	}
}

var (
	slotOct = bytesSlot("[]byte", func(d *dests) *[]byte { return &d.oct }, func(d *dests) *[2][]byte { return &d.prevOct })
	slotRaw = bytesSlot("[]byte", func(d *dests) *[]byte { return &d.rawb }, func(d *dests) *[2][]byte { return &d.prevRaw })
	slotStr = bytesSlot("cryptobyte.String", func(d *dests) *[]byte { return (*[]byte)(&d.str) }, func(d *dests) *[2][]byte { return &d.prevStr })
)

var priorOIDs = func() [2][]int {
	long := make([]int, 40)
	for i := range long {
		long[i] = 1000003 * (i + 1)
	}
	long[0], long[1] = 2, 999
	return [2][]int{long, {math.MaxInt}}
}()

var slotOID = &slot{name: "asn1.ObjectIdentifier", n: 2,
	set: func(d *dests, k int) {
		if k == 0 {
			d.oid = nil
			return
		}
		d.oid = retained(&d.prevOID[k-1], priorOIDs[k-1], priorSpare[k-1])
	},
	snap: func(d, s *dests) { s.oid = append(s.oid[:0], d.oid...) },
	same: func(d, s *dests) bool {
		if len(d.oid) != len(s.oid) {
			return false
		}
		for i, a := range d.oid {
			if a != s.oid[i] {
				return false
			}
		}
		return true
	},
	scrib: func(d *dests) bool {
		for i := range d.oid {
			d.oid[i] ^= 0x2a2a2a2a
		}
		return len(d.oid) > 0
	},
	show: func(d *dests) string { return d.oid.String() },
	prior: func(k int) string {
		return fmt.Sprintf("%d arcs, capacity %d", len(priorOIDs[k-1]), len(priorOIDs[k-1])+priorSpare[k-1])
	},
}

var priorBitLen = [2]int{317, -1}

var slotBS = &slot{name: "asn1.BitString", n: 2,
	set: func(d *dests, k int) {
		if k == 0 {
			d.bs = asn1.BitString{}
			return
		}
		d.bs = asn1.BitString{Bytes: retained(&d.prevBS[k-1], priorBytes[k-1], priorSpare[k-1]), BitLength: priorBitLen[k-1]}
	},
	snap:  func(d, s *dests) { s.bs.BitLength, s.bs.Bytes = d.bs.BitLength, append(s.bs.Bytes[:0], d.bs.Bytes...) },
	same:  func(d, s *dests) bool { return d.bs.BitLength == s.bs.BitLength && bytes.Equal(d.bs.Bytes, s.bs.Bytes) },
	scrib: func(d *dests) bool { return scribBytes(d.bs.Bytes) },
	show:  func(d *dests) string { return bsStr(d.bs) },
	prior: func(k int) string { return fmt.Sprintf("BitLength %d, Bytes %s", priorBitLen[k-1], priorBytesStr(k)) },
}

// ---- interface{} (encoding/asn1 ANY)

func cloneAny(x interface{}) interface{} {
	switch v := x.(type) {
	case []byte:
		return append([]byte{}, v...)
	case asn1.ObjectIdentifier:
		return append(asn1.ObjectIdentifier{}, v...)
	case asn1.BitString:
		return asn1.BitString{Bytes: append([]byte{}, v.Bytes...), BitLength: v.BitLength}
	case *big.Int:
		return new(big.Int).Set(v)
	}
	return x // nil, int64, bool, string, time.Time: immutable values
}

func anyEq(x, y interface{}) bool {
	switch a := x.(type) {
	case nil:
		return y == nil
	case int64:
		b, ok := y.(int64)
		return ok && a == b
	case []byte:
		b, ok := y.([]byte)
		return ok && bytes.Equal(a, b)
	case asn1.ObjectIdentifier:
		b, ok := y.(asn1.ObjectIdentifier)
		return ok && a.Equal(b)
	case asn1.BitString:
		b, ok := y.(asn1.BitString)
		return ok && a.BitLength == b.BitLength && bytes.Equal(a.Bytes, b.Bytes)
	case *big.Int:
		b, ok := y.(*big.Int)
		return ok && a.Cmp(b) == 0
	}
	return fmt.Sprintf("%T %v", x, x) == fmt.Sprintf("%T %v", y, y)
}

var slotAny = &slot{name: "interface{}", n: 2,
	set: func(d *dests, k int) {
		switch k {
		case 0:
			d.any = nil
		case 1:
			d.any = int64(-1)
		default:
			d.any = retained(&d.prevAny, priorBytes[0], priorSpare[0])
		}
	},
	snap: func(d, s *dests) { s.any = cloneAny(d.any) },
	same: func(d, s *dests) bool { return anyEq(d.any, s.any) },
	scrib: func(d *dests) bool {
		switch v := d.any.(type) {
		case []byte:
			return scribBytes(v)
		case asn1.BitString:
			return scribBytes(v.Bytes)
		case asn1.ObjectIdentifier:
			for i := range v {
				v[i] ^= 0x2a2a2a2a
			}
			return len(v) > 0
		case *big.Int:
			return scribBig(v)
		}
		return false
	},
	show: func(d *dests) string { return fmt.Sprintf("%T %v", d.any, d.any) },
	prior: func(k int) string {
		if k == 1 {
			return "int64(-1)"
		}
		return "[]byte of " + priorBytesStr(1)
	},
}

// ---- time.Time

var timePriors = [2]time.Time{
	time.Date(9999, 12, 31, 23, 59, 59, 999999999, time.FixedZone("prior", 5400)),
	time.Unix(-62135596801, 1).UTC(), // before year 1: wall and ext words both non-zero
}

var slotTime = &slot{name: "time.Time", n: 2,
	set: func(d *dests, k int) {
		if k == 0 {
			d.tm = time.Time{}
		} else {
			d.tm = timePriors[k-1]
		}
	},
	snap: func(d, s *dests) { s.tm = d.tm },
	same: func(d, s *dests) bool {
		na, oa := d.tm.Zone()
		nb, ob := s.tm.Zone()
		return d.tm.Equal(s.tm) && oa == ob && na == nb
	},
	show:  func(d *dests) string { return d.tm.Format(time.RFC3339Nano) },
	prior: func(k int) string { return timePriors[k-1].Format(time.RFC3339Nano) },
}

// ---------------------------------------------------------------- the pass

// keepInput copies the decoder input before the call.
func (w *W) keepInput(in []byte) { w.inSave = append(w.inSave[:0], in...) }

// inputIntact compares the input with the copy; a modified input is reported
// and restored (so that the following targets see the case they are meant to).
func (w *W) inputIntact(t int, in []byte, when string) bool {
	if bytes.Equal(in, w.inSave) {
		return true
	}
	got := clip(in, 48)
	copy(in, w.inSave)
	w.violate(t, vInput, "", func() string {
		return when + ": input is now " + hex48(got) + ", was " + hex48(w.inSave)
	})
	return false
}

func hex48(b []byte) string { return hexClip(b[:min(len(b), 48)]) }

// afterRead runs after the baseline decode of `in` by target t into the zero
// destination of slot sl in w.d (ok0 / rest0 = its decision and the number of
// octets it left). dec decodes `in` again into the given destination object.
func (w *W) afterRead(t int, in []byte, sl *slot, ok0 bool, rest0 int, dec func(d *dests) (ok bool, rest int)) {
	w.inputIntact(t, in, "after the decode")
	if !w.pf {
		return
	}
	a, b, s0 := &w.d, &w.e, &w.s0
	b.boolBase = a.boolBase
	if ok0 {
		sl.snap(a, s0)
	}
	for k := 1; k <= sl.n; k++ {
		sl.set(b, k)
		ok, rest := dec(b)
		w.ops++
		w.evals++
		w.pfReads++
		w.inputIntact(t, in, "after a decode into a pre-filled destination")
		if ok != ok0 {
			k := k
			w.violate(t, vPriorDecision, "", func() string {
				return fmt.Sprintf("accepted=%v into a zero %s, accepted=%v when the destination held %s", ok0, sl.name, ok, sl.prior(k))
			})
			continue
		}
		if !ok {
			w.pfRejects++ // the state of the destination after a failed read is documented by neither codec
			continue
		}
		if rest != rest0 || !sl.same(b, s0) {
			k := k
			w.violate(t, vPriorValue, "", func() string {
				return fmt.Sprintf("destination held %s: decoded %s leaving %d octets; into a zero %s: %s leaving %d octets", sl.prior(k), sl.show(b), rest, sl.name, sl.show(s0), rest0)
			})
			continue
		}
		if !sl.same(a, s0) {
			w.violate(t, vClobber, "", func() string {
				return fmt.Sprintf("first result was %s, is %s after the same input was decoded into a second %s", sl.show(s0), sl.show(a), sl.name)
			})
			sl.snap(a, s0)
		}
		w.pfAccepts++
		if sl.scrib == nil || !sl.scrib(b) {
			continue
		}
		w.pfWrites++
		if !bytes.Equal(in, w.inSave) {
			// the result is a window of the input: by design in cryptobyte, undocumented in encoding/asn1
			copy(in, w.inSave)
			w.pfWindows++
		}
		if !sl.same(a, s0) {
			w.violate(t, vShare, "", func() string {
				return fmt.Sprintf("first result was %s, is %s after the harness wrote through the second result", sl.show(s0), sl.show(a))
			})
			sl.snap(a, s0)
		}
	}
}

var _ = cryptobyte.String(nil)
