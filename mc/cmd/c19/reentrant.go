package main

// Re-entrancy pass (internal/nohb): the strict decoders and the re-encoders of both codecs run on every goroutine of
// a parser; "reject, or re-encoding reproduces the consumed bytes" must not depend on another goroutine decoding at
// the same time (decoder scratch state outside the call would make an accepted value — and so its re-encoding —
// that of the other goroutine). Every ordered pair of the menu below is run as "first call to completion, then the
// second on another goroutine" WITHOUT a happens-before edge in a -race build: ThreadSanitizer reports every
// location both calls touch unsynchronised, for all interleavings at once.
//
// Menu: for every family of the main phase 1–3 cases (canonical, non-canonical, boundary), each evaluated by the
// family's own evaluator with a private worker state — i.e. one call = ALL targets of the family on that case:
// encoding/asn1.Unmarshal into every destination type, every cryptobyte reader, and for accepted values the
// re-encoders (asn1.Marshal, Builder.AddASN1*), the trailing-octet and the other-identifier variants.

import (
	"encoding/hex"
	"os"
	"time"

	"github.com/zmap/zcrypto/cryptobyte"
	"github.com/zmap/zcrypto/encoding/asn1"
	"verifmc/internal/ev"
	"verifmc/internal/nohb"
)

func reentrantRepoDir() string {
	if v := os.Getenv("VERIF_REPO_DIR"); v != "" {
		return v
	}
	return "/repo"
}

func reentrantOps() []nohb.Op {
	asn1.AllowPermissiveParsing = false
	hdr := func(head ...byte) []byte { // header followed by 160 position-dependent octets
		in := append([]byte{}, head...)
		for len(in) < len(head)+160 {
			in = append(in, fillAt(len(in)))
		}
		return in
	}
	long := func(L int, lf, short, a, b, z, fill byte) []byte {
		return []byte{byte(L >> 16), byte(L >> 8), byte(L), lf, short, a, b, z, fill}
	}
	menu := []struct {
		f     *family
		cases [][]byte
	}{
		{famInt, [][]byte{{0x7f}, {0x00, 0x80}, {0xff, 0x80}, {0x01, 0x00, 0x00, 0x00, 0x00, 0x00, 0x00, 0x00, 0x00}}},
		{famBool, [][]byte{{0xff}, {0x01}}},
		{famOID, [][]byte{{0x2a, 0x86, 0x48}, {0x55, 0x80, 0x01}}},
		{famBit, [][]byte{{0x03, 0xa8}, {0x00, 0xff, 0x01}}},
		{famHdr, [][]byte{hdr(0x04, 0x03), hdr(0x30, 0x81, 0x80), hdr(0x1f, 0x81, 0x00, 0x01)}},
		{famTime, [][]byte{[]byte("20000229235959Z"), []byte("20000229235959+0100"), []byte("20000230235959Z")}},
		{famIntLong, [][]byte{long(128, 0, 0, 0x01, 0x02, 0x03, 0), long(128, 1, 0, 0x00, 0x80, 0x5a, 1)}},
		{famBitLong, [][]byte{long(129, 0, 0, 0x00, 0x01, 0xff, 0)}},
		{famOIDLong, [][]byte{long(127, 0, 0, 0x2a, 0x01, 0x01, 0)}},
		{famOct, [][]byte{long(256, 0, 0, 0x01, 0x02, 0x03, 0), long(255, 4, 0, 0x01, 0x02, 0x03, 0)}},
	}
	var ops []nohb.Op
	for _, m := range menu {
		f := m.f
		for _, cs := range m.cases {
			cs := cs
			show := cs
			if len(show) > 12 {
				show = show[:12]
			}
			ops = append(ops, nohb.Op{Name: f.name + " case " + hex.EncodeToString(show) + " x all targets", New: func() func() {
				w := &W{f: f, hist: make([]int64, len(f.targets)*nKinds*maxIdx), viol: map[vkey]*vrec{}, out: make([]byte, 0, 512), bld: new(cryptobyte.Builder), allVariants: true}
				w.d.withAny = true
				if f == famHdr {
					hdrSetup(1 << 10)(w)
				}
				in := append([]byte{}, cs...)
				return func() { w.run1(in) }
			}})
		}
	}
	return ops
}

const reentrantMenuText = "1-4 cases per family (INTEGER, BOOLEAN, OID, BIT STRING, TAG/LENGTH, GeneralizedTime, long INTEGER/BIT STRING/OID/OCTET STRING), one call = the family's evaluator on a private worker state = all encoding/asn1 and cryptobyte targets, re-encoders and variants; the worker is cold (no library call before the first pair)"

func reentrantPhase(c *ev.Ctx) {
	if c.Replay != nil {
		return // --replay re-executes one recorded witness of the main phase only
	}
	t0 := time.Now()
	o := nohb.Run(os.Getenv("VERIF_RACE_BIN"), nil, 10*time.Minute)
	if o.Broken != "" {
		c.Broken("re-entrancy pass: %s", o.Broken)
	}
	for _, sig := range o.Sigs() {
		c.Violation("re-entrancy: two calls on different goroutines share unsynchronised state: "+sig, map[string]any{"pair": o.Races[sig], "kind": "nohb"})
	}
	for k, v := range o.Panics {
		c.Violation("re-entrancy: "+k, map[string]any{"pair": v, "kind": "nohb"})
	}
	c.Outcome("re-entrancy pairs without a report", int64(o.Pairs))
	c.States.Add(int64(o.Pairs))
	c.Traces.Add(int64(o.Pairs))
	c.Set("reentrancy", map[string]any{"calls": o.Ops, "ordered_pairs": o.Pairs, "race_signatures": len(o.Races), "harness_only_reports": o.Harness, "canary_ok": o.CanaryOK,
		"seconds": time.Since(t0).Seconds(), "menu": reentrantMenuText,
		"method": "every ordered pair (a, b) of the menu: a to completion on one goroutine, then b on another, without a happens-before edge, in a -race build; a ThreadSanitizer report with both accesses in the repository is a violation"})
}
