// C27 — TLS peers authenticate each other as configured.
//
// Engine E4 (tlsx): a real zcrypto tls.Client against a real tls.Server over the
// deterministic in-memory duplex, for the full product
//
//	version x key-exchange class x server-certificate scenario x InsecureSkipVerify
//	x client-auth mode x client-certificate scenario
//
// and a truth-table oracle written from the property statement only (oracle.go).
// pki.go builds the certificates, wire.go holds the harness' own record /
// handshake-message parser and the man-in-the-middle used for plaintext flights.
package main

import (
	"crypto/sha256"
	"encoding/binary"
	"encoding/hex"
	"encoding/json"
	"errors"
	"fmt"
	"io"
	"os"
	"sort"
	"strings"
	"sync"
	"sync/atomic"

	"github.com/zmap/zcrypto/tls"
	"verifmc/internal/ev"
	"verifmc/internal/tlsx"
)

// ---- axes ------------------------------------------------------------------

type kexClass int

const (
	kexRSA kexClass = iota
	kexECDHERSA
	kexECDHEECDSA
	kexDHERSA
	kexTLS13RSA   // TLS 1.3 (EC)DHE key share, RSA-PSS CertificateVerify
	kexTLS13ECDSA // TLS 1.3 (EC)DHE key share, ECDSA CertificateVerify
	nKex
)

var kexNames = [...]string{"RSA", "ECDHE-RSA", "ECDHE-ECDSA", "DHE-RSA", "TLS13-RSAPSS", "TLS13-ECDSA"}

func (k kexClass) rsaLeaf() bool { return k != kexECDHEECDSA && k != kexTLS13ECDSA }
func (k kexClass) tls13() bool   { return k == kexTLS13RSA || k == kexTLS13ECDSA }

// signed reports whether the server signs something with the leaf key in this class.
func (k kexClass) signed() bool { return k != kexRSA }

var versions = []uint16{tls.VersionTLS10, tls.VersionTLS11, tls.VersionTLS12, tls.VersionTLS13}

func versName(v uint16) string {
	switch v {
	case tls.VersionTLS10:
		return "1.0"
	case tls.VersionTLS11:
		return "1.1"
	case tls.VersionTLS12:
		return "1.2"
	case tls.VersionTLS13:
		return "1.3"
	}
	return fmt.Sprintf("%04x", v)
}

type sScen int

const (
	sTrusted sScen = iota
	sUntrustedRoot
	sExpired
	sNotYetValid
	sWrongName
	sWrongKey
	sSigCorrupt
	sNoIntermediate
	sKeySubst
	sWrongEKU      // leaf carries only the clientAuth extended key usage
	sExpiredInterm // leaf valid, the intermediate that issued it expired before Config.Time
	sIPMatch       // ServerName is an IP address, the leaf has exactly that iPAddress SAN
	sIPMismatch    // ServerName is an IP address, the leaf has another iPAddress SAN (and the address as CN / dNSName text)
	sExpiredRoot   // leaf and intermediate valid, the configured root they lead to expired before Config.Time
	nSScen
)

var sScenNames = [...]string{"trusted", "untrusted-root", "expired", "not-yet-valid", "wrong-name", "wrong-key", "sig-corrupt", "intermediate-missing", "key-substitution",
	"wrong-eku", "expired-intermediate", "ip-san-match", "ip-san-mismatch", "expired-root"}

type cScen int

const (
	cNone cScen = iota
	cTrusted
	cUntrusted
	cExpired
	cWrongKey
	cCVCorrupt
	cWrongEKU     // leaf carries only the serverAuth extended key usage
	cExpiredRoot  // leaf and intermediate valid, the ClientCAs root they lead to expired before Config.Time
	nCScen
)

var cScenNames = [...]string{"none", "trusted", "untrusted", "expired", "wrong-key", "cv-corrupt", "wrong-eku", "expired-root"}

var authModes = []tls.ClientAuthType{tls.NoClientCert, tls.RequestClientCert, tls.RequireAnyClientCert, tls.VerifyClientCertIfGiven, tls.RequireAndVerifyClientCert}
var authNames = [...]string{"NoClientCert", "RequestClientCert", "RequireAnyClientCert", "VerifyClientCertIfGiven", "RequireAndVerifyClientCert"}

// cfg is one point of the product. SPos / CPos select the corrupted byte of the
// server / client signature (-1 = the middle byte).
type cfg struct {
	Vers  uint16   `json:"-"`
	Kex   kexClass `json:"-"`
	SScen sScen    `json:"-"`
	ISV   bool     `json:"insecure_skip_verify"`
	Mode  int      `json:"-"`
	CScen cScen    `json:"-"`
	SPos  int      `json:"server_sig_byte"`
	CPos  int      `json:"client_sig_byte"`

	// readable mirror (this is what replay parses)
	VersS  string `json:"version"`
	KexS   string `json:"kex"`
	SScenS string `json:"server_scenario"`
	ModeS  string `json:"client_auth"`
	CScenS string `json:"client_scenario"`
}

func (g *cfg) fill() {
	g.VersS, g.KexS, g.SScenS, g.ModeS, g.CScenS = versName(g.Vers), kexNames[g.Kex], sScenNames[g.SScen], authNames[g.Mode], cScenNames[g.CScen]
}

func (g *cfg) parse() error {
	find := func(names []string, s string) int {
		for i, n := range names {
			if n == s {
				return i
			}
		}
		return -1
	}
	g.Vers = 0
	for _, v := range versions {
		if versName(v) == g.VersS {
			g.Vers = v
		}
	}
	k, s, m, c := find(kexNames[:], g.KexS), find(sScenNames[:], g.SScenS), find(authNames[:], g.ModeS), find(cScenNames[:], g.CScenS)
	if g.Vers == 0 || k < 0 || s < 0 || m < 0 || c < 0 {
		return errors.New("unknown axis value in witness")
	}
	g.Kex, g.SScen, g.Mode, g.CScen = kexClass(k), sScen(s), m, cScen(c)
	return nil
}

func (g cfg) String() string {
	return fmt.Sprintf("v=%s kex=%s server=%s isv=%v auth=%s client=%s spos=%d cpos=%d", versName(g.Vers), kexNames[g.Kex], sScenNames[g.SScen], g.ISV, authNames[g.Mode], cScenNames[g.CScen], g.SPos, g.CPos)
}

// valid is the stated validity predicate of the lattice.
func valid(v uint16, k kexClass, s sScen) (bool, string) {
	if k.tls13() != (v == tls.VersionTLS13) {
		return false, "key-exchange class does not exist in this version"
	}
	if s == sSigCorrupt && !k.signed() {
		return false, "static-RSA key exchange has no server signature to corrupt"
	}
	return true, ""
}

// suiteFor picks the single cipher suite offered/accepted for a class.
func suiteFor(v uint16, k kexClass) uint16 {
	aead := v == tls.VersionTLS12
	switch k {
	case kexRSA:
		if aead {
			return tls.TLS_RSA_WITH_AES_128_GCM_SHA256
		}
		return tls.TLS_RSA_WITH_AES_128_CBC_SHA
	case kexECDHERSA:
		if aead {
			return tls.TLS_ECDHE_RSA_WITH_AES_128_GCM_SHA256
		}
		return tls.TLS_ECDHE_RSA_WITH_AES_128_CBC_SHA
	case kexECDHEECDSA:
		if aead {
			return tls.TLS_ECDHE_ECDSA_WITH_AES_128_GCM_SHA256
		}
		return tls.TLS_ECDHE_ECDSA_WITH_AES_128_CBC_SHA
	case kexDHERSA:
		if aead {
			return tls.TLS_DHE_RSA_WITH_AES_128_GCM_SHA256
		}
		return tls.TLS_DHE_RSA_WITH_AES_128_CBC_SHA
	}
	return tls.TLS_AES_128_GCM_SHA256
}

// ---- one run -----------------------------------------------------------------

type result struct {
	Complete   bool   `json:"complete"`
	ClientErr  string `json:"client_err,omitempty"`
	ServerErr  string `json:"server_err,omitempty"`
	DataErr    string `json:"data_err,omitempty"`
	Panic      string `json:"panic,omitempty"`
	Stalled    bool   `json:"stalled,omitempty"`
	Transcript string `json:"transcript_sha256"`
	Records    int    `json:"records"`
	NegVers    uint16 `json:"-"`
	NegSuite   uint16 `json:"-"`

	SrvSigFlipped bool   `json:"server_sig_flipped"`
	SrvSigLen     int    `json:"server_sig_len"`
	LeafReplaced  bool   `json:"leaf_replaced"`
	CliSigFlipped bool   `json:"client_sig_flipped"`
	CliSigLen     int    `json:"client_sig_len"`
	ClientSentCrt bool   `json:"client_sent_cert"`
	HarnessBad    string `json:"harness_bad,omitempty"`
}

func errStr(e error) string {
	if e == nil {
		return ""
	}
	return e.Error()
}

// buildConfigs turns a lattice point into the two tls.Configs and (for plaintext
// flights) the man-in-the-middle.
func buildConfigs(g cfg, p *pki) (cc, sc *tls.Config, m *mitm, probes *probe) {
	probes = &probe{}
	fam := p.fam(g.Kex.rsaLeaf())
	seed := g.String()
	suite := suiteFor(g.Vers, g.Kex)
	cc = &tls.Config{
		Rand: tlsx.NewDetRand("c-" + seed), Time: tlsx.Now,
		MinVersion: g.Vers, MaxVersion: g.Vers,
		ServerName: serverNameFor(g.SScen), RootCAs: p.pool(p.sroot, p.srootOld),
		InsecureSkipVerify: g.ISV,
	}
	sc = &tls.Config{
		Rand: tlsx.NewDetRand("s-" + seed), Time: tlsx.Now,
		MinVersion: g.Vers, MaxVersion: g.Vers,
		ClientAuth: authModes[g.Mode], ClientCAs: p.pool(p.croot, p.crootOld),
	}
	if !g.Kex.tls13() {
		cc.CipherSuites = []uint16{suite}
		sc.CipherSuites = []uint16{suite}
		// zcrypto advertises only the suites of its default table unless forced;
		// DHE lives in the "implemented" table.
		cc.ForceSuites = true
	}

	// server identity
	sid := fam.server[g.SScen]
	scert := tls.Certificate{Certificate: sid.chain, PrivateKey: sid.key, Leaf: sid.leaf}
	if g.SScen == sSigCorrupt && g.Kex.tls13() {
		// encrypted flight: model the in-flight corruption at the signer
		scert.PrivateKey = &flipSigner{inner: sid.key, pos: g.SPos, flipped: &probes.srvFlipped, sigLen: &probes.srvSigLen}
	}
	if g.SScen == sKeySubst && g.Kex.tls13() {
		// encrypted flight: the client sees the other trusted leaf, the peer signs with the original key
		scert = tls.Certificate{Certificate: fam.substChain, PrivateKey: sid.key, Leaf: fam.substLeaf}
		probes.leafReplaced = true
	}
	sc.Certificates = []tls.Certificate{scert}

	// client identity
	if g.CScen != cNone {
		cid := fam.client[g.CScen]
		ccert := tls.Certificate{Certificate: cid.chain, PrivateKey: cid.key, Leaf: cid.leaf}
		if g.CScen == cCVCorrupt && g.Kex.tls13() {
			ccert.PrivateKey = &flipSigner{inner: cid.key, pos: g.CPos, flipped: &probes.cliFlipped, sigLen: &probes.cliSigLen}
		}
		// The scenario is "the client presents this certificate": do not let the
		// client library filter it against the CA names of the request.
		cc.GetClientCertificate = func(*tls.CertificateRequestInfo) (*tls.Certificate, error) {
			probes.clientAsked = true
			return &ccert, nil
		}
	}

	if !g.Kex.tls13() {
		m = &mitm{vers: g.Vers, kex: g.Kex, skxFlip: -2, cvFlip: -2}
		if g.SScen == sSigCorrupt {
			m.skxFlip = g.SPos
		}
		if g.SScen == sKeySubst {
			m.leafOrig, m.leafSub = sid.chain[0], fam.substChain[0]
		}
		if g.CScen == cCVCorrupt {
			m.cvFlip = g.CPos
		}
	}
	return
}

type probe struct {
	srvFlipped, cliFlipped bool
	srvSigLen, cliSigLen   int
	leafReplaced           bool
	clientAsked            bool
}

// extras is what the resumption axis additionally observes on one connection.
type extras struct {
	cRes, sRes bool     // ConnectionState.DidResume on each end
	srvPeer    [][]byte // the server's view of the client's certificates (DER)
	c2s, s2c   []byte
}

func runOnce(g cfg, p *pki) result {
	cc, sc, m, pr := buildConfigs(g, p)
	var prep func(n *tlsx.Net)
	if m != nil {
		prep = func(n *tlsx.Net) { n.Mitm = m.rewrite }
	}
	r, _ := execute(cc, sc, prep)

	r.SrvSigFlipped, r.SrvSigLen = pr.srvFlipped, pr.srvSigLen
	r.CliSigFlipped, r.CliSigLen = pr.cliFlipped, pr.cliSigLen
	r.LeafReplaced = pr.leafReplaced
	r.ClientSentCrt = pr.clientAsked
	if m != nil {
		if m.skxFlip != -2 {
			r.SrvSigFlipped, r.SrvSigLen = m.skxDone, m.skxLen
		}
		if m.cvFlip != -2 {
			r.CliSigFlipped, r.CliSigLen = m.cvDone, m.cvLen
		}
		if m.leafSub != nil {
			r.LeafReplaced = m.subDone
		}
		r.HarnessBad = m.bad
	}
	return r
}

// execute runs one handshake plus the application-data round trip.
func execute(cc, sc *tls.Config, prep func(n *tlsx.Net)) (result, extras) {
	s := tlsx.Handshake(cc, sc, prep)
	var r result
	var x extras
	r.ClientErr, r.ServerErr = errStr(s.Client.Err), errStr(s.Server.Err)
	if s.Client.Panic != "" || s.Server.Panic != "" {
		r.Panic = "client: " + s.Client.Panic + " | server: " + s.Server.Panic
	}
	if s.Client.OKDone && s.Server.OKDone {
		r.NegVers, r.NegSuite = s.Client.State.Version, s.Client.State.CipherSuite
		x.cRes, x.sRes = s.Client.State.DidResume, s.Server.State.DidResume
		for _, pc := range s.Server.State.PeerCertificates {
			x.srvPeer = append(x.srvPeer, pc.Raw)
		}
		// application-data round trip: "ping" -> server, "pong" -> client
		var wg sync.WaitGroup
		var sErr error
		var sPanic, cPanic string
		wg.Add(1)
		go func() {
			defer wg.Done()
			if pk, msg, site := ev.Try(func() {
				buf := make([]byte, 4)
				_, e := io.ReadFull(s.Server.Conn, buf)
				if e == nil && string(buf) != "ping" {
					e = fmt.Errorf("server read %q, want ping", buf)
				}
				if e == nil {
					_, e = s.Server.Conn.Write([]byte("pong"))
				}
				sErr = e
			}); pk {
				sPanic = msg + " @ " + site
			}
			if sErr != nil || sPanic != "" {
				s.Server.Conn.Close()
			}
		}()
		var cErr error
		if pk, msg, site := ev.Try(func() {
			_, e := s.Client.Conn.Write([]byte("ping"))
			if e == nil {
				buf := make([]byte, 4)
				_, e = io.ReadFull(s.Client.Conn, buf)
				if e == nil && string(buf) != "pong" {
					e = fmt.Errorf("client read %q, want pong", buf)
				}
			}
			cErr = e
		}); pk {
			cPanic = msg + " @ " + site
		}
		if cErr != nil || cPanic != "" {
			s.Client.Conn.Close()
		}
		wg.Wait()
		if cPanic != "" || sPanic != "" {
			r.Panic = "data phase client: " + cPanic + " | server: " + sPanic
		}
		if cErr != nil || sErr != nil {
			r.DataErr = "client: " + errStr(cErr) + " | server: " + errStr(sErr)
		}
		r.Complete = cErr == nil && sErr == nil && r.Panic == ""
	}
	s.Close()
	r.Stalled = s.Net.Stalled

	h := sha256.New()
	for _, d := range []tlsx.Dir{tlsx.C2S, tlsx.S2C} {
		ws := s.Net.Writes(d)
		var l [8]byte
		binary.BigEndian.PutUint64(l[:], uint64(len(ws)))
		h.Write(l[:])
		for _, w := range ws {
			binary.BigEndian.PutUint64(l[:], uint64(len(w)))
			h.Write(l[:])
			h.Write(w)
		}
		r.Records += len(tlsx.ParseRecords(s.Net.Stream(d)))
	}
	r.Transcript = hex.EncodeToString(h.Sum(nil))
	x.c2s, x.s2c = s.Net.Stream(tlsx.C2S), s.Net.Stream(tlsx.S2C)
	return r, x
}

func sameOutcome(a, b result) (bool, string) {
	switch {
	case a.Complete != b.Complete:
		return false, "verdict"
	case a.ClientErr != b.ClientErr || a.ServerErr != b.ServerErr || a.DataErr != b.DataErr || a.Panic != b.Panic:
		return false, "errors"
	case a.Transcript != b.Transcript:
		return false, "transcript"
	}
	return true, ""
}

// outcomeClass names where a run ended, for the vacuity histogram.
func outcomeClass(r result) string {
	if r.Panic != "" {
		return "panic"
	}
	if r.Complete {
		return "complete"
	}
	local := func(e string) bool {
		return e != "" && !strings.HasPrefix(e, "remote error") && e != "EOF" && !strings.Contains(e, "closed pipe") && !strings.Contains(e, "unexpected EOF")
	}
	short := func(e string) string {
		if i := strings.Index(e, ": x509:"); i >= 0 {
			e = e[i+2:]
		}
		e = strings.ReplaceAll(ev.MsgClass(e), "xN:", "x509:")
		if len(e) > 72 {
			e = e[:72]
		}
		return e
	}
	switch {
	case local(r.ClientErr):
		return "client aborts: " + short(r.ClientErr)
	case local(r.ServerErr):
		return "server aborts: " + short(r.ServerErr)
	case r.DataErr != "":
		return "data phase fails: " + short(r.DataErr)
	}
	return "fails: c=" + short(r.ClientErr) + " s=" + short(r.ServerErr)
}

// causeClasses reduces the failed clauses to their kinds (for signatures).
func causeClasses(causes []string) string {
	seen := map[string]bool{}
	var out []string
	for _, c := range causes {
		k := strings.SplitN(c, ":", 2)[0]
		if !seen[k] {
			seen[k] = true
			out = append(out, k)
		}
	}
	return strings.Join(out, "+")
}

// ---- evaluation -----------------------------------------------------------------

type witness struct {
	Config   cfg      `json:"config"`
	Expected string   `json:"expected"`
	Causes   []string `json:"expected_failure_causes,omitempty"`
	Run1     result   `json:"run1"`
	Run2     *result  `json:"run2,omitempty"`
	Detail   string   `json:"detail,omitempty"`
}

type evalStats struct {
	hist      ev.Hist
	records   int64
	runs      int64
	identical int64
}

// evaluate runs one lattice point (twice when twice is set) and applies the oracle.
func evaluate(c *ev.Ctx, p *pki, g cfg, twice bool, st *evalStats, strictISV bool) result {
	g.fill()
	exp, causes := expect(g.SScen, g.ISV, authModes[g.Mode], g.CScen, strictISV)
	c.Evaluations.Add(1)
	r1 := runOnce(g, p)
	st.runs++
	st.records += int64(r1.Records)
	var r2p *result
	if twice {
		r2 := runOnce(g, p)
		r2p = &r2
		st.runs++
		st.records += int64(r2.Records)
		if ok, what := sameOutcome(r1, r2); ok {
			st.identical += 2
		} else if what == "verdict" && exp != unspecified {
			// one of the two runs necessarily contradicts the expectation
			c.Violation("nondeterministic verdict for one configuration (two runs disagree)", witness{Config: g, Expected: exp.String(), Causes: causes, Run1: r1, Run2: r2p})
		} else {
			// different error text / bytes on the wire (or a verdict the statement leaves open):
			// the harness does not own its nondeterminism for this point; never a verdict on the property.
			st.hist["determinism: "+what+" differ between two runs"]++
			c.Incomplete("two runs of the same configuration differed in " + what + ": " + g.String())
		}
	}
	w := witness{Config: g, Expected: exp.String(), Causes: causes, Run1: r1, Run2: r2p}

	if r1.HarnessBad != "" {
		c.Broken("man-in-the-middle could not parse the plaintext flight: %s (%s)", r1.HarnessBad, g)
	}
	// The fault the scenario is about must really have been injected whenever the
	// handshake got far enough (else the run says nothing about the scenario).
	if !g.Kex.tls13() {
		if g.SScen == sSigCorrupt && !r1.SrvSigFlipped {
			c.Broken("ServerKeyExchange signature not found/flipped: %s", g)
		}
		if g.SScen == sKeySubst && !r1.LeafReplaced {
			c.Broken("leaf certificate not replaced in flight: %s", g)
		}
	} else if g.SScen == sSigCorrupt && !r1.SrvSigFlipped {
		c.Broken("server signer not invoked: %s", g)
	}
	if g.CScen == cCVCorrupt && g.Mode != 0 && r1.ClientSentCrt && !r1.CliSigFlipped && r1.ClientErr == "" {
		c.Broken("client sent a certificate but its CertificateVerify was not flipped: %s", g)
	}

	if r1.Panic != "" {
		c.Violation("panic during handshake: "+ev.MsgClass(r1.Panic), w)
	}
	if r1.Stalled {
		st.hist["stalled (both endpoints parked in Read)"]++
	}
	if r1.Complete && (r1.NegVers != g.Vers || (!g.Kex.tls13() && r1.NegSuite != suiteFor(g.Vers, g.Kex))) {
		c.Broken("negotiated %04x/%04x, wanted %04x/%04x: %s", r1.NegVers, r1.NegSuite, g.Vers, suiteFor(g.Vers, g.Kex), g)
	}
	oc := outcomeClass(r1)
	switch exp {
	case mustComplete:
		st.hist["expected complete -> "+oc]++
		if !r1.Complete {
			c.Violation("failed-but-must-complete: "+oc, w)
		}
	case mustFail:
		st.hist["expected failure -> "+oc]++
		if r1.Complete {
			c.Violation("completed-but-must-fail: "+strings.Join(causes, " + "), w)
		} else if side := abortingSide(g.Kex, g.SScen, g.ISV, authModes[g.Mode], g.CScen); side != "" {
			// the handshake must fail BECAUSE of the clause: the peer that owns the failed
			// check is the one that ends it with an error of its own
			st.hist["expected failure by the "+side+" -> "+strings.SplitN(oc, ":", 2)[0]]++
			if !strings.HasPrefix(oc, side+" aborts") {
				c.Violation(fmt.Sprintf("failed for another reason than the expected one: %s must abort (%s) but: %s", side, causeClasses(causes), strings.SplitN(oc, ":", 2)[0]), w)
			}
		}
	case unspecified:
		st.hist["statement silent (verification off, possession not proven: "+strings.Join(causes, " + ")+") -> "+map[bool]string{true: "complete", false: "not complete"}[r1.Complete]]++
	}
	return r1
}

func main() {
	ev.Main("C27", "model_checking", func(c *ev.Ctx) {
		p := buildPKI()
		if err := p.selfCheck(); err != nil {
			c.Broken("PKI fixture labels disagree with the Go standard library verifier: %v", err)
		}
		strictISV := os.Getenv("C27_STRICT_ISV") == "1"
		c.Rule("(1) full product versions{1.0,1.1,1.2,1.3} x kex{RSA,ECDHE-RSA,ECDHE-ECDSA,DHE-RSA | TLS1.3 with RSA-PSS / ECDSA leaf} x server scenario(14: trusted, untrusted root, expired, not yet valid, wrong name, wrong key, corrupted signature, intermediate missing, key substitution, clientAuth-only EKU, expired intermediate, IP ServerName with / without matching iPAddress SAN, valid leaf and intermediate under a configured root that expired before Config.Time) x InsecureSkipVerify{f,t} x ClientAuth(5) x client scenario(8: none, trusted, untrusted, expired, wrong key, corrupted CertificateVerify, serverAuth-only EKU, valid chain under an expired ClientCAs root), pruned only by: class exists in version; static RSA has no server signature to corrupt. A point is non-trivial when some non-baseline value is active (server scenario != trusted, client scenario not in {none,trusted}, or a certificate is requested). Where the handshake must fail, the endpoint owning the failed check must be the one that aborts. " +
			"(2) resumption axis: pairs (issue connection at T0, resume connection offering its ticket to a server with the same ticket key): version(4) x server scenario{trusted 20y, leaf expiring T0+24h, untrusted root, wrong name} x issue-ISV{f,t} x issue ClientAuth(5) x issue client certificate{none, trusted 20y, expiring T0+24h, untrusted} [pruned: issue connection must fail; certificate never requested = none] x resume-ISV{f,t} x resume ServerName{same, other.example} x resume ClientAuth(5) x ClientCAs{same, replaced} x client certificate for a full handshake{none, trusted} x both clocks{T0, T0+48h}. Quick: the two covering slices (all server-side dimensions with client authentication off; all client-authentication dimensions with the trusted long-lived server) for ECDHE-ECDSA / TLS1.3-ECDSA; thorough: the slices for every key-exchange class plus the whole product for ECDHE-ECDSA / TLS1.3-ECDSA")
		c.Assume(
			"oracle = truth table over the scenario labels (by construction of the PKI; labels cross-checked at start against Go's crypto/x509.Verify, never against zcrypto)",
			"completes = both Handshake() return nil and a ping/pong application-data round trip succeeds",
			"with InsecureSkipVerify and a server that does not prove possession the statement is silent ('with verification enabled ...'): both behaviours accepted and counted separately (C27_STRICT_ISV=1 demands failure as DESIGN.md sketches)",
			"TLS 1.3 flights are encrypted: an in-flight signature corruption is modelled by a crypto.Signer that flips one byte of its output, an in-flight leaf substitution by a peer presenting the other trusted leaf while signing with the original key",
			"in-flight edits of TLS<=1.2 plaintext flights are located by the harness' own record/handshake parser",
			"resumption axis: the client's session cache is the harness' own (hands the issued session out whatever the cache key); a connection counts as resumed when DidResume of either end or the handshake shape on the wire says so; possession of the stored certificate's key was proven in the issue connection (all issue scenarios use the genuine key); with a ticket in hand a connection the statement does not forbid must complete (resumed or by full handshake) except when the session's stored client chain fails resume-time verification (failing is then what the statement says); a session WITH client certificate offered to a server that asks for none: both behaviours accepted",
		)

		if c.Replay != nil {
			var ax struct {
				Axis string `json:"axis"`
			}
			json.Unmarshal(c.Replay, &ax)
			if ax.Axis == "resume" {
				var w rwitness
				if err := json.Unmarshal(c.Replay, &w); err != nil {
					c.Broken("bad witness: %v", err)
				}
				g := w.Config
				if err := g.parse(); err != nil {
					c.Broken("bad witness: %v", err)
				}
				st := &evalStats{hist: ev.Hist{}}
				(&resumeEngine{p: p, issues: map[string]*issued{}}).evaluate(c, g, st)
				fmt.Printf("replay %s\n  %v\n", g, st.hist)
				c.States.Add(1)
				c.Traces.Add(st.identical)
				c.Transitions.Add(st.records)
				c.Merge(st.hist)
				return
			}
			var w witness
			if err := json.Unmarshal(c.Replay, &w); err != nil {
				c.Broken("bad witness: %v", err)
			}
			g := w.Config
			if err := g.parse(); err != nil {
				c.Broken("bad witness: %v", err)
			}
			st := &evalStats{hist: ev.Hist{}}
			r := evaluate(c, p, g, true, st, strictISV)
			fmt.Printf("replay %s\n  complete=%v client_err=%q server_err=%q data_err=%q\n", g, r.Complete, r.ClientErr, r.ServerErr, r.DataErr)
			c.States.Add(1)
			c.Traces.Add(st.identical)
			c.Transitions.Add(st.records)
			c.Merge(st.hist)
			return
		}

		// ---- the lattice ----
		var points []cfg
		pruned := map[string]int{}
		for _, v := range versions {
			for k := kexClass(0); k < nKex; k++ {
				for s := sScen(0); s < nSScen; s++ {
					if ok, why := valid(v, k, s); !ok {
						pruned[why]++
						continue
					}
					for _, isv := range []bool{false, true} {
						for m := range authModes {
							for cs := cScen(0); cs < nCScen; cs++ {
								points = append(points, cfg{Vers: v, Kex: k, SScen: s, ISV: isv, Mode: m, CScen: cs, SPos: -1, CPos: -1})
							}
						}
					}
				}
			}
		}
		c.Set("lattice_points", len(points))
		c.Set("pruned_axis_triples(version,kex,server_scenario)", pruned)

		W := c.Workers()
		stats := make([]*evalStats, W)
		for i := range stats {
			stats[i] = &evalStats{hist: ev.Hist{}}
		}
		results := make([]result, len(points))
		var nontrivial atomic.Int64
		done := c.Parallel(len(points), func(w, i int) {
			g := points[i]
			results[i] = evaluate(c, p, g, true, stats[w], strictISV)
			if g.SScen != sTrusted || g.CScen > cTrusted || g.Mode != 0 {
				nontrivial.Add(1)
			}
			if i%997 == 0 && c.WantSample() {
				gg := g
				gg.fill()
				exp, causes := expect(g.SScen, g.ISV, authModes[g.Mode], g.CScen, strictISV)
				c.Sample(map[string]any{"config": gg, "expected": exp.String(), "causes": causes, "outcome": outcomeClass(results[i])})
			}
		})
		c.States.Add(int64(len(points)))
		if !done {
			c.Incomplete("budget hit inside the base product (every point twice)")
		}

		// ---- resumption axis (resume.go) ----
		var resumeStates int64
		if done {
			quickKex := func(v uint16) []kexClass {
				if v == tls.VersionTLS13 {
					return []kexClass{kexTLS13ECDSA}
				}
				return []kexClass{kexECDHEECDSA}
			}
			allKex := func(v uint16) []kexClass {
				var out []kexClass
				for k := kexClass(0); k < nKex; k++ {
					if ok, _ := valid(v, k, sTrusted); ok {
						out = append(out, k)
					}
				}
				return out
			}
			rpoints, rpruned := resumePoints(false, ev.Pick(c, quickKex, allKex))
			if !c.Quick() {
				// the whole product for the cheapest class of each version, after the slices of every class
				full, _ := resumePoints(true, quickKex)
				seen := map[string]bool{}
				for _, g := range rpoints {
					seen[g.String()] = true
				}
				for _, g := range full {
					if !seen[g.String()] {
						rpoints = append(rpoints, g)
					}
				}
			}
			c.Set("resume_axis_points", len(rpoints))
			c.Set("resume_axis_issue_configs_pruned(connection 1 must fail by the truth table)", rpruned)
			eng := &resumeEngine{p: p, issues: map[string]*issued{}}
			ok := c.Parallel(len(rpoints), func(w, i int) {
				eng.evaluate(c, rpoints[i], stats[w])
				atomic.AddInt64(&resumeStates, 1)
			})
			c.States.Add(resumeStates)
			c.Set("resume_axis_issue_configs", len(eng.issues))
			if !ok {
				c.Incomplete(fmt.Sprintf("budget hit in the resumption axis: %d of %d points run (base product complete)", resumeStates, len(rpoints)))
			}
			resumedSeen := false
			for _, st := range stats {
				for k := range st.hist {
					if strings.HasPrefix(k, "resume axis:") && strings.HasSuffix(k, "-> resumed") {
						resumedSeen = true
					}
				}
			}
			if ok && !resumedSeen {
				c.Broken("resumption axis is vacuous: no connection 2 was resumed at all")
			}
		}

		// ---- thorough: every byte position of every corrupted signature ----
		sweepRuns := int64(0)
		if !c.Quick() && done {
			var sweep []cfg
			for i, g := range points {
				r := results[i]
				if g.SScen == sSigCorrupt && r.SrvSigFlipped {
					for k := 0; k < r.SrvSigLen; k++ {
						h := g
						h.SPos = k
						sweep = append(sweep, h)
					}
				}
				// the position of the client-side flip only matters when it was reached
				if g.CScen == cCVCorrupt && r.CliSigFlipped {
					for k := 0; k < r.CliSigLen; k++ {
						h := g
						h.CPos = k
						sweep = append(sweep, h)
					}
				}
			}
			c.Set("signature_byte_sweep_points", len(sweep))
			// interleave so that a budget stop still covers every class evenly
			sort.SliceStable(sweep, func(a, b int) bool {
				pa, pb := sweep[a].SPos+sweep[a].CPos, sweep[b].SPos+sweep[b].CPos
				return pa < pb
			})
			ok := c.Parallel(len(sweep), func(w, i int) {
				evaluate(c, p, sweep[i], false, stats[w], strictISV)
				atomic.AddInt64(&sweepRuns, 1)
			})
			c.States.Add(sweepRuns)
			if !ok {
				c.Incomplete(fmt.Sprintf("budget hit in the signature byte sweep: %d of %d positions run (base product complete)", sweepRuns, len(sweep)))
			}
		}

		var runs, recs, ident int64
		for _, st := range stats {
			c.Merge(st.hist)
			runs += st.runs
			recs += st.records
			ident += st.identical
		}
		c.Transitions.Add(recs)
		c.Traces.Add(ident)
		c.Distinct.Add(nontrivial.Load() + sweepRuns + resumeStates)
		c.Set("handshake_runs", runs)
		c.Set("runs_with_byte_identical_twin", ident)
		c.Set("strict_isv", strictISV)
	})
}
