package main

import (
	"bytes"
	"fmt"

	"github.com/zmap/zcrypto/tls"
	"verifmc/internal/tlsx"
)

// mitm is the man-in-the-middle for the plaintext flights of TLS <= 1.2. It uses
// the harness' own record / handshake-message parser (nothing from zcrypto): for
// every write it walks the records, concatenates the payloads of the handshake
// records that precede the direction's ChangeCipherSpec and parses the handshake
// messages. The faults:
//
//	skxFlip >= -1 : xor 0x01 into byte skxFlip (-1: middle) of the signature in ServerKeyExchange
//	leafSub       : replace the first certificate of the server's Certificate message
//	cvFlip  >= -1 : xor 0x01 into byte cvFlip of the signature in the client's CertificateVerify
//
// (-2 = fault not requested). A message that is not completely inside one write
// cannot be rewritten; that is reported through bad (the harness then aborts as
// broken rather than silently not injecting).
type mitm struct {
	vers uint16
	kex  kexClass

	skxFlip  int
	leafSub  []byte
	leafOrig []byte
	cvFlip   int

	encrypted [2]bool // ChangeCipherSpec seen in that direction

	skxDone, subDone, cvDone bool
	skxLen, cvLen            int
	bad                      string
}

const (
	recChangeCipherSpec = 20
	recHandshake        = 22

	hsCertificate       = 11
	hsServerKeyExchange = 12
	hsCertificateVerify = 15
)

func (m *mitm) fail(format string, a ...any) {
	if m.bad == "" {
		m.bad = fmt.Sprintf(format, a...)
	}
}

// rewrite is installed as tlsx.Net.Mitm. data is a private copy of one Write.
func (m *mitm) rewrite(d tlsx.Dir, nth int, data []byte) [][]byte {
	if m.encrypted[d] {
		return [][]byte{data}
	}
	// records of this write; idx maps a byte of the concatenated handshake payload to its place in data
	var hs []byte
	var idx []int
	off := 0
	for off < len(data) && !m.encrypted[d] {
		if off+5 > len(data) {
			m.fail("%s write %d: record header split across writes", d, nth)
			return [][]byte{data}
		}
		typ := data[off]
		l := int(data[off+3])<<8 | int(data[off+4])
		if off+5+l > len(data) {
			m.fail("%s write %d: record split across writes", d, nth)
			return [][]byte{data}
		}
		switch typ {
		case recChangeCipherSpec:
			m.encrypted[d] = true
		case recHandshake:
			for i := 0; i < l; i++ {
				hs = append(hs, data[off+5+i])
				idx = append(idx, off+5+i)
			}
		}
		off += 5 + l
	}
	// handshake messages
	p := 0
	for p < len(hs) {
		if p+4 > len(hs) {
			m.fail("%s write %d: handshake header split across writes", d, nth)
			break
		}
		typ := hs[p]
		l := int(hs[p+1])<<16 | int(hs[p+2])<<8 | int(hs[p+3])
		if p+4+l > len(hs) {
			m.fail("%s write %d: handshake message type %d split across writes", d, nth, typ)
			break
		}
		body, at := hs[p+4:p+4+l], p+4 // body[i] lives at data[idx[at+i]]
		switch {
		case d == tlsx.S2C && typ == hsCertificate && m.leafSub != nil && !m.subDone:
			// certificate_list<0..2^24-1> of ASN.1Cert<1..2^24-1>
			if len(body) < 6 {
				m.fail("short Certificate message")
				break
			}
			cl := int(body[3])<<16 | int(body[4])<<8 | int(body[5])
			if 6+cl > len(body) || cl != len(m.leafSub) || !bytes.Equal(body[6:6+cl], m.leafOrig) {
				m.fail("first certificate on the wire is not the configured leaf (len %d)", cl)
				break
			}
			for i := 0; i < cl; i++ {
				data[idx[at+6+i]] = m.leafSub[i]
			}
			m.subDone = true
		case d == tlsx.S2C && typ == hsServerKeyExchange && m.skxFlip != -2 && !m.skxDone:
			so, sl, err := skxSignature(body, m.vers, m.kex)
			if err != nil {
				m.fail("ServerKeyExchange: %v", err)
				break
			}
			k := pick(m.skxFlip, sl)
			data[idx[at+so+k]] ^= 0x01
			m.skxDone, m.skxLen = true, sl
		case d == tlsx.C2S && typ == hsCertificateVerify && m.cvFlip != -2 && !m.cvDone:
			so, sl, err := trailingSignature(body, 0, m.vers)
			if err != nil {
				m.fail("CertificateVerify: %v", err)
				break
			}
			k := pick(m.cvFlip, sl)
			data[idx[at+so+k]] ^= 0x01
			m.cvDone, m.cvLen = true, sl
		}
		p += 4 + l
	}
	return [][]byte{data}
}

func pick(pos, n int) int {
	if pos < 0 {
		return n / 2
	}
	if pos >= n {
		return n - 1
	}
	return pos
}

// skxSignature locates the signature inside a ServerKeyExchange body.
// ECDHE (RFC 4492 5.4): curve_type(1)=3 named_curve(2) point<1..2^8-1>, then the signature.
// DHE (RFC 5246 7.4.3): dh_p<1..2^16-1> dh_g<1..2^16-1> dh_Ys<1..2^16-1>, then the signature.
func skxSignature(b []byte, vers uint16, kex kexClass) (off, n int, err error) {
	p := 0
	switch kex {
	case kexECDHERSA, kexECDHEECDSA:
		if len(b) < 4 || b[0] != 3 {
			return 0, 0, fmt.Errorf("not a named-curve ECDHE parameter block")
		}
		p = 4 + int(b[3])
	case kexDHERSA:
		for i := 0; i < 3; i++ {
			if p+2 > len(b) {
				return 0, 0, fmt.Errorf("short DH parameter %d", i)
			}
			p += 2 + (int(b[p])<<8 | int(b[p+1]))
		}
	default:
		return 0, 0, fmt.Errorf("no ServerKeyExchange expected for %s", kexNames[kex])
	}
	return trailingSignature(b, p, vers)
}

// trailingSignature parses [SignatureAndHashAlgorithm(2) in TLS 1.2] opaque signature<0..2^16-1>
// starting at p and requires it to end the message.
func trailingSignature(b []byte, p int, vers uint16) (off, n int, err error) {
	if vers >= tls.VersionTLS12 {
		p += 2
	}
	if p+2 > len(b) {
		return 0, 0, fmt.Errorf("no room for a signature")
	}
	n = int(b[p])<<8 | int(b[p+1])
	p += 2
	if n == 0 || p+n != len(b) {
		return 0, 0, fmt.Errorf("signature length %d does not end the message (at %d of %d)", n, p, len(b))
	}
	return p, n, nil
}
