package main

import "github.com/zmap/zcrypto/tls"

// The oracle: a truth table written from the property statement.
//
//   "With verification enabled, a client completes a handshake only if the
//    server's chain verifies to the configured roots for the configured server
//    name at the configured time and the server proves possession of the leaf
//    key. A server requiring client certificates completes only with a client
//    that proves possession of its key (and, when verification is requested,
//    whose chain verifies); substituted keys, corrupted signatures, untrusted,
//    expired or misnamed certificates make the handshake fail."
//
// Every input of the table is a label of the scenario (what the harness built),
// never something computed by the code under test.

type expectation int

const (
	mustComplete expectation = iota
	mustFail
	unspecified
)

func (e expectation) String() string {
	return [...]string{"must complete", "must not complete", "unspecified by the statement"}[e]
}

// serverChainVerifies: does the certificate list the CLIENT receives verify to
// RootCAs for ServerName at Config.Time?
func serverChainVerifies(s sScen) bool {
	switch s {
	case sTrusted, sWrongKey, sSigCorrupt, sKeySubst, sIPMatch:
		// wrong-key / sig-corrupt present the genuine trusted chain; key-substitution
		// shows the client another leaf that is trusted for the same name; ip-san-match
		// is a trusted chain whose leaf names the configured IP address in an iPAddress SAN.
		return true
	}
	// untrusted root, expired, not yet valid, wrong name, intermediate missing, leaf not
	// usable for server authentication, expired intermediate, configured IP address not
	// among the iPAddress SANs
	return false
}

// serverProvesPossession: does the peer prove possession of the private key of
// the leaf certificate the client received, with an intact signature?
func serverProvesPossession(s sScen) bool {
	switch s {
	case sWrongKey, sSigCorrupt, sKeySubst:
		return false
	}
	return true
}

// clientSends: a client certificate reaches the server only when one is
// configured and the server asks for one.
func clientSends(mode tls.ClientAuthType, cs cScen) bool {
	return mode != tls.NoClientCert && cs != cNone
}

func clientChainVerifies(cs cScen) bool {
	switch cs {
	case cTrusted, cWrongKey, cCVCorrupt:
		return true
	}
	return false // untrusted, expired, leaf not usable for client authentication
}

func clientProvesPossession(cs cScen) bool { return cs != cWrongKey && cs != cCVCorrupt }

// expect returns the verdict the statement demands and, for a demanded or
// possible failure, the clauses that are not satisfied.
func expect(s sScen, isv bool, mode tls.ClientAuthType, cs cScen, strictISV bool) (expectation, []string) {
	var must []string   // clauses whose failure the statement makes fatal
	var silent []string // clauses the statement does not condition on in this configuration

	// --- client authenticating the server
	if !isv {
		if !serverChainVerifies(s) {
			must = append(must, "server-chain:"+sScenNames[s])
		}
		if !serverProvesPossession(s) {
			must = append(must, "server-possession:"+sScenNames[s])
		}
	} else if !serverProvesPossession(s) {
		// "With verification enabled ..." — nothing is said about a client whose
		// verification is switched off. (Chain problems are what the switch is for:
		// those must be tolerated.)
		if strictISV {
			must = append(must, "server-possession(verification off):"+sScenNames[s])
		} else {
			silent = append(silent, "server-possession:"+sScenNames[s])
		}
	}

	// --- server authenticating the client
	requires := mode == tls.RequireAnyClientCert || mode == tls.RequireAndVerifyClientCert
	verifies := mode == tls.VerifyClientCertIfGiven || mode == tls.RequireAndVerifyClientCert
	if !clientSends(mode, cs) {
		if requires {
			must = append(must, "client-cert:missing-but-required")
		}
	} else {
		if !clientProvesPossession(cs) {
			must = append(must, "client-possession:"+cScenNames[cs])
		}
		if verifies && !clientChainVerifies(cs) {
			must = append(must, "client-chain:"+cScenNames[cs])
		}
	}

	switch {
	case len(must) > 0:
		return mustFail, must
	case len(silent) > 0:
		return unspecified, silent
	}
	return mustComplete, nil
}

// abortingSide names the endpoint whose own check has to end a handshake that the
// statement forbids ("client", "server"), or "" where the failed clauses do not
// determine it. The statement gives each check to one peer: the CLIENT verifies the
// server's chain and the server's signature, the SERVER verifies the client's
// certificate and CertificateVerify; in every protocol version the client has
// finished judging the server's flight before it sends anything about itself, so
// a failed server-* clause is found first. The one exception is static-RSA key
// exchange, where possession is proven by decrypting the premaster secret: nothing
// is signed, and the peer that notices is the server (the client's Finished does
// not verify under the keys the server derived).
func abortingSide(k kexClass, s sScen, isv bool, mode tls.ClientAuthType, cs cScen) string {
	requires := mode == tls.RequireAnyClientCert || mode == tls.RequireAndVerifyClientCert
	verifies := mode == tls.VerifyClientCertIfGiven || mode == tls.RequireAndVerifyClientCert
	clientClause := false
	if !clientSends(mode, cs) {
		clientClause = requires
	} else {
		clientClause = !clientProvesPossession(cs) || (verifies && !clientChainVerifies(cs))
	}
	switch {
	case !isv && !serverChainVerifies(s):
		return "client"
	case !isv && !serverProvesPossession(s):
		if k.signed() {
			return "client"
		}
		return "server"
	case isv && !serverProvesPossession(s):
		return "" // the statement is silent on the server-* clause here; either peer may stop first
	case clientClause:
		return "server"
	}
	return ""
}
