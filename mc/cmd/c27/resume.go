package main

// resume.go — resumption as an authentication bypass.
//
// Every point is a pair of connections between a client and a server that keep
// the same session-ticket key: connection 1 (the "issue" configuration, always at
// Config.Time = T0) hands the client a ticket; connection 2 (the "resume"
// configuration) offers it. Between the two the harness changes what the
// statement conditions on: the server's ClientAuth mode, its ClientCAs pool, the
// clock on both ends (past the NotAfter of a short-lived client or server leaf),
// the client's InsecureSkipVerify and ServerName, and whether the client still
// holds a certificate for a full handshake.
//
// The oracle is the statement applied to connection 2. Whatever the path
// (abbreviated or full), a completed connection needs
//
//   - with verification enabled on the client: a server chain that verifies for
//     the name and time configured NOW;
//   - on a server that requires a client certificate: a client that proved
//     possession of a certificate's key — in connection 1 (the resumed session then
//     has to carry that certificate) or in connection 2's full handshake;
//   - when verification is requested: that chain verifying under the ClientCAs and
//     time configured NOW.
//
// Where nothing forbids completion, the connection must complete: either the
// ticket is honoured, or resumption is declined and the ordinary full handshake
// runs (the rule documented in checkForResumption: a session without client
// certificates is not resumed by a server that needs one). The one place where
// the statement lets the handshake fail although a full handshake could have
// succeeded: the resumed session's stored client certificate no longer verifies
// ("expired or untrusted certificates make the handshake fail").

import (
	"bytes"
	"crypto/sha256"
	"fmt"
	"strings"
	"sync"
	"time"

	"github.com/zmap/zcrypto/tls"
	"github.com/zmap/zcrypto/x509"
	"verifmc/internal/ev"
	"verifmc/internal/fx"
	"verifmc/internal/tlsx"
)

type rsScen int

const (
	rsTrusted       rsScen = iota // trusted chain for srv.example, valid for 20 years
	rsShort                       // trusted chain for srv.example, leaf NotAfter = T0+24h
	rsUntrustedRoot               // chain to a root the client does not have
	rsWrongName                   // trusted chain, leaf names other.example only
	nRSScen
)

var rsNames = [...]string{"trusted", "short-lived", "untrusted-root", "wrong-name"}

type rcScen int

const (
	rcNone      rcScen = iota
	rcTrusted          // chain to the client root, valid for 20 years
	rcShort            // chain to the client root, leaf NotAfter = T0+24h
	rcUntrusted        // chain to a root that is not in the issue-time ClientCAs
	nRCScen
)

var rcNames = [...]string{"none", "trusted", "short-lived", "untrusted"}

// laterBy is how far both clocks are advanced for connection 2 when Later is set:
// past the short-lived leaves (T0+24h), far inside every ticket lifetime (7 days).
const laterBy = 48 * time.Hour

type rcfg struct {
	Vers  uint16   `json:"-"`
	Kex   kexClass `json:"-"`
	SScen rsScen   `json:"-"`
	Mode1 int      `json:"-"`
	CS1   rcScen   `json:"-"`
	Mode2 int      `json:"-"`
	CS2   rcScen   `json:"-"` // rcNone or rcTrusted: what the client holds for a full handshake in connection 2

	ISV1        bool `json:"issue_insecure_skip_verify"`
	ISV2        bool `json:"resume_insecure_skip_verify"`
	Name2Other  bool `json:"resume_server_name_is_other_example"`
	PoolChanged bool `json:"resume_client_cas_replaced"`
	Later       bool `json:"resume_clock_plus_48h"`

	VersS  string `json:"version"`
	KexS   string `json:"kex"`
	SScenS string `json:"server_scenario"`
	Mode1S string `json:"issue_client_auth"`
	CS1S   string `json:"issue_client_scenario"`
	Mode2S string `json:"resume_client_auth"`
	CS2S   string `json:"resume_client_scenario"`
}

func (g *rcfg) fill() {
	g.VersS, g.KexS, g.SScenS = versName(g.Vers), kexNames[g.Kex], rsNames[g.SScen]
	g.Mode1S, g.CS1S, g.Mode2S, g.CS2S = authNames[g.Mode1], rcNames[g.CS1], authNames[g.Mode2], rcNames[g.CS2]
}

func (g *rcfg) parse() error {
	find := func(names []string, s string) int {
		for i, n := range names {
			if n == s {
				return i
			}
		}
		return -1
	}
	g.Vers = 0
	for _, v := range versions {
		if versName(v) == g.VersS {
			g.Vers = v
		}
	}
	k, s := find(kexNames[:], g.KexS), find(rsNames[:], g.SScenS)
	m1, c1, m2, c2 := find(authNames[:], g.Mode1S), find(rcNames[:], g.CS1S), find(authNames[:], g.Mode2S), find(rcNames[:], g.CS2S)
	if g.Vers == 0 || k < 0 || s < 0 || m1 < 0 || c1 < 0 || m2 < 0 || c2 < 0 {
		return fmt.Errorf("unknown axis value in witness")
	}
	g.Kex, g.SScen, g.Mode1, g.CS1, g.Mode2, g.CS2 = kexClass(k), rsScen(s), m1, rcScen(c1), m2, rcScen(c2)
	return nil
}

func (g rcfg) issueKey() string {
	return fmt.Sprintf("v=%s kex=%s server=%s isv=%v auth=%s client=%s", versName(g.Vers), kexNames[g.Kex], rsNames[g.SScen], g.ISV1, authNames[g.Mode1], rcNames[g.CS1])
}

func (g rcfg) String() string {
	return fmt.Sprintf("issue{%s} resume{isv=%v name-other=%v auth=%s cas-replaced=%v client=%s later=%v}", g.issueKey(), g.ISV2, g.Name2Other, authNames[g.Mode2], g.PoolChanged, rcNames[g.CS2], g.Later)
}

// ---- the reference: labels only ----------------------------------------------------

func requiresCert(m tls.ClientAuthType) bool {
	return m == tls.RequireAnyClientCert || m == tls.RequireAndVerifyClientCert
}
func verifiesCert(m tls.ClientAuthType) bool {
	return m == tls.VerifyClientCertIfGiven || m == tls.RequireAndVerifyClientCert
}

// serverProblem: why the server's certificate is not acceptable to a verifying
// client configured with (name, clock); "" = acceptable.
func serverProblem(s rsScen, nameOther, later bool) string {
	switch s {
	case rsUntrustedRoot:
		return "chain does not lead to the configured roots"
	case rsShort:
		if later {
			return "leaf expired since the ticket was issued"
		}
	}
	if (s == rsWrongName) != nameOther {
		return "leaf does not name the configured ServerName"
	}
	return ""
}

// clientChainProblem: why a client chain does not verify under (pool, clock).
func clientChainProblem(cs rcScen, poolChanged, later bool) string {
	switch {
	case cs == rcUntrusted:
		// its root is the one the "replaced" pool holds: it verifies exactly when the pool was replaced
		if !poolChanged {
			return "chain does not lead to ClientCAs"
		}
		return ""
	case poolChanged:
		return "ClientCAs replaced since the ticket was issued"
	case cs == rcShort && later:
		return "leaf expired since the ticket was issued"
	}
	return ""
}

// fullHandshakeProblems: the clauses an ordinary handshake with these labels violates.
func fullHandshakeProblems(srvProblem string, isv bool, mode tls.ClientAuthType, cs rcScen, poolChanged, later bool) []string {
	var out []string
	if !isv && srvProblem != "" {
		out = append(out, "server-chain: "+srvProblem)
	}
	sent := mode != tls.NoClientCert && cs != rcNone
	if !sent {
		if requiresCert(mode) {
			out = append(out, "client-cert: missing but required")
		}
	} else if verifiesCert(mode) {
		if p := clientChainProblem(cs, poolChanged, later); p != "" {
			out = append(out, "client-chain: "+p)
		}
	}
	return out
}

// ---- running -------------------------------------------------------------------------

// oneCache is the harness' ClientSessionCache: Get hands out the injected session
// whatever the key (the library's own cache key is not what is under test), Put records.
type oneCache struct {
	mu      sync.Mutex
	inject  *tls.ClientSessionState
	puts    []*tls.ClientSessionState
	deleted int
}

func (c *oneCache) Get(string) (*tls.ClientSessionState, bool) {
	c.mu.Lock()
	defer c.mu.Unlock()
	return c.inject, c.inject != nil
}

func (c *oneCache) Put(_ string, s *tls.ClientSessionState) {
	c.mu.Lock()
	defer c.mu.Unlock()
	if s == nil {
		c.deleted++
		return
	}
	c.puts = append(c.puts, s)
}

var resumeTicketKey = sha256.Sum256([]byte("c27-resume-axis-ticket-key"))

func (g rcfg) configs(p *pki, phase int) (cc, sc *tls.Config, cache *oneCache) {
	fam := p.fam(g.Kex.rsaLeaf())
	seed := fmt.Sprintf("resume-axis-%d-", phase) + g.issueKey()
	isv, mode, cs, name, now, cas := g.ISV1, authModes[g.Mode1], g.CS1, serverName, tlsx.Now, p.croot
	if phase == 2 {
		seed = "resume-axis-2-" + g.String()
		isv, mode, cs = g.ISV2, authModes[g.Mode2], g.CS2
		if g.Name2Other {
			name = otherName
		}
		if g.Later {
			now = func() time.Time { return fx.T0.Add(laterBy) }
		}
		if g.PoolChanged {
			cas = p.ceroot
		}
	}
	cache = &oneCache{}
	cc = &tls.Config{
		Rand: tlsx.NewDetRand("c-" + seed), Time: now,
		MinVersion: g.Vers, MaxVersion: g.Vers,
		ServerName: name, RootCAs: p.pool(p.sroot),
		InsecureSkipVerify: isv, ClientSessionCache: cache,
	}
	sc = &tls.Config{
		Rand: tlsx.NewDetRand("s-" + seed), Time: now,
		MinVersion: g.Vers, MaxVersion: g.Vers,
		ClientAuth: mode, ClientCAs: p.pool(cas),
	}
	sc.SetSessionTicketKeys([][32]byte{resumeTicketKey})
	if !g.Kex.tls13() {
		suite := suiteFor(g.Vers, g.Kex)
		cc.CipherSuites, sc.CipherSuites = []uint16{suite}, []uint16{suite}
		cc.ForceSuites = true
	}
	sid := fam.rServer[g.SScen]
	sc.Certificates = []tls.Certificate{{Certificate: sid.chain, PrivateKey: sid.key, Leaf: sid.leaf}}
	if cs != rcNone {
		cid := fam.rClient[cs]
		ccert := tls.Certificate{Certificate: cid.chain, PrivateKey: cid.key, Leaf: cid.leaf}
		cc.GetClientCertificate = func(*tls.CertificateRequestInfo) (*tls.Certificate, error) { return &ccert, nil }
	}
	return
}

// issued is the outcome of connection 1 for one issue configuration (shared by all
// resume configurations of it; a ClientSessionState is read-only for the library).
type issued struct {
	once    sync.Once
	res     result
	session *tls.ClientSessionState
	ticket  bool
}

type resumeEngine struct {
	p      *pki
	mu     sync.Mutex
	issues map[string]*issued
}

func (e *resumeEngine) issue(c *ev.Ctx, g rcfg, st *evalStats) *issued {
	e.mu.Lock()
	is := e.issues[g.issueKey()]
	if is == nil {
		is = &issued{}
		e.issues[g.issueKey()] = is
	}
	e.mu.Unlock()
	is.once.Do(func() {
		cc, sc, cache := g.configs(e.p, 1)
		is.res, _ = execute(cc, sc, nil)
		st.runs++
		st.records += int64(is.res.Records)
		cache.mu.Lock()
		if n := len(cache.puts); n > 0 {
			is.session, is.ticket = cache.puts[n-1], true
		}
		cache.mu.Unlock()
	})
	return is
}

// wireResumed reads the handshake shape off the plaintext part of the server's
// flight: 1 = abbreviated (TLS <= 1.2: no Certificate message before the server's
// ChangeCipherSpec; TLS 1.3: pre_shared_key in ServerHello), 0 = full, -1 = unknown.
func wireResumed(s2c []byte) int {
	var hs []byte
	for _, r := range tlsx.ParseRecords(s2c) {
		if r.Type != recHandshake {
			break
		}
		hs = append(hs, r.Payload...)
	}
	sawHello, sawCert, psk, v13 := false, false, false, false
	for len(hs) >= 4 {
		n := int(hs[1])<<16 | int(hs[2])<<8 | int(hs[3])
		if len(hs) < 4+n {
			break
		}
		typ, body := hs[0], hs[4:4+n]
		hs = hs[4+n:]
		switch typ {
		case 2:
			sawHello = true
			// version(2) random(32) session_id<0..32> suite(2) compression(1) extensions<0..2^16-1>
			if len(body) < 35 {
				return -1
			}
			q := 35 + int(body[34])
			if len(body) < q+3 {
				return -1
			}
			q += 3
			if len(body) >= q+2 {
				ext := body[q+2:]
				for len(ext) >= 4 {
					t, l := int(ext[0])<<8|int(ext[1]), int(ext[2])<<8|int(ext[3])
					if len(ext) < 4+l {
						break
					}
					if t == 41 {
						psk = true
					}
					if t == 43 {
						v13 = true
					}
					ext = ext[4+l:]
				}
			}
		case hsCertificate:
			sawCert = true
		}
	}
	switch {
	case !sawHello:
		return -1
	case v13 && psk, !v13 && !sawCert:
		return 1
	}
	return 0
}

type rwitness struct {
	Axis     string   `json:"axis"`
	Config   rcfg     `json:"config"`
	Expected string   `json:"expected"`
	Problems []string `json:"full_handshake_problems,omitempty"`
	Stored   string   `json:"client_certificate_in_issued_session"`
	Issue    result   `json:"issue_run"`
	Run1     result   `json:"resume_run1"`
	Run2     *result  `json:"resume_run2,omitempty"`
	Resumed  string   `json:"resumed(client/server/wire)"`
	Detail   string   `json:"detail,omitempty"`
}

// evaluateResume runs one point of the resumption axis and applies the oracle.
func (e *resumeEngine) evaluate(c *ev.Ctx, g rcfg, st *evalStats) {
	g.fill()
	c.Evaluations.Add(1)
	mode1, mode2 := authModes[g.Mode1], authModes[g.Mode2]

	// ---- connection 1
	is := e.issue(c, g, st)
	w := rwitness{Axis: "resume", Config: g, Issue: is.res}
	if !is.res.Complete {
		c.Violation("failed-but-must-complete: issue handshake of the resumption axis: "+outcomeClass(is.res), w)
		return
	}
	if !is.ticket {
		c.Broken("resumption axis: connection 1 completed but the client stored no session: %s", g.issueKey())
	}
	stored := rcNone
	if mode1 != tls.NoClientCert {
		stored = g.CS1
	}
	w.Stored = rcNames[stored]

	// ---- connection 2, twice
	var rs [2]result
	var xs [2]extras
	for i := range rs {
		cc, sc, cache := g.configs(e.p, 2)
		cache.inject = is.session
		rs[i], xs[i] = execute(cc, sc, nil)
		st.runs++
		st.records += int64(rs[i].Records)
	}
	r, x := rs[0], xs[0]
	w.Run1, w.Run2 = r, &rs[1]
	if ok, what := sameOutcome(rs[0], rs[1]); ok {
		st.identical += 2
	} else if what == "verdict" {
		c.Violation("nondeterministic verdict for one configuration (two runs disagree)", w)
	} else {
		st.hist["determinism: "+what+" differ between two runs"]++
		c.Incomplete("two runs of the same configuration differed in " + what + ": " + g.String())
	}
	if r.Panic != "" {
		c.Violation("panic during handshake: "+ev.MsgClass(r.Panic), w)
		return
	}
	wire := wireResumed(x.s2c)
	w.Resumed = fmt.Sprintf("%v/%v/%d", x.cRes, x.sRes, wire)
	resumed := x.cRes || x.sRes || wire == 1

	// ---- reference
	srvProblem := serverProblem(g.SScen, g.Name2Other, g.Later)
	problems := fullHandshakeProblems(srvProblem, g.ISV2, mode2, g.CS2, g.PoolChanged, g.Later)
	w.Problems = problems
	storedProblem := ""
	if stored != rcNone {
		storedProblem = clientChainProblem(stored, g.PoolChanged, g.Later)
	}
	// situation of the stored session with respect to the resume-time client-auth configuration
	var cli string
	switch {
	case stored == rcNone && requiresCert(mode2):
		cli = "session without client certificate, server REQUIRES one"
	case stored == rcNone:
		cli = "session without client certificate, none required"
	case mode2 == tls.NoClientCert:
		cli = "session with client certificate, server asks for none"
	case verifiesCert(mode2) && storedProblem != "":
		cli = "stored client chain does NOT verify now"
	default:
		cli = "stored client certificate satisfies the server"
	}
	srv := "server certificate acceptable now"
	if !g.ISV2 && srvProblem != "" {
		srv = "server certificate NOT acceptable now"
	}
	out := "failed"
	switch {
	case r.Complete && resumed:
		out = "resumed"
	case r.Complete:
		out = "full handshake"
	}
	st.hist["resume axis: "+srv+"; "+cli+" -> "+out]++

	if r.Complete {
		if x.cRes != x.sRes || (wire >= 0 && (wire == 1) != x.sRes) {
			c.Violation("resumption axis: client, server and the handshake shape on the wire disagree on whether the session was resumed", w)
		}
		// (1) the client's side of the statement, whatever the path
		if !g.ISV2 && srvProblem != "" {
			w.Expected = "must not complete"
			c.Violation("resumption bypass: client completed although the server certificate is not acceptable at resumption time ("+srvProblem+"), "+out, w)
			return
		}
		if resumed {
			// (2) the server's side on the abbreviated path
			w.Expected = "must not resume"
			if requiresCert(mode2) && stored == rcNone {
				c.Violation("resumption bypass: RESUMED a session that has no client certificate on a server that requires one", w)
				return
			}
			if verifiesCert(mode2) && storedProblem != "" {
				c.Violation("resumption bypass: RESUMED although the session's client chain does not verify under the resume-time configuration ("+storedProblem+")", w)
				return
			}
			if requiresCert(mode2) {
				want := e.p.fam(g.Kex.rsaLeaf()).rClient[stored].chain
				if len(x.srvPeer) == 0 || !bytes.Equal(x.srvPeer[0], want[0]) {
					w.Detail = fmt.Sprintf("server sees %d peer certificates", len(x.srvPeer))
					c.Violation("resumption bypass: the resumed connection of a server requiring a client certificate does not carry the certificate proven in the original session", w)
				}
			}
			return
		}
		// (3) full handshake: the ordinary truth table
		if len(problems) > 0 {
			w.Expected = "must not complete"
			c.Violation("completed-but-must-fail (ticket declined, full handshake): "+causeClasses(problems), w)
		}
		return
	}
	// ---- not complete
	switch {
	case len(problems) > 0:
		// forbidden anyway
	case cli == "stored client chain does NOT verify now":
		// the client presented (by reference) a certificate that is expired / untrusted now:
		// "expired or untrusted certificates make the handshake fail"
	default:
		w.Expected = "must complete"
		c.Violation("failed-but-must-complete with a ticket in hand ("+cli+"): "+strings.SplitN(outcomeClass(r), ":", 2)[0], w)
	}
}

// resumePoints enumerates the axis. full = the whole product; otherwise the two
// covering slices: the server-identity dimensions with client authentication off,
// and the client-authentication dimensions with a trusted, long-lived server.
func resumePoints(full bool, kexes func(v uint16) []kexClass) (points []rcfg, pruned int) {
	for _, v := range versions {
		for _, k := range kexes(v) {
			for s := rsScen(0); s < nRSScen; s++ {
				for _, isv1 := range []bool{false, true} {
					for m1 := range authModes {
						for c1 := rcScen(0); c1 < nRCScen; c1++ {
							if m1 == 0 && c1 != rcNone {
								continue // never requested in connection 1: the same point as "none"
							}
							// connection 1 has to complete for a ticket to exist
							if len(fullHandshakeProblems(serverProblem(s, false, false), isv1, authModes[m1], c1, false, false)) > 0 {
								pruned++
								continue
							}
							for _, isv2 := range []bool{false, true} {
								for _, other := range []bool{false, true} {
									for m2 := range authModes {
										for _, pool := range []bool{false, true} {
											for _, c2 := range []rcScen{rcNone, rcTrusted} {
												for _, later := range []bool{false, true} {
													g := rcfg{Vers: v, Kex: k, SScen: s, ISV1: isv1, ISV2: isv2, Name2Other: other,
														Mode1: m1, CS1: c1, Mode2: m2, PoolChanged: pool, CS2: c2, Later: later}
													srvDefault := s == rsTrusted && !isv1 && !isv2 && !other
													cliDefault := m1 == 0 && c1 == rcNone && m2 == 0 && !pool && c2 == rcNone
													if full || srvDefault || cliDefault {
														points = append(points, g)
													}
												}
											}
										}
									}
								}
							}
						}
					}
				}
			}
		}
	}
	return
}

var _ = x509.NewCertPool
