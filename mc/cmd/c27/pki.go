package main

import (
	"crypto"
	"crypto/ecdsa"
	"crypto/ed25519"
	stdrsa "crypto/rsa"
	stdx509 "crypto/x509"
	"encoding/hex"
	"fmt"
	"io"
	"math/big"
	"net"
	"time"

	zrsa "github.com/zmap/zcrypto/rsa"
	"github.com/zmap/zcrypto/x509"
	"verifmc/internal/fx"
)

const serverName = "srv.example"
const otherName = "other.example"

// the IP-address scenarios: the client is configured with ServerName ipName.
const (
	ipName  = "192.0.2.7"
	ipOther = "192.0.2.8"
)

// serverNameFor is the ServerName the client is configured with in a scenario.
func serverNameFor(s sScen) string {
	if s == sIPMatch || s == sIPMismatch {
		return ipName
	}
	return serverName
}

// ident is what one endpoint is configured with in a scenario.
type ident struct {
	chain [][]byte // leaf first, root excluded
	key   crypto.Signer
	leaf  *x509.Certificate
}

// family holds every scenario for one leaf key type.
type family struct {
	server     [nSScen]ident
	client     [nCScen]ident
	substChain [][]byte // the other trusted leaf (same name, other key) + intermediate
	substLeaf  *x509.Certificate

	// resumption axis (resume.go)
	rServer [nRSScen]ident
	rClient [nRCScen]ident // index rcNone unused
}

type pki struct {
	sroot, croot *fx.Cert
	// second configured roots (in RootCAs / ClientCAs beside the first) that expired one hour before Config.Time
	srootOld, crootOld *fx.Cert
	ceroot       *fx.Cert // the root of the untrusted client hierarchy (the "changed ClientCAs" pool of resume.go)
	rsa, ec      family
	keys         map[string]crypto.Signer
}

func (p *pki) fam(rsaLeaf bool) *family {
	if rsaLeaf {
		return &p.rsa
	}
	return &p.ec
}

// pool returns a fresh pool with the given roots (pools are not shared between goroutines).
func (p *pki) pool(roots ...*fx.Cert) *x509.CertPool {
	cp := x509.NewCertPool()
	for _, r := range roots {
		cp.AddCert(r.X)
	}
	return cp
}

func (p *pki) key(name string) crypto.Signer {
	if k, ok := p.keys[name]; ok {
		return k
	}
	k := fx.Signer(name)
	p.keys[name] = k
	return k
}

func buildPKI() *pki {
	p := &pki{keys: map[string]crypto.Signer{}}
	caUse := x509.KeyUsageCertSign | x509.KeyUsageDigitalSignature
	ca := func(cn, key string, parent *fx.Cert, serial int64) *fx.Cert {
		// CA certificates are long-lived so that the validity window of the LEAF alone
		// decides the time-dependent scenarios.
		return fx.MustMint(fx.CertSpec{CN: cn, Key: key, IsCA: true, KeyUsage: caUse, Serial: serial,
			NotBefore: fx.T0.Add(-24 * time.Hour), NotAfter: fx.T0.Add(20 * 365 * 24 * time.Hour)}, parent)
	}
	// server side: root <- intermediate <- leaf ; a second, untrusted hierarchy with other names and keys
	p.sroot = ca("C27 server root", "c27-sroot", nil, 1)
	sint := ca("C27 server intermediate", "c27-sint", p.sroot, 2)
	// an intermediate of the trusted root that expired one hour before Config.Time
	sintOld := fx.MustMint(fx.CertSpec{CN: "C27 server intermediate (old)", Key: "c27-sint-old", IsCA: true, KeyUsage: caUse, Serial: 3,
		NotBefore: fx.T0.Add(-48 * time.Hour), NotAfter: fx.T0.Add(-time.Hour)}, p.sroot)
	oldRoot := func(cn, key string) *fx.Cert {
		return fx.MustMint(fx.CertSpec{CN: cn, Key: key, IsCA: true, KeyUsage: caUse, Serial: 4,
			NotBefore: fx.T0.Add(-48 * time.Hour), NotAfter: fx.T0.Add(-time.Hour)}, nil)
	}
	p.srootOld = oldRoot("C27 server root (old)", "c27-sroot-old")
	sintUnderOld := ca("C27 server intermediate under old root", "c27-sint-uo", p.srootOld, 5)
	p.crootOld = oldRoot("C27 client root (old)", "c27-croot-old")
	cintUnderOld := ca("C27 client intermediate under old root", "c27-cint-uo", p.crootOld, 5)
	eroot := ca("C27 unknown root", "c27-eroot", nil, 1)
	eint := ca("C27 unknown intermediate", "c27-eint", eroot, 2)
	// client side
	p.croot = ca("C27 client root", "c27-croot", nil, 1)
	cint := ca("C27 client intermediate", "c27-cint", p.croot, 2)
	ceroot := ca("C27 unknown client root", "c27-ceroot", nil, 1)
	p.ceroot = ceroot
	ceint := ca("C27 unknown client intermediate", "c27-ceint", ceroot, 2)

	build := func(f *family, keyA, keyB, ckeyA, ckeyB string) {
		sleaf := func(key string, serial int64, parent *fx.Cert, mod func(*fx.CertSpec)) *fx.Cert {
			sp := fx.CertSpec{CN: serverName, Key: key, Serial: serial, DNS: []string{serverName},
				EKU:      []x509.ExtKeyUsage{x509.ExtKeyUsageServerAuth},
				KeyUsage: x509.KeyUsageDigitalSignature | x509.KeyUsageKeyEncipherment}
			if mod != nil {
				mod(&sp)
			}
			return fx.MustMint(sp, parent)
		}
		mk := func(leaf *fx.Cert, inter *fx.Cert, key string) ident {
			id := ident{chain: [][]byte{leaf.DER}, key: p.key(key), leaf: leaf.X}
			if inter != nil {
				id.chain = append(id.chain, inter.DER)
			}
			return id
		}
		good := sleaf(keyA, 16, sint, nil)
		f.server[sTrusted] = mk(good, sint, keyA)
		f.server[sUntrustedRoot] = mk(sleaf(keyA, 17, eint, nil), eint, keyA)
		f.server[sExpired] = mk(sleaf(keyA, 18, sint, func(s *fx.CertSpec) {
			s.NotBefore, s.NotAfter = fx.T0.Add(-48*time.Hour), fx.T0.Add(-time.Hour)
		}), sint, keyA)
		// valid for twenty years from one hour after Config.Time: valid on any wall clock
		// this check will run under, never at the configured time.
		f.server[sNotYetValid] = mk(sleaf(keyA, 19, sint, func(s *fx.CertSpec) {
			s.NotBefore, s.NotAfter = fx.T0.Add(time.Hour), fx.T0.Add(20*365*24*time.Hour)
		}), sint, keyA)
		f.server[sWrongName] = mk(sleaf(keyA, 20, sint, func(s *fx.CertSpec) {
			s.CN, s.DNS = "other.example", []string{"other.example"}
		}), sint, keyA)
		f.server[sWrongKey] = mk(good, sint, keyB)      // genuine chain, but the peer holds another key
		f.server[sSigCorrupt] = mk(good, sint, keyA)    // genuine peer; its signature is damaged on the way
		f.server[sNoIntermediate] = mk(good, nil, keyA) // leaf only; the client knows only the root
		f.server[sKeySubst] = mk(good, sint, keyA)      // genuine peer; the client is shown substLeaf instead
		f.server[sWrongEKU] = mk(sleaf(keyA, 22, sint, func(s *fx.CertSpec) {
			s.EKU = []x509.ExtKeyUsage{x509.ExtKeyUsageClientAuth}
		}), sint, keyA)
		f.server[sExpiredInterm] = mk(sleaf(keyA, 23, sintOld, nil), sintOld, keyA)
		f.server[sExpiredRoot] = mk(sleaf(keyA, 26, sintUnderOld, nil), sintUnderOld, keyA)
		f.server[sIPMatch] = mk(sleaf(keyA, 24, sint, func(s *fx.CertSpec) {
			s.CN, s.DNS = "c27 ip host", nil
			s.Tweak = func(t *x509.Certificate) { t.IPAddresses = []net.IP{net.ParseIP(ipName).To4()} }
		}), sint, keyA)
		// the configured address appears as text in CN and as a dNSName, the only iPAddress SAN is another one:
		// "IP addresses are matched against iPAddress SANs only" (RFC 6125 B.2)
		f.server[sIPMismatch] = mk(sleaf(keyA, 25, sint, func(s *fx.CertSpec) {
			s.CN, s.DNS = ipName, []string{ipName, serverName}
			s.Tweak = func(t *x509.Certificate) { t.IPAddresses = []net.IP{net.ParseIP(ipOther).To4()} }
		}), sint, keyA)
		// resumption axis (resume.go): long-lived and short-lived (NotAfter = T0+24h) twins of the good leaf
		long := func(s *fx.CertSpec) { s.NotAfter = fx.T0.Add(20 * 365 * 24 * time.Hour) }
		f.rServer[rsTrusted] = mk(sleaf(keyA, 26, sint, long), sint, keyA)
		f.rServer[rsShort] = mk(good, sint, keyA)
		f.rServer[rsUntrustedRoot] = mk(sleaf(keyA, 27, eint, long), eint, keyA)
		f.rServer[rsWrongName] = mk(sleaf(keyA, 28, sint, func(s *fx.CertSpec) {
			long(s)
			s.CN, s.DNS = otherName, []string{otherName}
		}), sint, keyA)
		subst := sleaf(keyB, 21, sint, nil)
		f.substChain, f.substLeaf = [][]byte{subst.DER, sint.DER}, subst.X
		if len(subst.DER) != len(good.DER) {
			panic(fmt.Sprintf("substitute leaf has a different length (%d vs %d): in-place replacement impossible", len(subst.DER), len(good.DER)))
		}

		cleaf := func(key string, serial int64, parent *fx.Cert, mod func(*fx.CertSpec)) *fx.Cert {
			sp := fx.CertSpec{CN: "c27 client", Key: key, Serial: serial,
				EKU:      []x509.ExtKeyUsage{x509.ExtKeyUsageClientAuth},
				KeyUsage: x509.KeyUsageDigitalSignature}
			if mod != nil {
				mod(&sp)
			}
			return fx.MustMint(sp, parent)
		}
		cgood := cleaf(ckeyA, 32, cint, nil)
		f.client[cTrusted] = mk(cgood, cint, ckeyA)
		f.client[cUntrusted] = mk(cleaf(ckeyA, 33, ceint, nil), ceint, ckeyA)
		f.client[cExpired] = mk(cleaf(ckeyA, 34, cint, func(s *fx.CertSpec) {
			s.NotBefore, s.NotAfter = fx.T0.Add(-48*time.Hour), fx.T0.Add(-time.Hour)
		}), cint, ckeyA)
		f.client[cWrongKey] = mk(cgood, cint, ckeyB)
		f.client[cCVCorrupt] = mk(cgood, cint, ckeyA)
		f.client[cWrongEKU] = mk(cleaf(ckeyA, 35, cint, func(s *fx.CertSpec) {
			s.EKU = []x509.ExtKeyUsage{x509.ExtKeyUsageServerAuth}
		}), cint, ckeyA)
		f.client[cExpiredRoot] = mk(cleaf(ckeyA, 38, cintUnderOld, nil), cintUnderOld, ckeyA)
		clong := func(s *fx.CertSpec) { s.NotAfter = fx.T0.Add(20 * 365 * 24 * time.Hour) }
		f.rClient[rcTrusted] = mk(cleaf(ckeyA, 36, cint, clong), cint, ckeyA)
		f.rClient[rcShort] = mk(cgood, cint, ckeyA)
		f.rClient[rcUntrusted] = mk(cleaf(ckeyA, 37, ceint, clong), ceint, ckeyA)
	}
	build(&p.rsa, "rsa2048", "rsa2048b", "rsa2048b", "rsa2048")
	build(&p.ec, "p256", "p256b", "p256b", "p256")
	return p
}

// selfCheck confirms the scenario labels used by the oracle with an independent
// verifier (Go's crypto/x509), so that a fixture mistake cannot turn into a
// wrong expectation.
func (p *pki) selfCheck() error {
	std := func(der []byte) (*stdx509.Certificate, error) { return stdx509.ParseCertificate(der) }
	verify := func(chain [][]byte, roots []*fx.Cert, dns string, eku stdx509.ExtKeyUsage) error {
		leaf, err := std(chain[0])
		if err != nil {
			return err
		}
		opts := stdx509.VerifyOptions{Roots: stdx509.NewCertPool(), Intermediates: stdx509.NewCertPool(),
			DNSName: dns, CurrentTime: fx.T0, KeyUsages: []stdx509.ExtKeyUsage{eku}}
		for _, root := range roots {
			r, err := std(root.DER)
			if err != nil {
				return err
			}
			opts.Roots.AddCert(r)
		}
		for _, d := range chain[1:] {
			ic, err := std(d)
			if err != nil {
				return err
			}
			opts.Intermediates.AddCert(ic)
		}
		_, err = leaf.Verify(opts)
		return err
	}
	for name, f := range map[string]*family{"rsa": &p.rsa, "ec": &p.ec} {
		for s := sScen(0); s < nSScen; s++ {
			shown := f.server[s].chain
			if s == sKeySubst {
				shown = f.substChain
			}
			err := verify(shown, []*fx.Cert{p.sroot, p.srootOld}, serverNameFor(s), stdx509.ExtKeyUsageServerAuth)
			if (err == nil) != serverChainVerifies(s) {
				return fmt.Errorf("%s server scenario %s: label chainVerifies=%v, crypto/x509 says %v", name, sScenNames[s], serverChainVerifies(s), err)
			}
			// possession label: the configured key matches the shown leaf's key?
			leaf, _ := std(shown[0])
			same := pubEqual(leaf.PublicKey, f.server[s].key.Public())
			want := s != sWrongKey && s != sKeySubst
			if same != want {
				return fmt.Errorf("%s server scenario %s: key/leaf match=%v, want %v", name, sScenNames[s], same, want)
			}
		}
		for cs := cScen(1); cs < nCScen; cs++ {
			err := verify(f.client[cs].chain, []*fx.Cert{p.croot, p.crootOld}, "", stdx509.ExtKeyUsageClientAuth)
			if (err == nil) != clientChainVerifies(cs) {
				return fmt.Errorf("%s client scenario %s: label chainVerifies=%v, crypto/x509 says %v", name, cScenNames[cs], clientChainVerifies(cs), err)
			}
			leaf, _ := std(f.client[cs].chain[0])
			if same := pubEqual(leaf.PublicKey, f.client[cs].key.Public()); same != (cs != cWrongKey) {
				return fmt.Errorf("%s client scenario %s: key/leaf match=%v", name, cScenNames[cs], same)
			}
		}
	}
	return nil
}

// pubEqual compares a crypto/x509-parsed public key with a (zcrypto or std) key.
func pubEqual(a, b crypto.PublicKey) bool { return keyID(a) == keyID(b) && keyID(a) != "" }

func keyID(k crypto.PublicKey) string {
	switch t := k.(type) {
	case *stdrsa.PublicKey:
		return "rsa:" + t.N.Text(16) + ":" + big.NewInt(int64(t.E)).Text(16)
	case *zrsa.PublicKey:
		return "rsa:" + t.N.Text(16) + ":" + t.E.Text(16)
	case *ecdsa.PublicKey:
		return "ec:" + t.X.Text(16) + ":" + t.Y.Text(16)
	case ed25519.PublicKey:
		return "ed:" + hex.EncodeToString(t)
	}
	return ""
}

// flipSigner is a crypto.Signer whose signatures arrive with one byte changed
// (the model of an in-flight corruption inside an encrypted flight).
type flipSigner struct {
	inner   crypto.Signer
	pos     int // byte index, -1 = middle
	flipped *bool
	sigLen  *int
}

func (f *flipSigner) Public() crypto.PublicKey { return f.inner.Public() }

func (f *flipSigner) Sign(r io.Reader, digest []byte, opts crypto.SignerOpts) ([]byte, error) {
	sig, err := f.inner.Sign(r, digest, opts)
	if err != nil || len(sig) == 0 {
		return sig, err
	}
	sig = append([]byte(nil), sig...)
	k := f.pos
	if k < 0 {
		k = len(sig) / 2
	}
	if k >= len(sig) {
		k = len(sig) - 1
	}
	sig[k] ^= 0x01
	*f.flipped = true
	*f.sigLen = len(sig)
	return sig, nil
}
