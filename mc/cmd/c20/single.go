package main

// Fresh-process re-runs. A "single" child is started for ONE mode, sets the
// mode switch once, evaluates a small batch of (target, input) pairs and
// returns, per pair, the verdict and the full field dump of the decoded
// value. The parent runs every candidate difference again in two such
// children (strict / permissive) and derives the witness from the two dumps:
// the first differing field path with both values. Nothing of the streaming
// workers' state (caches, interned classes, reused buffers) is shared.

import (
	"bytes"
	"context"
	"encoding/hex"
	"encoding/json"
	"fmt"
	"os"
	"os/exec"
	"strings"
	"time"

	zasn1 "github.com/zmap/zcrypto/encoding/asn1"
)

type singleItem struct {
	Target   string `json:"target"`
	InputHex string `json:"input_hex"`
}

type singleReq struct {
	Mode  string       `json:"mode"`
	Items []singleItem `json:"items"`
}

type singleOut struct {
	OK     bool       `json:"ok"`
	Err    string     `json:"err,omitempty"`
	Class  string     `json:"class,omitempty"`
	Rest   int        `json:"rest"`
	Digest string     `json:"digest,omitempty"`
	Fields []fieldSum `json:"fields,omitempty"`
	Lines  []dumpLine `json:"lines,omitempty"`
}

func singleMain() {
	var req singleReq
	if err := json.NewDecoder(os.Stdin).Decode(&req); err != nil {
		fmt.Fprintln(os.Stderr, "c20 single: bad request:", err)
		os.Exit(4)
	}
	if req.Mode != "strict" && req.Mode != "permissive" {
		fmt.Fprintln(os.Stderr, "c20 single: bad mode")
		os.Exit(4)
	}
	zasn1.AllowPermissiveParsing = req.Mode == "permissive" // set once, before any parsing
	buildTargets()
	out := make([]singleOut, len(req.Items))
	for i, it := range req.Items {
		ti, ok := targetByID[it.Target]
		if !ok {
			fmt.Fprintln(os.Stderr, "c20 single: unknown target", it.Target)
			os.Exit(4)
		}
		in, err := hex.DecodeString(it.InputHex)
		if err != nil {
			fmt.Fprintln(os.Stderr, "c20 single: bad hex")
			os.Exit(4)
		}
		wk := &walker{dump: true}
		okv, rest, dg, e, class := evalTarget(&targets[ti], in, wk)
		o := singleOut{OK: okv, Rest: rest}
		if okv {
			o.Digest = hex.EncodeToString(dg[:])
			o.Lines = append([]dumpLine(nil), wk.lines...)
			o.Fields = append([]fieldSum(nil), wk.fields...)
		} else {
			if e != nil {
				o.Err = e.Error()
				if class == "" {
					class = errClass(e)
				}
			}
			o.Class = class
		}
		out[i] = o
	}
	json.NewEncoder(os.Stdout).Encode(out)
}

func runSingle(mode string, items []singleItem, limit time.Duration) ([]singleOut, error) {
	ctx, cancel := context.WithTimeout(context.Background(), limit)
	defer cancel()
	cmd := exec.CommandContext(ctx, os.Args[0])
	cmd.Env = append(os.Environ(), "C20_SINGLE=1", "GOMAXPROCS=2", "GOTRACEBACK=single")
	req, _ := json.Marshal(singleReq{Mode: mode, Items: items})
	cmd.Stdin = bytes.NewReader(req)
	var out, errb bytes.Buffer
	cmd.Stdout = &out
	cmd.Stderr = &errb
	if err := cmd.Run(); err != nil {
		msg := errb.String()
		if len(msg) > 600 {
			msg = msg[:600]
		}
		return nil, fmt.Errorf("%v: %s", err, msg)
	}
	var res []singleOut
	if err := json.Unmarshal(out.Bytes(), &res); err != nil {
		return nil, err
	}
	if len(res) != len(items) {
		return nil, fmt.Errorf("single child returned %d results for %d items", len(res), len(items))
	}
	return res, nil
}

type fieldDiff struct {
	Path       string `json:"path"`
	Strict     string `json:"strict"`
	Permissive string `json:"permissive"`
}

// firstDiff returns the first position at which two dumps differ.
func firstDiff(a, b []dumpLine) (fieldDiff, bool) {
	n := len(a)
	if len(b) < n {
		n = len(b)
	}
	for i := 0; i < n; i++ {
		if a[i] != b[i] {
			if a[i].Path == b[i].Path {
				return fieldDiff{Path: a[i].Path, Strict: a[i].Val, Permissive: b[i].Val}, true
			}
			return fieldDiff{Path: a[i].Path, Strict: a[i].Path + " = " + a[i].Val, Permissive: "(next element is) " + b[i].Path + " = " + b[i].Val}, true
		}
	}
	if len(a) > n {
		return fieldDiff{Path: a[n].Path, Strict: a[n].Val, Permissive: "(dump ends)"}, true
	}
	if len(b) > n {
		return fieldDiff{Path: b[n].Path, Strict: "(dump ends)", Permissive: b[n].Val}, true
	}
	return fieldDiff{}, false
}

// sigTarget folds entry points that share their decoder into one signature
// name (the witness names the concrete entry point): ParseCertificate and
// ParseTBSCertificate share parseCertificate; the number of bytes consumed by
// asn1.Unmarshal does not depend on the Go type decoded into.
func sigTarget(target, kind string) string {
	if target == "x509.ParseCertificate" || target == "x509.ParseTBSCertificate" {
		return "x509.Parse[TBS]Certificate"
	}
	if kind == "rest" && strings.HasPrefix(target, "asn1.Unmarshal(") {
		return "asn1.Unmarshal"
	}
	return target
}

// fieldClass names the first top-level field in which two struct results
// differ and the direction of the difference. "permissive mode knows MORE than
// strict mode" (strict mode swallowed an inner error) and "permissive mode LOST
// or CHANGED something strict mode decoded" are different signatures.
func fieldClass(names []string, s, p []fieldSum) string {
	if len(names) == 0 || len(s) != len(names) || len(p) != len(names) {
		return "(decoded value)"
	}
	for i := range names {
		if s[i] == p[i] {
			continue
		}
		switch {
		case s[i].Zero && !p[i].Zero:
			return "at ." + names[i] + " (strict: zero value, permissive: set)"
		case !s[i].Zero && p[i].Zero:
			return "at ." + names[i] + " (strict: set, permissive: zero value)"
		}
		return "at ." + names[i] + " (both set, values differ)"
	}
	return "(no top-level field summary differs: 32-bit hash collision)"
}

// signature is THE classification of a violation; the parent applies it to the
// streamed records of every difference, the fresh-process re-run applies it
// again to its own results.
func signature(target, kind, permClass string, names []string, s, p []fieldSum) string {
	t := sigTarget(target, kind)
	switch kind {
	case "fail":
		return fmt.Sprintf("%s: strict ok, permissive fails (%s)", t, permClass)
	case "rest":
		return fmt.Sprintf("%s: strict ok, permissive ok but consumed a different number of bytes", t)
	}
	return fmt.Sprintf("%s: strict ok, permissive differs %s", t, fieldClass(names, s, p))
}

// verdict applies the oracle of the property to one pair of fresh results.
// sig == "" means the pair conforms.
func verdict(target string, s, p singleOut) (sig string, diff *fieldDiff) {
	if !s.OK {
		return "", nil // the statement only speaks about inputs strict mode accepts
	}
	names := targets[targetByID[target]].fields
	if !p.OK {
		return signature(target, "fail", p.Class, nil, nil, nil), nil
	}
	if s.Rest != p.Rest {
		return signature(target, "rest", "", nil, nil, nil), &fieldDiff{Path: "len(rest)", Strict: fmt.Sprint(s.Rest), Permissive: fmt.Sprint(p.Rest)}
	}
	if s.Digest != p.Digest {
		if d, ok := firstDiff(s.Lines, p.Lines); ok {
			diff = &d
		}
		return signature(target, "digest", "", names, s.Fields, p.Fields), diff
	}
	return "", nil
}
