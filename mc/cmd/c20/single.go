package main

// Fresh-process re-runs. A "single" child is started for ONE mode, sets the
// mode switch once, evaluates a small batch of (target, input) pairs and
// returns, per pair, the verdict and the full field dump of the decoded
// value. The parent runs every candidate difference again in two such
// children (strict / permissive) and derives the witness from the two dumps:
// the first differing field path with both values. Nothing of the streaming
// workers' state (caches, interned classes, reused buffers) is shared.

import (
	"bytes"
	"context"
	"encoding/hex"
	"encoding/json"
	"fmt"
	"os"
	"os/exec"
	"regexp"
	"strings"
	"time"

	zasn1 "github.com/zmap/zcrypto/encoding/asn1"
)

type singleItem struct {
	Target   string `json:"target"`
	InputHex string `json:"input_hex"`
}

type singleReq struct {
	Mode  string       `json:"mode"`
	Items []singleItem `json:"items"`
}

type singleOut struct {
	OK     bool       `json:"ok"`
	Err    string     `json:"err,omitempty"`
	Class  string     `json:"class,omitempty"`
	Rest   int        `json:"rest"`
	Digest string     `json:"digest,omitempty"`
	Lines  []dumpLine `json:"lines,omitempty"`
}

func singleMain() {
	var req singleReq
	if err := json.NewDecoder(os.Stdin).Decode(&req); err != nil {
		fmt.Fprintln(os.Stderr, "c20 single: bad request:", err)
		os.Exit(4)
	}
	if req.Mode != "strict" && req.Mode != "permissive" {
		fmt.Fprintln(os.Stderr, "c20 single: bad mode")
		os.Exit(4)
	}
	zasn1.AllowPermissiveParsing = req.Mode == "permissive" // set once, before any parsing
	buildTargets()
	out := make([]singleOut, len(req.Items))
	for i, it := range req.Items {
		ti, ok := targetByID[it.Target]
		if !ok {
			fmt.Fprintln(os.Stderr, "c20 single: unknown target", it.Target)
			os.Exit(4)
		}
		in, err := hex.DecodeString(it.InputHex)
		if err != nil {
			fmt.Fprintln(os.Stderr, "c20 single: bad hex")
			os.Exit(4)
		}
		wk := &walker{dump: true}
		okv, rest, dg, e, class := evalTarget(&targets[ti], in, wk)
		o := singleOut{OK: okv, Rest: rest}
		if okv {
			o.Digest = hex.EncodeToString(dg[:])
			o.Lines = append([]dumpLine(nil), wk.lines...)
		} else {
			if e != nil {
				o.Err = e.Error()
				if class == "" {
					class = errClass(e)
				}
			}
			o.Class = class
		}
		out[i] = o
	}
	json.NewEncoder(os.Stdout).Encode(out)
}

func runSingle(mode string, items []singleItem, limit time.Duration) ([]singleOut, error) {
	ctx, cancel := context.WithTimeout(context.Background(), limit)
	defer cancel()
	cmd := exec.CommandContext(ctx, os.Args[0])
	cmd.Env = append(os.Environ(), "C20_SINGLE=1", "GOMAXPROCS=2", "GOTRACEBACK=single")
	req, _ := json.Marshal(singleReq{Mode: mode, Items: items})
	cmd.Stdin = bytes.NewReader(req)
	var out, errb bytes.Buffer
	cmd.Stdout = &out
	cmd.Stderr = &errb
	if err := cmd.Run(); err != nil {
		msg := errb.String()
		if len(msg) > 600 {
			msg = msg[:600]
		}
		return nil, fmt.Errorf("%v: %s", err, msg)
	}
	var res []singleOut
	if err := json.Unmarshal(out.Bytes(), &res); err != nil {
		return nil, err
	}
	if len(res) != len(items) {
		return nil, fmt.Errorf("single child returned %d results for %d items", len(res), len(items))
	}
	return res, nil
}

type fieldDiff struct {
	Path       string `json:"path"`
	Strict     string `json:"strict"`
	Permissive string `json:"permissive"`
}

// firstDiff returns the first position at which two dumps differ.
func firstDiff(a, b []dumpLine) (fieldDiff, bool) {
	n := len(a)
	if len(b) < n {
		n = len(b)
	}
	for i := 0; i < n; i++ {
		if a[i] != b[i] {
			if a[i].Path == b[i].Path {
				return fieldDiff{Path: a[i].Path, Strict: a[i].Val, Permissive: b[i].Val}, true
			}
			return fieldDiff{Path: a[i].Path, Strict: a[i].Path + " = " + a[i].Val, Permissive: "(next element is) " + b[i].Path + " = " + b[i].Val}, true
		}
	}
	if len(a) > n {
		return fieldDiff{Path: a[n].Path, Strict: a[n].Val, Permissive: "(dump ends)"}, true
	}
	if len(b) > n {
		return fieldDiff{Path: b[n].Path, Strict: "(dump ends)", Permissive: b[n].Val}, true
	}
	return fieldDiff{}, false
}

var (
	reIndex = regexp.MustCompile(`\[[0-9]+\]`)
	reKey   = regexp.MustCompile(`\[[^\]]+\]`)
)

// pathClass collapses indices and map keys: ".Extensions[3].Value" -> ".Extensions[].Value".
func pathClass(p string) string {
	p = reIndex.ReplaceAllString(p, "[]")
	return reKey.ReplaceAllString(p, "[]")
}

// zeroish reports whether a rendered dump value is the zero value of its type
// (false, 0, nil, empty) or the end of the dump.
func zeroish(v string) bool {
	switch {
	case v == "false", v == "0", v == "(dump ends)", v == "big.Int 0":
		return true
	case strings.HasPrefix(v, "nil "), strings.HasPrefix(v, "string[0] "), strings.HasPrefix(v, "bytes[0] "), strings.HasSuffix(v, " len=0"):
		return true
	}
	return false
}

// direction is the coarse class of a field difference; it is part of the
// violation signature, so that "permissive mode knows MORE than strict mode"
// (strict mode swallowed an inner error) and "permissive mode LOST or CHANGED
// something strict mode decoded" are different signatures.
func direction(d fieldDiff) string {
	zs, zp := zeroish(d.Strict), zeroish(d.Permissive)
	switch {
	case zs && !zp:
		return "strict: zero value, permissive: set"
	case !zs && zp:
		return "strict: set, permissive: zero value"
	}
	return "both set, values differ"
}

// verdict applies the oracle of the property to one pair of fresh results.
// sig == "" means the pair conforms.
func verdict(target string, s, p singleOut) (sig string, diff *fieldDiff) {
	if !s.OK {
		return "", nil // the statement only speaks about inputs strict mode accepts
	}
	if !p.OK {
		return fmt.Sprintf("%s: strict ok, permissive fails (%s)", target, p.Class), nil
	}
	if s.Rest != p.Rest {
		return fmt.Sprintf("%s: strict ok, permissive ok but consumed a different number of bytes", target),
			&fieldDiff{Path: "len(rest)", Strict: fmt.Sprint(s.Rest), Permissive: fmt.Sprint(p.Rest)}
	}
	if s.Digest != p.Digest {
		d, ok := firstDiff(s.Lines, p.Lines)
		if !ok {
			return fmt.Sprintf("%s: strict ok, permissive differs (digest only; dumps equal: harness defect)", target), nil
		}
		return fmt.Sprintf("%s: strict ok, permissive differs at %s (%s)", target, pathClass(d.Path), direction(d)), &d
	}
	return "", nil
}
