package main

// Targets (the mode-dependent decoders of the property statement) and the
// closed list of units (generator x targets). The list is a pure function of
// (tier, corpus): the parent and every worker build the identical list; the
// parent cross-checks the number of units, a hash of their names and, chunk
// by chunk, an FNV checksum of the generated inputs of the two modes.

import (
	stdx509 "crypto/x509"
	stdpkix "crypto/x509/pkix"
	"encoding/gob"
	"fmt"
	"hash/fnv"
	"math/big"
	"net"
	"os"
	"reflect"
	"sort"
	"strings"
	"time"

	zasn1 "github.com/zmap/zcrypto/encoding/asn1"
	"github.com/zmap/zcrypto/x509"
	"github.com/zmap/zcrypto/x509/pkix"
	"verifmc/internal/fx"
	"verifmc/internal/xgen"
)

// taggedStruct exercises the tag/optional/default/explicit/set machinery
// (same shape as C01's target).
type taggedStruct struct {
	A int              `asn1:"explicit,tag:0,optional,default:1"`
	B []byte           `asn1:"tag:1,optional"`
	C zasn1.RawValue   `asn1:"optional"`
	D string           `asn1:"utf8,optional"`
	E []int            `asn1:"set,optional"`
	F zasn1.Flag       `asn1:"tag:2,optional"`
	G zasn1.Enumerated `asn1:"optional"`
	T time.Time        `asn1:"generalized,optional"`
	H zasn1.BitString  `asn1:"optional,tag:3"`
}

// explicitStruct: a mandatory EXPLICIT member followed by an optional one.
type explicitStruct struct {
	A int    `asn1:"explicit,tag:0"`
	B []byte `asn1:"optional,explicit,tag:1"`
}

// stringsStruct: the string kinds whose alphabet check is mode dependent, as
// struct members (implicit tags take the params.stringType path of parseField).
type stringsStruct struct {
	P string `asn1:"printable"`
	I string `asn1:"ia5,tag:0,optional"`
	N string `asn1:"numeric,tag:1,optional"`
	U string `asn1:"utf8,tag:2,optional"`
	L []string
	T time.Time `asn1:"utc,tag:3,optional"`
}

// A target is one decoder entry point. run returns the decoded value (what a
// caller observes), the number of unconsumed bytes and the error.
type target struct {
	name   string
	fam    string
	tbs    bool // fed the first element of the outer SEQUENCE when the unit says so
	run    func(in []byte) (val any, rest int, err error)
	res    reflect.Type // type of the decoded value
	fields []string     // exported top-level fields when the result is a struct (or pointer to one)
}

var (
	targets    []target
	targetByID = map[string]int{}
)

func isNilValue(v any) bool {
	if v == nil {
		return true
	}
	rv := reflect.ValueOf(v)
	switch rv.Kind() {
	case reflect.Ptr, reflect.Map, reflect.Slice, reflect.Interface:
		return rv.IsNil()
	}
	return false
}

func buildTargets() {
	if targets != nil {
		return
	}
	add := func(t target) {
		t.fields = structFieldNames(t.res)
		targetByID[t.name] = len(targets)
		targets = append(targets, t)
	}
	un := func(name string, mk func() any) {
		add(target{name: "asn1.Unmarshal(" + name + ")", fam: "asn1", res: reflect.TypeOf(mk()).Elem(), run: func(in []byte) (any, int, error) {
			p := mk()
			rest, err := zasn1.Unmarshal(in, p)
			if err != nil {
				return nil, 0, err
			}
			return reflect.ValueOf(p).Elem().Interface(), len(rest), nil
		}})
	}
	un("int", func() any { return new(int) })
	un("int64", func() any { return new(int64) })
	un("*big.Int", func() any { return new(*big.Int) })
	un("bool", func() any { return new(bool) })
	un("string", func() any { return new(string) })
	un("[]byte", func() any { return new([]byte) })
	un("ObjectIdentifier", func() any { return new(zasn1.ObjectIdentifier) })
	un("BitString", func() any { return new(zasn1.BitString) })
	un("time.Time", func() any { return new(time.Time) })
	un("RawValue", func() any { return new(zasn1.RawValue) })
	un("interface{}", func() any { return new(any) })
	un("pkix.RDNSequence", func() any { return new(pkix.RDNSequence) })
	un("[]pkix.Extension", func() any { return new([]pkix.Extension) })
	un("taggedStruct", func() any { return new(taggedStruct) })
	un("explicitStruct", func() any { return new(explicitStruct) })
	un("stringsStruct", func() any { return new(stringsStruct) })

	add(target{name: "x509.ParseCertificate", fam: "cert", res: reflect.TypeOf(&x509.Certificate{}), run: func(in []byte) (any, int, error) {
		c, err := x509.ParseCertificate(in)
		if err != nil {
			return nil, 0, err
		}
		return c, 0, nil
	}})
	add(target{name: "x509.ParseTBSCertificate", fam: "cert", tbs: true, res: reflect.TypeOf(&x509.Certificate{}), run: func(in []byte) (any, int, error) {
		c, err := x509.ParseTBSCertificate(in)
		if err != nil {
			return nil, 0, err
		}
		return c, 0, nil
	}})
	add(target{name: "x509.ParseCertificateRequest", fam: "csr", res: reflect.TypeOf(&x509.CertificateRequest{}), run: func(in []byte) (any, int, error) {
		c, err := x509.ParseCertificateRequest(in)
		if err != nil {
			return nil, 0, err
		}
		return c, 0, nil
	}})
}

func famTargets(fams ...string) []int {
	var out []int
	for _, f := range fams {
		for i, t := range targets {
			if t.fam == f {
				out = append(out, i)
			}
		}
	}
	return out
}

func namedTargets(names ...string) []int {
	var out []int
	for _, n := range names {
		i, ok := targetByID[n]
		if !ok {
			panic("c20: no target " + n)
		}
		out = append(out, i)
	}
	return out
}

type unit struct {
	name     string
	gen      xgen.Enum
	targets  []int
	tbsFirst bool // targets with tbs=true receive firstElement(input); otherwise the raw input
}

func one(desc string, b []byte) xgen.Enum {
	return func(visit func(string, []byte) bool) { visit(desc, b) }
}

func seedMenu(s xgen.Seed) xgen.Enum {
	return xgen.Concat(one("seed", s.Data), xgen.TLVSingles(s.Data), xgen.ByteSubs(s.Data), xgen.Truncations(s.Data))
}

func certModelShard(d, k, K int) xgen.Enum {
	return func(visit func(string, []byte) bool) {
		i := 0
		xgen.EnumAssignments(d, func(a xgen.Assignment) bool {
			i++
			if (i-1)%K != k {
				return true
			}
			return visit(a.String(), xgen.Encode(a))
		})
	}
}

// firstElement returns the complete first element inside the outer element of
// in (the TBSCertificate of a certificate), or what is there when truncated.
func firstElement(in []byte) []byte {
	skip := func(b []byte) (hdr, total int, ok bool) {
		if len(b) < 2 {
			return 0, 0, false
		}
		i := 1
		if b[0]&0x1f == 0x1f {
			for i < len(b) && b[i]&0x80 != 0 {
				i++
			}
			i++
		}
		if i >= len(b) {
			return 0, 0, false
		}
		l := int(b[i])
		i++
		if l&0x80 != 0 {
			k := l & 0x7f
			if k == 0 || k > 4 || i+k > len(b) {
				return 0, 0, false
			}
			l = 0
			for j := 0; j < k; j++ {
				l = l<<8 | int(b[i+j])
			}
			i += k
		}
		if l < 0 || i+l > len(b) {
			return i, len(b), true
		}
		return i, i + l, true
	}
	h, _, ok := skip(in)
	if !ok {
		return nil
	}
	inner := in[h:]
	_, t, ok := skip(inner)
	if !ok {
		return nil
	}
	return inner[:t]
}

// ---------------------------------------------------------------------------
// corpus: repository fixtures + minted certificates + CSRs made with the Go
// standard library. Built ONCE by the parent (whose mode switch is never
// touched) and handed to the workers as a gob file, so the seeds cannot depend
// on the mode of the process that enumerates their mutations.

type corpus struct {
	Repo    []xgen.Seed
	Minted  []xgen.Seed
	Created []xgen.Seed
}

type detRand struct{ r *fx.Rand }

func (d detRand) Read(p []byte) (int, error) { return d.r.Read(p) }

func buildCorpus(repo string) *corpus {
	c := &corpus{Repo: xgen.LoadSeeds(repo), Minted: xgen.MintedSeeds()}
	rnd := detRand{fx.NewRand("c20-created")}
	tmpl := &stdx509.CertificateRequest{Subject: stdpkix.Name{CommonName: "csr.example", Organization: []string{"Org"}},
		DNSNames: []string{"csr.example", "www.csr.example"}, EmailAddresses: []string{"a@csr.example"},
		IPAddresses: []net.IP{net.IPv4(192, 0, 2, 7)}}
	if b, err := stdx509.CreateCertificateRequest(rnd, tmpl, fx.Ed("c20-csr")); err == nil {
		c.Created = append(c.Created, xgen.Seed{Name: "created:csr:ed25519", Kind: "csr", Data: b})
	}
	if b, err := stdx509.CreateCertificateRequest(rnd, tmpl, fx.StdRSA("rsa1024")); err == nil {
		c.Created = append(c.Created, xgen.Seed{Name: "created:csr:rsa1024", Kind: "csr", Data: b})
	}
	return c
}

func saveCorpus(path string, c *corpus) error {
	f, err := os.Create(path)
	if err != nil {
		return err
	}
	defer f.Close()
	return gob.NewEncoder(f).Encode(c)
}

func loadCorpusFile(path string) (*corpus, error) {
	f, err := os.Open(path)
	if err != nil {
		return nil, err
	}
	defer f.Close()
	c := &corpus{}
	if err := gob.NewDecoder(f).Decode(c); err != nil {
		return nil, err
	}
	return c, nil
}

func pick(seeds []xgen.Seed, substr ...string) []xgen.Seed {
	var out []xgen.Seed
	for _, sub := range substr {
		for _, s := range seeds {
			if strings.Contains(s.Name, sub) {
				out = append(out, s)
				break
			}
		}
	}
	return out
}

// ---------------------------------------------------------------------------
// closed generators of this check

// primSeeds: small encodings used as seeds of the TLV / byte menus for the
// asn1.Unmarshal targets: C01's list plus encodings that sit exactly on a
// mode-dependent branch (non-minimal integers and lengths, characters outside
// the string alphabets, times that do not re-serialise, UTCTime >= 2050).
func primSeeds() map[string][]byte {
	name := xgen.Seq(xgen.Set(xgen.Seq(xgen.OID(2, 5, 4, 3), xgen.UTF8("cn"))), xgen.Set(xgen.Seq(xgen.OID(2, 5, 4, 10), xgen.Printable("Org"))))
	nameBad := xgen.Seq(xgen.Set(xgen.Seq(xgen.OID(2, 5, 4, 3), xgen.Printable("a@b_c"))), xgen.Set(xgen.Seq(xgen.OID(1, 2, 840, 113549, 1, 9, 1), xgen.IA5("a\x80@x"))))
	exts := xgen.Seq(xgen.Seq(xgen.OID(2, 5, 29, 19), xgen.Bool(true), xgen.OctetString(xgen.Seq(xgen.Bool(true)))),
		xgen.Seq(xgen.OID(2, 5, 29, 14), xgen.OctetString(xgen.OctetString([]byte{1, 2, 3}))))
	tagged := xgen.Seq(xgen.Explicit(0, xgen.Int(5)), xgen.Ctx(1, false, []byte{1, 2}), xgen.Null(), xgen.UTF8("d"),
		xgen.Set(xgen.Int(1), xgen.Int(2)), xgen.Ctx(2, false, nil), xgen.TLV(0x0a, []byte{3}),
		xgen.TimeRaw(0x18, "20260115120000Z"), xgen.Ctx(3, false, []byte{0, 0xff}))
	taggedLoose := xgen.Seq(xgen.Explicit(0, xgen.IntRaw([]byte{0, 5})), xgen.Ctx(1, false, []byte{1, 2}), xgen.Null(), xgen.TLV(0x0c, []byte{0xff, 'd'}),
		xgen.Set(xgen.IntRaw([]byte{0, 1}), xgen.Int(2)), xgen.Ctx(2, false, nil), xgen.TLV(0x0a, []byte{0, 3}),
		xgen.TimeRaw(0x18, "20260115120000+0000"), xgen.Ctx(3, false, []byte{0, 0xff}))
	strs := xgen.Seq(xgen.Printable("Hello"), xgen.Ctx(0, false, []byte("ia5")), xgen.Ctx(1, false, []byte("12 3")), xgen.Ctx(2, false, []byte("utf8")),
		xgen.Seq(xgen.Printable("a"), xgen.IA5("b"), xgen.UTF8("c"), xgen.TLV(0x12, []byte("1"))), xgen.Ctx(3, false, []byte("260115120000Z")))
	strsLoose := xgen.Seq(xgen.Printable("He@llo"), xgen.Ctx(0, false, []byte("ia\xe9")), xgen.Ctx(1, false, []byte("12a")), xgen.Ctx(2, false, []byte{0xff, 0xfe}),
		xgen.Seq(xgen.Printable("a_"), xgen.IA5("b\x80"), xgen.TLV(0x0c, []byte{0xc0}), xgen.TLV(0x12, []byte("x"))), xgen.Ctx(3, false, []byte("500115120000+0000")))
	longLen := func(tag byte, content []byte) []byte {
		return append([]byte{tag, 0x81, byte(len(content))}, content...)
	}
	return map[string][]byte{
		"prim:int":           xgen.Int(300),
		"prim:int-neg":       xgen.Int(-129),
		"prim:bigint":        xgen.BigInt(new(big.Int).Lsh(big.NewInt(1), 70)),
		"prim:bool":          xgen.Bool(true),
		"prim:oid":           xgen.OID(1, 2, 840, 113549, 1, 1, 11),
		"prim:oid-big-arc":   xgen.OID(2, 999, 1<<30),
		"prim:bitstring":     xgen.BitStringUnused(3, []byte{0xa8}),
		"prim:octets":        xgen.OctetString([]byte{1, 2, 3}),
		"prim:utf8":          xgen.UTF8("héllo"),
		"prim:printable":     xgen.Printable("Hello World"),
		"prim:ia5":           xgen.IA5("a@example"),
		"prim:bmp":           xgen.BMP([]byte{0, 'h', 0, 'i'}),
		"prim:utctime":       xgen.TimeRaw(0x17, "260115120000Z"),
		"prim:gentime":       xgen.TimeRaw(0x18, "20260115120000Z"),
		"prim:null":          xgen.Null(),
		"prim:enum":          xgen.TLV(0x0a, []byte{2}),
		"prim:high-tag":      {0x5f, 0x21, 0x01, 0x00},
		"prim:name":          name,
		"prim:extensions":    exts,
		"prim:tagged":        tagged,
		"prim:explicit-only": xgen.Seq(xgen.Explicit(0, xgen.Int(5))),
		"prim:explicit-both": xgen.Seq(xgen.Explicit(0, xgen.Int(5)), xgen.Explicit(1, xgen.OctetString([]byte{1, 2}))),
		"prim:ctx0-int":      xgen.Explicit(0, xgen.Int(9)),
		"prim:ctx1-octets":   xgen.Explicit(1, xgen.OctetString([]byte{4, 5})),
		"prim:long-form-len": xgen.OctetString(make([]byte, 200)),
		// on the mode-dependent branches
		"loose:int-nonminimal":     xgen.IntRaw([]byte{0x00, 0x01}),
		"loose:int-nonminimal-neg": xgen.IntRaw([]byte{0xff, 0x80}),
		"loose:bigint-nonminimal":  xgen.IntRaw(append([]byte{0x00, 0x00}, make([]byte, 9)...)),
		"loose:enum-nonminimal":    xgen.TLV(0x0a, []byte{0x00, 0x02}),
		"loose:len-octets":         longLen(0x04, []byte{1, 2, 3}),
		"loose:len-int":            longLen(0x02, []byte{5}),
		"loose:len-seq":            longLen(0x30, xgen.Explicit(0, xgen.Int(5))),
		"loose:printable-at":       xgen.Printable("a@b_c"),
		"loose:ia5-highbit":        xgen.IA5("a\x80b"),
		"loose:numeric":            xgen.TLV(0x12, []byte("12 3")),
		"loose:numeric-letter":     xgen.TLV(0x12, []byte("12a")),
		"loose:utf8-invalid":       xgen.TLV(0x0c, []byte{0xff, 0xfe, 'x'}),
		"loose:utctime-2050":       xgen.TimeRaw(0x17, "500101000000Z"),
		"loose:utctime-2049":       xgen.TimeRaw(0x17, "491231235959Z"),
		"loose:utctime-99":         xgen.TimeRaw(0x17, "991231235959Z"),
		"loose:utctime-zero-off":   xgen.TimeRaw(0x17, "260115120000+0000"),
		"loose:utctime-2050-off":   xgen.TimeRaw(0x17, "500115120000-0000"),
		"loose:utctime-offset":     xgen.TimeRaw(0x17, "260115120000+0100"),
		"loose:utctime-no-seconds": xgen.TimeRaw(0x17, "2601151200Z"),
		"loose:gentime-zero-off":   xgen.TimeRaw(0x18, "20260115120000+0000"),
		"loose:gentime-offset":     xgen.TimeRaw(0x18, "20260115120000-0800"),
		"loose:name":               nameBad,
		"loose:tagged":             taggedLoose,
		"prim:strings":             strs,
		"loose:strings":            strsLoose,
	}
}

// hdrModel: every combination of identifier octet x length form x content x
// trailing bytes. Length forms are relative to the real content length L:
// minimal, 81 L, 82 00 L, 83 00 00 L (non-minimal long forms), minimal(L+1),
// minimal(L-1), 81 (L+1), indefinite. Contents: all strings of length <= 1
// plus all pairs over a 12-symbol alphabet (quick) or a 48-symbol alphabet
// (thorough; all strings of length <= 2 are covered unframed by G-bytes).
var hdrTags = []byte{0x01, 0x02, 0x03, 0x04, 0x05, 0x06, 0x0a, 0x0c, 0x12, 0x13, 0x14, 0x16, 0x17, 0x18, 0x1b, 0x1e,
	0x30, 0x31, 0x80, 0x81, 0x82, 0x83, 0xa0, 0xa1, 0xa2, 0xa3, 0x5f}

var hdrPairAlphabet = []byte{0x00, 0x01, 0x02, 0x7f, 0x80, 0xff, 0x30, '0', 'a', '@', ' ', 0xe9}

// thorough: boundaries of every character class and integer sign pattern
var hdrPairAlphabetFull = []byte{0x00, 0x01, 0x02, 0x05, 0x06, 0x0c, 0x13, 0x17, 0x18, 0x1f, ' ', '!', '&', '\'', '(', ')', '*', '+', ',', '-', '.', '/',
	'0', '9', ':', '=', '?', '@', 'A', 'Z', '[', '_', 'a', 'z', '{', 0x7e, 0x7f, 0x80, 0x81, 0xa9, 0xbf, 0xc0, 0xc3, 0xe9, 0xf0, 0xfe, 0xff, 0x30}

func hdrContents(full bool) xgen.Enum {
	alphabet := hdrPairAlphabet
	if full {
		alphabet = hdrPairAlphabetFull
	}
	return func(visit func(string, []byte) bool) {
		stop := false
		xgen.AllBytes(1)(func(d string, b []byte) bool {
			if !visit(d, b) {
				stop = true
			}
			return !stop
		})
		if stop {
			return
		}
		var buf [2]byte
		for _, a := range alphabet {
			for _, b := range alphabet {
				buf[0], buf[1] = a, b
				if !visit("", buf[:]) {
					return
				}
			}
		}
	}
}

func hdrModel(tag byte, full bool) xgen.Enum {
	return func(visit func(string, []byte) bool) {
		stop := false
		out := make([]byte, 0, 16)
		hdrContents(full)(func(_ string, c []byte) bool {
			L := len(c)
			forms := [][]byte{{byte(L)}, {0x81, byte(L)}, {0x82, 0x00, byte(L)}, {0x83, 0x00, 0x00, byte(L)},
				{byte(L + 1)}, {0x81, byte(L + 1)}, {0x80}}
			if L > 0 {
				forms = append(forms, []byte{byte(L - 1)})
			}
			for fi, f := range forms {
				for _, trail := range [][]byte{nil, {0x00}, {0x05, 0x00}} {
					out = out[:0]
					out = append(out, tag)
					if tag&0x1f == 0x1f {
						out = append(out, 0x21)
					}
					out = append(out, f...)
					out = append(out, c...)
					out = append(out, trail...)
					if !visit(fmt.Sprintf("hdr[tag=%02x lenform=%d trail=%d]", tag, fi, len(trail)), out) {
						stop = true
						return false
					}
				}
			}
			return true
		})
		_ = stop
	}
}

// timeModel: UTCTime / GeneralizedTime contents as the product of small
// alphabets per component (including the out-of-range neighbours).
func timeModel(tag byte) xgen.Enum {
	years := []string{"00", "26", "49", "50", "99"}
	if tag == 0x18 {
		years = []string{"0000", "1949", "1950", "2026", "2049", "2050", "9999"}
	}
	months := []string{"01", "02", "12", "13", "00"}
	days := []string{"01", "29", "31", "32", "00"}
	hours := []string{"00", "23", "24"}
	mins := []string{"00", "59", "60"}
	secs := []string{"", "00", "59", "60"}
	zones := []string{"Z", "+0000", "-0000", "+0100", "-0800", "+2400", "", "z", "+01"}
	if tag == 0x18 {
		secs = []string{"", "00", "59", "60", "00.5"}
	}
	return func(visit func(string, []byte) bool) {
		for _, y := range years {
			for _, mo := range months {
				for _, d := range days {
					for _, h := range hours {
						for _, mi := range mins {
							for _, s := range secs {
								for _, z := range zones {
									str := y + mo + d + h + mi + s + z
									if !visit("time["+str+"]", xgen.TimeRaw(tag, str)) {
										return
									}
								}
							}
						}
					}
				}
			}
		}
	}
}

// modelSeedAssignments: quick = one certificate carrying every extension of
// the model at once + one certificate per curated well-formed alternative;
// thorough = additionally a second all-extensions certificate (other
// alternatives, RSA key) and every assignment with exactly one non-default field.
func modelSeedAssignments(quick bool) []xgen.Assignment {
	var out []xgen.Assignment
	seen := map[string]bool{}
	add := func(a xgen.Assignment) {
		if k := a.String(); !seen[k] {
			seen[k] = true
			out = append(out, append(xgen.Assignment(nil), a...))
		}
	}
	all := func(pairs ...string) xgen.Assignment {
		a := xgen.Default()
		for i := 0; i+1 < len(pairs); i += 2 {
			a = a.With(pairs[i], pairs[i+1])
		}
		return a
	}
	add(all("keyusage", "valid", "basicconstraints", "pathlen-0", "skid", "valid", "akid", "issuer-serial", "san", "valid", "ian", "all-kinds",
		"nameconstraints", "valid", "crldp", "two-names", "eku", "valid", "policies", "notices-bb", "aia", "valid", "sct", "two", "poison", "valid",
		"qcstatements", "valid", "tor", "valid", "cabforgid", "with-state", "unknownext", "valid"))
	if !quick {
		add(all("key", "rsa", "validity", "generalized", "name", "multi-dv", "uids", "both", "selfissued", "no",
			"keyusage", "critical", "basicconstraints", "valid", "skid", "valid", "akid", "valid", "san", "othername-ok", "ian", "valid",
			"nameconstraints", "dir-ok", "crldp", "reasons-issuer", "eku", "any", "policies", "cps", "aia", "dns-location", "sct", "with-extensions",
			"qcstatements", "limit-numeric", "tor", "onion-ia5", "cabforgid", "valid"))
	}
	curated := map[string][]string{
		"keyusage":         {"valid", "9-bits", "critical"},
		"basicconstraints": {"valid", "pathlen-0", "ca-false-explicit"},
		"skid":             {"valid"},
		"akid":             {"valid", "issuer-serial", "serial-only"},
		"san":              {"valid", "othername-ok", "edi-ok", "rid-ok", "dir-ok", "x400", "uri-only"},
		"ian":              {"valid", "all-kinds"},
		"nameconstraints":  {"valid", "min-max", "dir-ok", "edi-permitted", "edi-excluded", "rid-permitted", "rid-excluded", "x400-uri"},
		"crldp":            {"valid", "two-names", "relative-name", "reasons-issuer"},
		"eku":              {"valid", "any"},
		"policies":         {"valid", "notices-bb", "notices-rt", "cps", "two-policies", "text-bmp", "ev-policy"},
		"aia":              {"valid", "dns-location"},
		"sct":              {"valid", "two", "with-extensions"},
		"poison":           {"valid"},
		"qcstatements":     {"valid", "limit-numeric"},
		"tor":              {"valid", "onion-ia5", "two"},
		"cabforgid":        {"valid", "with-state"},
		"unknownext":       {"valid", "critical"},
		"key":              {"rsa", "ec-p256", "dsa", "x25519"},
		"sigalg":           {"pss-sha256"},
		"validity":         {"generalized", "utc-2050"},
		"name":             {"multi-dv", "multi-valued-rdn", "t61-high"},
		"uids":             {"both"},
	}
	for _, f := range xgen.Fields() {
		for _, alt := range curated[f.Name] {
			add(xgen.Default().With(f.Name, alt))
		}
	}
	if !quick {
		xgen.EnumAssignments(1, func(a xgen.Assignment) bool {
			add(a)
			return true
		})
	}
	return out
}

func unitListHash(units []unit) string {
	h := fnv.New64a()
	for _, u := range units {
		h.Write([]byte(u.name))
		h.Write([]byte{0})
		for _, t := range u.targets {
			h.Write([]byte{byte(t)})
		}
		h.Write([]byte{0xff})
	}
	return fmt.Sprintf("%016x", h.Sum64())
}

func buildUnits(quick bool, cp *corpus) []unit {
	var units []unit
	add := func(name string, gen xgen.Enum, tg []int, tbsFirst bool) {
		units = append(units, unit{name: name, gen: gen, targets: tg, tbsFirst: tbsFirst})
	}
	asn := famTargets("asn1")
	certT := famTargets("cert")
	csrT := famTargets("csr")
	prim3 := namedTargets("asn1.Unmarshal(string)", "asn1.Unmarshal(RawValue)", "asn1.Unmarshal(interface{})")

	// (a) G-bytes
	for sh := 0; sh < 4; sh++ {
		add(fmt.Sprintf("gbytes/asn1/n<=2/shard=%d/4", sh), xgen.AllBytes(2).Shard(sh, 4), asn, false)
	}
	add("gbytes/x509/n<=2", xgen.AllBytes(2), append(append([]int(nil), certT...), csrT...), false)
	for f := 0; f < 256; f++ {
		f := f
		add(fmt.Sprintf("gbytes/prim/n=3/first=%02x", f), func(visit func(string, []byte) bool) {
			xgen.AllBytesPrefix(3, byte(f))(func(d string, b []byte) bool {
				if len(b) < 3 {
					return true
				}
				return visit(d, b)
			})
		}, prim3, false)
	}
	// header x length form x content model
	for _, tg := range hdrTags {
		add(fmt.Sprintf("hdr/tag=%02x", tg), hdrModel(tg, !quick), asn, false)
	}
	add("time/utctime", timeModel(0x17), asn, false)
	add("time/generalizedtime", timeModel(0x18), asn, false)

	// (b) TLV / byte menus over seeds
	prims := primSeeds()
	pn := make([]string, 0, len(prims))
	for k := range prims {
		pn = append(pn, k)
	}
	sort.Strings(pn)
	for _, k := range pn {
		s := xgen.Seed{Name: k, Data: prims[k]}
		g := seedMenu(s)
		if !quick {
			g = xgen.Concat(g, xgen.TLVPairs(s.Data))
		}
		add("seed/prim/"+k, g, asn, false)
	}
	fixtureCerts := xgen.OfKind(cp.Repo, "cert")
	var certSeeds []xgen.Seed
	if quick {
		// minted CA + leaf for one key type per signature family (the P-224/384/521
		// certificates have the same structure as P-256 and cost 3-10x as much to parse)
		for _, s := range cp.Minted {
			if strings.HasSuffix(s.Name, ":ed-minted") || strings.HasSuffix(s.Name, ":rsa1024") || strings.HasSuffix(s.Name, ":p256") {
				certSeeds = append(certSeeds, s)
			}
		}
		certSeeds = append(certSeeds, pick(fixtureCerts, "x509/testdata/etsi_qc", "x509/testdata/name.constraint", "x509/testdata/ian.test", "x509/testdata/dsa_pk")...)
	} else {
		certSeeds = append(certSeeds, cp.Minted...)
		for _, s := range fixtureCerts {
			if len(s.Data) <= 4096 {
				certSeeds = append(certSeeds, s)
			}
		}
	}
	for _, s := range certSeeds {
		add("seed/cert/"+s.Name, seedMenu(s), certT, true)
	}
	if !quick {
		for _, s := range cp.Minted {
			add("seed/cert/pairs/"+s.Name, xgen.TLVPairs(s.Data), certT, true)
		}
	}
	// model certificates as seeds of the TLV / byte menus: one model deviation
	// (a rich, well-formed extension value) + one encoding-level mutation. This
	// puts every operator (non-minimal lengths, retagging, truncation ...) INSIDE
	// every kind of extension value the parser knows.
	for _, a := range modelSeedAssignments(quick) {
		add("seed/certmodel/"+a.String(), seedMenu(xgen.Seed{Data: xgen.Encode(a)}), certT, true)
	}
	var csrSeeds []xgen.Seed
	csrSeeds = append(csrSeeds, xgen.OfKind(cp.Created, "csr")...)
	csrSeeds = append(csrSeeds, xgen.OfKind(cp.Repo, "csr")...)
	for _, s := range csrSeeds {
		if len(s.Data) > 4096 {
			continue
		}
		g := seedMenu(s)
		if !quick && len(s.Data) <= 1500 {
			g = xgen.Concat(g, xgen.TLVPairs(s.Data))
		}
		add("seed/csr/"+s.Name, g, csrT, false)
	}

	// (c) G-field certificate model
	d, K := 2, 32
	if !quick {
		d, K = 3, 192
	}
	for k := 0; k < K; k++ {
		add(fmt.Sprintf("gfield/cert/d<=%d/shard=%d/%d", d, k, K), certModelShard(d, k, K), certT, true)
	}
	return units
}
