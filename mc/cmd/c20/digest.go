package main

// Canonical structural walk of a decoded value.
//
// One walker produces a prefix-free token stream (kind byte, length, payload)
// of everything a caller can observe in the value; the digest is SHA-256 over
// that stream (first 16 bytes). In dump mode the very same walk additionally
// records one (path, rendered value) line per token, so "first differing
// line" of two dumps is exactly "first differing token" of the two streams:
// two values have equal digests iff their token streams are equal iff their
// dumps are equal (up to hash collisions).
//
// What is observable: every exported struct field (recursively), dynamic type
// and value of interfaces, nil-ness of pointers / slices / maps, length and
// elements of slices and arrays, map entries (sorted by key), big.Int by sign
// and magnitude, time.Time by Unix seconds + nanoseconds + zone offset,
// elliptic curves by name, errors by dynamic type and message. Functions,
// channels and unexported fields are not observable through the API and are
// skipped (zcrypto's own unexported Certificate fields are lazy caches that
// the parser leaves nil).

import (
	"crypto/elliptic"
	"crypto/sha256"
	"encoding/binary"
	"encoding/hex"
	"fmt"
	"math"
	"math/big"
	"reflect"
	"sort"
	"strconv"
	"time"
)

type dumpLine struct {
	Path string `json:"p"`
	Val  string `json:"v"`
}

type walker struct {
	buf    []byte
	dump   bool
	lines  []dumpLine
	path   []string
	opaque map[string]bool // struct types without exported fields that are not special-cased
	tmp    [binary.MaxVarintLen64]byte

	// per-field summaries of a struct-typed result (the struct itself or the
	// struct behind the returned pointer): captured at captureDepth
	captureDepth int
	fields       []fieldSum
}

// fieldSum summarises one exported top-level field of a struct result: whether
// it holds its zero value and a 32-bit FNV-1a hash of its token stream. The
// parent derives the CLASS of a difference (first differing top-level field
// and its direction) from the two summaries, for every difference it sees.
type fieldSum struct {
	Zero bool   `json:"z"`
	Hash uint32 `json:"h"`
}

func fnv32(b []byte) uint32 {
	h := uint32(2166136261)
	for _, c := range b {
		h = (h ^ uint32(c)) * 16777619
	}
	return h
}

var (
	tBigInt   = reflect.TypeOf(big.Int{})
	tBigIntP  = reflect.TypeOf((*big.Int)(nil))
	tTime     = reflect.TypeOf(time.Time{})
	tCurve    = reflect.TypeOf((*elliptic.Curve)(nil)).Elem()
	tError    = reflect.TypeOf((*error)(nil)).Elem()
	tByteKind = reflect.Uint8
)

const maxWalkDepth = 48

func (w *walker) reset() {
	w.buf = w.buf[:0]
	w.lines = w.lines[:0]
	w.path = w.path[:0]
}

func (w *walker) push(seg string) {
	if w.dump {
		w.path = append(w.path, seg)
	}
}

func (w *walker) pop() {
	if w.dump {
		w.path = w.path[:len(w.path)-1]
	}
}

func (w *walker) curPath() string {
	n := 0
	for _, s := range w.path {
		n += len(s)
	}
	b := make([]byte, 0, n)
	for _, s := range w.path {
		b = append(b, s...)
	}
	if len(b) == 0 {
		return "."
	}
	return string(b)
}

// tok appends one token. kind identifies the token type, data its payload.
func (w *walker) tok(kind byte, data []byte, render func() string) {
	w.buf = append(w.buf, kind)
	n := binary.PutUvarint(w.tmp[:], uint64(len(data)))
	w.buf = append(w.buf, w.tmp[:n]...)
	w.buf = append(w.buf, data...)
	if w.dump {
		w.lines = append(w.lines, dumpLine{Path: w.curPath(), Val: render()})
	}
}

func (w *walker) tokU(kind byte, v uint64, render func() string) {
	var b [8]byte
	binary.LittleEndian.PutUint64(b[:], v)
	w.tok(kind, b[:], render)
}

func (w *walker) tokS(kind byte, s string, render func() string) {
	w.buf = append(w.buf, kind)
	n := binary.PutUvarint(w.tmp[:], uint64(len(s)))
	w.buf = append(w.buf, w.tmp[:n]...)
	w.buf = append(w.buf, s...)
	if w.dump {
		w.lines = append(w.lines, dumpLine{Path: w.curPath(), Val: render()})
	}
}

// rawTok appends a token that has no dump line of its own.
func (w *walker) rawTok(kind byte, s string) {
	w.buf = append(w.buf, kind)
	n := binary.PutUvarint(w.tmp[:], uint64(len(s)))
	w.buf = append(w.buf, w.tmp[:n]...)
	w.buf = append(w.buf, s...)
}

func renderBytes(b []byte) string {
	if len(b) > 48 {
		return fmt.Sprintf("bytes[%d] %s…", len(b), hex.EncodeToString(b[:48]))
	}
	return fmt.Sprintf("bytes[%d] %s", len(b), hex.EncodeToString(b))
}

func (w *walker) bigInt(x *big.Int) {
	if x == nil {
		w.tok('0', nil, func() string { return "nil *big.Int" })
		return
	}
	var sign byte = 1
	if x.Sign() < 0 {
		sign = 2
	} else if x.Sign() == 0 {
		sign = 0
	}
	w.tok('I', append([]byte{sign}, x.Bytes()...), func() string {
		s := x.String()
		if len(s) > 80 {
			s = s[:80] + "…"
		}
		return "big.Int " + s
	})
}

func (w *walker) walk(v reflect.Value, depth int) {
	if depth > maxWalkDepth {
		w.tok('!', nil, func() string { return "depth limit" })
		return
	}
	if !v.IsValid() {
		w.tok('0', nil, func() string { return "invalid/nil" })
		return
	}
	t := v.Type()
	// special cases first
	switch {
	case t == tBigIntP:
		if v.IsNil() {
			w.bigInt(nil)
		} else if v.CanInterface() {
			w.bigInt(v.Interface().(*big.Int))
		}
		return
	case t == tBigInt:
		if v.CanAddr() && v.Addr().CanInterface() {
			w.bigInt(v.Addr().Interface().(*big.Int))
		} else if v.CanInterface() {
			x := v.Interface().(big.Int)
			w.bigInt(&x)
		}
		return
	case t == tTime:
		if v.CanInterface() {
			tm := v.Interface().(time.Time)
			_, off := tm.Zone()
			var b [20]byte
			binary.LittleEndian.PutUint64(b[0:], uint64(tm.Unix()))
			binary.LittleEndian.PutUint32(b[8:], uint32(tm.Nanosecond()))
			binary.LittleEndian.PutUint64(b[12:], uint64(int64(off)))
			w.tok('T', b[:], func() string {
				return fmt.Sprintf("time unix=%d nanos=%d zoneoffset=%d (%s)", tm.Unix(), tm.Nanosecond(), off, tm.Format(time.RFC3339Nano))
			})
		}
		return
	}
	if t.Kind() == reflect.Interface || t.Kind() == reflect.Ptr || t.Kind() == reflect.Struct {
		// elliptic curves: named parameter sets behind opaque implementations
		if t.Implements(tCurve) && v.CanInterface() && !(t.Kind() != reflect.Struct && v.IsNil()) {
			if c, ok := v.Interface().(elliptic.Curve); ok && c != nil {
				p := c.Params()
				name := "?"
				if p != nil {
					name = p.Name + "/" + strconv.Itoa(p.BitSize)
				}
				w.tokS('C', name, func() string { return "curve " + name })
				return
			}
		}
		if t.Implements(tError) && t.Kind() != reflect.Struct && !v.IsNil() && v.CanInterface() {
			if e, ok := v.Interface().(error); ok && e != nil {
				s := reflect.TypeOf(e).String() + ": " + e.Error()
				w.tokS('E', s, func() string { return "error " + s })
				return
			}
		}
	}

	switch t.Kind() {
	case reflect.Bool:
		var b byte
		if v.Bool() {
			b = 1
		}
		w.tok('b', []byte{b}, func() string { return strconv.FormatBool(v.Bool()) })
	case reflect.Int, reflect.Int8, reflect.Int16, reflect.Int32, reflect.Int64:
		w.tokU('i', uint64(v.Int()), func() string { return strconv.FormatInt(v.Int(), 10) })
	case reflect.Uint, reflect.Uint8, reflect.Uint16, reflect.Uint32, reflect.Uint64, reflect.Uintptr:
		w.tokU('u', v.Uint(), func() string { return strconv.FormatUint(v.Uint(), 10) })
	case reflect.Float32, reflect.Float64:
		w.tokU('f', math.Float64bits(v.Float()), func() string { return strconv.FormatFloat(v.Float(), 'g', -1, 64) })
	case reflect.Complex64, reflect.Complex128:
		c := v.Complex()
		w.tokU('f', math.Float64bits(real(c)), func() string { return fmt.Sprint(real(c)) })
		w.tokU('f', math.Float64bits(imag(c)), func() string { return fmt.Sprint(imag(c)) })
	case reflect.String:
		s := v.String()
		w.tokS('s', s, func() string {
			if len(s) > 120 {
				return fmt.Sprintf("string[%d] %q…", len(s), s[:120])
			}
			return fmt.Sprintf("string[%d] %q", len(s), s)
		})
	case reflect.Slice:
		if v.IsNil() {
			w.tok('n', nil, func() string { return "nil " + t.String() })
			return
		}
		if t.Elem().Kind() == tByteKind {
			b := v.Bytes()
			w.tok('B', b, func() string { return renderBytes(b) })
			return
		}
		n := v.Len()
		w.tokU('l', uint64(n), func() string { return fmt.Sprintf("%s len=%d", t.String(), n) })
		for i := 0; i < n; i++ {
			w.push("[" + strconv.Itoa(i) + "]")
			w.walk(v.Index(i), depth+1)
			w.pop()
		}
	case reflect.Array:
		n := v.Len()
		if t.Elem().Kind() == tByteKind {
			b := make([]byte, n)
			for i := 0; i < n; i++ {
				b[i] = byte(v.Index(i).Uint())
			}
			w.tok('A', b, func() string { return renderBytes(b) })
			return
		}
		w.tokU('a', uint64(n), func() string { return fmt.Sprintf("%s len=%d", t.String(), n) })
		for i := 0; i < n; i++ {
			w.push("[" + strconv.Itoa(i) + "]")
			w.walk(v.Index(i), depth+1)
			w.pop()
		}
	case reflect.Map:
		if v.IsNil() {
			w.tok('n', nil, func() string { return "nil " + t.String() })
			return
		}
		keys := v.MapKeys()
		type kv struct {
			enc string
			k   reflect.Value
		}
		l := make([]kv, len(keys))
		for i, k := range keys {
			sub := &walker{}
			sub.walk(k, depth+1)
			l[i] = kv{string(sub.buf), k}
		}
		sort.Slice(l, func(i, j int) bool { return l[i].enc < l[j].enc })
		w.tokU('m', uint64(len(l)), func() string { return fmt.Sprintf("%s len=%d", t.String(), len(l)) })
		for _, e := range l {
			w.tokS('k', e.enc, func() string { return fmt.Sprintf("key %v", e.k) })
			w.push(fmt.Sprintf("[%v]", e.k))
			w.walk(v.MapIndex(e.k), depth+1)
			w.pop()
		}
	case reflect.Ptr:
		if v.IsNil() {
			w.tok('0', nil, func() string { return "nil " + t.String() })
			return
		}
		w.tok('p', nil, func() string { return "non-nil " + t.String() })
		w.walk(v.Elem(), depth+1)
	case reflect.Interface:
		if v.IsNil() {
			w.tok('0', nil, func() string { return "nil interface" })
			return
		}
		e := v.Elem()
		ts := e.Type().String()
		w.tokS('t', ts, func() string { return "dynamic type " + ts })
		w.walk(e, depth+1)
	case reflect.Struct:
		exported := 0
		for i := 0; i < t.NumField(); i++ {
			f := t.Field(i)
			if f.PkgPath != "" {
				continue // unexported: not observable
			}
			exported++
			w.rawTok('F', f.Name) // in a dump the path carries the field name
			start := len(w.buf)
			w.push("." + f.Name)
			w.walk(v.Field(i), depth+1)
			w.pop()
			if depth == w.captureDepth {
				w.fields = append(w.fields, fieldSum{Zero: v.Field(i).IsZero(), Hash: fnv32(w.buf[start:])})
			}
		}
		if exported == 0 && t.NumField() > 0 {
			if w.opaque == nil {
				w.opaque = map[string]bool{}
			}
			w.opaque[t.String()] = true
			w.tokS('O', t.String(), func() string { return "opaque " + t.String() })
		}
	case reflect.Func, reflect.Chan, reflect.UnsafePointer:
		// not observable by value
	default:
		w.tokS('?', t.String(), func() string { return "unhandled kind " + t.Kind().String() })
	}
}

type digest [16]byte

// structFieldNames lists the exported fields of a struct type (or of the struct
// behind a pointer type) in the order the walker visits them; nil for other types.
func structFieldNames(t reflect.Type) []string {
	if t == nil {
		return nil
	}
	if t.Kind() == reflect.Ptr {
		t = t.Elem()
	}
	if t.Kind() != reflect.Struct || t == tTime || t == tBigInt {
		return nil
	}
	var out []string
	for i := 0; i < t.NumField(); i++ {
		if t.Field(i).PkgPath == "" {
			out = append(out, t.Field(i).Name)
		}
	}
	return out
}

// digestOf walks val and returns the digest; in dump mode the lines are left in
// w.lines; for struct results the per-field summaries are left in w.fields.
func (w *walker) digestOf(val any) digest {
	w.reset()
	w.fields = w.fields[:0]
	rv := reflect.ValueOf(val)
	w.captureDepth = -1
	if rv.IsValid() {
		switch {
		case rv.Kind() == reflect.Struct && rv.Type() != tTime && rv.Type() != tBigInt:
			w.captureDepth = 0
		case rv.Kind() == reflect.Ptr && !rv.IsNil() && rv.Elem().Kind() == reflect.Struct && rv.Type() != tBigIntP:
			w.captureDepth = 1
		}
	}
	w.walk(rv, 0)
	h := sha256.Sum256(w.buf)
	var d digest
	copy(d[:], h[:16])
	return d
}
