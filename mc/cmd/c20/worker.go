package main

// Worker side: one process per (mode, slot). asn1.AllowPermissiveParsing is a
// process global of zcrypto: it is set exactly once here, before anything is
// parsed, and never touched again. A worker evaluates on ONE goroutine.
//
// Protocol (stdout, binary frames: type byte, uint32 LE length, payload):
//
//	'J' JSON message: ready / cls (newly interned error classes) / done
//	'K' chunk of records: uvarint unit, uvarint first item, uvarint number of
//	    items, 8 bytes running FNV-1a of all inputs of the unit up to the end of
//	    the chunk, then per item uvarint len(input) and per target of the unit one record:
//	      uvarint code: 0 = ok, followed by uvarint len(rest), the 16-byte digest and, when the
//	                        result type of the target is a struct with n exported fields, a bitmap
//	                        of ceil(n/8) bytes (bit set = field holds its zero value) and a 4-byte
//	                        hash per non-zero field (see fieldSum)
//	                    1 = not applicable (no TBS element could be cut out)
//	                    n>=2 = failed with error class n-2
//
// The parent reads the chunk streams of the strict and the permissive worker
// of a slot in lockstep and joins the records by (unit, item, target).

import (
	"bufio"
	"encoding/binary"
	"encoding/json"
	"fmt"
	"io"
	"os"
	"runtime/debug"
	"runtime/pprof"
	"strconv"
	"strings"
	"time"

	zasn1 "github.com/zmap/zcrypto/encoding/asn1"
	"verifmc/internal/ev"
)

type jmsg struct {
	T string `json:"t"`
	// ready
	Units    int    `json:"units,omitempty"`
	UnitHash string `json:"unit_hash,omitempty"`
	Mode     string `json:"mode,omitempty"`
	// cls
	Names []string `json:"names,omitempty"`
	// done
	Unit    int      `json:"unit"`
	Items   int64    `json:"items,omitempty"`
	Evals   int64    `json:"evals,omitempty"`
	Csum    string   `json:"csum,omitempty"`
	Partial bool     `json:"partial,omitempty"`
	Millis  int64    `json:"millis,omitempty"`
	Opaque  []string `json:"opaque,omitempty"`
}

type frameWriter struct{ w *bufio.Writer }

func (f *frameWriter) frame(typ byte, payload []byte) {
	var h [5]byte
	h[0] = typ
	binary.LittleEndian.PutUint32(h[1:], uint32(len(payload)))
	f.w.Write(h[:])
	f.w.Write(payload)
}

func (f *frameWriter) json(m jmsg) {
	b, _ := json.Marshal(m)
	f.frame('J', b)
	f.w.Flush()
}

func readFrame(r *bufio.Reader) (typ byte, payload []byte, err error) {
	var h [5]byte
	if _, err = io.ReadFull(r, h[:]); err != nil {
		return 0, nil, err
	}
	n := binary.LittleEndian.Uint32(h[1:])
	if n > 64<<20 {
		return 0, nil, fmt.Errorf("frame of %d bytes", n)
	}
	payload = make([]byte, n)
	_, err = io.ReadFull(r, payload)
	return h[0], payload, err
}

func shortClass(s string) string {
	s = ev.MsgClass(s)
	if len(s) > 72 {
		s = s[:72]
	}
	return s
}

// errClass maps an error to a bounded class name (digits collapsed).
func errClass(err error) string {
	switch e := err.(type) {
	case zasn1.SyntaxError:
		return "asn1 syntax: " + shortClass(e.Msg)
	case zasn1.StructuralError:
		return "asn1 structure: " + shortClass(e.Msg)
	}
	s := err.Error()
	// messages quoting input data ("given %q ...") would make unbounded classes
	if i := strings.Index(s, ": given \""); i >= 0 {
		s = s[:i]
	}
	return shortClass(s)
}

type worker struct {
	mode     string
	out      *frameWriter
	units    []unit
	deadline time.Time
	classIDs map[string]uint64
	newCls   []string
	byMsg    map[string]uint64 // cache: raw message -> id (bounded)
	wk       walker
}

func (w *worker) classID(name string) uint64 {
	if id, ok := w.classIDs[name]; ok {
		return id
	}
	id := uint64(len(w.classIDs))
	w.classIDs[name] = id
	w.newCls = append(w.newCls, name)
	return id
}

func (w *worker) errID(err error) uint64 {
	var key string
	switch e := err.(type) {
	case zasn1.SyntaxError:
		key = "y" + e.Msg
	case zasn1.StructuralError:
		key = "t" + e.Msg
	default:
		key = "o" + err.Error()
	}
	if id, ok := w.byMsg[key]; ok {
		return id
	}
	id := w.classID(errClass(err))
	if len(w.byMsg) > 20000 {
		w.byMsg = map[string]uint64{}
	}
	w.byMsg[key] = id
	return id
}

// evalTarget runs one target on one input under recover and classifies.
// code 0 = ok (rest, digest valid); otherwise the failure class name.
func evalTarget(t *target, in []byte, wk *walker) (ok bool, rest int, dg digest, err error, class string) {
	var val any
	panicked, pmsg, site := ev.Try(func() { val, rest, err = t.run(in) })
	switch {
	case panicked:
		if site == "" {
			site = t.name
		}
		return false, 0, dg, fmt.Errorf("panic: %s", pmsg), "PANIC@" + site + ": " + shortClass(pmsg)
	case err != nil:
		return false, 0, dg, err, ""
	case isNilValue(val) && t.fam != "asn1":
		return false, 0, dg, fmt.Errorf("nil value and nil error"), "NIL-VALUE-AND-NIL-ERROR"
	}
	// digesting walks the value: a panic here would be a harness defect, except for
	// values the parser left in a state that panics on access; report it as a class
	p2, m2, _ := ev.Try(func() { dg = wk.digestOf(val) })
	if p2 {
		return false, 0, dg, fmt.Errorf("panic while reading the result: %s", m2), "PANIC-READING-RESULT: " + shortClass(m2)
	}
	return true, rest, dg, nil, ""
}

func workerMain() {
	mode := os.Getenv("C20_MODE")
	quick := os.Getenv("C20_TIER") != "thorough"
	if os.Getenv("GOGC") == "" {
		debug.SetGCPercent(400)
	}
	if mode != "strict" && mode != "permissive" {
		fmt.Fprintln(os.Stderr, "c20 worker: bad mode")
		os.Exit(4)
	}
	zasn1.AllowPermissiveParsing = mode == "permissive" // set once, before any parsing
	cp, err := loadCorpusFile(os.Getenv("C20_CORPUS"))
	if err != nil {
		fmt.Fprintln(os.Stderr, "c20 worker: corpus:", err)
		os.Exit(4)
	}
	buildTargets()
	w := &worker{mode: mode, out: &frameWriter{bufio.NewWriterSize(os.Stdout, 1<<16)}, units: buildUnits(quick, cp),
		classIDs: map[string]uint64{}, byMsg: map[string]uint64{}}
	if ms, err := strconv.ParseInt(os.Getenv("C20_DEADLINE_MS"), 10, 64); err == nil {
		w.deadline = time.UnixMilli(ms)
	} else {
		w.deadline = time.Now().Add(24 * time.Hour)
	}
	if pf := os.Getenv("C20_CPUPROFILE"); pf != "" { // development aid
		if f, err := os.Create(pf); err == nil {
			pprof.StartCPUProfile(f)
			defer pprof.StopCPUProfile()
		}
	}
	w.out.json(jmsg{T: "ready", Units: len(w.units), UnitHash: unitListHash(w.units), Mode: mode})
	sc := bufio.NewScanner(os.Stdin)
	for sc.Scan() {
		f := strings.Fields(sc.Text())
		if len(f) == 0 {
			continue
		}
		if f[0] == "quit" {
			break
		}
		if f[0] != "run" || len(f) < 2 {
			continue
		}
		uid, _ := strconv.Atoi(f[1])
		if uid < 0 || uid >= len(w.units) {
			w.out.json(jmsg{T: "done", Unit: uid, Partial: true})
			continue
		}
		w.runUnit(uid)
	}
}

const chunkItems = 256

// appendFieldSums encodes the per-field summaries of a struct result.
func appendFieldSums(rec []byte, fs []fieldSum, nf int) []byte {
	if len(fs) != nf {
		panic(fmt.Sprintf("c20: walker captured %d field summaries, the result type has %d exported fields", len(fs), nf))
	}
	base := len(rec)
	for i := 0; i < (nf+7)/8; i++ {
		rec = append(rec, 0)
	}
	for i, f := range fs {
		if f.Zero {
			rec[base+i/8] |= 1 << uint(i%8)
		} else {
			rec = append(rec, byte(f.Hash), byte(f.Hash>>8), byte(f.Hash>>16), byte(f.Hash>>24))
		}
	}
	return rec
}

// readFieldSums is the inverse; n is the number of bytes consumed.
func readFieldSums(b []byte, nf int) (fs []fieldSum, n int, ok bool) {
	bm := (nf + 7) / 8
	if len(b) < bm {
		return nil, 0, false
	}
	fs = make([]fieldSum, nf)
	n = bm
	for i := 0; i < nf; i++ {
		if b[i/8]&(1<<uint(i%8)) != 0 {
			fs[i].Zero = true
			continue
		}
		if len(b) < n+4 {
			return nil, 0, false
		}
		fs[i].Hash = uint32(b[n]) | uint32(b[n+1])<<8 | uint32(b[n+2])<<16 | uint32(b[n+3])<<24
		n += 4
	}
	return fs, n, true
}

func (w *worker) runUnit(uid int) {
	u := &w.units[uid]
	t0 := time.Now()
	res := jmsg{T: "done", Unit: uid}
	h := uint64(1469598103934665603) // FNV-1a over every input of the unit
	var rec []byte
	var tmp [binary.MaxVarintLen64]byte
	putU := func(v uint64) {
		n := binary.PutUvarint(tmp[:], v)
		rec = append(rec, tmp[:n]...)
	}
	first, n := 0, 0
	flush := func() {
		if n == 0 {
			return
		}
		if len(w.newCls) > 0 {
			w.out.json(jmsg{T: "cls", Names: w.newCls})
			w.newCls = nil
		}
		hdr := make([]byte, 0, 40+len(rec))
		k := binary.PutUvarint(tmp[:], uint64(uid))
		hdr = append(hdr, tmp[:k]...)
		k = binary.PutUvarint(tmp[:], uint64(first))
		hdr = append(hdr, tmp[:k]...)
		k = binary.PutUvarint(tmp[:], uint64(n))
		hdr = append(hdr, tmp[:k]...)
		var hb [8]byte
		binary.LittleEndian.PutUint64(hb[:], h)
		hdr = append(hdr, hb[:]...)
		hdr = append(hdr, rec...)
		w.out.frame('K', hdr)
		rec = rec[:0]
		first += n
		n = 0
	}
	item := -1
	u.gen(func(desc string, in []byte) bool {
		item++
		for _, b := range in {
			h = (h ^ uint64(b)) * 1099511628211
		}
		h = (h ^ uint64(len(in)+1)) * 1099511628211
		if item&255 == 0 && time.Now().After(w.deadline) {
			res.Partial = true
			return false
		}
		res.Items++
		putU(uint64(len(in))) // per item: input length (the parent keeps the smallest inputs as representatives)
		var tbs []byte
		tbsDone := false
		for _, ti := range u.targets {
			t := &targets[ti]
			input := in
			if t.tbs && u.tbsFirst {
				if !tbsDone {
					tbs, tbsDone = firstElement(in), true
				}
				if tbs == nil {
					putU(1)
					continue
				}
				input = tbs
			}
			ok, rest, dg, err, class := evalTarget(t, input, &w.wk)
			res.Evals++
			switch {
			case ok:
				putU(0)
				putU(uint64(rest))
				rec = append(rec, dg[:]...)
				if nf := len(t.fields); nf > 0 {
					rec = appendFieldSums(rec, w.wk.fields, nf)
				}
			case class != "":
				putU(2 + w.classID(class))
			default:
				putU(2 + w.errID(err))
			}
		}
		n++
		if n >= chunkItems { // by item count only: both workers must cut their chunks at the same items
			flush()
		}
		return true
	})
	flush()
	if !res.Partial {
		res.Csum = strconv.FormatUint(h, 16)
	}
	for k := range w.wk.opaque {
		res.Opaque = append(res.Opaque, k)
	}
	res.Millis = time.Since(t0).Milliseconds()
	w.out.json(res)
}
