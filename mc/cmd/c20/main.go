// C20 — permissive parsing is a conservative extension of strict parsing.
//
// Engine E2 (deviation-bounded exhaustive input enumeration), differential
// between the two values of the process-global asn1.AllowPermissiveParsing.
// The parent builds the closed list of units (generator x targets). Each slot
// owns a PAIR of worker processes — one strict, one permissive — that are
// handed the same unit, enumerate the same ordered input list and stream
// (item, target, ok, len(rest), digest(result)); the parent joins the two
// streams by (unit, item, target), cross-checking an FNV checksum of the
// inputs chunk by chunk, and applies the oracle of the statement:
//
//	strict ok  =>  permissive ok  AND  same len(rest)  AND  identical digest.
//
// Every difference is classified and counted by the join itself: the workers
// stream, with the digest of a struct result, a zero flag and a 32-bit hash per
// exported top-level field, so the signature (target + kind of difference +
// first differing field + direction) is known for ALL differences. The
// representatives with the smallest inputs of each signature are then re-run
// in FRESH processes (strict twice, permissive once) which return full field
// dumps: that confirms the difference and yields the witness (first differing
// field path with both values).
package main

import (
	"bufio"
	"encoding/binary"
	"encoding/hex"
	"encoding/json"
	"fmt"
	"io"
	"os"
	"os/exec"
	"path/filepath"
	"sort"
	"strconv"
	"strings"
	"sync"
	"time"

	"verifmc/internal/ev"
	"verifmc/internal/xgen"
)

func repoDir() string {
	if v := os.Getenv("VERIF_REPO_DIR"); v != "" {
		return v
	}
	return "/repo"
}

func main() {
	if os.Getenv("C20_WORKER") != "" {
		workerMain()
		return
	}
	if os.Getenv("C20_SINGLE") != "" {
		singleMain()
		return
	}
	ev.Main("C20", "model_checking", run)
}

// ---------------------------------------------------------------------------

type sideRes struct {
	OK     bool   `json:"ok"`
	Err    string `json:"err,omitempty"`
	Rest   int    `json:"rest"`
	Digest string `json:"digest,omitempty"`
}

type witness struct {
	Target     string     `json:"target"`
	Unit       string     `json:"unit,omitempty"`
	Item       int        `json:"item"`
	Derivation string     `json:"derivation,omitempty"`
	InputHex   string     `json:"input_hex"`
	InputLen   int        `json:"input_len"`
	Strict     sideRes    `json:"strict"`
	Permissive sideRes    `json:"permissive"`
	FirstDiff  *fieldDiff `json:"first_difference,omitempty"`
	// number of (input, target) pairs of the run that the join classified under this signature
	Occurrences int64 `json:"occurrences_in_run,omitempty"`
}

type cand struct {
	unit, item, tpos int
	kind             string // "fail" | "rest" | "digest" | "sample"
	sig              string // stream-level signature (empty for samples)
	note             string
	inLen            int // length of the generated input
}

// sigAgg: every difference the join sees is classified at once from the
// streamed records (signature()); per signature the exact number of
// occurrences and a few representatives (re-run in fresh processes).
type sigAgg struct {
	count int64
	reps  []cand
}

const repsPerSig = 4

// offer keeps the repsPerSig candidates with the smallest inputs (ties: unit, item).
func (a *sigAgg) offer(c cand) {
	less := func(x, y cand) bool {
		if x.inLen != y.inLen {
			return x.inLen < y.inLen
		}
		if x.unit != y.unit {
			return x.unit < y.unit
		}
		if x.item != y.item {
			return x.item < y.item
		}
		return x.tpos < y.tpos
	}
	if len(a.reps) < repsPerSig {
		a.reps = append(a.reps, c)
	} else {
		worst := 0
		for i := range a.reps {
			if less(a.reps[worst], a.reps[i]) {
				worst = i
			}
		}
		if !less(c, a.reps[worst]) {
			return
		}
		a.reps[worst] = c
	}
}

type tstat struct {
	StrictOK     int64 `json:"strict_ok"`
	PermissiveOK int64 `json:"permissive_ok"`
	BothOKEqual  int64 `json:"both_ok_identical"`
	PermOnly     int64 `json:"permissive_only_ok"`
	BothFail     int64 `json:"both_reject"`
	NotApplic    int64 `json:"not_applicable"`
	Candidates   int64 `json:"candidate_differences"`
}

type parent struct {
	c        *ev.Ctx
	units    []unit
	unitHash string
	deadline time.Time
	workdir  string
	corpus   string

	mu       sync.Mutex
	stats    []tstat
	permOnly map[string]int64 // fam | strict class -> count
	bothFail map[string]int64 // fam | same / different class
	sigs     map[string]*sigAgg
	sampleC  []cand
	samples  map[int]bool // target -> a permissive-only sample was recorded
	items    int64
	evals    [2]int64
	done     map[int]bool
	partial  map[int]bool
	died     []string
	opaque   map[string]bool
	unitMs   map[string]int64
	restarts int
	broken   string
}

func (p *parent) setBroken(s string) {
	p.mu.Lock()
	if p.broken == "" {
		p.broken = s
	}
	p.mu.Unlock()
}

func (p *parent) isBroken() bool { p.mu.Lock(); defer p.mu.Unlock(); return p.broken != "" }

// ---------------------------------------------------------------------------
// worker processes

type frame struct {
	typ     byte
	payload []byte
	err     error
}

type proc struct {
	mode    string
	cmd     *exec.Cmd
	in      io.WriteCloser
	frames  chan frame
	stderr  *tailBuf
	classes []string
}

type tailBuf struct {
	mu sync.Mutex
	b  []byte
}

func (t *tailBuf) Write(p []byte) (int, error) {
	t.mu.Lock()
	t.b = append(t.b, p...)
	if len(t.b) > 8192 {
		t.b = append(t.b[:4096:4096], t.b[len(t.b)-4096:]...)
	}
	t.mu.Unlock()
	return len(p), nil
}
func (t *tailBuf) String() string { t.mu.Lock(); defer t.mu.Unlock(); return string(t.b) }

func (p *parent) spawn(mode string) (*proc, error) {
	cmd := exec.Command(os.Args[0])
	cmd.Env = append(os.Environ(), "C20_WORKER=1", "C20_MODE="+mode, "C20_TIER="+p.c.Tier, "C20_CORPUS="+p.corpus,
		"C20_DEADLINE_MS="+strconv.FormatInt(p.deadline.UnixMilli(), 10), "GOMAXPROCS=2", "GOTRACEBACK=single")
	in, err := cmd.StdinPipe()
	if err != nil {
		return nil, err
	}
	out, err := cmd.StdoutPipe()
	if err != nil {
		return nil, err
	}
	tb := &tailBuf{}
	cmd.Stderr = tb
	if err := cmd.Start(); err != nil {
		return nil, err
	}
	pr := &proc{mode: mode, cmd: cmd, in: in, frames: make(chan frame, 8), stderr: tb}
	go func() {
		r := bufio.NewReaderSize(out, 1<<20)
		for {
			t, pl, err := readFrame(r)
			pr.frames <- frame{t, pl, err}
			if err != nil {
				close(pr.frames)
				return
			}
		}
	}()
	// ready
	f, ok := pr.next(60 * time.Second)
	var m jmsg
	if !ok || f.typ != 'J' || json.Unmarshal(f.payload, &m) != nil || m.T != "ready" {
		pr.kill()
		return nil, fmt.Errorf("%s worker did not start: %s", mode, tb.String())
	}
	if m.Units != len(p.units) || m.UnitHash != p.unitHash {
		pr.kill()
		return nil, fmt.Errorf("%s worker built a different unit list (%d units, hash %s) than the parent (%d, %s): the unit list is not a pure function of (tier, corpus)",
			mode, m.Units, m.UnitHash, len(p.units), p.unitHash)
	}
	return pr, nil
}

// next returns the next frame that is not a class-table update.
func (pr *proc) next(idle time.Duration) (frame, bool) {
	for {
		select {
		case f, ok := <-pr.frames:
			if !ok || f.err != nil {
				return f, false
			}
			if f.typ == 'J' {
				var m jmsg
				if json.Unmarshal(f.payload, &m) == nil && m.T == "cls" {
					pr.classes = append(pr.classes, m.Names...)
					continue
				}
			}
			return f, true
		case <-time.After(idle):
			return frame{err: fmt.Errorf("no output for %v", idle)}, false
		}
	}
}

func (pr *proc) kill() {
	pr.in.Close()
	if pr.cmd.Process != nil {
		pr.cmd.Process.Kill()
	}
	go func() {
		for range pr.frames {
		}
	}()
	pr.cmd.Wait()
}

func (pr *proc) quit() {
	fmt.Fprintln(pr.in, "quit")
	pr.in.Close()
	go func() {
		for range pr.frames {
		}
	}()
	pr.cmd.Wait()
}

func (pr *proc) className(code uint64) string {
	i := int(code - 2)
	if i >= 0 && i < len(pr.classes) {
		return pr.classes[i]
	}
	return "class#" + strconv.Itoa(i)
}

// ---------------------------------------------------------------------------
// the join

type rec struct {
	code   uint64
	rest   uint64
	dg     [16]byte
	fields []byte // raw field-summary block of a struct result (decoded only on a difference)
}

// readRec reads one record; nf is the number of exported fields of the
// target's result type (0: no field summaries follow the digest).
func readRec(b []byte, nf int) (r rec, n int, ok bool) {
	c, k := binary.Uvarint(b)
	if k <= 0 {
		return r, 0, false
	}
	r.code = c
	n = k
	if c == 0 {
		v, k2 := binary.Uvarint(b[n:])
		if k2 <= 0 || len(b) < n+k2+16 {
			return r, 0, false
		}
		r.rest = v
		n += k2
		copy(r.dg[:], b[n:n+16])
		n += 16
		if nf > 0 {
			bm := (nf + 7) / 8
			if len(b) < n+bm {
				return r, 0, false
			}
			nz := 0
			for i := 0; i < nf; i++ {
				if b[n+i/8]&(1<<uint(i%8)) == 0 {
					nz++
				}
			}
			l := bm + 4*nz
			if len(b) < n+l {
				return r, 0, false
			}
			r.fields = b[n : n+l]
			n += l
		}
	}
	return r, n, true
}

type chunkHdr struct {
	unit, first, n uint64
	csum           uint64
	body           []byte
}

func parseChunk(b []byte) (h chunkHdr, ok bool) {
	var k int
	if h.unit, k = binary.Uvarint(b); k <= 0 {
		return h, false
	}
	b = b[k:]
	if h.first, k = binary.Uvarint(b); k <= 0 {
		return h, false
	}
	b = b[k:]
	if h.n, k = binary.Uvarint(b); k <= 0 {
		return h, false
	}
	b = b[k:]
	if len(b) < 8 {
		return h, false
	}
	h.csum = binary.LittleEndian.Uint64(b)
	h.body = b[8:]
	return h, true
}

type local struct {
	stats       []tstat
	permOnly    map[string]int64
	bothFail    map[string]int64
	sigs        map[string]*sigAgg
	sampleC     []cand
	items       int64
	sampleTried map[int]bool
}

func (p *parent) joinChunk(uid int, sw, pw *proc, hs, hp chunkHdr, lc *local) error {
	u := &p.units[uid]
	if hs.unit != hp.unit || hs.first != hp.first || hs.n != hp.n || int(hs.unit) != uid {
		return fmt.Errorf("unit %q: the two workers are out of step (strict: unit %d items %d+%d, permissive: unit %d items %d+%d)", u.name, hs.unit, hs.first, hs.n, hp.unit, hp.first, hp.n)
	}
	if hs.csum != hp.csum {
		return fmt.Errorf("generator of unit %q is not deterministic: FNV checksum of the inputs up to item %d is %x in the strict worker and %x in the permissive worker", u.name, hs.first+hs.n, hs.csum, hp.csum)
	}
	bs, bp := hs.body, hp.body
	for i := 0; i < int(hs.n); i++ {
		item := int(hs.first) + i
		lc.items++
		ls, k1 := binary.Uvarint(bs)
		lp, k2 := binary.Uvarint(bp)
		if k1 <= 0 || k2 <= 0 {
			return fmt.Errorf("unit %q: malformed record stream", u.name)
		}
		if ls != lp {
			return fmt.Errorf("generator of unit %q is not deterministic: item %d has %d bytes in the strict worker and %d in the permissive worker", u.name, item, ls, lp)
		}
		bs, bp = bs[k1:], bp[k2:]
		inLen := int(ls)
		for tpos, ti := range u.targets {
			nf := len(targets[ti].fields)
			rs, ns, ok1 := readRec(bs, nf)
			rp, np, ok2 := readRec(bp, nf)
			if !ok1 || !ok2 {
				return fmt.Errorf("unit %q: malformed record stream", u.name)
			}
			bs, bp = bs[ns:], bp[np:]
			st := &lc.stats[ti]
			if rs.code == 1 || rp.code == 1 {
				if rs.code != rp.code {
					return fmt.Errorf("unit %q item %d: TBS extraction differs between the workers", u.name, item)
				}
				st.NotApplic++
				continue
			}
			fam := targets[ti].fam
			addCand := func(kind, note string) {
				st.Candidates++
				var fs, fp []fieldSum
				if kind == "digest" && nf > 0 {
					fs, _, _ = readFieldSums(rs.fields, nf)
					fp, _, _ = readFieldSums(rp.fields, nf)
				}
				sig := signature(targets[ti].name, kind, note, targets[ti].fields, fs, fp)
				a := lc.sigs[sig]
				if a == nil {
					a = &sigAgg{}
					lc.sigs[sig] = a
				}
				a.count++
				a.offer(cand{unit: uid, item: item, tpos: tpos, kind: kind, sig: sig, note: note, inLen: inLen})
			}
			sok, pok := rs.code == 0, rp.code == 0
			if pok {
				st.PermissiveOK++
			}
			switch {
			case sok:
				st.StrictOK++
				switch {
				case !pok:
					addCand("fail", pw.className(rp.code))
				case rs.rest != rp.rest:
					addCand("rest", "")
				case rs.dg != rp.dg:
					addCand("digest", "")
				default:
					st.BothOKEqual++
				}
			case pok:
				st.PermOnly++
				cls := sw.className(rs.code)
				lc.permOnly[fam+"|"+cls]++
				if !lc.sampleTried[ti] { // one permissive-only example per target for the evidence file
					lc.sampleTried[ti] = true
					p.mu.Lock()
					need := !p.samples[ti]
					p.samples[ti] = true
					p.mu.Unlock()
					if need {
						lc.sampleC = append(lc.sampleC, cand{unit: uid, item: item, tpos: tpos, kind: "sample", note: cls})
					}
				}
			default:
				st.BothFail++
				if sw.className(rs.code) == pw.className(rp.code) {
					lc.bothFail[fam+"|same error class"]++
				} else {
					lc.bothFail[fam+"|different error class"]++
				}
			}
		}
	}
	if len(bs) != 0 || len(bp) != 0 {
		return fmt.Errorf("unit %q: trailing bytes in a record chunk", u.name)
	}
	return nil
}

func (p *parent) merge(lc *local) {
	p.mu.Lock()
	defer p.mu.Unlock()
	for i := range lc.stats {
		a, b := &p.stats[i], &lc.stats[i]
		a.StrictOK += b.StrictOK
		a.PermissiveOK += b.PermissiveOK
		a.BothOKEqual += b.BothOKEqual
		a.PermOnly += b.PermOnly
		a.BothFail += b.BothFail
		a.NotApplic += b.NotApplic
		a.Candidates += b.Candidates
	}
	for k, v := range lc.permOnly {
		p.permOnly[k] += v
	}
	for k, v := range lc.bothFail {
		p.bothFail[k] += v
	}
	for sig, a := range lc.sigs {
		g := p.sigs[sig]
		if g == nil {
			g = &sigAgg{}
			p.sigs[sig] = g
		}
		g.count += a.count
		for _, r := range a.reps {
			g.offer(r)
		}
	}
	p.sampleC = append(p.sampleC, lc.sampleC...)
	p.items += lc.items
}

// runUnit drives one unit through the pair; it returns false when the pair
// must be restarted.
func (p *parent) runUnit(uid int, sw, pw *proc) bool {
	u := &p.units[uid]
	fmt.Fprintf(sw.in, "run %d\n", uid)
	fmt.Fprintf(pw.in, "run %d\n", uid)
	lc := &local{stats: make([]tstat, len(targets)), permOnly: map[string]int64{}, bothFail: map[string]int64{}, sigs: map[string]*sigAgg{}, sampleTried: map[int]bool{}}
	const idle = 240 * time.Second
	var doneS, doneP *jmsg
	fail := func(why string) bool {
		p.mu.Lock()
		p.died = append(p.died, fmt.Sprintf("unit %q: %s", u.name, why))
		p.partial[uid] = true
		p.done[uid] = true
		p.restarts++
		p.mu.Unlock()
		p.merge(lc)
		return false
	}
	asDone := func(f frame) *jmsg {
		if f.typ != 'J' {
			return nil
		}
		var m jmsg
		if json.Unmarshal(f.payload, &m) != nil || m.T != "done" {
			return nil
		}
		return &m
	}
	for doneS == nil || doneP == nil {
		var fs, fp frame
		var ok bool
		if doneS == nil {
			if fs, ok = sw.next(idle); !ok {
				return fail(fmt.Sprintf("strict worker stopped (%v): %s", fs.err, lastLines(sw.stderr.String())))
			}
			doneS = asDone(fs)
		}
		if doneP == nil {
			if fp, ok = pw.next(idle); !ok {
				return fail(fmt.Sprintf("permissive worker stopped (%v): %s", fp.err, lastLines(pw.stderr.String())))
			}
			doneP = asDone(fp)
		}
		switch {
		case doneS == nil && doneP == nil:
			hs, ok1 := parseChunk(fs.payload)
			hp, ok2 := parseChunk(fp.payload)
			if fs.typ != 'K' || fp.typ != 'K' || !ok1 || !ok2 {
				p.setBroken(fmt.Sprintf("unit %q: unexpected frame", u.name))
				return false
			}
			if err := p.joinChunk(uid, sw, pw, hs, hp, lc); err != nil {
				p.setBroken(err.Error())
				return false
			}
		case doneS != nil && doneP != nil:
		default:
			// one side finished, the other still sends chunks: only legitimate when the
			// finished side stopped at the time budget; the surplus chunks are dropped
			d := doneS
			if d == nil {
				d = doneP
			}
			if !d.Partial {
				p.setBroken(fmt.Sprintf("unit %q: one worker finished the unit while the other still produced records (different number of inputs)", u.name))
				return false
			}
		}
	}
	p.merge(lc)
	p.mu.Lock()
	p.done[uid] = true
	if doneS.Partial || doneP.Partial {
		p.partial[uid] = true
	}
	p.evals[0] += doneS.Evals
	p.evals[1] += doneP.Evals
	p.unitMs[u.name] = doneS.Millis + doneP.Millis
	for _, o := range append(doneS.Opaque, doneP.Opaque...) {
		p.opaque[o] = true
	}
	p.mu.Unlock()
	if !doneS.Partial && !doneP.Partial {
		if doneS.Csum != doneP.Csum || doneS.Items != doneP.Items {
			p.setBroken(fmt.Sprintf("generator of unit %q is not deterministic (strict: %d inputs checksum %s, permissive: %d inputs checksum %s)", u.name, doneS.Items, doneS.Csum, doneP.Items, doneP.Csum))
			return false
		}
	}
	return true
}

func lastLines(s string) string {
	s = strings.TrimSpace(s)
	if len(s) > 400 {
		s = s[:200] + " … " + s[len(s)-200:]
	}
	return strings.ReplaceAll(s, "\n", " | ")
}

func (p *parent) slot(q chan int) {
	var sw, pw *proc
	stop := func() {
		if sw != nil {
			sw.quit()
		}
		if pw != nil {
			pw.quit()
		}
		sw, pw = nil, nil
	}
	defer stop()
	for uid := range q {
		if time.Now().After(p.deadline) || p.c.TimeUp() || p.isBroken() {
			continue // drain: the unit stays "not done"
		}
		if sw == nil {
			var err error
			if sw, err = p.spawn("strict"); err != nil {
				p.setBroken(err.Error())
				sw = nil
				continue
			}
			if pw, err = p.spawn("permissive"); err != nil {
				p.setBroken(err.Error())
				sw.kill()
				sw, pw = nil, nil
				continue
			}
		}
		if !p.runUnit(uid, sw, pw) {
			sw.kill()
			pw.kill()
			sw, pw = nil, nil
		}
	}
}

// ---------------------------------------------------------------------------

func nonDefaultAlts() int {
	n := 0
	for _, f := range xgen.Fields() {
		n += len(f.Alts) - 1
	}
	return n
}

func run(c *ev.Ctx) {
	quick := c.Quick()
	buildTargets()
	d := ev.Pick(c, 2, 3)
	c.Assume("oracle = exactly the statement: for every (input, target) that strict mode accepts (nil error), permissive mode accepts, leaves the same number of unconsumed bytes and returns a value with the identical structural digest; nothing is demanded for inputs strict mode rejects",
		"digest = SHA-256 over a canonical token stream of the decoded value: every exported field recursively (reflection), dynamic types of interfaces, nil-ness and length of slices/maps/pointers, map entries sorted by key, big.Int by value, time.Time by Unix seconds + nanoseconds + zone offset, elliptic curves by name; unexported fields (lazy caches), funcs and channels are not observable and are skipped",
		"asn1.AllowPermissiveParsing is set exactly once per worker process, before the first parse; the parent process never parses in permissive mode",
		"generators are deterministic: the parent compares, chunk by chunk, an FNV checksum of the inputs generated by the strict and by the permissive worker; the seed corpus is built once by the parent and handed to the workers as a file",
		"every difference is classified by the join itself (signature = target + kind of difference; for struct results the first differing exported top-level field, from streamed per-field zero flags and 32-bit hashes, and its direction) and counted exactly; the representatives with the smallest inputs of every signature are re-run in fresh processes (strict twice, permissive once) before anything is reported; the witness (first differing field path with both values) comes from those runs",
		"crashes and hangs of a decoder are C01's property: a worker that dies or stalls only makes the run incomplete")

	if c.Replay != nil {
		replay(c)
		return
	}

	p := &parent{c: c, permOnly: map[string]int64{}, bothFail: map[string]int64{}, sigs: map[string]*sigAgg{}, samples: map[int]bool{},
		done: map[int]bool{}, partial: map[int]bool{}, opaque: map[string]bool{}, unitMs: map[string]int64{}}
	p.workdir = filepath.Join(ev.VerifDir, ".work", fmt.Sprintf("c20-%d", os.Getpid()))
	os.MkdirAll(p.workdir, 0o755)
	defer os.RemoveAll(p.workdir)
	cp := buildCorpus(repoDir())
	p.corpus = filepath.Join(p.workdir, "corpus.gob")
	if err := saveCorpus(p.corpus, cp); err != nil {
		c.Broken("cannot write corpus file: %v", err)
	}
	if v := os.Getenv("C20_DUMP_CORPUS"); v != "" { // development aid
		saveCorpus(v, cp)
	}
	// the parent builds its unit list from the FILE, exactly like the workers
	cp2, err := loadCorpusFile(p.corpus)
	if err != nil {
		c.Broken("cannot read corpus file back: %v", err)
	}
	p.units = buildUnits(quick, cp2)
	p.unitHash = unitListHash(p.units)
	p.stats = make([]tstat, len(targets))
	units := p.units

	c.Rule(fmt.Sprintf("every element of a closed list of %d units is evaluated by every target of the unit in a strict and in a permissive worker process and the results are joined by (unit, item, target). "+
		"Targets: asn1.Unmarshal into %d Go types (int, int64, *big.Int, bool, string, []byte, ObjectIdentifier, BitString, time.Time, RawValue, interface{}, pkix.RDNSequence, []pkix.Extension, three tagged structs), x509.ParseCertificate, x509.ParseTBSCertificate, x509.ParseCertificateRequest. "+
		"Units: G-bytes = all byte strings of length <= 2 for every target and all of length 3 for 3 primitive asn1 targets (string, RawValue, interface{}); "+
		"header model = %d identifier octets x 8 length forms (minimal, 3 non-minimal long forms, +1, -1, long +1, indefinite) x contents (%s) x 3 trailers, for all asn1 targets; "+
		"time model = product of per-component alphabets for UTCTime and GeneralizedTime contents (years incl. 49/50, out-of-range neighbours, 9 zone forms); "+
		"G-tlv = for each seed (%d ASN.1 primitive seeds incl. encodings on every mode-dependent branch, minted certificates + repository certificate fixtures, %d certificates of the field model (all extensions at once; one well-formed alternative each%s), CSRs) the seed, every (TLV node x %d operators) single mutation, every single-byte substitution from {00,01,7f,80,ff,b^01,b^80}, every truncation%s; "+
		"G-field = every assignment of the certificate model (%d fields, %d non-default alternatives) with <= %d non-default fields = %d certificates, each also as bare TBSCertificate. "+
		"distinct_nontrivial = (input, target) pairs accepted by strict mode, i.e. the pairs on which the statement demands something.",
		len(units), len(famTargets("asn1")), len(hdrTags), map[bool]string{true: "all of length <= 1 + all pairs over a 12-byte alphabet", false: "all of length <= 1 + all pairs over a 48-byte alphabet"}[quick],
		len(primSeeds()), len(modelSeedAssignments(quick)), map[bool]string{true: "", false: "; every assignment with one non-default field"}[quick], xgen.TLVMenuSize, map[bool]string{true: "", false: ", plus every pair of core-menu mutations on siblings / parent+child (TLVPairs) for primitive seeds, minted certificates and CSRs"}[quick],
		len(xgen.Fields()), nonDefaultAlts(), d, xgen.CountAssignments(d)))

	budget := 95 * time.Second
	if !quick {
		budget = 20 * time.Minute
	}
	if v := os.Getenv("C20_BUDGET"); v != "" {
		if dd, err := time.ParseDuration(v); err == nil {
			budget = dd
		}
	}
	p.deadline = c.Start.Add(budget)

	// order: long units first (G-field shards, certificate seeds), cheap ones after
	var order []int
	seen := map[int]bool{}
	for _, pre := range []string{"gfield/", "seed/cert/", "seed/certmodel/", "seed/csr/", "hdr/", "time/", "seed/prim/", "gbytes/asn1", "gbytes/x509", "gbytes/prim"} {
		for i, u := range units {
			if !seen[i] && strings.HasPrefix(u.name, pre) {
				order = append(order, i)
				seen[i] = true
			}
		}
	}
	for i := range units {
		if !seen[i] {
			order = append(order, i)
		}
	}
	if n := len(order); n > 0 && c.Seed != 0 {
		r := int(uint64(c.Seed) % uint64(n))
		order = append(order[r:], order[:r]...)
	}
	if only := os.Getenv("C20_ONLY"); only != "" { // development aid
		var f []int
		for _, i := range order {
			if strings.Contains(units[i].name, only) {
				f = append(f, i)
			}
		}
		order = f
		c.Incomplete("C20_ONLY=" + only + ": restricted run")
	}

	W := c.Workers() / 2
	if v := os.Getenv("C20_PAIRS"); v != "" {
		if n, err := strconv.Atoi(v); err == nil {
			W = n
		}
	}
	if W < 1 {
		W = 1
	}
	q := make(chan int, len(order))
	for _, u := range order {
		q <- u
	}
	close(q)
	var wg sync.WaitGroup
	for s := 0; s < W; s++ {
		wg.Add(1)
		go func() {
			defer wg.Done()
			p.slot(q)
		}()
	}
	wg.Wait()

	// ---- classify the candidate differences in fresh processes
	p.resolve()
	if p.broken != "" {
		c.Broken("%s", p.broken)
	}

	notRun := 0
	for _, i := range order {
		if !p.done[i] || p.partial[i] {
			notRun++
		}
	}
	if notRun > 0 {
		c.Incomplete(fmt.Sprintf("time budget: %d of %d units not completed", notRun, len(order)))
	}
	for _, s := range p.died {
		c.Incomplete("a worker process stopped and its unit was abandoned (crashes and hangs are C01's property, not judged here): " + s)
	}

	// ---- evidence
	var strictOK, permOnly, equal int64
	perTarget := map[string]tstat{}
	for i, s := range p.stats {
		perTarget[targets[i].name] = s
		strictOK += s.StrictOK
		permOnly += s.PermOnly
		equal += s.BothOKEqual
	}
	famOf := map[string]*tstat{}
	for i, s := range p.stats {
		f := targets[i].fam
		if famOf[f] == nil {
			famOf[f] = &tstat{}
		}
		a := famOf[f]
		a.BothOKEqual += s.BothOKEqual
		a.BothFail += s.BothFail
		a.Candidates += s.Candidates
	}
	for f, s := range famOf {
		c.Outcome(f+": strict ok, permissive ok, same rest, identical digest", s.BothOKEqual)
		if s.Candidates > 0 {
			c.Outcome(f+": strict ok, permissive DIFFERS (candidate)", s.Candidates)
		}
	}
	for k, v := range p.bothFail {
		f := strings.SplitN(k, "|", 2)
		c.Outcome(f[0]+": both reject ("+f[1]+")", v)
	}
	c.Merge(capHist(p.permOnly, 60))
	c.States.Store(p.items)
	c.Transitions.Store(p.evals[0] + p.evals[1])
	c.Traces.Store(p.evals[0])      // (input, target) pairs executed in both modes and joined
	c.Evaluations.Store(p.evals[0]) // oracle evaluations = joined pairs
	c.Distinct.Store(strictOK)
	c.Set("units", len(units))
	c.Set("targets", len(targets))
	c.Set("inputs", p.items)
	c.Set("evaluations_strict", p.evals[0])
	c.Set("evaluations_permissive", p.evals[1])
	c.Set("pairs_strict_ok", strictOK)
	c.Set("pairs_identical_in_both_modes", equal)
	c.Set("pairs_permissive_only_ok", permOnly)
	c.Set("per_target", perTarget)
	c.Set("worker_pairs", W)
	c.Set("worker_restarts", p.restarts)
	c.Set("gfield_d", d)
	c.Set("gfield_assignments", xgen.CountAssignments(d))
	c.Set("seeds_found_in_repo", len(cp.Repo))
	op := []string{}
	for k := range p.opaque {
		op = append(op, k)
	}
	sort.Strings(op)
	c.Set("opaque_types_digested_by_name_only", op)
	silent := []string{}
	for i, s := range p.stats {
		if s.StrictOK == 0 {
			silent = append(silent, targets[i].name)
		}
	}
	c.Set("targets_strict_mode_never_accepted", silent)
	{
		type kv struct {
			k string
			v int64
		}
		var l []kv
		for k, v := range p.unitMs {
			l = append(l, kv{k, v})
		}
		sort.Slice(l, func(i, j int) bool { return l[i].v > l[j].v })
		if len(l) > 8 {
			l = l[:8]
		}
		slow := []string{}
		for _, e := range l {
			slow = append(slow, fmt.Sprintf("%s: %d ms (both workers)", e.k, e.v))
		}
		c.Set("slowest_units", slow)
		byGen := map[string]int64{}
		for k, v := range p.unitMs {
			f := strings.SplitN(k, "/", 3)
			g := f[0]
			if len(f) > 1 {
				g += "/" + f[1]
			}
			byGen[g] += v
		}
		c.Set("worker_ms_by_generator", byGen)
	}
}

// capHist keeps the n most frequent permissive-only classes and folds the rest per family.
func capHist(h map[string]int64, n int) ev.Hist {
	type kv struct {
		k string
		v int64
	}
	var l []kv
	for k, v := range h {
		l = append(l, kv{k, v})
	}
	sort.Slice(l, func(i, j int) bool {
		if l[i].v != l[j].v {
			return l[i].v > l[j].v
		}
		return l[i].k < l[j].k
	})
	out := ev.Hist{}
	for i, e := range l {
		f := strings.SplitN(e.k, "|", 2)
		if i < n {
			out[f[0]+": permissive-only ok [strict: "+f[1]+"]"] = e.v
		} else {
			out[f[0]+": permissive-only ok [strict: (other classes)]"] += e.v
		}
	}
	return out
}

// ---------------------------------------------------------------------------
// resolution of candidates

type resolved struct {
	c     cand
	desc  string
	input []byte
}

// resolve re-runs the representatives of every signature (and the
// permissive-only samples) in fresh processes, confirms them and reports.
func (p *parent) resolve() {
	c := p.c
	p.mu.Lock()
	var cands []cand
	sigs := make([]string, 0, len(p.sigs))
	for sg := range p.sigs {
		sigs = append(sigs, sg)
	}
	sort.Strings(sigs)
	for _, sg := range sigs {
		cands = append(cands, p.sigs[sg].reps...)
	}
	cands = append(cands, p.sampleC...)
	p.mu.Unlock()
	if len(cands) == 0 {
		return
	}
	byUnit := map[int][]int{}
	for i, cd := range cands {
		byUnit[cd.unit] = append(byUnit[cd.unit], i)
	}
	uids := make([]int, 0, len(byUnit))
	for u := range byUnit {
		uids = append(uids, u)
	}
	sort.Ints(uids)
	res := make([]resolved, len(cands))
	c.Parallel(len(uids), func(_, k int) {
		uid := uids[k]
		u := &p.units[uid]
		want := map[int][]int{}
		maxItem := 0
		for _, ci := range byUnit[uid] {
			want[cands[ci].item] = append(want[cands[ci].item], ci)
			if cands[ci].item > maxItem {
				maxItem = cands[ci].item
			}
		}
		item := -1
		u.gen(func(desc string, in []byte) bool {
			item++
			for _, ci := range want[item] {
				cd := cands[ci]
				input := append([]byte(nil), in...)
				if targets[u.targets[cd.tpos]].tbs && u.tbsFirst {
					input = append([]byte(nil), firstElement(in)...)
				}
				res[ci] = resolved{c: cd, desc: desc, input: input}
			}
			return item < maxItem
		})
	})
	const batch = 24
	nb := (len(res) + batch - 1) / batch
	type tripleOut struct{ s, s2, p []singleOut }
	outs := make([]tripleOut, nb)
	var failed sync.Map
	c.Parallel(nb, func(_, b int) {
		lo, hi := b*batch, (b+1)*batch
		if hi > len(res) {
			hi = len(res)
		}
		items := make([]singleItem, 0, hi-lo)
		for _, r := range res[lo:hi] {
			items = append(items, singleItem{Target: targets[p.units[r.c.unit].targets[r.c.tpos]].name, InputHex: hex.EncodeToString(r.input)})
		}
		so, err1 := runSingle("strict", items, 120*time.Second)
		po, err2 := runSingle("permissive", items, 120*time.Second)
		// a second strict process: a decoder whose result is not a function of its
		// input (map iteration order ...) must not be mistaken for a mode difference
		so2, err3 := runSingle("strict", items, 120*time.Second)
		if err1 != nil || err2 != nil || err3 != nil {
			failed.Store(b, fmt.Sprintf("strict: %v / %v; permissive: %v", err1, err3, err2))
			return
		}
		outs[b] = tripleOut{so, so2, po}
	})
	type confirmed struct {
		w   witness
		sig string
	}
	best := map[string]*confirmed{} // stream signature -> smallest confirmed witness
	notReproduced, nondet, unresolved := map[string]int{}, 0, 0
	for i, r := range res {
		b := i / batch
		if outs[b].s == nil {
			unresolved++
			continue
		}
		s, pr := outs[b].s[i-b*batch], outs[b].p[i-b*batch]
		if s2 := outs[b].s2[i-b*batch]; s2.OK != s.OK || s2.Digest != s.Digest || s2.Rest != s.Rest {
			nondet++
			continue
		}
		tname := targets[p.units[r.c.unit].targets[r.c.tpos]].name
		w := witness{Target: tname, Unit: p.units[r.c.unit].name, Item: r.c.item, Derivation: r.desc, InputHex: hex.EncodeToString(r.input), InputLen: len(r.input),
			Strict: sideRes{OK: s.OK, Err: s.Err, Rest: s.Rest, Digest: s.Digest}, Permissive: sideRes{OK: pr.OK, Err: pr.Err, Rest: pr.Rest, Digest: pr.Digest}}
		if r.c.kind == "sample" {
			if !s.OK && pr.OK && c.WantSample() {
				c.Sample(map[string]any{"class": "permissive-only success", "target": tname, "derivation": r.desc, "unit": w.Unit, "input_hex": trimHex(w.InputHex), "strict_error": s.Err})
			}
			continue
		}
		sig, diff := verdict(tname, s, pr)
		if sig == "" {
			notReproduced[r.c.sig]++
			continue
		}
		w.FirstDiff = diff
		if cur, ok := best[r.c.sig]; !ok || w.InputLen < cur.w.InputLen {
			best[r.c.sig] = &confirmed{w: w, sig: sig}
		}
	}
	failed.Range(func(k, v any) bool {
		c.Incomplete(fmt.Sprintf("fresh-process re-run of batch %v failed: %v", k, v))
		return true
	})
	if nondet > 0 {
		c.Incomplete(fmt.Sprintf("%d inputs gave different results in two fresh STRICT processes (the decoder is not deterministic on them): not judged", nondet))
	}
	classified := map[string]int64{}
	for _, sg := range sigs {
		a := p.sigs[sg]
		classified[sg] = a.count
		cf, ok := best[sg]
		if !ok {
			c.Incomplete(fmt.Sprintf("%d differences classified %q by the join were NOT reproduced by any of %d fresh-process re-runs (not reported as a violation)", a.count, sg, len(a.reps)))
			continue
		}
		// the fresh processes classify with the same function: normally cf.sig == sg
		cf.w.Occurrences = a.count
		n := a.count
		if n > 1000 {
			n = 1000 // the exact number is in the witness
		}
		for i := int64(0); i < n; i++ {
			c.Violation(cf.sig, cf.w)
		}
	}
	c.Set("differences_by_signature", classified)
	c.Set("representatives_rerun_in_fresh_processes", len(res)-unresolved)
}

func trimHex(h string) string {
	if len(h) > 400 {
		return h[:400] + "…(" + strconv.Itoa(len(h)/2) + " bytes)"
	}
	return h
}

// replay re-executes one recorded witness in two fresh processes.
func replay(c *ev.Ctx) {
	var w witness
	if err := json.Unmarshal(c.Replay, &w); err != nil {
		c.Broken("bad witness: %v", err)
	}
	if _, ok := targetByID[w.Target]; !ok {
		c.Broken("unknown target %q", w.Target)
	}
	items := []singleItem{{Target: w.Target, InputHex: w.InputHex}}
	so, err := runSingle("strict", items, 120*time.Second)
	if err != nil {
		c.Broken("strict re-run failed: %v", err)
	}
	po, err := runSingle("permissive", items, 120*time.Second)
	if err != nil {
		c.Broken("permissive re-run failed: %v", err)
	}
	if so2, err := runSingle("strict", items, 120*time.Second); err != nil || so2[0].OK != so[0].OK || so2[0].Digest != so[0].Digest || so2[0].Rest != so[0].Rest {
		c.Broken("two fresh strict processes disagree on this input (err=%v): not judged", err)
	}
	c.States.Add(1)
	c.Transitions.Add(2)
	c.Evaluations.Add(1)
	sig, diff := verdict(w.Target, so[0], po[0])
	if sig != "" {
		w.FirstDiff = diff
		w.Strict = sideRes{OK: so[0].OK, Err: so[0].Err, Rest: so[0].Rest, Digest: so[0].Digest}
		w.Permissive = sideRes{OK: po[0].OK, Err: po[0].Err, Rest: po[0].Rest, Digest: po[0].Digest}
		c.Violation(sig, w)
		if diff != nil {
			fmt.Printf("first difference at %s\n  strict:     %s\n  permissive: %s\n", diff.Path, diff.Strict, diff.Permissive)
		}
		return
	}
	c.Outcome(fmt.Sprintf("replay: conforming (strict ok=%v, permissive ok=%v)", so[0].OK, po[0].OK), 1)
}
