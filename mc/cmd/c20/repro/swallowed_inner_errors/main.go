// Reproducer for the C20 findings: strict mode ACCEPTS these inputs, permissive
// mode accepts them too, but returns a DIFFERENT result, because strict mode
// silently swallows the parse error of a nested element (KeyUsage /
// BasicConstraints extension value, RSASSA-PSS parameters, CSR attribute)
// whose only defect is a mode-dependent DER nicety (non-minimal length
// octets), while permissive mode parses the nested element.
//
// Run twice (the switch is a process global, set once):
//
//	cd /verif/mc && GOFLAGS=-mod=mod GOPROXY=off go run ./cmd/c20/repro/swallowed_inner_errors
//	cd /verif/mc && GOFLAGS=-mod=mod GOPROXY=off go run ./cmd/c20/repro/swallowed_inner_errors -permissive
package main

import (
	"encoding/hex"
	"flag"
	"fmt"

	"github.com/zmap/zcrypto/encoding/asn1"
	"github.com/zmap/zcrypto/x509"
)

// Ed25519 CA certificate whose BasicConstraints extnValue is 30 81 03 01 01 ff
// (SEQUENCE with the length 3 in long form) instead of 30 03 01 01 ff.
const certBasicConstraints = "3081fa3081ada003020102020107300506032b6570301c311a3018060355040313117867656e2063612065642d6d696e746564301e170d3236303131343132303030305a170d3236303131363132303030305a301c311a3018060355040313117867656e2063612065642d6d696e746564302a300506032b657003210075d4745da9006d4ef3a48a641716eaaff63d91c46316ba542ef55bec36ea7b73a314301230100603551d130101ff04063081030101ff300506032b657003410057c108d35169bf3123b6b1a0faed37e076004aefdc839dce25f5e2de5e2b79fd2639ae93be13b539d37277c943b456006a0d39e63b4b12042c1455e57c870b0d"

// Same certificate with a critical KeyUsage extension whose extnValue is
// 03 81 02 02 84 (BIT STRING, length 2 in long form) instead of 03 02 02 84.
const certKeyUsage = "3081f93081aca003020102020107300506032b6570301c311a3018060355040313117867656e2063612065642d6d696e746564301e170d3236303131343132303030305a170d3236303131363132303030305a301c311a3018060355040313117867656e2063612065642d6d696e746564302a300506032b657003210075d4745da9006d4ef3a48a641716eaaff63d91c46316ba542ef55bec36ea7b73a3133011300f0603551d0f0101ff04050381020284300506032b657003410057c108d35169bf3123b6b1a0faed37e076004aefdc839dce25f5e2de5e2b79fd2639ae93be13b539d37277c943b456006a0d39e63b4b12042c1455e57c870b0d"

// Ed25519 CSR (crypto/x509.CreateCertificateRequest) whose extensionRequest
// attribute carries its OID as 06 81 09 ... (length 9 in long form).
const csrAttribute = "3081f43081a70201003024310c300a060355040a13034f7267311430120603550403130b6373722e6578616d706c65302a300506032b6570032100aee600321461561a92fb6528e3470ab176253dd16d9416717c48fda0f7abda4ba050304e0681092a864886f70d01090e3140303e303c0603551d1104353033820b6373722e6578616d706c65820f7777772e6373722e6578616d706c65810d61406373722e6578616d706c658704c0000207300506032b6570034100752f05b175f92ba1d33feaaeb8f3283cb5249722bb17e2572e8f945f52c086999ce2964db93edf238428080429c2006076e042bfb7c0ffc821232279252b0e09"

// Model certificate (Ed25519 key) whose signatureAlgorithm fields are RSASSA-PSS
// with SHA-256 parameters; inside the TBSCertificate copy the [0] hashAlgorithm
// wrapper is a0 81 0f ... (length 15 in long form) instead of a0 0f ...
const certPSSParams = "308201543081cba00302010202020102304206092a864886f70d01010a3035a0810f300d06096086480165030402010500a11c301a06092a864886f70d010108300d06096086480165030402010500a20302012030173115301306035504030c0c7867656e207375626a656374301e170d3236303131343132303030305a170d3236303131363132303030305a30173115301306035504030c0c7867656e207375626a656374302a300506032b657003210011794f28e64aaaa3b6c75431d6f928d736b1c808a57e8eabf08c48607597f6f7304106092a864886f70d01010a3034a00f300d06096086480165030402010500a11c301a06092a864886f70d010108300d06096086480165030402010500a2030201200341004bf2d05c1e55e019971b4b39ba7a21474d3b90b6c9d21a04ff006541e7f57e1d1d8a2cf2ef8c5a598b19427cb0b09d24217c4772ff38db836aad987e37136b0f"

func main() {
	permissive := flag.Bool("permissive", false, "set asn1.AllowPermissiveParsing before parsing")
	flag.Parse()
	asn1.AllowPermissiveParsing = *permissive
	fmt.Printf("AllowPermissiveParsing=%v\n", asn1.AllowPermissiveParsing)

	for _, tc := range []struct{ name, h string }{{"BasicConstraints value with long-form length", certBasicConstraints}, {"KeyUsage value with long-form length", certKeyUsage},
		{"RSASSA-PSS parameters with long-form length", certPSSParams}} {
		der, _ := hex.DecodeString(tc.h)
		c, err := x509.ParseCertificate(der)
		if err != nil {
			fmt.Printf("%-48s ParseCertificate: error %v\n", tc.name, err)
			continue
		}
		fmt.Printf("%-48s ParseCertificate: ok  BasicConstraintsValid=%v IsCA=%v MaxPathLen=%d KeyUsage=%d SignatureAlgorithm=%v\n", tc.name, c.BasicConstraintsValid, c.IsCA, c.MaxPathLen, c.KeyUsage, c.SignatureAlgorithm)
	}
	der, _ := hex.DecodeString(csrAttribute)
	r, err := x509.ParseCertificateRequest(der)
	if err != nil {
		fmt.Printf("%-48s ParseCertificateRequest: error %v\n", "CSR attribute OID with long-form length", err)
		return
	}
	fmt.Printf("%-48s ParseCertificateRequest: ok  len(Attributes)=%d len(Extensions)=%d DNSNames=%v\n", "CSR attribute OID with long-form length", len(r.Attributes), len(r.Extensions), r.DNSNames)
}
