package main

// Wire knowledge needed by the plaintext edit menu, written from the RFCs
// (RFC 8446 §4, RFC 5246 §7.4, RFC 5077 §3.3): handshake type names and the
// position of every length field inside the messages that travel protected.

import "fmt"

var hsNames = map[byte]string{
	0: "HelloRequest", 1: "ClientHello", 2: "ServerHello", 3: "HelloVerifyRequest", 4: "NewSessionTicket",
	5: "EndOfEarlyData", 6: "HelloRetryRequest-draft", 8: "EncryptedExtensions", 11: "Certificate",
	12: "ServerKeyExchange", 13: "CertificateRequest", 14: "ServerHelloDone", 15: "CertificateVerify",
	16: "ClientKeyExchange", 20: "Finished", 21: "CertificateURL", 22: "CertificateStatus",
	23: "SupplementalData", 24: "KeyUpdate", 25: "CompressedCertificate", 67: "NextProtocol", 254: "MessageHash",
}

// hsTypes: every assigned handshake type plus unassigned values (the alphabet of the insert / retype menus).
var hsTypes = []byte{0, 1, 2, 3, 4, 5, 6, 8, 11, 12, 13, 14, 15, 16, 20, 21, 22, 23, 24, 25, 67, 99, 254, 255}

func hsName(t byte) string {
	if n, ok := hsNames[t]; ok {
		return n
	}
	return fmt.Sprintf("hs-type-%d", t)
}

func recTypeName(t byte) string {
	switch t {
	case 20:
		return "ChangeCipherSpec"
	case 21:
		return "Alert"
	case 22:
		return "Handshake"
	case 23:
		return "ApplicationData"
	case 24:
		return "Heartbeat"
	}
	return fmt.Sprintf("record-type-%d", t)
}

// lenField is a length prefix inside a message body.
type lenField struct {
	off, width int
	val        int
	name       string
}

// walker reads a body left to right and records every length prefix it passes.
type walker struct {
	b      []byte
	p      int
	fields []lenField
	bad    bool
}

func (w *walker) skip(n int) {
	if w.bad || w.p+n > len(w.b) {
		w.bad = true
		return
	}
	w.p += n
}

// vec passes a length-prefixed vector and returns a walker over its content (sharing the field list).
func (w *walker) vec(width int, name string) *walker {
	if w.bad || w.p+width > len(w.b) {
		w.bad = true
		return &walker{bad: true}
	}
	v := 0
	for i := 0; i < width; i++ {
		v = v<<8 | int(w.b[w.p+i])
	}
	w.fields = append(w.fields, lenField{w.p, width, v, name})
	start := w.p + width
	if start+v > len(w.b) {
		w.bad = true
		return &walker{bad: true}
	}
	w.p = start + v
	return &walker{b: w.b[:start+v], p: start}
}

func (w *walker) done() bool { return w.bad || w.p >= len(w.b) }

// merge pulls the fields found by a sub-walker into w.
func (w *walker) merge(s *walker) { w.fields = append(w.fields, s.fields...) }

func walkExtensions(w *walker, name string) {
	l := w.vec(2, name+".extensions")
	for !l.done() {
		if l.p+2 > len(l.b) {
			break
		}
		et := int(l.b[l.p])<<8 | int(l.b[l.p+1])
		l.skip(2)
		e := l.vec(2, fmt.Sprintf("%s.ext%d", name, et))
		hello := name == "ch" || name == "sh" || name == "hrr"
		if hello {
			walkHelloExtension(e, name, et)
			l.merge(e)
			continue
		}
		switch et {
		case 16: // ALPN: ProtocolName protocol_name_list<2..2^16-1>, each opaque<1..2^8-1>
			pl := e.vec(2, "alpn.list")
			for !pl.done() {
				pl.vec(1, "alpn.name")
			}
			e.merge(pl)
		case 13, 50: // signature_algorithms(_cert): SignatureScheme list<2..2^16-2>
			e.vec(2, "sigalgs.list")
		case 47: // certificate_authorities: DistinguishedName authorities<3..2^16-1>, each opaque<1..2^16-1>
			al := e.vec(2, "cas.list")
			for !al.done() {
				al.vec(2, "cas.dn")
			}
			e.merge(al)
		case 5: // status_request in a Certificate entry: status_type(1) + OCSPResponse<1..2^24-1>
			if e.p < len(e.b) {
				e.skip(1)
				e.vec(3, "ocsp.response")
			}
		case 18: // signed_certificate_timestamp: SerializedSCT list<1..2^16-1>, each opaque<1..2^16-1>
			sl := e.vec(2, "sct.list")
			for !sl.done() {
				sl.vec(2, "sct")
			}
			e.merge(sl)
		}
		l.merge(e)
	}
	w.merge(l)
}

// walkHelloExtension: the inner vectors of the extensions of ClientHello ("ch"), ServerHello ("sh") and
// HelloRetryRequest ("hrr") (RFC 8446 §4.2, RFC 6066 §3, RFC 7301, RFC 8422 §5.1).
func walkHelloExtension(e *walker, ctx string, et int) {
	if e.bad || e.done() {
		return
	}
	switch et {
	case 0: // server_name: ServerName list<1..2^16-1>, each name_type(1) HostName<1..2^16-1>
		if ctx == "ch" {
			nl := e.vec(2, "sni.list")
			for !nl.done() {
				nl.skip(1)
				nl.vec(2, "sni.name")
			}
			e.merge(nl)
		}
	case 5: // status_request (ClientHello): status_type(1) responder_id_list<0..2^16-1> request_extensions<0..2^16-1>
		if ctx == "ch" {
			e.skip(1)
			e.vec(2, "ocsp.responders")
			e.vec(2, "ocsp.extensions")
		}
	case 10: // supported_groups: NamedGroup list<2..2^16-1>
		e.vec(2, "groups.list")
	case 11: // ec_point_formats: ECPointFormat list<1..2^8-1>
		e.vec(1, "pointformats.list")
	case 13, 50: // signature_algorithms(_cert)
		e.vec(2, "sigalgs.list")
	case 16: // ALPN
		pl := e.vec(2, "alpn.list")
		for !pl.done() {
			pl.vec(1, "alpn.name")
		}
		e.merge(pl)
	case 41: // pre_shared_key: ClientHello identities<7..2^16-1> {identity<1..2^16-1> age(4)} binders<33..2^16-1> {binder<32..255>}; ServerHello selected_identity(2)
		if ctx == "ch" {
			il := e.vec(2, "psk.identities")
			for !il.done() {
				il.vec(2, "psk.identity")
				il.skip(4)
			}
			e.merge(il)
			bl := e.vec(2, "psk.binders")
			for !bl.done() {
				bl.vec(1, "psk.binder")
			}
			e.merge(bl)
		}
	case 43: // supported_versions: ClientHello versions<2..254>; ServerHello / HelloRetryRequest selected_version(2)
		if ctx == "ch" {
			e.vec(1, "versions.list")
		}
	case 44: // cookie<1..2^16-1>
		e.vec(2, "cookie")
	case 45: // psk_key_exchange_modes: ke_modes<1..255>
		e.vec(1, "pskmodes.list")
	case 51: // key_share: ClientHello client_shares<0..2^16-1> {group(2) key_exchange<1..2^16-1>}; ServerHello group(2) key_exchange<1..2^16-1>; HelloRetryRequest selected_group(2)
		switch ctx {
		case "ch":
			sl := e.vec(2, "keyshare.client_shares")
			for !sl.done() {
				sl.skip(2)
				sl.vec(2, "keyshare.key_exchange")
			}
			e.merge(sl)
		case "sh":
			e.skip(2)
			e.vec(2, "keyshare.key_exchange")
		}
	case 65281: // renegotiation_info: renegotiated_connection<0..255>
		e.vec(1, "reneg.info")
	}
}

// hrrRandom is SHA-256("HelloRetryRequest"), the ServerHello.random that marks a HelloRetryRequest (RFC 8446 §4.1.3).
var hrrRandom = []byte{0xCF, 0x21, 0xAD, 0x74, 0xE5, 0x9A, 0x61, 0x11, 0xBE, 0x1D, 0x8C, 0x02, 0x1E, 0x65, 0xB8, 0x91,
	0xC2, 0xA2, 0x11, 0x16, 0x7A, 0xBB, 0x8C, 0x5E, 0x07, 0x9E, 0x09, 0xE2, 0xC8, 0xA8, 0x33, 0x9C}

func isHRR(mt byte, body []byte) bool {
	return mt == 2 && len(body) >= 34 && string(body[2:34]) == string(hrrRandom)
}

// lengthFields lists the length prefixes of a handshake message body.
func lengthFields(tls13 bool, mt byte, body []byte) []lenField {
	w := &walker{b: body}
	switch {
	case mt == 1: // ClientHello: version(2) random(32) session_id<0..32> cipher_suites<2..2^16-2> compression_methods<1..2^8-1> extensions
		w.skip(34)
		w.vec(1, "ch.session_id")
		w.vec(2, "ch.cipher_suites")
		w.vec(1, "ch.compression_methods")
		if !w.done() {
			walkExtensions(w, "ch")
		}
	case mt == 2: // ServerHello / HelloRetryRequest: version(2) random(32) session_id<0..32> cipher_suite(2) compression_method(1) extensions
		name := "sh"
		if isHRR(mt, body) {
			name = "hrr"
		}
		w.skip(34)
		w.vec(1, name+".session_id")
		w.skip(3)
		if !w.done() {
			walkExtensions(w, name)
		}
	case tls13 && mt == 8: // EncryptedExtensions
		walkExtensions(w, "ee")
	case tls13 && mt == 13: // CertificateRequest: opaque context<0..255>, extensions
		w.vec(1, "certreq.context")
		walkExtensions(w, "certreq")
	case tls13 && mt == 11: // Certificate: context<0..255>, CertificateEntry list<0..2^24-1>
		w.vec(1, "cert.context")
		l := w.vec(3, "cert.list")
		for !l.done() {
			l.vec(3, "cert.entry")
			walkExtensions(l, "cert.entry")
		}
		w.merge(l)
	case mt == 15: // CertificateVerify: algorithm(2) (TLS 1.2+), signature<0..2^16-1>
		w.skip(2)
		w.vec(2, "certverify.signature")
	case tls13 && mt == 4: // NewSessionTicket: lifetime(4) age_add(4) nonce<0..255> ticket<1..2^16-1> extensions
		w.skip(8)
		w.vec(1, "nst.nonce")
		w.vec(2, "nst.ticket")
		walkExtensions(w, "nst")
	case !tls13 && mt == 4: // RFC 5077: lifetime_hint(4) ticket<0..2^16-1>
		w.skip(4)
		w.vec(2, "nst.ticket")
	case !tls13 && mt == 11: // Certificate: ASN.1Cert list<0..2^24-1>, each opaque<1..2^24-1>
		l := w.vec(3, "cert.list")
		for !l.done() {
			l.vec(3, "cert")
		}
		w.merge(l)
	}
	return w.fields
}

func putN(b []byte, off, width, v int) {
	for i := width - 1; i >= 0; i-- {
		b[off+i] = byte(v)
		v >>= 8
	}
}

// hsMsg frames a handshake message with an explicit header length.
func hsMsg(mt byte, hdrLen int, body []byte) []byte {
	return append([]byte{mt, byte(hdrLen >> 16), byte(hdrLen >> 8), byte(hdrLen)}, body...)
}

// alertDescs: every assigned alert description of RFC 8446 §6 / RFC 5246 §7.2 plus unassigned values.
var alertDescs = []byte{0, 10, 20, 21, 22, 30, 40, 41, 42, 43, 44, 45, 46, 47, 48, 49, 50, 51, 60, 70, 71, 80, 86, 90, 100,
	109, 110, 111, 112, 113, 114, 115, 116, 120, 1, 255}

var alertLevels = []byte{0, 1, 2, 3, 255}

// coherentResize changes the size of the vector behind fields[fi] by delta bytes at its end (delta < 0: the last
// -delta bytes are removed; delta > 0: zero bytes are appended) and adjusts that length and every enclosing one.
func coherentResize(body []byte, fields []lenField, fi, delta int) ([]byte, bool) {
	f := fields[fi]
	end := f.off + f.width + f.val
	if end > len(body) || delta == 0 || f.val+delta < 0 {
		return nil, false
	}
	var nb []byte
	if delta < 0 {
		nb = append(append([]byte(nil), body[:end+delta]...), body[end:]...)
	} else {
		nb = append(append(append([]byte(nil), body[:end]...), make([]byte, delta)...), body[end:]...)
	}
	for _, g := range fields {
		if g.off <= f.off && g.off+g.width+g.val >= end {
			v := g.val + delta
			if v < 0 || v >= 1<<(8*g.width) {
				return nil, false
			}
			putN(nb, g.off, g.width, v)
		}
	}
	return nb, true
}
