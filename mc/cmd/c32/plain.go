package main

// Structure-aware edits of handshake messages, shared by the keyed menu (protected records, keyed.go) and the
// wire menu (plaintext handshake records: ClientHello, HelloRetryRequest, second ClientHello, ServerHello, and
// the TLS <= 1.2 flights before ChangeCipherSpec — a plaintext record needs no re-sealing, the edited message is
// re-framed and put in the place of the baseline record).

import (
	"fmt"
	"regexp"
	"strings"

	"verifmc/internal/tlsx"
)

// encloses: g's content contains the whole of f (length field and content). Every field encloses itself.
func encloses(g, f lenField) bool {
	return g.off <= f.off && g.off+g.width+g.val >= f.off+f.width+f.val
}

// spliceIn replaces body[at:at+del] by ins and adds len(ins)-del to every length field of adj.
func spliceIn(body []byte, adj []lenField, at, del int, ins []byte) ([]byte, bool) {
	if at < 0 || del < 0 || at+del > len(body) {
		return nil, false
	}
	nb := append(append(append([]byte(nil), body[:at]...), ins...), body[at+del:]...)
	delta := len(ins) - del
	for _, g := range adj {
		if g.off >= at {
			return nil, false // an enclosing length lies in front of the splice point by construction
		}
		v := g.val + delta
		if v < 0 || v >= 1<<(8*g.width) {
			return nil, false
		}
		putN(nb, g.off, g.width, v)
	}
	return nb, true
}

var extFieldRe = regexp.MustCompile(`\.ext(\d+)$`)

type extAlt struct {
	typ  int
	body []byte
}

// extAlphabet: the extensions appended to every extension block — each with an empty body and with small bodies that
// are well-formed for a ClientHello, a ServerHello or a HelloRetryRequest (all of them are tried in every message).
func extAlphabet() []extAlt {
	var out []extAlt
	add := func(t int, bodies ...[]byte) {
		out = append(out, extAlt{t, nil})
		for _, b := range bodies {
			out = append(out, extAlt{t, b})
		}
	}
	add(0, []byte{0, 4, 0, 0, 1, 'a'})                                                                                                   // server_name
	add(10, []byte{0, 2, 0, 23}, []byte{0, 0})                                                                                           // supported_groups
	add(13, []byte{0, 2, 8, 7}, []byte{0, 0})                                                                                            // signature_algorithms
	add(16, []byte{0, 3, 2, 'h', '2'}, []byte{0, 0})                                                                                     // ALPN
	add(41, []byte{0, 0}, []byte{0, 1}, []byte{0, 7, 0, 1, 'i', 0, 0, 0, 0, 0, 2, 1, 0}, []byte{0, 0, 0, 0})                             // pre_shared_key
	add(42)                                                                                                                              // early_data
	add(43, []byte{3, 4}, []byte{3, 3}, []byte{2, 3, 4}, []byte{0})                                                                      // supported_versions
	add(44, []byte{0, 1, 'c'}, []byte{0, 0}, []byte{0xff, 0xff})                                                                         // cookie
	add(45, []byte{1, 1}, []byte{0})                                                                                                     // psk_key_exchange_modes
	add(51, []byte{0, 23}, []byte{0, 29}, []byte{0, 0}, []byte{0, 23, 0, 1, 4}, []byte{0, 5, 0, 23, 0, 1, 4}, []byte{0, 4, 0, 23, 0, 0}) // key_share
	add(65281, []byte{0}, []byte{1, 0})                                                                                                  // renegotiation_info
	add(0xffff, []byte{0})
	return out
}

// msgEdits enumerates the structure-aware edits of one handshake message (type mt, body): each edit is handed to add as
// a whole message (header included).
func msgEdits(tls13 bool, mt byte, body []byte, thorough bool, add func(desc string, msg []byte)) {
	BL := len(body)
	fields := lengthFields(tls13, mt, body)
	offs := offsets(BL, fields, thorough, 6)
	// truncations: header length fixed up, and stale (the receiver then takes what follows as the rest of the body)
	for _, t := range offs {
		add(fmt.Sprintf("body truncated to %d, header fixed", t), hsMsg(mt, t, body[:t]))
		add(fmt.Sprintf("body truncated to %d, header stale", t), hsMsg(mt, BL, body[:t]))
	}
	// header length values
	for _, hl := range []int{0, 1, BL - 1, BL + 1, BL + 4, 65536, 65537, 0xffffff} {
		if hl >= 0 && hl != BL {
			add(fmt.Sprintf("header length %d", hl), hsMsg(mt, hl, body))
		}
	}
	add("one trailing byte inside the message", hsMsg(mt, BL+1, append(cp(body), 0)))
	add("one trailing byte after the message", append(hsMsg(mt, BL, body), 0))
	// every length field inside
	for _, f := range fields {
		max := 1<<(8*f.width) - 1
		for _, v := range []int{0, 1, f.val - 1, f.val + 1, max} {
			if v < 0 || v == f.val || v > max {
				continue
			}
			b := cp(body)
			putN(b, f.off, f.width, v)
			add(fmt.Sprintf("%s@%d = %d (was %d)", f.name, f.off, v, f.val), hsMsg(mt, BL, b))
		}
	}
	// coherent resize of every vector: emptied, its last byte removed, a zero byte appended — with the field,
	// every enclosing length and the message header adjusted, so the framing stays well-formed (empty
	// certificate list, empty signature, empty extension block, empty key_share list, ...)
	for fi, f := range fields {
		for di, delta := range []int{-f.val, -1, +1} {
			if di == 1 && f.val == 1 {
				continue // same as emptying
			}
			if b, ok := coherentResize(body, fields, fi, delta); ok {
				add(fmt.Sprintf("%s@%d resized by %+d, all enclosing lengths adjusted", f.name, f.off, delta), hsMsg(mt, len(b), b))
			}
		}
	}
	// every extension removed / duplicated, and each extension of the alphabet appended to every extension block — all
	// enclosing lengths and the message header adjusted
	alphabet := extAlphabet()
	for _, f := range fields {
		outer := func(strict bool) []lenField {
			var adj []lenField
			for _, g := range fields {
				if encloses(g, f) && !(strict && g == f) {
					adj = append(adj, g)
				}
			}
			return adj
		}
		end := f.off + f.width + f.val
		if end > BL {
			continue
		}
		switch {
		case extFieldRe.MatchString(f.name) && f.off >= 2:
			ext := body[f.off-2 : end]
			if b, ok := spliceIn(body, outer(true), f.off-2, len(ext), nil); ok {
				add(fmt.Sprintf("%s@%d removed, all enclosing lengths adjusted", f.name, f.off-2), hsMsg(mt, len(b), b))
			}
			if b, ok := spliceIn(body, outer(true), end, 0, ext); ok {
				add(fmt.Sprintf("%s@%d duplicated, all enclosing lengths adjusted", f.name, f.off-2), hsMsg(mt, len(b), b))
			}
		case strings.HasSuffix(f.name, ".extensions"):
			for _, a := range alphabet {
				ext := append([]byte{byte(a.typ >> 8), byte(a.typ), byte(len(a.body) >> 8), byte(len(a.body))}, a.body...)
				if b, ok := spliceIn(body, outer(false), end, 0, ext); ok {
					add(fmt.Sprintf("%s@%d: extension %d with body %x appended, all enclosing lengths adjusted", f.name, f.off, a.typ, a.body), hsMsg(mt, len(b), b))
				}
			}
		}
	}
	// every byte
	for _, o := range offs {
		for _, v := range byteMenu(body[o]) {
			b := cp(body)
			b[o] = v
			add(fmt.Sprintf("body[%d] = %02x (was %02x)", o, v, body[o]), hsMsg(mt, BL, b))
		}
	}
	// the same body under every other handshake type
	for _, t := range hsTypes {
		if t != mt {
			add(fmt.Sprintf("retyped as %s", hsName(t)), hsMsg(t, BL, body))
		}
	}
}

// plainMsg is one handshake message of a plaintext handshake record of a baseline stream.
type plainMsg struct {
	rec      tlsx.Record
	off, end int // of the message inside the record payload
	class    string
}

// plainMessages lists the handshake messages that travel unprotected in one direction of a baseline: every
// handshake record in front of the first ChangeCipherSpec of that direction, and with TLS 1.3 every record of type
// handshake (protected TLS 1.3 records have the outer type application_data; the ChangeCipherSpec records of a
// TLS 1.3 flight are the middlebox-compatibility dummies). A record is taken only when it consists of whole messages.
func plainMessages(d tlsx.Dir, stream []byte, tls13 bool) []plainMsg {
	var out []plainMsg
	ccs := false
	count := map[string]int{}
	for _, r := range tlsx.ParseRecords(stream) {
		if r.Type == 20 {
			ccs = true
		}
		if r.Type != 22 || (ccs && !tls13) {
			continue
		}
		var ms []plainMsg
		p := 0
		for p+4 <= r.Len {
			l := int(r.Payload[p+1])<<16 | int(r.Payload[p+2])<<8 | int(r.Payload[p+3])
			if p+4+l > r.Len {
				break
			}
			ms = append(ms, plainMsg{rec: r, off: p, end: p + 4 + l})
			p += 4 + l
		}
		if p != r.Len {
			continue
		}
		for _, m := range ms {
			mt, body := r.Payload[m.off], r.Payload[m.off+4:m.end]
			name := hsName(mt)
			if isHRR(mt, body) {
				name = "HelloRetryRequest"
			}
			count[name]++
			if count[name] > 1 {
				name = fmt.Sprintf("%s#%d", name, count[name])
			}
			m.class = fmt.Sprintf("%s clear %s", d, name)
			out = append(out, m)
		}
	}
	return out
}

// frame puts a payload into records of the given type and version (<= 16384 bytes each).
func frame(typ byte, vers uint16, payload []byte) []byte {
	var out []byte
	for first := true; first || len(payload) > 0; first = false {
		n := len(payload)
		if n > 16384 {
			n = 16384
		}
		out = append(out, typ, byte(vers>>8), byte(vers), byte(n>>8), byte(n))
		out = append(out, payload[:n]...)
		payload = payload[n:]
	}
	return out
}

// plainMenu: the structure-aware message edits for every plaintext handshake message of a wire baseline, plus
// message-level drop / duplicate / swap / inserted messages inside the record.
func plainMenu(cf *conf, base outcome, thorough bool, emit func(job)) {
	tls13 := cf.vers == 0x0304
	for d := tlsx.C2S; d <= tlsx.S2C; d++ {
		msgs := plainMessages(d, base.streams[d], tls13)
		for mi, m := range msgs {
			r := m.rec
			put := func(msg []byte) {
				payload := append(append(cp(r.Payload[:m.off]), msg...), r.Payload[m.end:]...)
				emit(job{cf: cf, cls: m.class, edits: []tlsx.Edit{
					{Dir: d, Kind: tlsx.Insert, A: r.Off, Data: frame(r.Type, r.Vers, payload)},
					{Dir: d, Kind: tlsx.Drop, A: r.Off, B: r.End()}}})
			}
			self := cp(r.Payload[m.off:m.end])
			msgEdits(tls13, self[0], self[4:], thorough, func(desc string, msg []byte) { put(msg) })
			put(append(cp(self), self...)) // the message twice in one record
			for _, t := range hsTypes {
				put(append(hsMsg(t, 0, nil), self...))                    // an empty message of every type in front, same record
				put(append(cp(self), hsMsg(t, 4, []byte{0, 0, 0, 0})...)) // and a tiny one behind
			}
			// an earlier plaintext message of the same direction again in place of this one (ClientHello instead of the second ClientHello, ...)
			for _, e := range msgs[:mi] {
				put(cp(e.rec.Payload[e.off:e.end]))
			}
		}
	}
}
