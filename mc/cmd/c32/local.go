package main

// Failures of the LOCAL transport of the endpoint under test (EUT).
//
// Everything else in C32 varies the bytes the PEER sends; here the net.Conn handed to tls.Client / tls.Server is
// wrapped, and its Write fails from some call onward — a closed / failed transport is the central hypothesis of
// the property ("never blocks once the transport is closed; each call returns either a result or an error").
//
//	(1) "local write failure": for every configuration (wire and keyed families), each role, EVERY transport
//	    Write call k of the fault-free run (each handshake flight, CCS, Finished, tickets, application data,
//	    close_notify) fails from k onward with each error kind;
//	(2a) "peer message x local write failure": every keyed data-phase insert (KeyUpdate, renegotiation attempts,
//	    unexpected handshake types, alerts, oversized / odd records ...) is delivered to the EUT and every EUT
//	    transport Write from the moment it consumed the insert fails. A first run (permanent error, EUT in Read)
//	    tells whether the insert elicits a write inside the Read that consumed it (the reply / the alert itself);
//	    if so the remaining error kinds x {EUT in Read only, a concurrent Write parked in its transport write,
//	    a concurrent Close parked in its close_notify write} follow;
//	(2b) "malformed peer flight x local write failure": the single-fault menus (wire faults, keyed handshake
//	    faults) with every EUT transport Write failing from the moment the EUT consumed the faulted bytes (the
//	    alert it answers with).
//
// After the fault the EUT script goes on like an application, whatever the calls return: Handshake, Write / Read
// (client) or Read / Write echo (server), Close, ConnectionState, GetHandshakeLog (+ json), OCSPResponse, Read,
// Write, CloseWrite and Close again. The peer is the real zcrypto endpoint of the other role with its usual script.
//
// Oracle: no panic, and every call of both parties returns. Blocking: both parties parked in the transport is
// resolved by the transport's stall detection (closes both directions). A party that has not finished after
// guard T1 gets both directions closed by the harness (the hypothesis of the property then holds whatever
// happened before); if it still has not returned after T2 although it is NOT inside a transport call it is
// blocked inside the library: a SUSPECT, confirmed by re-running the same case three times with longer guards.
// A family (x role) is not explored further after its first confirmed hang.

import (
	"crypto/sha256"
	"encoding/json"
	"fmt"
	"io"
	"net"
	"os"
	"path/filepath"
	"runtime"
	"strconv"
	"strings"
	"sync"
	"sync/atomic"
	"syscall"
	"time"

	"github.com/zmap/zcrypto/tls"
	"verifmc/internal/ev"
	"verifmc/internal/tlsx"
)

const (
	famLocal  = "local write failure"
	famMsg    = "peer message x local write failure"
	famFlight = "malformed peer flight x local write failure"
)

// lfJob is one connection (or, with Bundle, the probe + expansions of one data-phase insert).
type lfJob struct {
	Family string      `json:"family"`
	Conf   string      `json:"config,omitempty"`
	KConf  string      `json:"keyed_config,omitempty"`
	Role   string      `json:"endpoint_under_test"`       // "client" | "server"
	K      int         `json:"fail_from_transport_write"` // -1: from the moment the EUT consumed the peer's message
	Kind   string      `json:"error_kind"`
	State  string      `json:"parked_in,omitempty"`        // Read | Write | Close
	ParkAt int         `json:"park_before_call,omitempty"` // index of the EUT script call (a Read) before which the concurrent call is started
	Edits  []tlsx.Edit `json:"edits,omitempty"`
	Keyed  *kcase      `json:"keyed,omitempty"`
	What   string      `json:"write_in_baseline,omitempty"`
	Bundle bool        `json:"bundle,omitempty"`
	Expand bool        `json:"expand,omitempty"`
	proxy  bool        // keyed configuration: run through the key-aware proxy although nothing is edited (baseline of the menus)
}

type lfGuards struct{ t1, t2 time.Duration }

var (
	lfFirst       = lfGuards{5 * time.Second, 1 * time.Second}
	lfConfirm     = lfGuards{10 * time.Second, 3 * time.Second} // suspect that was not structurally deadlocked (busy or slow)
	lfConfirmDead = lfGuards{3 * time.Second, 1 * time.Second}  // suspect whose goroutines were all blocked on locks: the re-runs must show the same
)

func lfKinds(thorough bool, family string) []string {
	switch {
	case family == famLocal && !thorough:
		return []string{"permanent", "timeout", "short(1)+permanent", "short(hdr)+timeout", "short(half)+permanent", "short(len-1)+timeout"}
	case family == famLocal:
		return []string{"permanent", "timeout", "reset", "temporary", "short(1)+permanent", "short(hdr)+timeout", "short(half)+permanent", "short(len-1)+timeout", "short(1)+timeout", "short(half)+reset", "short(len-1)+permanent"}
	case !thorough || family == famFlight:
		return []string{"permanent", "timeout", "short(half)+permanent"}
	}
	return []string{"permanent", "timeout", "short(half)+permanent", "short(1)+timeout", "short(hdr)+permanent", "reset"}
}

type lfTmpErr struct{}

func (lfTmpErr) Error() string   { return "tlsx: resource temporarily unavailable" }
func (lfTmpErr) Timeout() bool   { return false }
func (lfTmpErr) Temporary() bool { return true }

// lfErr: permanent = io.ErrClosedPipe (not a net.Error); timeout = what an expired deadline gives on a real
// net.Conn (*net.OpError wrapping os.ErrDeadlineExceeded); reset = *net.OpError wrapping ECONNRESET.
func lfErr(kind string) error {
	if i := strings.IndexByte(kind, '+'); i >= 0 {
		kind = kind[i+1:]
	}
	switch kind {
	case "timeout":
		return &net.OpError{Op: "write", Net: "tlsx", Err: os.ErrDeadlineExceeded}
	case "reset":
		return &net.OpError{Op: "write", Net: "tlsx", Err: syscall.ECONNRESET}
	case "temporary":
		return lfTmpErr{}
	}
	return io.ErrClosedPipe
}

// lfShort: how many bytes of the first failing write still reach the wire.
func lfShort(kind string, n int) int {
	if !strings.HasPrefix(kind, "short(") || n < 2 {
		return 0
	}
	h := 0
	switch kind[6:strings.IndexByte(kind, ')')] {
	case "1":
		h = 1
	case "hdr":
		h = 5
	case "half":
		h = n / 2
	case "len-1":
		h = n - 1
	}
	if h < 1 {
		h = 1
	}
	if h > n-1 {
		h = n - 1
	}
	return h
}

// ---------------------------------------------------------------- the scripted parties

type lfParty struct {
	who   string
	conn  *tls.Conn
	call  atomic.Value // string: the call in progress on the script goroutine ("": between calls)
	idx   atomic.Int32 // index of that call in the script
	callA atomic.Value // the concurrent call (state Write / Close)
	gid   atomic.Int64
	gidA  atomic.Int64
	done  chan struct{}
	doneA chan struct{}

	before func(i int, name string)
	after  func(i int, name string)

	mu     sync.Mutex
	panics []string
	hsErr  error
	trace  []string
}

func newParty(who string, conn *tls.Conn) *lfParty {
	p := &lfParty{who: who, conn: conn, done: make(chan struct{})}
	p.call.Store("")
	p.callA.Store("")
	return p
}

func (p *lfParty) current() (string, int) {
	s, _ := p.call.Load().(string)
	return s, int(p.idx.Load())
}

func (p *lfParty) do(name string, f func() error) error {
	i := int(p.idx.Load())
	if p.before != nil {
		p.before(i, name)
	}
	p.call.Store(name)
	err := f()
	p.call.Store("")
	p.idx.Add(1)
	if p.after != nil {
		p.after(i, name)
	}
	if len(p.trace) < 24 {
		p.trace = append(p.trace, name+"="+errWord(err))
	}
	return err
}

func errWord(err error) string {
	if err == nil {
		return "ok"
	}
	return "err"
}

func curGID() int64 {
	var b [64]byte
	s := string(b[:runtime.Stack(b[:], false)])
	s = strings.TrimPrefix(s, "goroutine ")
	if i := strings.IndexByte(s, ' '); i > 0 {
		n, _ := strconv.ParseInt(s[:i], 10, 64)
		return n
	}
	return 0
}

// run executes a script; a panic is recorded with the call it happened in, and onPanic closes the transport
// (the panicking party will not close its connection any more).
func (p *lfParty) run(script func(), onPanic func()) {
	defer close(p.done)
	p.gid.Store(curGID())
	if pan, msg, site := ev.Try(script); pan {
		name, _ := p.call.Load().(string)
		p.mu.Lock()
		p.panics = append(p.panics, fmt.Sprintf("%s %s: %s @ %s", p.who, name, ev.MsgClass(msg), site))
		p.mu.Unlock()
		onPanic()
	}
}

// inspect: the calls an application makes on a connection whatever state it is in.
func (p *lfParty) inspect() {
	c := p.conn
	p.do("ConnectionState", func() error { _ = c.ConnectionState(); return nil })
	p.do("GetHandshakeLog", func() error {
		l := c.GetHandshakeLog()
		if _, err := json.Marshal(l); err != nil {
			panic("json.Marshal(handshake log): " + err.Error())
		}
		return nil
	})
	p.do("OCSPResponse", func() error { _ = c.OCSPResponse(); return nil })
}

var lfMsgs = []string{"ping-ping-ping-ping", "second message"}

// eutScript: the application on the endpoint under test. Every call is made whatever the previous ones returned.
func (p *lfParty) eutScript(client bool) {
	c := p.conn
	buf := make([]byte, 64)
	p.do("Handshake", func() error { p.hsErr = c.Handshake(); return p.hsErr })
	if client {
		for _, m := range lfMsgs {
			p.do("Write", func() error { _, err := c.Write([]byte(m)); return err })
			for got, it := 0, 0; got < len(m) && it < 64; it++ {
				var n int
				if p.do("Read", func() (err error) { n, err = c.Read(buf); return }) != nil {
					break
				}
				got += n
			}
		}
	} else {
		for it := 0; it < 64; it++ {
			var n int
			if p.do("Read", func() (err error) { n, err = c.Read(buf); return }) != nil {
				break
			}
			if p.do("Write", func() error { _, err := c.Write(buf[:n]); return err }) != nil {
				// the application has not necessarily noticed yet: it reads once more
				p.do("Read", func() (err error) { _, err = c.Read(buf); return })
				break
			}
		}
	}
	p.do("Close", func() error { return c.Close() })
	p.inspect()
	p.do("Read", func() (err error) { _, err = c.Read(buf); return })
	p.do("Write", func() error { _, err := c.Write([]byte("after close")); return err })
	p.do("CloseWrite", func() error { return c.CloseWrite() })
	p.do("Close", func() error { return c.Close() })
}

// peerScript: the other endpoint; it gives up at the first error, like the data phase of the other families.
func (p *lfParty) peerScript(client bool) {
	c := p.conn
	buf := make([]byte, 64)
	defer func() {
		p.do("Close", func() error { return c.Close() })
		p.inspect()
	}()
	if p.do("Handshake", func() error { p.hsErr = c.Handshake(); return p.hsErr }) != nil {
		return
	}
	if client {
		for _, m := range lfMsgs {
			if p.do("Write", func() error { _, err := c.Write([]byte(m)); return err }) != nil {
				return
			}
			for got, it := 0, 0; got < len(m) && it < 64; it++ {
				var n int
				if p.do("Read", func() (err error) { n, err = c.Read(buf); return }) != nil {
					return
				}
				got += n
			}
		}
		return
	}
	for it := 0; it < 64; it++ {
		var n int
		if p.do("Read", func() (err error) { n, err = c.Read(buf); return }) != nil {
			return
		}
		if p.do("Write", func() error { _, err := c.Write(buf[:n]); return err }) != nil {
			return
		}
	}
}

// ---------------------------------------------------------------- the wrapped transport

type wrec struct {
	Idx     int    `json:"index"`
	Len     int    `json:"len"`
	What    string `json:"what"`
	Call    string `json:"during"`
	CallIdx int    `json:"during_call_index"`
	Failed  bool   `json:"failed,omitempty"`
}

type lfConn struct {
	inner     net.Conn
	p         *lfParty
	delivered *atomic.Bool // the peer's message / faulted bytes are on their way to the EUT

	mu        sync.Mutex
	log       []wrec
	failFrom  int
	kind      string
	onArm     bool   // writes fail from the moment the EUT consumed the peer's message
	armIn     string // "": any call; "Read": only while the EUT script is in a Read call (data-phase inserts)
	failing   bool
	armed     bool
	armedAt   int
	armedCall string
	first     *wrec
	gateNext  bool
	gateCall  string
	parked    chan struct{}
	release   chan struct{}
	released  bool
	inT       atomic.Int32 // calls currently inside the transport
}

var lfHsWire = map[byte]bool{0: true, 1: true, 2: true, 4: true, 11: true, 12: true, 13: true, 14: true, 15: true, 16: true, 20: true, 22: true}

// describeWrite names what a transport write carries, from the outside: record types, and the message names of
// unprotected handshake records.
func describeWrite(b []byte, call string) string {
	phase := "data phase: "
	if call == "Handshake" {
		phase = "handshake phase: "
	}
	recs := tlsx.ParseRecords(b)
	if len(recs) == 0 || recs[len(recs)-1].End() != len(b) {
		return phase + "bytes that are not whole records"
	}
	var parts []string
	add := func(s string) {
		if len(parts) == 0 || parts[len(parts)-1] != s {
			parts = append(parts, s)
		}
	}
	for _, r := range recs {
		switch r.Type {
		case 20:
			add("change_cipher_spec")
		case 21:
			add("alert")
		case 23:
			add("application_data record")
		case 22:
			var names []string
			pl := r.Payload
			for len(pl) >= 4 {
				l := int(pl[1])<<16 | int(pl[2])<<8 | int(pl[3])
				if !lfHsWire[pl[0]] || 4+l > len(pl) {
					names = nil
					break
				}
				names = append(names, hsName(pl[0]))
				pl = pl[4+l:]
			}
			if len(names) == 0 || len(pl) != 0 {
				add("protected handshake record")
			} else {
				for _, n := range names {
					add(n)
				}
			}
		default:
			add(recTypeName(r.Type))
		}
	}
	return phase + strings.Join(parts, "+")
}

func (f *lfConn) Write(b []byte) (int, error) {
	f.inT.Add(1)
	defer f.inT.Add(-1)
	f.mu.Lock()
	idx := len(f.log)
	call, ci := f.p.current()
	gate := f.gateNext
	f.gateNext = false
	if gate {
		call = "concurrent " + f.gateCall
	}
	f.log = append(f.log, wrec{Idx: idx, Len: len(b), What: describeWrite(b, call), Call: call, CallIdx: ci})
	f.mu.Unlock()
	if gate {
		// a slow transport: this write stays parked until the EUT has consumed the peer's message
		close(f.parked)
		<-f.release
	}
	f.mu.Lock()
	fail := f.failing || (f.failFrom >= 0 && idx >= f.failFrom)
	h := 0
	var err error
	if fail {
		f.failing = true
		f.log[idx].Failed = true
		err = lfErr(f.kind)
		if f.first == nil {
			r := f.log[idx]
			f.first = &r
			h = lfShort(f.kind, len(b))
		}
	}
	f.mu.Unlock()
	if !fail {
		return f.inner.Write(b)
	}
	if h > 0 {
		n, _ := f.inner.Write(b[:h])
		return n, err
	}
	return 0, err
}

func (f *lfConn) Read(b []byte) (int, error) {
	f.inT.Add(1)
	n, err := f.inner.Read(b)
	f.inT.Add(-1)
	call, ci := f.p.current()
	f.maybeArm(call, ci)
	return n, err
}

// maybeArm is called when a transport Read of the EUT returns and when a call of the EUT script begins: once the
// peer's message is on its way (or already buffered in the TLS layer) the EUT is about to process it. For
// data-phase inserts only Read calls count: bytes that arrive while the EUT is still in Handshake are buffered,
// the EUT's own last flight is not a reaction to them.
func (f *lfConn) maybeArm(call string, ci int) {
	if f.delivered == nil || !f.delivered.Load() || (f.armIn != "" && call != f.armIn) {
		return
	}
	f.arm(true, call, ci)
}

// arm: the EUT has consumed (the beginning of) the peer's message; a parked concurrent write is let go.
func (f *lfConn) arm(consumed bool, call string, ci int) {
	f.mu.Lock()
	if !f.armed {
		f.armed = true
		if f.onArm {
			f.failing = true
		}
		if consumed {
			f.armedCall, f.armedAt = call, ci
		}
	}
	rel := f.release != nil && !f.released
	if rel {
		f.released = true
	}
	f.mu.Unlock()
	if rel {
		close(f.release)
	}
}

func (f *lfConn) Close() error                       { return f.inner.Close() }
func (f *lfConn) LocalAddr() net.Addr                { return f.inner.LocalAddr() }
func (f *lfConn) RemoteAddr() net.Addr               { return f.inner.RemoteAddr() }
func (f *lfConn) SetDeadline(t time.Time) error      { return nil }
func (f *lfConn) SetReadDeadline(t time.Time) error  { return nil }
func (f *lfConn) SetWriteDeadline(t time.Time) error { return nil }

var _ net.Conn = (*lfConn)(nil)

// ---------------------------------------------------------------- one connection

type lfHang struct {
	Side        string   `json:"side"`
	Call        string   `json:"call"`
	Concurrent  bool     `json:"concurrent_call,omitempty"`
	InTransport bool     `json:"inside_a_transport_call"`
	Forced      bool     `json:"harness_closed_both_directions"`
	Goroutines  []string `json:"goroutines"`
	// Deadlocked: every goroutine of the case that has not returned is blocked on a lock / channel (none is running,
	// runnable or inside a transport call) while both transport directions are closed: nothing can wake them any more.
	Deadlocked bool     `json:"deadlocked"`
	States     []string `json:"states_of_the_unfinished_goroutines"`
	harness    string   // not a verdict: the harness itself is stuck
}

type lfOut struct {
	panics    []string
	hang      *lfHang
	first     *wrec
	writes    []wrec
	armedAt   int
	armedCall string
	elicits   bool // a transport write failed inside the very Read that consumed the peer's message
	parked    bool
	applied   bool
	hsOK      [2]bool
	trace     [2][]string
	streams   [2][]byte
	seen      [2][]tlsx.Seen
	desync    string
	stalled   bool
	forced    bool
}

func lfConfigs(lj *lfJob, logs [2]*tlsx.KeyLog) (cc, sc *tls.Config, kcf *kconf, cf *conf, err error) {
	if lj.KConf != "" {
		for _, k := range kconfs(true) {
			if k.name == lj.KConf {
				k := k
				cc, sc = mkKConfigs(k, logs)
				return cc, sc, &k, nil, nil
			}
		}
		return nil, nil, nil, nil, fmt.Errorf("unknown keyed config %q", lj.KConf)
	}
	c, ok := confByName(lj.Conf)
	if !ok {
		return nil, nil, nil, nil, fmt.Errorf("unknown config %q", lj.Conf)
	}
	cc, sc = mkConfigs(c, "")
	return cc, sc, nil, c, nil
}

func runLF(lj *lfJob, g lfGuards) lfOut {
	var o lfOut
	o.armedAt = -1
	logs := [2]*tlsx.KeyLog{{}, {}}
	cc, sc, kcf, cf, err := lfConfigs(lj, logs)
	if err != nil {
		o.panics = append(o.panics, "harness: "+err.Error())
		return o
	}
	// prime the session cache with an unfaulted connection
	if (kcf != nil && kcf.resume) || (cf != nil && cf.resume) {
		var pmu sync.Mutex
		s0 := tlsx.Handshake(cc, sc, nil)
		if s0.Client.OKDone && s0.Server.OKDone {
			var o0 kout
			exchange2(s0, &o0, &pmu)
		}
		s0.Close()
	}
	cp, sp, n := tlsx.NewPipe()
	var delivered atomic.Bool
	var keyed *tlsx.Keyed
	switch {
	case kcf != nil && (lj.Keyed != nil || lj.proxy):
		keyed = tlsx.NewKeyed()
		keyed.Logs = logs
		if kc := lj.Keyed; kc != nil {
			keyed.Rewrite = func(rec tlsx.Seen) ([]tlsx.Plain, bool) {
				if int(rec.Dir) != kc.Dir {
					return nil, false
				}
				switch {
				case rec.Index == kc.Index:
					o.applied = true
					delivered.Store(true)
					if kc.Span <= 1 {
						return kc.Repl, true
					}
					return nil, true
				case kc.Span == 2 && rec.Index == kc.Index+1:
					return kc.Repl, true
				}
				return nil, false
			}
		}
		keyed.Install(n)
	case len(lj.Edits) > 0:
		applied := tlsx.InstallEdits(n, lj.Edits)
		inner := n.Mitm
		n.Mitm = func(d tlsx.Dir, nth int, data []byte) [][]byte {
			out := inner(d, nth, data)
			if *applied > 0 {
				o.applied = true
				delivered.Store(true)
			}
			return out
		}
	}
	client := lj.Role == "client"
	lf := &lfConn{failFrom: -1, kind: lj.Kind, delivered: &delivered, armedAt: -1}
	var eut, peer *lfParty
	if client {
		lf.inner = cp
		eut = newParty("client", tls.Client(lf, cc))
		peer = newParty("server", tls.Server(sp, sc))
	} else {
		lf.inner = sp
		eut = newParty("server", tls.Server(lf, sc))
		peer = newParty("client", tls.Client(cp, cc))
	}
	lf.p = eut
	if lj.Kind != "" {
		if lj.K >= 0 {
			lf.failFrom = lj.K
		} else {
			lf.onArm = true
		}
	}
	if lj.Family == famMsg {
		lf.armIn = "Read"
	}
	eut.before = func(i int, name string) { lf.maybeArm(name, i) }
	closeBoth := func() {
		lf.arm(false, "", -1) // lets a parked concurrent write go
		n.CloseDir(tlsx.C2S)
		n.CloseDir(tlsx.S2C)
	}
	// the concurrent call of the states Write / Close
	concurrent := false
	var started atomic.Bool
	if lj.Kind != "" && (lj.State == "Write" || lj.State == "Close") {
		eut.doneA = make(chan struct{})
		concurrent = true
		eut.before = func(i int, name string) {
			defer lf.maybeArm(name, i)
			if started.Load() || i != lj.ParkAt {
				return
			}
			started.Store(true)
			lf.mu.Lock()
			lf.gateNext, lf.gateCall = true, lj.State
			lf.parked, lf.release = make(chan struct{}), make(chan struct{})
			lf.mu.Unlock()
			go func() {
				defer close(eut.doneA)
				eut.gidA.Store(curGID())
				if pan, msg, site := ev.Try(func() {
					eut.callA.Store(lj.State)
					if lj.State == "Write" {
						eut.conn.Write([]byte("concurrent write"))
					} else {
						eut.conn.Close()
					}
					eut.callA.Store("")
				}); pan {
					eut.mu.Lock()
					eut.panics = append(eut.panics, fmt.Sprintf("%s concurrent %s: %s @ %s", eut.who, lj.State, ev.MsgClass(msg), site))
					eut.mu.Unlock()
					closeBoth()
				}
			}()
			select {
			case <-lf.parked:
				o.parked = true
			case <-eut.doneA:
				// the call returned without a transport write: nothing is parked
				lf.mu.Lock()
				lf.gateNext = false
				lf.mu.Unlock()
			}
		}
		eut.after = func(i int, name string) {
			if i == lj.ParkAt {
				lf.arm(false, "", -1) // the Read is over: whatever it consumed, the parked write is let go (and fails)
			}
		}
	} else if eut.doneA == nil {
		eut.doneA = make(chan struct{})
		close(eut.doneA)
	}
	go peer.run(func() { peer.peerScript(!client) }, closeBoth)
	go func() {
		eut.run(func() { eut.eutScript(client) }, closeBoth)
		if concurrent && !started.Load() {
			close(eut.doneA) // the script ended before the call the concurrent one was to accompany
		}
	}()

	all := make(chan struct{})
	go func() {
		<-eut.done
		<-eut.doneA
		<-peer.done
		close(all)
	}()
	wait := func(d time.Duration) bool {
		t := time.NewTimer(d)
		defer t.Stop()
		select {
		case <-all:
			return true
		case <-t.C:
			// (a process that was stopped for a while finds both ready: the parties get one more chance)
			runtime.Gosched()
			select {
			case <-all:
				return true
			default:
				return false
			}
		}
	}
	if !wait(g.t1) {
		// establish the hypothesis whatever state the parties are in: both directions of the transport closed
		o.forced = true
		closeBoth()
		if !wait(g.t2) {
			o.hang = lfHangInfo(eut, peer, lf)
		}
	}
	for _, p := range []*lfParty{eut, peer} {
		p.mu.Lock()
		o.panics = append(o.panics, p.panics...)
		p.mu.Unlock()
	}
	if o.hang == nil {
		// everything has returned: the results can be read without synchronisation
		pi, ei := 1, 0
		if !client {
			pi, ei = 0, 1
		}
		o.hsOK[ei], o.hsOK[pi] = eut.hsErr == nil, peer.hsErr == nil
		o.trace[ei], o.trace[pi] = eut.trace, peer.trace
	}
	lf.mu.Lock()
	o.writes = append([]wrec(nil), lf.log...)
	if lf.first != nil {
		r := *lf.first
		o.first = &r
	}
	o.armedAt, o.armedCall = lf.armedAt, lf.armedCall
	lf.mu.Unlock()
	o.elicits = o.first != nil && o.armedAt >= 0 && o.armedCall == "Read" && o.first.CallIdx == o.armedAt && o.first.Call == "Read"
	o.stalled = n.Stalled
	o.streams[0], o.streams[1] = n.Stream(tlsx.C2S), n.Stream(tlsx.S2C)
	if keyed != nil && o.hang == nil {
		o.seen, o.desync = keyed.Seen, keyed.Desync
	}
	return o
}

// lfHangInfo names the first call that has not returned (EUT script, EUT concurrent call, peer script).
func lfHangInfo(eut, peer *lfParty, lf *lfConn) *lfHang {
	buf := make([]byte, 1<<20)
	dump := string(buf[:runtime.Stack(buf, true)])
	isDone := func(ch chan struct{}) bool {
		select {
		case <-ch:
			return true
		default:
			return false
		}
	}
	h := &lfHang{Forced: true, InTransport: lf.inT.Load() > 0}
	var gid int64
	switch {
	case !isDone(eut.done):
		h.Side, gid = eut.who, eut.gid.Load()
		h.Call, _ = eut.call.Load().(string)
		if h.Call == "" && !isDone(eut.doneA) {
			// the script goroutine waits for the concurrent call to reach its transport write
			h.Call, _ = eut.callA.Load().(string)
			h.Concurrent, gid = true, eut.gidA.Load()
		}
	case !isDone(eut.doneA):
		h.Side, gid, h.Concurrent = eut.who, eut.gidA.Load(), true
		h.Call, _ = eut.callA.Load().(string)
	default:
		h.Side, gid = peer.who, peer.gid.Load()
		h.Call, _ = peer.call.Load().(string)
		h.InTransport = false
	}
	h.Goroutines = goroutineFrames(dump, gid)
	if h.Call == "" {
		h.harness = "a script goroutine is stuck between two calls"
	}
	h.Deadlocked = true
	for _, u := range []struct {
		done chan struct{}
		gid  int64
	}{{eut.done, eut.gid.Load()}, {eut.doneA, eut.gidA.Load()}, {peer.done, peer.gid.Load()}} {
		if isDone(u.done) {
			continue
		}
		fr := goroutineFrames(dump, u.gid)
		state := "unknown"
		if len(fr) > 0 {
			state = strings.TrimPrefix(fr[0], fmt.Sprintf("goroutine %d ", u.gid))
		}
		h.States = append(h.States, state)
		if !blockedState(state) {
			h.Deadlocked = false
		}
		for _, l := range fr {
			if strings.Contains(l, "tlsx.(*Conn).Read") || strings.Contains(l, "main.(*lfConn).Write") {
				h.Deadlocked = false
				h.harness = "a party is still inside a transport call although both directions are closed"
			}
		}
	}
	return h
}

// blockedState: the wait reason in a goroutine dump header ("[sync.Mutex.Lock, 2 minutes]:") is one that only
// another goroutine can end.
func blockedState(s string) bool {
	s = strings.TrimPrefix(s, "[")
	for _, p := range []string{"sync.Mutex.Lock", "sync.RWMutex", "semacquire", "chan receive", "chan send", "select", "sync.Cond.Wait", "sync.WaitGroup.Wait"} {
		if strings.HasPrefix(s, p) {
			return true
		}
	}
	return false
}

// goroutineFrames: state line and the zcrypto / transport frames of one goroutine of a dump.
func goroutineFrames(dump string, gid int64) []string {
	var out []string
	for _, blk := range strings.Split(dump, "\n\n") {
		if !strings.HasPrefix(blk, fmt.Sprintf("goroutine %d [", gid)) {
			continue
		}
		for i, l := range strings.Split(blk, "\n") {
			if i == 0 || ((strings.Contains(l, "zcrypto/tls.") || strings.Contains(l, "tlsx.") || strings.Contains(l, "main.(*lfConn)") || strings.HasPrefix(l, "sync.")) && len(out) < 14) {
				out = append(out, strings.TrimSpace(l))
			}
		}
	}
	return out
}

// ---------------------------------------------------------------- menus

func insertName(k *kcase) string {
	if i := strings.Index(k.Desc, ": preceded by "); i >= 0 {
		return k.Desc[i+len(": preceded by "):]
	}
	return k.Desc
}

// insertClass: the first word of an insert name without digits ("KeyUpdate", "NewSessionTicket", "Alert", ...).
func insertClass(name string) string {
	end := len(name)
	for i, r := range name {
		if r == '(' || r == ' ' {
			end = i
			break
		}
	}
	var b strings.Builder
	for _, r := range name[:end] {
		if r < '0' || r > '9' {
			b.WriteRune(r)
		}
	}
	return b.String()
}

func insertGroup(name string) string {
	switch c := insertClass(name); {
	case c == "KeyUpdate" || c == "NewSessionTicket" || c == "Alert":
		return c
	case c == "HelloRequest" || c == "ClientHello" || c == "ServerHello":
		return "renegotiation attempt"
	case strings.Contains(name, "(empty)") || strings.Contains(name, "(4 zero bytes)"):
		return "other handshake type"
	}
	return "record-level (empty / oversized / odd type / unprotected)"
}

type lfMeta struct {
	N1, N2a, N2b int
	Writes       map[string][]string // config | role -> what each transport write of the fault-free run carries
}

func receiverOf(d int) string {
	if d == int(tlsx.C2S) {
		return "server"
	}
	return "client"
}

// lfBuild enumerates the cases of the three families (deterministically: every process rebuilds the list).
func lfBuild(thorough bool, cfs []conf, kcfs []kconf, lazy func(func() job), m *meta, broken func(string, ...any)) {
	lm := &m.Local
	lm.Writes = map[string][]string{}
	kinds1 := lfKinds(thorough, famLocal)
	kinds2 := lfKinds(thorough, famFlight)
	baseline := func(tmpl lfJob) (outs [2]lfOut, ok bool) {
		for ri, role := range []string{"client", "server"} {
			j := tmpl
			j.Role, j.K = role, -1
			outs[ri] = runLF(&j, lfFirst)
			m.Baselines++
			o := &outs[ri]
			name := tmpl.Conf + tmpl.KConf
			if o.hang != nil || len(o.panics) > 0 || !o.hsOK[0] || !o.hsOK[1] || o.forced || o.stalled || o.first != nil || o.desync != "" {
				for _, p := range o.panics {
					m.BaselineViol = append(m.BaselineViol, violRec{"panic: " + p, job{lf: &j}.describe()})
				}
				broken("local-transport baseline of %s (%s wrapped) did not complete: hang=%v panics=%v hs=%v forced=%v stalled=%v desync=%q trace=%v", name, role, o.hang != nil, o.panics, o.hsOK, o.forced, o.stalled, o.desync, o.trace)
				return outs, false
			}
		}
		// the wrapper is transparent and the endpoints deterministic: both runs give the same transcript
		if string(outs[0].streams[0]) != string(outs[1].streams[0]) || string(outs[0].streams[1]) != string(outs[1].streams[1]) {
			broken("local-transport baseline of %s%s is not reproducible", tmpl.Conf, tmpl.KConf)
			return outs, false
		}
		return outs, true
	}
	family1 := func(tmpl lfJob, outs [2]lfOut) {
		for ri, role := range []string{"client", "server"} {
			var whats []string
			for _, w := range outs[ri].writes {
				whats = append(whats, w.What)
			}
			lm.Writes[tmpl.Conf+tmpl.KConf+" | "+role] = whats
			for k, w := range outs[ri].writes {
				for _, kind := range kinds1 {
					lazy(func() job {
						j := tmpl
						j.Family, j.Role, j.K, j.Kind, j.What = famLocal, role, k, kind, w.What
						return job{lf: &j}
					})
					lm.N1++
				}
			}
		}
	}
	strideW, strideK := 5, 3
	if thorough {
		strideW, strideK = 1, 1
	}
	for ci := range cfs {
		cf := &cfs[ci]
		tmpl := lfJob{Conf: cf.name}
		outs, ok := baseline(tmpl)
		if !ok {
			continue
		}
		family1(tmpl, outs)
		// (2b) the wire-fault menu (the quick one in both tiers) over this baseline: every strideW-th fault, kinds in rotation
		cnt := 0
		faultMenu(cf, outcome{streams: outs[0].streams}, false, func(j job) {
			if len(j.edits) == 0 {
				return
			}
			cnt++
			if cnt%strideW != 0 {
				return
			}
			ks := kinds2
			if !thorough {
				ks = []string{kinds2[(cnt/strideW)%len(kinds2)]}
			}
			for _, kind := range ks {
				lazy(func() job {
					x := tmpl
					x.Family, x.Role, x.K, x.Kind, x.State, x.Edits = famFlight, receiverOf(int(j.edits[0].Dir)), -1, kind, "Read", j.edits
					return job{lf: &x}
				})
				lm.N2b++
			}
		})
	}
	for ki := range kcfs {
		kcf := &kcfs[ki]
		tmpl := lfJob{KConf: kcf.name}
		outs, ok := baseline(tmpl)
		if !ok {
			continue
		}
		family1(tmpl, outs)
		// the plaintext view of this script's transcript, through the proxy
		ptmpl := tmpl
		ptmpl.proxy = true
		pouts, ok := baseline(ptmpl)
		if !ok {
			continue
		}
		pouts[0].seen, pouts[1].seen = trimLateCloseNotify(pouts[0].seen), trimLateCloseNotify(pouts[1].seen)
		if !sameSeen(pouts[0].seen, pouts[1].seen) {
			broken("local-transport keyed baseline of %s is not reproducible", kcf.name)
			continue
		}
		tls13 := kcf.vers == tls.VersionTLS13
		slice := map[string]bool{}
		names, _ := postInserts(pouts[0].seen, tls13, false)
		for _, nm := range names {
			slice[nm] = true
		}
		cnt := 0
		emitK := func(k kcase) {
			if strings.HasSuffix(k.Class, "data-phase insert") {
				kk := k
				lazy(func() job {
					x := tmpl
					x.Family, x.Role, x.K, x.Keyed, x.Bundle = famMsg, receiverOf(kk.Dir), -1, &kk, true
					x.Expand = thorough || slice[insertName(&kk)]
					return job{lf: &x}
				})
				lm.N2a++
				return
			}
			cnt++
			if cnt%strideK != 0 {
				return
			}
			ks := kinds2
			if !thorough {
				ks = []string{kinds2[(cnt/strideK)%len(kinds2)]}
			}
			for _, kind := range ks {
				kk := k
				lazy(func() job {
					x := tmpl
					x.Family, x.Role, x.K, x.Kind, x.State, x.Keyed = famFlight, receiverOf(kk.Dir), -1, kind, "Read", &kk
					return job{lf: &x}
				})
				lm.N2b++
			}
		}
		if !thorough {
			keyedMenu(*kcf, pouts[0].seen, false, emitK)
		} else {
			// thorough: the inserts of the thorough menu (full menu in front of EVERY data record), the handshake faults of the quick menu x every kind
			keyedMenu(*kcf, pouts[0].seen, true, func(k kcase) {
				if strings.HasSuffix(k.Class, "data-phase insert") {
					emitK(k)
				}
			})
			keyedMenu(*kcf, pouts[0].seen, false, func(k kcase) {
				if !strings.HasSuffix(k.Class, "data-phase insert") {
					emitK(k)
				}
			})
		}
	}
}

// ---------------------------------------------------------------- execution (worker side)

// lfFam: per process; a family x role is not explored further after its first confirmed hang.
type lfFam struct {
	mu      sync.Mutex
	hung    map[string]bool
	skipped map[string]int
	locks   map[string]*sync.Mutex
	dir     string          // shared with the other worker processes of the run: a marker file per confirmed family
	busy    map[string]bool // a suspect of the family is being confirmed right now
	noDefer bool
}

func (f *lfFam) confirming(key string) bool {
	f.mu.Lock()
	defer f.mu.Unlock()
	return f.busy[key] && !f.noDefer
}

func (f *lfFam) setBusy(key string, b bool) {
	f.mu.Lock()
	f.busy[key] = b
	f.mu.Unlock()
}

func newLFFam() *lfFam {
	f := &lfFam{hung: map[string]bool{}, skipped: map[string]int{}, locks: map[string]*sync.Mutex{}, busy: map[string]bool{}}
	if stop := os.Getenv("C32_STOP"); stop != "" {
		f.dir = filepath.Dir(stop)
	}
	return f
}

func (f *lfFam) marker(key string) string {
	return filepath.Join(f.dir, fmt.Sprintf("hung-%x", sha256.Sum256([]byte(key)))[:40])
}

func (f *lfFam) isHung(key string, count bool) bool {
	f.mu.Lock()
	defer f.mu.Unlock()
	if !f.hung[key] && f.dir != "" {
		if _, err := os.Stat(f.marker(key)); err == nil {
			f.hung[key] = true // confirmed by another worker process
		}
	}
	if f.hung[key] && count {
		f.skipped[key]++
	}
	return f.hung[key]
}

func (f *lfFam) setHung(key string) {
	f.mu.Lock()
	f.hung[key] = true
	if f.dir != "" {
		os.WriteFile(f.marker(key), nil, 0o644)
	}
	f.mu.Unlock()
}

func (f *lfFam) lock(key string) *sync.Mutex {
	f.mu.Lock()
	defer f.mu.Unlock()
	if f.locks[key] == nil {
		f.locks[key] = &sync.Mutex{}
	}
	return f.locks[key]
}

func (f *lfFam) notes() []string {
	f.mu.Lock()
	defer f.mu.Unlock()
	var out []string
	for k, n := range f.skipped {
		out = append(out, fmt.Sprintf("%d connections of family [%s] were not explored after its first confirmed hang", n, k))
	}
	return out
}

// lfWhat: what the failing write was, for signatures and outcome classes.
func lfWhat(x *lfJob, o *lfOut) string {
	switch {
	case o.first == nil:
		return "none: no transport write had failed"
	case x.Family == famLocal && x.What != "":
		return x.What
	case x.Family == famMsg && o.first.CallIdx == o.armedAt && o.armedAt >= 0 && strings.HasSuffix(o.first.Call, "Read"):
		return "the reply to the peer's " + insertClass(insertName(x.Keyed))
	}
	return o.first.What
}

func lfWitness(x *lfJob, o *lfOut) map[string]any {
	w := map[string]any{"local": x}
	if o != nil {
		w["transport_writes_of_the_endpoint_under_test"] = o.writes
		if o.first != nil {
			w["first_failed_write"] = o.first
		}
		if o.hang != nil {
			w["hang"] = o.hang
		}
		if x.Keyed != nil || len(x.Edits) > 0 {
			w["peer_message_consumed_during"] = fmt.Sprintf("%s (script call %d)", o.armedCall, o.armedAt)
		}
		if x.State == "Write" || x.State == "Close" {
			w["concurrent_call_parked_in_its_transport_write"] = o.parked
		}
	}
	return w
}

// runLFCase runs one local-transport case (a bundle: its probe and expansions). It returns true when the case was
// put off because a suspect of its family is being confirmed (the caller runs it again later).
func runLFCase(j job, r *result, fam *lfFam) (deferred bool) {
	lj := j.lf
	if fam.confirming(lj.Family + " | " + lj.Role) {
		return true
	}
	one := func(x *lfJob) *lfOut {
		key := x.Family + " | " + x.Role
		if fam.isHung(key, true) {
			return nil
		}
		o := runLF(x, lfFirst)
		if o.hang == nil {
			lfRecord(r, j, x, &o)
			return &o
		}
		// SUSPECT: confirm by re-running the same case three times (one confirmation at a time per family; a
		// suspect that turns up while one is in progress is not confirmed separately)
		mu := fam.lock(key)
		if !mu.TryLock() {
			fam.mu.Lock()
			fam.skipped[key+" (suspect while another suspect of the family was being confirmed)"]++
			fam.mu.Unlock()
			return nil
		}
		defer mu.Unlock()
		if fam.isHung(key, true) {
			return nil
		}
		fam.setBusy(key, true)
		defer fam.setBusy(key, false)
		r.Suspects++
		g := lfConfirm
		if o.hang.Deadlocked {
			g = lfConfirmDead
		}
		confirmed := 0
		last := o
		for k := 0; k < 3; k++ {
			o2 := runLF(x, g)
			if o2.hang == nil || o2.hang.Deadlocked != o.hang.Deadlocked {
				break
			}
			last = o2
			confirmed++
		}
		switch {
		case confirmed < 3:
			r.Incomplete = append(r.Incomplete, fmt.Sprintf("local-transport case %d did not finish within %v+%v under load but completed (or looked different) when re-run (not a verdict)", j.idx, lfFirst.t1, lfFirst.t2))
		case last.hang.harness != "":
			r.Incomplete = append(r.Incomplete, fmt.Sprintf("local-transport case %d: %s (harness, not a verdict): %v", j.idx, last.hang.harness, last.hang.Goroutines))
		default:
			sig := fmt.Sprintf("hang: %s %s does not return after the transport is closed (%s, local write failure at %s)", last.hang.Side, last.hang.Call, x.Family, lfWhat(x, &last))
			if !last.hang.Deadlocked {
				sig = "busy or slow " + sig // no lock cycle: decided by the wall-clock guards alone (4 runs)
			}
			r.Viol = append(r.Viol, violRec{sig, lfWitness(x, &last)})
			fam.setHung(key)
		}
		return nil
	}
	if !lj.Bundle {
		one(lj)
		return false
	}
	thorough := os.Getenv("C32_TIER") == "thorough"
	probe := *lj
	probe.Bundle, probe.Expand, probe.Kind, probe.State = false, false, "permanent", "Read"
	o := one(&probe)
	grp := "lf2a " + insertGroup(insertName(lj.Keyed)) + ": "
	switch {
	case o == nil:
		return false
	case !o.applied || o.armedAt < 0:
		r.Hist[grp+"insert point not reached"]++
	case o.elicits:
		r.Hist[grp+"elicits a write inside the Read that consumes it; that write failed"]++
		r.Counters["lf2a elicits | "+lj.KConf+" | "+lj.Role]++
	case o.first != nil:
		r.Hist[grp+"no reply; a later write of the application failed"]++
	default:
		r.Hist[grp+"no reply; no write at all after it"]++
	}
	if !o.elicits || !lj.Expand {
		return false
	}
	for _, st := range []string{"Read", "Write", "Close"} {
		for _, kind := range lfKinds(thorough, famMsg) {
			if st == "Read" && kind == "permanent" {
				continue
			}
			x := probe
			x.Kind, x.State, x.ParkAt = kind, st, o.armedAt
			if ox := one(&x); ox != nil && st != "Read" {
				if ox.parked {
					r.Counters["lf2a concurrent "+st+" parked in its transport write when the message arrived"]++
				} else {
					r.Counters["lf2a concurrent "+st+" returned without a transport write"]++
				}
			}
		}
	}
	return false
}

func lfRecord(r *result, j job, x *lfJob, o *lfOut) {
	r.States++
	r.Records += int64(len(tlsx.ParseRecords(o.streams[0])) + len(tlsx.ParseRecords(o.streams[1])))
	for _, p := range o.panics {
		// one signature per message class and site; who / which call / which family are in the witness
		sig := p
		if i := strings.Index(p, ": "); i >= 0 {
			sig = p[i+2:]
		}
		w := lfWitness(x, o)
		w["panic"] = p
		r.Viol = append(r.Viol, violRec{"panic: " + sig + " (the endpoint's own transport write failing)", w})
	}
	fired := "no transport write failed"
	if o.first != nil {
		fired = "failed"
		r.Counters["lf fired"]++
	}
	switch x.Family {
	case famLocal:
		r.Counters["lf1 connections"]++
		if o.first == nil {
			r.Counters["lf1 NOT REACHED"]++
		} else if o.first.What != x.What {
			r.Counters["lf1 DIVERGED"]++
		}
		r.Hist["lf1 kind="+x.Kind]++
		r.Hist["lf1 "+x.Role+": "+x.What+" failed"]++
		hs := "failed"
		if (x.Role == "client" && o.hsOK[0]) || (x.Role == "server" && o.hsOK[1]) {
			hs = "had completed"
		}
		r.Hist["lf1 handshake of the endpoint under test "+hs]++
	case famMsg:
		r.Hist[fmt.Sprintf("lf2a kind=%s parked_in=%s: %s", x.Kind, x.State, fired)]++
	case famFlight:
		what := "none"
		if o.first != nil {
			what = o.first.What
			if strings.Contains(what, "alert") {
				r.Counters["lf2b alert write failed"]++
			}
		}
		if !o.applied {
			what = "fault not reached"
		}
		r.Hist["lf2b kind="+x.Kind]++
		r.Hist["lf2b first failed write: "+what]++
	}
	if o.forced {
		r.Counters["lf harness closed the transport after the first guard (load)"]++
	}
	if j.idx%4999 == 0 {
		r.Samples = append(r.Samples, map[string]any{"case": lfWitness(x, o), "trace_client": o.trace[0], "trace_server": o.trace[1]})
	}
}
