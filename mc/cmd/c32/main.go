// C32 — TLS endpoints survive arbitrary peer behaviour.
//
// Engine E4: real zcrypto client <-> real zcrypto server over the deterministic
// tlsx transport; the wire-fault menu is applied at every position of the
// baseline transcript of each configuration (both directions, so both roles
// face a corrupted peer), plus exhaustive short raw byte streams against each
// role. Oracle: no panic in any call, and every call returns once the
// transport is closed (blocking is resolved structurally by the transport's
// stall detection; a wall-clock net only flags suspects, which are re-run).
package main

import (
	"encoding/json"
	"fmt"
	"io"
	"runtime"
	"strings"
	"sync"
	"sync/atomic"
	"time"

	"github.com/zmap/zcrypto/tls"
	"github.com/zmap/zcrypto/x509"
	"verifmc/internal/ev"
	"verifmc/internal/tlsx"
)

type conf struct {
	name   string
	key    string // server leaf key fixture
	vers   uint16
	suites []uint16
	cauth  bool // client certificate requested+required
	resume bool // baseline is the second (resuming) connection
	zscan  bool // zcrypto scanning extras on the client
}

func confs(thorough bool) []conf {
	var out []conf
	add := func(c conf) { out = append(out, c) }
	v10, v11, v12, v13 := uint16(tls.VersionTLS10), uint16(tls.VersionTLS11), uint16(tls.VersionTLS12), uint16(tls.VersionTLS13)
	add(conf{name: "tls12-ecdhe-ecdsa-gcm", key: "p256", vers: v12, suites: []uint16{tls.TLS_ECDHE_ECDSA_WITH_AES_128_GCM_SHA256}})
	add(conf{name: "tls13-ecdsa", key: "p256", vers: v13})
	add(conf{name: "tls12-rsa-cbc", key: "rsa2048", vers: v12, suites: []uint16{tls.TLS_RSA_WITH_AES_128_CBC_SHA}})
	add(conf{name: "tls10-ecdhe-rsa-cbc", key: "rsa2048", vers: v10, suites: []uint16{tls.TLS_ECDHE_RSA_WITH_AES_128_CBC_SHA}})
	add(conf{name: "tls12-dhe-rsa-gcm", key: "rsa2048", vers: v12, suites: []uint16{tls.TLS_DHE_RSA_WITH_AES_128_GCM_SHA256}})
	add(conf{name: "tls12-ecdhe-ecdsa-clientauth", key: "p256", vers: v12, suites: []uint16{tls.TLS_ECDHE_ECDSA_WITH_CHACHA20_POLY1305}, cauth: true})
	add(conf{name: "tls12-ecdhe-ecdsa-resumed", key: "p256", vers: v12, suites: []uint16{tls.TLS_ECDHE_ECDSA_WITH_AES_128_GCM_SHA256}, resume: true})
	add(conf{name: "tls13-ed25519-resumed", key: "ed-srv-leaf", vers: v13, resume: true})
	add(conf{name: "tls12-ecdhe-rsa-zscan", key: "rsa2048", vers: v12, suites: []uint16{tls.TLS_ECDHE_RSA_WITH_AES_256_GCM_SHA384}, zscan: true})
	if thorough {
		add(conf{name: "tls13-rsa", key: "rsa2048", vers: v13})
		add(conf{name: "tls13-ecdsa-clientauth", key: "p256", vers: v13, cauth: true})
		add(conf{name: "tls11-rsa-3des", key: "rsa2048", vers: v11, suites: []uint16{tls.TLS_RSA_WITH_3DES_EDE_CBC_SHA}})
		add(conf{name: "tls10-rsa-rc4", key: "rsa2048", vers: v10, suites: []uint16{tls.TLS_RSA_WITH_RC4_128_SHA}})
		add(conf{name: "tls11-ecdhe-ecdsa-cbc", key: "p256", vers: v11, suites: []uint16{tls.TLS_ECDHE_ECDSA_WITH_AES_256_CBC_SHA}})
		add(conf{name: "tls10-dhe-rsa-cbc", key: "rsa2048", vers: v10, suites: []uint16{tls.TLS_DHE_RSA_WITH_AES_128_CBC_SHA}})
		add(conf{name: "tls12-ecdhe-ed25519", key: "ed-srv-leaf", vers: v12, suites: []uint16{tls.TLS_ECDHE_ECDSA_WITH_AES_128_GCM_SHA256}})
		add(conf{name: "tls12-rsa-cbc-sha256-zscan", key: "rsa2048", vers: v12, suites: []uint16{tls.TLS_RSA_WITH_AES_128_CBC_SHA256}, zscan: true})
		add(conf{name: "tls10-rsa-resumed", key: "rsa2048", vers: v10, suites: []uint16{tls.TLS_RSA_WITH_AES_128_CBC_SHA}, resume: true})
	}
	return out
}

type mapCache struct {
	mu sync.Mutex
	m  map[string]*tls.ClientSessionState
}

func (c *mapCache) Get(k string) (*tls.ClientSessionState, bool) {
	c.mu.Lock()
	defer c.mu.Unlock()
	s, ok := c.m[k]
	return s, ok
}
func (c *mapCache) Put(k string, s *tls.ClientSessionState) {
	c.mu.Lock()
	defer c.mu.Unlock()
	if s == nil {
		delete(c.m, k)
		return
	}
	c.m[k] = s
}

// outcome of one run
type outcome struct {
	cls     string
	panics  []string
	stalled bool
	streams [2][]byte
}

func mkConfigs(cf conf, seed string) (*tls.Config, *tls.Config) {
	id := tlsx.ServerIdentity(cf.key)
	cc, sc := tlsx.BaseConfigs(id, cf.name+seed)
	cc.MinVersion, cc.MaxVersion = cf.vers, cf.vers
	sc.MinVersion, sc.MaxVersion = tls.VersionTLS10, tls.VersionTLS13
	if cf.suites != nil {
		cc.CipherSuites = cf.suites
		sc.CipherSuites = cf.suites
		cc.ForceSuites = true // the client otherwise filters its offer to the small default table (no DHE)
	}
	if cf.cauth {
		cid := tlsx.ClientIdentity("p256b")
		cc.Certificates = []tls.Certificate{cid.TLSCert()}
		sc.ClientAuth = tls.RequireAndVerifyClientCert
		sc.ClientCAs = cid.Pool()
	}
	if cf.zscan {
		cc.InsecureSkipVerify = true
		cc.ExtendedMasterSecret = true
		cc.HeartbeatEnabled = true
		cc.SignedCertificateTimestampExt = true
		cc.ForceSessionTicketExt = true
		cc.NextProtos = []string{"h2", "http/1.1"}
		sc.NextProtos = []string{"http/1.1"}
	}
	if cf.resume {
		cc.ClientSessionCache = &mapCache{m: map[string]*tls.ClientSessionState{}}
		var k [32]byte
		copy(k[:], "verif-c32-ticket-key-0123456789abcdef")
		sc.SessionTicketKey = k
	} else {
		sc.SessionTicketsDisabled = true
	}
	return cc, sc
}

// exchange runs a small data phase: client writes, server echoes, both close.
func exchange(s *tlsx.Session, pan *[]string, pmu *sync.Mutex) {
	var wg sync.WaitGroup
	note := func(who string, f func()) {
		if p, msg, site := ev.Try(f); p {
			pmu.Lock()
			*pan = append(*pan, fmt.Sprintf("%s: %s @ %s", who, ev.MsgClass(msg), site))
			pmu.Unlock()
		}
	}
	wg.Add(1)
	go func() {
		defer wg.Done()
		note("server data phase", func() {
			buf := make([]byte, 64)
			n, err := s.Server.Conn.Read(buf)
			if err == nil {
				s.Server.Conn.Write(buf[:n])
				s.Server.Conn.Write([]byte("second record"))
			}
			s.Server.Conn.Close()
		})
	}()
	note("client data phase", func() {
		_, err := s.Client.Conn.Write([]byte("ping-ping-ping-ping"))
		if err == nil {
			io.ReadAll(s.Client.Conn)
		}
		s.Client.Conn.Close()
	})
	wg.Wait()
}

func runOnce(cf conf, edits []tlsx.Edit, seg int) outcome {
	var o outcome
	var pmu sync.Mutex
	cc, sc := mkConfigs(cf, "")
	if cf.resume {
		// prime the session cache with an unfaulted full handshake + data phase
		s0 := tlsx.Handshake(cc, sc, nil)
		if s0.Client.OKDone && s0.Server.OKDone {
			exchange(s0, &o.panics, &pmu)
		}
		s0.Close()
	}
	s := tlsx.Handshake(cc, sc, func(n *tlsx.Net) {
		if len(edits) > 0 {
			tlsx.InstallEdits(n, edits)
		}
		if seg > 0 {
			n.MaxRd[tlsx.C2S], n.MaxRd[tlsx.S2C] = seg, seg
		}
	})
	if s.Client.Panic != "" {
		o.panics = append(o.panics, "client Handshake: "+ev.MsgClass(s.Client.Panic))
	}
	if s.Server.Panic != "" {
		o.panics = append(o.panics, "server Handshake: "+ev.MsgClass(s.Server.Panic))
	}
	if s.Client.OKDone && s.Server.OKDone {
		exchange(s, &o.panics, &pmu)
	} else if s.Client.OKDone || s.Server.OKDone {
		// one side believes the handshake completed: let it try to use the connection
		exchange(s, &o.panics, &pmu)
	}
	s.Close()
	for _, side := range []struct {
		who string
		c   *tls.Conn
	}{{"client", s.Client.Conn}, {"server", s.Server.Conn}} {
		side := side
		if p, msg, site := ev.Try(func() {
			_ = side.c.ConnectionState()
			l := side.c.GetHandshakeLog()
			if _, err := json.Marshal(l); err != nil {
				panic("json.Marshal(handshake log): " + err.Error())
			}
			_ = side.c.OCSPResponse()
			side.c.Close()
		}); p {
			o.panics = append(o.panics, fmt.Sprintf("%s post-mortem (ConnectionState/GetHandshakeLog/json): %s @ %s", side.who, ev.MsgClass(msg), site))
		}
	}
	o.stalled = s.Net.Stalled
	o.streams[0], o.streams[1] = s.Net.Stream(tlsx.C2S), s.Net.Stream(tlsx.S2C)
	ce, se := "ok", "ok"
	if s.Client.Err != nil {
		ce = "err"
	}
	if s.Server.Err != nil {
		se = "err"
	}
	o.cls = fmt.Sprintf("client=%s server=%s stalled=%v", ce, se, o.stalled)
	return o
}

type job struct {
	cf    conf
	edits []tlsx.Edit
	seg   int
	raw   *rawJob
}

type rawJob struct {
	role   string // "client" or "server": the real endpoint under test
	stream []byte
}

func (j job) describe() map[string]any {
	if j.raw != nil {
		return map[string]any{"raw_peer_against": j.raw.role, "stream_hex": fmt.Sprintf("%x", j.raw.stream)}
	}
	var es []string
	for _, e := range j.edits {
		es = append(es, e.String())
	}
	return map[string]any{"config": j.cf.name, "edits": es, "read_segment": j.seg, "edits_raw": j.edits}
}

// runRaw: real endpoint against a peer that sends `stream` and closes.
func runRaw(r *rawJob) outcome {
	var o outcome
	cp, sp, n := tlsx.NewPipe()
	id := tlsx.ServerIdentity("p256")
	cc, sc := tlsx.BaseConfigs(id, "raw")
	var conn *tls.Conn
	var peer io.ReadWriteCloser
	if r.role == "client" {
		conn = tls.Client(cp, cc)
		peer = sp
	} else {
		conn = tls.Server(sp, sc)
		peer = cp
	}
	peer.Write(r.stream)
	n.CloseDir(map[bool]tlsx.Dir{true: tlsx.S2C, false: tlsx.C2S}[r.role == "client"])
	var err error
	if p, msg, site := ev.Try(func() {
		err = conn.Handshake()
		buf := make([]byte, 16)
		conn.Read(buf)
		conn.Write([]byte("x"))
		_ = conn.ConnectionState()
		l := conn.GetHandshakeLog()
		if _, e := json.Marshal(l); e != nil {
			panic("json.Marshal(handshake log): " + e.Error())
		}
		conn.Close()
	}); p {
		o.panics = append(o.panics, fmt.Sprintf("%s vs raw peer: %s @ %s", r.role, ev.MsgClass(msg), site))
	}
	peer.Close()
	if err != nil {
		o.cls = "raw:" + r.role + ":" + ev.MsgClass(firstWords(err.Error(), 6))
	} else {
		o.cls = "raw:" + r.role + ":handshake-ok"
	}
	return o
}

func firstWords(s string, n int) string {
	f := strings.Fields(s)
	if len(f) > n {
		f = f[:n]
	}
	return strings.Join(f, " ")
}

// faultMenu builds every single fault for one configuration from its baseline streams.
func faultMenu(cf conf, base outcome, thorough bool) []job {
	var jobs []job
	add := func(seg int, e ...tlsx.Edit) { jobs = append(jobs, job{cf: cf, edits: e, seg: seg}) }
	inserts := [][]byte{
		{21, 3, 3, 0, 2, 2, 40},                // fatal alert handshake_failure
		{21, 3, 3, 0, 2, 1, 0},                 // warning close_notify
		{21, 3, 3, 0, 2, 1, 100},               // warning no_renegotiation
		{20, 3, 3, 0, 1, 1},                    // change_cipher_spec
		{23, 3, 3, 0, 3, 'a', 'b', 'c'},        // application data
		{99, 3, 3, 0, 1, 0},                    // unknown record type
		{22, 3, 3, 0, 4, 0, 0, 0, 0},           // hello_request
		{22, 3, 3, 0, 4, 24, 0, 0, 1},          // key_update header claiming 1 byte (incomplete)
		{24, 3, 3, 0, 3, 1, 0xff, 0xff},        // heartbeat request with huge payload length
		{22, 3, 3, 0, 0},                       // empty handshake record
		{23, 3, 3, 0, 0},                       // empty application data record
		{22, 3, 3, 0x48, 0x01},                 // over-long length, no body
		{0x80, 0x03, 0x01, 0x00, 0x01},         // SSLv2-looking header
	}
	for d := tlsx.C2S; d <= tlsx.S2C; d++ {
		stream := base.streams[d]
		recs := tlsx.ParseRecords(stream)
		inHeaderish := func(o int) bool {
			for _, r := range recs {
				if o >= r.Off && o < r.Off+5+96 || (o >= r.End()-24 && o < r.End()) {
					return true
				}
			}
			return false
		}
		stride := 1
		if !thorough {
			stride = 5
		}
		for o := 0; o < len(stream); o++ {
			if !inHeaderish(o) && o%stride != 0 {
				continue
			}
			b := stream[o]
			add(0, tlsx.Edit{Dir: d, Kind: tlsx.Xor, A: o, Val: 0x01})
			add(0, tlsx.Edit{Dir: d, Kind: tlsx.Xor, A: o, Val: 0x80})
			if b != 0 {
				add(0, tlsx.Edit{Dir: d, Kind: tlsx.Set, A: o, Val: 0})
			}
			if b != 0xff {
				add(0, tlsx.Edit{Dir: d, Kind: tlsx.Set, A: o, Val: 0xff})
			}
			if thorough || inHeaderish(o) || o%(stride*3) == 0 {
				add(0, tlsx.Edit{Dir: d, Kind: tlsx.Trunc, A: o})
			}
		}
		add(0, tlsx.Edit{Dir: d, Kind: tlsx.Trunc, A: len(stream)})
		for i, r := range recs {
			add(0, tlsx.Edit{Dir: d, Kind: tlsx.Drop, A: r.Off, B: r.End()})
			add(0, tlsx.Edit{Dir: d, Kind: tlsx.Dup, A: r.Off, B: r.End()})
			if i+1 < len(recs) {
				add(0, tlsx.Edit{Dir: d, Kind: tlsx.Swap, A: r.Off, B: r.End(), C: recs[i+1].End()})
			}
			for _, ins := range inserts {
				add(0, tlsx.Edit{Dir: d, Kind: tlsx.Insert, A: r.Off, Data: ins})
			}
			// record length field values
			for _, l := range []int{0, 1, 16384 + 2048 + 1, 0xffff, r.Len - 1, r.Len + 1} {
				if l < 0 || l == r.Len {
					continue
				}
				add(0, tlsx.Edit{Dir: d, Kind: tlsx.Set, A: r.Off + 3, Val: byte(l >> 8)}, tlsx.Edit{Dir: d, Kind: tlsx.Set, A: r.Off + 4, Val: byte(l)})
			}
			// record type / version values
			for _, t := range []byte{20, 21, 22, 23, 24, 25, 0x16 ^ 0x40} {
				if t != r.Type {
					add(0, tlsx.Edit{Dir: d, Kind: tlsx.Set, A: r.Off, Val: t})
				}
			}
			for _, v := range []uint16{0x0200, 0x0300, 0x0301, 0x0304, 0x0400} {
				if v != r.Vers {
					add(0, tlsx.Edit{Dir: d, Kind: tlsx.Set, A: r.Off + 1, Val: byte(v >> 8)}, tlsx.Edit{Dir: d, Kind: tlsx.Set, A: r.Off + 2, Val: byte(v)})
				}
			}
			// first handshake message of a handshake record: message type and 24-bit length
			if r.Type == 22 && r.Len >= 4 {
				for _, t := range []byte{0, 1, 2, 4, 8, 11, 12, 13, 14, 15, 16, 20, 22, 24, 254} {
					if t != r.Payload[0] {
						add(0, tlsx.Edit{Dir: d, Kind: tlsx.Set, A: r.Off + 5, Val: t})
					}
				}
				hl := int(r.Payload[1])<<16 | int(r.Payload[2])<<8 | int(r.Payload[3])
				for _, l := range []int{0, 1, hl - 1, hl + 1, 65536 + 1, 0xffffff} {
					if l < 0 || l == hl {
						continue
					}
					add(0, tlsx.Edit{Dir: d, Kind: tlsx.Set, A: r.Off + 6, Val: byte(l >> 16)}, tlsx.Edit{Dir: d, Kind: tlsx.Set, A: r.Off + 7, Val: byte(l >> 8)}, tlsx.Edit{Dir: d, Kind: tlsx.Set, A: r.Off + 8, Val: byte(l)})
				}
			}
			// split the record in two at several offsets (re-framed), and coalesce with the next one
			splits := []int{1, 2, 4, r.Len / 2, r.Len - 1}
			if thorough && r.Len <= 300 {
				splits = splits[:0]
				for k := 1; k < r.Len; k++ {
					splits = append(splits, k)
				}
			}
			seenSplit := map[int]bool{}
			for _, k := range splits {
				if k <= 0 || k >= r.Len || seenSplit[k] {
					continue
				}
				seenSplit[k] = true
				hdr := func(l int) []byte { return []byte{r.Type, byte(r.Vers >> 8), byte(r.Vers), byte(l >> 8), byte(l)} }
				var rep []byte
				rep = append(rep, hdr(k)...)
				rep = append(rep, r.Payload[:k]...)
				rep = append(rep, hdr(r.Len-k)...)
				rep = append(rep, r.Payload[k:]...)
				add(0, tlsx.Edit{Dir: d, Kind: tlsx.Insert, A: r.Off, Data: rep}, tlsx.Edit{Dir: d, Kind: tlsx.Drop, A: r.Off, B: r.End()})
			}
			if i+1 < len(recs) && recs[i+1].Type == r.Type && r.Len+recs[i+1].Len <= 16384 {
				nx := recs[i+1]
				l := r.Len + nx.Len
				rep := []byte{r.Type, byte(r.Vers >> 8), byte(r.Vers), byte(l >> 8), byte(l)}
				rep = append(rep, r.Payload...)
				rep = append(rep, nx.Payload...)
				add(0, tlsx.Edit{Dir: d, Kind: tlsx.Insert, A: r.Off, Data: rep}, tlsx.Edit{Dir: d, Kind: tlsx.Drop, A: r.Off, B: nx.End()})
			}
		}
	}
	// transport segmentation without faults
	for _, seg := range []int{1, 2, 3, 5, 7, 16, 100, 1000} {
		add(seg)
	}
	return jobs
}

func rawJobs(thorough bool) []job {
	var jobs []job
	for _, role := range []string{"client", "server"} {
		jobs = append(jobs, job{raw: &rawJob{role, nil}})
		for a := 0; a < 256; a++ {
			jobs = append(jobs, job{raw: &rawJob{role, []byte{byte(a)}}})
			for b := 0; b < 256; b++ {
				jobs = append(jobs, job{raw: &rawJob{role, []byte{byte(a), byte(b)}}})
			}
		}
		al := []byte{0x00, 0x01, 0x03, 0x16, 0x80, 0xff}
		var rec func(p []byte)
		rec = func(p []byte) {
			if len(p) == 5 {
				for _, tail := range [][]byte{nil, {0}, {1, 0, 0, 0}, {2, 0, 0, 1, 0}} {
					jobs = append(jobs, job{raw: &rawJob{role, append(append([]byte{}, p...), tail...)}})
				}
				return
			}
			for _, x := range al {
				rec(append(p, x))
			}
		}
		rec(nil)
	}
	return jobs
}

var _ = x509.NewCertPool

func main() {
	ev.Main("C32", "model_checking", func(c *ev.Ctx) {
		thorough := !c.Quick()
		c.Rule("for each configuration: baseline transcript of real client<->real server (handshake + data phase), then EVERY fault of the menu {xor 01/80, set 00/ff at each offset (quick: every offset in the first 96 / last 24 bytes of each record, stride 5 elsewhere), truncate, drop/dup/swap record, 13 inserted records at every boundary, record length/type/version values, handshake type/length values, record split/coalesce, read segmentation} as a single fault; plus every 0,1,2-byte stream and 6^5 record headers x 4 tails from a raw peer against each role. A case is non-trivial when the fault was reached by the stream (edit applied); distinct = distinct (config,fault).")
		c.Assume("transport blocking is detected structurally (both endpoints parked in Read with nothing in flight => transport closes both directions)",
			"a 20 s wall-clock net only marks suspects, which are re-run 3x sequentially before being reported",
			"deterministic Rand/Time: the baseline offsets are stable across runs (verified per configuration by running the baseline twice)")

		if c.Replay != nil {
			var w struct {
				Config   string      `json:"config"`
				EditsRaw []tlsx.Edit `json:"edits_raw"`
				Seg      int         `json:"read_segment"`
				RawRole  string      `json:"raw_peer_against"`
				Stream   string      `json:"stream_hex"`
			}
			if err := json.Unmarshal(c.Replay, &w); err != nil {
				c.Broken("bad witness: %v", err)
			}
			var o outcome
			if w.RawRole != "" {
				var b []byte
				fmt.Sscanf(w.Stream, "%x", &b)
				o = runRaw(&rawJob{w.RawRole, b})
			} else {
				found := false
				for _, cf := range confs(true) {
					if cf.name == w.Config {
						o = runOnce(cf, w.EditsRaw, w.Seg)
						found = true
					}
				}
				if !found {
					c.Broken("unknown config %q", w.Config)
				}
			}
			for _, p := range o.panics {
				c.Violation("panic: "+p, c.Replay)
			}
			c.States.Add(1)
			c.Transitions.Add(1)
			fmt.Println("replayed:", o.cls, o.panics)
			return
		}

		var jobs []job
		for _, cf := range confs(thorough) {
			b1 := runOnce(cf, nil, 0)
			b2 := runOnce(cf, nil, 0)
			if string(b1.streams[0]) != string(b2.streams[0]) || string(b1.streams[1]) != string(b2.streams[1]) {
				c.Broken("baseline transcript of %s is not reproducible", cf.name)
			}
			if b1.cls != "client=ok server=ok stalled=false" || len(b1.panics) > 0 {
				c.Broken("baseline of %s did not complete: %s %v", cf.name, b1.cls, b1.panics)
			}
			fj := faultMenu(cf, b1, thorough)
			c.Set("faults_"+cf.name, map[string]any{"faults": len(fj), "c2s_bytes": len(b1.streams[0]), "s2c_bytes": len(b1.streams[1]),
				"c2s_records": len(tlsx.ParseRecords(b1.streams[0])), "s2c_records": len(tlsx.ParseRecords(b1.streams[1]))})
			jobs = append(jobs, fj...)
			c.Traces.Add(2)
		}
		rj := rawJobs(thorough)
		jobs = append(jobs, rj...)
		c.Set("raw_peer_streams", len(rj))
		c.Set("configurations", len(confs(thorough)))
		c.Set("total_cases", len(jobs))

		var suspects []int
		var smu sync.Mutex
		hists := make([]ev.Hist, c.Workers())
		for i := range hists {
			hists[i] = ev.Hist{}
		}
		var records atomic.Int64
		exec := func(j job, limit time.Duration) (outcome, bool) {
			done := make(chan outcome, 1)
			go func() {
				if j.raw != nil {
					done <- runRaw(j.raw)
				} else {
					done <- runOnce(j.cf, j.edits, j.seg)
				}
			}()
			t := time.NewTimer(limit)
			defer t.Stop()
			select {
			case o := <-done:
				return o, true
			case <-t.C:
				return outcome{}, false
			}
		}
		complete := c.Parallel(len(jobs), func(w, i int) {
			j := jobs[i]
			o, ok := exec(j, 20*time.Second)
			if !ok {
				smu.Lock()
				suspects = append(suspects, i)
				smu.Unlock()
				return
			}
			c.States.Add(1)
			c.Traces.Add(1)
			records.Add(int64(len(tlsx.ParseRecords(o.streams[0])) + len(tlsx.ParseRecords(o.streams[1]))))
			hists[w][o.cls]++
			for _, p := range o.panics {
				c.Violation("panic: "+p, j.describe())
			}
			if i%9973 == 0 {
				c.Sample(map[string]any{"case": j.describe(), "outcome": o.cls})
			}
		})
		for _, h := range hists {
			c.Merge(h)
		}
		if !complete {
			c.Incomplete(fmt.Sprintf("time budget reached after %d of %d cases", c.States.Load(), len(jobs)))
		}
		c.Transitions.Add(records.Load())
		c.Evaluations.Store(c.States.Load())
		c.Distinct.Store(c.States.Load())
		// suspects: re-run sequentially, 3 times, 60 s each
		for _, i := range suspects {
			j := jobs[i]
			hung := 0
			for k := 0; k < 3; k++ {
				if _, ok := exec(j, 60*time.Second); !ok {
					hung++
				}
			}
			if hung == 3 {
				buf := make([]byte, 1<<16)
				buf = buf[:runtime.Stack(buf, true)]
				w := j.describe()
				w["goroutines"] = firstZcryptoFrames(string(buf))
				cls := "handshake/data call did not return after the transport was closed"
				c.Violation(cls, w)
			} else {
				c.Incomplete(fmt.Sprintf("case %d exceeded 20 s under load but completed when re-run (not a verdict)", i))
			}
		}
		c.Set("suspects_rerun", len(suspects))
	})
}

func firstZcryptoFrames(dump string) []string {
	var out []string
	for _, l := range strings.Split(dump, "\n") {
		if strings.Contains(l, "zcrypto/tls.") && len(out) < 12 {
			out = append(out, strings.TrimSpace(l))
		}
	}
	return out
}
