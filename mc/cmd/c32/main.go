// C32 — TLS endpoints survive arbitrary peer behaviour.
//
// Engine E4: real zcrypto client <-> real zcrypto server over the deterministic
// tlsx transport. Four families of peer behaviour are enumerated:
//
//	(1) wire faults: the fault menu at every position of the baseline transcript
//	    of each configuration, both directions (main.go: faultMenu), two of them
//	    going through a HelloRetryRequest; every plaintext handshake message of
//	    those (ClientHello, HelloRetryRequest, ClientHello#2, ServerHello) also
//	    gets the structure-aware message menu of (2) (plain.go);
//	(2) keyed faults: every PROTECTED record is opened in flight with the secrets
//	    of Config.KeyLogWriter, the plaintext edit menu is applied to the message
//	    inside and the result re-sealed for the receiver, so that it authenticates
//	    and reaches the parsers behind the record layer (keyed.go, tlsx/keyed.go);
//	(3) raw peers: exhaustive short byte streams, and every record-boundary prefix
//	    of a genuine transcript followed by each insert of the menu and EOF;
//	(4) single special configurations (SSLv3 requested);
//	(5) failures of the endpoint's OWN transport (local.go): its Write fails from
//	    every write call of the fault-free run onward, and from the moment it has
//	    consumed a peer message that makes it write (KeyUpdate reply, alerts), with
//	    several error kinds, both roles, and the application going on afterwards.
//
// Oracle: no panic in any call, and every call returns once the transport is
// closed (blocking is resolved structurally by the transport's stall detection;
// a wall-clock net only flags suspects, which are re-run). The cases are executed
// by worker subprocesses: a worker that dies (Go "fatal error", an unrecovered
// panic in a goroutine the harness did not start, a runtime abort) is a
// violation with the case it was executing as witness, not an incomplete run.
package main

import (
	"encoding/json"
	"fmt"
	"io"
	"os"
	"runtime"
	"sort"
	"strings"
	"sync"
	"time"

	"github.com/zmap/zcrypto/tls"
	"verifmc/internal/ev"
	"verifmc/internal/tlsx"
)

type conf struct {
	name    string
	key     string // server leaf key fixture
	vers    uint16
	suites  []uint16
	cauth   bool   // client certificate requested+required
	resume  bool   // baseline is the second (resuming) connection
	zscan   bool   // zcrypto scanning extras on the client
	feature string // "", "external-ch", "fingerprint": zcrypto-only ClientHello construction paths
	// hrr: the handshake goes through a HelloRetryRequest: the client prefers X25519 (its only key share) and also lists
	// P-256, the server accepts P-256 only, so the clear flights are ClientHello, HelloRetryRequest, [CCS], ClientHello#2, ServerHello
	hrr bool
}

func confs(thorough bool) []conf {
	var out []conf
	add := func(c conf) { out = append(out, c) }
	v10, v11, v12, v13 := uint16(tls.VersionTLS10), uint16(tls.VersionTLS11), uint16(tls.VersionTLS12), uint16(tls.VersionTLS13)
	add(conf{name: "tls12-ecdhe-ecdsa-gcm", key: "p256", vers: v12, suites: []uint16{tls.TLS_ECDHE_ECDSA_WITH_AES_128_GCM_SHA256}})
	add(conf{name: "tls13-ecdsa", key: "p256", vers: v13})
	add(conf{name: "tls12-rsa-cbc", key: "rsa2048", vers: v12, suites: []uint16{tls.TLS_RSA_WITH_AES_128_CBC_SHA}})
	add(conf{name: "tls10-ecdhe-rsa-cbc", key: "rsa2048", vers: v10, suites: []uint16{tls.TLS_ECDHE_RSA_WITH_AES_128_CBC_SHA}})
	add(conf{name: "tls12-dhe-rsa-gcm", key: "rsa2048", vers: v12, suites: []uint16{tls.TLS_DHE_RSA_WITH_AES_128_GCM_SHA256}})
	add(conf{name: "tls12-ecdhe-ecdsa-clientauth", key: "p256", vers: v12, suites: []uint16{tls.TLS_ECDHE_ECDSA_WITH_CHACHA20_POLY1305}, cauth: true})
	add(conf{name: "tls12-ecdhe-ecdsa-resumed", key: "p256", vers: v12, suites: []uint16{tls.TLS_ECDHE_ECDSA_WITH_AES_128_GCM_SHA256}, resume: true})
	add(conf{name: "tls13-ed25519-resumed", key: "ed-srv-leaf", vers: v13, resume: true})
	add(conf{name: "tls12-ecdhe-rsa-zscan", key: "rsa2048", vers: v12, suites: []uint16{tls.TLS_ECDHE_RSA_WITH_AES_256_GCM_SHA384}, zscan: true})
	add(conf{name: "tls12-external-clienthello", key: "p256", vers: v12, suites: []uint16{tls.TLS_ECDHE_ECDSA_WITH_AES_128_GCM_SHA256}, feature: "external-ch"})
	add(conf{name: "tls12-fingerprint-certsonly", key: "rsa2048", vers: v12, suites: []uint16{tls.TLS_ECDHE_RSA_WITH_AES_128_GCM_SHA256}, feature: "fingerprint"})
	add(conf{name: "tls13-hrr-ecdsa", key: "p256", vers: v13, hrr: true})
	add(conf{name: "tls13-hrr-ed25519-resumed", key: "ed-srv-leaf", vers: v13, hrr: true, resume: true})
	if thorough {
		add(conf{name: "tls13-rsa", key: "rsa2048", vers: v13})
		add(conf{name: "tls13-ecdsa-clientauth", key: "p256", vers: v13, cauth: true})
		add(conf{name: "tls11-rsa-3des", key: "rsa2048", vers: v11, suites: []uint16{tls.TLS_RSA_WITH_3DES_EDE_CBC_SHA}})
		add(conf{name: "tls10-rsa-rc4", key: "rsa2048", vers: v10, suites: []uint16{tls.TLS_RSA_WITH_RC4_128_SHA}})
		add(conf{name: "tls11-ecdhe-ecdsa-cbc", key: "p256", vers: v11, suites: []uint16{tls.TLS_ECDHE_ECDSA_WITH_AES_256_CBC_SHA}})
		add(conf{name: "tls10-dhe-rsa-cbc", key: "rsa2048", vers: v10, suites: []uint16{tls.TLS_DHE_RSA_WITH_AES_128_CBC_SHA}})
		add(conf{name: "tls12-ecdhe-ed25519", key: "ed-srv-leaf", vers: v12, suites: []uint16{tls.TLS_ECDHE_ECDSA_WITH_AES_128_GCM_SHA256}})
		add(conf{name: "tls12-rsa-cbc-sha256-zscan", key: "rsa2048", vers: v12, suites: []uint16{tls.TLS_RSA_WITH_AES_128_CBC_SHA256}, zscan: true})
		add(conf{name: "tls10-rsa-resumed", key: "rsa2048", vers: v10, suites: []uint16{tls.TLS_RSA_WITH_AES_128_CBC_SHA}, resume: true})
	}
	return out
}

type mapCache struct {
	mu sync.Mutex
	m  map[string]*tls.ClientSessionState
}

func (c *mapCache) Get(k string) (*tls.ClientSessionState, bool) {
	c.mu.Lock()
	defer c.mu.Unlock()
	s, ok := c.m[k]
	return s, ok
}
func (c *mapCache) Put(k string, s *tls.ClientSessionState) {
	c.mu.Lock()
	defer c.mu.Unlock()
	if s == nil {
		delete(c.m, k)
		return
	}
	c.m[k] = s
}

// outcome of one run
type outcome struct {
	cls     string
	panics  []string
	stalled bool
	streams [2][]byte
	applied int // edits of the case that the stream reached
}

// externalCH is the ClientHello handshake message handed to Config.ExternalClientHello: the one a plain
// zcrypto TLS 1.2 client sends (taken from a run of the first configuration).
var (
	externalOnce sync.Once
	externalCH   []byte
)

func externalClientHello() []byte {
	externalOnce.Do(func() {
		cf := confs(false)[0]
		o := runOnce(&cf, nil, 0)
		recs := tlsx.ParseRecords(o.streams[0])
		if len(recs) > 0 && recs[0].Type == 22 {
			externalCH = append([]byte(nil), recs[0].Payload...)
		}
	})
	return externalCH
}

func mkConfigs(cf *conf, seed string) (*tls.Config, *tls.Config) {
	id := tlsx.ServerIdentity(cf.key)
	cc, sc := tlsx.BaseConfigs(id, cf.name+seed)
	cc.MinVersion, cc.MaxVersion = cf.vers, cf.vers
	sc.MinVersion, sc.MaxVersion = tls.VersionTLS10, tls.VersionTLS13
	if cf.suites != nil {
		cc.CipherSuites = cf.suites
		sc.CipherSuites = cf.suites
		cc.ForceSuites = true // the client otherwise filters its offer to the small default table (no DHE)
	}
	if cf.hrr {
		cc.CurvePreferences = []tls.CurveID{tls.X25519, tls.CurveP256}
		sc.CurvePreferences = []tls.CurveID{tls.CurveP256}
		sc.CipherSuites = []uint16{tls.TLS_AES_128_GCM_SHA256, tls.TLS_CHACHA20_POLY1305_SHA256}
	}
	if cf.cauth {
		cid := tlsx.ClientIdentity("p256b")
		cc.Certificates = []tls.Certificate{cid.TLSCert()}
		sc.ClientAuth = tls.RequireAndVerifyClientCert
		sc.ClientCAs = cid.Pool()
	}
	if cf.zscan {
		cc.InsecureSkipVerify = true
		cc.ExtendedMasterSecret = true
		cc.HeartbeatEnabled = true
		cc.SignedCertificateTimestampExt = true
		cc.ForceSessionTicketExt = true
		cc.NextProtos = []string{"h2", "http/1.1"}
		sc.NextProtos = []string{"http/1.1"}
	}
	switch cf.feature {
	case "external-ch":
		cc.ExternalClientHello = append([]byte(nil), externalClientHello()...)
	case "fingerprint":
		// the handshake rewrites the fingerprint's Extensions slice and the Config in place: fresh per run
		cc.ClientFingerprintConfiguration = &tls.ClientFingerprintConfiguration{
			HandshakeVersion:   tls.VersionTLS12,
			CipherSuites:       []uint16{tls.TLS_ECDHE_RSA_WITH_AES_128_GCM_SHA256, tls.TLS_RSA_WITH_AES_128_GCM_SHA256},
			CompressionMethods: []uint8{0},
			Extensions: []tls.ClientExtension{
				&tls.SNIExtension{Autopopulate: true},
				&tls.SupportedCurvesExtension{Curves: []tls.CurveID{tls.CurveP256, tls.CurveP384}},
				&tls.PointFormatExtension{Formats: []uint8{0}},
				// (the extension's CheckImplemented only knows the RSA/DSA wire values: ECDSA (3) is refused)
				&tls.SignatureAlgorithmExtension{SignatureAndHashes: []uint16{0x0401, 0x0501, 0x0601, 0x0201}},
				&tls.SessionTicketExtension{Autopopulate: true},
				&tls.StatusRequestExtension{},
				&tls.SCTExtension{},
				&tls.ALPNExtension{Protocols: []string{"http/1.1"}},
				&tls.SecureRenegotiationExtension{},
			},
		}
		cc.CertsOnly = true
		sc.NextProtos = []string{"http/1.1"}
	}
	if cf.resume {
		cc.ClientSessionCache = &mapCache{m: map[string]*tls.ClientSessionState{}}
		var k [32]byte
		copy(k[:], "verif-c32-ticket-key-0123456789abcdef")
		sc.SessionTicketKey = k
	} else {
		sc.SessionTicketsDisabled = true
	}
	return cc, sc
}

// exchange runs a small data phase: client writes, server echoes, both close.
func exchange(s *tlsx.Session, pan *[]string, pmu *sync.Mutex) {
	var wg sync.WaitGroup
	note := func(who string, f func()) {
		if p, msg, site := ev.Try(f); p {
			pmu.Lock()
			*pan = append(*pan, fmt.Sprintf("%s: %s @ %s", who, ev.MsgClass(msg), site))
			pmu.Unlock()
			// the panicking side will not close its connection any more: close the transport, or its peer stays parked
			s.Net.CloseDir(tlsx.C2S)
			s.Net.CloseDir(tlsx.S2C)
		}
	}
	wg.Add(1)
	go func() {
		defer wg.Done()
		note("server data phase", func() {
			buf := make([]byte, 64)
			n, err := s.Server.Conn.Read(buf)
			if err == nil {
				s.Server.Conn.Write(buf[:n])
				s.Server.Conn.Write([]byte("second record"))
			}
			s.Server.Conn.Close()
		})
	}()
	note("client data phase", func() {
		_, err := s.Client.Conn.Write([]byte("ping-ping-ping-ping"))
		if err == nil {
			io.ReadAll(s.Client.Conn)
		}
		s.Client.Conn.Close()
	})
	wg.Wait()
}

// postMortem: the inspection calls of both endpoints must not panic whatever state the connection died in.
func postMortem(s *tlsx.Session, o *outcome) {
	for _, side := range []struct {
		who string
		c   *tls.Conn
	}{{"client", s.Client.Conn}, {"server", s.Server.Conn}} {
		side := side
		if p, msg, site := ev.Try(func() {
			_ = side.c.ConnectionState()
			l := side.c.GetHandshakeLog()
			if _, err := json.Marshal(l); err != nil {
				panic("json.Marshal(handshake log): " + err.Error())
			}
			_ = side.c.OCSPResponse()
			side.c.Close()
		}); p {
			o.panics = append(o.panics, fmt.Sprintf("%s post-mortem (ConnectionState/GetHandshakeLog/json): %s @ %s", side.who, ev.MsgClass(msg), site))
		}
	}
}

func runOnce(cf *conf, edits []tlsx.Edit, seg int) outcome {
	var o outcome
	var pmu sync.Mutex
	cc, sc := mkConfigs(cf, "")
	if cf.resume {
		// prime the session cache with an unfaulted full handshake + data phase
		s0 := tlsx.Handshake(cc, sc, nil)
		if s0.Client.OKDone && s0.Server.OKDone {
			exchange(s0, &o.panics, &pmu)
		}
		s0.Close()
	}
	var applied *int
	s := tlsx.Handshake(cc, sc, func(n *tlsx.Net) {
		if len(edits) > 0 {
			applied = tlsx.InstallEdits(n, edits)
		}
		if seg > 0 {
			n.MaxRd[tlsx.C2S], n.MaxRd[tlsx.S2C] = seg, seg
		}
	})
	if s.Client.Panic != "" {
		o.panics = append(o.panics, "client Handshake: "+ev.MsgClass(s.Client.Panic))
	}
	if s.Server.Panic != "" {
		o.panics = append(o.panics, "server Handshake: "+ev.MsgClass(s.Server.Panic))
	}
	if s.Client.OKDone || s.Server.OKDone {
		// also when only one side believes the handshake completed: let it try to use the connection
		exchange(s, &o.panics, &pmu)
	}
	s.Close()
	postMortem(s, &o)
	if applied != nil {
		o.applied = *applied
	}
	o.stalled = s.Net.Stalled
	o.streams[0], o.streams[1] = s.Net.Stream(tlsx.C2S), s.Net.Stream(tlsx.S2C)
	ce, se := "ok", "ok"
	if s.Client.Err != nil {
		ce = "err"
	}
	if s.Server.Err != nil {
		se = "err"
	}
	o.cls = fmt.Sprintf("client=%s server=%s stalled=%v", ce, se, o.stalled)
	return o
}

type job struct {
	idx     int
	cf      *conf
	edits   []tlsx.Edit
	cls     string // structure-aware edit of a plaintext handshake message: its message class (plain.go)
	seg     int
	raw     *rawJob
	kcf     *kconf
	k       *kcase
	special string
	lf      *lfJob // local-transport families (local.go)
}

type rawJob struct {
	role   string // "client" or "server": the real endpoint under test
	stream []byte
	conf   string // "": default configuration; else the configuration whose genuine transcript prefix the stream starts with
	ssl3   bool   // server accepts SSLv3 (MinVersion = VersionSSL30)
}

func (j job) describe() map[string]any {
	switch {
	case j.lf != nil:
		return map[string]any{"local": j.lf}
	case j.special != "":
		return map[string]any{"special": j.special}
	case j.kcf != nil:
		return map[string]any{"keyed_config": j.kcf.name, "keyed": j.k}
	case j.raw != nil:
		return map[string]any{"raw_peer_against": j.raw.role, "stream_hex": fmt.Sprintf("%x", j.raw.stream), "raw_config": j.raw.conf, "raw_ssl3": j.raw.ssl3}
	}
	var es []string
	for _, e := range j.edits {
		es = append(es, e.String())
	}
	return map[string]any{"config": j.cf.name, "edits": es, "read_segment": j.seg, "edits_raw": j.edits}
}

func confByName(name string) (*conf, bool) {
	for _, cf := range confs(true) {
		if cf.name == name {
			cf := cf
			return &cf, true
		}
	}
	return nil, false
}

// runRaw: real endpoint against a peer that sends `stream` and closes.
func runRaw(r *rawJob) outcome {
	var o outcome
	cp, sp, n := tlsx.NewPipe()
	var cc, sc *tls.Config
	if cf, ok := confByName(r.conf); ok {
		cc, sc = mkConfigs(cf, "")
	} else {
		id := tlsx.ServerIdentity("p256")
		cc, sc = tlsx.BaseConfigs(id, "raw")
	}
	if r.ssl3 {
		sc.MinVersion = tls.VersionSSL30
	}
	var conn *tls.Conn
	var peer io.ReadWriteCloser
	if r.role == "client" {
		conn = tls.Client(cp, cc)
		peer = sp
	} else {
		conn = tls.Server(sp, sc)
		peer = cp
	}
	peer.Write(r.stream)
	n.CloseDir(map[bool]tlsx.Dir{true: tlsx.S2C, false: tlsx.C2S}[r.role == "client"])
	var err error
	if p, msg, site := ev.Try(func() {
		err = conn.Handshake()
		buf := make([]byte, 16)
		conn.Read(buf)
		conn.Write([]byte("x"))
		_ = conn.ConnectionState()
		l := conn.GetHandshakeLog()
		if _, e := json.Marshal(l); e != nil {
			panic("json.Marshal(handshake log): " + e.Error())
		}
		conn.Close()
	}); p {
		o.panics = append(o.panics, fmt.Sprintf("%s vs raw peer: %s @ %s", r.role, ev.MsgClass(msg), site))
	}
	peer.Close()
	pre := "raw:"
	if r.conf != "" {
		pre = "raw+prefix:"
	}
	if err != nil {
		o.cls = pre + r.role + ":" + ev.MsgClass(firstWords(err.Error(), 6))
	} else {
		o.cls = pre + r.role + ":handshake-ok"
	}
	return o
}

// runSpecial: single configurations outside the menus.
func runSpecial(name string) outcome {
	var o outcome
	id := tlsx.ServerIdentity("p256")
	cc, sc := tlsx.BaseConfigs(id, "special-"+name)
	switch name {
	case "ssl30-client-only": // VersionSSL30 is still an exported constant (and minVersion), but no longer in supportedVersions
		cc.MinVersion, cc.MaxVersion = tls.VersionSSL30, tls.VersionSSL30
	case "ssl30-both":
		cc.MinVersion, cc.MaxVersion = tls.VersionSSL30, tls.VersionSSL30
		sc.MinVersion, sc.MaxVersion = tls.VersionSSL30, tls.VersionSSL30
	case "ssl30-server-only":
		sc.MinVersion, sc.MaxVersion = tls.VersionSSL30, tls.VersionSSL30
	case "ssl30-to-tls10-client":
		cc.MinVersion, cc.MaxVersion = tls.VersionSSL30, tls.VersionTLS10
		sc.MinVersion = tls.VersionSSL30
	}
	var pmu sync.Mutex
	s := tlsx.Handshake(cc, sc, nil)
	if s.Client.Panic != "" {
		o.panics = append(o.panics, "client Handshake: "+ev.MsgClass(s.Client.Panic))
	}
	if s.Server.Panic != "" {
		o.panics = append(o.panics, "server Handshake: "+ev.MsgClass(s.Server.Panic))
	}
	if s.Client.OKDone || s.Server.OKDone {
		exchange(s, &o.panics, &pmu)
	}
	s.Close()
	postMortem(s, &o)
	ce, se := "ok", "ok"
	if s.Client.Err != nil {
		ce = "err"
	}
	if s.Server.Err != nil {
		se = "err"
	}
	o.cls = fmt.Sprintf("special %s: client=%s server=%s", name, ce, se)
	return o
}

var specials = []string{"ssl30-client-only", "ssl30-both", "ssl30-server-only", "ssl30-to-tls10-client"}

func firstWords(s string, n int) string {
	f := strings.Fields(s)
	if len(f) > n {
		f = f[:n]
	}
	return strings.Join(f, " ")
}

var wireInserts = [][]byte{
	{21, 3, 3, 0, 2, 2, 40},         // fatal alert handshake_failure
	{21, 3, 3, 0, 2, 1, 0},          // warning close_notify
	{21, 3, 3, 0, 2, 1, 100},        // warning no_renegotiation
	{20, 3, 3, 0, 1, 1},             // change_cipher_spec
	{23, 3, 3, 0, 3, 'a', 'b', 'c'}, // application data
	{99, 3, 3, 0, 1, 0},             // unknown record type
	{22, 3, 3, 0, 4, 0, 0, 0, 0},    // hello_request
	{22, 3, 3, 0, 4, 24, 0, 0, 1},   // key_update header claiming 1 byte (incomplete)
	{24, 3, 3, 0, 3, 1, 0xff, 0xff}, // heartbeat request with huge payload length
	{22, 3, 3, 0, 0},                // empty handshake record
	{23, 3, 3, 0, 0},                // empty application data record
	{22, 3, 3, 0x48, 0x01},          // over-long length, no body
	{0x80, 0x03, 0x01, 0x00, 0x01},  // SSLv2-looking header
}

// faultMenu builds every single wire fault for one configuration from its baseline streams.
func faultMenu(cf *conf, base outcome, thorough bool, emit func(job)) {
	add := func(seg int, e ...tlsx.Edit) { emit(job{cf: cf, edits: e, seg: seg}) }
	inserts := wireInserts
	for d := tlsx.C2S; d <= tlsx.S2C; d++ {
		stream := base.streams[d]
		recs := tlsx.ParseRecords(stream)
		head, tail, stride := 96, 24, 1
		if !thorough {
			stride = 5
			if cf.feature != "" && d == tlsx.S2C {
				// quick tier: these configurations differ from the others in how the ClientHello is built; the server
				// flight is processed by the same code as in the configurations above, so it is sampled more coarsely
				head, tail, stride = 24, 8, 25
			}
		}
		inHeaderish := func(o int) bool {
			for _, r := range recs {
				if o >= r.Off && o < r.Off+5+head || (o >= r.End()-tail && o < r.End()) {
					return true
				}
			}
			return false
		}
		for o := 0; o < len(stream); o++ {
			if !inHeaderish(o) && o%stride != 0 {
				continue
			}
			b := stream[o]
			add(0, tlsx.Edit{Dir: d, Kind: tlsx.Xor, A: o, Val: 0x01})
			add(0, tlsx.Edit{Dir: d, Kind: tlsx.Xor, A: o, Val: 0x80})
			if b != 0 {
				add(0, tlsx.Edit{Dir: d, Kind: tlsx.Set, A: o, Val: 0})
			}
			if b != 0xff {
				add(0, tlsx.Edit{Dir: d, Kind: tlsx.Set, A: o, Val: 0xff})
			}
			if thorough || inHeaderish(o) || o%(stride*3) == 0 {
				add(0, tlsx.Edit{Dir: d, Kind: tlsx.Trunc, A: o})
			}
		}
		add(0, tlsx.Edit{Dir: d, Kind: tlsx.Trunc, A: len(stream)})
		for i, r := range recs {
			add(0, tlsx.Edit{Dir: d, Kind: tlsx.Drop, A: r.Off, B: r.End()})
			add(0, tlsx.Edit{Dir: d, Kind: tlsx.Dup, A: r.Off, B: r.End()})
			if i+1 < len(recs) {
				add(0, tlsx.Edit{Dir: d, Kind: tlsx.Swap, A: r.Off, B: r.End(), C: recs[i+1].End()})
			}
			for _, ins := range inserts {
				add(0, tlsx.Edit{Dir: d, Kind: tlsx.Insert, A: r.Off, Data: ins})
			}
			// record length field values
			for _, l := range []int{0, 1, 16384 + 2048 + 1, 0xffff, r.Len - 1, r.Len + 1} {
				if l < 0 || l == r.Len {
					continue
				}
				add(0, tlsx.Edit{Dir: d, Kind: tlsx.Set, A: r.Off + 3, Val: byte(l >> 8)}, tlsx.Edit{Dir: d, Kind: tlsx.Set, A: r.Off + 4, Val: byte(l)})
			}
			// record type / version values
			for _, t := range []byte{20, 21, 22, 23, 24, 25, 0x16 ^ 0x40} {
				if t != r.Type {
					add(0, tlsx.Edit{Dir: d, Kind: tlsx.Set, A: r.Off, Val: t})
				}
			}
			for _, v := range []uint16{0x0200, 0x0300, 0x0301, 0x0304, 0x0400} {
				if v != r.Vers {
					add(0, tlsx.Edit{Dir: d, Kind: tlsx.Set, A: r.Off + 1, Val: byte(v >> 8)}, tlsx.Edit{Dir: d, Kind: tlsx.Set, A: r.Off + 2, Val: byte(v)})
				}
			}
			// first handshake message of a handshake record: message type and 24-bit length
			if r.Type == 22 && r.Len >= 4 {
				for _, t := range []byte{0, 1, 2, 4, 8, 11, 12, 13, 14, 15, 16, 20, 22, 24, 254} {
					if t != r.Payload[0] {
						add(0, tlsx.Edit{Dir: d, Kind: tlsx.Set, A: r.Off + 5, Val: t})
					}
				}
				hl := int(r.Payload[1])<<16 | int(r.Payload[2])<<8 | int(r.Payload[3])
				for _, l := range []int{0, 1, hl - 1, hl + 1, 65536 + 1, 0xffffff} {
					if l < 0 || l == hl {
						continue
					}
					add(0, tlsx.Edit{Dir: d, Kind: tlsx.Set, A: r.Off + 6, Val: byte(l >> 16)}, tlsx.Edit{Dir: d, Kind: tlsx.Set, A: r.Off + 7, Val: byte(l >> 8)}, tlsx.Edit{Dir: d, Kind: tlsx.Set, A: r.Off + 8, Val: byte(l)})
				}
			}
			// split the record in two at several offsets (re-framed), and coalesce with the next one
			splits := []int{1, 2, 4, r.Len / 2, r.Len - 1}
			if thorough && r.Len <= 300 {
				splits = splits[:0]
				for k := 1; k < r.Len; k++ {
					splits = append(splits, k)
				}
			}
			seenSplit := map[int]bool{}
			for _, k := range splits {
				if k <= 0 || k >= r.Len || seenSplit[k] {
					continue
				}
				seenSplit[k] = true
				hdr := func(l int) []byte { return []byte{r.Type, byte(r.Vers >> 8), byte(r.Vers), byte(l >> 8), byte(l)} }
				var rep []byte
				rep = append(rep, hdr(k)...)
				rep = append(rep, r.Payload[:k]...)
				rep = append(rep, hdr(r.Len-k)...)
				rep = append(rep, r.Payload[k:]...)
				add(0, tlsx.Edit{Dir: d, Kind: tlsx.Insert, A: r.Off, Data: rep}, tlsx.Edit{Dir: d, Kind: tlsx.Drop, A: r.Off, B: r.End()})
			}
			if i+1 < len(recs) && recs[i+1].Type == r.Type && r.Len+recs[i+1].Len <= 16384 {
				nx := recs[i+1]
				l := r.Len + nx.Len
				rep := []byte{r.Type, byte(r.Vers >> 8), byte(r.Vers), byte(l >> 8), byte(l)}
				rep = append(rep, r.Payload...)
				rep = append(rep, nx.Payload...)
				add(0, tlsx.Edit{Dir: d, Kind: tlsx.Insert, A: r.Off, Data: rep}, tlsx.Edit{Dir: d, Kind: tlsx.Drop, A: r.Off, B: nx.End()})
			}
		}
	}
	// transport segmentation without faults
	for _, seg := range []int{1, 2, 3, 5, 7, 16, 100, 1000} {
		add(seg)
	}
	// structure-aware edits of every plaintext handshake message (plain.go)
	if cf.hrr || thorough {
		plainMenu(cf, base, thorough, emit)
	}
}

func rawJobs(thorough bool, lazy func(func() job)) {
	for _, role := range []string{"client", "server"} {
		lazy(func() job { return job{raw: &rawJob{role: role}} })
		for a := 0; a < 256; a++ {
			lazy(func() job { return job{raw: &rawJob{role: role, stream: []byte{byte(a)}}} })
			for b := 0; b < 256; b++ {
				lazy(func() job { return job{raw: &rawJob{role: role, stream: []byte{byte(a), byte(b)}}} })
			}
		}
		al := []byte{0x00, 0x01, 0x03, 0x16, 0x80, 0xff}
		var rec func(p []byte)
		rec = func(p []byte) {
			if len(p) == 5 {
				for _, tail := range [][]byte{nil, {0}, {1, 0, 0, 0}, {2, 0, 0, 1, 0}} {
					lazy(func() job { return job{raw: &rawJob{role: role, stream: append(append([]byte{}, p...), tail...)}} })
				}
				return
			}
			for _, x := range al {
				rec(append(p, x))
			}
		}
		rec(nil)
	}
}

// rawInserts: what a raw peer appends to a genuine transcript prefix before it closes.
func rawInserts() [][]byte {
	out := append([][]byte(nil), wireInserts...)
	out = append(out, nil) // nothing: EOF right at the record boundary
	for _, part := range [][]byte{{22}, {22, 3}, {22, 3, 3}, {22, 3, 3, 0}, {23, 3, 3, 0, 20, 1, 2, 3}, {21, 3, 3, 0, 2, 2}} {
		out = append(out, part) // record cut inside / right after its header
	}
	for _, t := range hsTypes {
		out = append(out, append([]byte{22, 3, 3, 0, 4}, hsMsg(t, 0, nil)...))
		out = append(out, append([]byte{22, 3, 3, 0, 8}, hsMsg(t, 4, []byte{0, 0, 0, 0})...))
	}
	out = append(out, []byte{22, 3, 3, 0, 4, 1, 0xff, 0xff, 0xff}) // ClientHello header claiming 16 MiB
	out = append(out, []byte{21, 3, 3, 0, 2, 1, 100, 21, 3, 3, 0, 2, 1, 100, 21, 3, 3, 0, 2, 1, 100})
	return out
}

// rawPrefixJobs: the deterministic endpoints make every record-boundary prefix of the peer's baseline stream a
// genuine continuation (a valid ServerHello flight for the client, a valid ClientHello / second flight for the
// server, protected records included); the raw peer sends prefix + insert at once and closes.
func rawPrefixJobs(cf *conf, base outcome, lazy func(func() job)) {
	if cf.resume {
		return // the raw harness does not prime a session
	}
	ins := rawInserts()
	for _, role := range []string{"client", "server"} {
		d := tlsx.S2C
		if role == "server" {
			d = tlsx.C2S
		}
		stream := base.streams[d]
		for _, r := range tlsx.ParseRecords(stream) {
			for _, in := range ins {
				lazy(func() job {
					s := append(append([]byte(nil), stream[:r.End()]...), in...)
					return job{raw: &rawJob{role: role, stream: s, conf: cf.name}}
				})
			}
		}
	}
}

// ---------------------------------------------------------------- job list (deterministic; every process rebuilds it)

// trimLateCloseNotify: the client closes first; whether the server's answering close_notify still passes the proxy
// before the client's transport is closed is a race nobody reads the result of. The record is left out of the
// baseline view, so that the menus (and with them the case indexes) are the same in every process.
func trimLateCloseNotify(seen [2][]tlsx.Seen) [2][]tlsx.Seen {
	if s := seen[tlsx.S2C]; len(s) > 0 && s[len(s)-1].Type == 21 {
		seen[tlsx.S2C] = s[:len(s)-1]
	}
	return seen
}

type meta struct {
	Faults    map[string]any      `json:"faults"`
	KeyedBase map[string][]string `json:"keyed_base"`
	Classes   []string            `json:"classes"`      // config + " | " + message class of every protected baseline record
	WClasses  []string            `json:"wire_classes"` // "wire | " + config + " | " + message class of every plaintext handshake message that gets the structure-aware menu
	NWire     int                 `json:"n_wire"`
	NRaw      int                 `json:"n_raw"`
	NPrefix   int                 `json:"n_prefix"`
	NKeyed    int                 `json:"n_keyed"`
	NSpecial  int                 `json:"n_special"`
	Local     lfMeta              `json:"local"`
	Total     int                 `json:"total"`
	Baselines int64               `json:"baselines"`
	Broken    string              `json:"broken,omitempty"`
	// a panic in an UNFAULTED handshake is a violation too (reported before the run stops as broken)
	BaselineViol []violRec `json:"baseline_viol,omitempty"`
}

// buildJobs enumerates every case; only those with keep(index) are retained (all workers enumerate the same list).
func buildJobs(thorough bool, keep func(i int) bool) ([]job, meta) {
	m := meta{Faults: map[string]any{}, KeyedBase: map[string][]string{}}
	var jobs []job
	n := 0
	emit := func(j job) {
		if keep != nil && keep(n) {
			j.idx = n
			jobs = append(jobs, j)
		}
		n++
	}
	lazy := func(mk func() job) {
		if keep != nil && keep(n) {
			j := mk()
			j.idx = n
			jobs = append(jobs, j)
		}
		n++
	}
	broken := func(format string, a ...any) {
		if m.Broken == "" {
			m.Broken = fmt.Sprintf(format, a...)
		}
	}
	cfs := confs(thorough)
	for ci := range cfs {
		cf := &cfs[ci]
		b1 := runOnce(cf, nil, 0)
		b2 := runOnce(cf, nil, 0)
		m.Baselines += 2
		if string(b1.streams[0]) != string(b2.streams[0]) || string(b1.streams[1]) != string(b2.streams[1]) {
			broken("baseline transcript of %s is not reproducible", cf.name)
		}
		for _, p := range b1.panics {
			m.BaselineViol = append(m.BaselineViol, violRec{"panic: " + p, job{cf: cf}.describe()})
		}
		if b1.cls != "client=ok server=ok stalled=false" || len(b1.panics) > 0 {
			broken("baseline of %s did not complete: %s %v", cf.name, b1.cls, b1.panics)
		}
		n0 := n
		wcls := map[string]bool{}
		faultMenu(cf, b1, thorough, func(j job) {
			if j.cls != "" && !wcls[j.cls] {
				wcls[j.cls] = true
				m.WClasses = append(m.WClasses, "wire | "+cf.name+" | "+j.cls)
			}
			emit(j)
		})
		if cf.hrr {
			for _, want := range []string{"c2s clear ClientHello", "s2c clear HelloRetryRequest", "c2s clear ClientHello#2", "s2c clear ServerHello"} {
				if !wcls[want] {
					broken("baseline of %s has no %q among its plaintext handshake messages (no HelloRetryRequest round?)", cf.name, want)
				}
			}
		}
		n1 := n
		rawPrefixJobs(cf, b1, lazy)
		m.Faults[cf.name] = map[string]any{"faults": n1 - n0, "raw_prefix_streams": n - n1, "c2s_bytes": len(b1.streams[0]), "s2c_bytes": len(b1.streams[1]),
			"c2s_records": len(tlsx.ParseRecords(b1.streams[0])), "s2c_records": len(tlsx.ParseRecords(b1.streams[1]))}
		m.NWire += n1 - n0
		m.NPrefix += n - n1
	}
	kcfs := kconfs(thorough)
	for ki := range kcfs {
		kcf := &kcfs[ki]
		b1 := runKeyed(*kcf, nil)
		b2 := runKeyed(*kcf, nil)
		b1.seen, b2.seen = trimLateCloseNotify(b1.seen), trimLateCloseNotify(b2.seen)
		m.Baselines += 2
		for _, p := range b1.panics {
			m.BaselineViol = append(m.BaselineViol, violRec{"panic: " + p, job{kcf: kcf}.describe()})
		}
		if b1.desync != "" {
			broken("keyed baseline of %s: the proxy lost the key schedule: %s", kcf.name, b1.desync)
		}
		if b1.cls != "keyed client=ok server=ok stalled=false" || len(b1.panics) > 0 || b1.dataErr[0] != "" || (b1.dataErr[1] != "" && b1.dataErr[1] != "EOF") {
			broken("keyed baseline of %s (every record re-sealed by the proxy) did not complete: %s %v hs=%q data=%q", kcf.name, b1.cls, b1.panics, b1.hsErr, b1.dataErr)
		}
		if !sameSeen(b1.seen, b2.seen) {
			broken("keyed baseline of %s is not reproducible", kcf.name)
		}
		if b1.vers != kcf.vers || (len(kcf.suites) == 1 && b1.suite != kcf.suites[0]) {
			broken("keyed baseline of %s negotiated %04x/%04x", kcf.name, b1.vers, b1.suite)
		}
		m.KeyedBase[kcf.name] = seenSummary(b1.seen)
		cls := map[string]bool{}
		n0 := n
		keyedMenu(*kcf, b1.seen, thorough, func(k kcase) {
			cls[k.Class] = true
			if keep != nil && keep(n) {
				kk := k
				jobs = append(jobs, job{idx: n, kcf: kcf, k: &kk})
			}
			n++
		})
		for c := range cls {
			m.Classes = append(m.Classes, kcf.name+" | "+c)
		}
		m.NKeyed += n - n0
	}
	sort.Strings(m.Classes)
	n0 := n
	rawJobs(thorough, lazy)
	m.NRaw = n - n0
	// SSLv3: a raw SSLv3 ClientHello (the TLS 1.0 one with both version fields rewritten) against a server that allows SSLv3
	n0 = n
	if o := runOnce(&cfs[3], nil, 0); len(o.streams[0]) > 11 {
		recs := tlsx.ParseRecords(o.streams[0])
		ch := append([]byte(nil), o.streams[0][:recs[0].End()]...)
		ch[1], ch[2], ch[9], ch[10] = 3, 0, 3, 0
		for _, in := range rawInserts() {
			emit(job{raw: &rawJob{role: "server", stream: append(append([]byte(nil), ch...), in...), ssl3: true}})
		}
	}
	for _, s := range specials {
		emit(job{special: s})
	}
	m.NSpecial = n - n0
	// local-transport families: appended last, so the indexes of the older families do not move
	lfBuild(thorough, cfs, kcfs, lazy, &m, broken)
	m.Total = n
	return jobs, m
}

// ---------------------------------------------------------------- execution and aggregation (worker side)

type violRec struct {
	Sig     string `json:"sig"`
	Witness any    `json:"witness"`
}

type result struct {
	Hist       map[string]int64    `json:"hist"`
	States     int64               `json:"states"`
	Records    int64               `json:"records"`
	Viol       []violRec           `json:"viol"`
	Incomplete []string            `json:"incomplete"`
	Samples    []any               `json:"samples"`
	Reached    map[string][2]int64 `json:"reached"`  // config | class -> [cases delivered, cases whose edited record authenticated]
	Counters   map[string]int64    `json:"counters"` // local-transport families: non-vacuity counters
	Suspects   int                 `json:"suspects"`
	Stopped    bool                `json:"stopped"`
	Done       bool                `json:"done"`
}

func newResult() *result {
	return &result{Hist: map[string]int64{}, Reached: map[string][2]int64{}, Counters: map[string]int64{}}
}

func (r *result) merge(o *result) {
	for k, v := range o.Hist {
		r.Hist[k] += v
	}
	r.States += o.States
	r.Records += o.Records
	r.Viol = append(r.Viol, o.Viol...)
	r.Incomplete = append(r.Incomplete, o.Incomplete...)
	r.Samples = append(r.Samples, o.Samples...)
	for k, v := range o.Reached {
		c := r.Reached[k]
		c[0] += v[0]
		c[1] += v[1]
		r.Reached[k] = c
	}
	for k, v := range o.Counters {
		r.Counters[k] += v
	}
	r.Suspects += o.Suspects
	r.Stopped = r.Stopped || o.Stopped
}

type jobOut struct {
	o  outcome
	ko *kout
}

func runJob(j job) jobOut {
	switch {
	case j.special != "":
		return jobOut{o: runSpecial(j.special)}
	case j.kcf != nil:
		ko := runKeyed(*j.kcf, j.k)
		return jobOut{o: ko.outcome, ko: &ko}
	case j.raw != nil:
		return jobOut{o: runRaw(j.raw)}
	}
	return jobOut{o: runOnce(j.cf, j.edits, j.seg)}
}

// exec runs a case under a wall-clock net (which never yields a verdict by itself).
func exec(j job, limit time.Duration) (jobOut, bool) {
	done := make(chan jobOut, 1)
	go func() { done <- runJob(j) }()
	t := time.NewTimer(limit)
	defer t.Stop()
	select {
	case o := <-done:
		return o, true
	case <-t.C:
		return jobOut{}, false
	}
}

func (r *result) record(j job, jo jobOut) {
	o := jo.o
	r.States++
	r.Records += int64(len(tlsx.ParseRecords(o.streams[0])) + len(tlsx.ParseRecords(o.streams[1])))
	r.Hist[o.cls]++
	for _, p := range o.panics {
		r.Viol = append(r.Viol, violRec{"panic: " + p, j.describe()})
	}
	if j.cls != "" && j.cf != nil {
		key := "wire | " + j.cf.name + " | " + j.cls
		c := r.Reached[key]
		c[0]++
		if o.applied == len(j.edits) {
			c[1]++
		}
		r.Reached[key] = c
	}
	if jo.ko != nil && j.k != nil {
		r.Records += int64(jo.ko.delivered[0] + jo.ko.delivered[1])
		reached, cls := receiverVerdict(j.k, jo.ko)
		r.Hist["keyed "+cls]++
		if jo.ko.desync != "" {
			r.Hist["keyed proxy lost the key schedule after the edit (rest passed through verbatim)"]++
		}
		if jo.ko.applied && len(j.k.Repl) > 0 {
			key := j.kcf.name + " | " + j.k.Class
			c := r.Reached[key]
			c[0]++
			if reached {
				c[1]++
			}
			r.Reached[key] = c
		}
	}
	if j.idx%9973 == 0 {
		r.Samples = append(r.Samples, map[string]any{"case": j.describe(), "outcome": o.cls})
	}
}

func (r *result) rerunSuspects(suspects []job) {
	if len(suspects) > 4 {
		// a genuine hang in a common path makes hundreds of cases suspect; four verdicts (3 x 60 s each) are enough
		r.Incomplete = append(r.Incomplete, fmt.Sprintf("%d further cases exceeded 20 s and were not re-run", len(suspects)-4))
		r.Suspects += len(suspects) - 4
		suspects = suspects[:4]
	}
	confirmed := false
	for _, j := range suspects {
		if confirmed {
			// every verdict of this path carries the same signature: one confirmed witness is enough (3 x 60 s each)
			r.Incomplete = append(r.Incomplete, fmt.Sprintf("case %d exceeded 20 s and was not re-run after another case had been confirmed as a hang", j.idx))
			continue
		}
		hung := 0
		for k := 0; k < 3; k++ {
			if _, ok := exec(j, 60*time.Second); !ok {
				hung++
			}
		}
		if hung == 3 {
			buf := make([]byte, 1<<16)
			buf = buf[:runtime.Stack(buf, true)]
			w := j.describe()
			w["goroutines"] = firstZcryptoFrames(string(buf))
			r.Viol = append(r.Viol, violRec{"handshake/data call did not return after the transport was closed", w})
			confirmed = true
		} else {
			r.Incomplete = append(r.Incomplete, fmt.Sprintf("case %d exceeded 20 s under load but completed when re-run (not a verdict)", j.idx))
		}
	}
	r.Suspects += len(suspects)
}

func firstZcryptoFrames(dump string) []string {
	var out []string
	for _, l := range strings.Split(dump, "\n") {
		if strings.Contains(l, "zcrypto/tls.") && len(out) < 12 {
			out = append(out, strings.TrimSpace(l))
		}
	}
	return out
}

// jobFromWitness rebuilds a case from the JSON that describe() produced.
func jobFromWitness(raw json.RawMessage) (job, error) {
	var w struct {
		Config   string      `json:"config"`
		EditsRaw []tlsx.Edit `json:"edits_raw"`
		Seg      int         `json:"read_segment"`
		RawRole  string      `json:"raw_peer_against"`
		Stream   string      `json:"stream_hex"`
		RawConf  string      `json:"raw_config"`
		RawSSL3  bool        `json:"raw_ssl3"`
		KConf    string      `json:"keyed_config"`
		Keyed    *kcase      `json:"keyed"`
		Special  string      `json:"special"`
		Local    *lfJob      `json:"local"`
	}
	if err := json.Unmarshal(raw, &w); err != nil {
		return job{}, err
	}
	switch {
	case w.Local != nil:
		return job{lf: w.Local}, nil
	case w.Special != "":
		return job{special: w.Special}, nil
	case w.KConf != "":
		for _, kcf := range kconfs(true) {
			if kcf.name == w.KConf {
				kcf := kcf
				return job{kcf: &kcf, k: w.Keyed}, nil
			}
		}
		return job{}, fmt.Errorf("unknown keyed config %q", w.KConf)
	case w.RawRole != "":
		var b []byte
		fmt.Sscanf(w.Stream, "%x", &b)
		return job{raw: &rawJob{role: w.RawRole, stream: b, conf: w.RawConf, ssl3: w.RawSSL3}}, nil
	}
	cf, ok := confByName(w.Config)
	if !ok {
		return job{}, fmt.Errorf("unknown config %q", w.Config)
	}
	return job{cf: cf, edits: w.EditsRaw, seg: w.Seg}, nil
}

func main() {
	if spec := os.Getenv("C32_WORKER"); spec != "" {
		workerMain(spec)
		return
	}
	ev.Main("C32", "model_checking", supervise)
}
