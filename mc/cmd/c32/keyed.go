package main

// Key-aware part of C32: every PROTECTED record of a baseline transcript is
// decrypted in flight by tlsx.Keyed (secrets from Config.KeyLogWriter), the
// plaintext edit menu is applied to the handshake message / alert / data inside,
// and the result is sealed for the receiver's state so that it authenticates and
// reaches the parsers and handlers behind the record layer.

import (
	"fmt"
	"sort"
	"strings"
	"sync"

	"github.com/zmap/zcrypto/tls"
	"verifmc/internal/ev"
	"verifmc/internal/tlsx"
)

type kconf struct {
	name    string
	key     string
	vers    uint16
	suites  []uint16
	cauth   bool // server: RequireAnyClientCert, client presents a certificate
	resume  bool // the faulted connection is the resuming one
	tickets bool // tickets on + client session cache, so NewSessionTicket is processed
	reneg   tls.RenegotiationSupport
	extras  bool // ALPN on both sides, OCSP staple and SCTs on the certificates (EncryptedExtensions / Certificate entries carry extensions)
}

func kconfs(thorough bool) []kconf {
	v10, v11, v12, v13 := uint16(tls.VersionTLS10), uint16(tls.VersionTLS11), uint16(tls.VersionTLS12), uint16(tls.VersionTLS13)
	out := []kconf{
		{name: "k13-ecdsa-aes128-tickets", key: "p256", vers: v13, suites: []uint16{tls.TLS_AES_128_GCM_SHA256}, tickets: true, extras: true},
		{name: "k13-ecdsa-aes256-clientauth", key: "p256", vers: v13, suites: []uint16{tls.TLS_AES_256_GCM_SHA384}, cauth: true, tickets: true, extras: true},
		{name: "k13-ed25519-chacha-resumed", key: "ed-srv-leaf", vers: v13, suites: []uint16{tls.TLS_CHACHA20_POLY1305_SHA256}, resume: true},
		{name: "k12-ecdhe-ecdsa-gcm-reneg", key: "p256", vers: v12, suites: []uint16{tls.TLS_ECDHE_ECDSA_WITH_AES_128_GCM_SHA256}, tickets: true, reneg: tls.RenegotiateFreelyAsClient},
		{name: "k12-ecdhe-ecdsa-chacha-clientauth", key: "p256", vers: v12, suites: []uint16{tls.TLS_ECDHE_ECDSA_WITH_CHACHA20_POLY1305}, cauth: true},
		{name: "k12-ecdhe-ecdsa-cbc", key: "p256", vers: v12, suites: []uint16{tls.TLS_ECDHE_ECDSA_WITH_AES_128_CBC_SHA}},
		{name: "k10-ecdhe-ecdsa-cbc", key: "p256", vers: v10, suites: []uint16{tls.TLS_ECDHE_ECDSA_WITH_AES_128_CBC_SHA}, reneg: tls.RenegotiateOnceAsClient},
		{name: "k12-ecdhe-ecdsa-gcm-resumed", key: "p256", vers: v12, suites: []uint16{tls.TLS_ECDHE_ECDSA_WITH_AES_128_GCM_SHA256}, resume: true},
	}
	if thorough {
		out = append(out,
			kconf{name: "k13-rsa-aes128-tickets", key: "rsa2048", vers: v13, suites: []uint16{tls.TLS_AES_128_GCM_SHA256}, tickets: true},
			kconf{name: "k13-ed25519-clientauth-chacha", key: "ed-srv-leaf", vers: v13, suites: []uint16{tls.TLS_CHACHA20_POLY1305_SHA256}, cauth: true},
			kconf{name: "k11-rsa-3des", key: "rsa2048", vers: v11, suites: []uint16{tls.TLS_RSA_WITH_3DES_EDE_CBC_SHA}},
			kconf{name: "k10-rsa-rc4", key: "rsa2048", vers: v10, suites: []uint16{tls.TLS_RSA_WITH_RC4_128_SHA}},
			kconf{name: "k12-ecdhe-rsa-gcm384", key: "rsa2048", vers: v12, suites: []uint16{tls.TLS_ECDHE_RSA_WITH_AES_256_GCM_SHA384}, tickets: true},
			kconf{name: "k12-rsa-cbc-sha256", key: "rsa2048", vers: v12, suites: []uint16{tls.TLS_RSA_WITH_AES_128_CBC_SHA256}},
			kconf{name: "k11-ecdhe-ecdsa-aes256-cbc", key: "p256", vers: v11, suites: []uint16{tls.TLS_ECDHE_ECDSA_WITH_AES_256_CBC_SHA}, cauth: true},
			kconf{name: "k10-ecdhe-ecdsa-cbc-resumed", key: "p256", vers: v10, suites: []uint16{tls.TLS_ECDHE_ECDSA_WITH_AES_128_CBC_SHA}, resume: true},
		)
	}
	return out
}

func mkKConfigs(cf kconf, logs [2]*tlsx.KeyLog) (*tls.Config, *tls.Config) {
	id := tlsx.ServerIdentity(cf.key)
	cc, sc := tlsx.BaseConfigs(id, "keyed-"+cf.name)
	cc.MinVersion, cc.MaxVersion = cf.vers, cf.vers
	sc.MinVersion, sc.MaxVersion = tls.VersionTLS10, tls.VersionTLS13
	if cf.vers == tls.VersionTLS13 {
		sc.CipherSuites = cf.suites
	} else {
		cc.CipherSuites, sc.CipherSuites = cf.suites, cf.suites
		cc.ForceSuites = true
	}
	if cf.cauth {
		cid := tlsx.ClientIdentity("p256b")
		cc.Certificates = []tls.Certificate{cid.TLSCert()}
		sc.ClientAuth = tls.RequireAnyClientCert
	}
	if cf.resume || cf.tickets {
		cc.ClientSessionCache = &mapCache{m: map[string]*tls.ClientSessionState{}}
		var k [32]byte
		copy(k[:], "verif-c32-ticket-key-0123456789abcdef")
		sc.SessionTicketKey = k
	} else {
		sc.SessionTicketsDisabled = true
	}
	if cf.extras {
		cc.NextProtos = []string{"h2", "http/1.1"}
		sc.NextProtos = []string{"http/1.1"}
		cc.SignedCertificateTimestampExt = true
		staple := func(c *tls.Certificate) {
			c.OCSPStaple = []byte("verif-c32 ocsp staple")
			c.SignedCertificateTimestamps = [][]byte{[]byte("verif-c32 sct one"), []byte("sct two")}
		}
		staple(&sc.Certificates[0])
		if len(cc.Certificates) > 0 {
			staple(&cc.Certificates[0])
		}
	}
	cc.Renegotiation = cf.reneg
	cc.KeyLogWriter, sc.KeyLogWriter = logs[0], logs[1]
	return cc, sc
}

// kcase is one keyed fault: records [Index, Index+Span) of direction Dir are replaced by Repl.
type kcase struct {
	Dir   int          `json:"dir"`
	Index int          `json:"index"`
	Span  int          `json:"span"`
	Repl  []tlsx.Plain `json:"replacement"`
	Desc  string       `json:"desc"`
	Class string       `json:"class"`
}

type kout struct {
	outcome
	seen      [2][]tlsx.Seen
	alerts    [2][][2]byte
	desync    string
	applied   bool
	dataErr   [2]string // first data-phase error of client / server
	hsErr     [2]string
	vers      uint16
	suite     uint16
	delivered [2]int
}

// exchange2 is the data phase of keyed runs: two client messages, each echoed, so that post-handshake
// messages injected at any point of either direction are read by the receiving endpoint.
func exchange2(s *tlsx.Session, o *kout, pmu *sync.Mutex) {
	var wg sync.WaitGroup
	note := func(who string, f func()) {
		if p, msg, site := ev.Try(f); p {
			pmu.Lock()
			o.panics = append(o.panics, fmt.Sprintf("%s: %s @ %s", who, ev.MsgClass(msg), site))
			pmu.Unlock()
			// the panicking side will not close its connection any more: close the transport, or its peer stays parked
			s.Net.CloseDir(tlsx.C2S)
			s.Net.CloseDir(tlsx.S2C)
		}
	}
	seterr := func(party int, err error) {
		if err != nil && o.dataErr[party] == "" {
			o.dataErr[party] = err.Error()
		}
	}
	wg.Add(1)
	go func() {
		defer wg.Done()
		note("server data phase", func() {
			buf := make([]byte, 64)
			for {
				n, err := s.Server.Conn.Read(buf)
				if err != nil {
					seterr(1, err)
					break
				}
				if _, err := s.Server.Conn.Write(buf[:n]); err != nil {
					seterr(1, err)
					break
				}
			}
			s.Server.Conn.Close()
		})
	}()
	note("client data phase", func() {
		buf := make([]byte, 64)
		for _, m := range []string{"ping-ping-ping-ping", "second message"} {
			if _, err := s.Client.Conn.Write([]byte(m)); err != nil {
				seterr(0, err)
				break
			}
			got := 0
			for got < len(m) {
				n, err := s.Client.Conn.Read(buf)
				got += n
				if err != nil {
					seterr(0, err)
					got = -1
					break
				}
			}
			if got < 0 {
				break
			}
		}
		s.Client.Conn.Close()
	})
	wg.Wait()
}

func runKeyed(cf kconf, kc *kcase) kout {
	var o kout
	var pmu sync.Mutex
	logs := [2]*tlsx.KeyLog{{}, {}}
	cc, sc := mkKConfigs(cf, logs)
	if cf.resume {
		s0 := tlsx.Handshake(cc, sc, nil)
		if s0.Client.OKDone && s0.Server.OKDone {
			var o0 kout
			exchange2(s0, &o0, &pmu)
			o.panics = append(o.panics, o0.panics...)
		}
		s0.Close()
	}
	k := tlsx.NewKeyed()
	k.Logs = logs
	if kc != nil {
		k.Rewrite = func(rec tlsx.Seen) ([]tlsx.Plain, bool) {
			if int(rec.Dir) != kc.Dir {
				return nil, false
			}
			switch {
			case rec.Index == kc.Index:
				o.applied = true
				if kc.Span <= 1 {
					return kc.Repl, true
				}
				return nil, true // held until the next record arrives
			case kc.Span == 2 && rec.Index == kc.Index+1:
				return kc.Repl, true
			}
			return nil, false
		}
	}
	s := tlsx.Handshake(cc, sc, func(n *tlsx.Net) { k.Install(n) })
	if s.Client.Panic != "" {
		o.panics = append(o.panics, "client Handshake: "+ev.MsgClass(s.Client.Panic))
	}
	if s.Server.Panic != "" {
		o.panics = append(o.panics, "server Handshake: "+ev.MsgClass(s.Server.Panic))
	}
	if s.Client.OKDone || s.Server.OKDone {
		exchange2(s, &o, &pmu)
	}
	s.Close()
	postMortem(s, &o.outcome)
	o.stalled = s.Net.Stalled
	ce, se := "ok", "ok"
	if s.Client.Err != nil {
		ce = "err"
		o.hsErr[0] = s.Client.Err.Error()
	}
	if s.Server.Err != nil {
		se = "err"
		o.hsErr[1] = s.Server.Err.Error()
	}
	o.cls = fmt.Sprintf("keyed client=%s server=%s stalled=%v", ce, se, o.stalled)
	o.seen, o.alerts, o.desync, o.vers, o.suite = k.Seen, k.Alerts, k.Desync, k.Vers, k.Suite
	o.delivered = [2]int{len(k.Delivered[0]), len(k.Delivered[1])}
	return o
}

// recClass names a baseline record for the reached-the-parser table.
func recClass(r tlsx.Seen) string {
	name := recTypeName(r.Type)
	if r.Type == 22 && len(r.Data) >= 4 {
		name = hsName(r.Data[0])
	}
	return fmt.Sprintf("%s %s %s", r.Dir, r.Epoch, name)
}

func seenSummary(seen [2][]tlsx.Seen) []string {
	var out []string
	for d := 0; d < 2; d++ {
		for _, r := range seen[d] {
			p := "clear"
			if r.Protected {
				p = "protected"
			}
			out = append(out, fmt.Sprintf("%s #%d %s len=%d %s", recClass(r), r.Index, p, len(r.Data), fmt.Sprintf("%04x", r.RecVers)))
		}
	}
	return out
}

func sameSeen(a, b [2][]tlsx.Seen) bool {
	for d := 0; d < 2; d++ {
		if len(a[d]) != len(b[d]) {
			return false
		}
		for i := range a[d] {
			if a[d][i].Type != b[d][i].Type || string(a[d][i].Data) != string(b[d][i].Data) || a[d][i].Epoch != b[d][i].Epoch {
				return false
			}
		}
	}
	return true
}

// offsets picks the body offsets an edit family visits: every offset in the thorough tier; in the quick tier every
// offset of short bodies, and for long ones the first 8 / last 4 bytes, every byte of and next to a length field, and a stride.
func offsets(L int, fields []lenField, thorough bool, stride int) []int {
	var out []int
	if thorough || L <= 40 {
		for i := 0; i < L; i++ {
			out = append(out, i)
		}
		return out
	}
	pick := map[int]bool{}
	for i := 0; i < L; i++ {
		if i < 8 || i >= L-4 || i%stride == 0 {
			pick[i] = true
		}
	}
	for _, f := range fields {
		for i := f.off - 1; i <= f.off+f.width+1; i++ {
			if i >= 0 && i < L {
				pick[i] = true
			}
		}
		if e := f.off + f.width + f.val; e-1 >= 0 && e-1 < L {
			pick[e-1] = true
		}
	}
	for i := range pick {
		out = append(out, i)
	}
	sort.Ints(out)
	return out
}

func byteMenu(b byte) []byte {
	seen := map[byte]bool{b: true}
	var out []byte
	for _, v := range []byte{0x00, 0x01, 0x7f, 0x80, 0xff, b ^ 0x01, b ^ 0x80} {
		if !seen[v] {
			seen[v] = true
			out = append(out, v)
		}
	}
	return out
}

func cp(b []byte) []byte { return append([]byte(nil), b...) }

// postInserts is the menu of post-handshake material injected in front of a data-phase record.
// full: every KeyUpdate request value and the whole alert grid; otherwise a covering slice.
func postInserts(base [2][]tlsx.Seen, tls13 bool, full bool) (names []string, recs [][]tlsx.Plain) {
	add := func(name string, p ...tlsx.Plain) { names = append(names, name); recs = append(recs, p) }
	hs := func(b []byte) tlsx.Plain { return tlsx.Plain{Type: 22, Data: b} }
	// KeyUpdate (RFC 8446 §4.6.3) with every request_update value
	kuVals := []int{0, 1, 2, 3, 0x7f, 0x80, 0xff}
	if full {
		kuVals = kuVals[:0]
		for v := 0; v < 256; v++ {
			kuVals = append(kuVals, v)
		}
	}
	for _, v := range kuVals {
		add(fmt.Sprintf("KeyUpdate(request=%d)", v), hs(hsMsg(24, 1, []byte{byte(v)})))
	}
	add("KeyUpdate(empty)", hs(hsMsg(24, 0, nil)))
	add("KeyUpdate(2 bytes)", hs(hsMsg(24, 2, []byte{0, 0})))
	add("KeyUpdate(header says 1, no body)", hs(hsMsg(24, 1, nil)))
	add("KeyUpdate(0)+KeyUpdate(1) coalesced", hs(append(hsMsg(24, 1, []byte{0}), hsMsg(24, 1, []byte{1})...)))
	add("KeyUpdate(1)+KeyUpdate(1) in two records", hs(hsMsg(24, 1, []byte{1})), hs(hsMsg(24, 1, []byte{1})))
	ku := hsMsg(24, 1, []byte{0})
	for k := 1; k < len(ku); k++ {
		add(fmt.Sprintf("KeyUpdate(0) fragmented at %d", k), hs(ku[:k]), hs(ku[k:]))
	}
	add("KeyUpdate(0) fragmented around an empty handshake record", hs(ku[:2]), hs(nil), hs(ku[2:]))
	add("KeyUpdate(0) fragment then application data", hs(ku[:2]), tlsx.Plain{Type: 23, Data: []byte("x")})
	for _, n := range []int{15, 16, 17, 33} {
		var many []tlsx.Plain
		for i := 0; i < n; i++ {
			many = append(many, hs(ku))
		}
		add(fmt.Sprintf("KeyUpdate(0) x%d", n), many...)
	}
	// NewSessionTicket
	nst13 := func(lifetime uint32, nonce, ticket, exts []byte) []byte {
		b := []byte{byte(lifetime >> 24), byte(lifetime >> 16), byte(lifetime >> 8), byte(lifetime), 1, 2, 3, 4, byte(len(nonce))}
		b = append(b, nonce...)
		b = append(b, byte(len(ticket)>>8), byte(len(ticket)))
		b = append(b, ticket...)
		b = append(b, byte(len(exts)>>8), byte(len(exts)))
		b = append(b, exts...)
		return hsMsg(4, len(b), b)
	}
	for _, lt := range []uint32{0, 1, 3600, 604800, 604801, 0x7fffffff, 0x80000000, 0xffffffff} {
		add(fmt.Sprintf("NewSessionTicket13(lifetime=%d)", lt), hs(nst13(lt, []byte{9}, []byte("ticket"), nil)))
	}
	add("NewSessionTicket13(empty nonce, empty ticket)", hs(nst13(3600, nil, nil, nil)))
	add("NewSessionTicket13(255-byte nonce)", hs(nst13(3600, make([]byte, 255), []byte("t"), nil)))
	add("NewSessionTicket13(early_data 4 bytes)", hs(nst13(3600, nil, []byte("t"), []byte{0, 42, 0, 4, 0, 0, 0x40, 0})))
	add("NewSessionTicket13(early_data 3 bytes)", hs(nst13(3600, nil, []byte("t"), []byte{0, 42, 0, 3, 0, 0, 0x40})))
	add("NewSessionTicket13(early_data 5 bytes)", hs(nst13(3600, nil, []byte("t"), []byte{0, 42, 0, 5, 0, 0, 0x40, 0, 0})))
	add("NewSessionTicket13(early_data empty)", hs(nst13(3600, nil, []byte("t"), []byte{0, 42, 0, 0})))
	add("NewSessionTicket13(unknown extension)", hs(nst13(3600, nil, []byte("t"), []byte{0xfa, 0xfa, 0, 1, 7})))
	add("NewSessionTicket13(extension length beyond list)", hs(nst13(3600, nil, []byte("t"), []byte{0, 42, 0, 9, 0})))
	add("NewSessionTicket13(extension header cut)", hs(nst13(3600, nil, []byte("t"), []byte{0, 42, 0})))
	add("NewSessionTicket12(lifetime=3600)", hs(hsMsg(4, 12, []byte{0, 0, 0x0e, 0x10, 0, 6, 't', 'i', 'c', 'k', 'e', 't'})))
	add("NewSessionTicket12(empty ticket)", hs(hsMsg(4, 6, []byte{0, 0, 0x0e, 0x10, 0, 0})))
	add("NewSessionTicket(4-byte body)", hs(hsMsg(4, 4, []byte{0, 0, 0x0e, 0x10})))
	for d := 0; d < 2; d++ {
		for _, r := range base[d] {
			if r.Type == 22 && len(r.Data) >= 4 && r.Data[0] == 4 {
				add("NewSessionTicket(copy of the genuine one)", hs(cp(r.Data)))
				add("NewSessionTicket(genuine) x2 coalesced", hs(append(cp(r.Data), r.Data...)))
			}
		}
	}
	// renegotiation attempts
	add("HelloRequest", hs(hsMsg(0, 0, nil)))
	add("HelloRequest x2", hs(hsMsg(0, 0, nil)), hs(hsMsg(0, 0, nil)))
	add("HelloRequest x2 coalesced", hs(append(hsMsg(0, 0, nil), hsMsg(0, 0, nil)...)))
	add("HelloRequest(1-byte body)", hs(hsMsg(0, 1, []byte{0})))
	add("HelloRequest + close", hs(hsMsg(0, 0, nil)), tlsx.Plain{Type: 21, Data: []byte{1, 0}, CloseAfter: true})
	if len(base[0]) > 0 && base[0][0].Type == 22 {
		add("ClientHello(genuine copy) as renegotiation", hs(cp(base[0][0].Data)))
		if len(base[0][0].Data) > 60 {
			add("ClientHello(cut) as renegotiation", hs(hsMsg(1, 56, base[0][0].Data[4:60])))
		}
	}
	if len(base[1]) > 0 && base[1][0].Type == 22 {
		add("ServerHello(genuine copy) after the handshake", hs(cp(base[1][0].Data)))
		add("HelloRequest then ServerHello(genuine copy)", hs(hsMsg(0, 0, nil)), hs(cp(base[1][0].Data)))
	}
	add("ClientHello(empty)", hs(hsMsg(1, 0, nil)))
	// unknown / unexpected handshake types
	for _, t := range hsTypes {
		add(fmt.Sprintf("%s(empty)", hsName(t)), hs(hsMsg(t, 0, nil)))
		add(fmt.Sprintf("%s(4 zero bytes)", hsName(t)), hs(hsMsg(t, 4, []byte{0, 0, 0, 0})))
	}
	// alerts
	lv, ds := alertLevels, alertDescs
	if !full {
		lv, ds = []byte{1, 2, 0}, []byte{0, 10, 20, 40, 50, 80, 90, 100, 255}
	}
	for _, l := range lv {
		for _, d := range ds {
			add(fmt.Sprintf("Alert(level=%d,desc=%d)", l, d), tlsx.Plain{Type: 21, Data: []byte{l, d}})
		}
	}
	add("Alert(empty)", tlsx.Plain{Type: 21})
	add("Alert(1 byte)", tlsx.Plain{Type: 21, Data: []byte{1}})
	add("Alert(3 bytes)", tlsx.Plain{Type: 21, Data: []byte{1, 100, 0}})
	add("Alert(two alerts in one record)", tlsx.Plain{Type: 21, Data: []byte{1, 100, 1, 100}})
	for _, n := range []int{16, 17, 40} {
		var many []tlsx.Plain
		for i := 0; i < n; i++ {
			many = append(many, tlsx.Plain{Type: 21, Data: []byte{1, 100}})
		}
		add(fmt.Sprintf("Alert(warning,no_renegotiation) x%d", n), many...)
	}
	// zero-length fragments and odd content types
	for _, t := range []byte{20, 21, 22, 23, 24, 0, 25, 255} {
		add(fmt.Sprintf("empty %s record", recTypeName(t)), tlsx.Plain{Type: t})
		add(fmt.Sprintf("%s record with 1 byte", recTypeName(t)), tlsx.Plain{Type: t, Data: []byte{1}})
	}
	for _, n := range []int{16, 17, 40} {
		var many []tlsx.Plain
		for i := 0; i < n; i++ {
			many = append(many, tlsx.Plain{Type: 23})
		}
		add(fmt.Sprintf("empty ApplicationData record x%d", n), many...)
	}
	add("Heartbeat request claiming 65535 bytes", tlsx.Plain{Type: 24, Data: []byte{1, 0xff, 0xff}})
	// maximum-length fragments
	add("ApplicationData 16384 bytes", tlsx.Plain{Type: 23, Fill: 16384, FillByte: 'A'})
	add("ApplicationData 16385 bytes", tlsx.Plain{Type: 23, Fill: 16385, FillByte: 'A'})
	add("Handshake record of 16384 zero bytes (4096 HelloRequests)", tlsx.Plain{Type: 22, Fill: 16384})
	add("Handshake record of 16385 bytes", tlsx.Plain{Type: 22, Fill: 16385})
	add("Alert record of 16384 bytes", tlsx.Plain{Type: 21, Fill: 16384, FillByte: 1})
	add("handshake header claiming 65536 bytes", hs(hsMsg(24, 65536, nil)))
	add("handshake header claiming 65537 bytes", hs(hsMsg(24, 65537, nil)))
	add("handshake header claiming 2^24-1 bytes", hs(hsMsg(4, 0xffffff, nil)))
	add("KeyUpdate of 65536 bytes in 5 records", tlsx.Plain{Type: 22, Data: hsMsg(24, 65536, nil), Fill: 16380}, tlsx.Plain{Type: 22, Fill: 16384}, tlsx.Plain{Type: 22, Fill: 16384}, tlsx.Plain{Type: 22, Fill: 16384}, tlsx.Plain{Type: 22, Fill: 4})
	if tls13 {
		add("KeyUpdate(0) with 1 byte of record padding", tlsx.Plain{Type: 22, Data: ku, Pad13: 1})
		add("KeyUpdate(0) padded to 16385 inner bytes", tlsx.Plain{Type: 22, Data: ku, Pad13: 16384 - len(ku)})
		add("KeyUpdate(0) padded to 16386 inner bytes", tlsx.Plain{Type: 22, Data: ku, Pad13: 16385 - len(ku)})
		add("inner plaintext of zeros only (no content type)", tlsx.Plain{Type: 0, Pad13: 8})
		add("protected record with outer type handshake", tlsx.Plain{Type: 22, Data: ku, Outer13: 22})
		add("protected record with outer type alert", tlsx.Plain{Type: 21, Data: []byte{1, 0}, Outer13: 21})
		add("change_cipher_spec inside a protected record", tlsx.Plain{Type: 20, Data: []byte{1}})
		add("unprotected change_cipher_spec in the data phase", tlsx.Plain{Type: 20, Data: []byte{1}, Clear: true})
	}
	add("unprotected KeyUpdate in the data phase", tlsx.Plain{Type: 22, Data: ku, Clear: true})
	add("unprotected alert in the data phase", tlsx.Plain{Type: 21, Data: []byte{2, 40}, Clear: true})
	return
}

// keyedMenu builds every keyed fault of one configuration from the plaintext view of its baseline.
func keyedMenu(cf kconf, base [2][]tlsx.Seen, thorough bool, emit func(kcase)) {
	tls13 := cf.vers == tls.VersionTLS13
	for d := 0; d < 2; d++ {
		recs := base[d]
		firstData := true
		// the handshake of this direction is over after its Finished
		finIdx := -1
		for i, r := range recs {
			if r.Type == 22 && len(r.Data) >= 4 && r.Data[0] == 20 && r.Protected {
				finIdx = i
			}
		}
		for i, r := range recs {
			if !r.Protected {
				continue
			}
			class := recClass(r)
			add := func(desc string, span int, repl ...tlsx.Plain) {
				emit(kcase{Dir: d, Index: i, Span: span, Repl: repl, Desc: class + ": " + desc, Class: class})
			}
			self := tlsx.Plain{Type: r.Type, Data: cp(r.Data)}
			with := func(b []byte) tlsx.Plain { return tlsx.Plain{Type: r.Type, Data: b} }

			// --- structural faults common to every protected record
			add("drop", 1)
			add("duplicate", 1, self, self)
			if i+1 < len(recs) {
				nx := recs[i+1]
				add("swap with the next record", 2, tlsx.Plain{Type: nx.Type, Data: cp(nx.Data)}, self)
				if nx.Type == r.Type {
					add("coalesce with the next record", 2, with(append(cp(r.Data), nx.Data...)))
				}
			}
			for _, t := range []byte{20, 21, 22, 23, 24, 0, 255} {
				if t != r.Type {
					add(fmt.Sprintf("content type %d", t), 1, tlsx.Plain{Type: t, Data: cp(r.Data)})
				}
			}
			add("delivered unprotected", 1, tlsx.Plain{Type: r.Type, Data: cp(r.Data), Clear: true})
			add("then close", 1, tlsx.Plain{Type: r.Type, Data: cp(r.Data), CloseAfter: true})
			if tls13 {
				add("1 byte of record padding", 1, tlsx.Plain{Type: r.Type, Data: cp(r.Data), Pad13: 1})
				add("record padding to 16385 inner bytes", 1, tlsx.Plain{Type: r.Type, Data: cp(r.Data), Pad13: 16384 - len(r.Data)})
				add("record padding to 16386 inner bytes", 1, tlsx.Plain{Type: r.Type, Data: cp(r.Data), Pad13: 16385 - len(r.Data)})
				add("outer record type handshake", 1, tlsx.Plain{Type: r.Type, Data: cp(r.Data), Outer13: 22})
			}
			splitAt := func(k int) {
				add(fmt.Sprintf("fragmented at %d", k), 1, with(cp(r.Data[:k])), with(cp(r.Data[k:])))
			}
			L := len(r.Data)
			if thorough && L <= 600 {
				for k := 1; k < L; k++ {
					splitAt(k)
				}
			} else {
				done := map[int]bool{}
				for _, k := range []int{1, 2, 3, 4, 5, L / 2, L - 1} {
					if k > 0 && k < L && !done[k] {
						done[k] = true
						splitAt(k)
					}
				}
			}
			if L >= 2 {
				add("fragmented around an empty record", 1, with(cp(r.Data[:L/2])), with(nil), with(cp(r.Data[L/2:])))
				add("first half, then close", 1, tlsx.Plain{Type: r.Type, Data: cp(r.Data[:L/2]), CloseAfter: true})
			}
			// inserted handshake messages of every type in front of the record
			for _, t := range hsTypes {
				for bi, body := range [][]byte{nil, {0}, {0, 0, 0, 0}} {
					if !thorough && bi == 1 {
						continue
					}
					add(fmt.Sprintf("preceded by %s(%d-byte body)", hsName(t), len(body)), 1, tlsx.Plain{Type: 22, Data: hsMsg(t, len(body), body)}, self)
				}
			}

			// --- the message inside
			switch {
			case r.Type == 22 && L >= 4 && 4+(int(r.Data[1])<<16|int(r.Data[2])<<8|int(r.Data[3])) == L:
				mt, body := r.Data[0], r.Data[4:]
				BL := len(body)
				// the structure-aware message edits (plain.go: truncations, header / inner length values, coherent vector
				// resizes, extensions removed / duplicated / appended, every byte, retyping)
				msgEdits(tls13, mt, body, thorough, func(desc string, msg []byte) { add(desc, 1, with(msg)) })
				for _, t := range []int{0, BL / 2, BL - 1} {
					if t >= 0 && t < BL {
						add(fmt.Sprintf("body truncated to %d, header stale, then close", t), 1, tlsx.Plain{Type: 22, Data: hsMsg(mt, BL, body[:t]), CloseAfter: true})
					}
				}
			case r.Type == 21:
				for _, l := range alertLevels {
					for _, ds := range alertDescs {
						if len(r.Data) == 2 && (l != r.Data[0] || ds != r.Data[1]) {
							add(fmt.Sprintf("alert rewritten to level=%d desc=%d", l, ds), 1, with([]byte{l, ds}))
						}
					}
				}
				add("alert cut to 1 byte", 1, with(cp(r.Data[:1])))
				add("alert emptied", 1, with(nil))
				add("alert with a third byte", 1, with(append(cp(r.Data), 0)))
			default:
				add("emptied", 1, with(nil))
				for _, o := range offsets(L, nil, thorough, 8) {
					for _, v := range byteMenu(r.Data[o]) {
						b := cp(r.Data)
						b[o] = v
						add(fmt.Sprintf("data[%d] = %02x", o, v), 1, with(b))
					}
				}
			}

			// --- post-handshake material in front of every data-phase record
			dataPhase := (tls13 && strings.HasPrefix(r.Epoch, "app")) || (!tls13 && finIdx >= 0 && i > finIdx)
			if dataPhase {
				// quick tier: the full menu (every KeyUpdate value, whole alert grid) in front of the first data record of
				// each direction in the "tickets"/"reneg" configurations, the covering slice there in the others
				if !thorough && !firstData {
					continue
				}
				names, ins := postInserts(base, tls13, thorough || cf.tickets)
				firstData = false
				for j := range ins {
					repl := append(append([]tlsx.Plain(nil), ins[j]...), self)
					emit(kcase{Dir: d, Index: i, Span: 1, Repl: repl, Desc: class + ": preceded by " + names[j], Class: tlsx.Dir(d).String() + " data-phase insert"})
				}
			}
		}
	}
}

// receiverVerdict classifies what the receiving endpoint made of the edited record.
func receiverVerdict(kc *kcase, o *kout) (reached bool, cls string) {
	if !o.applied {
		return false, "edit point not reached"
	}
	rcv := 1 - kc.Dir // receiver party: C2S (0) is received by the server (1)
	macFail := strings.Contains(o.hsErr[rcv], "bad record MAC") || strings.Contains(o.dataErr[rcv], "bad record MAC")
	last := "none"
	for _, a := range o.alerts[1-kc.Dir] {
		if a[1] == 20 {
			macFail = true
		}
		if a[1] != 0 {
			last = fmt.Sprintf("%d", a[1])
		}
	}
	if macFail {
		return false, "receiver: bad_record_mac"
	}
	return true, "receiver alert=" + last
}
