package main

// Supervisor / worker split. The supervisor (the process started by ./check)
// never runs zcrypto on faulted input itself: it re-executes its own binary as
// worker processes, each of which rebuilds the same deterministic case list and
// executes its share (index ≡ w mod W), one case at a time, writing the index of
// the case in flight to a progress file. A worker that dies without a result
// document — Go "fatal error" (stack exhaustion, out of memory, concurrent map
// access), a panic in a goroutine nobody recovers, os.Exit inside the library —
// is a VIOLATION whose witness is the case in flight (confirmed by re-running
// that case alone in a fresh process); the rest of its share is then re-run.

import (
	"bytes"
	"encoding/binary"
	"encoding/json"
	"fmt"
	"os"
	osexec "os/exec"
	"strconv"
	"strings"
	"sync"
	"sync/atomic"
	"time"

	"verifmc/internal/ev"
)

func envInt(k string) int {
	n, _ := strconv.Atoi(os.Getenv(k))
	return n
}

// selftestCrash lets the supervisor's crash handling be exercised: C32_SELFTEST_CRASH=<case index> makes the worker
// executing that case die the way an unrecovered panic in a library goroutine would.
func selftestCrash(j job) {
	if v := os.Getenv("C32_SELFTEST_CRASH"); v != "" && strconv.Itoa(j.idx) == v {
		go func() { panic("C32 self-test: deliberate crash in a goroutine nobody recovers") }()
		time.Sleep(2 * time.Second)
	}
}

// workerMain: C32_WORKER = "share:<w>/<W>" | "one:<index>" | "replay:<file>"
func workerMain(spec string) {
	thorough := os.Getenv("C32_TIER") == "thorough"
	res := newResult()
	var prog *os.File
	if p := os.Getenv("C32_PROGRESS"); p != "" {
		prog, _ = os.OpenFile(p, os.O_CREATE|os.O_WRONLY, 0o644)
	}
	// slot g of the progress file holds the index of the case goroutine g is executing (negative: none)
	markSlot := func(g, i int) {
		if prog != nil {
			var b [8]byte
			binary.LittleEndian.PutUint64(b[:], uint64(int64(i)))
			prog.WriteAt(b[:], int64(8*g))
		}
	}
	mark := func(i int) { markSlot(0, i) }
	finish := func() {
		res.Done = true
		mark(-1)
		json.NewEncoder(os.Stdout).Encode(res)
		os.Exit(0)
	}
	mark(-2) // building the case list (baselines only: genuine handshakes)
	kind, arg, _ := strings.Cut(spec, ":")
	switch kind {
	case "debug": // developer aid: print the plaintext view of every keyed baseline and the size of the menus
		for _, kcf := range kconfs(thorough) {
			t0 := time.Now()
			b := runKeyed(kcf, nil)
			fmt.Printf("== %s: %s vers=%04x suite=%04x desync=%q hs=%q data=%q panics=%v (%v)\n", kcf.name, b.cls, b.vers, b.suite, b.desync, b.hsErr, b.dataErr, b.panics, time.Since(t0))
			for _, l := range seenSummary(b.seen) {
				fmt.Println("   ", l)
			}
			per := map[string]int{}
			nm := 0
			keyedMenu(kcf, b.seen, thorough, func(k kcase) { per[k.Class]++; nm++ })
			fmt.Println("    menu:", nm, per)
		}
		_, m := buildJobs(thorough, nil)
		fmt.Printf("wire=%d prefix=%d keyed=%d raw=%d special=%d local(1)=%d local(2a)=%d local(2b)=%d total=%d broken=%q\n", m.NWire, m.NPrefix, m.NKeyed, m.NRaw, m.NSpecial, m.Local.N1, m.Local.N2a, m.Local.N2b, m.Total, m.Broken)
		for k, v := range m.Local.Writes {
			fmt.Println("   ", k, len(v), v)
		}
		os.Exit(0)
	case "replay":
		raw, err := os.ReadFile(arg)
		if err != nil {
			fmt.Fprintln(os.Stderr, "worker: replay:", err)
			os.Exit(3)
		}
		j, err := jobFromWitness(raw)
		if err != nil {
			fmt.Fprintln(os.Stderr, "worker: bad witness:", err)
			os.Exit(3)
		}
		mark(0)
		if j.lf != nil {
			fam := newLFFam()
			fam.noDefer = true
			runLFCase(j, res, fam)
			fmt.Fprintln(os.Stderr, "replayed: local-transport case,", len(res.Viol), "violation(s)", res.Incomplete)
			finish()
		}
		jo := runJob(j)
		res.record(j, jo)
		for i := range res.Viol {
			res.Viol[i].Witness = json.RawMessage(raw)
		}
		fmt.Fprintln(os.Stderr, "replayed:", jo.o.cls, jo.o.panics)
		finish()
	case "one":
		want, _ := strconv.Atoi(arg)
		jobs, _ := buildJobs(thorough, func(i int) bool { return i == want })
		for _, j := range jobs {
			mark(j.idx)
			selftestCrash(j)
			if j.lf != nil {
				fam := newLFFam()
				fam.noDefer = true
				runLFCase(j, res, fam)
				continue
			}
			res.record(j, runJob(j))
		}
		finish()
	case "share":
		ws, Ws, _ := strings.Cut(arg, "/")
		w, _ := strconv.Atoi(ws)
		W, _ := strconv.Atoi(Ws)
		skip := map[int]bool{}
		for _, s := range strings.Split(os.Getenv("C32_SKIP"), ",") {
			if n, err := strconv.Atoi(s); err == nil {
				skip[n] = true
			}
		}
		stop := os.Getenv("C32_STOP")
		jobs, m := buildJobs(thorough, func(i int) bool { return i%W == w && !skip[i] })
		if m.Broken != "" {
			fmt.Fprintln(os.Stderr, "worker: "+m.Broken)
			os.Exit(3)
		}
		if os.Getenv("C32_ONLY_LOCAL") != "" { // developer aid: only the local-transport families
			var keep []job
			for _, j := range jobs {
				if j.lf != nil {
					keep = append(keep, j)
				}
			}
			jobs = keep
		}
		P := envInt("C32_PAR")
		if P < 1 {
			P = 1
		}
		var suspects []job
		var mu sync.Mutex
		fam := newLFFam()
		var stopped atomic.Bool
		// pool runs a list of cases on P goroutines and returns the local-transport cases that were put off because
		// a suspect of their family was being confirmed at that moment (they are run in a later pass)
		pool := func(jobs []job) (deferred []job) {
			var next atomic.Int64
			var wg sync.WaitGroup
			for g := 0; g < P; g++ {
				wg.Add(1)
				go func(g int) {
					defer wg.Done()
					local := newResult()
					for {
						n := int(next.Add(1) - 1)
						if n >= len(jobs) || stopped.Load() {
							break
						}
						if n&63 == 0 && stop != "" {
							if _, err := os.Stat(stop); err == nil {
								stopped.Store(true)
								break
							}
						}
						j := jobs[n]
						markSlot(g, j.idx)
						selftestCrash(j)
						if j.lf != nil {
							// local-transport families carry their own guards, confirmation and family cut-off
							if runLFCase(j, local, fam) {
								mu.Lock()
								deferred = append(deferred, j)
								mu.Unlock()
							}
							continue
						}
						jo, ok := exec(j, 20*time.Second)
						if !ok {
							mu.Lock()
							suspects = append(suspects, j)
							mu.Unlock()
							continue
						}
						local.record(j, jo)
					}
					markSlot(g, -1)
					mu.Lock()
					res.merge(local)
					mu.Unlock()
				}(g)
			}
			wg.Wait()
			return deferred
		}
		for pass, todo := 0, jobs; len(todo) > 0 && !stopped.Load(); pass++ {
			if pass == 3 {
				fam.noDefer = true
			}
			todo = pool(todo)
		}
		res.Stopped = stopped.Load()
		mark(-3) // re-running suspects
		res.rerunSuspects(suspects)
		res.Incomplete = append(res.Incomplete, fam.notes()...)
		finish()
	}
	fmt.Fprintln(os.Stderr, "worker: bad spec", spec)
	os.Exit(3)
}

type workerRun struct {
	res      *result
	crashed  bool
	inFlight []int // indexes of the cases that were executing when the process ended
	stderr   string
	exit     string
}

func spawn(spec string, env []string, dir string, tag string) workerRun {
	prog := fmt.Sprintf("%s/progress-%s", dir, tag)
	os.Remove(prog)
	cmd := osexec.Command(os.Args[0])
	cmd.Env = append(append(os.Environ(), "C32_WORKER="+spec, "C32_PROGRESS="+prog, "GOTRACEBACK=all"), env...)
	var so, se bytes.Buffer
	cmd.Stdout, cmd.Stderr = &so, &se
	err := cmd.Run()
	out := workerRun{stderr: se.String()}
	if b, e := os.ReadFile(prog); e == nil {
		for ; len(b) >= 8; b = b[8:] {
			if i := int(int64(binary.LittleEndian.Uint64(b))); i >= 0 {
				out.inFlight = append(out.inFlight, i)
			}
		}
	}
	os.Remove(prog)
	var r result
	if json.Unmarshal(so.Bytes(), &r) == nil && r.Done && err == nil {
		if r.Hist == nil {
			r.Hist = map[string]int64{}
		}
		if r.Reached == nil {
			r.Reached = map[string][2]int64{}
		}
		if r.Counters == nil {
			r.Counters = map[string]int64{}
		}
		out.res = &r
		return out
	}
	out.crashed = true
	out.exit = fmt.Sprint(err)
	return out
}

// crashClass names a dead worker by the first Go crash marker of its stderr and the first zcrypto frame after it.
func crashClass(se string) (cls string, excerpt string) {
	at := -1
	for _, m := range []string{"fatal error:", "panic:", "runtime:", "SIG"} {
		for from := 0; from < len(se); {
			i := strings.Index(se[from:], m)
			if i < 0 {
				break
			}
			i += from
			if i == 0 || se[i-1] == '\n' {
				if at < 0 || i < at {
					at = i
				}
				break
			}
			from = i + len(m)
		}
	}
	if at < 0 {
		if len(se) > 2000 {
			se = se[len(se)-2000:]
		}
		return "no Go crash marker on stderr", se
	}
	body := se[at:]
	first, _, _ := strings.Cut(body, "\n")
	site := ""
	for _, l := range strings.Split(body, "\n") {
		if i := strings.Index(l, "github.com/zmap/zcrypto/"); i >= 0 && !strings.HasPrefix(strings.TrimSpace(l), "/") {
			site = strings.TrimPrefix(l[i:], "github.com/zmap/zcrypto/")
			site, _, _ = strings.Cut(site, " in goroutine")
			if j := strings.IndexByte(site, '('); j > 0 && strings.HasSuffix(site, ")") {
				// keep "tls.(*Conn).readRecord" and drop the argument list
				if k := strings.LastIndex(site, "("); k > 0 {
					site = site[:k]
				}
			}
			break
		}
	}
	if len(body) > 6000 {
		body = body[:6000]
	}
	if site == "" {
		return ev.MsgClass(first), body
	}
	return ev.MsgClass(first) + " @ " + site, body
}

func supervise(c *ev.Ctx) {
	thorough := !c.Quick()
	c.Rule("(1) wire faults — for each of 13 (thorough 22) configurations (TLS 1.0-1.3, RSA/ECDHE/DHE, client auth, resumption, zcrypto scan extras, ExternalClientHello, ClientFingerprintConfiguration+CertsOnly, and two TLS 1.3 HelloRetryRequest configurations — client CurvePreferences [X25519, P-256] with an X25519 share only against a server with [P-256] and an AES + a ChaCha suite, full and PSK-resumed, so that the clear flights are ClientHello, HelloRetryRequest, CCS, ClientHello#2, ServerHello) the baseline transcript of real client<->real server (handshake + data phase), then EVERY fault of the menu {xor 01/80, set 00/ff at each offset (quick: every offset in the first 96 / last 24 bytes of each record, stride 5 elsewhere; coarser on the server flight of the two ClientHello-construction configurations), truncate, drop/dup/swap record, 13 inserted records at every boundary, record length/type/version values, handshake type/length values, record split/coalesce, read segmentation} as a single fault; and for EVERY plaintext handshake message of the HelloRetryRequest configurations (thorough: of every configuration) the structure-aware message menu of (2) applied to the clear record (re-framed, no sealing needed): every body truncation with fixed-up / stale header, 8 header length values, trailing bytes, every inner length field {0,1,-1,+1,max} and every inner vector emptied / shortened / extended with all enclosing lengths adjusted (ClientHello session_id, cipher_suites, compression_methods, extension block, each extension and inside it server_name, supported_groups, point formats, signature_algorithms, ALPN, supported_versions, cookie, psk_key_exchange_modes, pre_shared_key identities / binders, key_share client_shares / key_exchange, renegotiation_info; ServerHello / HelloRetryRequest session_id, extension block, key_share, cookie), every extension removed / duplicated, each of 41 extensions (12 types incl. cookie, key_share, supported_versions, pre_shared_key, early_data x empty / small bodies) appended to every extension block, every body byte through 7 values, the body under each other handshake type, the message twice in one record, a message of each of 24 types in front of / behind it in the same record, an earlier clear message of the same direction in its place. " +
		"(2) keyed faults — for each of 8 (thorough 16) keyed configurations (TLS 1.3 with each of its 3 suites incl. client auth, PSK resumption, tickets, ALPN/OCSP/SCT; TLS 1.0-1.2 with GCM, ChaCha20, CBC implicit/explicit IV, 3DES, RC4, renegotiation allowed) every PROTECTED record of the baseline (TLS 1.3: EncryptedExtensions, CertificateRequest, Certificate, CertificateVerify, Finished, NewSessionTicket, client Certificate/CertificateVerify/Finished, data, alerts; TLS<=1.2: both Finished, data, alerts) is opened in flight with the KeyLogWriter secrets, edited in plaintext and re-sealed under the receiver's keys and sequence number: drop, duplicate, swap/coalesce with the next record, fragmentation (quick 7 offsets, thorough every offset), other content types, unprotected delivery, delivery then close, TLS 1.3 padding/outer type, a handshake message of each of 24 types (empty / tiny) in front; per message: every body truncation with fixed-up and with stale header length (and stale + close), 8 header length values, trailing bytes, every inner length field {0,1,-1,+1,max}, every inner vector emptied / shortened / extended with all enclosing lengths adjusted, every extension removed / duplicated and each of 41 extensions appended to every extension block, every body byte through {00,01,7f,80,ff,^01,^80}, the body under each other handshake type (quick: every offset of bodies <=40 bytes, else first 8/last 4, all bytes of and around length fields, stride 6; thorough: every offset); in front of data-phase records: KeyUpdate with every request byte 0..255 (+ empty, long, fragmented, coalesced, x15/16/17/33), NewSessionTicket variants, HelloRequest / ClientHello / ServerHello as renegotiation attempts, all 24 handshake types, alert level x description grid, empty and 16384/16385-byte fragments of every content type, 64 KiB handshake messages, unprotected records (quick: in front of the first data record of each direction, full menu in 3 configurations and a covering slice in the others; thorough: full menu at every data record). " +
		"(3) raw peers — every 0,1,2-byte stream and 6^5 record headers x 4 tails against each role, and for every non-resuming configuration every record-boundary prefix of the peer's genuine stream (protected records included: the endpoints are deterministic) followed by each of 70 inserts and EOF, all sent at once. (4) SSLv3: client-only / server-only / both / SSLv3..TLS1.0 configurations and a raw SSLv3 ClientHello + 70 inserts against a server allowing SSLv3. " +
		"(5) local transport failures — the net.Conn of the endpoint under test (EUT; client and server in turn, the peer being the real endpoint of the other role) is wrapped and its Write fails from some call onward with each error kind {permanent io.ErrClosedPipe, timeout net.Error, 1 / 5 / half / len-1 bytes written + error; thorough also ECONNRESET and a temporary net.Error}: (5.1) from EVERY transport write k of the fault-free run of every wire and keyed configuration (each handshake flight, CCS+Finished, tickets, every application-data record, close_notify) x 6 (thorough 11) kinds; (5.2) from the moment the EUT's Read begins to consume each keyed data-phase insert of (2): a first run (permanent error, EUT in Read) tells whether the insert elicits a transport write inside the Read that consumes it (KeyUpdate reply, alert for renegotiation attempts / unexpected handshake types / malformed KeyUpdate / NewSessionTicket to a server / unknown alert levels / oversized and odd records), and if so (quick: for the inserts of the covering slice, thorough: all and in front of every data record) 3 (thorough 6) kinds x {EUT in Read only, a concurrent Write parked in its transport write, a concurrent Close parked in its close_notify write} follow; (5.3) from the moment the EUT consumed the faulted bytes — so the alert it answers with fails — for every 5th fault of the wire menu and every 3rd non-insert fault of the keyed menu of (1)/(2) with the 3 kinds in rotation (thorough: the whole quick menus x each of the 3 kinds). After the fault the EUT goes on like an application whatever the calls return: Handshake, Write/Read (client) or Read/Write (server), Close, ConnectionState, GetHandshakeLog + json, OCSPResponse, Read, Write, CloseWrite, Close. " +
		"A case is non-trivial when the fault was reached by the stream; distinct = distinct (config,fault). For (2) the edited record must authenticate at the receiver for at least one case of every (configuration, message) class, and for (1) every structure-aware edit class (configuration x clear message, which must include ClientHello#2 and HelloRetryRequest in the HelloRetryRequest configurations) must have been reached by the stream, else the run is CHECK-BROKEN.")
	c.Assume("transport blocking is detected structurally (both endpoints parked in Read with nothing in flight => transport closes both directions)",
		"a 20 s wall-clock net only marks suspects, which are re-run 3x sequentially before being reported",
		"deterministic Rand/Time: the baseline offsets are stable across runs and processes (verified per configuration by running the baseline twice in every process)",
		"keyed faults: the proxy's record protection (tlsx/keyed.go, from RFC 8446/5246/5288/7905 on the Go standard library) is validated per configuration by a baseline in which EVERY record is re-sealed by the proxy and the handshake and data phase still complete",
		"cases run in worker subprocesses; a worker that dies without a result is a violation (witness = case in flight)",
		"local transport failures: both parties parked in the transport are released by the stall detection; a party that has not finished after 5 s gets both directions closed by the harness, and one that has still not returned 1 s later without being inside a transport call is a suspect (blocked inside the library), re-run 3x with 8 s + 3 s guards before it is reported; a family x role is not explored further after its first confirmed hang",
		"local transport failures: every planned failing write of (5.1) must be reached and carry what it carried in the baseline, every keyed configuration x role must have inserts that elicit a write, the concurrent Write / Close must have been parked, and alerts must be among the failed writes of (5.3), else the run is CHECK-BROKEN")

	dir, err := os.MkdirTemp("", "c32-*")
	if err != nil {
		c.Broken("tempdir: %v", err)
	}
	defer os.RemoveAll(dir)
	tierEnv := "C32_TIER=" + c.Tier

	report := func(r *result) {
		for _, v := range r.Viol {
			c.Violation(v.Sig, v.Witness)
		}
	}
	// crashVerdict turns a dead worker into a verdict. Each case that was in flight is re-run alone in a fresh
	// process. A case that kills that process too is a violation (witness = the case). If none does: with a Go
	// crash marker on the dead worker's stderr it is still a violation (witness = all cases in flight), without
	// one it is taken as a kill from outside (shared machine) and only recorded as incomplete.
	// It returns the cases to leave out when the share is re-run.
	crashVerdict := func(run workerRun) (skip []int) {
		if run.exit == "exit status 3" {
			c.Broken("worker could not start its share: %s", run.stderr)
		}
		cls, excerpt := crashClass(run.stderr)
		marker := !strings.HasPrefix(cls, "no Go crash marker")
		describe := func(idx int) map[string]any {
			js, _ := buildJobs(thorough, func(i int) bool { return i == idx })
			w := map[string]any{}
			if len(js) == 1 {
				w = js[0].describe()
			}
			w["case_index"] = idx
			return w
		}
		for _, idx := range run.inFlight {
			one := spawn(fmt.Sprintf("one:%d", idx), []string{tierEnv}, dir, fmt.Sprintf("confirm-%d", idx))
			if !one.crashed {
				continue
			}
			cls1, ex1 := crashClass(one.stderr)
			w := describe(idx)
			w["worker_exit"], w["worker_stderr"] = one.exit, ex1
			c.Violation("crash: worker process died: "+cls1, w)
			skip = append(skip, idx)
		}
		if len(skip) == 0 {
			if marker {
				var cases []any
				for _, idx := range run.inFlight {
					cases = append(cases, describe(idx))
				}
				c.Violation("crash (no case in flight reproduces it alone): worker process died: "+cls,
					map[string]any{"cases_in_flight": cases, "worker_exit": run.exit, "worker_stderr": excerpt})
			} else {
				c.Incomplete(fmt.Sprintf("a worker died without a Go crash marker (%s) while running cases %v and none of them kills a process alone: taken as an external kill, share re-run", run.exit, run.inFlight))
			}
		}
		return skip
	}

	if c.Replay != nil {
		f := dir + "/witness.json"
		os.WriteFile(f, c.Replay, 0o644)
		run := spawn("replay:"+f, []string{tierEnv}, dir, "replay")
		if run.crashed {
			cls, excerpt := crashClass(run.stderr)
			c.Violation("crash: worker process died: "+cls, map[string]any{"replayed": json.RawMessage(c.Replay), "worker_exit": run.exit, "worker_stderr": excerpt})
		} else {
			report(run.res)
			fmt.Print(run.stderr)
		}
		c.States.Add(1)
		c.Transitions.Add(1)
		return
	}

	_, m := buildJobs(thorough, nil)
	for _, v := range m.BaselineViol {
		c.Violation(v.Sig, v.Witness)
	}
	if m.Broken != "" {
		c.Broken("%s", m.Broken)
	}
	for k, v := range m.Faults {
		c.Set("faults_"+k, v)
	}
	c.Set("keyed_baseline_records", m.KeyedBase)
	c.Set("raw_peer_streams", m.NRaw)
	c.Set("raw_prefix_streams", m.NPrefix)
	c.Set("wire_fault_cases", m.NWire)
	c.Set("keyed_cases", m.NKeyed)
	c.Set("special_cases", m.NSpecial)
	c.Set("local_write_failure_cases", m.Local.N1)
	c.Set("peer_message_x_local_write_failure_inserts", m.Local.N2a)
	c.Set("malformed_flight_x_local_write_failure_cases", m.Local.N2b)
	c.Set("local_transport_writes_of_each_baseline", m.Local.Writes)
	c.Set("configurations", len(confs(thorough)))
	c.Set("keyed_configurations", len(kconfs(thorough)))
	c.Set("total_cases", m.Total)
	c.Traces.Add(m.Baselines)

	// W worker processes with P case-running goroutines each
	P := 4
	W := (c.Workers() + P - 1) / P
	if W < 1 {
		W = 1
	}
	stop := dir + "/stop"
	quit := make(chan struct{})
	go func() {
		for {
			select {
			case <-quit:
				return
			case <-time.After(250 * time.Millisecond):
				if c.TimeUp() {
					os.WriteFile(stop, nil, 0o644)
					return
				}
			}
		}
	}()
	total := newResult()
	var mu sync.Mutex
	var wg sync.WaitGroup
	crashes := 0
	for w := 0; w < W; w++ {
		wg.Add(1)
		go func(w int) {
			defer wg.Done()
			var skip []string
			for attempt := 0; ; attempt++ {
				run := spawn(fmt.Sprintf("share:%d/%d", w, W), []string{tierEnv, "C32_STOP=" + stop, "C32_SKIP=" + strings.Join(skip, ","),
					fmt.Sprintf("C32_PAR=%d", P), fmt.Sprintf("GOMAXPROCS=%d", 2*P)}, dir, fmt.Sprintf("w%d", w))
				mu.Lock()
				if !run.crashed {
					total.merge(run.res)
					mu.Unlock()
					return
				}
				crashes++
				mu.Unlock()
				more := crashVerdict(run)
				if (len(run.inFlight) == 0 && attempt >= 1) || attempt >= 8 {
					mu.Lock()
					total.Incomplete = append(total.Incomplete, fmt.Sprintf("worker %d/%d died (%s) outside a case or too often; its share was not completed", w, W, run.exit))
					mu.Unlock()
					return
				}
				for _, i := range more {
					skip = append(skip, strconv.Itoa(i))
				}
			}
		}(w)
	}
	wg.Wait()
	close(quit)

	report(total)
	c.Merge(ev.Hist(total.Hist))
	for _, s := range total.Samples {
		c.Sample(s)
	}
	for _, w := range total.Incomplete {
		c.Incomplete(w)
	}
	if total.Stopped {
		c.Incomplete(fmt.Sprintf("time budget reached after %d of %d cases", total.States, m.Total))
	}
	c.States.Add(total.States)
	c.Traces.Add(total.States)
	c.Transitions.Add(total.Records)
	c.Evaluations.Store(c.States.Load())
	c.Distinct.Store(c.States.Load())
	c.Set("suspects_rerun", total.Suspects)
	c.Set("worker_processes", W)
	c.Set("worker_crashes", crashes)

	// every (configuration, message) class must have been reached behind the record layer
	table := map[string]any{}
	var unreached []string
	for _, cl := range m.Classes {
		v := total.Reached[cl]
		table[cl] = map[string]int64{"delivered": v[0], "authenticated": v[1]}
		if v[1] == 0 {
			unreached = append(unreached, cl)
		}
	}
	c.Set("keyed_reached", table)
	// every (configuration, plaintext handshake message) class of the structure-aware wire menu must have been reached by the stream
	wtable := map[string]any{}
	for _, cl := range m.WClasses {
		v := total.Reached[cl]
		wtable[cl] = map[string]int64{"cases": v[0], "edit_reached_the_receiver": v[1]}
		if v[1] == 0 {
			unreached = append(unreached, cl)
		}
	}
	c.Set("wire_plaintext_message_reached", wtable)
	c.Set("local_transport_counters", total.Counters)
	// non-vacuity of the local-transport families
	if !total.Stopped && crashes == 0 && c.NViolations() == 0 && len(total.Incomplete) == 0 {
		cn := total.Counters
		var bad []string
		if cn["lf1 connections"] != int64(m.Local.N1) || cn["lf1 NOT REACHED"] != 0 || cn["lf1 DIVERGED"] != 0 {
			bad = append(bad, fmt.Sprintf("family (1): %d of %d planned connections ran, %d never reached the failing write, %d failed at another write than the baseline's", cn["lf1 connections"], m.Local.N1, cn["lf1 NOT REACHED"], cn["lf1 DIVERGED"]))
		}
		for _, kcf := range kconfs(thorough) {
			for _, role := range []string{"client", "server"} {
				if cn["lf2a elicits | "+kcf.name+" | "+role] == 0 {
					bad = append(bad, "family (2a): no insert elicited a write of the "+role+" of "+kcf.name)
				}
			}
		}
		for _, st := range []string{"Write", "Close"} {
			if cn["lf2a concurrent "+st+" parked in its transport write when the message arrived"] == 0 {
				bad = append(bad, "family (2a): the concurrent "+st+" was never parked in its transport write")
			}
		}
		if cn["lf2b alert write failed"] == 0 {
			bad = append(bad, "family (2b): the failing write was never an alert")
		}
		if len(bad) > 0 {
			c.Broken("local-transport families are vacuous: %s", strings.Join(bad, "; "))
		}
	}
	if len(unreached) > 0 && !total.Stopped && crashes == 0 {
		c.Broken("keyed faults never authenticated at the receiver / plaintext message edits never reached by the stream for: %s", strings.Join(unreached, "; "))
	}
}
