// C35 — the LRU client session cache behaves as a bounded LRU map.
//
// Engine E1: explicit-state search over Put/Get histories of the real
// tls.NewLRUClientSessionCache object against a slice-based reference model.
package main

import (
	"encoding/json"
	"fmt"
	"os"
	"reflect"
	"strings"
	"unsafe"

	"container/list"

	"github.com/zmap/zcrypto/tls"
	"verifmc/internal/ev"
	"verifmc/internal/nohb"
)

var keys = []string{"a", "b", "c", "d", "e"}
var sess = []*tls.ClientSessionState{nil, new(tls.ClientSessionState), new(tls.ClientSessionState)}

func sessName(s *tls.ClientSessionState) string {
	for i, p := range sess {
		if p == s {
			if i == 0 {
				return "nil"
			}
			return fmt.Sprintf("s%d", i)
		}
	}
	return "s?"
}

type op struct {
	get  bool
	key  int
	sess int
}

func (o op) String() string {
	if o.get {
		return "Get(" + keys[o.key] + ")"
	}
	return "Put(" + keys[o.key] + "," + sessName(sess[o.sess]) + ")"
}

// reference model: most-recently-used first.
type refEntry struct {
	key string
	s   *tls.ClientSessionState
}
type ref struct {
	cap int
	l   []refEntry
}

func (r *ref) find(k string) int {
	for i, e := range r.l {
		if e.key == k {
			return i
		}
	}
	return -1
}
func (r *ref) touch(i int) {
	e := r.l[i]
	copy(r.l[1:i+1], r.l[:i])
	r.l[0] = e
}
func (r *ref) put(k string, s *tls.ClientSessionState) {
	i := r.find(k)
	if s == nil {
		// "A Put with a nil session removes that key's entry and has no other effect."
		if i >= 0 {
			r.l = append(r.l[:i], r.l[i+1:]...)
		}
		return
	}
	if i >= 0 {
		r.l[i].s = s
		r.touch(i)
		return
	}
	if len(r.l) >= r.cap {
		r.l = r.l[:len(r.l)-1] // evict least recently used
	}
	r.l = append([]refEntry{{k, s}}, r.l...)
}
func (r *ref) get(k string) (*tls.ClientSessionState, bool) {
	i := r.find(k)
	if i < 0 {
		return nil, false
	}
	r.touch(i)
	return r.l[0].s, true
}
func (r *ref) canon() string {
	var b strings.Builder
	for _, e := range r.l {
		b.WriteString(e.key + "=" + sessName(e.s) + ",")
	}
	return b.String()
}

// dump reads the real cache's recency list (front = most recent) and checks
// the map<->list bijection. ok=false when the layout is not the expected one
// (then only the observational oracle is used).
func dump(c tls.ClientSessionCache) (s string, ok bool, bad string) {
	defer func() {
		if r := recover(); r != nil {
			ok = false
		}
	}()
	v := reflect.ValueOf(c).Elem()
	qf := v.FieldByName("q")
	mf := v.FieldByName("m")
	cf := v.FieldByName("capacity")
	if !qf.IsValid() || !mf.IsValid() || !cf.IsValid() {
		return "", false, ""
	}
	q := *(**list.List)(unsafe.Pointer(qf.UnsafeAddr()))
	m := reflect.NewAt(mf.Type(), unsafe.Pointer(mf.UnsafeAddr())).Elem()
	capacity := int(cf.Int())
	var b strings.Builder
	n := 0
	for e := q.Front(); e != nil; e = e.Next() {
		ent := reflect.ValueOf(e.Value).Elem()
		kf := ent.FieldByName("sessionKey")
		sf := ent.FieldByName("state")
		k := kf.String()
		sp := *(**tls.ClientSessionState)(unsafe.Pointer(sf.UnsafeAddr()))
		b.WriteString(k + "=" + sessName(sp) + ",")
		me := m.MapIndex(reflect.ValueOf(k))
		if !me.IsValid() || me.Pointer() != uintptr(unsafe.Pointer(e)) {
			bad = "map entry for " + k + " does not point at its list element"
		}
		n++
	}
	if m.Len() != n {
		bad = fmt.Sprintf("map has %d entries, list has %d", m.Len(), n)
	}
	if n > capacity {
		bad = fmt.Sprintf("holds %d > capacity %d", n, capacity)
	}
	return b.String(), true, bad
}

type witness struct {
	Capacity int      `json:"capacity"`
	Ops      []string `json:"ops"`
	OpIdx    []int    `json:"op_idx"`
	Detail   string   `json:"detail"`
}

func repoDir() string {
	if v := os.Getenv("VERIF_REPO_DIR"); v != "" {
		return v
	}
	return "/repo"
}

func main() {
	if nohb.IsWorker() {
		nohb.WorkerMain(reentrantOps(), repoDir())
		return
	}
	ev.Main("C35", "model_checking", func(c *ev.Ctx) {
		defer reentrantPhase(c)
		var ops []op
		for k := range keys {
			ops = append(ops, op{get: true, key: k})
		}
		for k := range keys {
			for s := range sess {
				ops = append(ops, op{key: k, sess: s})
			}
		}
		c.Rule("explicit-state BFS over histories of {Put(k,s),Get(k)} k∈{a..e} s∈{nil,s1,s2} on the real cache, capacities 1..4; state = internal recency list (reflect) + reference list; a state is non-trivial/distinct by its canonical recency list")
		c.Assume("reference model = slice in recency order transcribing the property statement", "sessions are compared by pointer identity")

		// run executes one history for one capacity; reports violations.
		run := func(capacity int, hist []int, report bool) (string, bool) {
			cache := tls.NewLRUClientSessionCache(capacity)
			r := &ref{cap: capacity}
			names := make([]string, len(hist))
			for i, oi := range hist {
				names[i] = ops[oi].String()
			}
			diverge := func(class, detail string) {
				if report {
					c.Violation(class, witness{capacity, names, hist, detail})
				}
			}
			for step, oi := range hist {
				o := ops[oi]
				k := keys[o.key]
				present := r.find(k) >= 0
				full := len(r.l) >= r.cap
				ctxs := fmt.Sprintf("key-present=%v cache-full=%v", present, full)
				if o.get {
					gs, gok := cache.Get(k)
					rs, rok := r.get(k)
					if gok != rok || gs != rs {
						diverge("Get "+ctxs+": wrong result",
							fmt.Sprintf("step %d %s: got (%s,%v) want (%s,%v)", step, o, sessName(gs), gok, sessName(rs), rok))
						return "DIVERGED", false
					}
				} else {
					cache.Put(k, sess[o.sess])
					r.put(k, sess[o.sess])
				}
				{
					kind := "Get"
					if !o.get {
						kind = "Put(session)"
						if sess[o.sess] == nil {
							kind = "Put(nil)"
						}
					}
					if d, ok, bad := dump(cache); ok {
						if bad != "" {
							diverge(kind+" "+ctxs+": internal invariant broken", fmt.Sprintf("step %d %s: %s", step, o, bad))
							return "DIVERGED", false
						}
						if d != r.canon() {
							diverge(kind+" "+ctxs+": state differs from LRU model",
								fmt.Sprintf("step %d %s: cache=[%s] model=[%s]", step, o, d, r.canon()))
							return "DIVERGED", false
						}
					}
				}
			}
			d, ok, _ := dump(cache)
			if !ok {
				d = "noreflect"
			}
			return fmt.Sprintf("%d|%s|%s", capacity, d, r.canon()), true
		}

		if c.Replay != nil {
			var w witness
			if err := json.Unmarshal(c.Replay, &w); err != nil {
				c.Broken("bad witness: %v", err)
			}
			run(w.Capacity, w.OpIdx, true)
			c.States.Add(1)
			c.Transitions.Add(int64(len(w.OpIdx)))
			return
		}

		if _, ok, _ := dump(tls.NewLRUClientSessionCache(2)); !ok {
			c.Set("internal_state_dump", "unavailable (layout changed): observational oracle only, state key = reference state")
		} else {
			c.Set("internal_state_dump", "reflect over fields m,q,capacity")
		}
		maxDepth := ev.Pick(c, 7, 12)
		closedAll := true
		for capacity := 1; capacity <= 4; capacity++ {
			capacity := capacity
			res := c.BFS(len(ops), maxDepth, func(h []int) (string, bool) {
				k, ex := run(capacity, h, true)
				if len(h) > 0 && len(h) <= 3 {
					if c.WantSample() && capacity == 2 && len(h) == 3 {
						names := []string{}
						for _, oi := range h {
							names = append(names, ops[oi].String())
						}
						c.Sample(map[string]any{"capacity": capacity, "history": names, "state": k})
					}
				}
				return k, ex
			})
			c.States.Add(int64(res.States))
			c.Transitions.Add(int64(res.Transitions))
			c.Traces.Add(int64(res.Edges))
			c.Set(fmt.Sprintf("cap%d", capacity), map[string]any{"states": res.States, "edges": res.Edges, "depth_completed": res.Depth, "closed_reachable_space": res.Closed})
			if !res.Closed {
				closedAll = false
			}
			// observational probe in every reachable... covered by Get ops in the alphabet:
			// every state is followed by Get(k) for every k (as an edge), compared with the model.
		}
		c.Set("all_reachable_states_covered", closedAll)
		c.Set("max_depth", maxDepth)

		// capacity <= 0 means the default capacity (64): 65 distinct keys evict exactly the first.
		for _, capArg := range []int{0, -3} {
			cache := tls.NewLRUClientSessionCache(capArg)
			for i := 0; i < 65; i++ {
				cache.Put(fmt.Sprintf("k%d", i), sess[1])
			}
			c.Transitions.Add(65)
			_, ok0 := cache.Get("k0")
			_, ok1 := cache.Get("k1")
			_, ok64 := cache.Get("k64")
			if ok0 || !ok1 || !ok64 {
				c.Violation(fmt.Sprintf("default capacity (arg %d): after 65 distinct Puts expected exactly k0 evicted", capArg),
					map[string]any{"k0": ok0, "k1": ok1, "k64": ok64})
			}
		}
		c.Outcome("histories-conforming", c.Traces.Load())
		c.Outcome("distinct-states", c.States.Load())
	})
}
