package main

// Re-entrancy pass (internal/nohb): the session cache is documented as safe for concurrent use (the TLS client
// calls Get and Put from every connection's goroutine). Every ordered pair of the call menu below is run on ONE
// shared cache (fresh per pair, pre-filled to capacity) as "first call to completion, then the second on another
// goroutine" without a happens-before edge of the harness: the only edges ThreadSanitizer can see are those the
// cache's own mutex creates, so any access to the map or the list outside the lock is reported - for all
// interleavings at once.

import (
	"fmt"
	"os"
	"time"

	"github.com/zmap/zcrypto/tls"
	"verifmc/internal/ev"
	"verifmc/internal/nohb"
)

func reentrantOps() []nohb.Op {
	var ops []nohb.Op
	for _, capacity := range []int{1, 2} {
		capacity := capacity
		shared := nohb.Shared(func() tls.ClientSessionCache {
			c := tls.NewLRUClientSessionCache(capacity)
			for i := 0; i < capacity; i++ {
				c.Put(keys[i], sess[1])
			}
			return c
		})
		add := func(name string, f func(c tls.ClientSessionCache)) {
			ops = append(ops, nohb.Op{Name: fmt.Sprintf("%s on the shared cache (capacity %d, full)", name, capacity), New: func() func() {
				c := shared()
				return func() { f(c) }
			}})
		}
		add("Get(cached key)", func(c tls.ClientSessionCache) { c.Get(keys[0]) })
		add("Get(absent key)", func(c tls.ClientSessionCache) { c.Get(keys[4]) })
		add("Put(new key: evicts)", func(c tls.ClientSessionCache) { c.Put(keys[3], sess[2]) })
		add("Put(cached key)", func(c tls.ClientSessionCache) { c.Put(keys[0], sess[2]) })
		add("Put(cached key, nil)", func(c tls.ClientSessionCache) { c.Put(keys[0], nil) })
		add("Put(absent key, nil)", func(c tls.ClientSessionCache) { c.Put(keys[4], nil) })
	}
	return ops
}

func reentrantPhase(c *ev.Ctx) {
	if c.Replay != nil {
		return
	}
	t0 := time.Now()
	o := nohb.Run(os.Getenv("VERIF_RACE_BIN"), nil, 10*time.Minute)
	if o.Broken != "" {
		c.Broken("re-entrancy pass: %s", o.Broken)
	}
	for _, sig := range o.Sigs() {
		c.Violation("re-entrancy: two calls on one cache from different goroutines touch unsynchronised state: "+sig, map[string]any{"pair": o.Races[sig], "kind": "nohb"})
	}
	for k, v := range o.Panics {
		c.Violation("re-entrancy: "+k, map[string]any{"pair": v, "kind": "nohb"})
	}
	c.Outcome("re-entrancy pairs on a shared cache without a report", int64(o.Pairs))
	c.Traces.Add(int64(o.Pairs))
	c.Set("reentrancy", map[string]any{"calls": o.Ops, "ordered_pairs": o.Pairs, "race_signatures": len(o.Races), "harness_only_reports": o.Harness, "canary_ok": o.CanaryOK, "seconds": time.Since(t0).Seconds(),
		"method": "internal/nohb: each ordered pair on one shared full cache, first call to completion then the second on another goroutine, no harness happens-before edge, ThreadSanitizer"})
}
