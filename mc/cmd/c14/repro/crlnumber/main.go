// Standalone reproducer (no harness code): a CRL whose cRLNumber extension is
// 2^70 (RFC 5280 §5.2.3 allows up to 20 octets) is reported by
// crl.CheckCRLForCert with CRLExtensions.CRLNumber = 0 and a nil error, because
// gatherListExtensionInfo ignores the error of asn1.Unmarshal into an int.
//
//	cd /verif/mc && GOFLAGS=-mod=mod GOPROXY=off go run ./cmd/c14/repro/crlnumber
//
// exit 1 = defect present (a wrong number is reported silently),
// exit 0 = the number is copied or the call fails.
package main

import (
	"fmt"
	"math/big"
	"os"
	"time"

	stdasn1 "encoding/asn1"

	"github.com/zmap/zcrypto/x509"
	"github.com/zmap/zcrypto/x509/pkix"
	"github.com/zmap/zcrypto/x509/revocation/crl"
)

func main() {
	bad := 0
	for _, n := range []*big.Int{big.NewInt(7), new(big.Int).Lsh(big.NewInt(1), 63), new(big.Int).Lsh(big.NewInt(1), 70)} {
		val, err := stdasn1.Marshal(n)
		if err != nil {
			panic(err)
		}
		cl := &pkix.CertificateList{TBSCertList: pkix.TBSCertificateList{
			Version:    1,
			ThisUpdate: time.Date(2024, 1, 1, 0, 0, 0, 0, time.UTC),
			Extensions: []pkix.Extension{{Id: []int{2, 5, 29, 20}, Value: val}},
		}}
		got, err := crl.CheckCRLForCert(cl, &x509.Certificate{SerialNumber: big.NewInt(1)}, nil)
		switch {
		case err != nil:
			fmt.Printf("cRLNumber %s (value %x): error %v\n", n, val, err)
		case big.NewInt(int64(got.CRLExtensions.CRLNumber)).Cmp(n) == 0:
			fmt.Printf("cRLNumber %s (value %x): copied\n", n, val)
		default:
			fmt.Printf("cRLNumber %s (value %x): DEFECT reported as %d with a nil error\n", n, val, got.CRLExtensions.CRLNumber)
			bad++
		}
	}
	if bad > 0 {
		os.Exit(1)
	}
}
