package main

// History oracle (bounded-exhaustive, differential): CheckCRLForCert is a function of its three
// arguments. Every call of the main enumeration is made once, on a freshly built list. A caller
// that keeps ONE list variable per distribution point and refreshes it in place (`*p = *fresh`),
// appends an entry, re-uses one cache map and one certificate object makes SEQUENCES of calls in
// which pointers repeat while the content behind them changes — anything the implementation
// remembers between calls (keyed by pointer, by length, by map identity …) shows up only there.
//
// All sequences of 2 calls (and of 3 calls: quick 3 model lists x 2 serials, thorough 5 lists x 3 serials) over
//   list    {same pointer unchanged | same pointer overwritten in place by another list of the
//            model | same pointer with one entry appended to RevokedCertificates | a different
//            pointer with equal content | a different pointer with a different list}
//   cache   {nil | a fresh map built from the current entries | the SAME map object as before
//            (cleared and refilled in place when the entries it was built from changed)}
//   cert    {same object untouched | same object, SerialNumber.Set(q') in place | same object,
//            SerialNumber replaced by a new big.Int q' | another object with any q}
// are executed on ONE goroutine with nothing else running (a process-global memo would be masked
// by other goroutines calling in between). Every call is judged by the same oracle as an isolated
// call (the statement's model of the content CURRENTLY behind the pointer), its complete result is
// compared with the result of the same call made in isolation on fresh deep copies (recorded in a
// pre-pass), the three inputs are compared with deep copies taken before the call, and the
// results returned by earlier calls are compared with their state at return time.

import (
	"bytes"
	"encoding/hex"
	"fmt"
	"math/big"
	"runtime/debug"
	"sort"
	"strconv"
	"strings"
	"time"

	"github.com/zmap/zcrypto/x509"
	"github.com/zmap/zcrypto/x509/pkix"
	"verifmc/internal/ev"
	"verifmc/internal/fx"
)

// model lists of the history oracle: they differ pairwise in issuer, CRL number, extension
// classification and entries; two pairs have the same number of entries (a memo keyed by
// pointer+length), one cannot be represented (error path between two successful calls).
var histLists = []cfg{
	{Source: "hand", Entries: []int{0, 1, 0}, EntExt: 1, Ext: extCfg{CRLNum: 2, AKID: true, UnkCrit: true}, Version: 1, NextSet: true, Issuer: 0},
	{Source: "hand", Entries: []int{1, 3}, Ext: extCfg{CRLNum: 3, UnkNon: true, Order: 1}, Version: 0, NextSet: false, Issuer: 1},
	{Source: "hand", Entries: []int{0}, Ext: extCfg{CRLNum: 4}, Version: 1, NextSet: true, Issuer: 1},
	{Source: "hand", Entries: []int{}, Version: 0, NextSet: true, Issuer: 0},
	{Source: "createcrl", Entries: []int{2, 0}, EntExt: 2, SKID: true, NextSet: true, Version: 1},
}

// query serials of the history oracle (indices into querySerials): 1, 2, 2^64, 3.
var histQueries = []int{0, 1, 3, 5}

// k-th entry a caller appends to RevokedCertificates: serial 3 (in no model list), then serial 1
// again with another time (a duplicate where 1 is listed: the first entry must keep winning).
var histAppendSerial = []int64{3, 1}

func histAppendEntry(k int) pkix.RevokedCertificate {
	return pkix.RevokedCertificate{SerialNumber: big.NewInt(histAppendSerial[k%2]), RevocationTime: fx.T0.Add(-time.Duration(100+k) * time.Hour)}
}

const (
	laSame = iota
	laOverwrite
	laAppend
	laEqualOther
	laDifferent
)

var listActionNames = []string{"same pointer, unchanged", "same pointer, content overwritten in place (*p = *fresh)", "same pointer, entry appended to RevokedCertificates",
	"different pointer, equal content", "different pointer, different list"}

const (
	caNil = iota
	caFresh
	caSame
)

var cacheActionNames = []string{"nil", "fresh map", "same map object"}

const (
	ceSame = iota
	ceSetInPlace
	ceReplaceSerial
	ceOther
)

var certActionNames = []string{"same object", "same object, SerialNumber.Set in place", "same object, SerialNumber replaced", "other object"}

// hStep is one call of a history. In the first step List/Target name the initial list,
// Cert is ceOther.
type hStep struct {
	List   int `json:"list_action"`
	Target int `json:"target_list"` // model list index (overwrite / different / first call)
	Cache  int `json:"cache_action"`
	Cert   int `json:"cert_action"`
	Query  int `json:"query"` // index into histQueries: the serial the certificate carries in this call
}

type hWitness struct {
	Kind    string   `json:"kind"` // "history"
	Steps   []hStep  `json:"steps"`
	Lists   []cfg    `json:"model_lists"`
	Text    []string `json:"steps_text"`
	Failing int      `json:"failing_call"`
	Detail  string   `json:"detail"`
	How     string   `json:"how"`
}

// ---------------------------------------------------------------- deep copies / comparisons of the inputs

func cloneExts(es []pkix.Extension) []pkix.Extension {
	if es == nil {
		return nil
	}
	out := make([]pkix.Extension, len(es))
	for i, e := range es {
		out[i] = pkix.Extension{Id: append([]int(nil), e.Id...), Critical: e.Critical, Value: bytes.Clone(e.Value)}
		if e.Id != nil && out[i].Id == nil {
			out[i].Id = []int{}
		}
	}
	return out
}

func cloneAI(a pkix.AlgorithmIdentifier) pkix.AlgorithmIdentifier {
	b := a
	b.Algorithm = append([]int(nil), a.Algorithm...)
	b.Parameters.Bytes = bytes.Clone(a.Parameters.Bytes)
	b.Parameters.FullBytes = bytes.Clone(a.Parameters.FullBytes)
	return b
}

func cloneList(a *pkix.CertificateList) *pkix.CertificateList {
	b := *a
	t := &b.TBSCertList
	t.Raw = bytes.Clone(a.TBSCertList.Raw)
	t.Signature = cloneAI(a.TBSCertList.Signature)
	if a.TBSCertList.Issuer != nil {
		t.Issuer = make(pkix.RDNSequence, len(a.TBSCertList.Issuer))
		for i, set := range a.TBSCertList.Issuer {
			if set == nil {
				continue
			}
			t.Issuer[i] = make(pkix.RelativeDistinguishedNameSET, len(set))
			for j, at := range set {
				t.Issuer[i][j] = pkix.AttributeTypeAndValue{Type: append([]int(nil), at.Type...), Value: at.Value} // values are strings
			}
		}
	}
	if rc := a.TBSCertList.RevokedCertificates; rc != nil {
		t.RevokedCertificates = make([]pkix.RevokedCertificate, len(rc))
		for i := range rc {
			t.RevokedCertificates[i] = pkix.RevokedCertificate{SerialNumber: new(big.Int).Set(rc[i].SerialNumber), RevocationTime: rc[i].RevocationTime, Extensions: cloneExts(rc[i].Extensions)}
		}
	}
	t.Extensions = cloneExts(a.TBSCertList.Extensions)
	b.SignatureAlgorithm = cloneAI(a.SignatureAlgorithm)
	b.SignatureValue.Bytes = bytes.Clone(a.SignatureValue.Bytes)
	return &b
}

func eqInts(a, b []int) bool {
	if len(a) != len(b) {
		return false
	}
	for i := range a {
		if a[i] != b[i] {
			return false
		}
	}
	return true
}

func eqExts(a, b []pkix.Extension) bool {
	if len(a) != len(b) {
		return false
	}
	for i := range a {
		if !eqInts(a[i].Id, b[i].Id) || a[i].Critical != b[i].Critical || !bytes.Equal(a[i].Value, b[i].Value) {
			return false
		}
	}
	return true
}

func eqAI(a, b pkix.AlgorithmIdentifier) bool {
	return eqInts(a.Algorithm, b.Algorithm) && a.Parameters.Class == b.Parameters.Class && a.Parameters.Tag == b.Parameters.Tag && a.Parameters.IsCompound == b.Parameters.IsCompound &&
		bytes.Equal(a.Parameters.Bytes, b.Parameters.Bytes) && bytes.Equal(a.Parameters.FullBytes, b.Parameters.FullBytes)
}

// listDiff names the first part of the list that differs from its deep copy ("" = equal).
func listDiff(a, b *pkix.CertificateList) string {
	ta, tb := &a.TBSCertList, &b.TBSCertList
	switch {
	case !bytes.Equal(ta.Raw, tb.Raw):
		return "TBSCertList.Raw"
	case ta.Version != tb.Version:
		return "TBSCertList.Version"
	case !eqAI(ta.Signature, tb.Signature) || !eqAI(a.SignatureAlgorithm, b.SignatureAlgorithm):
		return "signature algorithm"
	case !ta.ThisUpdate.Equal(tb.ThisUpdate) || !ta.NextUpdate.Equal(tb.NextUpdate):
		return "update times"
	case !eqExts(ta.Extensions, tb.Extensions):
		return "TBSCertList.Extensions"
	case len(ta.RevokedCertificates) != len(tb.RevokedCertificates):
		return "len(RevokedCertificates)"
	case len(ta.Issuer) != len(tb.Issuer):
		return "Issuer"
	case !bytes.Equal(a.SignatureValue.Bytes, b.SignatureValue.Bytes) || a.SignatureValue.BitLength != b.SignatureValue.BitLength:
		return "SignatureValue"
	}
	for i := range ta.Issuer {
		if len(ta.Issuer[i]) != len(tb.Issuer[i]) {
			return "Issuer"
		}
		for j := range ta.Issuer[i] {
			if !eqInts(ta.Issuer[i][j].Type, tb.Issuer[i][j].Type) || ta.Issuer[i][j].Value != tb.Issuer[i][j].Value {
				return "Issuer"
			}
		}
	}
	for i := range ta.RevokedCertificates {
		x, y := &ta.RevokedCertificates[i], &tb.RevokedCertificates[i]
		if x.SerialNumber == nil || x.SerialNumber.Cmp(y.SerialNumber) != 0 {
			return "RevokedCertificates[i].SerialNumber"
		}
		if !x.RevocationTime.Equal(y.RevocationTime) || x.RevocationTime.IsZero() != y.RevocationTime.IsZero() {
			return "RevokedCertificates[i].RevocationTime"
		}
		if !eqExts(x.Extensions, y.Extensions) {
			return "RevokedCertificates[i].Extensions"
		}
	}
	return ""
}

// ---------------------------------------------------------------- complete result, field by field

type resField struct{ name, val string }

func extSeq(es []pkix.Extension) string {
	var sb strings.Builder
	for _, e := range es {
		for _, x := range e.Id {
			sb.WriteString(strconv.Itoa(x))
			sb.WriteByte('.')
		}
		if e.Critical {
			sb.WriteByte('!')
		}
		sb.WriteByte('=')
		sb.WriteString(hex.EncodeToString(e.Value))
		sb.WriteByte(';') // order preserved
	}
	return sb.String()
}

func nameFP(n *pkix.Name) string {
	var sb strings.Builder
	ws := func(tag string, ss []string) {
		if ss == nil {
			return
		}
		sb.WriteString(tag)
		for _, s := range ss {
			sb.WriteString(strconv.Quote(s))
		}
	}
	ws("C", n.Country)
	ws("O", n.Organization)
	ws("OU", n.OrganizationalUnit)
	ws("L", n.Locality)
	ws("ST", n.Province)
	ws("street", n.StreetAddress)
	ws("postal", n.PostalCode)
	ws("DC", n.DomainComponent)
	ws("email", n.EmailAddress)
	ws("SN", []string{n.SerialNumber})
	ws("CN", []string{n.CommonName})
	ws("SNs", n.SerialNumbers)
	ws("CNs", n.CommonNames)
	ws("GN", n.GivenName)
	ws("sur", n.Surname)
	ws("orgid", n.OrganizationIDs)
	ws("jL", n.JurisdictionLocality)
	ws("jST", n.JurisdictionProvince)
	ws("jC", n.JurisdictionCountry)
	atvs := func(tag string, as []pkix.AttributeTypeAndValue) {
		sb.WriteString(tag)
		for _, a := range as {
			for _, x := range a.Type {
				sb.WriteString(strconv.Itoa(x))
				sb.WriteByte('.')
			}
			if v, ok := a.Value.(string); ok {
				sb.WriteString(strconv.Quote(v))
			} else {
				fmt.Fprintf(&sb, "%#v", a.Value)
			}
		}
	}
	atvs("names", n.Names)
	atvs("extra", n.ExtraNames)
	for _, set := range n.OriginalRDNS {
		atvs("rdn", set)
	}
	return sb.String()
}

func resultFields(r callResult) []resField {
	if r.err != nil || r.got == nil {
		return []resField{{"error", fmt.Sprint(r.err)}}
	}
	d := r.got
	reason := "nil"
	if d.CertificateEntryExtensions.Reason != nil {
		reason = strconv.Itoa(int(*d.CertificateEntryExtensions.Reason))
	}
	tm := func(t time.Time) string {
		if t.IsZero() {
			return "zero"
		}
		return strconv.FormatInt(t.UnixNano(), 10)
	}
	return []resField{
		{"error", "<nil>"},
		{"CRLSignatureAlgorithm", strconv.Itoa(int(d.CRLSignatureAlgorithm))},
		{"CRLSignatureValue", hex.EncodeToString(d.CRLSignatureValue)},
		{"Version", strconv.Itoa(d.Version)},
		{"Issuer", nameFP(&d.Issuer)},
		{"ThisUpdate", tm(d.ThisUpdate)},
		{"NextUpdate", tm(d.NextUpdate)},
		{"CRLExtensions.CRLNumber", strconv.Itoa(d.CRLExtensions.CRLNumber)},
		{"CRLExtensions.AuthKeyID", hex.EncodeToString(d.CRLExtensions.AuthKeyID)},
		{"UnknownCRLExtensions", extSeq(d.UnknownCRLExtensions)},
		{"UnknownCriticalCRLExtensions", extSeq(d.UnknownCriticalCRLExtensions)},
		{"IsRevoked", strconv.FormatBool(d.IsRevoked)},
		{"RevocationTime", tm(d.RevocationTime)},
		{"CertificateEntryExtensions.Reason", reason},
		{"RawCertificateEntryExtensions", extSeq(d.RawCertificateEntryExtensions)},
	}
}

func fieldsDiff(a, b []resField) []string {
	if len(a) != len(b) {
		return []string{"error"}
	}
	var out []string
	for i := range a {
		if a[i] != b[i] {
			out = append(out, a[i].name)
		}
	}
	return out
}

// ---------------------------------------------------------------- the history machine

type histEnv struct {
	c      *ev.Ctx
	lists  []cfg
	protos []*pkix.CertificateList // one parsed/assembled prototype per model list; only ever cloned
	refs   map[[2]int]*pkix.CertificateList
	models [][]*model // [list][appended entries]
	ders   [][]byte
	iso    map[[4]int][]resField // (list, appended, query, cache mode) -> result of the isolated call
	isoBad map[[4]int]bool       // the isolated call itself fails the single-call oracle (reported once, by the pre-pass)
	maxApp int
	h      ev.Hist
	// x509.Certificate is a struct of several kilobytes: the certificate objects of a history come from
	// this ring (never the same object twice within one history of <= len(ring) calls).
	certs [4]x509.Certificate
	nCert int
}

func (e *histEnv) newCert(q *big.Int) *x509.Certificate {
	c := &e.certs[e.nCert%len(e.certs)]
	e.nCert++
	c.SerialNumber = new(big.Int).Set(q)
	return c
}

func newHistEnv(c *ev.Ctx, lists []cfg, maxApp int) (*histEnv, string) {
	e := &histEnv{c: c, lists: lists, maxApp: maxApp, iso: map[[4]int][]resField{}, isoBad: map[[4]int]bool{}, h: ev.Hist{}, refs: map[[2]int]*pkix.CertificateList{}}
	for _, cf := range lists {
		cl, m, der, bad := build(cf)
		if bad != "" {
			return nil, bad
		}
		e.protos = append(e.protos, cl)
		e.ders = append(e.ders, der)
		ms := []*model{m}
		for k := 0; k < maxApp; k++ {
			mm := *ms[k]
			ent := histAppendEntry(k)
			mm.serials = append(append([]*big.Int{}, ms[k].serials...), ent.SerialNumber)
			mm.times = append(append([]time.Time{}, ms[k].times...), ent.RevocationTime)
			ms = append(ms, &mm)
		}
		e.models = append(e.models, ms)
	}
	return e, ""
}

// contentRef returns the reference content (list li, app entries appended); it is never handed to zcrypto.
func (e *histEnv) contentRef(li, app int) *pkix.CertificateList {
	k := [2]int{li, app}
	if r, ok := e.refs[k]; ok {
		return r
	}
	r := e.fresh(li, app)
	e.refs[k] = r
	return r
}

// fresh returns a deep copy of model list li with app entries appended by the caller.
func (e *histEnv) fresh(li, app int) *pkix.CertificateList {
	cl := cloneList(e.protos[li])
	for k := 0; k < app; k++ {
		cl.TBSCertList.RevokedCertificates = append(cl.TBSCertList.RevokedCertificates, histAppendEntry(k))
	}
	return cl
}

func fillCache(mp map[string]*pkix.RevokedCertificate, cl *pkix.CertificateList) {
	clear(mp)
	rc := cl.TBSCertList.RevokedCertificates
	for i := range rc {
		k := rc[i].SerialNumber.String()
		if _, ok := mp[k]; !ok {
			mp[k] = &rc[i] // first wins
		}
	}
}

// isolated pre-pass: every (content, query, cache mode) once, each on its own fresh deep copies.
func (e *histEnv) prepass(report func(sig string, w hWitness)) {
	for li := range e.lists {
		for app := 0; app <= e.maxApp; app++ {
			for qi, q := range histQueries {
				for mode := 0; mode < 2; mode++ {
					cl := e.fresh(li, app)
					var cache map[string]*pkix.RevokedCertificate
					if mode == 1 {
						cache = map[string]*pkix.RevokedCertificate{}
						fillCache(cache, cl)
					}
					var r callResult
					cert := &x509.Certificate{SerialNumber: new(big.Int).Set(querySerials[q])}
					vs := evalCallCert(cl, e.models[li][app], cert, querySerials[q], mode, cache, e.h, &r)
					e.iso[[4]int{li, app, qi, mode}] = resultFields(r)
					e.c.Transitions.Add(1)
					e.c.Evaluations.Add(1)
					if len(vs) > 0 {
						e.isoBad[[4]int{li, app, qi, mode}] = true
						st := []hStep{{List: laDifferent, Target: li, Cache: mode, Cert: ceOther, Query: qi}}
						var all []string
						for _, x := range vs {
							all = append(all, x.sig+" :: "+x.detail)
						}
						report("history pre-pass: an isolated call on fresh deep copies fails the single-call oracle: "+verdictClass(vs[0]), e.witness(st, 0, fmt.Sprintf("%d entries appended; %s", app, strings.Join(all, " || "))))
					}
				}
			}
		}
	}
}

func verdictClass(v verdict) string {
	class := v.sig
	if k := strings.Index(class, ":"); k > 0 {
		class = class[:k]
	}
	if strings.HasPrefix(class, "cache=") {
		class = "revoked flag / revocation time"
	}
	return class
}

func (e *histEnv) stepText(i int, s hStep) string {
	q := querySerials[histQueries[s.Query]]
	if i == 0 {
		return fmt.Sprintf("call 1: list %d behind a new pointer p; cache %s; new certificate object, serial %v", s.Target, cacheActionNames[s.Cache], q)
	}
	l := listActionNames[s.List]
	if s.List == laOverwrite || s.List == laDifferent {
		l += fmt.Sprintf(" = model list %d", s.Target)
	}
	return fmt.Sprintf("call %d: list: %s; cache: %s; certificate: %s, serial %v", i+1, l, cacheActionNames[s.Cache], certActionNames[s.Cert], q)
}

func (e *histEnv) witness(steps []hStep, failing int, detail string) hWitness {
	w := hWitness{Kind: "history", Steps: append([]hStep{}, steps...), Lists: e.lists, Failing: failing + 1, Detail: detail,
		How: "build model_lists[i] as in the single-call witness (hand: pkix.CertificateList literal; createcrl: CreateCRL + ParseDERCRL); keep one *pkix.CertificateList p, one *x509.Certificate and one cache map across the calls and apply each step's list/cache/certificate action before calling crl.CheckCRLForCert(p, cert, cache) on ONE goroutine"}
	for i, s := range steps {
		w.Text = append(w.Text, e.stepText(i, s))
	}
	return w
}

// run executes one history from scratch and judges every call.
func (e *histEnv) run(steps []hStep, report func(sig string, w hWitness)) {
	var (
		p         *pkix.CertificateList
		keep      []*pkix.CertificateList // every pointer ever passed stays alive: no address is re-used
		li, app   int
		cert      *x509.Certificate
		cacheObj  map[string]*pkix.RevokedCertificate
		cacheFor  = [2]int{-1, -1}
		results   []callResult
		resultsFP [][]resField
	)
	for i, s := range steps {
		q := querySerials[histQueries[s.Query]]
		// ---- the caller's actions before the call
		if i == 0 {
			li, app = s.Target, 0
			p = e.fresh(li, 0)
			e.nCert = 0
			cert = e.newCert(q)
		} else {
			switch s.List {
			case laSame:
			case laOverwrite:
				li, app = s.Target, 0
				*p = *e.fresh(li, 0)
			case laAppend:
				p.TBSCertList.RevokedCertificates = append(p.TBSCertList.RevokedCertificates, histAppendEntry(app))
				app++
			case laEqualOther:
				keep = append(keep, p)
				p = e.fresh(li, app)
			case laDifferent:
				keep = append(keep, p)
				li, app = s.Target, 0
				p = e.fresh(li, 0)
			}
			switch s.Cert {
			case ceSame:
			case ceSetInPlace:
				cert.SerialNumber.Set(q)
			case ceReplaceSerial:
				cert.SerialNumber = new(big.Int).Set(q)
			case ceOther:
				cert = e.newCert(q)
			}
		}
		var cache map[string]*pkix.RevokedCertificate
		mode := 0
		switch s.Cache {
		case caFresh:
			cacheObj = map[string]*pkix.RevokedCertificate{}
			fillCache(cacheObj, p)
			cacheFor = [2]int{li, app}
			cache, mode = cacheObj, 1
		case caSame:
			if cacheObj == nil {
				cacheObj = map[string]*pkix.RevokedCertificate{}
				cacheFor = [2]int{-1, -1}
			}
			if cacheFor != [2]int{li, app} {
				fillCache(cacheObj, p) // same map object, brought up to date by its owner
				cacheFor = [2]int{li, app}
			}
			cache, mode = cacheObj, 1
		}
		// ---- deep copies of the inputs
		// (the list was built as a deep copy of refs[li][app] and only the caller's own, mirrored, changes were
		// applied to it: that never-passed reference IS the deep copy taken before the call)
		listCopy := e.contentRef(li, app)
		serialPtr, serialCopy := cert.SerialNumber, new(big.Int).Set(cert.SerialNumber)
		var cacheCopy map[string]*pkix.RevokedCertificate
		if cache != nil {
			cacheCopy = make(map[string]*pkix.RevokedCertificate, len(cache))
			for k, v := range cache {
				cacheCopy[k] = v
			}
		}
		// ---- the call, judged like an isolated call on the current content
		var r callResult
		m := e.models[li][app]
		vs := evalCallCert(p, m, cert, q, mode, cache, e.h, &r)
		e.c.Transitions.Add(1)
		e.c.Evaluations.Add(1)
		fp := resultFields(r)
		results = append(results, r)
		resultsFP = append(resultsFP, fp)
		act := "first call"
		if i > 0 {
			act = "call after [list: " + listActionNames[s.List] + "]"
		}
		if len(vs) > 0 {
			// one signature per (caller action, failing clause): the concrete field is in the witness.
			// Later calls of a history whose call failed are downstream of it and are not judged.
			if e.isoBad[[4]int{li, app, s.Query, mode}] {
				e.h["history: call that fails in isolation too (reported once by the pre-pass)"]++
				e.c.Traces.Add(1)
				e.c.States.Add(1)
				return
			}
			class := verdictClass(vs[0])
			var all []string
			for _, x := range vs {
				all = append(all, x.sig+" :: "+x.detail)
			}
			report("history: "+act+": "+class, e.witness(steps[:i+1], i, strings.Join(all, " || ")))
			e.c.Traces.Add(1)
			e.c.States.Add(1)
			return
		}
		if len(vs) == 0 {
			if want, ok := e.iso[[4]int{li, app, s.Query, mode}]; ok {
				if d := fieldsDiff(fp, want); len(d) > 0 {
					sort.Strings(d)
					report("history: "+act+": result differs from the same call in isolation on fresh deep copies in "+strings.Join(d, ","), e.witness(steps[:i+1], i, fmt.Sprintf("in history %v ; isolated %v", fp, want)))
				} else {
					e.h["history: result equals the isolated call's"]++
				}
			}
		}
		// ---- inputs untouched
		if d := listDiff(p, listCopy); d != "" {
			report("history: the call modified its list argument: "+d, e.witness(steps[:i+1], i, ""))
		}
		if cert.SerialNumber != serialPtr || cert.SerialNumber.Cmp(serialCopy) != 0 {
			report("history: the call modified its certificate argument's serial", e.witness(steps[:i+1], i, ""))
		}
		if cache != nil {
			same := len(cache) == len(cacheCopy)
			for k, v := range cacheCopy {
				if cache[k] != v {
					same = false
				}
			}
			if !same {
				report("history: the call modified its cache argument", e.witness(steps[:i+1], i, ""))
			}
		}
		e.h["history: "+act]++
		e.h["history: cache "+cacheActionNames[s.Cache]]++
		if i > 0 {
			e.h["history: certificate "+certActionNames[s.Cert]]++
		}
	}
	// ---- earlier results still say what they said when they were returned
	for i := 0; i+1 < len(results); i++ {
		if d := fieldsDiff(resultFields(results[i]), resultsFP[i]); len(d) > 0 {
			sort.Strings(d)
			report("history: a result returned earlier changed after a later call in "+strings.Join(d, ","), e.witness(steps, i, ""))
		}
	}
	_ = keep
	e.c.Traces.Add(1)
	e.c.States.Add(1)
}

// enumerate calls f with every history of exactly depth calls.
func (e *histEnv) enumerate(depth int, queries []int, f func([]hStep) bool) {
	n := len(e.lists)
	var first []hStep
	for li := 0; li < n; li++ {
		for _, ca := range []int{caNil, caFresh} {
			for _, qi := range queries {
				first = append(first, hStep{List: laDifferent, Target: li, Cache: ca, Cert: ceOther, Query: qi})
			}
		}
	}
	// the follow-up alphabet depends on the current list and serial only through "target != current"
	// and "q' != current": generated on the fly
	steps := make([]hStep, depth)
	var rec func(d, li, q int) bool
	rec = func(d, li, q int) bool {
		if d == depth {
			return f(steps)
		}
		for la := laSame; la <= laDifferent; la++ {
			targets := []int{li}
			if la == laOverwrite || la == laDifferent {
				targets = targets[:0]
				for t := 0; t < n; t++ {
					if t != li {
						targets = append(targets, t)
					}
				}
			}
			for _, t := range targets {
				for ca := caNil; ca <= caSame; ca++ {
					for ce := ceSame; ce <= ceOther; ce++ {
						for _, qi := range queries {
							if (ce == ceSame) != (qi == q) && ce != ceOther {
								continue // same object untouched keeps its serial; a changed serial differs
							}
							tt := 0
							if la == laOverwrite || la == laDifferent {
								tt = t
							}
							steps[d] = hStep{List: la, Target: tt, Cache: ca, Cert: ce, Query: qi}
							nl := li
							if la == laOverwrite || la == laDifferent {
								nl = t
							}
							if !rec(d+1, nl, qi) {
								return false
							}
						}
					}
				}
			}
		}
		return true
	}
	for _, s := range first {
		steps[0] = s
		if !rec(1, s.Target, s.Query) {
			return
		}
	}
}

func validHistory(steps []hStep, nLists int) bool {
	if len(steps) == 0 || len(steps) > len(histEnv{}.certs) {
		return false
	}
	for _, s := range steps {
		if s.List < 0 || s.List > laDifferent || s.Target < 0 || s.Target >= nLists || s.Cache < 0 || s.Cache > caSame || s.Cert < 0 || s.Cert > ceOther || s.Query < 0 || s.Query >= len(histQueries) {
			return false
		}
	}
	return true
}

// historyPhase runs on the calling goroutine; nothing else may call into zcrypto meanwhile.
func historyPhase(c *ev.Ctx) {
	report := func(sig string, w hWitness) { c.Violation(sig, w) }
	full, bad := newHistEnv(c, histLists, 3)
	if bad != "" {
		c.Broken("history oracle: cannot build the model lists: %s", bad)
	}
	full.prepass(report)
	allQ := []int{0, 1, 2, 3}
	count := func(e *histEnv, depth int, qs []int) (n int64, complete bool) {
		complete = true
		e.enumerate(depth, qs, func(st []hStep) bool {
			if n&1023 == 0 && c.TimeUp() {
				complete = false
				return false
			}
			e.run(st, report)
			n++
			return true
		})
		return
	}
	t0 := time.Now()
	defer debug.SetGCPercent(debug.SetGCPercent(2000)) // tiny live heap, many short-lived deep copies
	info := map[string]any{}
	n2, ok2 := count(full, 2, allQ)
	info["histories_of_2_calls_full_alphabet"] = n2
	ok3 := true
	if c.Quick() {
		// 3 calls: lists {0,1,2} (two representable ones and the one that cannot be), serials {1,3}
		red, bad := newHistEnv(c, histLists[:3], 3)
		if bad != "" {
			c.Broken("history oracle: %s", bad)
		}
		for k, v := range full.iso {
			if k[0] < 3 {
				red.iso[k] = v
				red.isoBad[k] = full.isoBad[k]
			}
		}
		var n3 int64
		n3, ok3 = count(red, 3, []int{0, 3})
		info["histories_of_3_calls_reduced_alphabet"] = n3
		c.Merge(red.h)
	} else {
		var n3 int64
		n3, ok3 = count(full, 3, []int{0, 2, 3}) // all 5 lists, serials {1, 2^64, 3}
		info["histories_of_3_calls_5_lists_3_serials"] = n3
	}
	c.Merge(full.h)
	info["seconds"] = time.Since(t0).Seconds()
	c.Set("history", info)
	if !ok2 || !ok3 {
		c.Incomplete("time budget hit inside the history oracle (sequences of calls)")
	}
}

func replayHistory(c *ev.Ctx, w hWitness) {
	lists := w.Lists
	if len(lists) == 0 {
		lists = histLists
	}
	if !validHistory(w.Steps, len(lists)) {
		c.Broken("bad history witness")
	}
	e, bad := newHistEnv(c, lists, 3)
	if bad != "" {
		c.Broken("cannot rebuild the model lists: %s", bad)
	}
	report := func(sig string, w hWitness) { c.Violation(sig, w) }
	e.prepass(report)
	e.run(w.Steps, report)
	c.Merge(e.h)
}
