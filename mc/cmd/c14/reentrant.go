package main

// Re-entrancy pass (internal/nohb): a revocation checker looks certificates up in CRLs from many goroutines — in
// different CRLs and in ONE parsed CRL (with its lookup cache): a parsed CRL and the serial->entry cache handed to
// CheckCRLForCert exist precisely to be consulted for many certificates, CheckCRLForCert takes them as inputs of
// a query and is documented as "parses through a given CRL to see if a given certificate is present, and returns
// data". The answer must not depend on a lookup running at the same time. Every ordered pair of the menu below is
// run as "first call to completion, then the second on another goroutine" WITHOUT a happens-before edge in a -race
// build: ThreadSanitizer reports every location both calls touch unsynchronised, for all interleavings at once.
//
// Menu: (a) CheckCRLForCert on the caller's OWN hand-assembled CRL (all list extensions on; CRL number 2^70 = the
// error path) x query serial {listed small, listed 2^64, absent} x cache {nil, first-wins}; (b) CreateCRL with the
// caller's own CA, ParseDERCRL / ParseCRL of its DER, ParseDERCRL + CheckCRLForCert; (c) CheckCRLForCert by both
// calls of a pair on ONE shared parsed CRL and ONE shared cache (a fresh parse per pair, so that anything the first
// lookup would write into the shared object is seen in every pair), same queries, cache nil and first-wins.

import (
	"fmt"
	"math/big"
	"os"
	"time"

	"github.com/zmap/zcrypto/x509"
	"github.com/zmap/zcrypto/x509/pkix"
	"github.com/zmap/zcrypto/x509/revocation/crl"
	"verifmc/internal/ev"
	"verifmc/internal/fx"
	"verifmc/internal/nohb"
)

func reentrantRepoDir() string {
	if v := os.Getenv("VERIF_REPO_DIR"); v != "" {
		return v
	}
	return "/repo"
}

func reentrantOps() []nohb.Op {
	var ops []nohb.Op
	entries := []int{0, 1, 3, 0} // serials 1, 2, 2^64 and a duplicate of 1
	queries := []int{0, 3, 5}    // 1 (listed), 2^64 (listed), 3 (absent)
	check := func(cl *pkix.CertificateList, cache map[string]*pkix.RevokedCertificate, q int) {
		cert := &x509.Certificate{SerialNumber: new(big.Int).Set(querySerials[q])}
		if d, err := crl.CheckCRLForCert(cl, cert, cache); err == nil && d != nil {
			_ = d.Issuer.String()
		}
	}
	// (a) own hand-assembled CRL
	for _, num := range []int{2, 4} { // CRL number 7 / 2^70 (cannot be represented: error path)
		for _, q := range queries {
			for _, cm := range []int{0, 1} {
				cf := cfg{Source: "hand", Entries: entries, EntExt: 2, Ext: extCfg{CRLNum: num, AKID: true, UnkCrit: true, UnkNon: true}, Version: 1, NextSet: true}
				if num == 4 && (cm == 1 || q != 0) {
					continue
				}
				ops = append(ops, nohb.Op{Name: fmt.Sprintf("CheckCRLForCert(own hand CRL number=%v, serial %v, cache %s)", crlNumbers[num], querySerials[q], cacheModes[cm]), New: func() func() {
					cl, _ := buildHand(cf)
					cache := buildCache(cl, cm)
					return func() { check(cl, cache, q) }
				}})
			}
		}
	}
	// (b) CreateCRL / parsers with the caller's own CA
	ownCA := func() *fx.Cert {
		return fx.MustMint(fx.CertSpec{CN: "C14 CreateCRL issuer", Key: "c14-crl-ca", IsCA: true, KeyUsage: x509.KeyUsageCRLSign | x509.KeyUsageCertSign, SKID: akidKeyID}, nil)
	}
	cf := cfg{Source: "createcrl", Entries: entries, EntExt: 1, SKID: true, NextSet: true, Version: 1}
	createCRL := func(ca *fx.Cert) ([]byte, error) {
		return ca.X.CreateCRL(fx.NewRand("c14-crl"), ca.Key, revoked(cf), fx.T0, fx.T0.Add(7*24*time.Hour))
	}
	der, err := createCRL(ownCA())
	if _, perr := x509.ParseDERCRL(der); err != nil || perr != nil {
		return rePairing(ops) // CreateCRL / ParseDERCRL do not work on this tree (the main phase records that): hand-assembled CRLs only
	}
	ops = append(ops, nohb.Op{Name: "Certificate.CreateCRL(own CA)", New: func() func() {
		ca := ownCA()
		return func() { createCRL(ca) }
	}})
	ops = append(ops, nohb.Op{Name: "x509.ParseDERCRL", New: func() func() {
		d := append([]byte{}, der...)
		return func() { x509.ParseDERCRL(d) }
	}})
	ops = append(ops, nohb.Op{Name: "x509.ParseCRL + CheckCRLSignature(own CA)", New: func() func() {
		d := append([]byte{}, der...)
		ca := ownCA()
		return func() {
			if cl, err := x509.ParseCRL(d); err == nil {
				ca.X.CheckCRLSignature(cl)
			}
		}
	}})
	for _, q := range queries {
		ops = append(ops, nohb.Op{Name: fmt.Sprintf("ParseDERCRL + CheckCRLForCert(own parse, serial %v, cache nil)", querySerials[q]), New: func() func() {
			d := append([]byte{}, der...)
			return func() {
				if cl, err := x509.ParseDERCRL(d); err == nil {
					check(cl, nil, q)
				}
			}
		}})
	}
	// (c) ONE parsed CRL and ONE cache consulted by both calls of a pair
	type sharedCRL struct {
		cl    *pkix.CertificateList
		cache map[string]*pkix.RevokedCertificate
	}
	shared := rePairShared(func() *sharedCRL {
		cl, _ := x509.ParseDERCRL(append([]byte{}, der...)) // parsed once above
		return &sharedCRL{cl, buildCache(cl, 1)}
	})
	for _, q := range queries {
		for _, withCache := range []bool{false, true} {
			ops = append(ops, nohb.Op{Name: fmt.Sprintf("CheckCRLForCert(SHARED parsed CRL, serial %v, shared cache=%v)", querySerials[q], withCache), New: func() func() {
				s := shared()
				return func() {
					if withCache {
						check(s.cl, s.cache, q)
					} else {
						check(s.cl, nil, q)
					}
				}
			}})
		}
	}
	return rePairing(ops)
}

// nohb.WorkerMain builds every pair with exactly two New calls (first call, then second call) and calls New for
// nothing else, so New calls number 2k and 2k+1 belong to pair k. rePairing counts them; rePairShared(mk) returns
// an accessor that hands both calls of a pair the same object and makes a fresh one for the next pair.
var reNewCalls int

func rePairing(ops []nohb.Op) []nohb.Op {
	for i := range ops {
		inner := ops[i].New
		ops[i].New = func() func() { reNewCalls++; return inner() }
	}
	return ops
}

func rePairShared[T any](mk func() T) func() T {
	pair, cur := -1, *new(T)
	return func() T {
		if p := (reNewCalls - 1) / 2; p != pair {
			pair, cur = p, mk()
		}
		return cur
	}
}

const reentrantMenuText = "CheckCRLForCert on own hand-assembled CRLs (all list extensions; CRL number 2^70 error path) x 3 query serials x cache {nil, first-wins}; CreateCRL with own CA, ParseDERCRL, ParseCRL+CheckCRLSignature, ParseDERCRL+CheckCRLForCert; ONE shared parsed CRL + ONE shared cache (fresh per pair) x 3 serials x cache {nil, shared}"

func reentrantPhase(c *ev.Ctx) {
	if c.Replay != nil {
		return // --replay re-executes one recorded witness of the main phase only
	}
	t0 := time.Now()
	o := nohb.Run(os.Getenv("VERIF_RACE_BIN"), nil, 10*time.Minute)
	if o.Broken != "" {
		c.Broken("re-entrancy pass: %s", o.Broken)
	}
	for _, sig := range o.Sigs() {
		c.Violation("re-entrancy: two calls on different goroutines share unsynchronised state: "+sig, map[string]any{"pair": o.Races[sig], "kind": "nohb"})
	}
	for k, v := range o.Panics {
		c.Violation("re-entrancy: "+k, map[string]any{"pair": v, "kind": "nohb"})
	}
	c.Outcome("re-entrancy pairs without a report", int64(o.Pairs))
	c.States.Add(int64(o.Pairs))
	c.Traces.Add(int64(o.Pairs))
	c.Set("reentrancy", map[string]any{"calls": o.Ops, "ordered_pairs": o.Pairs, "race_signatures": len(o.Races), "harness_only_reports": o.Harness, "canary_ok": o.CanaryOK,
		"seconds": time.Since(t0).Seconds(), "menu": reentrantMenuText,
		"method": "every ordered pair (a, b) of the menu: a to completion on one goroutine, then b on another, without a happens-before edge, in a -race build; a ThreadSanitizer report with both accesses in the repository is a violation"})
}
