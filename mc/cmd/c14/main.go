// C14 — CRL revocation lookup reports exactly the listed serials.
//
// Engine E2 (G-field, full product): every CRL of a small, explicitly described
// space (hand-assembled pkix.CertificateList values and CRLs produced by
// (*x509.Certificate).CreateCRL and parsed back) x every query serial x every
// cache mode is given to crl.CheckCRLForCert and compared with a reference that
// is a transcription of the property statement: linear first-match lookup over
// the entries, header fields copied, list extensions classified.
package main

import (
	stdx509 "crypto/x509"
	stdasn1 "encoding/asn1"
	"encoding/hex"
	"encoding/json"
	"fmt"
	"math/big"
	"runtime/debug"
	"sort"
	"strconv"
	"strings"
	"time"

	zasn1 "github.com/zmap/zcrypto/encoding/asn1"
	"github.com/zmap/zcrypto/x509"
	"github.com/zmap/zcrypto/x509/pkix"
	"github.com/zmap/zcrypto/x509/revocation/crl"
	"verifmc/internal/ev"
	"verifmc/internal/fx"
	"verifmc/internal/nohb"
)

// ---------------------------------------------------------------- alphabets

func pow2(n uint) *big.Int { return new(big.Int).Lsh(big.NewInt(1), n) }

// entry serial alphabet (index -> value); the query alphabet is this plus {3, 0}.
var entrySerials = []*big.Int{big.NewInt(1), big.NewInt(2), big.NewInt(-1), pow2(64), pow2(159)}
var querySerials = append(append([]*big.Int{}, entrySerials...), big.NewInt(3), big.NewInt(0))

func serialClass(s *big.Int) string {
	switch {
	case s.Sign() == 0:
		return "zero"
	case s.Sign() < 0:
		return "negative"
	case s.BitLen() > 63:
		return "huge"
	}
	return "small"
}

// CRL number alphabet: index 0 = extension absent. Indices < nCoreNumbers take
// part in the full header product; the others (boundaries of the API's int
// field, a negative number, the 20-octet maximum of RFC 5280) are crossed with
// the header subset only (see main).
var crlNumbers = []*big.Int{nil, big.NewInt(0), big.NewInt(7), pow2(31), pow2(70),
	big.NewInt(-1), new(big.Int).Sub(pow2(63), big.NewInt(1)), pow2(63), new(big.Int).Sub(pow2(159), big.NewInt(1))}

const nCoreNumbers = 5

var cacheModes = []string{"nil", "first-wins", "last-wins", "empty"}

var (
	oidCRLNumber = []int{2, 5, 29, 20}
	oidAKID      = []int{2, 5, 29, 35}
	oidReason    = []int{2, 5, 29, 21}
	oidInvDate   = []int{2, 5, 29, 24}
	oidUnkCrit   = []int{1, 3, 6, 1, 4, 1, 55555, 14, 1}
	oidUnkNon    = []int{1, 3, 6, 1, 4, 1, 55555, 14, 2}
	akidKeyID    = []byte{0xa1, 0xa2, 0xa3, 0xa4, 0xa5, 0xa6, 0xa7, 0xa8}
)

// ---------------------------------------------------------------- configuration of one case

type extCfg struct {
	CRLNum  int  `json:"crl_number_idx"` // index into crlNumbers
	AKID    bool `json:"akid"`
	UnkCrit bool `json:"unknown_critical"`
	UnkNon  bool `json:"unknown_noncritical"`
	Order   int  `json:"order"` // 0: crlNumber, akid, crit, non ; 1: reversed
}

type cfg struct {
	Source   string `json:"source"`         // "hand" or "createcrl"
	Entries  []int  `json:"entries"`        // indices into entrySerials, in list order
	TimeMode int    `json:"time_mode"`      // 0: entry i revoked at T0-(i+1)h ; 1: same but entry 0 has the zero time
	EntExt   int    `json:"entry_ext_mode"` // 0 none, 1 reason on every entry, 2 reason+invalidityDate on odd entries
	Ext      extCfg `json:"list_ext"`
	Version  int    `json:"version"`
	NextSet  bool   `json:"next_update_set"`
	Issuer   int    `json:"issuer"` // hand: 0 = C,O,CN ; 1 = CN only (UTF-8)
	SKID     bool   `json:"issuer_has_skid"`
	Query    int    `json:"query_idx"`
	Cache    int    `json:"cache_mode"`
}

type witness struct {
	Cfg      cfg      `json:"cfg"`
	Entries  []string `json:"entry_serials"`
	QueryS   string   `json:"query_serial"`
	CacheS   string   `json:"cache"`
	Detail   string   `json:"detail"`
	CRLDER   string   `json:"crl_der_hex,omitempty"`
	Reproduc string   `json:"how"`
}

// model is what the statement lets us predict.
type model struct {
	serials   []*big.Int
	times     []time.Time
	issCN     string
	issO, isC []string
	this      time.Time
	next      time.Time
	crlNum    *big.Int         // nil: absent
	others    []pkix.Extension // every list extension except CRL number and AKID
	akid      *pkix.Extension  // AKID extension if present
	akidID    []byte
	version   int
	checkVers bool
	wantCrit  []pkix.Extension
	wantNon   []pkix.Extension
}

func entryTime(mode, i int) time.Time {
	if mode == 1 && i == 0 {
		return time.Time{}
	}
	return fx.T0.Add(-time.Duration(i+1) * time.Hour)
}

func mustStd(v any) []byte {
	b, err := stdasn1.Marshal(v)
	if err != nil {
		panic(err)
	}
	return b
}

func entryExts(mode, i int) []pkix.Extension {
	switch mode {
	case 1:
		return []pkix.Extension{{Id: oidReason, Value: mustStd(stdasn1.Enumerated(1 + i%5))}}
	case 2:
		if i%2 == 1 {
			return []pkix.Extension{
				{Id: oidReason, Value: mustStd(stdasn1.Enumerated(4))},
				{Id: oidInvDate, Value: mustStd(fx.T0.Add(-100 * time.Hour))},
			}
		}
	}
	return nil
}

func revoked(c cfg) []pkix.RevokedCertificate {
	out := make([]pkix.RevokedCertificate, len(c.Entries))
	for i, si := range c.Entries {
		out[i] = pkix.RevokedCertificate{
			SerialNumber:   new(big.Int).Set(entrySerials[si]),
			RevocationTime: entryTime(c.TimeMode, i),
			Extensions:     entryExts(c.EntExt, i),
		}
	}
	return out
}

func atv(oid []int, v string) pkix.RelativeDistinguishedNameSET {
	return pkix.RelativeDistinguishedNameSET{{Type: oid, Value: v}}
}

type akidStd struct {
	ID []byte `asn1:"optional,tag:0"`
}

func listExts(e extCfg) (all []pkix.Extension) {
	if n := crlNumbers[e.CRLNum]; n != nil {
		all = append(all, pkix.Extension{Id: oidCRLNumber, Value: mustStd(n)})
	}
	if e.AKID {
		all = append(all, pkix.Extension{Id: oidAKID, Value: mustStd(akidStd{ID: akidKeyID})})
	}
	if e.UnkCrit {
		all = append(all, pkix.Extension{Id: oidUnkCrit, Critical: true, Value: []byte{0x04, 0x02, 0xc1, 0xc2}})
	}
	if e.UnkNon {
		all = append(all, pkix.Extension{Id: oidUnkNon, Value: []byte{0x05, 0x00}})
	}
	if e.Order == 1 {
		for i, j := 0, len(all)-1; i < j; i, j = i+1, j-1 {
			all[i], all[j] = all[j], all[i]
		}
	}
	return all
}

var sigAlgEd25519 = pkix.AlgorithmIdentifier{Algorithm: []int{1, 3, 101, 112}}

// buildHand assembles the pkix.CertificateList value directly.
func buildHand(c cfg) (*pkix.CertificateList, *model) {
	m := &model{version: c.Version, checkVers: true, this: fx.T0}
	var iss pkix.RDNSequence
	if c.Issuer == 0 {
		iss = pkix.RDNSequence{atv([]int{2, 5, 4, 6}, "US"), atv([]int{2, 5, 4, 10}, "Verif Org"), atv([]int{2, 5, 4, 3}, "C14 hand CRL")}
		m.isC, m.issO, m.issCN = []string{"US"}, []string{"Verif Org"}, "C14 hand CRL"
	} else {
		iss = pkix.RDNSequence{atv([]int{2, 5, 4, 3}, "C14 Ünïcode CRL")}
		m.issCN = "C14 Ünïcode CRL"
	}
	tbs := pkix.TBSCertificateList{
		Version:             c.Version,
		Signature:           sigAlgEd25519,
		Issuer:              iss,
		ThisUpdate:          fx.T0,
		RevokedCertificates: revoked(c),
		Extensions:          listExts(c.Ext),
	}
	if c.NextSet {
		tbs.NextUpdate = fx.T0.Add(7 * 24 * time.Hour)
		m.next = tbs.NextUpdate
	}
	cl := &pkix.CertificateList{
		TBSCertList:        tbs,
		SignatureAlgorithm: sigAlgEd25519,
		SignatureValue:     zasn1.BitString{Bytes: []byte{1, 2, 3, 4}, BitLength: 32},
	}
	fillModel(m, c, tbs.Extensions)
	return cl, m
}

func fillModel(m *model, c cfg, exts []pkix.Extension) {
	for i, si := range c.Entries {
		m.serials = append(m.serials, entrySerials[si])
		m.times = append(m.times, entryTime(c.TimeMode, i))
	}
	for i := range exts {
		e := exts[i]
		switch {
		case stdasn1.ObjectIdentifier(e.Id).Equal(oidCRLNumber):
			// value decoded with the standard library, not with zcrypto
			n := new(big.Int)
			if _, err := stdasn1.Unmarshal(e.Value, &n); err != nil {
				panic(err)
			}
			m.crlNum = n
		case stdasn1.ObjectIdentifier(e.Id).Equal(oidAKID):
			cp := e
			m.akid = &cp
			var a akidStd
			if _, err := stdasn1.Unmarshal(e.Value, &a); err != nil {
				panic(err)
			}
			m.akidID = a.ID
		default:
			m.others = append(m.others, e)
			if e.Critical {
				m.wantCrit = append(m.wantCrit, e)
			} else {
				m.wantNon = append(m.wantNon, e)
			}
		}
	}
}

// issuing CA of the CreateCRL source (with and without subject key id).
var createCA [2]*fx.Cert

func initCAs() {
	createCA[0] = fx.MustMint(fx.CertSpec{CN: "C14 CreateCRL issuer", Key: "c14-crl-ca", IsCA: true, KeyUsage: x509.KeyUsageCRLSign | x509.KeyUsageCertSign}, nil)
	createCA[1] = fx.MustMint(fx.CertSpec{CN: "C14 CreateCRL issuer", Key: "c14-crl-ca", IsCA: true, KeyUsage: x509.KeyUsageCRLSign | x509.KeyUsageCertSign, SKID: akidKeyID}, nil)
}

// buildCreated goes through CreateCRL -> DER -> ParseDERCRL. The DER is also
// parsed with the standard library and its entries compared with the model, so
// that a lossy encoder/decoder is not blamed on CheckCRLForCert.
func buildCreated(c cfg) (*pkix.CertificateList, *model, []byte, string) {
	ca := createCA[0]
	if c.SKID {
		ca = createCA[1]
	}
	var expiry time.Time
	if c.NextSet {
		expiry = fx.T0.Add(7 * 24 * time.Hour)
	}
	der, err := ca.X.CreateCRL(fx.NewRand("c14-crl"), ca.Key, revoked(c), fx.T0, expiry)
	if err != nil {
		return nil, nil, nil, "CreateCRL: " + err.Error()
	}
	cl, err := x509.ParseDERCRL(der)
	if err != nil {
		return nil, nil, der, "ParseDERCRL: " + err.Error()
	}
	m := &model{issCN: "C14 CreateCRL issuer", this: fx.T0, next: expiry}
	fillModel(m, c, cl.TBSCertList.Extensions)
	if c.SKID != (m.akid != nil) {
		return nil, nil, der, "unexpected extension set produced by CreateCRL"
	}
	// independent reading of the same DER
	rl, err := stdx509.ParseRevocationList(der)
	if err != nil {
		return nil, nil, der, "crypto/x509 cannot parse the CRL: " + err.Error()
	}
	if len(rl.RevokedCertificateEntries) != len(m.serials) {
		return nil, nil, der, "crypto/x509 sees a different number of entries than the model"
	}
	for i, e := range rl.RevokedCertificateEntries {
		if e.SerialNumber.Cmp(m.serials[i]) != 0 || !e.RevocationTime.Equal(m.times[i]) {
			return nil, nil, der, "crypto/x509 sees different entries than the model"
		}
	}
	if rl.Issuer.CommonName != m.issCN || !rl.ThisUpdate.Equal(m.this) || (c.NextSet && !rl.NextUpdate.Equal(m.next)) {
		return nil, nil, der, "crypto/x509 sees a different header than the model"
	}
	return cl, m, der, ""
}

// ---------------------------------------------------------------- oracle

type verdict struct {
	sig, detail string
}

func fitsInt(n *big.Int) bool {
	if !n.IsInt64() {
		return false
	}
	if strconv.IntSize == 64 {
		return true
	}
	v := n.Int64()
	return v >= -(1<<31) && v <= 1<<31-1
}

func extKey(e pkix.Extension) string {
	return fmt.Sprintf("%v|%v|%x", []int(e.Id), e.Critical, e.Value)
}

func sameExt(a, b pkix.Extension) bool {
	return a.Critical == b.Critical && stdasn1.ObjectIdentifier(a.Id).Equal(stdasn1.ObjectIdentifier(b.Id)) && string(a.Value) == string(b.Value)
}

func isAKID(e pkix.Extension) bool { return stdasn1.ObjectIdentifier(e.Id).Equal(oidAKID) }

// sameMultiset compares got (ignoring authority key id extensions, which are
// returned separately) with want as multisets.
func sameMultiset(got, want []pkix.Extension) (ok bool, akid []pkix.Extension) {
	var used [8]bool
	n := 0
	ok = true
	for _, g := range got {
		if isAKID(g) {
			akid = append(akid, g)
			continue
		}
		n++
		found := false
		for j, w := range want {
			if j < len(used) && !used[j] && sameExt(g, w) {
				used[j] = true
				found = true
				break
			}
		}
		if !found {
			ok = false
		}
	}
	if n != len(want) {
		ok = false
	}
	return
}

func extList(es []pkix.Extension) string {
	var ks []string
	for _, e := range es {
		ks = append(ks, extKey(e))
	}
	sort.Strings(ks)
	return strings.Join(ks, " ; ")
}

func eqStrs(a, b []string) bool {
	if len(a) != len(b) {
		return false
	}
	for i := range a {
		if a[i] != b[i] {
			return false
		}
	}
	return true
}

// checkHeader compares the copied fields; returns violations and information classes.
func checkHeader(m *model, got *crl.RevocationData, out *[]verdict, h ev.Hist) {
	if got.Issuer.CommonName != m.issCN || !eqStrs(got.Issuer.Organization, m.issO) || !eqStrs(got.Issuer.Country, m.isC) {
		*out = append(*out, verdict{"header: Issuer not copied", fmt.Sprintf("got CN=%q O=%v C=%v want CN=%q O=%v C=%v", got.Issuer.CommonName, got.Issuer.Organization, got.Issuer.Country, m.issCN, m.issO, m.isC)})
	}
	if !got.ThisUpdate.Equal(m.this) {
		*out = append(*out, verdict{"header: ThisUpdate not copied", fmt.Sprintf("got %v want %v", got.ThisUpdate, m.this)})
	}
	if !got.NextUpdate.Equal(m.next) || got.NextUpdate.IsZero() != m.next.IsZero() {
		cl := "set"
		if m.next.IsZero() {
			cl = "absent"
		}
		*out = append(*out, verdict{"header: NextUpdate not copied [" + cl + "]", fmt.Sprintf("got %v want %v", got.NextUpdate, m.next)})
	}
	if m.checkVers && got.Version != m.version {
		// the statement does not name the version: information only
		h["info:version-differs"]++
	}
	switch {
	case m.crlNum == nil:
		if got.CRLExtensions.CRLNumber != 0 {
			*out = append(*out, verdict{"header: CRLNumber non-zero although the CRL has no CRL number", fmt.Sprintf("got %d", got.CRLExtensions.CRLNumber)})
		}
		h["crlnumber:absent"]++
	case fitsInt(m.crlNum):
		if int64(got.CRLExtensions.CRLNumber) != m.crlNum.Int64() {
			*out = append(*out, verdict{fmt.Sprintf("header: CRLNumber not copied [want %s]", m.crlNum), fmt.Sprintf("got %d want %s", got.CRLExtensions.CRLNumber, m.crlNum)})
		}
		h["crlnumber:copied"]++
	default:
		// does not fit the API's int field and no error was returned: whatever is
		// reported is not the CRL's number
		rep := "another value"
		if got.CRLExtensions.CRLNumber == 0 {
			rep = "0"
		}
		*out = append(*out, verdict{"header: CRLNumber does not fit int but the call succeeded and reported " + rep, fmt.Sprintf("got %d want %s (or an error)", got.CRLExtensions.CRLNumber, m.crlNum)})
	}
	// classification: every extension other than the CRL number lands in exactly
	// the list matching its critical flag. The authority key id has a dedicated
	// field in the API (CRLExtensions.AuthKeyID): both "kept as unknown" and
	// "decoded into that field" are accepted.
	okC, akC := sameMultiset(got.UnknownCriticalCRLExtensions, m.wantCrit)
	okN, akN := sameMultiset(got.UnknownCRLExtensions, m.wantNon)
	if !okC {
		*out = append(*out, verdict{"header: critical list extensions misclassified", fmt.Sprintf("UnknownCriticalCRLExtensions=[%s] want [%s]", extList(got.UnknownCriticalCRLExtensions), extList(m.wantCrit))})
	}
	if !okN {
		*out = append(*out, verdict{"header: non-critical list extensions misclassified", fmt.Sprintf("UnknownCRLExtensions=[%s] want [%s] (authority key id may be in either place)", extList(got.UnknownCRLExtensions), extList(m.wantNon))})
	}
	if m.akid == nil {
		if len(akC)+len(akN) != 0 || len(got.CRLExtensions.AuthKeyID) != 0 {
			*out = append(*out, verdict{"header: authority key id reported although absent", ""})
		}
	} else {
		decoded := string(got.CRLExtensions.AuthKeyID) == string(m.akidID)
		asUnknown := len(akC) == 0 && len(akN) == 1 && sameExt(akN[0], *m.akid)
		switch {
		case len(akC) != 0 || len(akN) > 1 || (len(akN) == 1 && !asUnknown):
			*out = append(*out, verdict{"header: authority key id extension misclassified", fmt.Sprintf("crit=%d non=%d", len(akC), len(akN))})
		case len(got.CRLExtensions.AuthKeyID) != 0 && !decoded:
			*out = append(*out, verdict{"header: AuthKeyID differs from the extension's key identifier", hex.EncodeToString(got.CRLExtensions.AuthKeyID)})
		case !decoded && !asUnknown:
			*out = append(*out, verdict{"header: authority key id extension lost", ""})
		case decoded:
			h["akid:decoded"]++
		default:
			h["akid:kept-as-unknown-noncritical"]++
		}
	}
	if len(m.others) > 0 {
		h["ext:classified"]++
	}
}

// buildCache builds the caller-side cache from the CRL's own entries, keyed the
// way the package's test does (decimal serial).
func buildCache(cl *pkix.CertificateList, mode int) map[string]*pkix.RevokedCertificate {
	rc := cl.TBSCertList.RevokedCertificates
	switch mode {
	case 0:
		return nil
	case 3:
		return map[string]*pkix.RevokedCertificate{}
	}
	mp := make(map[string]*pkix.RevokedCertificate, len(rc))
	for i := range rc {
		k := rc[i].SerialNumber.String()
		if _, ok := mp[k]; ok && mode == 1 {
			continue // first wins
		}
		mp[k] = &rc[i]
	}
	return mp
}

var queryCerts = func() map[*big.Int]*x509.Certificate {
	mp := map[*big.Int]*x509.Certificate{}
	for _, q := range querySerials {
		mp[q] = &x509.Certificate{SerialNumber: new(big.Int).Set(q)}
	}
	return mp
}()

// queryCert returns the (read-only, shared) certificate carrying serial q.
func queryCert(q *big.Int) *x509.Certificate {
	if c, ok := queryCerts[q]; ok {
		return c
	}
	return &x509.Certificate{SerialNumber: new(big.Int).Set(q)}
}

// evalCall runs one CheckCRLForCert call and judges it.
func evalCall(cl *pkix.CertificateList, m *model, q *big.Int, mode int, cache map[string]*pkix.RevokedCertificate, h ev.Hist) []verdict {
	return evalCallCert(cl, m, queryCert(q), q, mode, cache, h, nil)
}

// callResult is what one call returned (kept by the history oracle).
type callResult struct {
	got *crl.RevocationData
	err error
}

// evalCallCert is evalCall with the caller's own certificate object (serial q);
// the raw result is stored in *keep when keep is not nil.
func evalCallCert(cl *pkix.CertificateList, m *model, cert *x509.Certificate, q *big.Int, mode int, cache map[string]*pkix.RevokedCertificate, h ev.Hist, keep *callResult) []verdict {
	var out []verdict
	var got *crl.RevocationData
	var err error
	if p, msg, site := ev.Try(func() { got, err = crl.CheckCRLForCert(cl, cert, cache) }); p {
		return []verdict{{"panic@" + site + ": " + ev.MsgClass(msg), msg}}
	}
	if keep != nil {
		keep.got, keep.err = got, err
	}
	if err != nil && m.crlNum != nil && !fitsInt(m.crlNum) {
		// RevocationData carries the CRL number in an int: a number that does not
		// fit cannot be copied, refusing the CRL is the only truthful answer.
		h["crlnumber:exceeds-int→error"]++
		return nil
	}
	if err != nil || got == nil {
		return []verdict{{"unexpected error/nil result for a well-formed CRL", fmt.Sprint(err)}}
	}
	// reference: linear search, first match
	first, last, matches := -1, -1, 0
	for i, s := range m.serials {
		if s.Cmp(q) == 0 {
			if first < 0 {
				first = i
			}
			last = i
			matches++
		}
	}
	want := first >= 0
	class := "not-listed"
	if matches == 1 {
		class = "listed-once"
	} else if matches > 1 {
		class = "listed-duplicate"
	}
	qc := serialClass(q)
	cm := cacheModes[mode]
	timeOK := func(i int) bool { return got.RevocationTime.Equal(m.times[i]) }
	describe := func() string {
		return fmt.Sprintf("IsRevoked=%v RevocationTime=%v; reference: revoked=%v first-match-index=%d", got.IsRevoked, got.RevocationTime, want, first)
	}
	switch {
	case mode == 3 && want:
		// a non-nil empty map is not "built from the same entries" of a CRL that
		// lists this serial: the statement does not say whether the cache is
		// trusted or the list is searched. Both are accepted.
		if got.IsRevoked {
			if !timeOK(first) {
				out = append(out, verdict{"cache=empty: revoked but RevocationTime is not the first matching entry's", describe()})
			}
			h["empty-cache:listed→revoked(list searched)"]++
		} else {
			h["empty-cache:listed→not-revoked(cache trusted)"]++
		}
	case got.IsRevoked != want:
		cl := class
		if !want {
			cl += ", query " + qc
		}
		out = append(out, verdict{fmt.Sprintf("cache=%s: IsRevoked want %v got %v [%s]", cm, want, got.IsRevoked, cl), describe()})
	case !want:
		if !got.RevocationTime.IsZero() {
			// the statement says nothing about the time of a certificate that is not revoked
			h["info:RevocationTime set although not revoked"]++
		}
		h["not-revoked:"+qc]++
	case mode == 2 && matches > 1:
		// last-wins cache: reported separately, the statement compares the first-wins one
		switch {
		case timeOK(first):
			h["last-wins-cache:duplicate→time-of-first"]++
		case timeOK(last):
			h["info:last-wins-cache:duplicate→time-of-last"]++
		default:
			out = append(out, verdict{"cache=last-wins: RevocationTime is neither the first nor the last matching entry's", describe()})
		}
	default:
		if !timeOK(first) {
			tz := "nonzero"
			if m.times[first].IsZero() {
				tz = "zero"
			}
			out = append(out, verdict{fmt.Sprintf("cache=%s: RevocationTime is not the first matching entry's [%s, entry time %s]", cm, class, tz), describe()})
		}
		h["revoked:"+class+":"+qc]++
	}
	checkHeader(m, got, &out, h)
	return out
}

// ---------------------------------------------------------------- enumeration

// allLists enumerates every sequence over the entry alphabet of length <= n.
func allLists(n int) [][]int {
	out := [][]int{{}}
	level := [][]int{{}}
	for l := 1; l <= n; l++ {
		var next [][]int
		for _, p := range level {
			for s := range entrySerials {
				q := append(append([]int{}, p...), s)
				next = append(next, q)
			}
		}
		out = append(out, next...)
		level = next
	}
	return out
}

func mkWitness(c cfg, detail string, der []byte) witness {
	w := witness{Cfg: c, Detail: detail, QueryS: querySerials[c.Query].String(), CacheS: cacheModes[c.Cache],
		Reproduc: "build the CRL described by cfg (hand: pkix.CertificateList literal; createcrl: Certificate.CreateCRL + ParseDERCRL), call crl.CheckCRLForCert(crl, &x509.Certificate{SerialNumber: query}, cache)"}
	for _, si := range c.Entries {
		w.Entries = append(w.Entries, entrySerials[si].String())
	}
	if der != nil {
		w.CRLDER = hex.EncodeToString(der)
	}
	return w
}

func build(c cfg) (*pkix.CertificateList, *model, []byte, string) {
	if c.Source == "createcrl" {
		return buildCreated(c)
	}
	cl, m := buildHand(c)
	return cl, m, nil, ""
}

func main() {
	if nohb.IsWorker() {
		nohb.WorkerMain(reentrantOps(), reentrantRepoDir())
		return
	}
	ev.Main("C14", "model_checking", func(c *ev.Ctx) {
		initCAs()
		maxLen := ev.Pick(c, 4, 5)
		fullHdrLen := ev.Pick(c, 3, 4) // lists up to this length are crossed with EVERY header combination
		orders := ev.Pick(c, 1, 2)
		issuers := ev.Pick(c, 1, 2)
		debug.SetGCPercent(200)
		c.Rule(fmt.Sprintf("hand-assembled pkix.CertificateList: entry lists = all sequences of length<=%d over serials {1,2,-1,2^64,2^159} (repeats = duplicates with different times) x time mode {distinct, first entry zero time} x entry extensions {none, reason on all, reason+invalidityDate on odd} x header; header = list extensions {CRL number in {none,0,7,2^31,2^70}} x {AKID} x {unknown critical} x {unknown non-critical} x %d order(s) x version {0,1} x NextUpdate {set,zero} x %d issuer name(s): the full header product for every list of length<=%d, and the 8-element header subset {CRL number none|2^70} x {no other extension | AKID+critical+non-critical} x {v1,NextUpdate zero | v2,NextUpdate set} for longer lists (lookup and header copying share no code path), plus, for every list of length<=%d, CRL number in {-1, 2^63-1, 2^63, 2^159-1} x {no other extension | AKID+critical+non-critical} x {v1,NextUpdate zero | v2,NextUpdate set}; a CRL number that fits int must be copied, one that does not (2^63, 2^70, 2^159-1; also 2^31 and 2^63-1 where int has 32 bits) must make the call fail: a successful call reporting any number is a violation; CreateCRL source: all lists x entry extensions x issuer with/without SKID x expiry {set,zero}, DER parsed by ParseDERCRL and cross-read with crypto/x509; every CRL x query serial in {1,2,-1,2^64,2^159,3,0} x cache in {nil, first-wins, last-wins, empty non-nil}; a CRL is non-trivial/distinct by its configuration. HISTORY oracle (one goroutine, before anything else runs): all sequences of 2 calls (and of 3 calls: quick over 3 model lists x serials {1,3}, thorough over all 5 lists x serials {1,2^64,3}) over 5 model lists (different issuer / CRL number incl. an unrepresentable one / extension sets / entries; hand-assembled and CreateCRL+ParseDERCRL) x serials {1,2,2^64,3} x list action {same pointer unchanged | same pointer overwritten in place by every other model list (*p = *fresh) | same pointer, entry appended to RevokedCertificates | another pointer with equal content | another pointer with every other model list} x cache {nil | fresh map | the same map object, refilled in place by its owner when the entries changed} x certificate {same object | same object, serial Set in place | same object, serial replaced | another object}: every call is judged by the single-call oracle on the content currently behind the pointer, its complete RevocationData must equal that of the same call made in isolation on fresh deep copies (pre-pass), the list / certificate / cache arguments must equal deep copies taken before the call, and results returned earlier must not change afterwards", maxLen, orders, issuers, fullHdrLen, fullHdrLen))
		c.Assume(
			"the cache is keyed by the decimal string of the serial (the convention of crl_test.go) and points at the CRL's own entries",
			"reference = linear first-match search over the model's entry list; extension values are encoded/decoded with the standard library's encoding/asn1",
			"a non-nil empty cache for a CRL that lists the queried serial: both answers accepted (statement silent); last-wins cache on duplicates: time of first or last accepted, counted separately",
			"authority key id: kept as unknown non-critical extension or decoded into CRLExtensions.AuthKeyID are both accepted; a CRL number that does not fit the int field ListExtensionData.CRLNumber cannot be copied: only an error is accepted",
			"RevocationData.Version / signature fields are not named by the statement: differences are information only in a single call; in a history every field must equal the isolated call's (a function of its arguments)",
			"history oracle: a cache map re-used after the list's entries changed is refilled in place by the caller before the call (a stale cache is not 'built from the same entries'); a cache pointing at the entries of another list object with equal content is used as is",
		)

		report := func(cf cfg, vs []verdict, der []byte) {
			for _, v := range vs {
				c.Violation(v.sig, mkWitness(cf, v.detail, der))
			}
		}

		if c.Replay != nil {
			var hw hWitness
			if err := json.Unmarshal(c.Replay, &hw); err == nil && hw.Kind == "history" {
				replayHistory(c, hw)
				return
			}
			var w witness
			if err := json.Unmarshal(c.Replay, &w); err != nil {
				c.Broken("bad witness: %v", err)
			}
			cl, m, der, bad := build(w.Cfg)
			if bad != "" {
				c.Broken("cannot rebuild CRL: %s", bad)
			}
			h := ev.Hist{}
			vs := evalCall(cl, m, querySerials[w.Cfg.Query], w.Cfg.Cache, buildCache(cl, w.Cfg.Cache), h)
			report(w.Cfg, vs, der)
			c.Merge(h)
			c.States.Add(1)
			c.Transitions.Add(1)
			return
		}

		// sequences of calls: single-threaded, nothing else is calling into zcrypto yet
		historyPhase(c)

		lists := allLists(maxLen)
		c.Set("entry_lists", len(lists))

		// header combinations of the hand-assembled source
		type hdr struct {
			ext     extCfg
			version int
			next    bool
			issuer  int
		}
		var hdrs []hdr
		for cn := 0; cn < nCoreNumbers; cn++ {
			for ak := 0; ak < 2; ak++ {
				for uc := 0; uc < 2; uc++ {
					for un := 0; un < 2; un++ {
						for o := 0; o < orders; o++ {
							for v := 0; v < 2; v++ {
								for nx := 0; nx < 2; nx++ {
									for is := 0; is < issuers; is++ {
										hdrs = append(hdrs, hdr{extCfg{cn, ak == 1, uc == 1, un == 1, o}, v, nx == 1, is})
									}
								}
							}
						}
					}
				}
			}
		}
		c.Set("header_combinations_hand", len(hdrs))
		var hdrsSmall []hdr
		for _, hd := range hdrs {
			e := hd.ext
			allOn := e.AKID && e.UnkCrit && e.UnkNon
			allOff := !e.AKID && !e.UnkCrit && !e.UnkNon
			if (e.CRLNum == 0 || e.CRLNum == 4) && (allOn || allOff) && e.Order == 0 && hd.issuer == 0 && (hd.version == 1) == hd.next {
				hdrsSmall = append(hdrsSmall, hd)
			}
		}
		c.Set("header_subset_for_long_lists", len(hdrsSmall))
		// boundary CRL numbers: same 4-element subset of the other header fields
		var hdrsEdge []hdr
		for cn := nCoreNumbers; cn < len(crlNumbers); cn++ {
			for _, on := range []bool{false, true} {
				for _, v2 := range []bool{false, true} {
					v := 0
					if v2 {
						v = 1
					}
					hdrsEdge = append(hdrsEdge, hdr{extCfg{cn, on, on, on, 0}, v, v2, 0})
				}
			}
		}
		c.Set("header_boundary_crl_numbers", len(hdrsEdge))
		hdrsFull := append(append([]hdr{}, hdrs...), hdrsEdge...)

		// unit = (list, time mode, entry ext mode)
		nUnits := len(lists) * 2 * 3
		var stopped bool
		runCRL := func(h ev.Hist, base cfg, cl *pkix.CertificateList, m *model, der []byte) {
			var caches [4]map[string]*pkix.RevokedCertificate
			for cm := range cacheModes {
				caches[cm] = buildCache(cl, cm)
			}
			for qi, q := range querySerials {
				for cm := range cacheModes {
					vs := evalCall(cl, m, q, cm, caches[cm], h)
					if len(vs) > 0 {
						cf := base
						cf.Query, cf.Cache = qi, cm
						report(cf, vs, der)
					}
				}
			}
			n := int64(len(querySerials) * len(cacheModes))
			c.Transitions.Add(n)
			c.Traces.Add(n)
			c.Evaluations.Add(n)
			c.States.Add(1)
			c.Distinct.Add(1)
		}
		done := c.Parallel(nUnits, func(w, u int) {
			h := ev.Hist{}
			li := u / 6
			tm := (u % 6) / 3
			ee := u % 3
			hs := hdrsFull
			if len(lists[li]) > fullHdrLen {
				hs = hdrsSmall
			}
			for _, hd := range hs {
				cf := cfg{Source: "hand", Entries: lists[li], TimeMode: tm, EntExt: ee, Ext: hd.ext, Version: hd.version, NextSet: hd.next, Issuer: hd.issuer}
				cl, m := buildHand(cf)
				runCRL(h, cf, cl, m, nil)
			}
			if c.WantSample() && (li == 5 || li == 37 || li == 150 || li == 400) && tm == 0 && ee == 1 {
				cf := cfg{Source: "hand", Entries: lists[li], TimeMode: tm, EntExt: ee, Ext: hdrs[len(hdrs)/2].ext, Version: 1, NextSet: true, Query: 2, Cache: 1}
				c.Sample(mkWitness(cf, "sample case", nil))
			}
			// CreateCRL source (time mode 0 only: the zero time is not encodable)
			if tm == 0 {
				for sk := 0; sk < 2; sk++ {
					for nx := 0; nx < 2; nx++ {
						cf := cfg{Source: "createcrl", Entries: lists[li], EntExt: ee, SKID: sk == 1, NextSet: nx == 1, Version: 1}
						cl, m, der, bad := buildCreated(cf)
						if bad != "" {
							// not CheckCRLForCert's fault: the CRL could not be produced/confirmed
							h["info:createcrl-source-skipped: "+ev.MsgClass(strings.SplitN(bad, ":", 2)[0])]++
							continue
						}
						h["source:createcrl"]++
						runCRL(h, cf, cl, m, der)
						if c.WantSample() && li == 100 && sk == 1 && nx == 1 && ee == 0 {
							cf.Query, cf.Cache = 3, 1
							c.Sample(mkWitness(cf, "sample case", der))
						}
					}
				}
			}
			h["source:hand"] += int64(len(hs))
			c.Merge(h)
		})
		if !done {
			stopped = true
		}
		reentrantPhase(c)
		if stopped {
			c.Incomplete("time budget hit before all (entry list, time mode, entry extension) units were evaluated")
		}
	})
}
