// C17 — the CT scanner processes every log entry exactly once without races.
//
// Engine E3: the real scanner.Scan + client.LogClient (sources rewritten onto the
// vsched shims at build time) run under the cooperative scheduler against an
// in-memory log; all schedules up to a preemption bound x all server answer
// patterns (non-empty proper prefixes, HTTP 500, transport error) up to a fault
// bound are explored; a second, -race build repeats the exploration so that
// ThreadSanitizer judges every explored schedule. Per execution the oracle
// checks deliveries (exactly once, right index, per entry kind and option),
// the return value, the four counters read through an in-package accessor, and
// the values sent to the updater channel.
package main

import (
	"bytes"
	"crypto/sha256"
	"encoding/asn1"
	"encoding/base64"
	"encoding/json"
	"errors"
	"flag"
	"fmt"
	"io"
	"math/big"
	"net/http"
	"os"
	"path/filepath"
	"runtime/debug"
	"runtime/pprof"
	"sort"
	"strconv"
	"strings"
	"time"

	log "github.com/sirupsen/logrus"
	"github.com/zmap/zcrypto/ct"
	"github.com/zmap/zcrypto/ct/client"
	"github.com/zmap/zcrypto/ct/scanner"
	ctx509 "github.com/zmap/zcrypto/ct/x509"
	zasn1 "github.com/zmap/zcrypto/encoding/asn1"
	"github.com/zmap/zcrypto/vsched"
	zx509 "github.com/zmap/zcrypto/x509"
	"github.com/zmap/zcrypto/x509/pkix"
	"verifmc/internal/ev"
	"verifmc/internal/fx"
	"verifmc/internal/vx"
)

// ---- model log -----------------------------------------------------------

type entry struct {
	kind  byte // see the table below
	leaf  []byte
	extra []byte
}

// Entry kinds of the model log (one letter per index in scenario.Kinds):
//
//	X  x509 entry, parses cleanly                      -> matcher + foundCert
//	N  x509 entry, parses with NON-FATAL errors         -> matcher + foundCert, entriesWithNonFatalErrors++
//	   (an unknown critical extension)
//	U  x509 entry, a well-formed TLV that is no          -> unparsableEntries++, dropped (with IgnoreParsingErrors the
//	   certificate at all (SEQUENCE{INTEGER 5})             documentation is ambiguous: dropped or foundCert, at most once)
//	V  x509 entry with the outer shape of a certificate  -> unparsableEntries++; dropped, but with IgnoreParsingErrors
//	   (SEQUENCE{tbs, algorithm, bit string}) whose tbs     handed to foundCert WITHOUT consulting the matcher
//	   is empty: fatal parse error, "valid ASN.1"
//	P  precert entry, TBS parses                          -> matcher + foundPrecert, precertsSeen++
//	Q  precert entry whose TBS is SEQUENCE{INTEGER 5}     -> unparsableEntries++, dropped
//	W  precert entry whose "TBS" has the outer shape of   -> unparsableEntries++; dropped, but with IgnoreParsingErrors
//	   a certificate (same bytes as V)                       handed to foundPrecert without the matcher, precertsSeen++
const defaultKinds = "XPUP"

var (
	derNotACert  = []byte{0x30, 0x03, 0x02, 0x01, 0x05}
	derCertShell = []byte{0x30, 0x0c, 0x30, 0x00, 0x30, 0x04, 0x06, 0x02, 0x2a, 0x03, 0x03, 0x02, 0x00, 0x01}
)

var model []entry // built once per process from the scenario's kinds

func u24(n int) []byte { return []byte{byte(n >> 16), byte(n >> 8), byte(n)} }

func fatalParse(err error) bool {
	if err == nil {
		return false
	}
	_, nonfatal := err.(ctx509.NonFatalErrors)
	return !nonfatal
}

func buildModel(kinds string) {
	model = nil
	root := fx.MustMint(fx.CertSpec{CN: "c17 root", Key: "p256", IsCA: true}, nil)
	// sanity of the fixed byte strings against the standard library: derCertShell has the top-level shape of a
	// certificate, derNotACert has not
	var shell struct {
		TBS asn1.RawValue
		Alg struct {
			OID asn1.ObjectIdentifier
		}
		Sig asn1.BitString
	}
	if rest, err := asn1.Unmarshal(derCertShell, &shell); err != nil || len(rest) != 0 {
		panic("model: derCertShell is not SEQUENCE{any, SEQUENCE{OID}, BIT STRING}")
	}
	if _, err := asn1.Unmarshal(derNotACert, &shell); err == nil {
		panic("model: derNotACert has the shape of a certificate")
	}
	for i := 0; i < len(kinds); i++ {
		k := kinds[i]
		spec := fx.CertSpec{CN: fmt.Sprintf("leaf%d.example", i), Key: "p256b", Serial: int64(100 + i), DNS: []string{fmt.Sprintf("leaf%d.example", i)}}
		if k == 'N' {
			spec.Tweak = func(t *zx509.Certificate) {
				t.ExtraExtensions = append(t.ExtraExtensions, pkix.Extension{Id: zasn1.ObjectIdentifier{1, 3, 6, 1, 4, 1, 99999, 17}, Critical: true, Value: []byte{0x05, 0x00}})
			}
		}
		c := fx.MustMint(spec, root)
		var leaf bytes.Buffer
		leaf.Write([]byte{0, 0})                            // version v1, leaf_type timestamped_entry
		leaf.Write([]byte{0, 0, 0, 0, 0, 0, byte(0x10 + i>>8), byte(i)}) // timestamp = 0x1000+i identifies the entry
		var extra bytes.Buffer
		switch k {
		case 'X', 'N', 'U', 'V':
			der := c.DER
			if k == 'U' {
				der = derNotACert
			}
			if k == 'V' {
				der = derCertShell
			}
			leaf.Write([]byte{0, 0})
			leaf.Write(u24(len(der)))
			leaf.Write(der)
			leaf.Write([]byte{0, 0}) // extensions
			chain := append(u24(len(root.DER)), root.DER...)
			extra.Write(u24(len(chain)))
			extra.Write(chain)
			// sanity: the CT x509 fork must classify the entries as intended
			_, err := ctx509.ParseCertificate(der)
			switch {
			case k == 'X' && err != nil:
				panic("model: X entry does not parse cleanly: " + err.Error())
			case k == 'N' && (err == nil || fatalParse(err)):
				panic(fmt.Sprintf("model: N entry does not parse with non-fatal errors: %v", err))
			case (k == 'U' || k == 'V') && !fatalParse(err):
				panic("model: U/V entry parses")
			}
		case 'P', 'Q', 'W':
			leaf.Write([]byte{0, 1})
			h := sha256.Sum256(root.X.RawSubjectPublicKeyInfo)
			leaf.Write(h[:])
			tbs := c.X.RawTBSCertificate
			if k == 'Q' {
				tbs = derNotACert
			}
			if k == 'W' {
				tbs = derCertShell
			}
			leaf.Write(u24(len(tbs)))
			leaf.Write(tbs)
			leaf.Write([]byte{0, 0})
			extra.Write(u24(len(c.DER)))
			extra.Write(c.DER)
			chain := append(u24(len(root.DER)), root.DER...)
			extra.Write(u24(len(chain)))
			extra.Write(chain)
			_, err := ctx509.ParseTBSCertificate(tbs)
			switch {
			case k == 'P' && err != nil:
				panic("model: P entry does not parse cleanly: " + err.Error())
			case k != 'P' && !fatalParse(err):
				panic("model: Q/W entry parses")
			}
		default:
			panic("model: unknown entry kind " + string(k))
		}
		model = append(model, entry{k, leaf.Bytes(), extra.Bytes()})
	}
}

// ---- scenario -------------------------------------------------------------

type scenario struct {
	N         int    `json:"n"`
	Kinds     string `json:"kinds,omitempty"` // entry kinds of the log (len = N); "" = the first N of "XPUP"
	Sth       int    `json:"sth,omitempty"`   // tree size reported by get-sth when it differs from N (the log has grown since)
	Batch     int64  `json:"batch"`
	Fetchers  int    `json:"fetchers"`
	Workers   int    `json:"workers"`
	Start     int64  `json:"start"`
	Max       int64  `json:"max"`
	PreOnly   bool   `json:"precert_only"`
	IgnoreErr bool   `json:"ignore_parsing_errors,omitempty"`
	Updater   int    `json:"updater"` // 0 nil, 1 buffered(8) nobody receiving, 2 buffered(1) with a consumer thread
	PB        int    `json:"preempt_bound"`
	EB        int    `json:"fault_bound"`
	Race      bool   `json:"race"`
	MaxExecs  int    `json:"max_execs"`
}

func (s scenario) kinds() string {
	if s.Kinds != "" {
		return s.Kinds
	}
	return defaultKinds[:s.N]
}

// stop0 is the tree size the server reports.
func (s scenario) stop0() int {
	if s.Sth > 0 {
		return s.Sth
	}
	return s.N
}

// stop is the index the scan must end at: MaximumIndex, or the tree size of the STH when that is 0.
func (s scenario) stop() int64 {
	if s.Max > 0 {
		return s.Max
	}
	if s.Sth > 0 {
		return int64(s.Sth)
	}
	return int64(s.N)
}

func (s scenario) String() string {
	b, _ := json.Marshal(s)
	return string(b)
}

// observations of one execution, written by managed threads through norace
// methods (no synchronisation of their own, invisible to the race detector).
type obs struct {
	n       int
	what    [2048]byte // 'c' foundCert, 'p' foundPrecert, 'm' matcher(cert), 'q' matcher(precert)
	id      [2048]int  // entry identity from the leaf timestamp
	idx     [2048]int64
	ret     int64
	err     string
	done    bool
	reqs    int
	answers [1024]string
	nupd    int
	upd     [16]int64 // values received from the updater channel, in order
	counted bool
	ctr     [4]int64 // certsProcessed, precertsSeen, unparsableEntries, entriesWithNonFatalErrors after Scan
}

//go:norace
func (o *obs) addUpd(v int64) {
	if o.nupd < len(o.upd) {
		o.upd[o.nupd] = v
	}
	o.nupd++
}

//go:norace
func (o *obs) add(w byte, id int, idx int64) {
	if o.n < len(o.what) {
		o.what[o.n], o.id[o.n], o.idx[o.n] = w, id, idx
		o.n++
	}
}

//go:norace
func (o *obs) answer(s string) {
	if o.reqs < len(o.answers) {
		o.answers[o.reqs] = s
	}
	o.reqs++
}

type matcher struct{ o *obs }

func (m matcher) CertificateMatches(c *ctx509.Certificate) bool {
	m.o.add('m', int(c.SerialNumber.Int64())-100, -1)
	return true
}
func (m matcher) PrecertificateMatches(p *ct.Precertificate) bool {
	id := -1
	if p.TBSCertificate != nil {
		id = int(p.TBSCertificate.SerialNumber.Int64()) - 100
	}
	m.o.add('q', id, -1)
	return true
}

// rt serves the model log. Each get-entries answer is an environment choice.
type rt struct {
	sc scenario
	o  *obs
}

func (r *rt) RoundTrip(req *http.Request) (*http.Response, error) {
	vsched.Point(vsched.KOther, nil) // network I/O is a scheduling point
	mk := func(code int, body string) *http.Response {
		return &http.Response{StatusCode: code, Status: fmt.Sprintf("%d %s", code, http.StatusText(code)), Body: io.NopCloser(strings.NewReader(body)), Header: http.Header{}, Request: req}
	}
	if strings.HasSuffix(req.URL.Path, "get-sth") {
		root := base64.StdEncoding.EncodeToString(make([]byte, 32))
		sig := base64.StdEncoding.EncodeToString([]byte{4, 3, 0, 2, 1, 2})
		return mk(200, fmt.Sprintf(`{"tree_size":%d,"timestamp":1,"sha256_root_hash":"%s","tree_head_signature":"%s"}`, r.sc.stop0(), root, sig)), nil
	}
	var start, end int64
	fmt.Sscanf(req.URL.RawQuery, "start=%d&end=%d", &start, &end)
	if end >= int64(r.sc.N) {
		end = int64(r.sc.N) - 1
	}
	n := int(end - start + 1)
	if n <= 0 {
		r.o.answer("empty-range")
		return mk(400, "bad range"), nil
	}
	// alternatives: 0 = all n entries; 1..n-1 = proper non-empty prefix of that length; n = HTTP 500; n+1 = transport error
	c := vsched.Choose(n + 2)
	switch {
	case c == n:
		r.o.answer("500")
		return mk(500, "oops"), nil
	case c == n+1:
		r.o.answer("neterr")
		return nil, errors.New("model transport error")
	}
	k := n
	if c > 0 {
		k = c
	}
	r.o.answer(fmt.Sprintf("%d/%d", k, n))
	var es []string
	for i := 0; i < k; i++ {
		e := model[int(start)+i]
		es = append(es, fmt.Sprintf(`{"leaf_input":"%s","extra_data":"%s"}`, base64.StdEncoding.EncodeToString(e.leaf), base64.StdEncoding.EncodeToString(e.extra)))
	}
	return mk(200, `{"entries":[`+strings.Join(es, ",")+`]}`), nil
}

var quietLogger = func() *log.Logger {
	l := log.New()
	l.SetOutput(io.Discard)
	l.SetLevel(log.PanicLevel)
	return l
}()

func runOnce(sc scenario, prefix []int) (vsched.Result, *obs) {
	o := &obs{}
	res := vsched.Run(prefix, func() {
		lc := client.NewWithHTTPClient("http://log.example/", &http.Client{Transport: &rt{sc, o}})
		opts := scanner.ScannerOptions{Matcher: matcher{o}, PrecertOnly: sc.PreOnly, BatchSize: sc.Batch, NumWorkers: sc.Workers,
			ParallelFetch: sc.Fetchers, StartIndex: sc.Start, MaximumIndex: sc.Max, Quiet: true, Name: "model", IgnoreParsingErrors: sc.IgnoreErr}
		s := scanner.NewScanner(lc, opts, quietLogger)
		var upd chan int64
		switch sc.Updater {
		case 1:
			upd = make(chan int64, 8)
		case 2:
			// the scheduler model has no rendezvous channels: the closest to "unbuffered with a consumer" is one slot
			// and a consumer thread (parked in the receive when Scan returns; unwound with the execution)
			upd = make(chan int64, 1)
			vsched.Go(func() {
				for {
					v, ok := vsched.Recv2(upd)
					if !ok {
						return
					}
					o.addUpd(v)
				}
			})
		}
		ret, err := s.Scan(func(e *ct.LogEntry, _ string) {
			o.add('c', int(e.Leaf.TimestampedEntry.Timestamp)-0x1000, e.Index)
		}, func(e *ct.LogEntry, _ string) {
			o.add('p', int(e.Leaf.TimestampedEntry.Timestamp)-0x1000, e.Index)
		}, upd)
		o.ret = ret
		if err != nil {
			o.err = err.Error()
		}
		o.ctr = s.VerifC17Counters()
		o.counted = true
		if upd != nil {
			// what is still buffered (the progress goroutine never closes the channel)
			for {
				v, _, sel := vsched.TryRecv(upd)
				if !sel {
					break
				}
				o.addUpd(v)
			}
		}
		o.done = true
	})
	return res, o
}

// judge applies the oracle to one execution; it returns "" or a violation class + detail.
func judge(sc scenario, res vsched.Result, o *obs) (string, string) {
	if res.Panic != "" {
		return "panic in scanner thread: " + ev.MsgClass(res.Panic), fmt.Sprintf("thread %d", res.PanicThread)
	}
	if res.Deadlock {
		return "Scan deadlocks (no thread can run, Scan has not returned)", res.DeadInfo
	}
	if res.Horizon {
		return "Scan does not terminate within the step horizon", ""
	}
	if !o.done {
		return "Scan did not return", ""
	}
	if o.err != "" {
		return "Scan returned an error: " + ev.MsgClass(o.err), ""
	}
	stop := sc.stop()
	inRange := int64(0)
	if stop > sc.Start {
		inRange = stop - sc.Start
	}
	if want := sc.Start + inRange; o.ret != want {
		return "Scan return value is not start index + entries processed", fmt.Sprintf("returned %d, want %d", o.ret, want)
	}
	// expected multiset of observations: [min,max] deliveries per (callback, entry)
	type key struct {
		w  byte
		id int
	}
	got := map[key]int{}
	for i := 0; i < o.n; i++ {
		got[key{o.what[i], o.id[i]}]++
		if (o.what[i] == 'c' || o.what[i] == 'p') && o.idx[i] != int64(o.id[i]) {
			return "entry handed over with a wrong index", fmt.Sprintf("entry %d reported with index %d", o.id[i], o.idx[i])
		}
	}
	type span struct{ min, max int }
	want := map[key]span{}
	one := span{1, 1}
	// expected counters: certsProcessed exact; the others [min,max] (where the documentation leaves a point open)
	var ctrMin, ctrMax [4]int64
	ctrMin[0], ctrMax[0] = inRange, inRange
	bump := func(i int, lo, hi int64) { ctrMin[i] += lo; ctrMax[i] += hi }
	for i := sc.Start; i < stop; i++ {
		k := model[i].kind
		isX509 := k == 'X' || k == 'N' || k == 'U' || k == 'V'
		if isX509 && sc.PreOnly {
			continue // "match precerts only": x509 entries are counted as processed and skipped
		}
		switch k {
		case 'X', 'N':
			want[key{'m', int(i)}] = one
			want[key{'c', int(i)}] = one
			if k == 'N' {
				bump(3, 1, 1)
			}
		case 'U':
			bump(2, 1, 1)
			if sc.IgnoreErr {
				// "always output encountered certificates, so long as they are valid ASN.1": a well-formed TLV that
				// is not shaped like a certificate may or may not count as such; never more than once, never matched
				want[key{'c', int(i)}] = span{0, 1}
			}
		case 'V':
			bump(2, 1, 1)
			if sc.IgnoreErr {
				want[key{'c', int(i)}] = one
			}
		case 'P':
			want[key{'q', int(i)}] = one
			want[key{'p', int(i)}] = one
			bump(1, 1, 1)
		case 'Q':
			bump(2, 1, 1)
			bump(1, 0, 1) // "precertificates encountered": whether an unparsable one counts is not specified
		case 'W':
			bump(2, 1, 1)
			if sc.IgnoreErr {
				want[key{'p', int(i)}] = one
				bump(1, 1, 1)
			} else {
				bump(1, 0, 1)
			}
		}
	}
	for k, w := range want {
		if got[k] < w.min {
			return "an entry of the scanned range was never handed to the matcher/callback", fmt.Sprintf("entry %d (%c, kind %c): got %d want %d", k.id, k.w, model[k.id].kind, got[k], w.min)
		}
	}
	for k, n := range got {
		if n > want[k].max {
			if want[k].max == 0 {
				kind := byte('?')
				if k.id >= 0 && k.id < len(model) {
					kind = model[k.id].kind
				}
				return "an entry outside the expected set was handed to the matcher/callback", fmt.Sprintf("entry %d (%c, kind %c) x%d", k.id, k.w, kind, n)
			}
			return "an entry was handed to the matcher/callback more than once", fmt.Sprintf("entry %d (%c): got %d want %d", k.id, k.w, n, want[k].max)
		}
	}
	// counter values after Scan
	if !o.counted {
		return "counters could not be read", ""
	}
	names := [4]string{"certsProcessed", "precertsSeen", "unparsableEntries", "entriesWithNonFatalErrors"}
	for i := range names {
		if o.ctr[i] < ctrMin[i] || o.ctr[i] > ctrMax[i] {
			return "counter " + names[i] + " does not match the entries of the scanned range", fmt.Sprintf("%s=%d, want %d..%d (counters %v, kinds %s range [%d,%d))", names[i], o.ctr[i], ctrMin[i], ctrMax[i], o.ctr, sc.kinds(), sc.Start, stop)
		}
	}
	// progress values: start index + entries processed so far, hence never decreasing and within [start, stop]
	if o.nupd > len(o.upd) {
		return "more progress values than the model can hold", fmt.Sprint(o.nupd)
	}
	for i := 0; i < o.nupd; i++ {
		v := o.upd[i]
		if i > 0 && v < o.upd[i-1] {
			return "progress values sent to the updater channel decrease", fmt.Sprint(o.upd[:o.nupd])
		}
		if sc.Start <= stop && (v < sc.Start || v > stop) {
			return "progress value sent to the updater channel is outside [start index, end index]", fmt.Sprintf("%v, range [%d,%d]", o.upd[:o.nupd], sc.Start, stop)
		}
	}
	return "", ""
}

// canary: the race build must flag an unsynchronised counter and must not flag a mutex-protected one.
func canary(job string) {
	raceLog := os.Getenv("VX_RACELOG")
	count := func(locked bool) int {
		st := vx.Explore(vx.Options{PreemptBound: 1, RaceLog: raceLog}, func(prefix []int) (vsched.Result, any) {
			x := 0
			var mu vsched.Mutex
			var wg vsched.WaitGroup
			return vsched.Run(prefix, func() {
				wg.Add(2)
				for i := 0; i < 2; i++ {
					vsched.Go(func() {
						if locked {
							mu.Lock()
						}
						canaryCounter(&x)
						if locked {
							mu.Unlock()
						}
						wg.Done()
					})
				}
				wg.Wait()
			}), nil
		}, func(x *vx.Exec) bool { return true })
		return st.Races
	}
	racy := count(false)
	locked := count(true)
	if racy > 1 {
		racy = 1
	}
	out := vx.WorkerOut{Job: job, Races: []string{fmt.Sprintf("canary: racy=%d locked=%d", racy, locked)}}
	b, _ := json.Marshal(out)
	fmt.Println(string(b))
}

//go:noinline
func canaryCounter(p *int) { *p++ }

func worker(job string) {
	debug.SetGCPercent(2000) // executions allocate short-lived channel buffers; GC/scavenger work would dominate
	if pf := os.Getenv("C17_PROFILE"); pf != "" {
		var sc scenario
		json.Unmarshal([]byte(job), &sc)
		buildModel(sc.kinds())
		f, _ := os.Create(pf)
		pprof.StartCPUProfile(f)
		t0 := time.Now()
		for i := 0; i < 2000; i++ {
			runOnce(sc, nil)
		}
		pprof.StopCPUProfile()
		f.Close()
		fmt.Println("2000 executions in", time.Since(t0))
		return
	}
	if os.Getenv("C17_CANARY") == "1" {
		canary(job)
		return
	}
	var sc scenario
	if err := json.Unmarshal([]byte(job), &sc); err != nil {
		fmt.Println(`{"job":"?","broken":"bad job"}`)
		return
	}
	buildModel(sc.kinds())
	out := vx.WorkerOut{Job: job, Outcomes: map[string]int64{}, Bound: -1}
	raceLog := ""
	if sc.Race {
		raceLog = os.Getenv("VX_RACELOG")
	}
	repo := os.Getenv("VERIF_REPO_DIR")
	if repo == "" {
		repo = "/repo"
	}
	seen := map[string]bool{}
	stopEarly := false
	deadline := time.Now().Add(scaled(100 * time.Second))
	if os.Getenv("VERIF_TIER") == "thorough" {
		deadline = time.Now().Add(scaled(20 * time.Minute))
	}
	// the parent also gives every pass an absolute end (a pass with more jobs than cores runs them in waves):
	// past it a job stops with what it has completed (reported as incomplete, never as a verdict)
	if ms, err := strconv.ParseInt(os.Getenv("VX_PASS_END_UNIXMS"), 10, 64); err == nil && ms > 0 {
		if end := time.UnixMilli(ms); end.Before(deadline) {
			deadline = end
		}
	}
	for b := 0; b <= sc.PB; b++ {
		st := vx.Explore(vx.Options{PreemptBound: b, EnvBound: sc.EB, MaxExecs: sc.MaxExecs, Deadline: deadline, RaceLog: raceLog},
			func(prefix []int) (vsched.Result, any) { r, o := runOnce(sc, prefix); return r, o },
			func(x *vx.Exec) bool {
				o := x.Obs.(*obs)
				cls, detail := judge(sc, x.Result, o)
				if x.Result.Stragglers > 0 {
					out.Broken = "threads could not be unwound"
					return false
				}
				answers := strings.Join(o.answers[:min(o.reqs, len(o.answers))], ",")
				if x.Result.Horizon {
					stopEarly = true // a livelocked execution has thousands of choice points: its alternatives say nothing more
				}
				if cls != "" {
					if !seen[cls] {
						seen[cls] = true
						out.Violations = append(out.Violations, vx.WorkerViol{Sig: cls, Witness: map[string]any{"scenario": sc, "schedule": x.Choices, "detail": detail, "server_answers": answers, "preemptions": x.Preempt, "faults": x.EnvDev}})
					}
					out.Outcomes["VIOLATION: "+cls]++
				} else {
					out.Outcomes[fmt.Sprintf("ok faults=%d", x.EnvDev)]++
					if o.nupd > 0 {
						distinct := 1
						for i := 1; i < o.nupd && i < len(o.upd); i++ {
							if o.upd[i] != o.upd[i-1] {
								distinct++
							}
						}
						out.Outcomes[fmt.Sprintf("ok with %d progress value(s) received, %d distinct", o.nupd, distinct)]++
					}
				}
				if x.RaceNew != "" {
					for _, r := range vx.ParseRaces(x.RaceNew, repo) {
						if !r.InRepo {
							continue
						}
						sig := "data race: " + r.Summary
						if !seen[sig] {
							seen[sig] = true
							out.Races = append(out.Races, r.Summary)
							out.Violations = append(out.Violations, vx.WorkerViol{Sig: sig, Witness: map[string]any{"scenario": sc, "schedule": x.Choices, "server_answers": answers, "report": clip(x.RaceNew, 1500)}})
						}
					}
				}
				if len(out.Samples) < 2 && x.EnvDev > 0 {
					out.Samples = append(out.Samples, map[string]any{"scenario": sc, "schedule": x.Choices, "server_answers": answers, "points": len(x.Result.Points), "steps": x.Result.Steps})
				}
				return !stopEarly
			})
		out.Stats.Execs += st.Execs
		out.Stats.Points += st.Points
		out.Stats.Steps += st.Steps
		if st.MaxPoints > out.Stats.MaxPoints {
			out.Stats.MaxPoints = st.MaxPoints
		}
		out.Stats.Deadlocks += st.Deadlocks
		out.Stats.Horizons += st.Horizons
		out.Stats.Races += st.Races
		if !st.Complete {
			break
		}
		out.Bound = b
		out.Stats.Complete = b == sc.PB
	}
	b, _ := json.Marshal(out)
	fmt.Println(string(b))
}

func clip(s string, n int) string {
	if len(s) > n {
		return s[:n]
	}
	return s
}

// scenarios lists the explored spaces. Sizes (executions) at PB=1/EB=1 measured on the unchanged tree:
// fetchers=1,workers=1: ~6k; f=1,w=2 or f=2,w=1: 70k-150k; f=2,w=2: > 300k. The quick tier therefore
// explores the small and medium spaces completely at (1,1) and the largest ones at (1,0) and (0,1);
// the thorough tier goes to (2,1)/(1,2) for the small ones and (1,1) for all.
func scenarios(thorough, race bool) []scenario {
	var out []scenario
	add := func(n int, batch int64, f, w, pb, eb int, tweak func(*scenario)) {
		s := scenario{N: n, Batch: batch, Fetchers: f, Workers: w, PB: pb, EB: eb, Updater: 1}
		if tweak != nil {
			tweak(&s)
		}
		out = append(out, s)
	}
	if race {
		// ThreadSanitizer judges each schedule by happens-before, so low bounds already expose unordered accesses
		ns := []int{3}
		if thorough {
			ns = []int{3, 4}
		}
		for _, n := range ns {
			for _, batch := range []int64{1, 2, int64(n) + 1} {
				for _, f := range []int{1, 2} {
					for _, w := range []int{1, 2} {
						add(n, batch, f, w, 0, 1, nil)
					}
				}
			}
		}
		if !thorough {
			add(4, 2, 1, 2, 0, 1, nil)
			add(4, 1, 2, 2, 0, 1, func(s *scenario) { s.Kinds = "XPUX" }) // (second x509 entry at index 3; was the default log "XPUP")
		}
		add(3, 3, 1, 2, 0, 2, nil) // two back-offs (NB the 1 s progress ticker needs THREE: a sleeper due at the same instant wins the tie against the timer)
		if thorough {
			add(3, 2, 2, 2, 0, 2, nil) // 38k schedules under TSan (27k even on a 2-entry log): thorough only since the strengthening
			add(3, 3, 1, 2, 0, 3, nil) // three back-offs: the progress goroutine ticks once
		}
		add(3, 3, 1, 2, 1, 0, nil)
		add(3, 3, 2, 1, 1, 0, nil)
		if thorough {
			add(4, 2, 2, 2, 0, 2, nil)
			add(4, 2, 1, 2, 1, 0, nil)
			add(3, 1, 2, 2, 1, 0, nil)
		}
		add(4, 3, 2, 2, 0, 1, func(s *scenario) { s.PreOnly = true })
		add(3, 2, 2, 2, 0, 1, func(s *scenario) { s.Updater = 0 })
		if thorough {
			add(4, 2, 1, 2, 1, 1, nil)
			add(3, 1, 2, 2, 1, 1, nil)
			add(3, 3, 1, 2, 1, 2, nil)
		}
		// strengthening: IgnoreParsingErrors, all entry kinds, updater with a consumer, second x509 entry, degenerate ranges
		// (under ThreadSanitizer an execution costs 3-10 ms: two matchers for the counters, one fetcher; 2x2 in thorough)
		add(4, 2, 1, 2, 0, 1, func(s *scenario) { s.Kinds, s.IgnoreErr = "XVWU", true })
		add(4, 2, 1, 2, 0, 1, func(s *scenario) { s.Kinds = "NVQW" })
		// three faults = three 500 ms back-offs: the 1 s ticker of the progress goroutine fires (once) while the scan is running
		add(3, 3, 1, 1, 0, 3, func(s *scenario) { s.Updater = 2 }) // (with two matchers: 92k schedules, thorough)
		add(3, 1, 1, 1, 0, 3, func(s *scenario) { s.Start, s.Updater = 1, 2 })
		add(3, 2, 2, 1, 1, 0, func(s *scenario) { s.Start = 3 })
		add(4, 2, 2, 1, 0, 1, func(s *scenario) { s.Sth, s.Max = 2, 4 })
		if thorough {
			add(4, 1, 2, 2, 0, 1, func(s *scenario) { s.Kinds = "XPUX" })
			add(4, 2, 2, 2, 0, 1, func(s *scenario) { s.Kinds, s.IgnoreErr = "XVWU", true })
			add(4, 2, 2, 2, 0, 1, func(s *scenario) { s.Kinds = "NVQW" })
			add(4, 2, 2, 2, 0, 1, func(s *scenario) { s.Sth, s.Max = 2, 4 })
			add(3, 1, 1, 1, 0, 5, func(s *scenario) { s.Start, s.Updater = 1, 2 })
			add(4, 2, 2, 2, 1, 0, func(s *scenario) { s.Kinds, s.IgnoreErr = "XVWU", true })
			add(4, 2, 1, 2, 1, 1, func(s *scenario) { s.Kinds = "XPUX" })
			add(3, 1, 1, 1, 1, 3, func(s *scenario) { s.Start, s.Updater = 1, 2 })
			add(3, 3, 1, 2, 0, 3, func(s *scenario) { s.Updater = 2 })
		}
		return out
	}
	for _, batch := range []int64{1, 2, 4} {
		add(3, batch, 1, 1, 1, 1, nil)
	}
	add(4, 1, 1, 1, 1, 1, nil)
	add(4, 2, 1, 1, 1, 1, nil)
	add(3, 4, 1, 2, 1, 1, nil)
	add(3, 1, 2, 1, 1, 1, nil)
	add(4, 2, 1, 2, 1, 0, nil)
	add(4, 2, 1, 2, 0, 1, nil)
	for _, nb := range [][2]int64{{3, 2}, {4, 2}, {4, 5}, {3, 1}} {
		if thorough {
			add(int(nb[0]), nb[1], 2, 2, 1, 0, nil)
		}
		add(int(nb[0]), nb[1], 2, 2, 0, 1, nil)
	}
	// (two fetchers x two matchers under one preemption is 230k-260k schedules even on a 2-entry log: it was the longest
	// job of the quick tier and now runs in thorough only, to make room for the scenarios below; quick keeps 2x2 at
	// PB=0 with 1 and 2 faults, and 1x2 / 2x1 at PB=1)
	// option axes
	add(4, 2, 2, 1, 1, 0, func(s *scenario) { s.Start = 1 })
	add(4, 2, 2, 1, 0, 1, func(s *scenario) { s.Start = 1 })
	add(4, 2, 1, 2, 1, 0, func(s *scenario) { s.Max = 3 })
	add(4, 2, 1, 2, 0, 1, func(s *scenario) { s.Max = 3 })
	add(4, 3, 2, 1, 1, 0, func(s *scenario) { s.PreOnly = true })
	add(4, 3, 2, 2, 0, 1, func(s *scenario) { s.PreOnly = true })
	add(3, 2, 1, 2, 1, 0, func(s *scenario) { s.Updater = 0 })
	add(3, 2, 2, 2, 0, 1, func(s *scenario) { s.Updater = 0 })
	add(4, 2, 1, 1, 1, 1, func(s *scenario) { s.Start, s.Max = 1, 3 })
	// three faults, no preemption: the 1 s progress ticker fires when the third 500 ms back-off begins (with two
	// back-offs it never does: the sleeper due at t = 1 s wins the tie against the timer and the scan then runs to its end)
	add(3, 3, 1, 2, 0, 3, nil)
	add(4, 2, 2, 2, 0, 2, nil)
	// more fetch ranges than the range queue holds (the source's make(chan fetchRange, 1000) is capped at 256 by the
	// rewriter, a model reduction): 300 entries in batches of 1 = 300 ranges. Anything that fills the queue before its
	// consumers run (or never drains it) deadlocks here; one schedule, no faults.
	add(300, 1, 1, 1, 0, 0, func(s *scenario) { s.Kinds = strings.Repeat("XPUP", 75) })
	// ---- strengthening ----
	// IgnoreParsingErrors on/off over all entry kinds (see the table at the top); counters are asserted in every scenario
	add(4, 2, 1, 2, 1, 0, func(s *scenario) { s.Kinds, s.IgnoreErr = "XVWU", true })
	add(4, 2, 2, 1, 0, 1, func(s *scenario) { s.Kinds, s.IgnoreErr = "XVWU", true })
	add(4, 2, 1, 2, 1, 0, func(s *scenario) { s.Kinds = "NVQW" })
	add(4, 2, 2, 1, 0, 1, func(s *scenario) { s.Kinds = "NVQW" })
	add(4, 4, 1, 1, 1, 1, func(s *scenario) { s.Kinds, s.IgnoreErr, s.PreOnly = "NVQW", true, true })
	add(4, 1, 1, 1, 1, 1, func(s *scenario) { s.Kinds, s.IgnoreErr = "UVNW", true })
	// a second x509 entry at index 3
	add(4, 2, 1, 2, 1, 0, func(s *scenario) { s.Kinds = "XPUX" })
	add(4, 1, 2, 2, 0, 1, func(s *scenario) { s.Kinds = "XPUX" })
	add(4, 2, 1, 1, 1, 1, func(s *scenario) { s.Kinds = "XPUX" })
	// updater channel with a consumer thread; three faults = one tick of the progress goroutine, five faults = two ticks
	// (the second with a larger value when an entry was processed in between)
	add(3, 3, 1, 1, 0, 3, func(s *scenario) { s.Updater = 2 })
	add(3, 1, 1, 1, 0, 5, func(s *scenario) { s.Start, s.Updater = 1, 2 })
	if thorough {
		add(3, 3, 1, 2, 0, 3, func(s *scenario) { s.Updater = 2 }) // 92k schedules
		add(3, 2, 1, 1, 1, 3, func(s *scenario) { s.Updater = 2 }) // 326k schedules
	}
	// degenerate ranges: start == stop, start > stop
	add(3, 2, 2, 1, 1, 1, func(s *scenario) { s.Start = 3 })
	add(3, 2, 1, 2, 1, 1, func(s *scenario) { s.Start, s.Max = 2, 2 })
	add(3, 2, 1, 1, 1, 1, func(s *scenario) { s.Start, s.Max = 3, 1 })
	if thorough {
		add(3, 2, 2, 2, 1, 1, func(s *scenario) { s.Start = 3 })
	}
	// MaximumIndex beyond the tree size of the STH (the log has grown to N since), and an STH smaller than the log
	add(4, 2, 1, 2, 1, 0, func(s *scenario) { s.Sth, s.Max = 2, 4 })
	add(4, 2, 2, 1, 0, 1, func(s *scenario) { s.Sth, s.Max = 2, 3 })
	add(4, 2, 1, 1, 1, 1, func(s *scenario) { s.Sth = 2 })
	if thorough {
		add(4, 2, 2, 2, 1, 0, func(s *scenario) { s.Kinds, s.IgnoreErr = "XVWU", true })
		add(4, 2, 1, 2, 1, 1, func(s *scenario) { s.Kinds, s.IgnoreErr = "XVWU", true })
		add(4, 2, 1, 2, 1, 1, func(s *scenario) { s.Kinds = "NVQW" })
		add(4, 2, 1, 2, 1, 1, func(s *scenario) { s.Kinds = "XPUX" })
		add(4, 1, 2, 2, 1, 0, func(s *scenario) { s.Kinds = "XPUX" })
		add(3, 1, 1, 2, 1, 3, func(s *scenario) { s.Start, s.Updater = 1, 2 })
		add(4, 2, 2, 2, 1, 0, func(s *scenario) { s.Sth, s.Max = 2, 4 })
		add(4, 2, 1, 2, 1, 1, nil)
		add(3, 2, 1, 1, 2, 1, nil)
		add(3, 2, 1, 1, 1, 2, nil)
		add(4, 2, 1, 1, 2, 1, nil)
		add(3, 1, 1, 2, 1, 1, nil)
		add(4, 1, 1, 2, 1, 1, nil)
		add(4, 1, 2, 1, 1, 1, nil)
		for _, nb := range [][2]int64{{3, 2}, {4, 2}, {4, 5}, {3, 1}} {
			add(int(nb[0]), nb[1], 2, 2, 1, 1, nil)
		}
		add(4, 3, 2, 2, 1, 1, func(s *scenario) { s.PreOnly = true })
		add(4, 2, 2, 1, 1, 1, func(s *scenario) { s.Start = 1 })
		add(3, 2, 2, 2, 1, 1, func(s *scenario) { s.Updater = 0 })
	}
	return out
}

// scaled stretches the wall-clock budgets (which only ever turn a run into "incomplete", never into a
// verdict) by VERIF_TIME_SCALE, for runs on a machine that is shared and loaded.
func scaled(d time.Duration) time.Duration {
	if f, err := strconv.ParseFloat(os.Getenv("VERIF_TIME_SCALE"), 64); err == nil && f >= 1 && f <= 100 {
		return time.Duration(float64(d) * f)
	}
	return d
}

// byCost orders the scenarios so that the expensive ones start first (a heuristic from the measured sizes:
// threads x bounds x number of ranges); the order has no influence on what is explored.
func byCost(scs []scenario) []scenario {
	cost := func(s scenario) int64 {
		ranges := int64(1)
		if n := s.stop() - s.Start; n > 0 && s.Batch > 0 {
			ranges = (n + s.Batch - 1) / s.Batch
		}
		c := int64(s.Fetchers*s.Fetchers*s.Workers*s.Workers) * int64(1+4*s.PB) * int64(1+s.EB) * ranges
		if s.Updater == 2 {
			c *= 2
		}
		return c
	}
	out := append([]scenario(nil), scs...)
	sort.SliceStable(out, func(a, b int) bool { return cost(out[a]) > cost(out[b]) })
	return out
}

func main() {
	for i, a := range os.Args {
		if a == "-worker" && i+1 < len(os.Args) {
			worker(os.Args[i+1])
			return
		}
	}
	_ = flag.CommandLine
	ev.Main("C17", "model_checking", func(c *ev.Ctx) {
		thorough := !c.Quick()
		c.Rule("stateless model checking of the real scanner.Scan + LogClient under a cooperative scheduler: per scenario (log of <= 4 entries of the kinds {x509 clean, x509 with non-fatal parse errors, x509 not shaped like a certificate, x509 certificate-shaped but unparsable, precert, precert with an unparsable TBS, precert whose TBS is certificate-shaped but unparsable}, batch size, 1-2 fetchers, 1-2 matchers, start/max index incl. start >= stop and MaximumIndex beyond the STH tree size (log grown since), STH smaller than the log, precert-only, IgnoreParsingErrors, updater nil / buffered / one slot with a consumer thread) every schedule with <= PB preemptions x every server answer pattern (all entries / each non-empty proper prefix / HTTP 500 / transport error per get-entries request) with <= EB non-default answers (bounds per scenario in per_scenario; quick: PB<=1, EB<=2, and 3 / 5 in the scenarios that make the 1 s progress ticker fire once / twice: three 500 ms back-offs are needed for one tick); a second pass in a -race build lets ThreadSanitizer judge each explored schedule. " +
			"Oracle per execution: no panic, deadlock or livelock; Scan returns start + number of entries in [start, stop); every entry of the range reaches matcher and callback exactly once with its own index (unparsable ones: dropped, or with IgnoreParsingErrors handed to the callback without the matcher when certificate-shaped; where the documentation is ambiguous both are accepted, never twice); after Scan certsProcessed, precertsSeen, unparsableEntries, entriesWithNonFatalErrors equal the counts derived from the model log; the values received from the updater channel never decrease and lie in [start, stop]. A worker process that dies with a Go runtime fatal error / unrecovered panic in the code under test is a violation (worker crash). states = executions; non-trivial = executions with at least one choice point.")
		c.Assume("scheduling points: every sync.Mutex/WaitGroup/atomic/channel/go/time operation of ct/scanner/scanner.go (source rewritten onto shims at build time) and every HTTP round trip",
			"the scheduler hand-off is invisible to ThreadSanitizer (plain word spin in //go:norace code), so a race report concerns only the program's own synchronisation",
			"virtual time advances only when no thread can run (timers fire at quiescence): the progress goroutine only ticks while every other thread is blocked (back-off sleeps)",
			"the scheduler model has no rendezvous channels: the unbuffered updater channel is approximated by one slot plus a consumer thread",
			"a request for indices beyond the log (MaximumIndex larger than what the server holds) is outside the property's server hypothesis (the fetcher retries for ever by design) and not explored")
		self, _ := os.Executable()
		raceBin := os.Getenv("C17_RACE_BIN")
		scs := byCost(scenarios(thorough, false))
		if c.Replay != nil {
			var w struct {
				Scenario scenario `json:"scenario"`
				Schedule []int    `json:"schedule"`
			}
			if err := json.Unmarshal(c.Replay, &w); err != nil {
				c.Broken("bad witness: %v", err)
			}
			buildModel(w.Scenario.kinds())
			res, o := runOnce(w.Scenario, w.Schedule)
			res2, o2 := runOnce(w.Scenario, w.Schedule)
			if fmt.Sprint(res.Points) != fmt.Sprint(res2.Points) || *o != *o2 {
				c.Broken("replay is not deterministic")
			}
			if cls, detail := judge(w.Scenario, res, o); cls != "" {
				c.Violation(cls, map[string]any{"scenario": w.Scenario, "schedule": w.Schedule, "detail": detail})
			}
			c.States.Add(1)
			c.Transitions.Add(int64(res.Steps))
			fmt.Println("replayed: points", len(res.Points), "steps", res.Steps, "deadlock", res.Deadlock)
			return
		}
		var jobs []string
		for _, s := range scs {
			jobs = append(jobs, s.String())
		}
		perJob := scaled(140 * time.Second)
		if thorough {
			perJob = scaled(24 * time.Minute)
		}
		t0 := time.Now()
		passLen := scaled(70 * time.Second)
		if thorough {
			passLen = scaled(12 * time.Minute)
		}
		passEnd := func() string { return fmt.Sprintf("VX_PASS_END_UNIXMS=%d", time.Now().Add(passLen).UnixMilli()) }
		outs := vx.RunWorkers(self, []string{"VERIF_TIER=" + c.Tier, passEnd()}, jobs, c.Workers(), perJob)
		c.Set("sched_pass_wall_s", int(time.Since(t0).Seconds()))
		perScenario := map[string]any{}
		defer func() { c.Set("per_scenario", perScenario) }()
		merge := func(outs []vx.WorkerOut, tag string) {
			for _, o := range outs {
				if o.Broken != "" {
					// a worker that died without a result: a crash of the code under test under some schedule is a
					// verdict (the scenario is the witness); a kill on timeout / out of memory says nothing (incomplete)
					repo := os.Getenv("VERIF_REPO_DIR")
					if repo == "" {
						repo = "/repo"
					}
					if cls := vx.CrashClass(o.Stderr, repo); cls != "" {
						var sc scenario
						json.Unmarshal([]byte(o.Job), &sc)
						c.Violation("worker crash: "+cls, map[string]any{"scenario": sc, "schedule": []int{}, "pass": tag, "stderr": clip(o.Stderr, 1500)})
						c.Outcome(tag+" worker crashed: "+cls, 1)
						continue
					}
					c.Incomplete(tag + " worker: " + o.Broken)
					c.Outcome(tag+" worker broken", 1)
					continue
				}
				c.States.Add(int64(o.Stats.Execs))
				c.Traces.Add(int64(o.Stats.Execs))
				c.Transitions.Add(o.Stats.Steps)
				c.Evaluations.Add(int64(o.Stats.Execs))
				c.Add(tag+"_choice_points", o.Stats.Points)
				perScenario[tag+" "+o.Job] = map[string]any{"executions": o.Stats.Execs, "max_choice_points": o.Stats.MaxPoints, "bound_completed": o.Bound, "complete": o.Stats.Complete}
				for k, n := range o.Outcomes {
					c.Outcome(tag+" "+k, n)
				}
				for _, v := range o.Violations {
					c.Violation(v.Sig, v.Witness)
				}
				for _, s := range o.Samples {
					c.Sample(s)
				}
				if !o.Stats.Complete {
					c.Incomplete(fmt.Sprintf("%s scenario %s: only preemption bound %d completed", tag, o.Job, o.Bound))
				}
			}
		}
		merge(outs, "sched")
		c.Set("scenarios", len(jobs))
		c.Set("race_scenarios", len(scenarios(thorough, true)))
		// race pass
		if raceBin == "" {
			c.Broken("race binary not built (C17_RACE_BIN unset)")
		}
		os.MkdirAll(filepath.Join(ev.VerifDir, ".work"), 0o755)
		raceLog := filepath.Join(ev.VerifDir, ".work", fmt.Sprintf("c17-race-%d", os.Getpid()))
		// canary: the race build must report an unsynchronised counter and must not report a mutex-protected one
		can := vx.RunWorkers(raceBin, []string{"GORACE=log_path=" + raceLog + " halt_on_error=0", "VX_RACELOG=" + raceLog, "C17_CANARY=1"}, []string{`{"n":0}`}, 1, 300*time.Second)
		if len(can) != 1 || can[0].Broken != "" || len(can[0].Races) != 1 || can[0].Races[0] != "canary: racy=1 locked=0" {
			c.Broken("race canary failed: %+v", can)
		}
		var rjobs []string
		for _, s := range byCost(scenarios(thorough, true)) {
			s.Race = true
			rjobs = append(rjobs, s.String())
		}
		t1 := time.Now()
		routs := vx.RunWorkers(raceBin, []string{"GORACE=log_path=" + raceLog + " halt_on_error=0", "VX_RACELOG=" + raceLog, "VERIF_TIER=" + c.Tier, passEnd()}, rjobs, c.Workers(), perJob)
		c.Set("race_pass_wall_s", int(time.Since(t1).Seconds()))
		merge(routs, "race")
		matches, _ := filepath.Glob(raceLog + ".*")
		for _, m := range matches {
			os.Remove(m)
		}
		c.Distinct.Store(c.States.Load())
		var keys []string
		for _, o := range append(outs, routs...) {
			keys = append(keys, fmt.Sprintf("%d", o.Stats.MaxPoints))
		}
		sort.Strings(keys)
		c.Set("max_choice_points_per_execution", keys[len(keys)-1])
		_ = big.NewInt
	})
}
