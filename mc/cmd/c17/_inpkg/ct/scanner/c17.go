package scanner

import "sync/atomic"

// VerifC17Counters returns the scanner's four counters (certsProcessed, precertsSeen,
// unparsableEntries, entriesWithNonFatalErrors) as they stand; the C17 harness calls it after
// Scan has returned.
func (s *Scanner) VerifC17Counters() [4]int64 {
	return [4]int64{
		atomic.LoadInt64(&s.certsProcessed),
		atomic.LoadInt64(&s.precertsSeen),
		atomic.LoadInt64(&s.unparsableEntries),
		atomic.LoadInt64(&s.entriesWithNonFatalErrors),
	}
}
