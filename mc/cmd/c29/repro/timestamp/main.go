// Reproducer for C29 finding (a): ClientFingerprintConfiguration.InsertTimestamp
// writes 00000000 instead of the Unix time into ClientHello.random[0:4].
//
//	cd /verif/mc && GOFLAGS=-mod=mod GOPROXY=off go run ./cmd/c29/repro/timestamp
//
// Public API only. Exit status 1 = defect present.
package main

import (
	"encoding/binary"
	"fmt"
	"io"
	"net"
	"os"
	"time"

	"github.com/zmap/zcrypto/tls"
)

func main() {
	cli, srv := net.Pipe()
	got := make(chan []byte, 1)
	go func() {
		hdr := make([]byte, 5)
		if _, err := io.ReadFull(srv, hdr); err != nil {
			got <- nil
			return
		}
		body := make([]byte, int(hdr[3])<<8|int(hdr[4]))
		io.ReadFull(srv, body)
		srv.Close()
		got <- body
	}()
	cfg := &tls.Config{ServerName: "srv.example", ClientFingerprintConfiguration: &tls.ClientFingerprintConfiguration{
		HandshakeVersion:   tls.VersionTLS12,
		InsertTimestamp:    true, // ClientRandom left nil: "random except the top 4 bytes if InsertTimestamp is true"
		CipherSuites:       []uint16{tls.TLS_RSA_WITH_AES_128_CBC_SHA},
		CompressionMethods: []uint8{0},
	}}
	now := time.Now().Unix()
	err := tls.Client(cli, cfg).Handshake() // fails after the hello (peer closes): irrelevant here
	hello := <-got
	if len(hello) < 38 {
		fmt.Println("no ClientHello captured:", err)
		os.Exit(2)
	}
	random := hello[6:38]
	ts := binary.BigEndian.Uint32(random[:4])
	fmt.Printf("client random      = %x\n", random)
	fmt.Printf("random[0:4]        = %08x (%d)\n", ts, ts)
	fmt.Printf("time.Now().Unix()  = %08x (%d)\n", uint32(now), now)
	if d := int64(ts) - now; d < -120 || d > 120 {
		fmt.Println("DEFECT: the timestamp prefix is not the current Unix time")
		os.Exit(1)
	}
	fmt.Println("ok: timestamp prefix is the current Unix time")
}
