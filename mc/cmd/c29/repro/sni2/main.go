// Reproducer for C29 finding (b): SNIExtension.Marshal writes the name_type
// byte only once, so with two or more Domains the server_name_list is not
// parseable (RFC 6066 §3: every ServerName entry starts with its name_type).
//
//	cd /verif/mc && GOFLAGS=-mod=mod GOPROXY=off go run ./cmd/c29/repro/sni2
//
// Public API only. Exit status 1 = defect present.
package main

import (
	"fmt"
	"os"

	"github.com/zmap/zcrypto/tls"
)

// parse reads extension_type(2) length(2) server_name_list length(2) then {name_type(1) length(2) name}*.
func parse(b []byte) ([]string, error) {
	if len(b) < 6 || b[0] != 0 || b[1] != 0 || int(b[2])<<8|int(b[3]) != len(b)-4 || int(b[4])<<8|int(b[5]) != len(b)-6 {
		return nil, fmt.Errorf("bad extension / list header")
	}
	b = b[6:]
	var names []string
	for len(b) > 0 {
		if len(b) < 3 {
			return names, fmt.Errorf("truncated ServerName entry")
		}
		if b[0] != 0 {
			return names, fmt.Errorf("entry %d: name_type %d, want host_name(0)", len(names)+1, b[0])
		}
		n := int(b[1])<<8 | int(b[2])
		if n == 0 || 3+n > len(b) {
			return names, fmt.Errorf("entry %d: HostName length %d does not fit the %d bytes left", len(names)+1, n, len(b)-3)
		}
		names = append(names, string(b[3:3+n]))
		b = b[3+n:]
	}
	return names, nil
}

func main() {
	enc := (&tls.SNIExtension{Domains: []string{"a", "b"}}).Marshal()
	fmt.Printf("Marshal()   = %x\n", enc)
	fmt.Printf("well-formed = %x\n", []byte{0, 0, 0, 10, 0, 8, 0, 0, 1, 'a', 0, 0, 1, 'b'})
	names, err := parse(enc)
	fmt.Printf("RFC 6066 reader: names=%q err=%v\n", names, err)
	if err != nil || len(names) != 2 {
		fmt.Println("DEFECT: server_name extension for two Domains is malformed")
		os.Exit(1)
	}
	fmt.Println("ok")
}
