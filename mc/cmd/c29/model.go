package main

// Independent reference model for C29: ClientHello / extension encoders and
// parsers written from RFC 5246 §7.4.1.2, RFC 6066 §3 (server_name) and §8
// (status_request), RFC 7301 §3.1 (ALPN), RFC 8422 §5.1 (supported_groups,
// ec_point_formats), RFC 5077 §3.2 (SessionTicket), RFC 5246 §7.4.1.4.1
// (signature_algorithms), RFC 6962 §3.3.1 (SCT), RFC 7627 §5.1 (EMS), RFC 5746
// §3.2 (renegotiation_info). Nothing in this file calls zcrypto.

import (
	"bytes"
	"encoding/hex"
	"errors"
	"fmt"
)

// ---------------------------------------------------------------- specs

// ExtSpec is the JSON-able description of one configured ClientExtension.
type ExtSpec struct {
	Kind  string   `json:"kind"` // sni alpn curves points ticket sigalgs status sct ems reneg null
	Strs  []string `json:"strs,omitempty"`
	U16   []uint16 `json:"u16,omitempty"`
	Bytes string   `json:"bytes,omitempty"` // hex: point formats
	TLen  int      `json:"tlen,omitempty"`  // ticket length
	TPat  string   `json:"tpat,omitempty"`  // ticket pattern: "" (seq) | "grease"
	Auto  bool     `json:"auto,omitempty"`
}

// CacheSpec describes a session placed in the fingerprint's SessionCache.
type CacheSpec struct {
	Vers      uint16 `json:"vers"`
	Suite     uint16 `json:"suite"`
	TicketLen int    `json:"ticket_len"`
	RandomSID int    `json:"random_session_id"`
}

// Spec is one complete fingerprint configuration.
type Spec struct {
	Version    uint16     `json:"version"`
	Random     string     `json:"random"` // hex, "" = nil
	Timestamp  bool       `json:"insert_timestamp"`
	SIDLen     int        `json:"session_id_len"`
	Suites     []uint16   `json:"suites"`
	Force      bool       `json:"force_suites"`
	Comp       []int      `json:"compression"`
	CompNil    bool       `json:"compression_nil,omitempty"`
	ServerName string     `json:"server_name"`
	Exts       []ExtSpec  `json:"extensions"`
	Cache      *CacheSpec `json:"cache,omitempty"`
}

func (s Spec) clone() Spec {
	c := s
	c.Suites = append([]uint16(nil), s.Suites...)
	c.Comp = append([]int(nil), s.Comp...)
	c.Exts = append([]ExtSpec(nil), s.Exts...)
	return c
}

func sidBytes(n int) []byte {
	b := make([]byte, n)
	for i := range b {
		b[i] = byte(0xa0 + i)
	}
	return b
}

func ticketBytes(n int, pat string) []byte {
	b := make([]byte, n)
	for i := range b {
		switch pat {
		case "grease": // reads as a run of empty unknown (GREASE) extensions if mis-framed
			b[i] = []byte{0xaa, 0xaa, 0x00, 0x00}[i%4]
		case "cached":
			b[i] = byte(i*5 + 0x40)
		default:
			b[i] = byte(i*7 + 3)
		}
	}
	return b
}

func unhex(s string) []byte {
	b, err := hex.DecodeString(s)
	if err != nil {
		panic("bad hex in spec: " + s)
	}
	return b
}

// ---------------------------------------------------------------- encoders

func u16(v int) []byte { return []byte{byte(v >> 8), byte(v)} }

func extWrap(typ int, body []byte) []byte {
	out := append(u16(typ), u16(len(body))...)
	return append(out, body...)
}

const (
	xtServerName = 0
	xtStatusReq  = 5
	xtGroups     = 10
	xtPoints     = 11
	xtSigAlgs    = 13
	xtALPN       = 16
	xtSCT        = 18
	xtEMS        = 23
	xtTicket     = 35
	xtReneg      = 0xff01
)

func encSNI(names []string) []byte {
	var list []byte
	for _, n := range names {
		list = append(list, 0) // name_type host_name
		list = append(list, u16(len(n))...)
		list = append(list, n...)
	}
	return extWrap(xtServerName, append(u16(len(list)), list...))
}

func encALPN(protos []string) []byte {
	var list []byte
	for _, p := range protos {
		list = append(list, byte(len(p)))
		list = append(list, p...)
	}
	return extWrap(xtALPN, append(u16(len(list)), list...))
}

func encU16List(typ int, vals []uint16) []byte {
	var list []byte
	for _, v := range vals {
		list = append(list, u16(int(v))...)
	}
	return extWrap(typ, append(u16(len(list)), list...))
}

func encPoints(f []byte) []byte {
	return extWrap(xtPoints, append([]byte{byte(len(f))}, f...))
}

// extExp is what the model allows on the wire for one configured extension.
type extExp struct {
	alts      [][]byte // acceptable encodings (an empty one = extension omitted)
	mayRefuse bool     // the configuration may be refused with an error instead
	why       string   // why it may be refused
	kind      string
}

var (
	namedCurves = map[uint16]bool{29: true, 23: true, 24: true, 25: true} // X25519, P-256, P-384, P-521: the curves zcrypto exports by name
	// RFC 5246 SignatureAndHashAlgorithm with signature rsa(1)/dsa(2) and hash md5..sha512 (1..6).
	classicSigAlg = func(v uint16) bool {
		h, s := v>>8, v&0xff
		return (s == 1 || s == 2) && h >= 1 && h <= 6
	}
)

// expectExt gives the acceptable wire forms of one configured extension.
func expectExt(e ExtSpec, serverName string) extExp {
	x := extExp{kind: e.Kind}
	omit := []byte{}
	switch e.Kind {
	case "null":
		x.alts = [][]byte{omit}
	case "sni":
		valid := len(e.Strs) > 0
		for _, n := range e.Strs {
			if len(n) == 0 || len(n) > 0xffff {
				valid = false
			}
		}
		if e.Auto {
			// "Autopopulate": the name comes from Config.ServerName. Undocumented beyond its
			// name, so: ServerName set -> that single name; unset -> omitted or refused; when
			// Domains are configured as well their encoding is accepted too.
			if serverName != "" {
				x.alts = append(x.alts, encSNI([]string{serverName}))
			} else {
				x.alts = append(x.alts, omit)
				x.mayRefuse, x.why = true, "sni autopopulate without ServerName"
			}
			if valid {
				x.alts = append(x.alts, encSNI(e.Strs))
				x.mayRefuse, x.why = true, "sni autopopulate with Domains (undocumented)"
			}
			break
		}
		switch {
		case !valid:
			x.alts = [][]byte{omit}
			x.mayRefuse, x.why = true, "sni: no valid encoding (server_name_list<1..>, HostName<1..>)"
		case len(e.Strs) == 1:
			x.alts = [][]byte{encSNI(e.Strs)}
		default:
			x.alts = [][]byte{encSNI(e.Strs)}
			x.mayRefuse, x.why = true, "sni: RFC 6066 forbids two names of one name_type"
		}
	case "alpn":
		valid := len(e.Strs) > 0
		for _, p := range e.Strs {
			if len(p) == 0 || len(p) > 255 {
				valid = false
			}
		}
		if !valid {
			x.alts = [][]byte{omit}
			x.mayRefuse, x.why = true, "alpn: no valid encoding (ProtocolNameList<2..>, ProtocolName<1..255>)"
		} else {
			x.alts = [][]byte{encALPN(e.Strs)}
		}
	case "curves":
		if len(e.U16) == 0 {
			x.alts = [][]byte{omit}
			x.mayRefuse, x.why = true, "curves: no valid encoding (named_curve_list<2..>)"
			break
		}
		x.alts = [][]byte{encU16List(xtGroups, e.U16)}
		for _, c := range e.U16 {
			if !namedCurves[c] {
				x.mayRefuse, x.why = true, "curves: possibly unimplemented curve id"
			}
		}
	case "points":
		f := unhex(e.Bytes)
		if len(f) == 0 || len(f) > 255 {
			x.alts = [][]byte{omit}
			x.mayRefuse, x.why = true, "points: no valid encoding (ec_point_format_list<1..255>)"
			break
		}
		x.alts = [][]byte{encPoints(f)}
		if !bytes.Equal(f, []byte{0}) {
			x.mayRefuse, x.why = true, "points: possibly unimplemented point format"
		}
	case "ticket":
		if e.TLen > 0xffff {
			x.alts = [][]byte{omit}
			x.mayRefuse, x.why = true, "ticket: longer than an extension can carry"
			break
		}
		x.alts = [][]byte{extWrap(xtTicket, ticketBytes(e.TLen, e.TPat))}
		if e.Auto {
			// no resumable session: sending the configured ticket or omitting the extension are both fine
			x.alts = append(x.alts, omit)
		}
	case "sigalgs":
		if len(e.U16) == 0 {
			x.alts = [][]byte{omit}
			x.mayRefuse, x.why = true, "sigalgs: no valid encoding (supported_signature_algorithms<2..>)"
			break
		}
		x.alts = [][]byte{encU16List(xtSigAlgs, e.U16)}
		for _, v := range e.U16 {
			if !classicSigAlg(v) {
				x.mayRefuse, x.why = true, "sigalgs: possibly unimplemented algorithm"
			}
		}
	case "status":
		x.alts = [][]byte{extWrap(xtStatusReq, []byte{1, 0, 0, 0, 0})}
	case "sct":
		x.alts = [][]byte{extWrap(xtSCT, nil)}
	case "ems":
		x.alts = [][]byte{extWrap(xtEMS, nil)}
	case "reneg":
		x.alts = [][]byte{extWrap(xtReneg, []byte{0})}
	default:
		panic("unknown ext kind " + e.Kind)
	}
	return x
}

// Well-known suite ids. "classic" = TLS <= 1.2 suites every TLS stack (and
// zcrypto, which exports them as named constants) implements; GREASE and
// TLS_NULL_WITH_NULL_NULL are never implemented; others are "unknown".
var classicSuites = map[uint16]bool{0xc02f: true, 0x002f: true, 0x0035: true, 0x000a: true, 0xc013: true, 0xc014: true, 0x009c: true, 0xc02b: true}

const (
	expSend       = "must-send"
	expMayRefuse  = "may-refuse"
	expMustRefuse = "must-refuse"
)

type expectation struct {
	class string
	why   string
	exts  []extExp
}

func expectSpec(s Spec) expectation {
	ex := expectation{class: expSend}
	may := func(why string) {
		if ex.class == expSend {
			ex.class, ex.why = expMayRefuse, why
		}
	}
	must := func(why string) { ex.class, ex.why = expMustRefuse, why }

	if s.SIDLen > 32 {
		may("session id longer than TLS allows (SessionID<0..32>)")
	}
	if len(s.Suites) == 0 {
		may("empty cipher suite list (cipher_suites<2..>)")
	}
	for _, id := range s.Suites {
		if !classicSuites[id] && !s.Force {
			may("cipher suite possibly unimplemented and ForceSuites off")
		}
	}
	if !(len(s.Comp) == 1 && s.Comp[0] == 0) {
		may("compression methods other than [null]")
	}
	seen := map[string]bool{}
	total := 0
	nSNI, autoSNI := 0, false
	for _, e := range s.Exts {
		if e.Kind == "sni" {
			nSNI++
			autoSNI = autoSNI || e.Auto
		}
	}
	for _, e := range s.Exts {
		x := expectExt(e, s.ServerName)
		if e.Kind == "sni" && autoSNI && nSNI > 1 {
			// An autopopulating SNI next to further SNI extensions (two server_name extensions
			// are not valid TLS anyway): what "autopopulate" does to the others is undocumented,
			// so each may be left as configured, omitted, or carry the effective server name
			// (Config.ServerName, else the first domain of an explicit SNI extension).
			x.alts = append(x.alts, []byte{})
			if s.ServerName != "" {
				x.alts = append(x.alts, encSNI([]string{s.ServerName}))
			}
			for _, o := range s.Exts {
				if o.Kind == "sni" && !o.Auto && len(o.Strs) > 0 && o.Strs[0] != "" {
					x.alts = append(x.alts, encSNI(o.Strs[:1]))
				}
			}
			x.mayRefuse, x.why = true, "autopopulating SNI next to other SNI extensions"
		}
		if s.Cache != nil && e.Kind == "ticket" && e.Auto {
			x = expectCachedTicket(s, e)
		}
		if x.mayRefuse {
			may(x.why)
		}
		if e.Kind != "null" {
			if seen[e.Kind] {
				may("two extensions of one type")
			}
			seen[e.Kind] = true
		}
		min := -1
		for _, a := range x.alts {
			if min < 0 || len(a) < min {
				min = len(a)
			}
		}
		total += min
		ex.exts = append(ex.exts, x)
	}
	// Unencodable as a whole: the hello cannot carry the configured values.
	if total > 0xffff {
		must("extension block longer than 65535 bytes")
	}
	if len(s.Comp) > 255 {
		must("more than 255 compression methods")
	}
	if s.SIDLen > 255 {
		must("session id longer than 255 bytes")
	}
	return ex
}

// resumable transcribes the comment/obvious intent of the fingerprint session
// cache: a cached session is used when its suite is among the configured ones
// and its version is not above the configured handshake version (and not below
// TLS 1.0, the default minimum).
func resumable(s Spec) bool {
	if s.Cache == nil {
		return false
	}
	ok := false
	for _, id := range s.Suites {
		if id == s.Cache.Suite {
			ok = true
		}
	}
	return ok && s.Cache.Vers >= 0x0301 && s.Cache.Vers <= s.Version
}

func expectCachedTicket(s Spec, e ExtSpec) extExp {
	if resumable(s) {
		return extExp{kind: "ticket", alts: [][]byte{extWrap(xtTicket, ticketBytes(s.Cache.TicketLen, "cached"))}}
	}
	return expectExt(e, s.ServerName)
}

// ---------------------------------------------------------------- hello parser

type wireHello struct {
	version    uint16
	random     []byte
	sid        []byte
	suites     []uint16
	comp       []byte
	hasExtBlk  bool
	extBlock   []byte
	recordVers []uint16
}

// extractHello reassembles the first handshake message from a client stream.
func extractHello(stream []byte) (msg []byte, nrec int, err error) {
	off := 0
	var hs []byte
	for {
		if len(hs) >= 4 {
			want := 4 + (int(hs[1])<<16 | int(hs[2])<<8 | int(hs[3]))
			if len(hs) == want {
				return hs, nrec, nil
			}
			if len(hs) > want {
				return nil, nrec, errors.New("handshake message does not end at a record boundary")
			}
		}
		if off == len(stream) {
			return nil, nrec, errors.New("stream ends inside the first handshake message")
		}
		if off+5 > len(stream) {
			return nil, nrec, errors.New("truncated record header")
		}
		if stream[off] != 22 {
			return nil, nrec, fmt.Errorf("record type %d, want handshake(22)", stream[off])
		}
		l := int(stream[off+3])<<8 | int(stream[off+4])
		if l == 0 || l > 16384 {
			return nil, nrec, fmt.Errorf("record length %d out of range", l)
		}
		if off+5+l > len(stream) {
			return nil, nrec, errors.New("truncated record")
		}
		hs = append(hs, stream[off+5:off+5+l]...)
		off += 5 + l
		nrec++
	}
}

// helloComplete tells the scripted peer when to stop reading.
func helloComplete(stream []byte) bool {
	_, _, err := extractHello(stream)
	if err == nil {
		return true
	}
	switch err.Error() {
	case "stream ends inside the first handshake message", "truncated record header", "truncated record":
		return false
	}
	return true // garbage: stop reading
}

func parseHello(msg []byte) (*wireHello, error) {
	if len(msg) < 4 || msg[0] != 1 {
		return nil, errors.New("not a client_hello handshake message")
	}
	if n := int(msg[1])<<16 | int(msg[2])<<8 | int(msg[3]); n != len(msg)-4 {
		return nil, errors.New("handshake length field wrong")
	}
	b := msg[4:]
	take := func(n int) ([]byte, bool) {
		if n > len(b) {
			return nil, false
		}
		v := b[:n]
		b = b[n:]
		return v, true
	}
	h := &wireHello{}
	v, ok := take(2)
	if !ok {
		return nil, errors.New("short: version")
	}
	h.version = uint16(v[0])<<8 | uint16(v[1])
	if h.random, ok = take(32); !ok {
		return nil, errors.New("short: random")
	}
	if v, ok = take(1); !ok {
		return nil, errors.New("short: session id length")
	}
	if h.sid, ok = take(int(v[0])); !ok {
		return nil, errors.New("session id length exceeds message")
	}
	if v, ok = take(2); !ok {
		return nil, errors.New("short: cipher suites length")
	}
	n := int(v[0])<<8 | int(v[1])
	if n%2 != 0 {
		return nil, errors.New("odd cipher suites length")
	}
	cs, ok := take(n)
	if !ok {
		return nil, errors.New("cipher suites length exceeds message")
	}
	h.suites = []uint16{}
	for i := 0; i < n; i += 2 {
		h.suites = append(h.suites, uint16(cs[i])<<8|uint16(cs[i+1]))
	}
	if v, ok = take(1); !ok {
		return nil, errors.New("short: compression length")
	}
	if h.comp, ok = take(int(v[0])); !ok {
		return nil, errors.New("compression length exceeds message")
	}
	if len(b) == 0 {
		return h, nil
	}
	if v, ok = take(2); !ok {
		return nil, errors.New("short: extensions length")
	}
	n = int(v[0])<<8 | int(v[1])
	if n != len(b) {
		return nil, errors.New("extensions length does not match the rest of the message")
	}
	h.hasExtBlk = true
	h.extBlock = b
	return h, nil
}

// matchExts: can block be written as alt_1 || alt_2 || ... with one alternative per extension?
func matchExts(block []byte, exts []extExp) bool {
	if len(exts) == 0 {
		return len(block) == 0
	}
	for _, a := range exts[0].alts {
		if bytes.HasPrefix(block, a) && matchExts(block[len(a):], exts[1:]) {
			return true
		}
	}
	return false
}

// ---------------------------------------------------------------- per-extension RFC parsers

// parsedExt is what an RFC-conformant reader sees in one extension.
type parsedExt struct {
	typ   int
	strs  []string
	u16   []uint16
	bytes []byte
}

type rd struct{ b []byte }

func (r *rd) u8() (int, bool) {
	if len(r.b) < 1 {
		return 0, false
	}
	v := int(r.b[0])
	r.b = r.b[1:]
	return v, true
}
func (r *rd) u16() (int, bool) {
	if len(r.b) < 2 {
		return 0, false
	}
	v := int(r.b[0])<<8 | int(r.b[1])
	r.b = r.b[2:]
	return v, true
}
func (r *rd) vec(lenBytes int) (*rd, bool) {
	var n int
	var ok bool
	if lenBytes == 1 {
		n, ok = r.u8()
	} else {
		n, ok = r.u16()
	}
	if !ok || n > len(r.b) {
		return nil, false
	}
	v := &rd{r.b[:n]}
	r.b = r.b[n:]
	return v, true
}

// parseExtension reads exactly one extension (header + body) strictly per RFC syntax.
func parseExtension(enc []byte) (*parsedExt, error) {
	r := &rd{enc}
	typ, ok := r.u16()
	if !ok {
		return nil, errors.New("short extension header")
	}
	body, ok := r.vec(2)
	if !ok {
		return nil, errors.New("extension_data length exceeds encoding")
	}
	if len(r.b) != 0 {
		return nil, errors.New("bytes after extension_data")
	}
	p := &parsedExt{typ: typ}
	switch typ {
	case xtServerName:
		list, ok := body.vec(2)
		if !ok || len(body.b) != 0 {
			return nil, errors.New("server_name_list length inconsistent with extension_data")
		}
		if len(list.b) == 0 {
			return nil, errors.New("server_name_list empty (<1..2^16-1>)")
		}
		for len(list.b) > 0 {
			nt, ok := list.u8()
			if !ok {
				return nil, errors.New("ServerName: short")
			}
			if nt != 0 {
				return nil, fmt.Errorf("ServerName: name_type %d, want host_name(0)", nt)
			}
			name, ok := list.vec(2)
			if !ok {
				return nil, errors.New("ServerName: HostName length exceeds server_name_list")
			}
			if len(name.b) == 0 {
				return nil, errors.New("ServerName: empty HostName (<1..2^16-1>)")
			}
			p.strs = append(p.strs, string(name.b))
		}
	case xtALPN:
		list, ok := body.vec(2)
		if !ok || len(body.b) != 0 {
			return nil, errors.New("protocol_name_list length inconsistent with extension_data")
		}
		if len(list.b) == 0 {
			return nil, errors.New("protocol_name_list empty")
		}
		for len(list.b) > 0 {
			name, ok := list.vec(1)
			if !ok {
				return nil, errors.New("ProtocolName length exceeds list")
			}
			if len(name.b) == 0 {
				return nil, errors.New("empty ProtocolName (<1..2^8-1>)")
			}
			p.strs = append(p.strs, string(name.b))
		}
	case xtGroups, xtSigAlgs:
		list, ok := body.vec(2)
		if !ok || len(body.b) != 0 {
			return nil, errors.New("list length inconsistent with extension_data")
		}
		if len(list.b) == 0 || len(list.b)%2 != 0 {
			return nil, errors.New("list empty or of odd length (<2..2^16-1>)")
		}
		for len(list.b) > 0 {
			v, _ := list.u16()
			p.u16 = append(p.u16, uint16(v))
		}
	case xtPoints:
		list, ok := body.vec(1)
		if !ok || len(body.b) != 0 {
			return nil, errors.New("ec_point_format_list length inconsistent with extension_data")
		}
		if len(list.b) == 0 {
			return nil, errors.New("ec_point_format_list empty (<1..2^8-1>)")
		}
		p.bytes = list.b
	case xtTicket:
		p.bytes = body.b
	case xtStatusReq:
		st, ok := body.u8()
		if !ok || st != 1 {
			return nil, errors.New("status_type is not ocsp(1)")
		}
		ids, ok := body.vec(2)
		if !ok {
			return nil, errors.New("responder_id_list length exceeds extension_data")
		}
		exts, ok := body.vec(2)
		if !ok || len(body.b) != 0 {
			return nil, errors.New("request_extensions length inconsistent with extension_data")
		}
		p.bytes = append(append([]byte{}, ids.b...), exts.b...)
	case xtSCT, xtEMS:
		if len(body.b) != 0 {
			return nil, errors.New("extension_data must be empty")
		}
	case xtReneg:
		ri, ok := body.vec(1)
		if !ok || len(body.b) != 0 {
			return nil, errors.New("renegotiated_connection length inconsistent with extension_data")
		}
		p.bytes = ri.b
	default:
		return nil, fmt.Errorf("unexpected extension type %d", typ)
	}
	return p, nil
}

var kindType = map[string]int{"sni": xtServerName, "alpn": xtALPN, "curves": xtGroups, "points": xtPoints, "ticket": xtTicket,
	"sigalgs": xtSigAlgs, "status": xtStatusReq, "sct": xtSCT, "ems": xtEMS, "reneg": xtReneg}

func eqStrs(a, b []string) bool {
	if len(a) != len(b) {
		return false
	}
	for i := range a {
		if a[i] != b[i] {
			return false
		}
	}
	return true
}

func eqU16(a, b []uint16) bool {
	if len(a) != len(b) {
		return false
	}
	for i := range a {
		if a[i] != b[i] {
			return false
		}
	}
	return true
}

// sameValues compares what an RFC reader saw with what was configured.
func sameValues(p *parsedExt, e ExtSpec) string {
	if p.typ != kindType[e.Kind] {
		return fmt.Sprintf("extension_type %d, want %d", p.typ, kindType[e.Kind])
	}
	switch e.Kind {
	case "sni", "alpn":
		if !eqStrs(p.strs, e.Strs) {
			return fmt.Sprintf("names %q, configured %q", p.strs, e.Strs)
		}
	case "curves", "sigalgs":
		if !eqU16(p.u16, e.U16) {
			return fmt.Sprintf("values %v, configured %v", p.u16, e.U16)
		}
	case "points":
		if !bytes.Equal(p.bytes, unhex(e.Bytes)) {
			return fmt.Sprintf("formats %x, configured %s", p.bytes, e.Bytes)
		}
	case "ticket":
		if !bytes.Equal(p.bytes, ticketBytes(e.TLen, e.TPat)) {
			return "ticket bytes differ from configured"
		}
	case "status":
		if len(p.bytes) != 0 {
			return "responder_id_list/request_extensions not empty"
		}
	case "reneg":
		if len(p.bytes) != 0 {
			return "renegotiated_connection not empty for an initial handshake"
		}
	}
	return ""
}
