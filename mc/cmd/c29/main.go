// C29 — fingerprinted ClientHellos are sent exactly as configured.
//
// Engines E2 (deviation-bounded enumeration of ClientFingerprintConfiguration
// values) + E4 capture: every configuration goes through the real
// tls.Client(conn, cfg).Handshake() over a tlsx pipe whose server side is a
// scripted peer that reads one handshake message and closes. The bytes the
// client wrote are parsed by the harness' own ClientHello parser (model.go) and
// compared field by field with the configuration; the extension block must be
// the concatenation of the model's RFC encodings in the configured order.
// Second oracle: every built-in extension value alone must Marshal() to a
// well-formed extension (RFC parsers in model.go) carrying the configured
// values, and zcrypto's clientHelloMsg.unmarshal (accessor in _inpkg/tls) must
// read the configured values back from the hello that was sent.
package main

import (
	"bytes"
	"encoding/binary"
	"encoding/hex"
	"encoding/json"
	"fmt"
	"io"
	"net"
	"strings"
	"time"

	"github.com/zmap/zcrypto/tls"
	"verifmc/internal/ev"
	"verifmc/internal/fx"
	"verifmc/internal/tlsx"
)

// ---------------------------------------------------------------- building the real configuration

type keyGen struct{}

func (keyGen) Key(net.Addr) string { return "c29" }

type oneCache struct{ s *tls.ClientSessionState }

func (o *oneCache) Get(string) (*tls.ClientSessionState, bool) { return o.s, o.s != nil }
func (o *oneCache) Put(string, *tls.ClientSessionState)        {}

func buildExt(e ExtSpec) tls.ClientExtension {
	switch e.Kind {
	case "null":
		return &tls.NullExtension{}
	case "sni":
		return &tls.SNIExtension{Domains: append([]string(nil), e.Strs...), Autopopulate: e.Auto}
	case "alpn":
		return &tls.ALPNExtension{Protocols: append([]string(nil), e.Strs...)}
	case "curves":
		cs := make([]tls.CurveID, len(e.U16))
		for i, v := range e.U16 {
			cs[i] = tls.CurveID(v)
		}
		return &tls.SupportedCurvesExtension{Curves: cs}
	case "points":
		return &tls.PointFormatExtension{Formats: unhex(e.Bytes)}
	case "ticket":
		return &tls.SessionTicketExtension{Ticket: ticketBytes(e.TLen, e.TPat), Autopopulate: e.Auto}
	case "sigalgs":
		return &tls.SignatureAlgorithmExtension{SignatureAndHashes: append([]uint16(nil), e.U16...)}
	case "status":
		return &tls.StatusRequestExtension{}
	case "sct":
		return &tls.SCTExtension{}
	case "ems":
		return &tls.ExtendedMasterSecretExtension{}
	case "reneg":
		return &tls.SecureRenegotiationExtension{}
	}
	panic("unknown ext kind " + e.Kind)
}

// buildConfig makes a FRESH tls.Config (the handshake rewrites both the Config
// and the fingerprint's Extensions slice in place, so nothing is shared between runs).
func buildConfig(s Spec, seed string) *tls.Config {
	fp := &tls.ClientFingerprintConfiguration{
		HandshakeVersion: s.Version,
		InsertTimestamp:  s.Timestamp,
		CipherSuites:     append([]uint16(nil), s.Suites...),
	}
	if s.Random != "" {
		fp.ClientRandom = unhex(s.Random)
	}
	if s.SIDLen > 0 {
		fp.SessionID = sidBytes(s.SIDLen)
	}
	if !s.CompNil {
		fp.CompressionMethods = make([]uint8, len(s.Comp))
		for i, v := range s.Comp {
			fp.CompressionMethods[i] = uint8(v)
		}
	}
	for _, e := range s.Exts {
		fp.Extensions = append(fp.Extensions, buildExt(e))
	}
	if s.Cache != nil {
		fp.SessionCache = &oneCache{tls.VerifC29NewSession(s.Cache.Vers, s.Cache.Suite, ticketBytes(s.Cache.TicketLen, "cached"))}
		fp.CacheKey = keyGen{}
		fp.RandomSessionID = s.Cache.RandomSID
	}
	return &tls.Config{Rand: tlsx.NewDetRand(seed), Time: tlsx.Now, ServerName: s.ServerName, ForceSuites: s.Force,
		ClientFingerprintConfiguration: fp}
}

// halfReader delivers at most half of what is asked for (at least one byte), never an error of its own.
type halfReader struct{ r io.Reader }

func (h halfReader) Read(p []byte) (int, error) {
	// (never turn a longer read into a 1-byte one: the deterministic Rand of the harness answers 1-byte reads, which
	// are crypto/internal/randutil.MaybeReadByte probes, without consuming its stream)
	if len(p) > 3 {
		p = p[:(len(p)+1)/2]
	}
	return h.r.Read(p)
}

// ---------------------------------------------------------------- capture

type capt struct {
	stream  []byte // everything the client wrote
	err     error
	panicAt string
	stalled bool
}

// capture runs the real client handshake against a peer that reads one
// handshake message and closes.
func capture(cfg *tls.Config) capt {
	cp, sp, n := tlsx.NewPipe()
	done := make(chan struct{})
	go func() {
		defer close(done)
		defer sp.Close()
		var buf []byte
		tmp := make([]byte, 2048)
		for {
			k, err := sp.Read(tmp)
			buf = append(buf, tmp[:k]...)
			if err != nil || helloComplete(buf) {
				return
			}
		}
	}()
	var r capt
	conn := tls.Client(cp, cfg)
	p, msg, site := ev.Try(func() { r.err = conn.Handshake() })
	if p {
		r.panicAt = "panic@" + site + ": " + ev.MsgClass(msg)
	}
	ev.Try(func() { conn.Close() })
	cp.Close()
	<-done
	r.stream = n.Stream(tlsx.C2S)
	r.stalled = n.Stalled
	return r
}

// ---------------------------------------------------------------- the check of one configuration

type witness struct {
	Mode   string   `json:"mode"` // wire | alone
	Spec   *Spec    `json:"spec,omitempty"`
	Ext    *ExtSpec `json:"ext,omitempty"`
	Detail string   `json:"detail"`
	Hello  string   `json:"hello_hex,omitempty"`
}

type runner struct {
	c    *ev.Ctx
	h    ev.Hist
	runs int64 // Handshake() calls
	det  int64 // configurations whose duplicate execution was byte-identical
	evs  int64 // oracle evaluations
	sent int64 // configurations for which a hello was sent and fully validated
}

func (r *runner) flush() {
	r.c.Merge(r.h)
	r.c.Transitions.Add(r.runs)
	r.c.Traces.Add(r.det)
	r.c.Evaluations.Add(r.evs)
	r.c.Distinct.Add(r.sent)
}

func errClass(err error) string {
	if err == nil {
		return "nil"
	}
	return ev.MsgClass(err.Error())
}

func nClass(n int) string {
	switch {
	case n == 0:
		return "0"
	case n == 1:
		return "1"
	case n < 128:
		return "2..127"
	}
	return ">=128"
}

func hexShort(b []byte) string {
	if len(b) > 600 {
		return hex.EncodeToString(b[:600]) + fmt.Sprintf("…(%d bytes)", len(b))
	}
	return hex.EncodeToString(b)
}

func allZero(b []byte) bool {
	for _, x := range b {
		if x != 0 {
			return false
		}
	}
	return true
}

func hasAutoTicket(s Spec) bool {
	for _, e := range s.Exts {
		if e.Kind == "ticket" && e.Auto {
			return true
		}
	}
	return false
}

// checkWire validates one configuration end to end; it returns the hello that
// was sent (nil if none or if it was already reported as wrong).
func (r *runner) checkWire(s Spec) []byte {
	c := r.c
	sp := s.clone()
	viol := func(sig, detail string, hello []byte) {
		c.Violation(sig, witness{Mode: "wire", Spec: &sp, Detail: detail, Hello: hexShort(hello)})
	}
	ex := expectSpec(s)
	r.evs++
	t0 := time.Now().Unix()
	a := capture(buildConfig(s, "a"))
	t1 := time.Now().Unix()
	r.runs++
	if a.panicAt != "" {
		viol(a.panicAt, "Handshake panicked", nil)
		r.h["panic"]++
		return nil
	}
	if len(a.stream) == 0 {
		if a.err == nil {
			viol("wire: Handshake returned nil without writing a ClientHello", "", nil)
			return nil
		}
		if ex.class == expSend {
			viol("wire: no ClientHello for a valid configuration: "+errClass(a.err), "error: "+a.err.Error(), nil)
			r.h["VIOLATION no hello for valid configuration"]++
			return nil
		}
		// refused before anything was written; a second run must refuse identically
		a2 := capture(buildConfig(s, "a"))
		r.runs++
		if len(a2.stream) != 0 || errClass(a2.err) != errClass(a.err) {
			viol("nondeterministic: refusal not reproducible with identical Rand seed", errClass(a.err)+" / "+errClass(a2.err), a2.stream)
			return nil
		}
		r.det++
		r.h["refused ("+ex.class+"): "+errClass(a.err)]++
		return nil
	}
	msg, _, xerr := extractHello(a.stream)
	if xerr != nil {
		viol("wire: client's first bytes are not a complete handshake message in handshake records", xerr.Error(), a.stream)
		return nil
	}
	if ex.class == expMustRefuse {
		viol("wire: ClientHello sent although the configuration cannot be encoded ("+ex.why+")", "", msg)
		return nil
	}
	wh, perr := parseHello(msg)
	if perr != nil {
		viol("wire: malformed ClientHello framing", perr.Error(), msg)
		return nil
	}
	bad := false
	if wh.version != s.Version {
		viol("wire: legacy_version differs from HandshakeVersion", fmt.Sprintf("wire %04x configured %04x", wh.version, s.Version), msg)
		bad = true
	}
	fresh := len(s.Random) != 64
	if !fresh {
		if !bytes.Equal(wh.random, unhex(s.Random)) {
			viol("wire: random differs from the configured 32-byte ClientRandom", hex.EncodeToString(wh.random), msg)
			bad = true
		}
	}
	// session id: configured bytes, or fresh bytes of RandomSessionID length on a resumption
	wantSID := sidBytes(s.SIDLen)
	freshSID := false
	if s.Cache != nil && s.Cache.RandomSID > 0 && resumable(s) {
		if hasAutoTicket(s) {
			freshSID = true
		} else if len(wh.sid) == s.Cache.RandomSID && !bytes.Equal(wh.sid, wantSID) {
			freshSID = true // statement silent (no ticket is sent, is that "a resumption"?): both accepted
		}
	}
	if freshSID {
		if len(wh.sid) != s.Cache.RandomSID {
			viol("wire: session id length differs from RandomSessionID on resumption", fmt.Sprintf("wire %d want %d", len(wh.sid), s.Cache.RandomSID), msg)
			bad = true
		}
	} else if !bytes.Equal(wh.sid, wantSID) {
		cl := "len>0"
		if s.SIDLen == 0 {
			cl = "len=0"
		}
		viol("wire: session id differs from configured ("+cl+")", fmt.Sprintf("wire %x configured %x", wh.sid, wantSID), msg)
		bad = true
	}
	if !eqU16(wh.suites, s.Suites) {
		viol("wire: cipher suites differ from configured (n "+nClass(len(s.Suites))+")", fmt.Sprintf("wire %04x", wh.suites), msg)
		bad = true
	}
	wantComp := make([]byte, len(s.Comp))
	for i, v := range s.Comp {
		wantComp[i] = byte(v)
	}
	if !bytes.Equal(wh.comp, wantComp) {
		viol("wire: compression methods differ from configured", fmt.Sprintf("wire %x configured %x", wh.comp, wantComp), msg)
		bad = true
	}
	if !matchExts(wh.extBlock, ex.exts) {
		var want []byte
		for _, x := range ex.exts {
			want = append(want, x.alts[0]...)
		}
		viol("wire: extension block is not the concatenation of the configured extensions' encodings in order",
			fmt.Sprintf("wire %x want %x", wh.extBlock, want), msg)
		bad = true
	}
	if bad {
		r.h["VIOLATION hello differs"]++
		return nil
	}

	// own your nondeterminism: same seed -> same bytes (timestamp prefix excepted)
	a2 := capture(buildConfig(s, "a"))
	r.runs++
	m2, _, _ := extractHello(a2.stream)
	mask := func(m []byte) []byte {
		m = append([]byte(nil), m...)
		if fresh && s.Timestamp && len(m) >= 10 {
			copy(m[6:10], []byte{0, 0, 0, 0})
		}
		return m
	}
	if !bytes.Equal(mask(msg), mask(m2)) {
		viol("nondeterministic: two runs with identical Rand seed sent different ClientHellos", hexShort(m2), msg)
		return nil
	}
	r.det++

	// Config.Rand is an io.Reader: one that delivers short reads without error (a pipe, a chunked or hardware source)
	// must give the same hello as one that fills every buffer - the stream of random bytes is the same
	{
		cfgH := buildConfig(s, "a")
		cfgH.Rand = halfReader{cfgH.Rand}
		hr := capture(cfgH)
		r.runs++
		mh, _, eh := extractHello(hr.stream)
		if eh != nil {
			viol("short-read Rand: no complete ClientHello when Config.Rand delivers short reads", errClass(hr.err), hr.stream)
			return nil
		}
		if !bytes.Equal(mask(msg), mask(mh)) {
			viol("short-read Rand: the hello differs from the one sent with the same random stream delivered in full reads (randomness not read with io.ReadFull)", hexShort(mh), msg)
			return nil
		}
		r.h["Rand delivering short reads: same hello"]++
	}

	// the same configuration object used for a second connection: still exactly as configured, and whatever is
	// fresh per hello is drawn again (the Rand stream continues, so the bytes differ)
	{
		cfgR := buildConfig(s, "a")
		r1 := capture(cfgR)
		r2 := capture(cfgR)
		r.runs += 2
		mr1, _, e1 := extractHello(r1.stream)
		mr2, _, e2 := extractHello(r2.stream)
		if e1 != nil || e2 != nil {
			viol("reuse: the second connection made with the same configuration object sends no complete ClientHello", errClass(r2.err), r2.stream)
			return nil
		}
		w1, _ := parseHello(mr1)
		w2, pe := parseHello(mr2)
		if w1 == nil || w2 == nil {
			viol("reuse: the second ClientHello of the same configuration object is malformed", fmt.Sprint(pe), mr2)
			return nil
		}
		start := 0
		if s.Timestamp {
			start = 4
		}
		if fresh && bytes.Equal(w1.random[start:], w2.random[start:]) {
			viol("fresh random: the second hello of the same configuration object repeats the first hello's random", hex.EncodeToString(w2.random), mr2)
			return nil
		}
		if freshSID && len(w2.sid) > 0 && bytes.Equal(w1.sid, w2.sid) {
			viol("fresh session id: the second hello of the same configuration object repeats the first one's", hex.EncodeToString(w2.sid), mr2)
			return nil
		}
		if s.Cache == nil && len(mr1) == len(mr2) {
			blank := func(m []byte, w *wireHello) []byte {
				m = append([]byte(nil), m...)
				if fresh && len(m) >= 38 {
					copy(m[6:38], make([]byte, 32))
				} else if s.Timestamp && len(m) >= 10 {
					copy(m[6:10], make([]byte, 4))
				}
				if freshSID && len(m) >= 39+len(w.sid) {
					copy(m[39:39+len(w.sid)], make([]byte, len(w.sid)))
				}
				return m
			}
			if !bytes.Equal(blank(mr1, w1), blank(mr2, w2)) {
				viol("reuse: the second hello of the same configuration object differs from the first outside random/session id", hexShort(mr2), mr1)
				return nil
			}
		} else if s.Cache == nil {
			viol("reuse: the second hello of the same configuration object has another length", fmt.Sprintf("%d vs %d bytes", len(mr1), len(mr2)), mr2)
			return nil
		}
		r.h["reuse of one configuration object: second hello consistent"]++
	}

	if fresh || freshSID {
		b := capture(buildConfig(s, "b"))
		r.runs++
		var wb *wireHello
		if mb, _, e := extractHello(b.stream); e == nil {
			wb, _ = parseHello(mb)
		}
		if wb == nil {
			viol("nondeterministic: hello sent with Rand seed a but not with seed b", errClass(b.err), b.stream)
			return nil
		}
		if fresh {
			start := 0
			if s.Timestamp {
				start = 4
				ts := int64(binary.BigEndian.Uint32(wh.random[:4]))
				switch {
				case ts >= t0-120 && ts <= t1+120:
					r.h["timestamp prefix = wall clock"]++
				case ts == fx.T0.Unix():
					r.h["timestamp prefix = Config.Time"]++
				case ts == 0:
					viol("timestamp: InsertTimestamp set but random[0:4] is 00000000, not the Unix time in seconds",
						fmt.Sprintf("random %x, wall clock %d (%08x)", wh.random, t0, uint32(t0)), msg)
					r.h["VIOLATION timestamp prefix zero"]++
					return nil
				default:
					viol("timestamp: random[0:4] is neither the wall clock (±120 s) nor Config.Time",
						fmt.Sprintf("random %x, wall clock %d (%08x)", wh.random, t0, uint32(t0)), msg)
					return nil
				}
			}
			if allZero(wh.random[start:]) {
				viol("fresh random: all-zero", hex.EncodeToString(wh.random), msg)
				return nil
			}
			if bytes.Equal(wh.random[start:], wb.random[start:]) {
				viol("fresh random: identical for two different Rand streams", hex.EncodeToString(wh.random), msg)
				return nil
			}
		}
		if freshSID {
			if bytes.Equal(wh.sid, wb.sid) || allZero(wh.sid) {
				viol("fresh session id: identical for two different Rand streams (or all-zero)", hex.EncodeToString(wh.sid), msg)
				return nil
			}
		}
	}

	// zcrypto's own ClientHello parser must read the configured values back
	if d := r.readback(s, wh, msg); d != "" {
		c.Violation("readback: clientHelloMsg.unmarshal reads other values than configured ("+strings.SplitN(d, ":", 2)[0]+")",
			witness{Mode: "wire", Spec: &sp, Detail: d, Hello: hexShort(msg)})
		r.h["VIOLATION readback"]++
		return nil
	}
	r.sent++
	r.h["sent exactly as configured ("+ex.class+")"]++
	return msg
}

// readback feeds the sent hello to clientHelloMsg.unmarshal and compares with
// the configuration (scalar fields, and every extension kind that occurs once).
func (r *runner) readback(s Spec, wh *wireHello, msg []byte) string {
	r.evs++
	k := tls.VerifC29ParseHello(msg)
	if !k.OK {
		return "parse: unmarshal rejects the hello that was sent"
	}
	if k.Vers != s.Version {
		return "vers: differs"
	}
	if !bytes.Equal(k.Random, wh.random) || !bytes.Equal(k.SessionID, wh.sid) || !bytes.Equal(k.Compression, wh.comp) {
		return "scalars: random/session id/compression differ from the wire"
	}
	if !eqU16(k.CipherSuites, s.Suites) {
		return "suites: differ"
	}
	count := map[string]int{}
	for _, e := range s.Exts {
		count[e.Kind]++
	}
	present := map[string]bool{}
	for _, e := range s.Exts {
		if count[e.Kind] != 1 {
			continue
		}
		switch e.Kind {
		case "sni":
			want := ""
			if e.Auto {
				want = s.ServerName
				if k.ServerName != want && !(len(e.Strs) == 1 && k.ServerName == e.Strs[0]) {
					return fmt.Sprintf("sni: serverName %q, Config.ServerName %q", k.ServerName, want)
				}
			} else if len(e.Strs) == 1 {
				want = e.Strs[0]
				if k.ServerName != want {
					return fmt.Sprintf("sni: serverName %q, configured %q", k.ServerName, want)
				}
			}
			present["sni"] = k.ServerName != ""
		case "alpn":
			if !eqStrs(k.ALPN, e.Strs) {
				return fmt.Sprintf("alpn: %q, configured %q", k.ALPN, e.Strs)
			}
		case "curves":
			if !eqU16(k.Curves, e.U16) {
				return fmt.Sprintf("curves: %v, configured %v", k.Curves, e.U16)
			}
		case "points":
			if !bytes.Equal(k.Points, unhex(e.Bytes)) {
				return fmt.Sprintf("points: %x, configured %s", k.Points, e.Bytes)
			}
		case "ticket":
			want := ticketBytes(e.TLen, e.TPat)
			if e.Auto && s.Cache != nil && resumable(s) {
				want = ticketBytes(s.Cache.TicketLen, "cached")
			}
			if e.Auto && !k.TicketSupported && !(s.Cache != nil && resumable(s)) {
				break // omitted: allowed without a resumable session
			}
			if !k.TicketSupported || !bytes.Equal(k.Ticket, want) {
				return fmt.Sprintf("ticket: supported=%v ticket %x, want %x", k.TicketSupported, k.Ticket, want)
			}
		case "sigalgs":
			if !eqU16(k.SigAlgs, e.U16) {
				return fmt.Sprintf("sigalgs: %04x, configured %04x", k.SigAlgs, e.U16)
			}
		case "status":
			if !k.OCSPStapling {
				return "status: ocspStapling not set"
			}
		case "sct":
			if !k.SCT {
				return "sct: not set"
			}
		case "ems":
			if !k.EMS {
				return "ems: not set"
			}
		case "reneg":
			if !k.SecureReneg || len(k.SecureRenegData) != 0 {
				return "reneg: not set or not empty"
			}
		}
	}
	// nothing that was not configured may be read back
	scsv := false
	for _, id := range s.Suites {
		if id == 0x00ff {
			scsv = true
		}
	}
	if count["sni"] == 0 && k.ServerName != "" || count["alpn"] == 0 && len(k.ALPN) != 0 || count["curves"] == 0 && len(k.Curves) != 0 ||
		count["points"] == 0 && len(k.Points) != 0 || count["ticket"] == 0 && k.TicketSupported || count["sigalgs"] == 0 && len(k.SigAlgs) != 0 ||
		count["status"] == 0 && k.OCSPStapling || count["sct"] == 0 && k.SCT || count["ems"] == 0 && k.EMS || count["reneg"] == 0 && !scsv && k.SecureReneg {
		return "phantom: an extension that was not configured is read back"
	}
	return ""
}

// checkAlone: one extension value on its own — Marshal() well-formedness and
// values (RFC parser of the harness), then the wire path with only it.
func (r *runner) checkAlone(e ExtSpec, serverName string) {
	r.checkMarshal(e)
	r.checkAloneWire(e, serverName)
}

func aloneEncodable(e ExtSpec, x extExp) bool {
	return len(x.alts) > 0 && len(x.alts[0]) > 0 && !e.Auto
}

// checkMarshal: the exported Marshal() of one extension value against the RFC reader.
func (r *runner) checkMarshal(e ExtSpec) {
	c := r.c
	ec := e
	x := expectExt(e, "srv.example")
	encodable := aloneEncodable(e, x)
	if encodable {
		r.evs++
		var enc []byte
		p, msg, site := ev.Try(func() { enc = buildExt(e).Marshal() })
		ncl := ""
		switch e.Kind {
		case "sni", "alpn":
			ncl = " names=" + map[bool]string{true: "1", false: ">=2"}[len(e.Strs) == 1]
		}
		switch {
		case p:
			c.Violation("panic@"+site+": "+ev.MsgClass(msg), witness{Mode: "alone", Ext: &ec, Detail: "Marshal panicked"})
		default:
			pe, err := parseExtension(enc)
			if err != nil {
				c.Violation("alone "+e.Kind+ncl+": Marshal() is not a well-formed extension",
					witness{Mode: "alone", Ext: &ec, Detail: err.Error() + "; Marshal()=" + hexShort(enc) + " well-formed=" + hexShort(x.alts[0])})
				r.h["VIOLATION alone: not well-formed"]++
			} else if d := sameValues(pe, e); d != "" {
				c.Violation("alone "+e.Kind+ncl+": Marshal() carries other values than configured",
					witness{Mode: "alone", Ext: &ec, Detail: d + "; Marshal()=" + hexShort(enc)})
				r.h["VIOLATION alone: other values"]++
			} else {
				r.h["alone: Marshal() well-formed, values as configured"]++
			}
		}
	} else if e.Kind != "null" && !e.Auto {
		r.h["alone: value has no valid encoding (only the wire behaviour is checked)"]++
	}
}

// checkAloneWire: the wire path with only this extension configured.
func (r *runner) checkAloneWire(e ExtSpec, serverName string) {
	x := expectExt(e, serverName)
	encodable := aloneEncodable(e, x)
	s := baseline()
	s.ServerName = serverName
	s.Exts = []ExtSpec{e}
	if msg := r.checkWire(s); msg == nil && encodable && x.mayRefuse {
		// refused on the wire path (allowed): still see what zcrypto's parser makes of the RFC encoding
		s.Exts = nil
		r.evs++
		k := tls.VerifC29ParseHello(modelHello(s, x.alts[0]))
		r.h[fmt.Sprintf("alone: refused value, clientHelloMsg.unmarshal of its RFC encoding ok=%v", k.OK)]++
	}
}

// modelHello is the model's encoding of a hello with a given extension block.
func modelHello(s Spec, extBlock []byte) []byte {
	var b []byte
	b = append(b, u16(int(s.Version))...)
	b = append(b, unhex(s.Random)...)
	b = append(b, byte(s.SIDLen))
	b = append(b, sidBytes(s.SIDLen)...)
	b = append(b, u16(2*len(s.Suites))...)
	for _, id := range s.Suites {
		b = append(b, u16(int(id))...)
	}
	b = append(b, byte(len(s.Comp)))
	for _, v := range s.Comp {
		b = append(b, byte(v))
	}
	if len(extBlock) > 0 {
		b = append(b, u16(len(extBlock))...)
		b = append(b, extBlock...)
	}
	return append([]byte{1, byte(len(b) >> 16), byte(len(b) >> 8), byte(len(b))}, b...)
}

// ---------------------------------------------------------------- the space

const fixedRandom = "0102030405060708090a0b0c0d0e0f101112131415161718191a1b1c1d1e1f20"

func baseline() Spec {
	return Spec{Version: 0x0303, Random: fixedRandom, SIDLen: 0, Suites: []uint16{0xc02f, 0x002f, 0x0035},
		Comp: []int{0}, ServerName: "srv.example"}
}

func longSuites(n int) []uint16 {
	cyc := []uint16{0xc02f, 0x002f, 0x0035, 0x000a, 0xc013}
	out := make([]uint16, n)
	for i := range out {
		out[i] = cyc[(i+i/5)%5]
	}
	return out
}

type alt struct {
	name  string
	apply func(*Spec)
}

type field struct {
	name string
	alts []alt
}

func scalarFields() []field {
	var fs []field
	var f field
	f = field{name: "version"}
	for _, v := range []uint16{0x0301, 0x0302, 0x0304, 0x7f7f, 0x0300, 0x0000, 0xffff} {
		v := v
		f.alts = append(f.alts, alt{fmt.Sprintf("%04x", v), func(s *Spec) { s.Version = v }})
	}
	fs = append(fs, f)
	f = field{name: "random"}
	for _, v := range []string{"", strings.Repeat("5a", 31), strings.Repeat("5a", 33), strings.Repeat("00", 32), strings.Repeat("ff", 32)} {
		v := v
		f.alts = append(f.alts, alt{fmt.Sprintf("%dB", len(v)/2), func(s *Spec) { s.Random = v }})
	}
	fs = append(fs, f)
	fs = append(fs, field{"timestamp", []alt{{"on", func(s *Spec) { s.Timestamp = true }}}})
	f = field{name: "sid"}
	for _, n := range []int{1, 31, 32, 33, 255, 256} {
		n := n
		f.alts = append(f.alts, alt{fmt.Sprint(n), func(s *Spec) { s.SIDLen = n }})
	}
	fs = append(fs, f)
	f = field{name: "suites"}
	for _, v := range [][]uint16{{0x002f}, {}, longSuites(127), longSuites(128), longSuites(129),
		{0xc02f, 0xfafa, 0x002f}, {0x0000}, {0x1301, 0x002f}} {
		v := v
		f.alts = append(f.alts, alt{fmt.Sprintf("n%d", len(v)), func(s *Spec) { s.Suites = append([]uint16{}, v...) }})
	}
	fs = append(fs, f)
	fs = append(fs, field{"force", []alt{{"on", func(s *Spec) { s.Force = true }}}})
	f = field{name: "comp"}
	f.alts = append(f.alts, alt{"nil", func(s *Spec) { s.Comp, s.CompNil = nil, true }})
	for _, v := range [][]int{{}, {1}, {0, 1}, make([]int, 256)} {
		v := v
		f.alts = append(f.alts, alt{fmt.Sprintf("n%d", len(v)), func(s *Spec) { s.Comp = append([]int{}, v...) }})
	}
	fs = append(fs, f)
	fs = append(fs, field{"servername", []alt{{"empty", func(s *Spec) { s.ServerName = "" }}}})
	return fs
}

// scalarConfigs: every assignment with at most d non-default fields.
func scalarConfigs(fs []field, d int) []Spec {
	var out []Spec
	var rec func(from, left int, cur Spec)
	rec = func(from, left int, cur Spec) {
		out = append(out, cur.clone())
		if left == 0 {
			return
		}
		for i := from; i < len(fs); i++ {
			for _, a := range fs[i].alts {
				n := cur.clone()
				a.apply(&n)
				rec(i+1, left-1, n)
			}
		}
	}
	rec(0, d, baseline())
	return out
}

func extPool(big bool) []ExtSpec {
	pool := []ExtSpec{
		{Kind: "sni", Strs: []string{"srv.example"}},
		{Kind: "sni", Auto: true},
		{Kind: "alpn", Strs: []string{"h2", "http/1.1", "spdy/3.1"}},
		{Kind: "curves", U16: []uint16{29, 23, 24, 25}},
		{Kind: "points", Bytes: "00"},
		{Kind: "ticket", TLen: 0},
		{Kind: "ticket", TLen: 48},
		{Kind: "sigalgs", U16: []uint16{0x0601, 0x0501, 0x0401, 0x0301, 0x0201, 0x0402}},
		{Kind: "status"},
		{Kind: "sct"},
		{Kind: "ems"},
		{Kind: "reneg"},
		{Kind: "null"},
	}
	if big {
		pool = append(pool,
			ExtSpec{Kind: "sni", Strs: []string{"a.example", "b.example"}},
			ExtSpec{Kind: "alpn", Strs: []string{"h2"}},
			ExtSpec{Kind: "curves", U16: []uint16{23}},
			ExtSpec{Kind: "curves", U16: []uint16{0xfafa, 29}},
			ExtSpec{Kind: "points", Bytes: "0001"},
			ExtSpec{Kind: "ticket", Auto: true},
			ExtSpec{Kind: "sigalgs", U16: []uint16{0x0403}},
			ExtSpec{Kind: "alpn"},
		)
	}
	return pool
}

func extLists(pool []ExtSpec, maxLen int) [][]ExtSpec {
	out := [][]ExtSpec{{}}
	level := [][]ExtSpec{{}}
	for l := 1; l <= maxLen; l++ {
		var next [][]ExtSpec
		for _, p := range level {
			for _, e := range pool {
				n := append(append([]ExtSpec(nil), p...), e)
				next = append(next, n)
			}
		}
		out = append(out, next...)
		level = next
	}
	return out
}

// aloneSpace: the value alphabets of every built-in extension type.
func aloneSpace() []ExtSpec {
	var out []ExtSpec
	label63 := strings.Repeat("x", 63)
	long253 := label63 + "." + label63 + "." + label63 + "." + strings.Repeat("y", 61)
	names := []string{"a", "srv.example", "xn--nxasmq6b.example.org", long253}
	out = append(out, ExtSpec{Kind: "sni"})
	for _, a := range names {
		out = append(out, ExtSpec{Kind: "sni", Strs: []string{a}})
		for _, b := range names {
			out = append(out, ExtSpec{Kind: "sni", Strs: []string{a, b}})
		}
	}
	for _, a := range names[:2] {
		for _, b := range names[:2] {
			for _, d := range names[:2] {
				out = append(out, ExtSpec{Kind: "sni", Strs: []string{a, b, d}})
			}
		}
	}
	out = append(out, ExtSpec{Kind: "sni", Strs: []string{""}}, ExtSpec{Kind: "sni", Strs: []string{strings.Repeat("z", 256)}},
		ExtSpec{Kind: "sni", Auto: true}, ExtSpec{Kind: "sni", Auto: true, Strs: []string{"a"}})

	protos := []string{"h2", "http/1.1", "x", strings.Repeat("p", 255)}
	out = append(out, ExtSpec{Kind: "alpn"})
	for _, a := range protos {
		out = append(out, ExtSpec{Kind: "alpn", Strs: []string{a}})
		for _, b := range protos {
			out = append(out, ExtSpec{Kind: "alpn", Strs: []string{a, b}})
			for _, d := range protos[:3] {
				out = append(out, ExtSpec{Kind: "alpn", Strs: []string{a, b, d}})
			}
		}
	}
	out = append(out, ExtSpec{Kind: "alpn", Strs: []string{strings.Repeat("q", 256)}}, ExtSpec{Kind: "alpn", Strs: []string{"h2", ""}},
		ExtSpec{Kind: "alpn", Strs: []string{""}})

	// curves: every duplicate-free ordered list over the four named curves, plus one foreign id at each end
	cur := []uint16{29, 23, 24, 25}
	var perm func(pre []uint16)
	perm = func(pre []uint16) {
		out = append(out, ExtSpec{Kind: "curves", U16: append([]uint16(nil), pre...)})
		for _, v := range cur {
			dup := false
			for _, p := range pre {
				if p == v {
					dup = true
				}
			}
			if !dup {
				perm(append(append([]uint16(nil), pre...), v))
			}
		}
	}
	perm(nil)
	for _, f := range []uint16{22, 0xfafa, 30, 0x0100} {
		out = append(out, ExtSpec{Kind: "curves", U16: []uint16{f}}, ExtSpec{Kind: "curves", U16: []uint16{f, 29, 23}}, ExtSpec{Kind: "curves", U16: []uint16{29, 23, f}})
	}
	for _, f := range []string{"", "00", "01", "0001", "0100", "0000", "000102", "02"} {
		out = append(out, ExtSpec{Kind: "points", Bytes: f})
	}
	for _, n := range []int{0, 1, 2, 48, 255, 256, 257, 300} {
		out = append(out, ExtSpec{Kind: "ticket", TLen: n})
	}
	out = append(out, ExtSpec{Kind: "ticket", Auto: true}, ExtSpec{Kind: "ticket", TLen: 48, Auto: true},
		ExtSpec{Kind: "ticket", TLen: 16000}, ExtSpec{Kind: "ticket", TLen: 16400}, ExtSpec{Kind: "ticket", TLen: 33000},
		ExtSpec{Kind: "ticket", TLen: 65535 - 4}, ExtSpec{Kind: "ticket", TLen: 65535 - 3},
		ExtSpec{Kind: "ticket", TLen: 65535}, ExtSpec{Kind: "ticket", TLen: 65536, TPat: "grease"}, ExtSpec{Kind: "ticket", TLen: 65540, TPat: "grease"})
	sa := []uint16{0x0401, 0x0501, 0x0601, 0x0201, 0x0301, 0x0101, 0x0402, 0x0202, 0x0403, 0x0503, 0x0603, 0x0203, 0x0804, 0x0807}
	out = append(out, ExtSpec{Kind: "sigalgs"})
	for _, a := range sa {
		out = append(out, ExtSpec{Kind: "sigalgs", U16: []uint16{a}})
		for _, b := range sa {
			out = append(out, ExtSpec{Kind: "sigalgs", U16: []uint16{a, b}})
		}
	}
	out = append(out, ExtSpec{Kind: "sigalgs", U16: []uint16{0x0601, 0x0501, 0x0401, 0x0301, 0x0201, 0x0402}},
		ExtSpec{Kind: "sigalgs", U16: []uint16{0x0601, 0x0603, 0x0501, 0x0503, 0x0401, 0x0403}})
	for _, k := range []string{"status", "sct", "ems", "reneg", "null"} {
		out = append(out, ExtSpec{Kind: k})
	}
	return out
}

func cacheSpace() []Spec {
	var out []Spec
	tickets := [][]ExtSpec{{{Kind: "ticket", Auto: true}}, {{Kind: "ticket", TLen: 48, Auto: true}}, {{Kind: "ticket", TLen: 48}}, {},
		{{Kind: "ems"}, {Kind: "ticket", Auto: true}, {Kind: "sct"}}}
	for _, vers := range []uint16{0x0303, 0x0301} {
		for _, cvers := range []uint16{0x0303, 0x0301, 0x0300} {
			for _, suite := range []uint16{0x002f, 0x009c} {
				for _, rsid := range []int{0, 2, 16, 32} { // not 1: tlsx.DetRand answers 1-byte reads with a constant
					for _, tl := range []int{0, 1, 120} {
						for _, sid := range []int{0, 32} {
							for _, ex := range tickets {
								s := baseline()
								s.Version, s.SIDLen, s.Exts = vers, sid, append([]ExtSpec(nil), ex...)
								s.Cache = &CacheSpec{Vers: cvers, Suite: suite, TicketLen: tl, RandomSID: rsid}
								out = append(out, s)
							}
						}
					}
				}
			}
		}
	}
	return out
}

// ---------------------------------------------------------------- main

func main() {
	ev.Main("C29", "model_checking", func(c *ev.Ctx) {
		if c.Replay != nil {
			var w witness
			if err := json.Unmarshal(c.Replay, &w); err != nil {
				c.Broken("bad witness: %v", err)
			}
			r := &runner{c: c, h: ev.Hist{}}
			switch {
			case w.Mode == "alone" && w.Ext != nil:
				r.checkAlone(*w.Ext, "srv.example")
			case w.Spec != nil:
				r.checkWire(*w.Spec)
			default:
				c.Broken("witness has neither spec nor ext")
			}
			c.States.Add(1)
			r.flush()
			return
		}

		fs := scalarFields()
		d2 := scalarConfigs(fs, 2)
		d1 := scalarConfigs(fs, 1)
		pool := extPool(false)
		lists3 := extLists(pool, 3)
		nl2 := 1 + len(pool) + len(pool)*len(pool)
		alone := aloneSpace()
		caches := cacheSpace()

		c.Rule("G-field: ClientFingerprintConfiguration × Config{ForceSuites,ServerName}; baseline {0303, fixed 32-byte random, no session id, 3 suites, [null] compression}; " +
			"every assignment with ≤2 non-default scalar fields (version 7 alts, random 5, InsertTimestamp, session id length 6, suites 8 incl. 127/128/129 entries and unimplemented ids, ForceSuites, compression 5, ServerName empty) " +
			"× every ordered list (repetition allowed) of ≤3 extensions from a 13-value pool (quick: lists ≤2 × ≤2 deviations and lists of 3 × ≤1 deviation; thorough: full product, plus lists ≤3 from a 21-value pool × ≤1 deviation, lists ≤2 × ≤3 deviations, all lists of 4 × baseline); " +
			"each extension type alone over its value alphabet (names/protocol lists of 0–3, curves: all duplicate-free orders of the 4 named curves, point formats, ticket lengths up to 65540, signature algorithm singles and pairs over 14 ids) × ServerName {set, empty}; " +
			"fingerprint SessionCache scenarios (cached version/suite resumable or not × RandomSessionID × Autopopulate). " +
			"A case is non-trivial (distinct) when a ClientHello was written and validated field by field; every configuration is run twice with the same Rand seed (byte-identical), twice on ONE configuration object (second hello: fresh parts drawn again, everything else identical) and, with fresh randomness, once more with another seed.")
		c.Assume("the hello is what tls.Client(conn,cfg).Handshake() writes first to a tlsx pipe whose peer reads one handshake message and closes",
			"reference encodings/parsers are written from RFC 5246/6066/7301/8422/5077/6962/7627/5746 in model.go",
			"configurations without a valid TLS encoding (empty lists, over-long values) or using ids zcrypto need not implement may be refused with an error before anything is written; if a hello is sent it must still be exact",
			"InsertTimestamp: the code reads time.Now(), so the prefix is compared with the harness wall clock ±120 s (Config.Time is accepted as well)",
			"Config.ClientSessionCache is nil (the fingerprint's own SessionCache is exercised instead)")

		workers := c.Workers()
		rs := make([]*runner, workers)
		for i := range rs {
			rs[i] = &runner{c: c, h: ev.Hist{}}
		}

		// (0) sequential and in order, so that the first (recorded) witness of a signature is the
		// smallest one: scalar deviations without extensions, and Marshal() of every value.
		for _, sc := range d2 {
			rs[0].checkWire(sc)
		}
		c.States.Add(int64(len(d2)))
		for _, e := range alone {
			rs[0].checkMarshal(e)
		}

		// (1) each extension value alone on the wire
		c.Parallel(2*len(alone), func(w, i int) {
			sn := "srv.example"
			if i >= len(alone) {
				sn = ""
			}
			rs[w].checkAloneWire(alone[i%len(alone)], sn)
		})
		c.States.Add(int64(2 * len(alone)))
		c.Set("alone_values", len(alone))

		// (2) fingerprint session cache scenarios
		c.Parallel(len(caches), func(w, i int) { rs[w].checkWire(caches[i]) })
		c.States.Add(int64(len(caches)))
		c.Set("cache_scenarios", len(caches))

		// (3) extension lists × scalar deviations
		var nCfg int64
		job := func(lists [][]ExtSpec, scal func(li int) []Spec, what string) {
			done := c.Parallel(len(lists), func(w, i int) {
				if len(lists[i]) == 0 {
					return // the empty list was covered in (0)
				}
				for _, sc := range scal(i) {
					if c.TimeUp() {
						return
					}
					s := sc.clone()
					s.Exts = lists[i]
					rs[w].checkWire(s)
				}
			})
			if !done || c.TimeUp() {
				c.Incomplete("budget hit during " + what)
			}
			for i := range lists {
				if len(lists[i]) > 0 {
					nCfg += int64(len(scal(i)))
				}
			}
		}
		if c.Quick() {
			job(lists3, func(li int) []Spec {
				if li < nl2 {
					return d2
				}
				return d1
			}, "extension lists ≤3 × scalar deviations")
		} else {
			job(lists3, func(int) []Spec { return d2 }, "extension lists ≤3 × ≤2 scalar deviations")
			big := extLists(extPool(true), 3)
			job(big, func(int) []Spec { return d1 }, "21-value pool lists ≤3 × ≤1 scalar deviation")
			c.Set("big_pool_lists", len(big))
			d3 := scalarConfigs(fs, 3)
			job(lists3[:nl2], func(int) []Spec { return d3 }, "extension lists ≤2 × ≤3 scalar deviations")
			c.Set("scalar_configs_d3", len(d3))
			lists4 := extLists(pool, 4)[len(lists3):]
			d0 := scalarConfigs(fs, 0)
			job(lists4, func(int) []Spec { return d0 }, "extension lists of exactly 4 × baseline scalars")
			c.Set("extension_lists_eq4", len(lists4))
		}
		c.States.Add(nCfg)
		c.Set("scalar_configs_d1", len(d1))
		c.Set("scalar_configs_d2", len(d2))
		c.Set("extension_lists_le3", len(lists3))
		c.Set("list_x_scalar_configs", nCfg)

		for _, r := range rs {
			r.flush()
		}
		s := baseline()
		s.Exts = lists3[len(lists3)-7]
		c.Sample(map[string]any{"spec": s, "expect": expectSpec(s).class})
		c.Sample(map[string]any{"alone": alone[7]})
	})
}
