package tls

// Thin accessors for check C29 (compiled into package tls through go build
// -overlay; never part of /repo). No logic here: the ClientHello parser is
// called once and its unexported result fields are copied out.

// VerifC29Hello is what clientHelloMsg.unmarshal read from a ClientHello.
type VerifC29Hello struct {
	OK              bool
	Vers            uint16
	Random          []byte
	SessionID       []byte
	CipherSuites    []uint16
	Compression     []byte
	ServerName      string
	OCSPStapling    bool
	Curves          []uint16
	Points          []byte
	TicketSupported bool
	Ticket          []byte
	SigAlgs         []uint16
	SecureReneg     bool
	SecureRenegData []byte
	EMS             bool
	SCT             bool
	ALPN            []string
}

// VerifC29ParseHello runs clientHelloMsg.unmarshal on a copy of data.
func VerifC29ParseHello(data []byte) VerifC29Hello {
	m := new(clientHelloMsg)
	ok := m.unmarshal(append([]byte(nil), data...))
	h := VerifC29Hello{
		OK:              ok,
		Vers:            m.vers,
		Random:          m.random,
		SessionID:       m.sessionId,
		CipherSuites:    m.cipherSuites,
		Compression:     m.compressionMethods,
		ServerName:      m.serverName,
		OCSPStapling:    m.ocspStapling,
		Points:          m.supportedPoints,
		TicketSupported: m.ticketSupported,
		Ticket:          m.sessionTicket,
		SecureReneg:     m.secureRenegotiationSupported,
		SecureRenegData: m.secureRenegotiation,
		EMS:             m.extendedMasterSecret,
		SCT:             m.scts,
		ALPN:            m.alpnProtocols,
	}
	for _, c := range m.supportedCurves {
		h.Curves = append(h.Curves, uint16(c))
	}
	for _, s := range m.supportedSignatureAlgorithms {
		h.SigAlgs = append(h.SigAlgs, uint16(s))
	}
	return h
}

// VerifC29NewSession returns a ClientSessionState carrying the three fields the
// fingerprint path of clientHandshake looks at (ticket, version, cipher suite).
func VerifC29NewSession(vers, suite uint16, ticket []byte) *ClientSessionState {
	return &ClientSessionState{sessionTicket: ticket, vers: vers, cipherSuite: suite}
}
