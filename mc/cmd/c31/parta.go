package main

// Part A — ticket faults (E4): one genuine ticket per scenario, every single-byte
// substitution, truncation, extension, splice, re-seal and cross-version offer.

import (
	"bytes"
	"encoding/hex"
	"encoding/json"
	"fmt"

	"github.com/zmap/zcrypto/tls"
	"verifmc/internal/ev"
	"verifmc/internal/tlsx"
)

type scenA struct {
	Vers    uint16 `json:"vers"`
	Variant string `json:"variant"` // plain | oldkey | clientauth | altsuite (thorough)
}

func (s scenA) String() string { return versName(s.Vers) + "/" + s.Variant }

// expectation of the reference for one offered ticket
const (
	mustResume = 1
	mustNot    = 0
	either     = -1
	// mustNotMayFail: the ticket is authentic but the TLS 1.3 PSK binder is not. RFC 8446
	// 4.2.11: "If this value is not present or does not validate, the server MUST abort
	// the handshake" — a clean failure or a non-PSK handshake, never an accepted PSK.
	mustNotMayFail = 2
)

type mutA struct {
	Class  string // signature class, e.g. "byte-subst@mac"
	Detail string // concrete description
	Bytes  []byte
	Expect int
	// AllowMalformed: the ClientHello itself is not encodable per RFC 8446 (empty PSK
	// identity): a handshake failure is accepted, a resumption is not.
	AllowMalformed bool
	// TLS 1.3 binder faults: the ticket bytes stay genuine.
	Master     []byte // != nil: the client derives PSK and binder from this resumption secret instead
	Nonce      []byte // != nil: ... from this ticket nonce instead
	BinderEdit *binderEdit
}

// binderLen: the binder is an HMAC under the hash of the ticket's cipher suite.
func binderLen(suite uint16) int {
	if suite == s13A256 {
		return 48
	}
	return 32
}

// binderEdit rewrites the PSK binder of the ClientHello in flight (offset into the binder).
type binderEdit struct {
	Off  int  `json:"off"` // -1: every byte
	Xor  byte `json:"xor"` // 0 with Off -1: set every byte to zero
	Zero bool `json:"zero"`
}

// apply is installed as man-in-the-middle on the first client write: the ClientHello
// record, whose last extension is pre_shared_key and whose last bytes are
// binders<33..2^16-1> = one PskBinderEntry<32..255> (RFC 8446 4.2.11).
func (b *binderEdit) apply(note *string) func(d tlsx.Dir, nth int, data []byte) [][]byte {
	return func(d tlsx.Dir, nth int, data []byte) [][]byte {
		if d != tlsx.C2S || nth != 0 {
			return [][]byte{data}
		}
		n := len(data)
		bad := func(why string) [][]byte { *note = why; return [][]byte{data} }
		if n < 5+4+35 || data[0] != 22 || int(data[3])<<8|int(data[4]) != n-5 || data[5] != 1 ||
			int(data[6])<<16|int(data[7])<<8|int(data[8]) != n-9 {
			return bad("first write is not exactly one ClientHello record")
		}
		// walk to the extensions with the harness' own reader
		r := rd{data[9:], true}
		r.n(2 + 32)
		r.n(r.u8())
		r.n(r.u16())
		r.n(r.u8())
		ext := rd{r.n(r.u16()), r.ok}
		if !ext.ok || len(r.b) != 0 {
			return bad("ClientHello extensions do not end the message")
		}
		last, lastData := -1, []byte(nil)
		for ext.ok && len(ext.b) > 0 {
			last = ext.u16()
			lastData = ext.n(ext.u16())
		}
		if !ext.ok || last != 41 {
			return bad("pre_shared_key is not the last extension")
		}
		// identities<7..2^16-1> binders<33..2^16-1>; one PskBinderEntry<32..255> expected
		pk := rd{lastData, true}
		pk.n(pk.u16())
		bl := rd{pk.n(pk.u16()), pk.ok}
		L := bl.u8()
		bl.n(L)
		if !bl.ok || len(bl.b) != 0 || len(pk.b) != 0 || L < 32 || (b.Off >= L) {
			return bad("not exactly one binder at the end of the ClientHello (or offset beyond it)")
		}
		bin := data[n-L:]
		switch {
		case b.Zero:
			for i := range bin {
				bin[i] = 0
			}
		case b.Off < 0:
			for i := range bin {
				bin[i] ^= b.Xor
			}
		default:
			bin[b.Off] ^= b.Xor
		}
		*note = "done"
		return [][]byte{data}
	}
}

type witA struct {
	Part     string      `json:"part"`
	Scenario scenA       `json:"scenario"`
	Mutation string      `json:"mutation"`
	Class    string      `json:"class"`
	Ticket   string      `json:"offered_ticket_hex"`
	Genuine  string      `json:"genuine_ticket_hex,omitempty"`
	Master   string      `json:"client_resumption_secret_hex,omitempty"`
	Nonce    string      `json:"client_ticket_nonce_hex,omitempty"`
	Binder   *binderEdit `json:"binder_edit_in_flight,omitempty"`
	Observed string      `json:"observed"`
}

// env of one scenario: how to build configs and the genuine material.
type envA struct {
	sc       scenA
	issueKey [32]byte
	G        *tls.ClientSessionState // genuine session from the server under test
	Gv       tls.VerifC31State
	G2       *tls.ClientSessionState // genuine session of ANOTHER server (keys differ)
	G2v      tls.VerifC31State
	G3v      tls.VerifC31State // a second genuine session of the SAME server and key
	vers     uint16
	suite    uint16
}

func (e *envA) configs(seed string) (cc, sc *tls.Config) {
	id := idEd
	if e.sc.Vers < tls.VersionTLS12 {
		id = idEC // Ed25519 certificates need signature_algorithms (TLS 1.2+)
	}
	cc, sc = cfgPair(id, "A-"+e.sc.String()+"-"+seed, e.sc.Vers, e.sc.Vers)
	switch e.sc.Variant {
	case "clientauth":
		withClientAuth(cc, sc)
	case "altsuite":
		cc.CipherSuites = []uint16{sGCM256, s13A256}
	}
	return
}

// serverResume is the configuration of the server at resumption time.
func (e *envA) serverResume(sc *tls.Config) {
	switch e.sc.Variant {
	case "oldkey":
		sc.SetSessionTicketKeys([][32]byte{key32("A-new"), e.issueKey})
	default:
		sc.SetSessionTicketKeys([][32]byte{e.issueKey})
	}
}

func issueTicket(c *ev.Ctx, e *envA, seed string, k [32]byte) (*tls.ClientSessionState, *connOut) {
	cc, sc := e.configs(seed)
	sc.SetSessionTicketKeys([][32]byte{k})
	o := runConn(cc, sc, nil)
	c.Transitions.Add(int64(o.Records))
	if !o.ok() || !o.DataOK || len(o.Puts) == 0 {
		c.Broken("part A %s: cannot obtain a genuine ticket: %s data=%q puts=%d", e.sc, o.failure(), o.DataErr, len(o.Puts))
	}
	if o.CRes || o.SRes {
		c.Violation(fmt.Sprintf("%s: first-contact handshake without any ticket reports DidResume", versName(e.sc.Vers)),
			witA{Part: "A", Scenario: e.sc, Observed: "DidResume on an initial handshake"})
	}
	e.vers, e.suite = o.SVers, o.SSuite
	return o.Puts[len(o.Puts)-1], o
}

// checkSealing: the issued ticket must open under the reference codec with the
// head key, and its plaintext must name the negotiated version and suite.
func checkSealing(c *ev.Ctx, where string, t []byte, head [32]byte, vers, suite uint16, wit any) (refHeader, bool) {
	pt, err := refOpen(t, refKeyFrom(head))
	c.Evaluations.Add(1)
	if err != nil {
		_ = where
		c.Violation(sealSig+err.Error(), wit)
		return refHeader{}, false
	}
	h := refParseHeader(pt)
	if !h.ok || h.vers != vers || h.suite != suite {
		c.Violation(hdrSig, wit)
		return h, false
	}
	return h, true
}

const sealSig = "issued ticket is not sealed under the head of the current key list as documented (key_name||IV||AES-128-CTR||HMAC-SHA256 over all preceding bytes): "
const hdrSig = "ticket plaintext does not record the session's version and cipher suite"

func regionOf(i, n int) string {
	switch {
	case i < 16:
		return "keyname"
	case i < 32:
		return "iv"
	case i >= n-32:
		return "mac"
	}
	return "ciphertext"
}

func mutationsA(e *envA, other []byte, cross []byte, crossVers uint16, pairs bool) []mutA {
	T := e.Gv.Ticket
	n := len(T)
	var out []mutA
	add := func(class, detail string, b []byte, allowMalformed bool) {
		exp := mustNot
		if bytes.Equal(b, T) {
			exp = mustResume // byte-identical to the authentic ticket
		}
		out = append(out, mutA{Class: class, Detail: detail, Bytes: b, Expect: exp, AllowMalformed: allowMalformed})
	}
	add("identity", "genuine ticket", append([]byte(nil), T...), false)
	// every offset x {^01, ^80, =00, =ff}
	for i := 0; i < n; i++ {
		for _, s := range []struct {
			name string
			f    func(byte) byte
		}{
			{"^01", func(b byte) byte { return b ^ 0x01 }},
			{"^80", func(b byte) byte { return b ^ 0x80 }},
			{"=00", func(byte) byte { return 0x00 }},
			{"=ff", func(byte) byte { return 0xff }},
		} {
			b := append([]byte(nil), T...)
			b[i] = s.f(b[i])
			add("byte-subst@"+regionOf(i, n), fmt.Sprintf("offset %d %s", i, s.name), b, false)
		}
	}
	// thorough: every pair of offsets x {^01,^80}^2
	if pairs {
		for i := 0; i < n; i++ {
			for j := i + 1; j < n; j++ {
				for _, x := range [][2]byte{{0x01, 0x01}, {0x80, 0x80}, {0x01, 0x80}, {0x80, 0x01}} {
					b := append([]byte(nil), T...)
					b[i] ^= x[0]
					b[j] ^= x[1]
					add("byte-pair@"+regionOf(i, n)+"+"+regionOf(j, n), fmt.Sprintf("offsets %d^%02x,%d^%02x", i, x[0], j, x[1]), b, false)
				}
			}
		}
	}
	// every truncation length
	for l := 0; l < n; l++ {
		add("truncate", fmt.Sprintf("first %d of %d bytes", l, n), append([]byte(nil), T[:l]...), l == 0 && e.sc.Vers == tls.VersionTLS13)
	}
	// every extension by 1..16 bytes, at the end and at the front, zero and non-zero fill
	for k := 1; k <= 16; k++ {
		z := make([]byte, k)
		a := bytes.Repeat([]byte{0xa5}, k)
		add("extend", fmt.Sprintf("append %d zero bytes", k), append(append([]byte(nil), T...), z...), false)
		add("extend", fmt.Sprintf("append %d bytes a5", k), append(append([]byte(nil), T...), a...), false)
		add("extend", fmt.Sprintf("append copy of last %d bytes", k), append(append([]byte(nil), T...), T[n-k:]...), false)
		add("extend", fmt.Sprintf("prepend %d zero bytes", k), append(z, T...), false)
		add("extend", fmt.Sprintf("insert %d bytes a5 before the MAC", k), append(append(append([]byte(nil), T[:n-32]...), a...), T[n-32:]...), false)
	}
	// splices with the ticket of another server: all 2^4 part combinations
	parts := func(t []byte) [4][]byte {
		return [4][]byte{t[:16], t[16:32], t[32 : len(t)-32], t[len(t)-32:]}
	}
	if len(other) >= tktOverhead {
		pa, pb := parts(T), parts(other)
		for m := 0; m < 16; m++ {
			var b []byte
			name := ""
			for p := 0; p < 4; p++ {
				if m>>p&1 == 1 {
					b = append(b, pb[p]...)
					name += "B"
				} else {
					b = append(b, pa[p]...)
					name += "A"
				}
			}
			add("splice", "name/iv/body/mac from servers "+name, b, false)
		}
	}
	// splices with a second genuine ticket of the SAME server (same key, other session):
	// both donors are authentic, any true mixture is not. The pure other ticket is
	// skipped: it is authentic but belongs to a session whose secrets this client does not hold.
	if g3 := e.G3v.Ticket; len(g3) >= tktOverhead {
		pa, pb := parts(T), parts(g3)
		for m := 0; m < 16; m++ {
			var b []byte
			name := ""
			for p := 0; p < 4; p++ {
				if m>>p&1 == 1 {
					b = append(b, pb[p]...)
					name += "B"
				} else {
					b = append(b, pa[p]...)
					name += "A"
				}
			}
			if bytes.Equal(b, g3) {
				continue
			}
			add("splice-same-key", "name/iv/body/mac from two tickets of this server "+name, b, false)
		}
	}
	// re-sealed under foreign keys (the harness knows the plaintext through the reference codec)
	if pt, err := refOpen(T, refKeyFrom(e.issueKey)); err == nil {
		gen := refKeyFrom(e.issueKey)
		foreign := refKeyFrom(key32("A-foreign"))
		iv := T[16:32]
		add("foreign-key", "same plaintext sealed under a key the server never had", refSeal(pt, foreign, foreign, iv), false)
		add("foreign-key", "foreign key material under the genuine key name", refSeal(pt, foreign, gen, iv), false)
		rot := refKeyFrom(key32("A-rotated-out"))
		add("foreign-key", "sealed under a key that is not in the current list", refSeal(pt, rot, rot, iv), false)
		// genuine key material, but the key_name field does not name a current key
		for _, alt := range []struct {
			what string
			f    func(n *[16]byte)
		}{
			{"last byte of the key name flipped", func(n *[16]byte) { n[15] ^= 0x01 }},
			{"second half of the key name replaced", func(n *[16]byte) { copy(n[8:], foreign.name[8:]) }},
			{"first half of the key name replaced", func(n *[16]byte) { copy(n[:8], foreign.name[:8]) }},
			{"key name of a rotated-out key", func(n *[16]byte) { *n = rot.name }},
		} {
			nk := gen
			alt.f(&nk.name)
			add("unknown-keyname", "genuine key material, MAC recomputed, "+alt.what, refSeal(pt, gen, nk, iv), false)
		}
		// reference codec round trip: same key, same IV => byte-identical => must resume
		add("identity", "re-sealed by the reference codec with the same key and IV", refSeal(pt, gen, gen, iv), false)
	}
	// TLS 1.3: authentic ticket, PSK binder that does not verify
	if e.sc.Vers == tls.VersionTLS13 {
		addB := func(class, detail string, m mutA) {
			m.Class, m.Detail, m.Bytes, m.Expect = class, detail, append([]byte(nil), T...), mustNotMayFail
			out = append(out, m)
		}
		for _, x := range []byte{0x01, 0x80} {
			for i := range e.Gv.Master {
				b := append([]byte(nil), e.Gv.Master...)
				b[i] ^= x
				addB("binder@client-secret", fmt.Sprintf("client derives PSK and binder from the resumption secret with byte %d ^%02x", i, x), mutA{Master: b})
			}
			for i := range e.Gv.Nonce {
				b := append([]byte(nil), e.Gv.Nonce...)
				b[i] ^= x
				addB("binder@client-nonce", fmt.Sprintf("client derives PSK and binder from the ticket nonce with byte %d ^%02x", i, x), mutA{Nonce: b})
			}
			for i := 0; i < binderLen(e.suite); i++ {
				addB("binder@in-flight", fmt.Sprintf("binder byte %d ^%02x in flight", i, x), mutA{BinderEdit: &binderEdit{Off: i, Xor: x}})
			}
		}
		addB("binder@in-flight", "every binder byte ^ff in flight", mutA{BinderEdit: &binderEdit{Off: -1, Xor: 0xff}})
		addB("binder@in-flight", "binder set to zero in flight", mutA{BinderEdit: &binderEdit{Off: -1, Zero: true}})
		addB("binder@client-nonce", "client derives PSK and binder from the ticket nonce with one zero byte appended", mutA{Nonce: append(append([]byte(nil), e.Gv.Nonce...), 0)})
	}
	// ticket of the other protocol version (sealed under the SAME current key)
	if cross != nil {
		add("cross-version", versName(crossVers)+" ticket of the same server offered in "+versName(e.sc.Vers), append([]byte(nil), cross...), false)
	}
	return out
}

// judgeA applies the oracle to one observed connection.
func judgeA(c *ev.Ctx, h ev.Hist, e *envA, m mutA, o *connOut) {
	v := versName(e.sc.Vers)
	w := func(obs string) witA {
		return witA{Part: "A", Scenario: e.sc, Mutation: m.Detail, Class: m.Class,
			Ticket: hex.EncodeToString(m.Bytes), Genuine: hex.EncodeToString(e.Gv.Ticket), Observed: obs,
			Master: hex.EncodeToString(m.Master), Nonce: hex.EncodeToString(m.Nonce), Binder: m.BinderEdit}
	}
	c.Evaluations.Add(1)
	if o.Panic != "" {
		c.Violation(fmt.Sprintf("%s %s: panic %s", v, m.Class, ev.MsgClass(o.Panic)), w(o.Panic))
		h["panic"]++
		return
	}
	if !bytes.Equal(o.Offered, m.Bytes) && !(len(o.Offered) == 0 && len(m.Bytes) == 0) {
		c.Incomplete(fmt.Sprintf("part A %s: the client did not put the prepared ticket on the wire (%s)", e.sc, m.Class))
		h["vacuous:not-offered"]++
		return
	}
	if m.Expect == mustNotMayFail {
		if m.BinderEdit != nil && o.MitmNote != "done" {
			c.Broken("part A %s: binder not rewritten in flight: %s", e.sc, o.MitmNote)
		}
		switch {
		case o.SRes || o.CRes || o.WireResumed == 1:
			c.Violation(fmt.Sprintf("%s %s: server ACCEPTED the PSK of an authentic ticket although the binder does not verify", v, m.Class),
				w(fmt.Sprintf("resumed(c/s/wire)=%v/%v/%d ok=%v %s", o.CRes, o.SRes, o.WireResumed, o.ok(), o.failure())))
			h["binder-accepted"]++
		case !o.ok():
			h[v+" "+m.Class+" => handshake aborted, PSK not accepted"]++
		default:
			h[v+" "+m.Class+" => full/non-PSK handshake"]++
			if !o.DataOK {
				c.Violation(fmt.Sprintf("%s %s ticket: application data does not flow after the handshake", v, m.Class), w(o.DataErr))
			}
		}
		return
	}
	if !o.ok() {
		if m.AllowMalformed {
			h[v+" empty PSK identity: hello rejected (allowed)"]++
			return
		}
		c.Violation(fmt.Sprintf("%s %s ticket: handshake failed instead of falling back", v, m.Class), w(o.failure()))
		h["handshake-failed"]++
		return
	}
	if o.CRes != o.SRes {
		c.Violation(fmt.Sprintf("%s %s ticket: client and server disagree on DidResume", v, m.Class), w(fmt.Sprintf("client=%v server=%v", o.CRes, o.SRes)))
	}
	if o.WireResumed >= 0 && (o.WireResumed == 1) != o.SRes {
		c.Violation(fmt.Sprintf("%s %s ticket: DidResume contradicts the handshake shape on the wire", v, m.Class), w(fmt.Sprintf("wire=%d server=%v", o.WireResumed, o.SRes)))
	}
	resumed := o.SRes || o.CRes || o.WireResumed == 1
	switch {
	case resumed && m.Expect == mustNot:
		c.Violation(fmt.Sprintf("%s %s ticket: RESUMED although the ticket is not authentic", v, m.Class), w("resumed, data ok="+fmt.Sprint(o.DataOK)))
		h["resumed-nonauthentic"]++
	case !resumed && m.Expect == mustResume:
		c.Violation(fmt.Sprintf("%s: authentic ticket under a current key (%s) did not resume", v, map[bool]string{true: "older", false: "head"}[e.sc.Variant == "oldkey"]), w("full handshake"))
		h["authentic-not-resumed"]++
	case resumed:
		h[v+" authentic => resumed"]++
	default:
		h[v+" "+m.Class+" => full/non-PSK handshake"]++
	}
	if resumed && (o.SVers != e.vers || o.SSuite != e.suite || o.CVers != e.vers || o.CSuite != e.suite) {
		c.Violation(fmt.Sprintf("%s: resumed session changed version or cipher suite", v), w(fmt.Sprintf("orig %04x/%04x now %04x/%04x", e.vers, e.suite, o.SVers, o.SSuite)))
	}
	if !resumed && (o.SVers != e.sc.Vers || o.CVers != e.sc.Vers || o.WireVers != e.sc.Vers) {
		c.Violation(fmt.Sprintf("%s %s ticket: fallback handshake negotiated another version", v, m.Class), w(fmt.Sprintf("%04x", o.SVers)))
	}
	if !o.DataOK {
		c.Violation(fmt.Sprintf("%s %s ticket: application data does not flow after the handshake", v, m.Class), w(o.DataErr))
		h["data-broken"]++
	}
}

// runMutA runs one mutation (twice: determinism proof) and judges it.
func runMutA(c *ev.Ctx, h ev.Hist, e *envA, m mutA) *connOut {
	var first *connOut
	for rep := 0; rep < 2; rep++ {
		cc, sc := e.configs("resume")
		e.serverResume(sc)
		v := e.Gv
		v.Ticket = m.Bytes
		if m.Master != nil {
			v.Master = m.Master
		}
		if m.Nonce != nil {
			v.Nonce = m.Nonce
		}
		var prep func(*tlsx.Net)
		note := ""
		if m.BinderEdit != nil {
			note = "ClientHello never written"
			prep = func(n *tlsx.Net) { n.Mitm = m.BinderEdit.apply(&note) }
		}
		o := runConnPrep(cc, sc, tls.VerifC31Derive(e.G, v), prep)
		o.MitmNote = note
		c.Transitions.Add(int64(o.Records))
		if rep == 0 {
			first = o
			continue
		}
		if o.Digest != first.Digest {
			c.Incomplete("part A: two executions of the same case produced different transcripts (non-determinism not owned)")
			h["nondeterministic"]++
		} else {
			c.Traces.Add(1)
		}
	}
	judgeA(c, h, e, m, first)
	return first
}

func prepareA(c *ev.Ctx, s scenA) *envA {
	e := &envA{sc: s, issueKey: key32("A-issue")}
	var o *connOut
	e.G, o = issueTicket(c, e, "issue", e.issueKey)
	e.Gv = tls.VerifC31View(e.G)
	checkSealing(c, versName(s.Vers), e.Gv.Ticket, e.issueKey, o.SVers, o.SSuite,
		witA{Part: "A", Scenario: s, Ticket: hex.EncodeToString(e.Gv.Ticket), Observed: "ticket issued by the initial handshake"})
	e.G2, _ = issueTicket(c, e, "issue-other", key32("A-other-server"))
	e.G2v = tls.VerifC31View(e.G2)
	g3, _ := issueTicket(c, e, "issue-again", e.issueKey)
	e.G3v = tls.VerifC31View(g3)
	e.vers, e.suite = o.SVers, o.SSuite
	return e
}

func partA(c *ev.Ctx) {
	var scens []scenA
	for _, v := range []uint16{tls.VersionTLS12, tls.VersionTLS13} {
		for _, va := range []string{"plain", "oldkey", "clientauth", "altsuite"} {
			if va == "altsuite" && c.Quick() {
				continue
			}
			scens = append(scens, scenA{v, va})
		}
	}
	// tickets issued at TLS 1.0 / 1.1 (same ticket format as 1.2, other record protection)
	scens = append(scens, scenA{tls.VersionTLS10, "plain"}, scenA{tls.VersionTLS11, "plain"})
	envs := map[string]*envA{}
	for _, s := range scens {
		envs[s.String()] = prepareA(c, s)
	}
	type job struct {
		e *envA
		m mutA
	}
	var jobs []job
	sizes := map[string]any{}
	for _, s := range scens {
		e := envs[s.String()]
		// the cross-version ticket comes from the scenario of the other version, same variant, same key
		ov := tls.VersionTLS13
		if s.Vers == tls.VersionTLS13 || s.Vers < tls.VersionTLS12 {
			ov = tls.VersionTLS12
		}
		cross := envs[scenA{uint16(ov), s.Variant}.String()].Gv.Ticket
		ms := mutationsA(e, e.G2v.Ticket, cross, uint16(ov), !c.Quick() && s.Variant == "plain")
		sizes[s.String()] = map[string]int{"ticket_bytes": len(e.Gv.Ticket), "mutations": len(ms)}
		for _, m := range ms {
			jobs = append(jobs, job{e, m})
		}
	}
	c.Set("partA_scenarios", sizes)
	W := c.Workers()
	hs := make([]ev.Hist, W)
	for i := range hs {
		hs[i] = ev.Hist{}
	}
	done := c.Parallel(len(jobs), func(w, i int) {
		runMutA(c, hs[w], jobs[i].e, jobs[i].m)
		c.States.Add(1)
	})
	if !done {
		c.Incomplete("part A: budget hit before all ticket mutations were run")
	}
	for _, h := range hs {
		c.Merge(h)
	}
	c.Set("partA_cases", len(jobs))
	if c.WantSample() && len(jobs) > 40 {
		j := jobs[37]
		c.Sample(map[string]any{"part": "A", "scenario": j.e.sc.String(), "mutation": j.m.Detail, "expect_resume": j.m.Expect == mustResume})
	}
}

func replayA(c *ev.Ctx, raw json.RawMessage) {
	var w witA
	if err := json.Unmarshal(raw, &w); err != nil {
		c.Broken("bad witness: %v", err)
	}
	e := prepareA(c, w.Scenario)
	b, _ := hex.DecodeString(w.Ticket)
	exp := mustNot
	if bytes.Equal(b, e.Gv.Ticket) {
		exp = mustResume
	}
	h := ev.Hist{}
	m := mutA{Class: w.Class, Detail: w.Mutation, Bytes: b, Expect: exp,
		AllowMalformed: len(b) == 0 && w.Scenario.Vers == tls.VersionTLS13}
	if w.Master != "" || w.Nonce != "" || w.Binder != nil {
		m.Expect, m.BinderEdit = mustNotMayFail, w.Binder
		if w.Master != "" {
			m.Master, _ = hex.DecodeString(w.Master)
		}
		if w.Nonce != "" {
			m.Nonce, _ = hex.DecodeString(w.Nonce)
		}
	}
	o := runMutA(c, h, e, m)
	c.Merge(h)
	c.States.Add(1)
	fmt.Printf("replay A %s [%s]: ok=%v resumed(c/s/wire)=%v/%v/%d data=%v %s\n", w.Scenario, w.Mutation, o.ok(), o.CRes, o.SRes, o.WireResumed, o.DataOK, o.failure())
}
