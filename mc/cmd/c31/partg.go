package main

// Part G — GetConfigForClient as a configuration dimension. The listener Config has explicit ticket keys K1 or
// automatically managed keys; its GetConfigForClient is unset, returns nil, the listener Config itself, a Config with
// explicit keys (SetSessionTicketKeys [K2] / legacy SessionTicketKey K3), a Config with SessionTicketsDisabled, a Config
// with no keys of its own (never used / used before as a listener, i.e. carrying automatic keys of its own).
// One ticket is issued under every arrangement (plus one by the "used before" Config acting as a listener itself) and
// offered to every arrangement at the issuing time and 25 h later.
//
// Reference, transcribed from the documentation of Config.GetConfigForClient ("If the returned Config is nil, the
// original Config will be used. ... If SessionTicketKey was explicitly set on the returned Config, or if
// SetSessionTicketKeys was called on the returned Config, those keys will be used. Otherwise, the original Config keys
// will be used (and possibly rotated if they are automatically managed)") and of SessionTicketsDisabled ("disable session
// ticket and PSK (resumption) support"): the keys in force for a connection are
//	returned Config has explicit keys      -> those keys
//	returned Config disables tickets       -> none
//	otherwise (unset, nil, same, no keys)  -> the listener Config's keys
// and a ticket resumes exactly when it was sealed under a key in force for the connection.

import (
	"encoding/hex"
	"encoding/json"
	"fmt"
	"time"

	"github.com/zmap/zcrypto/tls"
	"verifmc/internal/ev"
	"verifmc/internal/fx"
	"verifmc/internal/tlsx"
)

type arrG struct {
	L string `json:"listener_keys"`         // "K1" (explicit, SetSessionTicketKeys) | "auto"
	G string `json:"get_config_for_client"` // see gKindsG
}

var lKindsG = []string{"K1", "auto"}
var gKindsG = []string{"unset", "returns-nil", "returns-listener-config", "explicit-K2", "legacy-SessionTicketKey-K3", "SessionTicketsDisabled", "no-keys-fresh", "no-keys-but-own-automatic-keys"}

// foreignG: the Config that "no-keys-but-own-automatic-keys" returns, acting as a listener itself (issuer only).
var foreignG = arrG{L: "auto-of-the-other-Config", G: "unset"}

func (a arrG) String() string { return "listener=" + a.L + ",GetConfigForClient=" + a.G }

// inForce is the reference: the label of the key set in force for a connection handled under arrangement a ("" = none).
func (a arrG) inForce() string {
	switch a.G {
	case "explicit-K2":
		return "K2"
	case "legacy-SessionTicketKey-K3":
		return "K3"
	case "SessionTicketsDisabled":
		return ""
	}
	return a.L
}

// source names, for signatures, where the keys in force come from.
func (a arrG) source() string {
	switch a.G {
	case "explicit-K2", "legacy-SessionTicketKey-K3":
		return "the explicit keys of the Config returned by GetConfigForClient"
	case "SessionTicketsDisabled":
		return "none (the returned Config disables tickets)"
	case "unset":
		return "the listener Config's keys (GetConfigForClient unset)"
	}
	return "the listener Config's keys (GetConfigForClient returned nil / the listener Config / a Config without keys)"
}

type worldG struct {
	vers         uint16
	lk1, la, la2 *tls.Config
}

func newWorldG(c *ev.Ctx, vers uint16) *worldG {
	w := &worldG{vers: vers}
	v := versName(vers)
	_, w.lk1 = cfgPair(idEd, "G-lk1-"+v, vers, vers)
	w.lk1.SetSessionTicketKeys([][32]byte{key32("g-k1")})
	_, w.la = cfgPair(idEd, "G-la-"+v, vers, vers)
	_, w.la2 = cfgPair(idEd, "G-la2-"+v, vers, vers)
	// one handshake each creates the automatic key of the two automatic Configs (T0); later clones share it
	for i, sc := range []*tls.Config{w.la, w.la2} {
		cc, _ := cfgPair(idEd, fmt.Sprintf("G-warm-%s-%d", v, i), vers, vers)
		out := runConn(cc, sc, nil)
		c.Traces.Add(1)
		c.Transitions.Add(int64(out.Records))
		if !out.ok() {
			c.Broken("part G: warm-up handshake failed: %s", out.failure())
		}
	}
	return w
}

func autoRefKey(sc *tls.Config) (refKey, bool) {
	_, auto := tls.VerifC31Keys(sc)
	if len(auto) == 0 {
		return refKey{}, false
	}
	var k refKey
	copy(k.name[:], auto[0].Name)
	copy(k.aes[:], auto[0].AES)
	copy(k.mac[:], auto[0].HMAC)
	return k, true
}

// keyOf returns the reference codec key for a label of inForce.
func (w *worldG) keyOf(label string) (refKey, bool) {
	switch label {
	case "K1":
		return refKeyFrom(key32("g-k1")), true
	case "K2":
		return refKeyFrom(key32("g-k2")), true
	case "K3":
		return refKeyFrom(key32("g-k3")), true
	case "auto":
		return autoRefKey(w.la)
	case foreignG.L:
		return autoRefKey(w.la2)
	}
	return refKey{}, false
}

// server builds the listener Config of an arrangement (a private clone: jobs run in parallel) with the clock at T0+hours.
func (w *worldG) server(a arrG, hours int, seed string) *tls.Config {
	now := func() time.Time { return fx.T0.Add(time.Duration(hours) * time.Hour) }
	base := w.la
	switch a.L {
	case "K1":
		base = w.lk1
	case foreignG.L:
		base = w.la2
	}
	l := base.Clone()
	l.Time = now
	l.Rand = tlsx.NewDetRand("G-srv-" + seed)
	// the Config returned by the callback is created per connection and never modified afterwards
	fresh := func() *tls.Config {
		_, sc := cfgPair(idEd, "G-ret-"+seed, w.vers, w.vers)
		sc.Time = now
		return sc
	}
	ret := func(f func() *tls.Config) {
		l.GetConfigForClient = func(*tls.ClientHelloInfo) (*tls.Config, error) { return f(), nil }
	}
	switch a.G {
	case "unset":
	case "returns-nil":
		ret(func() *tls.Config { return nil })
	case "returns-listener-config":
		ret(func() *tls.Config { return l })
	case "explicit-K2":
		ret(func() *tls.Config { sc := fresh(); sc.SetSessionTicketKeys([][32]byte{key32("g-k2")}); return sc })
	case "legacy-SessionTicketKey-K3":
		ret(func() *tls.Config { sc := fresh(); sc.SessionTicketKey = key32("g-k3"); return sc })
	case "SessionTicketsDisabled":
		ret(func() *tls.Config { sc := fresh(); sc.SessionTicketsDisabled = true; return sc })
	case "no-keys-fresh":
		ret(fresh)
	case "no-keys-but-own-automatic-keys":
		ret(func() *tls.Config {
			sc := w.la2.Clone()
			sc.Time = now
			sc.Rand = tlsx.NewDetRand("G-ret-" + seed)
			return sc
		})
	}
	return l
}

type tktG struct {
	From  arrG
	st    *tls.ClientSessionState
	view  tls.VerifC31State
	label string // reference: key set in force when it was issued
	vers  uint16
	suite uint16
}

type witG struct {
	Part   string `json:"part"`
	Vers   uint16 `json:"vers"`
	Issue  arrG   `json:"ticket_issued_under"`
	Offer  *arrG  `json:"offered_to,omitempty"`
	Hours  int    `json:"hours_after_issue"`
	Detail string `json:"detail"`
}

// issueG performs the issuing full handshake of an arrangement and checks the seal of the ticket.
func issueG(c *ev.Ctx, h ev.Hist, w *worldG, a arrG) *tktG {
	seed := fmt.Sprintf("issue-%s-%s", versName(w.vers), a)
	cc, _ := cfgPair(idEd, "G-"+seed, w.vers, w.vers)
	out := runConn(cc, w.server(a, 0, seed), nil)
	c.Traces.Add(1)
	c.Evaluations.Add(1)
	c.Transitions.Add(int64(out.Records))
	wit := witG{Part: "G", Vers: w.vers, Issue: a}
	if !out.ok() {
		wit.Detail = out.failure()
		c.Violation("G: full handshake failed under a GetConfigForClient arrangement", wit)
		return nil
	}
	if out.SRes || out.CRes || out.WireResumed == 1 {
		c.Violation("G: handshake without a ticket reports a resumption", wit)
	}
	label := a.inForce()
	if len(out.Puts) == 0 {
		if label == "" {
			h["G issue: no keys in force => no ticket issued"]++
		} else {
			h["G issue: keys in force but no ticket issued"]++
		}
		return nil
	}
	t := &tktG{From: a, st: out.Puts[0], view: tls.VerifC31View(out.Puts[0]), label: label, vers: out.SVers, suite: out.SSuite}
	if label == "" {
		// the statement is about resumption; a ticket handed out although tickets are disabled is recorded and must not resume anywhere
		h["G issue: no keys in force but a ticket was issued (offered everywhere, must not resume)"]++
		t.label = "none"
		return t
	}
	k, ok := w.keyOf(label)
	c.Evaluations.Add(1)
	if !ok {
		c.Broken("part G: no reference key for %s", label)
		return nil
	}
	if pt, err := refOpen(t.view.Ticket, k); err != nil {
		wit.Detail = "reference open under the head of the keys in force (" + label + "): " + err.Error() + "; ticket " + hex.EncodeToString(t.view.Ticket[:min(len(t.view.Ticket), 32)])
		c.Violation("G: issued ticket is not sealed under the keys in force for the connection: "+a.source(), wit)
		h["G issue: NOT sealed under the keys in force"]++
		// what it is really sealed under decides nothing in the reference: it is still offered as a ticket 'of' its arrangement
	} else if hd := refParseHeader(pt); !hd.ok || hd.vers != out.SVers || hd.suite != out.SSuite {
		c.Violation(hdrSig, wit)
	} else {
		h["G issue: sealed under "+a.source()]++
	}
	return t
}

func offerG(c *ev.Ctx, h ev.Hist, w *worldG, t *tktG, a arrG, hours int) {
	seed := fmt.Sprintf("offer-%s-%s-to-%s-%d", versName(w.vers), t.From, a, hours)
	cc, _ := cfgPair(idEd, "G-"+seed, w.vers, w.vers)
	out := runConn(cc, w.server(a, hours, seed), t.st)
	c.Traces.Add(1)
	c.Evaluations.Add(1)
	c.States.Add(1)
	c.Transitions.Add(int64(out.Records))
	wit := witG{Part: "G", Vers: w.vers, Issue: t.From, Offer: &a, Hours: hours}
	if out.Panic != "" {
		wit.Detail = out.Panic
		c.Violation("G: panic "+ev.MsgClass(out.Panic), wit)
		return
	}
	if !out.ok() {
		wit.Detail = out.failure()
		c.Violation("G: handshake offering a ticket failed under a GetConfigForClient arrangement", wit)
		return
	}
	if t.view.Ticket != nil && string(out.Offered) != string(t.view.Ticket) {
		c.Incomplete("part G: the client did not offer the stored ticket")
		h["vacuous:not-offered"]++
		return
	}
	resumed := out.SRes || out.CRes || out.WireResumed == 1
	if out.CRes != out.SRes || (out.WireResumed >= 0 && (out.WireResumed == 1) != out.SRes) {
		wit.Detail = fmt.Sprintf("client=%v server=%v wire=%d", out.CRes, out.SRes, out.WireResumed)
		c.Violation("G: DidResume inconsistent between client, server and wire shape", wit)
	}
	if !out.DataOK {
		wit.Detail = out.DataErr
		c.Violation("G: application data does not flow after the handshake", wit)
	}
	force := a.inForce()
	want := force != "" && force == t.label
	wit.Detail = fmt.Sprintf("ticket sealed under %s; keys in force for the connection: %q from %s", t.label, force, a.source())
	rel := "a key that is not in force for the connection"
	if want {
		rel = "a key in force for the connection"
	}
	switch {
	case resumed && !want:
		c.Violation("G: ticket sealed under "+rel+" RESUMED; keys in force: "+a.source(), wit)
	case !resumed && want:
		c.Violation("G: ticket sealed under "+rel+" did NOT resume; keys in force: "+a.source(), wit)
	}
	if resumed && (out.SVers != t.vers || out.SSuite != t.suite || out.CVers != t.vers || out.CSuite != t.suite) {
		c.Violation("G: resumed session changed version or cipher suite", wit)
	}
	res := "full/non-PSK"
	if resumed {
		res = "resumed"
	}
	h[fmt.Sprintf("G %s offer: ticket under %s, in force %s (+%dh) => %s", versName(w.vers), rel, a.source(), hours, res)]++
}

func arrangementsG() []arrG {
	var out []arrG
	for _, l := range lKindsG {
		for _, g := range gKindsG {
			out = append(out, arrG{l, g})
		}
	}
	return out
}

// offer times, hours after the issue (well inside the 7 days of tickets and automatic keys); thorough adds +1 h and +49 h
var hoursG = []int{0, 25}

func partG(c *ev.Ctx) {
	arrs := arrangementsG()
	hoursG := ev.Pick(c, hoursG, []int{0, 1, 25, 49})
	W := c.Workers()
	hs := make([]ev.Hist, W)
	for i := range hs {
		hs[i] = ev.Hist{}
	}
	cells := 0
	for _, vers := range []uint16{tls.VersionTLS12, tls.VersionTLS13} {
		w := newWorldG(c, vers)
		issuers := append(append([]arrG(nil), arrs...), foreignG)
		tks := make([]*tktG, len(issuers))
		c.Parallel(len(issuers), func(wk, i int) { tks[i] = issueG(c, hs[wk], w, issuers[i]) })
		var have []*tktG
		for _, t := range tks {
			if t != nil {
				have = append(have, t)
			}
		}
		n := len(have) * len(arrs) * len(hoursG)
		done := c.Parallel(n, func(wk, i int) {
			t := have[i/(len(arrs)*len(hoursG))]
			a := arrs[i/len(hoursG)%len(arrs)]
			offerG(c, hs[wk], w, t, a, hoursG[i%len(hoursG)])
		})
		if !done {
			c.Incomplete("part G: budget hit before the GetConfigForClient matrix was complete")
		}
		cells += n
	}
	for _, h := range hs {
		c.Merge(h)
	}
	c.Set("partG_arrangements", len(arrs))
	c.Set("partG_cells", cells)
}

func replayG(c *ev.Ctx, raw json.RawMessage) {
	var wt witG
	if err := json.Unmarshal(raw, &wt); err != nil {
		c.Broken("bad witness: %v", err)
	}
	h := ev.Hist{}
	w := newWorldG(c, wt.Vers)
	t := issueG(c, h, w, wt.Issue)
	if t != nil && wt.Offer != nil {
		offerG(c, h, w, t, *wt.Offer, wt.Hours)
	}
	c.Merge(h)
	fmt.Printf("replay G: %v\n", h)
}
