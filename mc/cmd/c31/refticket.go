package main

// Reference session-ticket codec, written from the documented wire layout
//   key_name[16] || iv[16] || AES-128-CTR(state) || HMAC-SHA256(key_name||iv||ciphertext)
// with (key_name, aes_key, hmac_key) = SHA-512(32-byte external key)[0:16],[16:32],[32:48],
// using only the Go standard library. It is used (1) to check that every ticket the
// server issues is sealed under the HEAD of its current key list and that every byte
// before the MAC is authenticated, (2) to build foreign-key / re-sealed tickets,
// (3) to read the plaintext header (version, suite, creation time) of tickets.

import (
	"crypto/aes"
	"crypto/cipher"
	"crypto/hmac"
	"crypto/sha256"
	"crypto/sha512"
	"encoding/binary"
	"errors"
)

type refKey struct {
	name [16]byte
	aes  [16]byte
	mac  [16]byte
}

func refKeyFrom(ext [32]byte) refKey {
	h := sha512.Sum512(ext[:])
	var k refKey
	copy(k.name[:], h[0:16])
	copy(k.aes[:], h[16:32])
	copy(k.mac[:], h[32:48])
	return k
}

const tktOverhead = 16 + 16 + 32

// refOpen authenticates and decrypts a ticket under one key.
func refOpen(t []byte, k refKey) ([]byte, error) {
	if len(t) < tktOverhead {
		return nil, errors.New("short")
	}
	if string(t[:16]) != string(k.name[:]) {
		return nil, errors.New("key name differs")
	}
	m := hmac.New(sha256.New, k.mac[:])
	m.Write(t[:len(t)-32])
	if !hmac.Equal(m.Sum(nil), t[len(t)-32:]) {
		return nil, errors.New("mac differs")
	}
	blk, _ := aes.NewCipher(k.aes[:])
	ct := t[32 : len(t)-32]
	pt := make([]byte, len(ct))
	cipher.NewCTR(blk, t[16:32]).XORKeyStream(pt, ct)
	return pt, nil
}

// refSeal seals a plaintext state under key k (name taken from nameOf, which
// allows "foreign key material under the genuine name").
func refSeal(pt []byte, k refKey, nameOf refKey, iv []byte) []byte {
	out := make([]byte, 0, len(pt)+tktOverhead)
	out = append(out, nameOf.name[:]...)
	out = append(out, iv[:16]...)
	blk, _ := aes.NewCipher(k.aes[:])
	ct := make([]byte, len(pt))
	cipher.NewCTR(blk, iv[:16]).XORKeyStream(ct, pt)
	out = append(out, ct...)
	m := hmac.New(sha256.New, k.mac[:])
	m.Write(out)
	return m.Sum(out)
}

// refHeader is the leading fixed part of a ticket plaintext.
type refHeader struct {
	is13      bool
	vers      uint16
	suite     uint16
	createdAt uint64
	ok        bool
}

// refParseHeader reads vers/suite/createdAt of a TLS <=1.2 state
// (uint16 vers, uint16 suite, uint64 createdAt, ...) or of a TLS 1.3 state
// (uint16 0x0304, uint8 revision, uint16 suite, uint64 createdAt, ...).
func refParseHeader(pt []byte) refHeader {
	var h refHeader
	if len(pt) < 2 {
		return h
	}
	v := binary.BigEndian.Uint16(pt)
	if v == 0x0304 {
		if len(pt) < 13 {
			return h
		}
		h.is13, h.vers = true, v
		h.suite = binary.BigEndian.Uint16(pt[3:])
		h.createdAt = binary.BigEndian.Uint64(pt[5:])
		h.ok = true
		return h
	}
	if len(pt) < 12 {
		return h
	}
	h.vers = v
	h.suite = binary.BigEndian.Uint16(pt[2:])
	h.createdAt = binary.BigEndian.Uint64(pt[4:])
	h.ok = true
	return h
}

// refSetHeader returns a copy of pt with version / suite / createdAt rewritten
// (fields < 0 are left alone).
func refSetHeader(pt []byte, vers, suite int, createdAt int64) []byte {
	out := append([]byte(nil), pt...)
	h := refParseHeader(pt)
	if !h.ok {
		return out
	}
	so, co := 2, 4
	if h.is13 {
		so, co = 3, 5
	}
	if vers >= 0 && !h.is13 {
		binary.BigEndian.PutUint16(out[0:], uint16(vers))
	}
	if suite >= 0 {
		binary.BigEndian.PutUint16(out[so:], uint16(suite))
	}
	if createdAt >= 0 {
		binary.BigEndian.PutUint64(out[co:], uint64(createdAt))
	}
	return out
}
