package main

// Part B — key-rotation histories (E1). One server Config is driven by
// SetSessionTicketKeys / clock / handshake / resumption operations; a reference
// model written from the property statement and the documentation of
// SetSessionTicketKeys / SessionTicketKey decides, for every resumption attempt,
// whether the ticket must, must not or may resume.

import (
	"encoding/hex"
	"encoding/json"
	"fmt"
	"strings"
	"time"

	"github.com/zmap/zcrypto/tls"
	"verifmc/internal/ev"
	"verifmc/internal/fx"
	"verifmc/internal/tlsx"
)

type opB struct {
	name string
	kind byte // 's' set keys, 'a' advance clock, 'h' full handshake, 'r' resume
	keys []string
	arg  int
}

var opsB = []opB{
	{name: "Set[k1]", kind: 's', keys: []string{"k1"}},
	{name: "Set[k2,k1]", kind: 's', keys: []string{"k2", "k1"}},
	{name: "Set[k2]", kind: 's', keys: []string{"k2"}},
	{name: "Set[k3,k2]", kind: 's', keys: []string{"k3", "k2"}},
	{name: "Clock+1h", kind: 'a', arg: 1},
	{name: "Clock+25h", kind: 'a', arg: 25},
	{name: "Clock+8d", kind: 'a', arg: 192},
	{name: "Handshake", kind: 'h'},
	{name: "Resume(t0)", kind: 'r', arg: 0},
	{name: "Resume(t1)", kind: 'r', arg: 1},
	{name: "Resume(t2)", kind: 'r', arg: 2},
}

const provFallbackAge = "the fallback full handshake after an authentic ticket was refused for its age"

const maxTicketsB = 3
const lifetimeH = 7 * 24

// tktB is a ticket the client received, with what the reference knows about it.
type tktB struct {
	st         *tls.ClientSessionState
	view       tls.VerifC31State
	keyLabel   string // reference: label of the key at the head of the list when issued ("k1".."k3","L", or "auto")
	autoKeyH   int    // auto mode: creation hour of the issuing key (observed; canonical form only)
	originMin  int    // hours since T0: earliest/latest time the session can be said to originate
	originMax  int
	vers       uint16
	suite      uint16
	hdrCreated int64  // createdAt of the plaintext header, hours since T0 (canonical form only)
	prov       string // provenance, part of violation signatures
}

type stB struct {
	init    string // "auto" | "legacy"
	vers    uint16
	sc      *tls.Config
	hours   int
	tickets []*tktB
	mode    string   // reference: "auto" | "manual"
	keys    []string // reference: labels of the current explicit keys, head first
	path    []int
	expand  bool
	key     string
	last    string // outcome summary of the last operation (for the branch-vs-replay check)
}

func (s *stB) pathNames() []string {
	out := make([]string, len(s.path))
	for i, o := range s.path {
		out[i] = opsB[o].name
	}
	return out
}

func (s *stB) seed() string {
	parts := make([]string, len(s.path))
	for i, o := range s.path {
		parts[i] = fmt.Sprint(o)
	}
	return fmt.Sprintf("B-%s-%s-%s", s.init, versName(s.vers), strings.Join(parts, "."))
}

func (s *stB) bind() {
	st := s
	s.sc.Time = func() time.Time { return fx.T0.Add(time.Duration(st.hours) * time.Hour) }
}

func newRootB(init string, vers uint16) *stB {
	_, sc := cfgPair(idEd, "B-root", vers, vers)
	s := &stB{init: init, vers: vers, sc: sc, mode: "auto", expand: true}
	if init == "legacy" {
		sc.SessionTicketKey = key32("L")
		s.mode, s.keys = "manual", []string{"L"}
	}
	s.bind()
	s.key = s.canon()
	return s
}

func hoursOf(t time.Time) int { return int(t.Sub(fx.T0) / time.Hour) }

func (s *stB) canon() string {
	var b strings.Builder
	fmt.Fprintf(&b, "%s|%v|%d|", s.mode, s.keys, s.hours)
	man, auto := tls.VerifC31Keys(s.sc)
	for _, k := range man {
		b.WriteString(hex.EncodeToString(k.Name[:4]) + ",")
	}
	b.WriteString("|")
	if s.mode == "auto" {
		for _, k := range auto {
			fmt.Fprintf(&b, "a@%d,", hoursOf(k.Created))
		}
	}
	b.WriteString("|")
	for _, t := range s.tickets {
		fmt.Fprintf(&b, "{%s a%d o%d-%d c%d %04x %04x}", t.keyLabel, t.autoKeyH, t.originMin, t.originMax, t.hdrCreated, t.vers, t.suite)
	}
	return b.String()
}

type witB struct {
	Part   string   `json:"part"`
	Init   string   `json:"init"`
	Vers   uint16   `json:"vers"`
	Ops    []string `json:"ops"`
	OpIdx  []int    `json:"op_idx"`
	Detail string   `json:"detail"`
}

// headKey returns the reference codec key of the head of the server's current
// list: from the reference labels in manual mode, from the observed auto list otherwise.
func (s *stB) headKey() (refKey, string, int, bool) {
	if s.mode == "manual" {
		return refKeyFrom(key32(s.keys[0])), s.keys[0], 0, true
	}
	_, auto := tls.VerifC31Keys(s.sc)
	if len(auto) == 0 {
		return refKey{}, "auto", 0, false
	}
	var k refKey
	copy(k.name[:], auto[0].Name)
	copy(k.aes[:], auto[0].AES)
	copy(k.mac[:], auto[0].HMAC)
	return k, "auto", hoursOf(auto[0].Created), true
}

// stepB applies one operation. With clone=true the parent is left untouched
// (the child works on parent.sc.Clone()); with clone=false the state is advanced in place.
func stepB(c *ev.Ctx, h ev.Hist, parent *stB, op int, clone, report bool) *stB {
	o := opsB[op]
	if o.kind == 'r' && o.arg >= len(parent.tickets) {
		return nil
	}
	s := parent
	if clone {
		n := *parent
		n.sc = parent.sc.Clone()
		n.tickets = append([]*tktB(nil), parent.tickets...)
		n.keys = append([]string(nil), parent.keys...)
		n.path = append(append([]int(nil), parent.path...), op)
		s = &n
		s.bind()
	} else {
		s.path = append(s.path, op)
	}
	s.expand = true
	s.last = ""
	v := versName(s.vers)
	viol := func(sig, detail string) {
		if !strings.Contains(sig, "RESUMED") && !strings.Contains(sig, "did NOT resume") {
			s.expand = false // the run is not meaningful beyond this point; verdict mismatches keep a well-defined state
		}
		if report {
			if !strings.HasPrefix(sig, "@") {
				sig = v + ": " + sig
			}
			full := "B " + strings.TrimPrefix(sig, "@")
			if strings.HasPrefix(sig, "@@") {
				full = strings.TrimPrefix(sig, "@@") // signatures shared with parts A and C
			}
			c.Violation(full, witB{"B", s.init, s.vers, s.pathNames(), append([]int(nil), s.path...), detail})
		}
	}
	switch o.kind {
	case 's':
		var ks [][32]byte
		for _, l := range o.keys {
			ks = append(ks, key32(l))
		}
		s.sc.SetSessionTicketKeys(ks)
		s.mode, s.keys = "manual", append([]string(nil), o.keys...)
		c.Transitions.Add(1)
	case 'a':
		s.hours += o.arg
	case 'h', 'r':
		s.sc.Rand = tlsx.NewDetRand("s-" + s.seed())
		cc, _ := cfgPair(idEd, s.seed(), s.vers, s.vers)
		var inject *tls.ClientSessionState
		var t *tktB
		expect := mustNot
		why := ""
		if o.kind == 'r' {
			t = s.tickets[o.arg]
			inject = t.st
			// ---- reference verdict ----
			current := false
			pos := "head"
			if s.mode == "manual" {
				for i, l := range s.keys {
					if l == t.keyLabel {
						current = true
						if i > 0 {
							pos = "older"
						}
					}
				}
			} else {
				current = t.keyLabel == "auto"
				pos = "auto"
			}
			ageMin, ageMax := s.hours-t.originMax, s.hours-t.originMin
			switch {
			case !current:
				expect, why = mustNot, "rotated-out"
			case ageMin > lifetimeH:
				expect, why = mustNot, "expired"
			case ageMax >= lifetimeH:
				expect, why = either, "possibly-expired"
			case s.mode == "auto" && ageMax >= lifetimeH-24:
				// an automatic key may be up to 24 h older than the ticket and is dropped after 7 days
				expect, why = either, "auto-key-possibly-dropped"
			default:
				expect, why = mustResume, "current-key("+pos+")"
			}
		}
		out := runConn(cc, s.sc, inject)
		c.Transitions.Add(int64(out.Records))
		c.Traces.Add(1)
		c.Evaluations.Add(1)
		if out.Panic != "" {
			viol("panic "+ev.MsgClass(out.Panic), out.Panic)
			s.key = s.canon()
			return s
		}
		if !out.ok() {
			viol(fmt.Sprintf("handshake failed (%s, ticket %s)", opsB[op].name[:6], why), out.failure())
			s.key = s.canon()
			return s
		}
		resumed := out.SRes || out.CRes || out.WireResumed == 1
		if out.CRes != out.SRes || (out.WireResumed >= 0 && (out.WireResumed == 1) != out.SRes) {
			viol("DidResume inconsistent between client, server and wire shape", fmt.Sprintf("client=%v server=%v wire=%d", out.CRes, out.SRes, out.WireResumed))
		}
		if !out.DataOK {
			viol("application data does not flow after the handshake", out.DataErr)
		}
		if o.kind == 'h' {
			if resumed {
				viol("handshake without a ticket reports a resumption", "")
			}
			h["B "+v+" full handshake"]++
		} else {
			if t.view.Ticket != nil && string(out.Offered) != string(t.view.Ticket) {
				c.Incomplete("part B: the client did not offer the stored ticket")
				h["vacuous:not-offered"]++
			}
			switch {
			case resumed && expect == mustNot:
				viol(fmt.Sprintf("%s ticket RESUMED", why), fmt.Sprintf("ticket key %s, server keys %v mode %s, age %d..%dh", t.keyLabel, s.keys, s.mode, s.hours-t.originMax, s.hours-t.originMin))
			case !resumed && expect == mustResume:
				detail := fmt.Sprintf("ticket key %s, server keys %v mode %s, age %d..%dh, header createdAt %dh", t.keyLabel, s.keys, s.mode, s.hours-t.originMax, s.hours-t.originMin, t.hdrCreated)
				if t.prov == provFallbackAge {
					// one signature for this provenance, whatever the key position
					viol("@ticket issued by "+t.prov+", sealed under a current key and not older than 7 days, did NOT resume", detail)
				} else {
					viol(fmt.Sprintf("@ticket under %s, not older than 7 days, did NOT resume (ticket issued by %s)", why, t.prov), detail)
				}
			}
			if resumed && (out.SVers != t.vers || out.SSuite != t.suite || out.CVers != t.vers || out.CSuite != t.suite) {
				viol("resumed session changed version or cipher suite", fmt.Sprintf("orig %04x/%04x now %04x/%04x", t.vers, t.suite, out.SVers, out.SSuite))
			}
			if resumed {
				h["B "+v+" resume: "+why+" => resumed"]++
			} else {
				h["B "+v+" resume: "+why+" => full/non-PSK"]++
			}
		}
		s.last = fmt.Sprintf("res=%v puts=%d vers=%04x suite=%04x", resumed, len(out.Puts), out.SVers, out.SSuite)
		// ---- tickets delivered to the client on this connection ----
		hk, label, autoH, haveHead := s.headKey()
		for _, p := range out.Puts {
			nt := &tktB{st: p, view: tls.VerifC31View(p), keyLabel: label, autoKeyH: autoH, vers: out.SVers, suite: out.SSuite,
				originMin: s.hours, originMax: s.hours, hdrCreated: -1}
			switch {
			case o.kind == 'h':
				nt.prov = "an initial full handshake"
			case resumed:
				nt.prov = "a resumed handshake"
				nt.originMin = t.originMin // a refreshed ticket may keep the age of the session it continues
			default:
				nt.prov = provFallbackAge
				if why == "rotated-out" {
					nt.prov = "the fallback full handshake after a rotated-out ticket was refused"
				}
			}
			if haveHead {
				pt, err := refOpen(nt.view.Ticket, hk)
				c.Evaluations.Add(1)
				if err != nil {
					viol("@@"+sealSig+err.Error(), hex.EncodeToString(nt.view.Ticket))
				} else if hd := refParseHeader(pt); !hd.ok || hd.vers != out.SVers || hd.suite != out.SSuite {
					viol("@@"+hdrSig, hex.EncodeToString(pt[:min(len(pt), 16)]))
				} else {
					nt.hdrCreated = (int64(hd.createdAt) - fx.T0.Unix()) / 3600
				}
			}
			if len(s.tickets) < maxTicketsB {
				s.tickets = append(s.tickets, nt)
			}
		}
	}
	s.key = s.canon()
	return s
}

type statsB struct {
	States, Edges, Depth int
	Closed               bool
}

func exploreB(c *ev.Ctx, init string, vers uint16, maxDepth int) statsB {
	var res statsB
	root := newRootB(init, vers)
	seen := map[string]bool{root.key: true}
	res.States = 1
	frontier := []*stB{root}
	W := c.Workers()
	hs := make([]ev.Hist, W)
	for i := range hs {
		hs[i] = ev.Hist{}
	}
	defer func() {
		for _, h := range hs {
			c.Merge(h)
		}
	}()
	nOps := len(opsB)
	for depth := 0; depth < maxDepth && len(frontier) > 0; depth++ {
		out := make([]*stB, len(frontier)*nOps)
		done := c.Parallel(len(out), func(w, i int) {
			out[i] = stepB(c, hs[w], frontier[i/nOps], i%nOps, true, true)
		})
		if !done {
			c.Incomplete(fmt.Sprintf("part B %s/%s: budget hit while expanding depth %d", init, versName(vers), depth+1))
			return res
		}
		var next []*stB
		for _, ch := range out {
			if ch == nil {
				continue
			}
			res.Edges++
			if seen[ch.key] {
				continue
			}
			seen[ch.key] = true
			res.States++
			if ch.expand {
				next = append(next, ch)
			}
		}
		// branch-vs-replay equivalence on shallow histories: replaying the whole
		// history in place on ONE Config (no Clone) must reach the same canonical state.
		if depth+1 <= 3 {
			c.Parallel(len(next), func(w, i int) {
				r := replayPathB(c, ev.Hist{}, init, vers, next[i].path, false)
				if r == nil || r.key != next[i].key || r.last != next[i].last {
					c.Violation("B "+versName(vers)+": history replayed on one Config differs from the same history branched through Config.Clone",
						witB{"B", init, vers, next[i].pathNames(), next[i].path, "clone: " + next[i].key + " / replay: " + fmt.Sprint(r != nil && r.key == next[i].key)})
				}
			})
			c.Add("partB_branch_vs_replay_checked", int64(len(next)))
		}
		frontier = next
		res.Depth = depth + 1
	}
	res.Closed = len(frontier) == 0
	return res
}

func replayPathB(c *ev.Ctx, h ev.Hist, init string, vers uint16, path []int, report bool) *stB {
	s := newRootB(init, vers)
	for _, op := range path {
		if op < 0 || op >= len(opsB) {
			return nil
		}
		n := stepB(c, h, s, op, false, report)
		if n == nil {
			return nil
		}
	}
	return s
}

func partB(c *ev.Ctx) {
	maxDepth := ev.Pick(c, 5, 7)
	c.Set("partB_max_depth", maxDepth)
	closed := true
	for _, vers := range []uint16{tls.VersionTLS12, tls.VersionTLS13} {
		for _, init := range []string{"auto", "legacy"} {
			r := exploreB(c, init, vers, maxDepth)
			c.States.Add(int64(r.States))
			c.Set("partB_"+init+"_"+versName(vers), map[string]any{"states": r.States, "edges": r.Edges, "depth_completed": r.Depth, "closed": r.Closed})
			if r.Depth < maxDepth && !r.Closed {
				closed = false
			}
		}
	}
	c.Set("partB_all_depths_completed", closed)
	c.Sample(map[string]any{"part": "B", "ops": func() []string {
		var n []string
		for _, o := range opsB {
			n = append(n, o.name)
		}
		return n
	}()})
}

func replayB(c *ev.Ctx, raw json.RawMessage) {
	var w witB
	if err := json.Unmarshal(raw, &w); err != nil {
		c.Broken("bad witness: %v", err)
	}
	h := ev.Hist{}
	s := replayPathB(c, h, w.Init, w.Vers, w.OpIdx, true)
	c.Merge(h)
	c.States.Add(1)
	if s != nil {
		fmt.Printf("replay B %s/%s %v: last=%s state=%s\n", w.Init, versName(w.Vers), w.Ops, s.last, s.key)
	}
}
