package main

// Part E3: schedule exploration of the ticket-key management of one server Config used by several
// handshakes at once. The scenarios live in cmd/c31/e3 (built by run.sh against package tls rewritten
// onto the vsched scheduler shims, once normally and once with -race); this file only spawns those
// worker processes and reports what they found under property C31. (The parent must not import
// verifmc/internal/vx: that package needs the scheduler, which exists only in the overlay build.)

import (
	"bytes"
	"context"
	"encoding/json"
	"fmt"
	"os"
	"os/exec"
	"path/filepath"
	"strings"
	"sync"
	"time"

	"verifmc/internal/ev"
)

type e3Job struct {
	Family string `json:"family"`
	Conf   string `json:"conf"`
	PB     int    `json:"preempt_bound"`
	Race   bool   `json:"race"`
}

// e3Out mirrors the fields of vx.WorkerOut that the parent needs.
type e3Out struct {
	Job   string `json:"job"`
	Stats struct {
		Execs    int
		Points   int64
		Steps    int64
		Complete bool
	} `json:"stats"`
	Bound      int `json:"bound_completed"`
	Violations []struct {
		Sig     string `json:"sig"`
		Witness any    `json:"witness"`
	} `json:"violations"`
	Outcomes map[string]int64 `json:"outcomes"`
	Samples  []any            `json:"samples"`
	Broken   string           `json:"broken"`
	Races    []string         `json:"races"`
	stderr   string
}

func e3Run(bin string, env []string, arg, job string, limit time.Duration) e3Out {
	ctx, cancel := context.WithTimeout(context.Background(), limit)
	defer cancel()
	cmd := exec.CommandContext(ctx, bin, arg, job)
	cmd.Env = append(append(os.Environ(), "GOMAXPROCS=1"), env...)
	var so, se bytes.Buffer
	cmd.Stdout, cmd.Stderr = &so, &se
	err := cmd.Run()
	var out e3Out
	ok := false
	for _, l := range bytes.Split(so.Bytes(), []byte("\n")) {
		var w e3Out
		if json.Unmarshal(l, &w) == nil && w.Job != "" {
			out, ok = w, true
		}
	}
	if !ok {
		msg := se.String()
		out = e3Out{Job: job, Broken: fmt.Sprintf("no result (err=%v, timeout=%v)", err, ctx.Err() != nil), stderr: msg}
	}
	return out
}

// e3Crash classifies the stderr of a worker that died without a result: a Go runtime fatal error or an
// unrecovered panic with a frame in the repository's tls package is a crash of the code under test under
// the explored schedule (a verdict); anything else (timeout, out of memory, a crash while the scheduler
// unwinds the threads of a finished execution) says nothing about the property.
func e3Crash(stderr, repo string) string {
	first, at := "", -1
	for _, l := range strings.Split(stderr, "\n") {
		if strings.HasPrefix(l, "fatal error:") || strings.HasPrefix(l, "panic:") {
			first, at = strings.TrimSpace(l), strings.Index(stderr, l)
			break
		}
	}
	if first == "" || strings.Contains(first, "out of memory") {
		return ""
	}
	rest := stderr[at:]
	if i := strings.Index(rest, "\ngoroutine "); i >= 0 {
		blk := rest[i+1:]
		if j := strings.Index(blk, "\n\n"); j >= 0 {
			blk = blk[:j]
		}
		if strings.Contains(blk, "runtime.Goexit") && strings.Contains(blk, "vsched.(*exec).park") {
			return ""
		}
	}
	if !strings.Contains(rest, repo+"/tls/") {
		return ""
	}
	return ev.MsgClass(first)
}

func e3Jobs(thorough, race bool) []e3Job {
	pb := 2
	if thorough {
		pb = 3
	}
	var out []e3Job
	for _, f := range []string{"issue-issue-set", "issue-issue", "issue-open"} {
		for _, cf := range []string{"fresh", "before", "at", "after"} {
			out = append(out, e3Job{Family: f, Conf: cf, PB: pb, Race: race})
		}
	}
	return out
}

func partE3(c *ev.Ctx) {
	bin, raceBin := os.Getenv("C31_E3_BIN"), os.Getenv("C31_E3_RACE_BIN")
	if bin == "" || raceBin == "" {
		c.Broken("E3 worker binaries not built (C31_E3_BIN / C31_E3_RACE_BIN unset: run through ./check, which uses cmd/c31/run.sh)")
	}
	repo := os.Getenv("VERIF_REPO_DIR")
	if repo == "" {
		repo = "/repo"
	}
	thorough := !c.Quick()
	limit := 90 * time.Second
	if thorough {
		limit = 10 * time.Minute
	}
	os.MkdirAll(filepath.Join(ev.VerifDir, ".work"), 0o755)
	raceLog := filepath.Join(ev.VerifDir, ".work", fmt.Sprintf("c31-e3-race-%d", os.Getpid()))
	renv := []string{"GORACE=log_path=" + raceLog + " halt_on_error=0", "VX_RACELOG=" + raceLog}
	defer func() {
		ms, _ := filepath.Glob(raceLog + ".*")
		for _, m := range ms {
			os.Remove(m)
		}
	}()
	// canary: the race build must report an unsynchronised counter and must not report a mutex-protected one
	can := e3Run(raceBin, append(renv, "C31_E3_CANARY=1"), "-worker", `{"family":"canary"}`, 5*time.Minute)
	if can.Broken != "" || len(can.Races) != 1 || can.Races[0] != "canary: racy=1 locked=0" {
		c.Broken("E3 race canary failed: %+v %s", can, can.stderr)
	}
	type run struct {
		bin string
		env []string
		tag string
		job e3Job
	}
	var runs []run
	for _, j := range e3Jobs(thorough, false) {
		runs = append(runs, run{bin, nil, "E3 sched", j})
	}
	for _, j := range e3Jobs(thorough, true) {
		runs = append(runs, run{raceBin, renv, "E3 race", j})
	}
	outs := make([]e3Out, len(runs))
	sem := make(chan struct{}, c.Workers())
	var wg sync.WaitGroup
	for i, r := range runs {
		wg.Add(1)
		sem <- struct{}{}
		go func(i int, r run) {
			defer wg.Done()
			defer func() { <-sem }()
			b, _ := json.Marshal(r.job)
			outs[i] = e3Run(r.bin, r.env, "-worker", string(b), limit)
		}(i, r)
	}
	wg.Wait()
	var execs, points int64
	for i, o := range outs {
		r := runs[i]
		name := fmt.Sprintf("%s %s/%s", r.tag, r.job.Family, r.job.Conf)
		if o.Broken != "" {
			if cls := e3Crash(o.stderr, repo); cls != "" {
				c.Violation("ticket keys: worker crash: "+cls, map[string]any{"part": "E3", "job": r.job, "schedule": []int{}, "stderr": clip(o.stderr, 1500)})
				continue
			}
			c.Incomplete(name + ": " + o.Broken)
			continue
		}
		execs += int64(o.Stats.Execs)
		points += o.Stats.Points
		c.States.Add(int64(o.Stats.Execs))
		c.Traces.Add(int64(o.Stats.Execs))
		c.Evaluations.Add(int64(o.Stats.Execs))
		c.Transitions.Add(o.Stats.Steps)
		for k, n := range o.Outcomes {
			c.Outcome(name+": "+k, n)
		}
		for _, v := range o.Violations {
			c.Violation(v.Sig, v.Witness)
		}
		for _, s := range o.Samples {
			c.Sample(s)
		}
		if !o.Stats.Complete {
			c.Incomplete(fmt.Sprintf("%s: only preemption bound %d completed", name, o.Bound))
		}
	}
	c.Set("e3_executions", execs)
	c.Set("e3_choice_points", points)
	c.Set("e3_jobs", len(runs))
}

func clip(s string, n int) string {
	if len(s) > n {
		return s[:n]
	}
	return s
}

// replayE3 hands the witness to the worker binary, which re-executes the recorded schedule twice.
func replayE3(c *ev.Ctx, witness []byte) {
	bin := os.Getenv("C31_E3_BIN")
	if bin == "" {
		c.Broken("E3 worker binary not built (C31_E3_BIN unset)")
	}
	o := e3Run(bin, nil, "-replay", string(witness), 5*time.Minute)
	if o.Broken != "" {
		c.Broken("E3 replay: %s %s", o.Broken, o.stderr)
	}
	c.States.Add(1)
	c.Transitions.Add(o.Stats.Steps)
	for _, v := range o.Violations {
		c.Violation(v.Sig, v.Witness)
	}
}
