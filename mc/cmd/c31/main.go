// C31 — sessions resume only from authentic tickets.
//
// Part A (E4 tlsx): exhaustive single-byte / structural faults on genuine
// TLS 1.2 and TLS 1.3 session tickets; Part B (E1): all key-rotation / clock /
// handshake histories of one server Config up to a depth, against a reference
// model; Part C: version / cipher-suite acceptability matrix at resumption;
// Part G: GetConfigForClient arrangements (listener keys x per-client Config) x issued-under / offered-to matrix;
// Part E3 (cmd/c31/e3, spawned by parte3.go): all interleavings of concurrent
// handshakes on the ticket keys of one Config (rotation is check-then-act).
package main

import (
	"encoding/json"
	"os"

	"verifmc/internal/ev"
)

func main() {
	ev.Main("C31", "model_checking", func(c *ev.Ctx) {
		c.Rule("A: per scenario (TLS1.2/1.3 x {ticket under head key, ticket under 2nd key, with client certificate}, TLS1.0/1.1 x {ticket under head key}) one genuine ticket x {every offset x {^01,^80,=00,=ff}, every truncation length, 5 kinds of extension by 1..16 bytes, 16 name/IV/body/MAC splices with another server's ticket, 3 foreign-key re-seals, other-version ticket}; TLS1.3 additionally the genuine ticket with a PSK binder that does not verify: client-side resumption secret / ticket nonce with every byte x {^01,^80} (nonce also extended by one byte), binder rewritten in flight at every byte x {^01,^80}, all bytes ^ff, all zero; " +
			"B: every history of {4 SetSessionTicketKeys lists, clock +1h/+25h/+8d, full handshake, resumption with ticket #0..#2} up to the depth bound from 2 initial configs (auto keys, legacy SessionTicketKey) x TLS1.2/1.3, deduplicated on (key list, clock, ticket plaintext headers); " +
			"C: issue (version,suite) x resumption-time client/server version caps and suite sets; " +
			"G: TLS1.2/1.3 x arrangements {listener Config with explicit keys K1, with automatic keys} x GetConfigForClient {unset, returns nil, returns the listener Config, returns a Config with SetSessionTicketKeys[K2], with legacy SessionTicketKey K3, with SessionTicketsDisabled, with no keys (fresh), with no explicit keys but automatic keys of its own from earlier use as a listener}: one ticket issued under each arrangement (+ one by that other automatic Config as a listener) must be sealed under the head of the keys in force, and is offered to EVERY arrangement at +0 h and +25 h (thorough: +0, +1, +25, +49 h; automatic keys rotate once): it resumes exactly when sealed under a key in force for the connection (documented: the returned Config's explicit keys, else the original Config's keys; none when the returned Config disables tickets); " +
			"E3 (stateless model checking under a cooperative scheduler, package tls compiled against sync shims; cmd/c31/e3): one server Config whose newest automatic ticket key is {absent, 1 s before / exactly at / 1 s after the 24 h rotation boundary} used at the same instant by {two issuing handshakes; an issuing handshake and one opening a ticket issued a rotation period earlier; two issuing handshakes and SetSessionTicketKeys}: every interleaving of the Config's lock operations with <= 2 preemptions (thorough 3), repeated in a -race build under ThreadSanitizer; afterwards each issued ticket is opened at +0, +1 min, +23 h 59 min (must open: its key is younger than seven days; tickets under the explicit key always; tickets under an automatic key once SetSessionTicketKeys ran: either) and at +8 d 1 h (must be refused unless under the explicit key); " +
			"D: TLS1.0-1.3 x issue ClientAuth(5) x client has a certificate{f,t} [pruned: issuing handshake cannot complete] x resume ClientAuth(5) x both clocks{T0, T0+48h: past the client leaf's NotAfter} x ClientCAs{same, replaced}. A case is distinct by (scenario, offered ticket bytes, binder fault) / canonical state / matrix cell")
		c.Assume(
			"reference ticket codec transcribes the documented layout key_name||IV||AES-128-CTR||HMAC-SHA256 with SHA-512-derived keys (standard library only)",
			"resumption is observed three ways: ConnectionState.DidResume on both ends and the plaintext handshake shape (server Certificate present / pre_shared_key in ServerHello)",
			"ticket lifetime: a ticket older than 7 days (maxSessionTicketLifetime, RFC 8446 4.6.1) may be refused; refusing is never a violation, honouring one older than 7 days is",
			"E3: a handshake's use of the ticket keys is taken as config.ticketKeys(nil) followed by encryptTicket / decryptTicket on that snapshot (what readClientHello, sendSessionTicket and checkForResumption do), through two in-package accessors; documented behaviour used as the model: automatic keys are rotated every day and dropped after seven days, SetSessionTicketKeys turns rotation off and all its keys open tickets; the scheduler hand-off is invisible to ThreadSanitizer",
			"G: keys in force per connection are transcribed from the doc comment of Config.GetConfigForClient (explicit keys of the returned Config are used, otherwise the original Config's keys, possibly rotated) and of SessionTicketsDisabled; whether a ticket is handed out while tickets are disabled is an outcome, such a ticket must not resume; the per-client Config is created per connection and never modified; listener Configs are Clones sharing the automatic key created by one earlier handshake",
			"tls.Config.Clone is used to branch histories; branch-vs-replay equivalence is checked on all histories up to depth 3",
			"PSK binder faults: RFC 8446 4.2.11 lets (requires) the server abort; accepted outcomes are a clean failure or a non-PSK handshake, never pre_shared_key in the ServerHello / DidResume",
			"D: an authentic ticket resumes unless the rule documented at the resumption decision declines it (session without client certificate on a server that requires one: must not resume, the full handshake decides; session with a certificate on a NoClientCert server: either); a stored client chain that no longer verifies under a verifying mode must not resume error-free (failing the handshake is accepted); a resumed connection must show the server exactly the certificates proven in the original session",
		)
		if c.Replay != nil {
			var p struct {
				Part string `json:"part"`
			}
			json.Unmarshal(c.Replay, &p)
			switch p.Part {
			case "A":
				replayA(c, c.Replay)
			case "B":
				replayB(c, c.Replay)
			case "C":
				replayC(c, c.Replay)
			case "G":
				replayG(c, c.Replay)
			case "D":
				replayD(c, c.Replay)
			case "E3":
				replayE3(c, c.Replay)
			default:
				c.Broken("witness without part")
			}
			return
		}
		only := os.Getenv("VERIF_C31_ONLY")
		if only == "" || only == "A" {
			partA(c)
		}
		if only == "" || only == "C" {
			partC(c)
		}
		if only == "" || only == "D" {
			partD(c)
		}
		if only == "" || only == "G" {
			partG(c)
		}
		if only == "" || only == "B" {
			partB(c)
		}
		if only == "" || only == "E3" {
			partE3(c)
		}
	})
}
