package tls

// Accessors for the schedule-exploration phase of check C31 (cmd/c31/e3): what a server
// handshake does with the ticket keys of its Config, without the handshake around it.
// readClientHello stores config.ticketKeys(nil) in the connection; sendSessionTicket /
// checkForResumption then seal / open a state with that snapshot.

// VerifC31EncryptTicket seals state the way a server connection of cfg would right now.
func VerifC31EncryptTicket(cfg *Config, state []byte) ([]byte, error) {
	c := &Conn{config: cfg}
	c.ticketKeys = cfg.ticketKeys(nil)
	return c.encryptTicket(state)
}

// VerifC31DecryptTicket opens ticket the way a server connection of cfg would right now
// (nil plaintext = refused).
func VerifC31DecryptTicket(cfg *Config, ticket []byte) (plaintext []byte, usedOldKey bool) {
	c := &Conn{config: cfg}
	c.ticketKeys = cfg.ticketKeys(nil)
	return c.decryptTicket(ticket)
}
