package tls

// Thin accessors for check C31 (compiled into package tls through go build
// -overlay; never part of /repo). No logic: field copies only.

import "time"

// VerifC31State is an exported copy of the scalar / byte fields of a
// ClientSessionState (the certificate fields are carried over from a base state).
type VerifC31State struct {
	Ticket       []byte
	Vers         uint16
	Suite        uint16
	Master       []byte
	Nonce        []byte
	ReceivedAt   time.Time
	UseBy        time.Time
	AgeAdd       uint32
	LifetimeHint uint32
}

// VerifC31View copies the fields of s.
func VerifC31View(s *ClientSessionState) VerifC31State {
	return VerifC31State{
		Ticket:       append([]byte(nil), s.sessionTicket...),
		Vers:         s.vers,
		Suite:        s.cipherSuite,
		Master:       append([]byte(nil), s.masterSecret...),
		Nonce:        append([]byte(nil), s.nonce...),
		ReceivedAt:   s.receivedAt,
		UseBy:        s.useBy,
		AgeAdd:       s.ageAdd,
		LifetimeHint: s.lifetimeHint,
	}
}

// VerifC31Derive returns a new ClientSessionState: a copy of base (server
// certificates, verified chains, OCSP, SCTs) with the fields of v written over it.
func VerifC31Derive(base *ClientSessionState, v VerifC31State) *ClientSessionState {
	n := *base
	n.sessionTicket = append([]byte(nil), v.Ticket...)
	n.vers = v.Vers
	n.cipherSuite = v.Suite
	n.masterSecret = append([]byte(nil), v.Master...)
	n.nonce = append([]byte(nil), v.Nonce...)
	n.receivedAt = v.ReceivedAt
	n.useBy = v.UseBy
	n.ageAdd = v.AgeAdd
	n.lifetimeHint = v.LifetimeHint
	return &n
}

// VerifC31Key is an exported copy of one internal ticket key.
type VerifC31Key struct {
	Name    []byte
	AES     []byte
	HMAC    []byte
	Created time.Time
}

// VerifC31Keys copies the explicit (manual) and the auto-rotated key lists of a Config.
func VerifC31Keys(c *Config) (manual, auto []VerifC31Key) {
	c.mutex.RLock()
	defer c.mutex.RUnlock()
	cp := func(in []ticketKey) []VerifC31Key {
		out := make([]VerifC31Key, len(in))
		for i, k := range in {
			out[i] = VerifC31Key{
				Name:    append([]byte(nil), k.keyName[:]...),
				AES:     append([]byte(nil), k.aesKey[:]...),
				HMAC:    append([]byte(nil), k.hmacKey[:]...),
				Created: k.created,
			}
		}
		return out
	}
	return cp(c.sessionTicketKeys), cp(c.autoSessionTicketKeys)
}
