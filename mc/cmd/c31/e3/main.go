// C31, schedule-exploration phase (engine E3): the ticket-key management of one server
// Config -- (*Config).ticketKeys with its read-lock fast path and write-lock rotation,
// SetSessionTicketKeys -- used by several server handshakes at once. package tls is
// compiled from copies whose sync / sync/atomic imports point to the vsched shims, so
// every lock operation is a scheduling point; all interleavings with <= PB preemptions
// are executed, and a -race build repeats them under ThreadSanitizer.
//
// This binary is a worker only: "-worker <job json>" prints one vx.WorkerOut document;
// cmd/c31 (the parent) spawns it and reports under property C31.
package main

import (
	"bytes"
	"crypto/sha512"
	"encoding/json"
	"fmt"
	"os"
	"runtime/debug"
	"strconv"
	"time"

	"github.com/zmap/zcrypto/tls"
	"github.com/zmap/zcrypto/vsched"
	"verifmc/internal/tlsx"
	"verifmc/internal/vx"
)

type job struct {
	Family string `json:"family"` // issue-issue | issue-open | issue-issue-set
	Conf   string `json:"conf"`   // fresh | before | at | after (age of the newest automatic key relative to the 24 h rotation boundary)
	PB     int    `json:"preempt_bound"`
	Race   bool   `json:"race"`
}

func (j job) String() string { b, _ := json.Marshal(j); return string(b) }

const (
	day      = 24 * time.Hour
	rotation = day     // "session ticket keys will be automatically rotated every day
	lifetime = 7 * day //  and dropped after seven days" (doc of Config.SessionTicketKey)
)

var t0 = tlsx.Now()

// clock is the virtual time of the Config; written only between the phases (by thread 0 while
// no other thread exists), read by the threads through Config.Time.
type clock struct{ now time.Time }

//go:norace
func (c *clock) get() time.Time { return c.now }

//go:norace
func (c *clock) set(t time.Time) { c.now = t }

// one issued ticket
type issued struct {
	by     string
	ticket []byte
	err    string
	at     time.Time
}

// obs of one execution (written through norace methods by the managed threads)
type obs struct {
	n      int
	tk     [4]issued
	openOK int // issue-open: 1 opened, 0 refused, -1 not run
	log    [24]string
	nlog   int
	done   bool
}

//go:norace
func (o *obs) issue(by string, t []byte, err error, at time.Time) {
	if o.n < len(o.tk) {
		e := ""
		if err != nil {
			e = err.Error()
		}
		o.tk[o.n] = issued{by, append([]byte(nil), t...), e, at}
		o.n++
	}
}

//go:norace
func (o *obs) note(s string) {
	if o.nlog < len(o.log) {
		o.log[o.nlog] = s
		o.nlog++
	}
}

var state = []byte("c31-e3 fixed session state, 48 bytes of plaintext.")

// explicitKey is what the SetSessionTicketKeys thread installs; its key name on the wire is
// SHA-512(key)[0:16] (documented ticket layout, see cmd/c31/refticket.go).
var explicitKey = func() (k [32]byte) {
	for i := range k {
		k[i] = byte(0xa0 + i)
	}
	return
}()

func explicitName() []byte { h := sha512.Sum512(explicitKey[:]); return h[:16] }

func spawn(wg *vsched.WaitGroup, f func()) {
	wg.Add(1)
	vsched.Go(func() { defer wg.Done(); f() })
}

// checkpoints after the concurrent phase: offset from t0, and what must hold for a ticket sealed
// under an AUTOMATIC key that was the current one when it was issued at t0 (key created in (t0-24h-1s, t0]):
// younger than seven days -> must open; by t0+8d1h every such key has been dropped at a rotation -> must not.
var checkpoints = []struct {
	off  time.Duration
	auto int // 1 must open, 0 must be refused
}{
	{0, 1}, {time.Minute, 1}, {rotation - time.Minute, 1}, {lifetime + day + time.Hour, 0},
}

func runOnce(j job, prefix []int) (vsched.Result, *obs) {
	o := &obs{openOK: -1}
	res := vsched.Run(prefix, func() {
		clk := &clock{}
		cfg := &tls.Config{Rand: tlsx.NewDetRand("c31-e3-" + j.Family + j.Conf), Time: clk.get}
		// ---- set-up (not explored): the newest automatic key has the age the configuration asks for ----
		vsched.SetExplore(false)
		var old []byte
		switch j.Conf {
		case "fresh":
			clk.set(t0)
		default:
			age := map[string]time.Duration{"before": rotation - time.Second, "at": rotation, "after": rotation + time.Second}[j.Conf]
			clk.set(t0.Add(-age))
			t, err := tls.VerifC31EncryptTicket(cfg, state) // creates the first key at t0-age and issues a ticket under it
			if err != nil {
				o.note("setup: " + err.Error())
				return
			}
			old = t
			clk.set(t0)
		}
		vsched.SetExplore(true)
		// ---- concurrent phase at time t0 ----
		var wg vsched.WaitGroup
		issue := func(name string) func() {
			return func() {
				t, err := tls.VerifC31EncryptTicket(cfg, state)
				o.issue(name, t, err, t0)
			}
		}
		spawn(&wg, issue("T1"))
		switch j.Family {
		case "issue-issue":
			spawn(&wg, issue("T2"))
		case "issue-open":
			spawn(&wg, func() {
				if old == nil { // fresh configuration: nothing issued earlier; a second issuer instead
					issue("T2")()
					return
				}
				pt, _ := tls.VerifC31DecryptTicket(cfg, old)
				if pt != nil && bytes.Equal(pt, state) {
					o.openOK = 1
				} else {
					o.openOK = 0
				}
			})
		case "issue-issue-set":
			spawn(&wg, issue("T2"))
			spawn(&wg, func() { cfg.SetSessionTicketKeys([][32]byte{explicitKey}) })
		}
		wg.Wait()
		// ---- sequential checkpoints ----
		vsched.SetExplore(false)
		for ci, cp := range checkpoints {
			clk.set(t0.Add(cp.off))
			for i := 0; i < o.n; i++ {
				if o.tk[i].err != "" {
					continue
				}
				pt, _ := tls.VerifC31DecryptTicket(cfg, o.tk[i].ticket)
				ok := pt != nil && bytes.Equal(pt, state)
				o.note(fmt.Sprintf("cp%d %s opened=%v", ci, o.tk[i].by, ok))
			}
		}
		vsched.SetExplore(true)
		o.done = true
	})
	return res, o
}

// judge: "" or (violation class, detail). Signatures start with "ticket keys: ".
func judge(j job, res vsched.Result, o *obs) (string, string) {
	switch {
	case res.Panic != "":
		return "ticket keys: panic: " + res.Panic, fmt.Sprintf("thread %d", res.PanicThread)
	case res.Deadlock:
		return "ticket keys: deadlock between concurrent users of one Config", res.DeadInfo
	case res.Horizon:
		return "ticket keys: livelock: step horizon exceeded", ""
	case !o.done:
		why := ""
		if o.nlog > 0 {
			why = o.log[0]
		}
		return "ticket keys: scenario body did not finish", why
	}
	if j.Family == "issue-open" && j.Conf != "fresh" && o.openOK != 1 {
		// issued one rotation period earlier under the then-current automatic key: younger than seven days
		return "ticket keys: a ticket issued under an automatic key younger than seven days was refused while another handshake rotated the keys", fmt.Sprintf("opened=%d", o.openOK)
	}
	opened := map[string]bool{}
	for i := 0; i < o.nlog; i++ {
		var ci int
		var by string
		var ok bool
		if n, _ := fmt.Sscanf(o.log[i], "cp%d %s opened=%t", &ci, &by, &ok); n == 3 {
			opened[fmt.Sprintf("%d/%s", ci, by)] = ok
		}
	}
	for i := 0; i < o.n; i++ {
		t := o.tk[i]
		if t.err != "" {
			return "ticket keys: a server handshake could not seal a ticket", t.by + ": " + t.err
		}
		if len(t.ticket) < 16 {
			return "ticket keys: a server handshake sealed a malformed ticket", t.by
		}
		underExplicit := bytes.Equal(t.ticket[:16], explicitName())
		for ci, cp := range checkpoints {
			ok := opened[fmt.Sprintf("%d/%s", ci, t.by)]
			at := "t0+" + cp.off.String()
			switch {
			case underExplicit:
				// keys given to SetSessionTicketKeys do not rotate: "all keys can be used for decrypting tickets"
				if !ok {
					return "ticket keys: a ticket sealed under the key installed by SetSessionTicketKeys was refused", fmt.Sprintf("%s at %s", t.by, at)
				}
			case j.Family == "issue-issue-set":
				// sealed under an automatic key although SetSessionTicketKeys ran concurrently: the call turns
				// automatic rotation off, such a ticket is legitimately refused from then on (and must be once its key would have expired)
				if ok && cp.auto == 0 {
					return "ticket keys: a ticket sealed under an automatic key still opens after the key's lifetime and after SetSessionTicketKeys", fmt.Sprintf("%s at %s", t.by, at)
				}
			case cp.auto == 1 && !ok:
				return "ticket keys: a ticket issued under the then-current automatic key was refused although the key is younger than seven days", fmt.Sprintf("%s (issued at t0) refused at %s", t.by, at)
			case cp.auto == 0 && ok:
				return "ticket keys: a ticket still opens after its automatic key should have been dropped (older than seven days plus one rotation)", fmt.Sprintf("%s at %s", t.by, at)
			}
		}
	}
	return "", ""
}

func canary(js string) {
	raceLog := os.Getenv("VX_RACELOG")
	count := func(locked bool) int {
		st := vx.Explore(vx.Options{PreemptBound: 1, RaceLog: raceLog}, func(prefix []int) (vsched.Result, any) {
			x := 0
			var mu vsched.Mutex
			var wg vsched.WaitGroup
			return vsched.Run(prefix, func() {
				wg.Add(2)
				for i := 0; i < 2; i++ {
					vsched.Go(func() {
						if locked {
							mu.Lock()
						}
						canaryCounter(&x)
						if locked {
							mu.Unlock()
						}
						wg.Done()
					})
				}
				wg.Wait()
			}), nil
		}, func(x *vx.Exec) bool { return true })
		return st.Races
	}
	racy, locked := count(false), count(true)
	if racy > 1 {
		racy = 1
	}
	out := vx.WorkerOut{Job: js, Races: []string{fmt.Sprintf("canary: racy=%d locked=%d", racy, locked)}}
	b, _ := json.Marshal(out)
	fmt.Println(string(b))
}

//go:noinline
func canaryCounter(p *int) { *p++ }

func scaled(d time.Duration) time.Duration {
	if f, err := strconv.ParseFloat(os.Getenv("VERIF_TIME_SCALE"), 64); err == nil && f >= 1 && f <= 100 {
		return time.Duration(float64(d) * f)
	}
	return d
}

func worker(js string) {
	debug.SetGCPercent(1000)
	if os.Getenv("C31_E3_CANARY") == "1" {
		canary(js)
		return
	}
	var j job
	if err := json.Unmarshal([]byte(js), &j); err != nil || j.Family == "" {
		fmt.Println(`{"job":"?","broken":"bad job"}`)
		return
	}
	out := vx.WorkerOut{Job: js, Outcomes: map[string]int64{}, Bound: -1}
	raceLog := ""
	if j.Race {
		raceLog = os.Getenv("VX_RACELOG")
	}
	repo := os.Getenv("VERIF_REPO_DIR")
	if repo == "" {
		repo = "/repo"
	}
	seen := map[string]bool{}
	deadline := time.Now().Add(scaled(60 * time.Second))
	for b := 0; b <= j.PB; b++ {
		st := vx.Explore(vx.Options{PreemptBound: b, Deadline: deadline, RaceLog: raceLog},
			func(prefix []int) (vsched.Result, any) { r, o := runOnce(j, prefix); return r, o },
			func(x *vx.Exec) bool {
				o := x.Obs.(*obs)
				if x.Result.Stragglers > 0 {
					out.Broken = "threads could not be unwound"
					return false
				}
				cls, detail := judge(j, x.Result, o)
				if cls != "" {
					if !seen[cls] {
						seen[cls] = true
						out.Violations = append(out.Violations, vx.WorkerViol{Sig: cls, Witness: map[string]any{"part": "E3", "job": j, "schedule": x.Choices, "detail": detail, "log": o.log[:o.nlog], "preemptions": x.Preempt}})
					}
					out.Outcomes["VIOLATION "+cls]++
				} else {
					names := map[string]bool{}
					for i := 0; i < o.n; i++ {
						names[fmt.Sprintf("%x", o.tk[i].ticket[:4])] = true
					}
					out.Outcomes[fmt.Sprintf("ok: %d tickets under %d distinct keys", o.n, len(names))]++
				}
				if x.RaceNew != "" {
					for _, r := range vx.ParseRaces(x.RaceNew, repo) {
						if !r.InRepo {
							continue
						}
						sig := "ticket keys: data race: " + r.Summary
						if !seen[sig] {
							seen[sig] = true
							rep := x.RaceNew
							if len(rep) > 1500 {
								rep = rep[:1500]
							}
							out.Violations = append(out.Violations, vx.WorkerViol{Sig: sig, Witness: map[string]any{"part": "E3", "job": j, "schedule": x.Choices, "report": rep}})
						}
					}
				}
				if len(out.Samples) < 1 && x.Preempt > 0 {
					out.Samples = append(out.Samples, map[string]any{"part": "E3", "job": j, "schedule": x.Choices, "choice_points": len(x.Result.Points), "log": o.log[:o.nlog]})
				}
				return !x.Result.Horizon
			})
		out.Stats.Execs += st.Execs
		out.Stats.Points += st.Points
		out.Stats.Steps += st.Steps
		if st.MaxPoints > out.Stats.MaxPoints {
			out.Stats.MaxPoints = st.MaxPoints
		}
		out.Stats.Deadlocks += st.Deadlocks
		out.Stats.Races += st.Races
		if !st.Complete {
			break
		}
		out.Bound = b
		out.Stats.Complete = b == j.PB
	}
	b, _ := json.Marshal(out)
	fmt.Println(string(b))
}

// replay re-executes one witness twice and prints the verdict as a WorkerOut document.
func replay(ws string) {
	var w struct {
		Job      job   `json:"job"`
		Schedule []int `json:"schedule"`
	}
	out := vx.WorkerOut{Job: ws, Outcomes: map[string]int64{}}
	if err := json.Unmarshal([]byte(ws), &w); err != nil || w.Job.Family == "" {
		out.Broken = "bad witness"
	} else {
		r1, o1 := runOnce(w.Job, w.Schedule)
		r2, o2 := runOnce(w.Job, w.Schedule)
		if fmt.Sprint(r1.Points) != fmt.Sprint(r2.Points) || fmt.Sprint(o1.log[:o1.nlog]) != fmt.Sprint(o2.log[:o2.nlog]) {
			out.Broken = "replay is not deterministic"
		} else if cls, detail := judge(w.Job, r1, o1); cls != "" {
			out.Violations = append(out.Violations, vx.WorkerViol{Sig: cls, Witness: map[string]any{"part": "E3", "job": w.Job, "schedule": w.Schedule, "detail": detail}})
		}
		out.Stats.Execs = 1
		out.Stats.Steps = int64(r1.Steps)
	}
	b, _ := json.Marshal(out)
	fmt.Println(string(b))
}

func main() {
	for i, a := range os.Args {
		if a == "-worker" && i+1 < len(os.Args) {
			worker(os.Args[i+1])
			return
		}
		if a == "-replay" && i+1 < len(os.Args) {
			replay(os.Args[i+1])
			return
		}
	}
	fmt.Fprintln(os.Stderr, "usage: c31-e3 -worker <job json> | -replay <witness json>")
	os.Exit(2)
}
