#!/bin/bash
# C31 driver: the check itself (parts A-D) is built as usual; its schedule-exploration phase (cmd/c31/e3, engine E3)
# needs package tls rewritten onto the vsched shims (from the CURRENT tree of the repo under test), in a normal and
# a -race build. The parent finds the two worker binaries through C31_E3_BIN / C31_E3_RACE_BIN.
set -u
TIER="$1"; shift
VERIF="${VERIF_DIR:-/verif}"
REPO="${VERIF_REPO_DIR:-/repo}"
BIN="${VERIF_BIN:-$VERIF/.bin/c31}"
cd "$VERIF/mc" || exit 2
export GOFLAGS=-mod=mod GOPROXY=off
TAG="c31-$(echo -n "$REPO" | md5sum | cut -c1-10)"
OUT="$VERIF/.work/rw-$TAG"
rm -rf "$OUT"; mkdir -p "$OUT"
# pick -modfile and the in-package overlay prepared by ./check
MODFILE=""; BASEOVL=""
set -- $VERIF_MODARGS "$@"
ARGS=()
while [ $# -gt 0 ]; do
  case "$1" in
    -modfile=*) MODFILE="$1"; shift;;
    -overlay) BASEOVL="$2"; shift 2;;
    *) ARGS+=("$1"); shift;;
  esac
done
# the check proper: plain build with the in-package overlay only (exactly what ./check does without a run.sh)
if ! go build $MODFILE ${BASEOVL:+-overlay "$BASEOVL"} -tags verif -o "$BIN" ./cmd/c31 2> "$BIN.buildlog"; then cat "$BIN.buildlog" >&2; echo "CHECK-BROKEN C31: build failed" >&2; exit 2; fi
# the E3 workers
go build -o "$VERIF/.bin/vrewrite" ./cmd/vrewrite || { echo "CHECK-BROKEN C31: vrewrite build failed" >&2; exit 2; }
"$VERIF/.bin/vrewrite" -repo "$REPO" -src "$VERIF/mc/vsched_src" -out "$OUT" -overlay "$OUT/overlay.json" ${BASEOVL:+-merge "$BASEOVL"} \
   'tls/*.go:imports' 2> "$OUT/rewrite.log" || { cat "$OUT/rewrite.log" >&2; echo "CHECK-BROKEN C31: source rewriting failed" >&2; exit 2; }
if ! go build $MODFILE -overlay "$OUT/overlay.json" -tags verif -o "$BIN-e3" ./cmd/c31/e3 2> "$BIN.e3buildlog"; then cat "$BIN.e3buildlog" >&2; echo "CHECK-BROKEN C31: e3 build failed" >&2; exit 2; fi
if ! go build -race $MODFILE -overlay "$OUT/overlay.json" -tags verif -o "$BIN-e3-race" ./cmd/c31/e3 2> "$BIN.e3racebuildlog"; then cat "$BIN.e3racebuildlog" >&2; echo "CHECK-BROKEN C31: e3 race build failed" >&2; exit 2; fi
[ "$TIER" = build ] && exit 0
export C31_E3_BIN="$BIN-e3" C31_E3_RACE_BIN="$BIN-e3-race"
exec "$BIN" -tier "$TIER" ${ARGS[@]+"${ARGS[@]}"}
