package main

// Part C — "version / suite still acceptable": a genuine ticket issued for
// (version vI, suite sI) is offered to the same server (same key) while the
// client's and the server's version caps and cipher-suite lists vary over a
// full product. The client state is either natural or rewritten so that the
// client itself does not filter the ticket ("morph").

import (
	"encoding/hex"
	"encoding/json"
	"fmt"
	"time"

	"github.com/zmap/zcrypto/tls"
	"verifmc/internal/ev"
	"verifmc/internal/fx"
)

var allVers = []uint16{tls.VersionTLS10, tls.VersionTLS11, tls.VersionTLS12, tls.VersionTLS13}
var uniLegacy = []uint16{sCBC128, sCBC256, sGCM128}
var uni13 = []uint16{s13A128, s13CHACH, s13A256}

func is13Suite(s uint16) bool { return s == s13A128 || s == s13A256 || s == s13CHACH }

func hash13(s uint16) int {
	if s == s13A256 {
		return 384
	}
	return 256
}

// validAt: can suite s be negotiated at version v (RFC 5246 / RFC 8446).
func validAt(s, v uint16) bool {
	switch {
	case is13Suite(s):
		return v == tls.VersionTLS13
	case v == tls.VersionTLS13:
		return false
	case s == sGCM128 || s == sGCM256:
		return v == tls.VersionTLS12
	}
	return true
}

// effSuites: the suites a side with CipherSuites=list can negotiate at version v
// (a list without TLS 1.3 suites means "all TLS 1.3 suites", as documented for CipherSuites).
func effSuites(list []uint16, v uint16) []uint16 {
	var out []uint16
	for _, s := range list {
		if validAt(s, v) {
			out = append(out, s)
		}
	}
	if v == tls.VersionTLS13 && len(out) == 0 {
		return uni13
	}
	return out
}

// effServer: as effSuites, but a server does not filter TLS 1.3 suites by
// Config.CipherSuites at all ("TLS 1.3 ciphersuites are not configurable" on the server side).
func effServer(list []uint16, v uint16) []uint16 {
	if v == tls.VersionTLS13 {
		return uni13
	}
	return effSuites(list, v)
}

func has(l []uint16, s uint16) bool {
	for _, x := range l {
		if x == s {
			return true
		}
	}
	return false
}

func inter(a, b []uint16) []uint16 {
	var out []uint16
	for _, x := range a {
		if has(b, x) {
			out = append(out, x)
		}
	}
	return out
}

func subset(u []uint16, mask int) []uint16 {
	var out []uint16
	for i, s := range u {
		if mask>>i&1 == 1 {
			out = append(out, s)
		}
	}
	return out
}

type cellC struct {
	VI     uint16   `json:"issue_vers"`
	SI     uint16   `json:"issue_suite"`
	VC     uint16   `json:"client_max"`
	VS     uint16   `json:"server_max"`
	CS     []uint16 `json:"client_suites"`
	SS     []uint16 `json:"server_suites"`
	Morph  bool     `json:"morph"`
	Part   string   `json:"part"`
	Detail string   `json:"detail,omitempty"`
}

type issuedC struct {
	st *tls.ClientSessionState
	v  tls.VerifC31State
}

var keyC = key32("C-key")

func issueC(c *ev.Ctx, vI, sI uint16) *issuedC {
	cc, sc := cfgPair(idEC, fmt.Sprintf("C-issue-%04x-%04x", vI, sI), tls.VersionTLS10, vI)
	cc.CipherSuites = []uint16{sI}
	sc.CipherSuites = []uint16{sI}
	sc.SetSessionTicketKeys([][32]byte{keyC})
	o := runConn(cc, sc, nil)
	c.Transitions.Add(int64(o.Records))
	if !o.ok() || !o.DataOK || len(o.Puts) == 0 || o.SVers != vI || o.SSuite != sI {
		c.Broken("part C: cannot issue a ticket for %s/%04x: %s (got %04x/%04x, puts %d)", versName(vI), sI, o.failure(), o.SVers, o.SSuite, len(o.Puts))
	}
	st := o.Puts[len(o.Puts)-1]
	v := tls.VerifC31View(st)
	checkSealing(c, "C "+versName(vI), v.Ticket, keyC, vI, sI, cellC{VI: vI, SI: sI, Part: "C", Detail: hex.EncodeToString(v.Ticket)})
	return &issuedC{st, v}
}

func minV(a, b uint16) uint16 {
	if a < b {
		return a
	}
	return b
}

func runCellC(c *ev.Ctx, h ev.Hist, iss *issuedC, cl cellC) {
	vN := minV(cl.VC, cl.VS)
	fixedC, fixedS := []uint16(nil), []uint16(nil)
	if cl.VI == tls.VersionTLS13 {
		// keep TLS <= 1.2 reachable for cross-version offers
		fixedC, fixedS = []uint16{sCBC128, sGCM128}, []uint16{sCBC128, sGCM128}
	}
	cs := append(append([]uint16(nil), cl.CS...), fixedC...)
	ss := append(append([]uint16(nil), cl.SS...), fixedS...)
	cc, sc := cfgPair(idEC, "C-resume", tls.VersionTLS10, 0)
	cc.MaxVersion, sc.MaxVersion = cl.VC, cl.VS
	cc.CipherSuites, sc.CipherSuites = cs, ss
	sc.SetSessionTicketKeys([][32]byte{keyC})

	offerable := effSuites(cs, vN) // what the client can negotiate at vN
	common := inter(offerable, effServer(ss, vN))
	expectFail := len(common) == 0

	state := iss.st
	if cl.Morph {
		v := iss.v
		v.Vers = vN
		// choose a suite the client itself accepts for its own filter
		pick := uint16(0)
		if has(offerable, cl.SI) {
			pick = cl.SI
		} else if vN == tls.VersionTLS13 && cl.VI == tls.VersionTLS13 {
			for _, s := range offerable {
				if hash13(s) == hash13(cl.SI) {
					pick = s
					break
				}
			}
		}
		if pick == 0 && len(offerable) > 0 {
			pick = offerable[0]
		}
		v.Suite = pick
		v.ReceivedAt = fx.T0
		v.UseBy = fx.T0.Add(time.Hour)
		if len(v.Master) == 0 {
			v.Master = make([]byte, 48)
		}
		state = tls.VerifC31Derive(iss.st, v)
	}
	o := runConn(cc, sc, state)
	c.Transitions.Add(int64(o.Records))
	c.Traces.Add(1)
	c.Evaluations.Add(1)
	c.States.Add(1)
	vi := "TLS<=1.2"
	if cl.VI == tls.VersionTLS13 {
		vi = "TLS1.3"
	}
	viol := func(sig, detail string) {
		w := cl
		w.Part, w.Detail = "C", detail
		rel := "its own version"
		if vN < cl.VI {
			rel = "a lower version"
		} else if vN > cl.VI {
			rel = "a higher version"
		}
		c.Violation("C "+vi+" ticket offered at "+rel+": "+sig, w)
	}
	offered := len(o.Offered) > 0 && string(o.Offered) == string(iss.v.Ticket)

	// ---- reference ----
	expect := mustNot
	why := "not-offered"
	if offered {
		why = "unacceptable"
		if cl.VI != tls.VersionTLS13 {
			if vN == cl.VI && has(offerable, cl.SI) && has(effServer(ss, vN), cl.SI) {
				expect, why = mustResume, "acceptable"
			}
		} else if vN == tls.VersionTLS13 {
			same := 0
			for _, s := range common {
				if hash13(s) == hash13(cl.SI) {
					same++
				}
			}
			switch {
			case len(common) == 1 && common[0] == cl.SI:
				expect, why = mustResume, "acceptable"
			case same > 0:
				expect, why = either, "same-hash-suite-negotiable"
			}
		}
	}
	if o.Panic != "" {
		viol("panic "+ev.MsgClass(o.Panic), o.Panic)
		return
	}
	if !o.ok() {
		if expectFail {
			h["C no common suite => handshake fails (expected)"]++
			return
		}
		viol("handshake failed instead of falling back ("+why+")", o.failure())
		return
	}
	if expectFail {
		// only a resumption could have succeeded without a common suite
		h["C no common suite but handshake ok"]++
	}
	resumed := o.SRes || o.CRes || o.WireResumed == 1
	if o.CRes != o.SRes || (o.WireResumed >= 0 && (o.WireResumed == 1) != o.SRes) {
		viol("DidResume inconsistent between client, server and wire shape", fmt.Sprintf("client=%v server=%v wire=%d", o.CRes, o.SRes, o.WireResumed))
	}
	switch {
	case resumed && expect == mustNot:
		viol("RESUMED although version/suite of the ticket are not acceptable ("+why+")", fmt.Sprintf("now %04x/%04x", o.SVers, o.SSuite))
	case !resumed && expect == mustResume:
		viol("authentic ticket with acceptable version and suite did not resume", fmt.Sprintf("now %04x/%04x", o.SVers, o.SSuite))
	}
	if resumed {
		if o.SVers != cl.VI || o.CVers != cl.VI {
			viol("resumed with a different version", fmt.Sprintf("%04x", o.SVers))
		}
		if cl.VI != tls.VersionTLS13 && (o.SSuite != cl.SI || o.CSuite != cl.SI) {
			viol("resumed with a different cipher suite", fmt.Sprintf("%04x", o.SSuite))
		}
		if cl.VI == tls.VersionTLS13 && (!is13Suite(o.SSuite) || hash13(o.SSuite) != hash13(cl.SI) || (expect == mustResume && o.SSuite != cl.SI)) {
			viol("resumed with an incompatible cipher suite", fmt.Sprintf("%04x", o.SSuite))
		}
		h["C "+why+" => resumed"]++
	} else {
		if o.SVers != vN || !has(common, o.SSuite) {
			viol("fallback handshake negotiated parameters outside the offer", fmt.Sprintf("%04x/%04x", o.SVers, o.SSuite))
		}
		h["C "+why+" => full/non-PSK"]++
	}
	if !o.DataOK {
		viol("application data does not flow after the handshake", o.DataErr)
	}
}

func cellsC() (issues [][2]uint16, cells []cellC) {
	for _, vI := range allVers {
		u := uniLegacy
		if vI == tls.VersionTLS13 {
			u = uni13
		}
		for _, sI := range u {
			if !validAt(sI, vI) {
				continue
			}
			issues = append(issues, [2]uint16{vI, sI})
			for _, vC := range allVers {
				for _, vS := range allVers {
					for cm := 1; cm < 8; cm++ {
						for sm := 1; sm < 8; sm++ {
							if vI == tls.VersionTLS13 && sm != 7 {
								continue // server-side lists do not apply to TLS 1.3 suites
							}
							for _, morph := range []bool{false, true} {
								cells = append(cells, cellC{VI: vI, SI: sI, VC: vC, VS: vS, CS: subset(u, cm), SS: subset(u, sm), Morph: morph})
							}
						}
					}
				}
			}
		}
	}
	return
}

func partC(c *ev.Ctx) {
	issues, cells := cellsC()
	iss := map[[2]uint16]*issuedC{}
	for _, k := range issues {
		iss[k] = issueC(c, k[0], k[1])
	}
	W := c.Workers()
	hs := make([]ev.Hist, W)
	for i := range hs {
		hs[i] = ev.Hist{}
	}
	done := c.Parallel(len(cells), func(w, i int) {
		cl := cells[i]
		runCellC(c, hs[w], iss[[2]uint16{cl.VI, cl.SI}], cl)
	})
	if !done {
		c.Incomplete("part C: budget hit before the acceptability matrix was complete")
	}
	for _, h := range hs {
		c.Merge(h)
	}
	c.Set("partC_cells", len(cells))
	c.Set("partC_issue_points", len(issues))
}

func replayC(c *ev.Ctx, raw json.RawMessage) {
	var cl cellC
	if err := json.Unmarshal(raw, &cl); err != nil {
		c.Broken("bad witness: %v", err)
	}
	if cl.CS == nil { // sealing witness: re-issue only
		issueC(c, cl.VI, cl.SI)
		return
	}
	h := ev.Hist{}
	runCellC(c, h, issueC(c, cl.VI, cl.SI), cl)
	c.Merge(h)
	fmt.Printf("replay C: %v\n", h)
}
