package main

import (
	"bytes"
	"crypto/sha256"
	"encoding/binary"
	"fmt"
	"io"
	"sync"
	"time"

	"github.com/zmap/zcrypto/tls"
	"github.com/zmap/zcrypto/x509"
	"verifmc/internal/ev"
	"verifmc/internal/fx"
	"verifmc/internal/tlsx"
)

// capCache is the harness' own tls.ClientSessionCache: Get hands out the
// session chosen by the harness (whatever the key), Put records everything the
// client stores or deletes.
type capCache struct {
	mu      sync.Mutex
	inject  *tls.ClientSessionState
	puts    []*tls.ClientSessionState
	deleted int
	gets    int
}

func (c *capCache) Get(string) (*tls.ClientSessionState, bool) {
	c.mu.Lock()
	defer c.mu.Unlock()
	c.gets++
	if c.inject == nil {
		return nil, false
	}
	return c.inject, true
}

func (c *capCache) Put(_ string, s *tls.ClientSessionState) {
	c.mu.Lock()
	defer c.mu.Unlock()
	if s == nil {
		c.deleted++
		return
	}
	c.puts = append(c.puts, s)
}

// connOut is everything observed on one connection.
type connOut struct {
	COK, SOK     bool
	CErr, SErr   string
	Panic        string
	CRes, SRes   bool
	CVers, SVers uint16
	CSuite       uint16
	SSuite       uint16
	DataOK       bool
	DataErr      string
	Stalled      bool
	// independent wire observations
	OfferKind   string // "none" | "ticket" | "psk"
	Offered     []byte // ticket bytes actually carried by the ClientHello
	WireVers    uint16 // version selected in the ServerHello (supported_versions if present)
	WireSuite   uint16
	WireResumed int // 1 abbreviated / PSK handshake, 0 full / non-PSK, -1 not determinable
	Digest      [32]byte
	Records     int
	Puts        []*tls.ClientSessionState
	Deleted     int
	SPeer       [][]byte // the server's view of the client's certificate chain (DER)
	MitmNote    string   // set by an in-flight edit: "" = not installed, "done" or the reason it could not be applied
}

func (o *connOut) ok() bool { return o.COK && o.SOK && o.Panic == "" }

func (o *connOut) failure() string {
	switch {
	case o.Panic != "":
		return "panic: " + o.Panic
	case !o.COK && !o.SOK:
		return "client: " + o.CErr + " / server: " + o.SErr
	case !o.COK:
		return "client: " + o.CErr
	case !o.SOK:
		return "server: " + o.SErr
	}
	return ""
}

var (
	ping = []byte("c31 ping: application data from the client")
	pong = []byte("c31 pong: application data from the server")
)

// runConn performs one handshake + one application data round trip.
func runConn(cc, sc *tls.Config, inject *tls.ClientSessionState) *connOut {
	return runConnPrep(cc, sc, inject, nil)
}

// runConnPrep is runConn with a transport preparation (man-in-the-middle).
func runConnPrep(cc, sc *tls.Config, inject *tls.ClientSessionState, prep func(*tlsx.Net)) *connOut {
	cache := &capCache{inject: inject}
	cc.ClientSessionCache = cache
	s := tlsx.Handshake(cc, sc, prep)
	o := &connOut{WireResumed: -1, OfferKind: "none"}
	o.COK, o.SOK = s.Client.OKDone, s.Server.OKDone
	if s.Client.Err != nil {
		o.CErr = s.Client.Err.Error()
	}
	if s.Server.Err != nil {
		o.SErr = s.Server.Err.Error()
	}
	if s.Client.Panic != "" {
		o.Panic = "client " + s.Client.Panic
	}
	if s.Server.Panic != "" {
		o.Panic = "server " + s.Server.Panic
	}
	if o.ok() {
		o.CRes, o.SRes = s.Client.State.DidResume, s.Server.State.DidResume
		o.CVers, o.SVers = s.Client.State.Version, s.Server.State.Version
		o.CSuite, o.SSuite = s.Client.State.CipherSuite, s.Server.State.CipherSuite
		for _, pc := range s.Server.State.PeerCertificates {
			o.SPeer = append(o.SPeer, pc.Raw)
		}
		// data phase: client -> server -> client. The client's Read also consumes
		// TLS 1.3 NewSessionTicket messages (cache.Put).
		var wg sync.WaitGroup
		var sErr string
		wg.Add(1)
		go func() {
			defer wg.Done()
			p, msg, site := ev.Try(func() {
				buf := make([]byte, len(ping))
				if _, err := io.ReadFull(s.Server.Conn, buf); err != nil {
					sErr = "server read: " + err.Error()
					s.Server.Conn.Close()
					return
				}
				if !bytes.Equal(buf, ping) {
					sErr = "server received different bytes"
					s.Server.Conn.Close()
					return
				}
				if _, err := s.Server.Conn.Write(pong); err != nil {
					sErr = "server write: " + err.Error()
					s.Server.Conn.Close()
				}
			})
			if p {
				sErr = "server panic: " + msg + " @ " + site
				s.Server.Conn.Close()
			}
		}()
		cErr := ""
		p, msg, site := ev.Try(func() {
			if _, err := s.Client.Conn.Write(ping); err != nil {
				cErr = "client write: " + err.Error()
				s.Client.Conn.Close()
				return
			}
			buf := make([]byte, len(pong))
			if _, err := io.ReadFull(s.Client.Conn, buf); err != nil {
				cErr = "client read: " + err.Error()
				s.Client.Conn.Close()
				return
			}
			if !bytes.Equal(buf, pong) {
				cErr = "client received different bytes"
			}
		})
		if p {
			cErr = "client panic: " + msg + " @ " + site
			s.Client.Conn.Close()
		}
		wg.Wait()
		o.DataOK = cErr == "" && sErr == ""
		if !o.DataOK {
			o.DataErr = cErr
			if sErr != "" {
				o.DataErr += " | " + sErr
			}
		}
	}
	s.Close()
	o.Stalled = s.Net.Stalled
	c2s, s2c := s.Net.Stream(tlsx.C2S), s.Net.Stream(tlsx.S2C)
	h := sha256.New()
	var l [8]byte
	binary.BigEndian.PutUint64(l[:], uint64(len(c2s)))
	h.Write(l[:])
	h.Write(c2s)
	h.Write(s2c)
	copy(o.Digest[:], h.Sum(nil))
	parseWire(o, c2s, s2c)
	cache.mu.Lock()
	o.Puts = append([]*tls.ClientSessionState(nil), cache.puts...)
	o.Deleted = cache.deleted
	cache.mu.Unlock()
	return o
}

// ---- independent wire parsing (plaintext part of the handshake) ----

// hsMsgs returns the plaintext handshake messages of a stream up to the first
// record that is not a handshake record.
func hsMsgs(stream []byte) (msgs [][]byte, nrec int) {
	recs := tlsx.ParseRecords(stream)
	var buf []byte
	for _, r := range recs {
		if r.Type != 22 {
			break
		}
		buf = append(buf, r.Payload...)
	}
	for len(buf) >= 4 {
		n := int(buf[1])<<16 | int(buf[2])<<8 | int(buf[3])
		if len(buf) < 4+n {
			break
		}
		msgs = append(msgs, buf[:4+n])
		buf = buf[4+n:]
	}
	return msgs, len(recs)
}

type rd struct {
	b  []byte
	ok bool
}

func (r *rd) n(k int) []byte {
	if !r.ok || len(r.b) < k {
		r.ok = false
		return nil
	}
	v := r.b[:k]
	r.b = r.b[k:]
	return v
}
func (r *rd) u8() int {
	v := r.n(1)
	if v == nil {
		return 0
	}
	return int(v[0])
}
func (r *rd) u16() int {
	v := r.n(2)
	if v == nil {
		return 0
	}
	return int(v[0])<<8 | int(v[1])
}

// extensions walks an extension block.
func extensions(b []byte) map[int][]byte {
	out := map[int][]byte{}
	r := rd{b, true}
	for r.ok && len(r.b) > 0 {
		t := r.u16()
		d := r.n(r.u16())
		if r.ok {
			out[t] = d
		}
	}
	return out
}

func parseWire(o *connOut, c2s, s2c []byte) {
	cm, n1 := hsMsgs(c2s)
	sm, n2 := hsMsgs(s2c)
	o.Records = n1 + n2
	if len(cm) > 0 && cm[0][0] == 1 {
		r := rd{cm[0][4:], true}
		r.n(2 + 32)
		r.n(r.u8())  // session id
		r.n(r.u16()) // suites
		r.n(r.u8())  // compression
		if r.ok && len(r.b) >= 2 {
			ex := extensions(r.n(r.u16()))
			if t, ok := ex[35]; ok {
				o.OfferKind = "ticket"
				o.Offered = t
			}
			if p, ok := ex[41]; ok {
				pr := rd{p, true}
				ids := rd{pr.n(pr.u16()), pr.ok}
				label := ids.n(ids.u16())
				if ids.ok {
					o.OfferKind = "psk"
					o.Offered = label
				}
			}
		}
	}
	if len(sm) > 0 && sm[0][0] == 2 {
		r := rd{sm[0][4:], true}
		v := r.u16()
		r.n(32)
		r.n(r.u8())
		suite := r.u16()
		r.n(1)
		psk := false
		if r.ok {
			o.WireVers, o.WireSuite = uint16(v), uint16(suite)
			if len(r.b) >= 2 {
				ex := extensions(r.n(r.u16()))
				if sv, ok := ex[43]; ok && len(sv) == 2 {
					o.WireVers = uint16(sv[0])<<8 | uint16(sv[1])
				}
				_, psk = ex[41]
			}
			if o.WireVers == tls.VersionTLS13 {
				if psk {
					o.WireResumed = 1
				} else {
					o.WireResumed = 0
				}
			} else {
				// TLS <= 1.2: a full handshake carries the server Certificate (11)
				// in clear; an abbreviated one goes ServerHello [NewSessionTicket] CCS.
				o.WireResumed = 1
				for _, m := range sm[1:] {
					if m[0] == 11 {
						o.WireResumed = 0
					}
				}
			}
		}
	}
}

// ---- configuration helpers ----

type clock struct{ hours int }

func (k *clock) now() time.Time { return fx.T0.Add(time.Duration(k.hours) * time.Hour) }

func key32(name string) [32]byte { return sha256.Sum256([]byte("c31-ticket-key-" + name)) }

var (
	idEd   = tlsx.ServerIdentity("ed-c31-srv")
	idEC   = tlsx.ServerIdentity("p256")
	idCli  = tlsx.ClientIdentity("ed-c31-cli")
	curves = []tls.CurveID{tls.X25519}
)

const (
	sGCM128  = tls.TLS_ECDHE_ECDSA_WITH_AES_128_GCM_SHA256
	sGCM256  = tls.TLS_ECDHE_ECDSA_WITH_AES_256_GCM_SHA384
	sCBC128  = tls.TLS_ECDHE_ECDSA_WITH_AES_128_CBC_SHA
	sCBC256  = tls.TLS_ECDHE_ECDSA_WITH_AES_256_CBC_SHA
	s13A128  = tls.TLS_AES_128_GCM_SHA256
	s13A256  = tls.TLS_AES_256_GCM_SHA384
	s13CHACH = tls.TLS_CHACHA20_POLY1305_SHA256
)

func versName(v uint16) string {
	switch v {
	case tls.VersionTLS10:
		return "tls1.0"
	case tls.VersionTLS11:
		return "tls1.1"
	case tls.VersionTLS12:
		return "tls1.2"
	case tls.VersionTLS13:
		return "tls1.3"
	}
	return fmt.Sprintf("0x%04x", v)
}

// cfgPair returns fresh deterministic configs restricted to [minV,maxV].
func cfgPair(id *tlsx.Identity, seed string, minV, maxV uint16) (cc, sc *tls.Config) {
	cc, sc = tlsx.BaseConfigs(id, seed)
	for _, c := range []*tls.Config{cc, sc} {
		c.MinVersion, c.MaxVersion = minV, maxV
		c.CurvePreferences = curves
	}
	return
}

func withClientAuth(cc, sc *tls.Config) {
	sc.ClientAuth = tls.RequireAndVerifyClientCert
	sc.ClientCAs = idCli.Pool()
	cc.Certificates = []tls.Certificate{idCli.TLSCert()}
}

var _ = x509.NewCertPool
