// Reproducer (public API only): after a TLS 1.2 server refuses an authentic but
// expired session ticket, the NEW ticket it issues in the fallback full handshake
// inherits the refused ticket's creation time, so the brand-new session's ticket
// is dead on arrival — and every later full handshake started with such a ticket
// inherits the stale time again: the client never resumes again.
//
//	cd /verif/mc && GOFLAGS=-mod=mod GOPROXY=off go run ./cmd/c31/repro/stale-createdat
//
// Offending code: tls/handshake_server.go checkForResumption stores hs.sessionState
// before deciding, sendSessionTicket copies hs.sessionState.createdAt whenever it is non-nil.
package main

import (
	"fmt"
	"os"
	"time"

	"github.com/zmap/zcrypto/tls"
	"verifmc/internal/fx"
	"verifmc/internal/tlsx"
)

func main() {
	id := tlsx.ServerIdentity("ed-repro")
	now := fx.T0
	cc, sc := tlsx.BaseConfigs(id, "repro")
	cc.MaxVersion, sc.MaxVersion = tls.VersionTLS12, tls.VersionTLS12
	cc.ClientSessionCache = tls.NewLRUClientSessionCache(4)
	sc.Time = func() time.Time { return now } // the client clock stays at T0 (certificate validity)
	sc.SetSessionTicketKeys([][32]byte{{1, 2, 3}})

	connect := func(label string) bool {
		s := tlsx.Handshake(cc, sc, nil)
		defer s.Close()
		if !s.Client.OKDone || !s.Server.OKDone {
			fmt.Println(label, "handshake failed:", s.Client.Err, s.Server.Err)
			os.Exit(2)
		}
		fmt.Printf("%-58s server clock T0+%4.0fh  DidResume=%v\n", label, now.Sub(fx.T0).Hours(), s.Server.State.DidResume)
		return s.Server.State.DidResume
	}
	connect("1. first contact (ticket t0 issued)")
	connect("2. immediately again (t0 resumes)")
	now = now.Add(8 * 24 * time.Hour)
	connect("3. 8 days later: t0 expired, full handshake, t1 issued")
	bad := !connect("4. seconds later with the brand-new ticket t1")
	now = now.Add(time.Hour)
	bad = !connect("5. one hour later with the ticket issued in step 4") || bad
	if bad {
		fmt.Println("BUG: tickets issued under the current key by a full handshake moments ago do not resume")
		os.Exit(1)
	}
	fmt.Println("ok: fresh tickets resume")
}
