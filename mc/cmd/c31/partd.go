package main

// Part D — client authentication across resumption. A ticket issued by a server
// with ClientAuth = m1 to a client that did / did not present a certificate is
// offered to the same server (same ticket key) reconfigured with ClientAuth = m2,
// optionally after 48 hours (the client leaf expires at T0+24h) and / or with the
// ClientCAs pool replaced.
//
// Reference, from the statement and the rule documented next to the resumption
// decision ("PSK connections don't re-establish client certificates, but carry
// them over in the session ticket. Ensure the presence of client certs in the
// ticket is consistent with the configured requirements"):
//
//	session has no client certificate, m2 requires one      -> MUST NOT resume (full handshake decides)
//	session has one, m2 verifies, chain expired / untrusted  -> MUST NOT resume error-free (failure or full handshake)
//	session has one, m2 = NoClientCert                       -> either (statement silent)
//	anything else (authentic ticket under the current key)   -> MUST resume, same version and suite,
//	                                                            and the server sees exactly the stored chain

import (
	"bytes"
	"encoding/json"
	"fmt"
	"sync"
	"time"

	"github.com/zmap/zcrypto/tls"
	"github.com/zmap/zcrypto/x509"
	"verifmc/internal/ev"
	"verifmc/internal/fx"
	"verifmc/internal/tlsx"
)

var modesD = []tls.ClientAuthType{tls.NoClientCert, tls.RequestClientCert, tls.RequireAnyClientCert, tls.VerifyClientCertIfGiven, tls.RequireAndVerifyClientCert}
var modeNamesD = []string{"NoClientCert", "RequestClientCert", "RequireAnyClientCert", "VerifyClientCertIfGiven", "RequireAndVerifyClientCert"}

func requiresD(m tls.ClientAuthType) bool {
	return m == tls.RequireAnyClientCert || m == tls.RequireAndVerifyClientCert
}
func verifiesD(m tls.ClientAuthType) bool {
	return m == tls.VerifyClientCertIfGiven || m == tls.RequireAndVerifyClientCert
}

// pkiD: long-lived roots and server leaf; the client leaf expires at T0+24h.
type pkiD struct {
	sroot, sleaf *fx.Cert
	croot, cleaf *fx.Cert
	other        *fx.Cert // another client root (the "replaced" ClientCAs)
}

var (
	pkiDOnce sync.Once
	pkiDv    *pkiD
)

func getPKID() *pkiD {
	pkiDOnce.Do(func() {
		far := fx.T0.Add(20 * 365 * 24 * time.Hour)
		ca := func(cn, key string) *fx.Cert {
			return fx.MustMint(fx.CertSpec{CN: cn, Key: key, IsCA: true, NotAfter: far,
				KeyUsage: x509.KeyUsageCertSign | x509.KeyUsageDigitalSignature}, nil)
		}
		p := &pkiD{}
		p.sroot = ca("c31 D server root", "ed-c31-d-sroot")
		p.sleaf = fx.MustMint(fx.CertSpec{CN: "srv.example", Key: "p256", Serial: 2, DNS: []string{"srv.example"}, NotAfter: far,
			EKU: []x509.ExtKeyUsage{x509.ExtKeyUsageServerAuth}, KeyUsage: x509.KeyUsageDigitalSignature}, p.sroot)
		p.croot = ca("c31 D client root", "ed-c31-d-croot")
		p.other = ca("c31 D other client root", "ed-c31-d-other")
		p.cleaf = fx.MustMint(fx.CertSpec{CN: "c31 D client", Key: "p256b", Serial: 2, NotAfter: fx.T0.Add(24 * time.Hour),
			EKU: []x509.ExtKeyUsage{x509.ExtKeyUsageClientAuth}, KeyUsage: x509.KeyUsageDigitalSignature}, p.croot)
		pkiDv = p
	})
	return pkiDv
}

type cellD struct {
	Part     string `json:"part"`
	Vers     uint16 `json:"vers"`
	Mode1    int    `json:"issue_client_auth"`
	Cert     bool   `json:"client_has_certificate"`
	Mode2    int    `json:"resume_client_auth"`
	Later    bool   `json:"resume_clock_plus_48h"`
	Replaced bool   `json:"resume_client_cas_replaced"`
	Detail   string `json:"detail,omitempty"`
}

func (cl cellD) issueKey() string {
	return fmt.Sprintf("%s/%s/cert=%v", versName(cl.Vers), modeNamesD[cl.Mode1], cl.Cert)
}

var keyD = key32("D-key")

func (cl cellD) configs(phase int) (cc, sc *tls.Config) {
	p := getPKID()
	seed := fmt.Sprintf("D-%d-%s", phase, cl.issueKey())
	mode, now, cas := modesD[cl.Mode1], tlsx.Now, p.croot
	if phase == 2 {
		seed = fmt.Sprintf("D-2-%s-%s-%v-%v", cl.issueKey(), modeNamesD[cl.Mode2], cl.Later, cl.Replaced)
		mode = modesD[cl.Mode2]
		if cl.Later {
			now = func() time.Time { return fx.T0.Add(48 * time.Hour) }
		}
		if cl.Replaced {
			cas = p.other
		}
	}
	roots, pool := x509.NewCertPool(), x509.NewCertPool()
	roots.AddCert(p.sroot.X)
	pool.AddCert(cas.X)
	cc = &tls.Config{Rand: tlsx.NewDetRand("c-" + seed), Time: now, RootCAs: roots, ServerName: "srv.example",
		MinVersion: cl.Vers, MaxVersion: cl.Vers, CurvePreferences: curves}
	sc = &tls.Config{Rand: tlsx.NewDetRand("s-" + seed), Time: now, MinVersion: cl.Vers, MaxVersion: cl.Vers, CurvePreferences: curves,
		Certificates: []tls.Certificate{{Certificate: [][]byte{p.sleaf.DER}, PrivateKey: p.sleaf.Key, Leaf: p.sleaf.X}},
		ClientAuth:   mode, ClientCAs: pool}
	sc.SetSessionTicketKeys([][32]byte{keyD})
	if cl.Cert {
		crt := tls.Certificate{Certificate: [][]byte{p.cleaf.DER}, PrivateKey: p.cleaf.Key, Leaf: p.cleaf.X}
		cc.GetClientCertificate = func(*tls.CertificateRequestInfo) (*tls.Certificate, error) { return &crt, nil }
	}
	return
}

type issuedD struct {
	once sync.Once
	st   *tls.ClientSessionState
	out  *connOut
}

type engD struct {
	mu sync.Mutex
	is map[string]*issuedD
}

func (e *engD) issue(c *ev.Ctx, cl cellD) *issuedD {
	e.mu.Lock()
	is := e.is[cl.issueKey()]
	if is == nil {
		is = &issuedD{}
		e.is[cl.issueKey()] = is
	}
	e.mu.Unlock()
	is.once.Do(func() {
		cc, sc := cl.configs(1)
		o := runConn(cc, sc, nil)
		c.Transitions.Add(int64(o.Records))
		is.out = o
		if o.ok() && o.DataOK && len(o.Puts) > 0 {
			is.st = o.Puts[len(o.Puts)-1]
		}
	})
	return is
}

func runCellD(c *ev.Ctx, h ev.Hist, e *engD, cl cellD) {
	cl.Part = "D"
	c.States.Add(1)
	c.Evaluations.Add(1)
	v := versName(cl.Vers)
	viol := func(sig, detail string) {
		w := cl
		w.Detail = detail
		c.Violation("D "+v+": "+sig, w)
	}
	is := e.issue(c, cl)
	if is.st == nil {
		c.Broken("part D: cannot obtain a ticket for %s: %s (puts %d)", cl.issueKey(), is.out.failure(), len(is.out.Puts))
	}
	mode1, mode2 := modesD[cl.Mode1], modesD[cl.Mode2]
	stored := cl.Cert && mode1 != tls.NoClientCert
	storedBad := stored && (cl.Later || cl.Replaced) // does not verify under the resume-time pool / clock
	// what a full handshake of connection 2 has to end in
	sends2 := cl.Cert && mode2 != tls.NoClientCert
	fullFails := (requiresD(mode2) && !sends2) || (verifiesD(mode2) && sends2 && (cl.Later || cl.Replaced))

	var first *connOut
	for rep := 0; rep < 2; rep++ {
		cc, sc := cl.configs(2)
		o := runConn(cc, sc, is.st)
		c.Transitions.Add(int64(o.Records))
		if rep == 0 {
			first = o
		} else if o.Digest == first.Digest {
			c.Traces.Add(1)
		} else {
			c.Incomplete("part D: two executions of the same case produced different transcripts")
		}
	}
	o := first
	if o.Panic != "" {
		viol("panic "+ev.MsgClass(o.Panic), o.Panic)
		return
	}
	if o.OfferKind == "none" {
		c.Incomplete("part D: the client did not offer the ticket: " + cl.issueKey())
		h["D vacuous: not offered"]++
		return
	}
	resumed := o.SRes || o.CRes || o.WireResumed == 1
	var situation string
	expect := mustResume
	switch {
	case !stored && requiresD(mode2):
		situation, expect = "no client certificate in the session, server requires one", mustNot
	case stored && mode2 == tls.NoClientCert:
		situation, expect = "client certificate in the session, server asks for none", either
	case storedBad && verifiesD(mode2):
		situation, expect = "stored client chain does not verify at resumption time", mustNot
	case stored:
		situation = "stored client certificate satisfies the server"
	default:
		situation = "no client certificate in the session, none required"
	}
	if !o.ok() {
		switch {
		case expect == mustNot && (fullFails || storedBad):
			// requirement cannot be met by this client at all / the stored certificate is
			// expired or untrusted now: failing is what the statement says
			h["D "+situation+" => handshake fails (allowed)"]++
		default:
			viol("handshake failed with an authentic ticket ("+situation+")", o.failure())
		}
		return
	}
	if o.CRes != o.SRes || (o.WireResumed >= 0 && (o.WireResumed == 1) != o.SRes) {
		viol("DidResume inconsistent between client, server and wire shape", fmt.Sprintf("client=%v server=%v wire=%d", o.CRes, o.SRes, o.WireResumed))
	}
	switch {
	case resumed && expect == mustNot:
		viol("RESUMED although "+situation, fmt.Sprintf("server sees %d peer certificates", len(o.SPeer)))
	case !resumed && expect == mustResume:
		viol("authentic ticket under the current key did not resume ("+situation+")", "full handshake")
	}
	if resumed {
		if o.SVers != is.out.SVers || o.SSuite != is.out.SSuite || o.CVers != is.out.SVers || o.CSuite != is.out.SSuite {
			viol("resumed session changed version or cipher suite", fmt.Sprintf("orig %04x/%04x now %04x/%04x", is.out.SVers, is.out.SSuite, o.SVers, o.SSuite))
		}
		want := [][]byte(nil)
		if stored {
			want = [][]byte{getPKID().cleaf.DER}
		}
		same := len(want) == len(o.SPeer)
		for i := 0; same && i < len(want); i++ {
			same = bytes.Equal(want[i], o.SPeer[i])
		}
		if !same {
			viol("resumed connection does not carry the client certificates of the original session", fmt.Sprintf("want %d, server sees %d", len(want), len(o.SPeer)))
		}
		h["D "+situation+" => resumed"]++
	} else {
		if fullFails {
			viol("full handshake completed although the client cannot satisfy the resume-time ClientAuth", situation)
		}
		h["D "+situation+" => full/non-PSK handshake"]++
	}
	if !o.DataOK {
		viol("application data does not flow after the handshake", o.DataErr)
	}
}

func cellsD() (cells []cellD) {
	for _, v := range allVers {
		for m1 := range modesD {
			for _, cert := range []bool{false, true} {
				if !cert && requiresD(modesD[m1]) {
					continue // the issuing handshake cannot complete
				}
				for m2 := range modesD {
					for _, later := range []bool{false, true} {
						for _, repl := range []bool{false, true} {
							cells = append(cells, cellD{Vers: v, Mode1: m1, Cert: cert, Mode2: m2, Later: later, Replaced: repl})
						}
					}
				}
			}
		}
	}
	return
}

func partD(c *ev.Ctx) {
	cells := cellsD()
	e := &engD{is: map[string]*issuedD{}}
	W := c.Workers()
	hs := make([]ev.Hist, W)
	for i := range hs {
		hs[i] = ev.Hist{}
	}
	done := c.Parallel(len(cells), func(w, i int) { runCellD(c, hs[w], e, cells[i]) })
	if !done {
		c.Incomplete("part D: budget hit before the client-auth resumption matrix was complete")
	}
	for _, h := range hs {
		c.Merge(h)
	}
	c.Set("partD_cells", len(cells))
	c.Set("partD_issue_points", len(e.is))
}

func replayD(c *ev.Ctx, raw json.RawMessage) {
	var cl cellD
	if err := json.Unmarshal(raw, &cl); err != nil {
		c.Broken("bad witness: %v", err)
	}
	h := ev.Hist{}
	runCellD(c, h, &engD{is: map[string]*issuedD{}}, cl)
	c.Merge(h)
	fmt.Printf("replay D: %v\n", h)
}
