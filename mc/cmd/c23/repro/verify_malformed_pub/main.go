// Standalone reproducer for the C23 finding: zcrypto/rsa's VerifyPKCS1v15 and
// VerifyPSS do not call checkPub, so a public key with a missing modulus, a
// missing exponent or a negative exponent makes them panic instead of
// returning an error (EncryptPKCS1v15 / EncryptOAEP do call checkPub and return
// "missing public modulus" / "public exponent too small").
//
//	cd /verif/mc && GOFLAGS=-mod=mod GOPROXY=off go run ./cmd/c23/repro/verify_malformed_pub
package main

import (
	"crypto"
	_ "crypto/sha256"
	"fmt"
	"math/big"

	"github.com/zmap/zcrypto/rsa"
)

func try(name string, f func() error) {
	defer func() {
		if r := recover(); r != nil {
			fmt.Printf("%-55s PANIC: %v\n", name, r)
		}
	}()
	fmt.Printf("%-55s returned: %v\n", name, f())
}

func main() {
	n, _ := new(big.Int).SetString("c35f1b1b7c4f0d6f1b0a3d0b4b8f2f7f", 16) // any modulus; 16 octets
	digest := make([]byte, 32)
	zero := make([]byte, 16) // signature value 0: not invertible mod N
	cases := []struct {
		name string
		pub  *rsa.PublicKey
		sig  []byte
	}{
		{"N=nil,E=65537, sig=nil", &rsa.PublicKey{N: nil, E: big.NewInt(65537)}, nil},
		{"N=n,E=nil, sig=00..00", &rsa.PublicKey{N: n, E: nil}, zero},
		{"N=n,E=-1, sig=00..00", &rsa.PublicKey{N: n, E: big.NewInt(-1)}, zero},
		{"N=n,E=-65537, sig=00..00", &rsa.PublicKey{N: n, E: big.NewInt(-65537)}, zero},
	}
	for _, c := range cases {
		c := c
		try("VerifyPKCS1v15 "+c.name, func() error { return rsa.VerifyPKCS1v15(c.pub, crypto.SHA256, digest, c.sig) })
		try("VerifyPSS      "+c.name, func() error { return rsa.VerifyPSS(c.pub, crypto.SHA256, digest, c.sig, nil) })
		try("EncryptPKCS1v15 "+c.name, func() error { _, err := rsa.EncryptPKCS1v15(nil, c.pub, nil); return err })
	}
}
