//go:debug rsa1024min=0

// Standalone reproducer for the C23 finding on the private-key side:
// zcrypto/rsa's SignPKCS1v15 and SignPSS (and therefore PrivateKey.Sign) do not
// call checkPub, so a private key whose embedded public part has a missing
// modulus or a missing exponent makes them panic instead of returning an error.
// Go's crypto/rsa (the standard library this package is a fork of) returns
// "crypto/rsa: missing public modulus" / an error for the same keys.
// DecryptPKCS1v15, DecryptPKCS1v15SessionKey and DecryptOAEP do call checkPub.
//
//	cd /verif/mc && GOFLAGS=-mod=mod GOPROXY=off go run ./cmd/c23/repro/sign_malformed_pub
package main

import (
	"crypto"
	stdrsa "crypto/rsa"
	_ "crypto/sha256"
	"fmt"
	"math/big"

	"github.com/zmap/zcrypto/rsa"
	"verifmc/internal/fx"
)

func try(name string, f func() error) {
	defer func() {
		if r := recover(); r != nil {
			fmt.Printf("%-64s PANIC: %v\n", name, r)
		}
	}()
	fmt.Printf("%-64s returned: %v\n", name, f())
}

func main() {
	digest := make([]byte, 32)
	type kc struct {
		name string
		n, e *big.Int
	}
	base := fx.ZRSA("rsa1024")
	cases := []kc{
		{"N=nil,E=65537", nil, big.NewInt(65537)},
		{"N=nil,E=nil", nil, nil},
		{"N=valid,E=nil", base.N, nil},
		{"N=valid,E=0", base.N, big.NewInt(0)},
		{"N=valid,E=-1", base.N, big.NewInt(-1)},
		{"N=0,E=65537", big.NewInt(0), big.NewInt(65537)},
		{"N=-N,E=65537", new(big.Int).Neg(base.N), big.NewInt(65537)},
	}
	for _, c := range cases {
		mk := func() *rsa.PrivateKey {
			p := fx.ZRSA("rsa1024")
			p.Precompute()
			p.N, p.E = c.n, c.e
			return p
		}
		try("zcrypto SignPKCS1v15 "+c.name, func() error { _, err := rsa.SignPKCS1v15(nil, mk(), crypto.SHA256, digest); return err })
		try("zcrypto SignPSS      "+c.name, func() error {
			_, err := rsa.SignPSS(fx.NewRand("r"), mk(), crypto.SHA256, digest, nil)
			return err
		})
		try("zcrypto priv.Sign    "+c.name, func() error { _, err := mk().Sign(fx.NewRand("r"), digest, crypto.SHA256); return err })
		try("zcrypto DecryptPKCS1v15 "+c.name, func() error { _, err := rsa.DecryptPKCS1v15(nil, mk(), make([]byte, 128)); return err })
		// the same key in crypto/rsa (E is an int there: missing = 0)
		smk := func() *stdrsa.PrivateKey {
			s := fx.StdRSA("rsa1024")
			s.N = c.n
			s.E = 0
			if c.e != nil {
				s.E = int(c.e.Int64())
			}
			s.Precomputed = stdrsa.PrecomputedValues{}
			return s
		}
		try("crypto/rsa SignPKCS1v15 "+c.name, func() error { _, err := stdrsa.SignPKCS1v15(nil, smk(), crypto.SHA256, digest); return err })
		try("crypto/rsa SignPSS      "+c.name, func() error {
			_, err := stdrsa.SignPSS(fx.NewRand("r"), smk(), crypto.SHA256, digest, nil)
			return err
		})
	}
}
