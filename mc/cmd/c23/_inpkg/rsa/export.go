package rsa

// Thin accessors for check C23 (compiled into the package through go build -overlay).

// VerifC23Decrypt is the raw private-key operation (RSADP/RSASP1) of the package.
func VerifC23Decrypt(priv *PrivateKey, c []byte, check bool) ([]byte, error) {
	return decrypt(priv, c, check)
}

// VerifC23Encrypt is the raw public-key operation (RSAEP/RSAVP1) of the package.
func VerifC23Encrypt(pub *PublicKey, m []byte) ([]byte, error) {
	return encrypt(pub, m)
}
