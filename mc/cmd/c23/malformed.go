package main

import (
	"crypto"
	stdrsa "crypto/rsa"
	"fmt"
	"math/big"
	"sort"
	"strings"

	zrsa "github.com/zmap/zcrypto/rsa"
	"verifmc/internal/ev"
	"verifmc/internal/fx"
)

type malVal struct {
	name   string
	v      *big.Int
	strict bool // zero, negative or missing: the statement demands an error
	valid  bool
}

type malCase struct {
	Op     string `json:"op"`
	N      string `json:"N"`
	E      string `json:"E"`
	Input  string `json:"input"`
	Result string `json:"result"`
}

// runMalformed: every public-key operation, and every private-key operation on
// a private key with that public part, on every (N,E) of the malformed
// alphabet must return (no panic); when N or E is zero, negative or missing it
// must return an error. N=1, E=1 and even E are outside the statement's list:
// error or success are both accepted there (recorded), a panic is not.
func (x *uctx) runMalformed() {
	base := fx.ZRSA("rsa1024")
	N0 := base.N
	k0 := base.Size()
	Ns := []malVal{
		{"valid", N0, false, true},
		{"nil", nil, true, false},
		{"0", big.NewInt(0), true, false},
		{"1", big.NewInt(1), false, false},
		{"-N", new(big.Int).Neg(N0), true, false},
	}
	Es := []malVal{
		{"valid", big.NewInt(65537), false, true},
		{"nil", nil, true, false},
		{"0", big.NewInt(0), true, false},
		{"1", big.NewInt(1), false, false},
		{"-1", big.NewInt(-1), true, false},
		{"-65537", big.NewInt(-65537), true, false},
		{"2", big.NewInt(2), false, false},
		{"65536", big.NewInt(65536), false, false},
	}
	digest := det("mal-digest", 32)
	msg16 := det("mal-msg", 16)
	// base signatures come from the textbook reference, not from the code under test
	ref := newKeyInfo("rsa1024", base, false).ref()
	goodP1, err := ref.SignP1(crypto.SHA256, digest)
	if err != nil {
		x.c.Broken("cannot make base signature: %v", err)
	}
	goodPSS, err := ref.SignPSS(fx.NewRand("mal-pss"), crypto.SHA256, digest, 0)
	if err != nil {
		x.c.Broken("cannot make base PSS signature: %v", err)
	}
	bareEM, _ := emsaP1(crypto.SHA256, digest, k0) // "signature" for E=1
	one := make([]byte, k0)
	one[k0-1] = 1
	pmul := i2osp(base.Primes[0], k0) // not invertible mod N
	sigShapes := []struct {
		name string
		b    []byte
	}{
		{"nil", nil}, {"empty", []byte{}}, {"one octet 00", []byte{0}}, {"one octet 01", []byte{1}},
		{"k zero octets", make([]byte, k0)}, {"k octets value 1", one}, {"k octets = prime factor", pmul},
		{"valid PKCS#1 v1.5 signature of the base key", goodP1}, {"valid PSS signature of the base key", goodPSS},
		{"k+1 zero octets", make([]byte, k0+1)}, {"the bare encoded message EM (a forgery when E=1)", bareEM},
	}
	type opT struct {
		name   string
		family string
		inputs []string
		run    func(pub *zrsa.PublicKey, in int) error
	}
	var sigNames []string
	for _, s := range sigShapes {
		sigNames = append(sigNames, s.name)
	}
	msgs := [][]byte{{}, msg16}
	ops := []opT{
		{"EncryptPKCS1v15", "Encrypt*", []string{"empty message", "16-octet message"}, func(pub *zrsa.PublicKey, in int) error {
			_, err := zrsa.EncryptPKCS1v15(fx.NewRand("mal"), pub, msgs[in])
			return err
		}},
		{"EncryptOAEP(SHA-256)", "Encrypt*", []string{"empty message", "16-octet message"}, func(pub *zrsa.PublicKey, in int) error {
			_, err := zrsa.EncryptOAEP(crypto.SHA256.New(), fx.NewRand("mal"), pub, msgs[in], nil)
			return err
		}},
		{"VerifyPKCS1v15(SHA-256)", "Verify*", sigNames, func(pub *zrsa.PublicKey, in int) error {
			return zrsa.VerifyPKCS1v15(pub, crypto.SHA256, digest, sigShapes[in].b)
		}},
		{"VerifyPKCS1v15(unhashed)", "Verify*", sigNames, func(pub *zrsa.PublicKey, in int) error {
			return zrsa.VerifyPKCS1v15(pub, 0, msg16, sigShapes[in].b)
		}},
		{"VerifyPSS(SHA-256,auto)", "Verify*", sigNames, func(pub *zrsa.PublicKey, in int) error {
			return zrsa.VerifyPSS(pub, crypto.SHA256, digest, sigShapes[in].b, nil)
		}},
		{"VerifyPSS(SHA-256,salt=hash)", "Verify*", sigNames, func(pub *zrsa.PublicKey, in int) error {
			return zrsa.VerifyPSS(pub, crypto.SHA256, digest, sigShapes[in].b, &zrsa.PSSOptions{SaltLength: zrsa.PSSSaltLengthEqualsHash})
		}},
	}
	// ---- private-key entry points on a private key whose embedded public part is malformed
	// (the statement's "operations on malformed public keys": a PrivateKey embeds its PublicKey and
	// every private-key function reads N and E from it; Go's crypto/rsa returns an error for each of
	// these keys). D, the primes and (form "precomputed") the CRT values stay those of the base key.
	mkPriv := func(pub *zrsa.PublicKey, precomputed bool) *zrsa.PrivateKey {
		p := fx.ZRSA("rsa1024")
		if precomputed {
			p.Precompute()
		}
		p.N, p.E = pub.N, pub.E
		return p
	}
	goodCT, err := ref.EncP1(fx.NewRand("mal-ct"), msg16)
	if err != nil {
		x.c.Broken("cannot make base ciphertext: %v", err)
	}
	goodOAEP, err := ref.EncOAEP(crypto.SHA256, fx.NewRand("mal-oaep"), msg16, nil)
	if err != nil {
		x.c.Broken("cannot make base OAEP ciphertext: %v", err)
	}
	ctShapes := []struct {
		name string
		b    []byte
	}{
		{"nil", nil}, {"k zero octets", make([]byte, k0)}, {"k octets value 1", one}, {"k octets = prime factor", pmul},
		{"valid PKCS#1 v1.5 ciphertext of the base key", goodCT}, {"valid OAEP ciphertext of the base key", goodOAEP},
		{"k+1 zero octets", make([]byte, k0+1)},
	}
	var ctNames []string
	for _, s := range ctShapes {
		ctNames = append(ctNames, s.name)
	}
	for _, pre := range []bool{true, false} {
		pre := pre
		fam := func(s string) string {
			if pre {
				return s + " (private key, precomputed)"
			}
			return s + " (private key, not precomputed)"
		}
		one1 := []string{"32-octet digest"}
		ops = append(ops,
			opT{fam("SignPKCS1v15(SHA-256)"), "Sign*", one1, func(pub *zrsa.PublicKey, in int) error {
				_, err := zrsa.SignPKCS1v15(nil, mkPriv(pub, pre), crypto.SHA256, digest)
				return err
			}},
			opT{fam("SignPKCS1v15(unhashed)"), "Sign*", one1, func(pub *zrsa.PublicKey, in int) error {
				_, err := zrsa.SignPKCS1v15(nil, mkPriv(pub, pre), 0, msg16)
				return err
			}},
			opT{fam("SignPSS(SHA-256,auto)"), "Sign*", one1, func(pub *zrsa.PublicKey, in int) error {
				_, err := zrsa.SignPSS(fx.NewRand("m"), mkPriv(pub, pre), crypto.SHA256, digest, nil)
				return err
			}},
			opT{fam("SignPSS(SHA-256,salt=hash)"), "Sign*", one1, func(pub *zrsa.PublicKey, in int) error {
				_, err := zrsa.SignPSS(fx.NewRand("m"), mkPriv(pub, pre), crypto.SHA256, digest, &zrsa.PSSOptions{SaltLength: zrsa.PSSSaltLengthEqualsHash})
				return err
			}},
			opT{fam("PrivateKey.Sign(crypto.SHA256)"), "Sign*", one1, func(pub *zrsa.PublicKey, in int) error {
				_, err := mkPriv(pub, pre).Sign(fx.NewRand("m"), digest, crypto.SHA256)
				return err
			}},
			opT{fam("PrivateKey.Sign(PSSOptions)"), "Sign*", one1, func(pub *zrsa.PublicKey, in int) error {
				_, err := mkPriv(pub, pre).Sign(fx.NewRand("m"), digest, &zrsa.PSSOptions{SaltLength: 20, Hash: crypto.SHA256})
				return err
			}},
			opT{fam("DecryptPKCS1v15"), "Decrypt*", ctNames, func(pub *zrsa.PublicKey, in int) error {
				_, err := zrsa.DecryptPKCS1v15(nil, mkPriv(pub, pre), ctShapes[in].b)
				return err
			}},
			opT{fam("DecryptPKCS1v15SessionKey"), "Decrypt*", ctNames, func(pub *zrsa.PublicKey, in int) error {
				return zrsa.DecryptPKCS1v15SessionKey(nil, mkPriv(pub, pre), ctShapes[in].b, make([]byte, 16))
			}},
			opT{fam("DecryptOAEP(SHA-256)"), "Decrypt*", ctNames, func(pub *zrsa.PublicKey, in int) error {
				_, err := zrsa.DecryptOAEP(crypto.SHA256.New(), nil, mkPriv(pub, pre), ctShapes[in].b, nil)
				return err
			}},
			opT{fam("PrivateKey.Decrypt(nil)"), "Decrypt*", ctNames, func(pub *zrsa.PublicKey, in int) error {
				_, err := mkPriv(pub, pre).Decrypt(nil, ctShapes[in].b, nil)
				return err
			}},
			opT{fam("PrivateKey.Decrypt(OAEPOptions)"), "Decrypt*", ctNames, func(pub *zrsa.PublicKey, in int) error {
				_, err := mkPriv(pub, pre).Decrypt(nil, ctShapes[in].b, &zrsa.OAEPOptions{Hash: crypto.SHA256})
				return err
			}},
			opT{fam("PrivateKey.Decrypt(SessionKeyLen=16)"), "Decrypt*", ctNames, func(pub *zrsa.PublicKey, in int) error {
				_, err := mkPriv(pub, pre).Decrypt(fx.NewRand("m"), ctShapes[in].b, &zrsa.PKCS1v15DecryptOptions{SessionKeyLen: 16})
				return err
			}},
			opT{fam("PrivateKey.Validate"), "Validate", []string{"-"}, func(pub *zrsa.PublicKey, in int) error {
				return mkPriv(pub, pre).Validate()
			}},
		)
	}

	found := map[string][]any{}
	var order []string
	report := func(sig string, mc malCase) {
		if _, ok := found[sig]; !ok {
			order = append(order, sig)
		}
		found[sig] = append(found[sig], mc)
	}
	for _, nv := range Ns {
		for _, evv := range Es {
			if nv.valid && evv.valid {
				continue
			}
			strict := nv.strict || evv.strict
			var cls []string
			if !nv.valid {
				cls = append(cls, "N="+nv.name)
			}
			if !evv.valid {
				cls = append(cls, "E="+evv.name)
			}
			class := strings.Join(cls, ",")
			for _, op := range ops {
				for in := range op.inputs {
					pub := &zrsa.PublicKey{}
					if nv.v != nil {
						pub.N = new(big.Int).Set(nv.v)
					}
					if evv.v != nil {
						pub.E = new(big.Int).Set(evv.v)
					}
					x.st++
					x.tr++
					x.trc++
					var err error
					pan, msg, site := ev.Try(func() { err = op.run(pub, in) })
					mc := malCase{Op: op.name, N: nv.name, E: evv.name, Input: op.inputs[in]}
					switch {
					case pan:
						mc.Result = "panic: " + msg + " @" + site
						// the signature names the first malformed component that explains the crash class
						comp := class
						if len(cls) == 2 {
							comp = cls[0] + "/" + cls[1]
						}
						if strings.HasPrefix(evv.name, "-") {
							comp = strings.Replace(comp, "E="+evv.name, "E<0", 1)
						}
						report(fmt.Sprintf("malformed public key (%s): panic in %s @%s: %s", comp, op.family, site, ev.MsgClass(msg)), mc)
						x.h["malformed:panic"]++
					case err == nil && strict:
						mc.Result = "no error"
						report(fmt.Sprintf("malformed public key (%s): %s returns no error", class, op.family), mc)
						x.h["malformed:strict:NO-ERROR"]++
					case err == nil:
						x.h[fmt.Sprintf("malformed:lenient(%s):%s succeeds", class, op.name)]++
					default:
						x.dist++
						if strict {
							x.h["malformed:strict:error:"+ev.MsgClass(err.Error())]++
						} else {
							x.h["malformed:lenient:error"]++
						}
					}
				}
			}
		}
	}
	// Signatures: merge pair classes (N=..../E=....) into their single-component class when that
	// component alone already produces the same panic, so that one defect gives few signatures.
	single := map[string]bool{}
	for _, s := range order {
		if !strings.Contains(s, "/E") {
			single[s] = true
		}
	}
	merged := map[string][]any{}
	var morder []string
	for _, s := range order {
		tgt := s
		if i := strings.Index(s, "/E"); i >= 0 {
			// "(N=x/E=y): rest"
			open := strings.Index(s, "(")
			cl := strings.Index(s, ")")
			nPart := s[open+1 : i]
			ePart := s[i+1 : cl]
			rest := s[cl:]
			candN := s[:open+1] + nPart + rest
			candE := s[:open+1] + ePart + rest
			if single[candN] {
				tgt = candN
			} else if single[candE] {
				tgt = candE
			}
		}
		if _, ok := merged[tgt]; !ok {
			morder = append(morder, tgt)
		}
		merged[tgt] = append(merged[tgt], found[s]...)
	}
	sort.Strings(morder)
	for _, s := range morder {
		cases := merged[s]
		show := cases
		if len(show) > 12 {
			show = show[:12]
		}
		for i := range cases {
			_ = i
			x.c.Violation(s, witness{Unit: "malformed", Detail: fmt.Sprintf("%d failing (operation, key, input) combinations; first ones listed", len(cases)), Cases: show})
		}
	}

	// Methods that cannot return an error (Size, Equal, Public): "return an error instead of
	// panicking" cannot apply; their behaviour is recorded next to crypto/rsa's on the analogous key
	// (E is an int there: a missing exponent does not exist).
	for _, nv := range Ns {
		for _, evv := range Es {
			if nv.valid && evv.valid {
				continue
			}
			pub := &zrsa.PublicKey{}
			spub := &stdrsa.PublicKey{}
			if nv.v != nil {
				pub.N = new(big.Int).Set(nv.v)
				spub.N = new(big.Int).Set(nv.v)
			}
			if evv.v != nil {
				pub.E = new(big.Int).Set(evv.v)
				spub.E = int(evv.v.Int64())
			}
			type m struct {
				name string
				z, s func()
			}
			for _, mm := range []m{
				{"Size", func() { pub.Size() }, func() { spub.Size() }},
				{"Equal(self)", func() { pub.Equal(pub) }, func() { spub.Equal(spub) }},
				{"PrivateKey.Public", func() { mkPriv(pub, true).Public() }, func() {}},
			} {
				x.tr++
				zp, _, _ := ev.Try(mm.z)
				sp, _, _ := ev.Try(mm.s)
				x.h[fmt.Sprintf("info(no error result) %s on a malformed key: zcrypto panics=%v crypto/rsa panics=%v", mm.name, zp, sp)]++
			}
		}
	}
}
