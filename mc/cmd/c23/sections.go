package main

import (
	"bytes"
	"crypto"
	"fmt"
	"math/big"
	"sort"
	"strings"

	zrsa "github.com/zmap/zcrypto/rsa"
	"verifmc/internal/fx"
)

// ---------------------------------------------------------------- oracle helpers

var bigOne = big.NewInt(1)

func (x *uctx) expVerifyP1(h crypto.Hash, d, sig []byte, both bool) error {
	x.evl++
	a := x.primary.VerifyP1(h, d, sig)
	if both && x.second != nil {
		if b := x.second.VerifyP1(h, d, sig); (a == nil) != (b == nil) {
			x.oracleSplit("VerifyPKCS1v15 "+hname(h), a, b, sig)
		}
	}
	return a
}

func (x *uctx) expVerifyPSS(h crypto.Hash, d, sig []byte, salt int, both bool) error {
	x.evl++
	a := x.primary.VerifyPSS(h, d, sig, salt)
	if both && x.second != nil {
		if b := x.second.VerifyPSS(h, d, sig, salt); (a == nil) != (b == nil) {
			x.oracleSplit(fmt.Sprintf("VerifyPSS %s salt=%d", hname(h), salt), a, b, sig)
		}
	}
	return a
}

// expDecP1 / expDecOAEP: only for ciphertexts of exactly k octets.
func (x *uctx) expDecP1(ct []byte, both bool) ([]byte, error) {
	x.evl++
	a, ae := x.primary.DecP1(ct)
	if both && x.second != nil {
		b, be := x.second.DecP1(ct)
		if (ae == nil) != (be == nil) || (ae == nil && !bytes.Equal(a, b)) {
			x.oracleSplit("DecryptPKCS1v15", ae, be, ct)
		}
	}
	return a, ae
}

func (x *uctx) expDecOAEP(h, mgf crypto.Hash, ct, label []byte, both bool) ([]byte, error) {
	x.evl++
	a, ae := x.primary.DecOAEP(h, mgf, ct, label)
	if both && x.second != nil {
		b, be := x.second.DecOAEP(h, mgf, ct, label)
		if (ae == nil) != (be == nil) || (ae == nil && !bytes.Equal(a, b)) {
			x.oracleSplit("DecryptOAEP", ae, be, ct)
		}
	}
	return a, ae
}

func dedupe(in []int) []int {
	seen := map[int]bool{}
	var out []int
	for _, v := range in {
		if !seen[v] {
			seen[v] = true
			out = append(out, v)
		}
	}
	return out
}

type deviation struct {
	name string
	em   []byte
}

func clone(b []byte) []byte { return append([]byte{}, b...) }

// ---------------------------------------------------------------- PKCS#1 v1.5 encryption

// zcDecP1All runs every PKCS#1 v1.5 decryption path of one zcrypto key form on ct
// (k octets) and compares with the oracle's outcome (want, wantOK).
func (x *uctx) zcDecP1All(z *zcKey, ct, want []byte, wantOK bool, cs string) {
	type res struct {
		op  string
		pt  []byte
		err error
	}
	var rs []res
	a, e := z.DecP1(ct)
	rs = append(rs, res{"DecryptPKCS1v15", a, e})
	a, e = z.Decrypt(nil, ct, nil)
	rs = append(rs, res{"PrivateKey.Decrypt(nil)", a, e})
	a, e = z.Decrypt(nil, ct, &zrsa.PKCS1v15DecryptOptions{})
	rs = append(rs, res{"PrivateKey.Decrypt(PKCS1v15DecryptOptions{})", a, e})
	for _, r := range rs {
		x.st++
		x.tr++
		x.trc++
		w := witness{Op: r.op, Case: cs, Input: hx(ct)}
		if x.isPanic(r.op, r.err, w) {
			continue
		}
		switch {
		case (r.err == nil) != wantOK:
			w.Detail = fmt.Sprintf("zc err=%v, oracle accepts=%v", r.err, wantOK)
			x.failPriv(z.form, "DecryptPKCS1v15: verdict differs from the oracle (zc="+verdict(r.err)+")", w)
		case wantOK && !bytes.Equal(r.pt, want):
			w.Detail = "zc=" + hx(r.pt) + " oracle=" + hx(want)
			x.failPriv(z.form, "DecryptPKCS1v15: plaintext differs from the oracle", w)
		default:
			x.h["p1dec:"+verdict(r.err)]++
			if wantOK {
				x.dist++
			}
		}
	}
	L := 16
	if wantOK {
		L = len(want)
	}
	for _, kl := range []int{L, L + 1} {
		zk := bytes.Repeat([]byte{0xA5}, kl)
		pk := bytes.Repeat([]byte{0xA5}, kl)
		x.st++
		x.tr++
		x.evl++
		x.trc++
		ze := z.DecP1SessionKey(ct, zk)
		pe := x.primary.DecP1SessionKey(ct, pk)
		w := witness{Op: "DecryptPKCS1v15SessionKey", Case: fmt.Sprintf("%s keylen=%d", cs, kl), Input: hx(ct)}
		if x.isPanic(w.Op, ze, w) {
			continue
		}
		if (ze == nil) != (pe == nil) || !bytes.Equal(zk, pk) {
			w.Detail = fmt.Sprintf("zc err=%v key=%s; oracle err=%v key=%s", ze, hx(zk), pe, hx(pk))
			x.failPriv(z.form, "DecryptPKCS1v15SessionKey: error or key buffer differs from the oracle", w)
			continue
		}
		x.h["p1sessionkey:"+verdict(ze)+fmt.Sprintf(":copied=%v", !bytes.Equal(zk, bytes.Repeat([]byte{0xA5}, kl)))]++
		if kl == 0 {
			continue
		}
		// crypto.Decrypter path with SessionKeyLen
		x.st++
		x.tr++
		out, oe := z.Decrypt(fx.NewRand("sk-"+cs), ct, &zrsa.PKCS1v15DecryptOptions{SessionKeyLen: kl})
		w.Op = "PrivateKey.Decrypt(SessionKeyLen)"
		if x.isPanic(w.Op, oe, w) {
			continue
		}
		if (oe == nil) != (pe == nil) || (oe == nil && len(out) != kl) || (oe == nil && wantOK && kl == len(want) && !bytes.Equal(out, want)) {
			w.Detail = fmt.Sprintf("err=%v out=%s (oracle session-key err=%v)", oe, hx(out), pe)
			x.failPriv(z.form, "PrivateKey.Decrypt(SessionKeyLen): wrong error, length or session key", w)
			continue
		}
		x.h["p1decrypter-sessionkey:"+verdict(oe)]++
	}
}

func p1EncDeviations(k int, seed string, msg []byte) []deviation {
	ps := nonZero(fx.NewRand("ps-"+seed), k-3-len(msg))
	base := append([]byte{0, 2}, ps...)
	base = append(base, 0)
	base = append(base, msg...)
	sep := 2 + len(ps)
	var out []deviation
	set := func(name string, f func(b []byte)) {
		b := clone(base)
		f(b)
		out = append(out, deviation{name, b})
	}
	set("valid", func(b []byte) {})
	set("EM[0]=01", func(b []byte) { b[0] = 1 })
	set("EM[1]=01", func(b []byte) { b[1] = 1 })
	set("EM[1]=00", func(b []byte) { b[1] = 0 })
	set("EM[1]=03", func(b []byte) { b[1] = 3 })
	for _, i := range []int{0, 1, 6, 7, 8, 9} {
		if 2+i < sep {
			i := i
			set(fmt.Sprintf("PS[%d]=00", i), func(b []byte) { b[2+i] = 0 })
		}
	}
	set("separator=01,no zero in M", func(b []byte) {
		b[sep] = 1
		for j := sep + 1; j < len(b); j++ {
			b[j] = 0x41
		}
	})
	set("separator=ff", func(b []byte) {
		b[sep] = 0xff
		for j := sep + 1; j < len(b); j++ {
			b[j] |= 1
		}
	})
	set("EM=0", func(b []byte) {
		for j := range b {
			b[j] = 0
		}
	})
	set("EM=1", func(b []byte) {
		for j := range b {
			b[j] = 0
		}
		b[len(b)-1] = 1
	})
	set("empty message (separator last)", func(b []byte) {
		for j := 2; j < len(b)-1; j++ {
			b[j] = 0x77
		}
		b[len(b)-1] = 0
	})
	return out
}

func (x *uctx) runP1Enc() {
	ki, k := x.ki, x.ki.k
	zpub := ki.zc("plain")
	for _, L := range dedupe([]int{0, 1, 16, k - 11}) {
		msg := det(fmt.Sprintf("msg-%s-%d", ki.name, L), L)
		cs := fmt.Sprintf("len=%d", L)
		x.st++
		x.tr++
		ct, err := zpub.EncP1(fx.NewRand("p1enc-z-"+ki.name+cs), msg)
		w := witness{Op: "EncryptPKCS1v15", Case: cs, Input: hx(msg)}
		if !x.isPanic(w.Op, err, w) {
			if err != nil || len(ct) != k {
				w.Detail = fmt.Sprintf("err=%v len(ct)=%d", err, len(ct))
				x.failPub("EncryptPKCS1v15: fails or returns a ciphertext of the wrong length for an admissible message", w)
			} else {
				x.trc++
				pt, perr := x.expDecP1(ct, true)
				if perr != nil || !bytes.Equal(pt, msg) {
					w.Detail = fmt.Sprintf("oracle err=%v plaintext=%s ct=%s", perr, hx(pt), hx(ct))
					x.failPub("EncryptPKCS1v15: the oracle does not decrypt the ciphertext to the message", w)
				} else {
					x.dist++
					x.h["p1enc:zc→oracle:decrypted"]++
				}
			}
		}
		for _, P := range x.all {
			pct, perr := P.EncP1(fx.NewRand("p1enc-p-"+ki.name+cs), msg)
			if perr != nil {
				x.c.Broken("%s cannot encrypt %s: %v", P.Name(), cs, perr)
			}
			for _, f := range formNames {
				x.zcDecP1All(ki.zc(f), pct, msg, true, P.Name()+" ciphertext "+cs)
			}
		}
	}
	// one octet too long
	{
		msg := det("msg-long-"+ki.name, k-10)
		x.st++
		x.tr++
		_, err := zpub.EncP1(fx.NewRand("p1enc-long"), msg)
		_, perr := x.primary.EncP1(fx.NewRand("p1enc-long"), msg)
		w := witness{Op: "EncryptPKCS1v15", Case: "len=k-10", Input: hx(msg)}
		if !x.isPanic(w.Op, err, w) {
			if err == nil || perr == nil {
				w.Detail = fmt.Sprintf("zc err=%v oracle err=%v", err, perr)
				x.failPub("EncryptPKCS1v15: message of k-10 octets accepted", w)
			} else {
				x.h["p1enc:too-long:error"]++
			}
		}
	}
	// encoded-message deviations
	msg := det("msg-dev-"+ki.name, 16)
	for _, dv := range p1EncDeviations(k, ki.name, msg) {
		v := os2ip(dv.em)
		if v.Cmp(ki.N) >= 0 {
			continue
		}
		ct := i2osp(x.ref.pubOp(v), k)
		want, werr := x.expDecP1(ct, true)
		x.h["p1dec-deviation:oracle-"+verdict(werr)]++
		for _, f := range formNames {
			x.zcDecP1All(ki.zc(f), ct, want, werr == nil, "EM deviation: "+dv.name)
		}
	}
}

// ---------------------------------------------------------------- OAEP

func (x *uctx) zcDecOAEPAll(z *zcKey, h, mgf crypto.Hash, ct, label, want []byte, wantOK bool, cs string) {
	type res struct {
		op  string
		pt  []byte
		err error
	}
	var rs []res
	if h == mgf {
		a, e := z.DecOAEP(h, h, ct, label)
		rs = append(rs, res{"DecryptOAEP", a, e})
		a, e = z.Decrypt(nil, ct, &zrsa.OAEPOptions{Hash: h, Label: label})
		rs = append(rs, res{"PrivateKey.Decrypt(OAEPOptions)", a, e})
	}
	a, e := z.Decrypt(nil, ct, &zrsa.OAEPOptions{Hash: h, MGFHash: mgf, Label: label})
	rs = append(rs, res{"PrivateKey.Decrypt(OAEPOptions+MGFHash)", a, e})
	for _, r := range rs {
		x.st++
		x.tr++
		x.trc++
		w := witness{Op: r.op, Case: cs, Hash: hname(h) + "/" + hname(mgf), Input: hx(ct)}
		if x.isPanic(r.op, r.err, w) {
			continue
		}
		switch {
		case (r.err == nil) != wantOK:
			w.Detail = fmt.Sprintf("zc err=%v, oracle accepts=%v", r.err, wantOK)
			x.failPriv(z.form, "DecryptOAEP: verdict differs from the oracle (zc="+verdict(r.err)+")", w)
		case wantOK && !bytes.Equal(r.pt, want):
			w.Detail = "zc=" + hx(r.pt) + " oracle=" + hx(want)
			x.failPriv(z.form, "DecryptOAEP: plaintext differs from the oracle", w)
		default:
			x.h["oaepdec:"+verdict(r.err)]++
			if wantOK {
				x.dist++
			}
		}
	}
}

func oaepDeviations(h, mgf crypto.Hash, k int, label, msg []byte) []deviation {
	hLen := h.Size()
	seed := det("oaep-seed", hLen)
	db := oaepDB(h, label, msg, k)
	sep := len(db) - len(msg) - 1
	var out []deviation
	add := func(name string, f func(db []byte), y byte) {
		d := clone(db)
		f(d)
		em := oaepEM(h, mgf, seed, d)
		em[0] = y
		out = append(out, deviation{name, em})
	}
	add("valid", func(d []byte) {}, 0)
	add("Y=01", func(d []byte) {}, 1)
	add("lHash bit flipped", func(d []byte) { d[0] ^= 1 }, 0)
	add("lHash last bit flipped", func(d []byte) { d[hLen-1] ^= 0x80 }, 0)
	add("separator=00 (message without 01)", func(d []byte) { d[sep] = 0 }, 0)
	add("separator=02", func(d []byte) { d[sep] = 2 }, 0)
	if sep > hLen {
		add("PS[0]=01 (early separator)", func(d []byte) { d[hLen] = 1 }, 0)
		add("PS[0]=02", func(d []byte) { d[hLen] = 2 }, 0)
		add("PS[last]=ff", func(d []byte) { d[sep-1] = 0xff }, 0)
	}
	add("DB all zero after lHash", func(d []byte) {
		for j := hLen; j < len(d); j++ {
			d[j] = 0
		}
	}, 0)
	return out
}

func (x *uctx) runOAEP() {
	ki, k := x.ki, x.ki.k
	zpub := ki.zc("plain")
	// hashes x labels: SHA-1 and SHA-256 with {no label, "x"}, SHA-256/384/512 with a 32-octet label
	// (SHA-384/512: message lengths {0, max} only; keys below 776 / 1040 bits take the key-too-small path)
	label32 := det("oaep-label32", 32)
	type oaepCfg struct {
		h      crypto.Hash
		labels [][]byte
		full   bool
	}
	cfgs := []oaepCfg{
		{crypto.SHA1, [][]byte{nil, []byte("x")}, true},
		{crypto.SHA256, [][]byte{nil, []byte("x"), label32}, true},
		{crypto.SHA384, [][]byte{label32}, false},
		{crypto.SHA512, [][]byte{label32}, false},
	}
	if ki.lite && !x.thorough {
		cfgs = []oaepCfg{{crypto.SHA256, [][]byte{label32}, false}}
	}
	for _, cfg := range cfgs {
		h := cfg.h
		max := k - 2*h.Size() - 2
		for _, label := range cfg.labels {
			lcs := fmt.Sprintf("%s label=%q", hname(h), label)
			if max < 0 {
				// key too small for this hash: everything must fail cleanly
				x.st++
				x.tr += 2
				_, e1 := zpub.EncOAEP(h, fx.NewRand("o"), nil, label)
				_, e2 := ki.zc("precomputed").DecOAEP(h, h, i2osp(bigOne, k), label)
				_, p1 := x.primary.EncOAEP(h, fx.NewRand("o"), nil, label)
				w := witness{Op: "EncryptOAEP/DecryptOAEP", Case: lcs + " key too small"}
				if !x.isPanic(w.Op, e1, w) && !x.isPanic(w.Op, e2, w) {
					if e1 == nil || e2 == nil || p1 == nil {
						w.Detail = fmt.Sprintf("zc enc=%v dec=%v oracle enc=%v", e1, e2, p1)
						x.failPub("OAEP: operation succeeds although k < 2*hLen+2", w)
					} else {
						x.h["oaep:key-too-small:error"]++
					}
				}
				continue
			}
			lens := []int{0, 1, 16 % (max + 1), max}
			if !cfg.full {
				lens = []int{0, max}
			}
			for _, L := range dedupe(lens) {
				msg := det(fmt.Sprintf("omsg-%s-%d", ki.name, L), L)
				cs := fmt.Sprintf("%s len=%d", lcs, L)
				x.st++
				x.tr++
				ct, err := zpub.EncOAEP(h, fx.NewRand("oaep-z-"+ki.name+cs), msg, label)
				w := witness{Op: "EncryptOAEP", Case: cs, Hash: hname(h), Input: hx(msg)}
				if !x.isPanic(w.Op, err, w) {
					if err != nil || len(ct) != k {
						w.Detail = fmt.Sprintf("err=%v len(ct)=%d", err, len(ct))
						x.failPub("EncryptOAEP: fails or returns a ciphertext of the wrong length for an admissible message", w)
					} else {
						x.trc++
						pt, perr := x.expDecOAEP(h, h, ct, label, true)
						_, wrongLabel := x.expDecOAEP(h, h, ct, []byte("y"), false)
						if perr != nil || !bytes.Equal(pt, msg) || wrongLabel == nil {
							w.Detail = fmt.Sprintf("oracle err=%v plaintext=%s wrong-label err=%v ct=%s", perr, hx(pt), wrongLabel, hx(ct))
							x.failPub("EncryptOAEP: the oracle does not decrypt the ciphertext to the message (or accepts it under another label)", w)
						} else {
							x.dist++
							x.h["oaep:zc→oracle:decrypted"]++
						}
					}
				}
				for _, P := range x.all {
					pct, perr := P.EncOAEP(h, fx.NewRand("oaep-p-"+ki.name+cs), msg, label)
					if perr != nil {
						x.c.Broken("%s cannot OAEP-encrypt %s: %v", P.Name(), cs, perr)
					}
					for _, f := range formNames {
						z := ki.zc(f)
						x.zcDecOAEPAll(z, h, h, pct, label, msg, true, P.Name()+" ciphertext "+cs)
						x.zcDecOAEPAll(z, h, h, pct, []byte("y"), nil, false, P.Name()+" ciphertext, wrong label, "+cs)
					}
				}
			}
			// one octet too long
			x.st++
			x.tr++
			_, err := zpub.EncOAEP(h, fx.NewRand("o"), make([]byte, max+1), label)
			_, perr := x.primary.EncOAEP(h, fx.NewRand("o"), make([]byte, max+1), label)
			w := witness{Op: "EncryptOAEP", Case: lcs + " len=max+1"}
			if !x.isPanic(w.Op, err, w) {
				if err == nil || perr == nil {
					x.failPub("EncryptOAEP: message one octet too long accepted", w)
				} else {
					x.h["oaep:too-long:error"]++
				}
			}
		}
		if max < 0 {
			continue
		}
		// separate MGF hash (reference encrypts, crypto/rsa cross-checks the expectation)
		mgf := crypto.SHA1
		if h == crypto.SHA1 {
			mgf = crypto.SHA256
		}
		L := 16 % (max + 1)
		msg := det("omsg-mgf-"+ki.name, L)
		ct, _ := x.ref.EncOAEPmgf(h, mgf, fx.NewRand("oaep-mgf-"+ki.name), msg, []byte("x"))
		want, werr := x.expDecOAEP(h, mgf, ct, []byte("x"), true)
		if werr != nil || !bytes.Equal(want, msg) {
			x.c.Broken("oracle cannot decrypt reference OAEP with separate MGF hash: %v", werr)
		}
		for _, f := range formNames {
			x.zcDecOAEPAll(ki.zc(f), h, mgf, ct, []byte("x"), msg, true, "textbook ciphertext, MGF hash "+hname(mgf))
		}
		// encoded-message deviations
		for _, dv := range oaepDeviations(h, h, k, []byte("x"), msg) {
			v := os2ip(dv.em)
			if v.Cmp(ki.N) >= 0 {
				continue
			}
			dct := i2osp(x.ref.pubOp(v), k)
			dw, de := x.expDecOAEP(h, h, dct, []byte("x"), true)
			x.h["oaepdec-deviation:oracle-"+verdict(de)]++
			for _, f := range formNames {
				x.zcDecOAEPAll(ki.zc(f), h, h, dct, []byte("x"), dw, de == nil, "EM deviation: "+dv.name)
			}
		}
	}
}

// ---------------------------------------------------------------- ciphertext mutations

func (x *uctx) runCtMut(scheme string, chunk int) {
	ki, k := x.ki, x.ki.k
	msg := det("ctmut-msg-"+ki.name, 16)
	h := crypto.SHA1
	// choose, among 64 fixed encryption seeds, the first whose ciphertext + N still fits k octets
	var ct []byte
	for j := 0; j < 64; j++ {
		var c []byte
		if scheme == "p1" {
			c, _ = x.ref.EncP1(fx.NewRand(fmt.Sprintf("ctmut-%s-%d", ki.name, j)), msg)
		} else {
			c, _ = x.ref.EncOAEP(h, fx.NewRand(fmt.Sprintf("ctmut-%s-%d", ki.name, j)), msg, nil)
		}
		if ct == nil {
			ct = c
		}
		if i2osp(new(big.Int).Add(os2ip(c), ki.N), k) != nil {
			ct = c
			x.h["ctmut:base with ct+N fitting k octets"]++
			break
		}
	}
	bitGran := x.thorough || ki.bits <= 1025 // quick tier: single-bit flips of ciphertexts up to 1025 bits, byte menu above
	muts := mutate(ct, ki.N, bitGran, !bitGran || x.thorough)
	dec := func(z *zcKey, b []byte) ([]byte, error) {
		if scheme == "p1" {
			return z.DecP1(b)
		}
		return z.DecOAEP(h, h, b, nil)
	}
	op := map[string]string{"p1": "DecryptPKCS1v15", "oaep": "DecryptOAEP"}[scheme]
	zs := []*zcKey{ki.zc("plain"), ki.zc("precomputed"), ki.zc("swapped")}
	for i, m := range muts {
		if i%ctChunks != chunk {
			continue
		}
		if i&31 == 0 && x.c.TimeUp() {
			x.c.Incomplete("ciphertext mutations of " + x.u.id + " not finished")
			return
		}
		forms := zs
		if !x.thorough && (m.kind == "bitflip" || m.kind == "byte") {
			forms = zs[(i/ctChunks)%3 : (i/ctChunks)%3+1] // quick: flips rotate over the three forms
		}
		c := os2ip(m.b)
		var want []byte
		var werr error
		have := false
		for _, z := range forms {
			x.st++
			x.tr++
			pt, err := dec(z, m.b)
			w := witness{Op: op, Case: "mutated ciphertext: " + m.name, Input: hx(m.b)}
			if x.isPanic(op, err, w) {
				continue
			}
			switch {
			case c.Cmp(ki.N) >= 0:
				if err == nil {
					w.Detail = "plaintext=" + hx(pt)
					sig := op + ": accepts a ciphertext whose value is >= N"
					if _, bad := rawBad.Load(ki.name + "/" + z.form + "/range"); bad {
						sig = rawRangeSig // same defect as found in phase 1
					}
					x.failPriv(z.form, sig, w)
				} else {
					x.h["ctmut:"+m.kind+":>=N:rejected"]++
				}
			case len(m.b) == k:
				if !have {
					if scheme == "p1" {
						want, werr = x.expDecP1(m.b, false)
					} else {
						want, werr = x.expDecOAEP(h, h, m.b, nil, false)
					}
					have = true
				}
				x.trc++
				if (err == nil) != (werr == nil) || (err == nil && !bytes.Equal(pt, want)) {
					w.Detail = fmt.Sprintf("zc err=%v pt=%s; oracle err=%v pt=%s", err, hx(pt), werr, hx(want))
					x.failPriv(z.form, op+": verdict or plaintext differs from the oracle on a mutated ciphertext ("+m.kind+")", w)
				} else {
					x.h["ctmut:"+m.kind+":"+verdict(err)+"-both"]++
					if err == nil {
						x.dist++
					}
				}
			default:
				// octet length != k, value < N: statement silent on acceptance; an accepted plaintext must be right
				if err == nil {
					var rw []byte
					var re error
					if scheme == "p1" {
						rw, re = x.ref.DecP1(m.b)
					} else {
						rw, re = x.ref.DecOAEP(h, h, m.b, nil)
					}
					x.evl++
					if re != nil || !bytes.Equal(rw, pt) {
						w.Detail = fmt.Sprintf("zc pt=%s; textbook (by value) err=%v pt=%s", hx(pt), re, hx(rw))
						x.failPriv(z.form, op+": wrong plaintext for a ciphertext of length != k", w)
						continue
					}
				}
				x.h[fmt.Sprintf("ctmut:length!=k:zc-%s", verdict(err))]++
			}
		}
	}
}

// ---------------------------------------------------------------- PKCS#1 v1.5 signatures

func p1SigDeviations(h crypto.Hash, d []byte, k int) []deviation {
	t, err := digestInfo(h, d, true)
	if err != nil || k < len(t)+11 {
		return nil
	}
	n := k - len(t) - 3
	build := func(ps int, t []byte, tail []byte) []byte {
		em := append([]byte{0, 1}, bytes.Repeat([]byte{0xff}, ps)...)
		em = append(em, 0)
		em = append(em, t...)
		return append(em, tail...)
	}
	base := build(n, t, nil)
	var out []deviation
	set := func(name string, f func(b []byte)) {
		b := clone(base)
		f(b)
		out = append(out, deviation{name, b})
	}
	set("valid", func(b []byte) {})
	set("EM[0]=01", func(b []byte) { b[0] = 1 })
	set("EM[1]=00", func(b []byte) { b[1] = 0 })
	set("EM[1]=02", func(b []byte) { b[1] = 2 })
	set("PS[0]=fe", func(b []byte) { b[2] = 0xfe })
	set("PS[last]=fe", func(b []byte) { b[2+n-1] = 0xfe })
	set("PS[last]=00", func(b []byte) { b[2+n-1] = 0 })
	set("separator=01", func(b []byte) { b[2+n] = 1 })
	set("separator=ff", func(b []byte) { b[2+n] = 0xff })
	if len(d) > 0 {
		set("digest bit flipped", func(b []byte) { b[len(b)-1] ^= 1 })
	}
	if len(t) > len(d) {
		set("DigestInfo length octet +1", func(b []byte) { b[2+n+1+1]++ })
		out = append(out, deviation{"PS one shorter, garbage octet appended", build(n-1, t, []byte{0x5a})})
		if t2, err := digestInfo(h, d, false); err == nil && len(t2) == len(t)-2 {
			out = append(out, deviation{"DigestInfo without NULL parameters", build(n+2, t2, nil)})
		}
		for _, h2 := range allHashes() {
			if _, ok := refOIDs[h2]; ok && h2 != h && hashSize(h2) == len(d) {
				if t3, err := digestInfo(h2, d, true); err == nil && len(t3) == len(t) {
					out = append(out, deviation{"DigestInfo OID of " + hname(h2), build(n, t3, nil)})
					break
				}
			}
		}
	} else if n > 8 {
		out = append(out, deviation{"PS one shorter, garbage octet appended", build(n-1, t, []byte{0x5a})})
	}
	return out
}

func isUnsupportedHashErr(err error) bool {
	return err != nil && strings.Contains(err.Error(), "unsupported hash")
}

func (x *uctx) runP1Sig(h crypto.Hash) {
	ki, k := x.ki, x.ki.k
	zpub := ki.zc("plain")
	var digests [][]byte
	if h == 0 {
		for _, L := range dedupe([]int{0, 1, 20, k - 11, k - 10}) {
			digests = append(digests, det(fmt.Sprintf("raw-%s-%d", ki.name, L), L))
		}
	} else {
		n := hashSize(h)
		digests = append(digests, det("digest-"+hname(h), n), det("digest-"+hname(h), n-1))
		if x.thorough {
			digests = append(digests, make([]byte, n), bytes.Repeat([]byte{0xff}, n))
		}
	}
	bitGran := x.thorough || ki.bits <= 2048
	for di, d := range digests {
		cs := fmt.Sprintf("%s digest[%d] len=%d", hname(h), di, len(d))
		osig, oerr := x.primary.SignP1(h, d)
		if x.second != nil {
			ssig, serr := x.second.SignP1(h, d)
			if (oerr == nil) != (serr == nil) || !bytes.Equal(osig, ssig) {
				x.oracleSplit("SignPKCS1v15 "+cs, oerr, serr, d)
			}
		}
		distinct := map[string]bool{}
		zcRefuses := false
		for _, f := range formNames {
			z := ki.zc(f)
			type res struct {
				op  string
				sig []byte
				err error
			}
			var rs []res
			s, e := z.SignP1(h, d)
			rs = append(rs, res{"SignPKCS1v15", s, e})
			s, e = z.Sign(nil, d, h)
			rs = append(rs, res{"PrivateKey.Sign(crypto.Hash)", s, e})
			for _, r := range rs {
				x.st++
				x.tr++
				w := witness{Op: r.op, Hash: hname(h), Case: cs, Input: hx(d)}
				if x.isPanic(r.op, r.err, w) {
					continue
				}
				switch {
				case r.err != nil && oerr != nil:
					x.h["p1sig:both-refuse"]++
				case r.err != nil && oerr == nil:
					// "computes what standard RSA computes": a hash function the standard library
					// signs with and the fork refuses is a difference (no waiver for hashes missing
					// from the fork's DigestInfo table).
					w.Detail = "zc err=" + errStr(r.err)
					if isUnsupportedHashErr(r.err) {
						zcRefuses = true
						x.failPriv(f, "SignPKCS1v15: refuses as unsupported a hash function the oracle signs with", w)
					} else {
						x.failPriv(f, "SignPKCS1v15: fails where the oracle signs", w)
					}
				case r.err == nil && oerr != nil:
					w.Detail = "oracle err=" + errStr(oerr) + " zc sig=" + hx(r.sig)
					x.failPriv(f, "SignPKCS1v15: signs where the oracle refuses", w)
				default:
					x.trc++
					if verr := x.expVerifyP1(h, d, r.sig, true); verr != nil {
						w.Detail = "sig=" + hx(r.sig) + " oracle sig=" + hx(osig)
						x.failPriv(f, "SignPKCS1v15: signature rejected by the oracle's verifier", w)
					} else {
						x.dist++
						x.h[fmt.Sprintf("p1sig:zc→oracle:accepted(bytes-equal=%v)", bytes.Equal(r.sig, osig))]++
						if f == "swapped" && x.c.WantSample() {
							x.c.Sample(map[string]any{"unit": x.u.id, "form": f, "op": r.op, "hash": hname(h), "digest": hx(d), "signature": hx(r.sig), "verified_by": x.primary.Name()})
						}
						distinct[string(r.sig)] = true
					}
				}
			}
		}
		if oerr != nil {
			continue
		}
		// oracle → zc
		for _, P := range x.all {
			ps, pe := P.SignP1(h, d)
			if pe != nil {
				continue
			}
			x.st++
			x.tr++
			x.trc++
			ze := zpub.VerifyP1(h, d, ps)
			w := witness{Op: "VerifyPKCS1v15", Hash: hname(h), Case: cs + " signature by " + P.Name(), Input: hx(ps)}
			if x.isPanic(w.Op, ze, w) {
				continue
			}
			if zcRefuses && ze != nil {
				w.Detail = "zc err=" + errStr(ze)
				x.failPub("VerifyPKCS1v15: rejects the oracle's signature under a hash function SignPKCS1v15 refuses as unsupported", w)
				continue
			}
			if ze != nil {
				w.Detail = "zc err=" + errStr(ze)
				x.failPub("VerifyPKCS1v15: rejects the oracle's signature", w)
				continue
			}
			x.dist++
			x.h["p1verify:oracle→zc:accepted"]++
			distinct[string(ps)] = true
		}
		if zcRefuses {
			continue
		}
		cmp := func(hh crypto.Hash, dd, sig []byte, kind, name string, both bool) {
			x.st++
			x.tr++
			x.trc++
			zv := zpub.VerifyP1(hh, dd, sig)
			w := witness{Op: "VerifyPKCS1v15", Hash: hname(hh), Case: cs + ": " + name, Input: hx(sig)}
			if x.isPanic(w.Op, zv, w) {
				return
			}
			ov := x.expVerifyP1(hh, dd, sig, both)
			if (zv == nil) != (ov == nil) {
				w.Detail = fmt.Sprintf("zc=%s (%v) oracle=%s (%v) digest=%s", verdict(zv), zv, verdict(ov), ov, hx(dd))
				x.failPub("VerifyPKCS1v15: verdict differs from the oracle ("+kind+"): zc="+verdict(zv), w)
				return
			}
			x.h["p1verify:"+kind+":"+verdict(zv)+"-both"]++
		}
		var sigs []string
		for s := range distinct {
			sigs = append(sigs, s)
		}
		sort.Strings(sigs)
		for _, s := range sigs {
			sig := []byte(s)
			if len(d) > 0 {
				d2 := clone(d)
				d2[len(d2)-1] ^= 1
				cmp(h, d2, sig, "other digest", "digest last bit flipped", true)
			}
			for _, h2 := range allHashes() {
				if h2 != h && (h2 == 0 || hashSize(h2) == len(d)) {
					cmp(h2, d, sig, "other hash id", "verified as "+hname(h2), true)
				}
			}
			for i, m := range mutate(sig, ki.N, bitGran && !x.microQuick(), (!bitGran || x.thorough) && !x.microQuick()) {
				if i&255 == 0 && x.c.TimeUp() {
					x.c.Incomplete("signature mutations of " + x.u.id + " not finished")
					return
				}
				cmp(h, d, m.b, "mutation "+m.kind, m.name, x.crossOracle(m.kind, i))
			}
		}
		// structure-level forgeries: sign a deviating EM with the private key
		if di == 0 || h == 0 {
			for _, dv := range p1SigDeviations(h, d, k) {
				v := os2ip(dv.em)
				if v.Cmp(ki.N) >= 0 || len(dv.em) != k {
					continue
				}
				forged := i2osp(x.ref.privOp(v), k)
				cmp(h, d, forged, "EM deviation", "EM deviation: "+dv.name, true)
			}
		}
	}
}

// ---------------------------------------------------------------- PSS

// quick tier: one hash per distinct digest length gets every single-bit flip, the others the byte menu.
var pssBitHashes = map[crypto.Hash]bool{crypto.MD5: true, crypto.SHA1: true, crypto.SHA224: true, crypto.SHA256: true, crypto.SHA384: true, crypto.SHA512: true}

// microQuick: quick tier, key with the micro profile: no bit / byte mutation menu.
func (x *uctx) microQuick() bool { return !x.thorough && x.ki != nil && x.ki.micro }

// crossOracle: on mutated inputs the verdict comes from the primary oracle; the second
// oracle re-checks it on every non-bitflip mutation and (quick tier) every 8th bit flip.
func (x *uctx) crossOracle(kind string, i int) bool {
	return x.thorough || kind != "bitflip" || i%8 == 0
}

func (x *uctx) runPSS(h crypto.Hash) {
	ki := x.ki
	hLen := h.Size()
	emBits := ki.bits - 1
	emLen := (emBits + 7) / 8
	maxSalt := emLen - hLen - 2
	d := det("pss-digest-"+hname(h), hLen)
	zpub := ki.zc("plain")
	bitGran := x.thorough || (ki.bits <= 2048 && pssBitHashes[h])
	if !x.thorough && !ki.stdOK && h != crypto.SHA1 && h != crypto.SHA256 {
		bitGran = false // quick tier, exponents beyond crypto/rsa (slow textbook public operation): two hashes bit-granular
	}

	modes := []int{0, -1, 20, 1, -2}
	if maxSalt > 0 {
		modes = append(modes, maxSalt, maxSalt+1)
	}
	modes = dedupe(modes)
	actualOf := func(mode int) int {
		switch mode {
		case 0:
			return maxSalt
		case -1:
			return hLen
		}
		return mode
	}
	verifyModes := func(actual int) []int {
		v := []int{0, -1, actual + 1, 20, -2}
		if actual > 0 {
			v = append(v, actual)
		}
		if actual > 1 {
			v = append(v, actual-1)
		}
		if maxSalt > 0 {
			v = append(v, maxSalt+1)
		}
		return dedupe(v)
	}
	// cmpV: zcrypto's verdict must equal the oracle's; mustAccept additionally demands acceptance.
	cmpV := func(dd, sig []byte, vm int, kind, name string, mustAccept bool, layerForm string, both bool) bool {
		x.st++
		x.tr++
		x.trc++
		zv := zpub.VerifyPSS(h, dd, sig, vm)
		w := witness{Op: "VerifyPSS", Hash: hname(h), Case: fmt.Sprintf("%s; verify SaltLength=%d", name, vm), Input: hx(sig)}
		if x.isPanic(w.Op, zv, w) {
			return false
		}
		ov := x.expVerifyPSS(h, dd, sig, vm, both)
		if mustAccept && ov != nil {
			w.Detail = fmt.Sprintf("oracle err=%v", ov)
			if layerForm != "" {
				w.Op = "SignPSS"
				x.failPriv(layerForm, "SignPSS: signature rejected by the oracle's verifier", w)
			} else {
				x.c.Broken("oracle rejects an oracle-made PSS signature in %s: %s", x.u.id, name)
			}
			return false
		}
		if (zv == nil) != (ov == nil) {
			w.Detail = fmt.Sprintf("zc=%s (%v) oracle=%s (%v)", verdict(zv), zv, verdict(ov), ov)
			x.failPub("VerifyPSS: verdict differs from the oracle ("+kind+"): zc="+verdict(zv), w)
			return false
		}
		x.h["pssverify:"+kind+":"+verdict(zv)+"-both"]++
		return zv == nil
	}

	type made struct {
		sig    []byte
		actual int
		who    string
	}
	var mutSet []made
	seen := map[string]bool{}
	for _, mode := range modes {
		seed := fmt.Sprintf("pss-%s-%s-%d", ki.name, hname(h), mode)
		cs := fmt.Sprintf("sign SaltLength=%d", mode)
		osig, oerr := x.primary.SignPSS(fx.NewRand(seed), h, d, mode)
		if x.second != nil {
			_, serr := x.second.SignPSS(fx.NewRand(seed), h, d, mode)
			if (oerr == nil) != (serr == nil) {
				x.oracleSplit("SignPSS "+cs, oerr, serr, d)
			}
		}
		actual := actualOf(mode)
		for fi, f := range formNames {
			if !x.thorough && fi != 1 && mode != 0 && mode != -1 {
				continue // quick tier: the salt-length alphabet runs on the precomputed form, {auto, equals-hash} on all forms
			}
			z := ki.zc(f)
			type res struct {
				op  string
				sig []byte
				err error
			}
			var rs []res
			s, e := z.SignPSS(fx.NewRand(seed), h, d, mode)
			rs = append(rs, res{"SignPSS", s, e})
			if x.thorough || fi == 1 || mode == -1 {
				s, e = z.Sign(fx.NewRand(seed), d, &zrsa.PSSOptions{SaltLength: mode, Hash: h})
				rs = append(rs, res{"PrivateKey.Sign(PSSOptions)", s, e})
			}
			if mode == 0 {
				s, e = guardB(func() ([]byte, error) { return zrsa.SignPSS(fx.NewRand(seed), z.priv, h, d, nil) })
				rs = append(rs, res{"SignPSS(nil opts)", s, e})
			}
			if fi == 1 {
				other := crypto.SHA1
				if h == crypto.SHA1 {
					other = crypto.SHA256
				}
				s, e = guardB(func() ([]byte, error) {
					return zrsa.SignPSS(fx.NewRand(seed), z.priv, other, d, &zrsa.PSSOptions{SaltLength: mode, Hash: h})
				})
				rs = append(rs, res{"SignPSS(opts.Hash overrides)", s, e})
			}
			for _, r := range rs {
				x.st++
				x.tr++
				w := witness{Op: r.op, Hash: hname(h), Case: cs, Input: hx(d)}
				if x.isPanic(r.op, r.err, w) {
					continue
				}
				switch {
				case r.err != nil && oerr != nil:
					x.h["psssign:both-refuse"]++
				case r.err != nil:
					w.Detail = "zc err=" + errStr(r.err)
					x.failPriv(f, "SignPSS: fails where the oracle signs", w)
				case oerr != nil:
					w.Detail = "oracle err=" + errStr(oerr) + " zc sig=" + hx(r.sig)
					x.failPriv(f, "SignPSS: signs where the oracle refuses", w)
				default:
					if seen[string(r.sig)] {
						x.h["psssign:same signature as already validated"]++
						x.dist++
						continue
					}
					seen[string(r.sig)] = true
					ok := true
					for _, vm := range verifyModes(actual) {
						must := vm == 0 || vm == actual || (vm == -1 && actual == hLen)
						acc := cmpV(d, r.sig, vm, "unmodified signature", "zc["+f+"] "+cs, must, f, true)
						if must && !acc {
							ok = false
						}
					}
					if ok {
						x.dist++
						x.h[fmt.Sprintf("psssign:zc→oracle:accepted(bytes-equal=%v)", bytes.Equal(r.sig, osig))]++
						if x.thorough || mode == 0 || mode == -1 {
							mutSet = append(mutSet, made{r.sig, actual, "zc"})
						}
					}
				}
			}
		}
		if oerr != nil {
			continue
		}
		for pi, P := range x.all {
			ps, pe := P.SignPSS(fx.NewRand(seed+"/peer"), h, d, mode)
			if pe != nil {
				x.c.Broken("%s cannot PSS-sign %s: %v", P.Name(), cs, pe)
			}
			if seen[string(ps)] {
				continue
			}
			seen[string(ps)] = true
			ok := true
			for _, vm := range verifyModes(actual) {
				must := vm == 0 || vm == actual || (vm == -1 && actual == hLen)
				acc := cmpV(d, ps, vm, "unmodified signature", P.Name()+" "+cs, must, "", true)
				if must && !acc {
					ok = false
				}
			}
			if ok {
				x.dist++
				x.h["pssverify:oracle→zc:accepted"]++
				if (x.thorough || pssBitHashes[h]) && mode == -1 && pi == 0 {
					mutSet = append(mutSet, made{ps, actual, P.Name()})
				}
			}
		}
	}
	// digest of the wrong length (one octet short / long): zcrypto must refuse exactly when the oracle refuses
	for _, dl := range []int{hLen - 1, hLen + 1} {
		dd := det("pss-wrongdigest-"+hname(h), dl)
		_, oerr := x.primary.SignPSS(fx.NewRand("pss-wd"), h, dd, -1)
		if x.second != nil {
			if _, serr := x.second.SignPSS(fx.NewRand("pss-wd"), h, dd, -1); (oerr == nil) != (serr == nil) {
				x.oracleSplit("SignPSS wrong-length digest", oerr, serr, dd)
			}
		}
		for _, f := range formNames {
			z := ki.zc(f)
			type res struct {
				op  string
				err error
				sig []byte
			}
			var rs []res
			sg, e := z.SignPSS(fx.NewRand("pss-wd"), h, dd, -1)
			rs = append(rs, res{"SignPSS", e, sg})
			sg, e = z.Sign(fx.NewRand("pss-wd"), dd, &zrsa.PSSOptions{SaltLength: -1, Hash: h})
			rs = append(rs, res{"PrivateKey.Sign(PSSOptions)", e, sg})
			for _, r := range rs {
				x.st++
				x.tr++
				x.trc++
				w := witness{Op: r.op, Hash: hname(h), Case: fmt.Sprintf("digest of %d octets for a %d-octet hash", dl, hLen), Input: hx(dd)}
				if x.isPanic(r.op, r.err, w) {
					continue
				}
				if (r.err == nil) != (oerr == nil) {
					w.Detail = fmt.Sprintf("zc err=%v sig=%s; oracle err=%v", r.err, hx(r.sig), oerr)
					x.failPriv(f, "SignPSS: digest of the wrong length: zcrypto "+map[bool]string{true: "signs", false: "refuses"}[r.err == nil]+" where the oracle does not", w)
					continue
				}
				x.dist++
				x.h["psssign:wrong-length digest:"+verdict(r.err)+"-both"]++
			}
		}
	}
	// textbook signatures with explicit salt lengths, including the empty salt
	for _, sl := range dedupe([]int{0, 1, hLen, maxSalt}) {
		if sl < 0 || sl > maxSalt {
			continue
		}
		s, err := x.ref.signPSSSalt(h, d, det("salt-"+ki.name, sl))
		if err != nil {
			x.c.Broken("textbook PSS sign salt=%d: %v", sl, err)
		}
		for _, vm := range verifyModes(sl) {
			cmpV(d, s, vm, "unmodified signature", fmt.Sprintf("textbook signature salt=%d", sl), vm == 0 || vm == sl, "", true)
		}
	}
	if maxSalt < 0 {
		return
	}
	// other digest / other hash
	if len(mutSet) > 0 {
		sig := mutSet[0].sig
		d2 := clone(d)
		d2[0] ^= 0x80
		cmpV(d2, sig, 0, "other digest", "digest first bit flipped", false, "", true)
		cmpV(d[:hLen-1], sig, 0, "other digest", "digest one octet short", false, "", true)
	}
	// mutations
	for _, m := range mutSet {
		vms := []int{0}
		if x.thorough && m.actual > 0 {
			vms = append(vms, m.actual)
		}
		for i, mu := range mutate(m.sig, ki.N, bitGran && !x.microQuick(), (!bitGran || x.thorough) && !x.microQuick()) {
			if i&255 == 0 && x.c.TimeUp() {
				x.c.Incomplete("signature mutations of " + x.u.id + " not finished")
				return
			}
			for _, vm := range vms {
				cmpV(d, mu.b, vm, "mutation "+mu.kind, m.who+" signature, "+mu.name, false, "", x.crossOracle(mu.kind, i))
			}
		}
	}
	// structure-level forgeries of EM (salt = hash length when it fits, else the longest)
	sl := hLen
	if sl > maxSalt {
		sl = maxSalt
	}
	salt := det("pss-dev-salt", sl)
	H := hsum(h, make([]byte, 8), d, salt)
	db := append(make([]byte, emLen-sl-hLen-2), 1)
	db = append(db, salt...)
	ps := emLen - sl - hLen - 2
	var devs []deviation
	addDev := func(name string, f func(db, H []byte), post func(em []byte)) {
		d2, h2 := clone(db), clone(H)
		if f != nil {
			f(d2, h2)
		}
		em := pssEM(h, d2, h2, emBits)
		if post != nil {
			post(em)
		}
		devs = append(devs, deviation{name, em})
	}
	addDev("valid", nil, nil)
	addDev("trailer bd", nil, func(em []byte) { em[len(em)-1] = 0xbd })
	addDev("H bit flipped", func(db, H []byte) { H[0] ^= 1 }, nil)
	addDev("separator 02", func(db, H []byte) { db[ps] = 2 }, nil)
	addDev("separator 00", func(db, H []byte) { db[ps] = 0 }, nil)
	if sl > 0 {
		addDev("salt bit flipped", func(db, H []byte) { db[len(db)-1] ^= 1 }, nil)
	}
	if ps > 0 {
		addDev("PS[0]=01", func(db, H []byte) { db[0] = 1 }, nil)
		addDev("PS[last]=01", func(db, H []byte) { db[ps-1] = 1 }, nil)
		addDev("PS[last]=ff", func(db, H []byte) { db[ps-1] = 0xff }, nil)
	}
	if 8*emLen-emBits > 0 {
		addDev("unused top bit of EM set", nil, func(em []byte) { em[0] |= 0x80 })
	}
	for _, dv := range devs {
		full := dv.em
		v := os2ip(full)
		if v.Cmp(ki.N) >= 0 {
			continue
		}
		forged := i2osp(x.ref.privOp(v), ki.k)
		for _, vm := range dedupe([]int{0, -1, sl}) {
			cmpV(d, forged, vm, "EM deviation", "EM deviation: "+dv.name, false, "", true)
		}
	}
	if emLen < ki.k { // modulus of 8k+1 bits: a non-zero octet in front of EM
		// 01||EM must stay below N (= 01 xx ...): among 256 fixed salts take the first whose EM is small enough
		done := false
		for try := 0; try < 256 && !done; try++ {
			salt2 := det(fmt.Sprintf("pss-dev-salt-%d", try), sl)
			H2 := hsum(h, make([]byte, 8), d, salt2)
			db2 := append(make([]byte, emLen-sl-hLen-2), 1)
			db2 = append(db2, salt2...)
			em := pssEM(h, db2, H2, emBits)
			if x.ref.VerifyPSSEM(h, d, em) != nil {
				x.c.Broken("harness-made PSS encoding is not valid")
			}
			v := os2ip(append([]byte{1}, em...))
			if v.Cmp(ki.N) >= 0 {
				continue
			}
			done = true
			forged := i2osp(x.ref.privOp(v), ki.k)
			for _, vm := range dedupe([]int{0, -1, sl}) {
				cmpV(d, forged, vm, "EM deviation", "EM deviation: octet 01 in front of EM (modulus of 8k+1 bits)", false, "", true)
			}
			x.h["pss:01||EM forgery evaluated"]++
		}
		if !done {
			x.c.Incomplete("PSS 01||EM forgery: no EM below N among 256 salts in " + x.u.id)
		}
	}
}
