package main

import (
	"crypto"
	stdrsa "crypto/rsa"
	"fmt"
	"io"

	zrsa "github.com/zmap/zcrypto/rsa"
	"verifmc/internal/ev"
)

// peer is "the other implementation" of one key: crypto/rsa or the textbook reference.
type peer interface {
	Name() string
	EncP1(rnd io.Reader, msg []byte) ([]byte, error)
	DecP1(ct []byte) ([]byte, error)
	DecP1SessionKey(ct, key []byte) error
	EncOAEP(h crypto.Hash, rnd io.Reader, msg, label []byte) ([]byte, error)
	DecOAEP(h, mgf crypto.Hash, ct, label []byte) ([]byte, error)
	SignP1(h crypto.Hash, digest []byte) ([]byte, error)
	VerifyP1(h crypto.Hash, digest, sig []byte) error
	SignPSS(rnd io.Reader, h crypto.Hash, digest []byte, salt int) ([]byte, error)
	VerifyPSS(h crypto.Hash, digest, sig []byte, salt int) error
}

// ---- crypto/rsa ----

type stdPeer struct{ k *stdrsa.PrivateKey }

func (s *stdPeer) Name() string { return "crypto/rsa" }
func (s *stdPeer) EncP1(rnd io.Reader, msg []byte) ([]byte, error) {
	return stdrsa.EncryptPKCS1v15(rnd, &s.k.PublicKey, msg)
}
func (s *stdPeer) DecP1(ct []byte) ([]byte, error) { return stdrsa.DecryptPKCS1v15(nil, s.k, ct) }
func (s *stdPeer) DecP1SessionKey(ct, key []byte) error {
	return stdrsa.DecryptPKCS1v15SessionKey(nil, s.k, ct, key)
}
func (s *stdPeer) EncOAEP(h crypto.Hash, rnd io.Reader, msg, label []byte) ([]byte, error) {
	return stdrsa.EncryptOAEP(h.New(), rnd, &s.k.PublicKey, msg, label)
}
func (s *stdPeer) DecOAEP(h, mgf crypto.Hash, ct, label []byte) ([]byte, error) {
	return s.k.Decrypt(nil, ct, &stdrsa.OAEPOptions{Hash: h, MGFHash: mgf, Label: label})
}
func (s *stdPeer) SignP1(h crypto.Hash, digest []byte) ([]byte, error) {
	return stdrsa.SignPKCS1v15(nil, s.k, h, digest)
}
func (s *stdPeer) VerifyP1(h crypto.Hash, digest, sig []byte) error {
	return stdrsa.VerifyPKCS1v15(&s.k.PublicKey, h, digest, sig)
}
func (s *stdPeer) SignPSS(rnd io.Reader, h crypto.Hash, digest []byte, salt int) ([]byte, error) {
	return stdrsa.SignPSS(rnd, s.k, h, digest, &stdrsa.PSSOptions{SaltLength: salt})
}
func (s *stdPeer) VerifyPSS(h crypto.Hash, digest, sig []byte, salt int) error {
	return stdrsa.VerifyPSS(&s.k.PublicKey, h, digest, sig, &stdrsa.PSSOptions{SaltLength: salt})
}

// ---- zcrypto (the code under test), every call guarded against panics ----

type panicErr struct{ msg, site string }

func (p *panicErr) Error() string { return "PANIC " + p.msg + " @" + p.site }

func guardB(f func() ([]byte, error)) (out []byte, err error) {
	if pan, msg, site := ev.Try(func() { out, err = f() }); pan {
		return nil, &panicErr{msg, site}
	}
	return
}
func guardE(f func() error) (err error) {
	if pan, msg, site := ev.Try(func() { err = f() }); pan {
		return &panicErr{msg, site}
	}
	return
}

type zcKey struct {
	priv *zrsa.PrivateKey
	form string
}

func (z *zcKey) Name() string { return "zcrypto[" + z.form + "]" }
func (z *zcKey) EncP1(rnd io.Reader, msg []byte) ([]byte, error) {
	return guardB(func() ([]byte, error) { return zrsa.EncryptPKCS1v15(rnd, &z.priv.PublicKey, msg) })
}
func (z *zcKey) DecP1(ct []byte) ([]byte, error) {
	return guardB(func() ([]byte, error) { return zrsa.DecryptPKCS1v15(nil, z.priv, ct) })
}
func (z *zcKey) DecP1SessionKey(ct, key []byte) error {
	return guardE(func() error { return zrsa.DecryptPKCS1v15SessionKey(nil, z.priv, ct, key) })
}
func (z *zcKey) EncOAEP(h crypto.Hash, rnd io.Reader, msg, label []byte) ([]byte, error) {
	return guardB(func() ([]byte, error) { return zrsa.EncryptOAEP(h.New(), rnd, &z.priv.PublicKey, msg, label) })
}
func (z *zcKey) DecOAEP(h, mgf crypto.Hash, ct, label []byte) ([]byte, error) {
	if h == mgf {
		return guardB(func() ([]byte, error) { return zrsa.DecryptOAEP(h.New(), nil, z.priv, ct, label) })
	}
	return z.Decrypt(nil, ct, &zrsa.OAEPOptions{Hash: h, MGFHash: mgf, Label: label})
}
func (z *zcKey) SignP1(h crypto.Hash, digest []byte) ([]byte, error) {
	return guardB(func() ([]byte, error) { return zrsa.SignPKCS1v15(nil, z.priv, h, digest) })
}
func (z *zcKey) VerifyP1(h crypto.Hash, digest, sig []byte) error {
	return guardE(func() error { return zrsa.VerifyPKCS1v15(&z.priv.PublicKey, h, digest, sig) })
}
func (z *zcKey) SignPSS(rnd io.Reader, h crypto.Hash, digest []byte, salt int) ([]byte, error) {
	return guardB(func() ([]byte, error) {
		return zrsa.SignPSS(rnd, z.priv, h, digest, &zrsa.PSSOptions{SaltLength: salt})
	})
}
func (z *zcKey) VerifyPSS(h crypto.Hash, digest, sig []byte, salt int) error {
	return guardE(func() error {
		return zrsa.VerifyPSS(&z.priv.PublicKey, h, digest, sig, &zrsa.PSSOptions{SaltLength: salt})
	})
}

// interface paths (crypto.Signer / crypto.Decrypter)
func (z *zcKey) Sign(rnd io.Reader, digest []byte, opts crypto.SignerOpts) ([]byte, error) {
	return guardB(func() ([]byte, error) { return crypto.Signer(z.priv).Sign(rnd, digest, opts) })
}
func (z *zcKey) Decrypt(rnd io.Reader, ct []byte, opts crypto.DecrypterOpts) ([]byte, error) {
	return guardB(func() ([]byte, error) { return crypto.Decrypter(z.priv).Decrypt(rnd, ct, opts) })
}
func (z *zcKey) RawPriv(c []byte, check bool) ([]byte, error) {
	return guardB(func() ([]byte, error) { return zrsa.VerifC23Decrypt(z.priv, c, check) })
}
func (z *zcKey) RawPub(m []byte) ([]byte, error) {
	return guardB(func() ([]byte, error) { return zrsa.VerifC23Encrypt(&z.priv.PublicKey, m) })
}

var _ peer = (*zcKey)(nil)
var _ peer = (*stdPeer)(nil)

func verdict(err error) string {
	if err == nil {
		return "accept"
	}
	return "reject"
}

func errStr(err error) string {
	if err == nil {
		return "<nil>"
	}
	return fmt.Sprint(err)
}
