//go:debug rsa1024min=0

// C23 — the RSA fork computes what standard RSA computes.
//
// Engine E2 (differential enumeration): for every fixture key (sizes 512..4096,
// 1025 bits, 2..5 primes, exponents 3 .. 256 bits) plus keys produced by
// zcrypto's own generator, in three private-key forms (Precompute called, not
// called, prime order swapped+Precompute), every operation of zcrypto/rsa is
// executed against crypto/rsa (same key material) and against a textbook
// math/big reference written from RFC 8017, in both directions, together with
// all single-bit / byte / arithmetic / length mutations of signatures and
// ciphertexts, structure-level deviations of the encoded messages, a direct
// check of the raw private and public operation, and malformed public keys.
package main

import (
	"bytes"
	"crypto"
	_ "crypto/md5"
	stdrsa "crypto/rsa"
	_ "crypto/sha1"
	_ "crypto/sha256"
	_ "crypto/sha3"
	_ "crypto/sha512"
	"encoding/hex"
	"encoding/json"
	"fmt"
	"math/big"
	"os"
	"runtime/pprof"
	"sort"
	"strings"
	"sync"
	"sync/atomic"
	"time"

	zrsa "github.com/zmap/zcrypto/rsa"
	_ "golang.org/x/crypto/blake2b"
	_ "golang.org/x/crypto/blake2s"
	_ "golang.org/x/crypto/md4"
	_ "golang.org/x/crypto/ripemd160"
	"verifmc/internal/ev"
	"verifmc/internal/fx"
	"verifmc/internal/nohb"
)

// ---------------------------------------------------------------- keys

type genKey struct {
	N, E, D string
	Primes  []string
}

type keyInfo struct {
	name    string
	N, E, D *big.Int
	primes  []*big.Int
	bits, k int
	stdOK   bool
	gen     bool
	lite    bool // reduced unit set (quick tier: expensive or narrowly targeted keys)
	micro   bool // lite, and signatures are mutated without the bit / byte menu (quick tier: exponent longer than the modulus, every public operation is a full-size exponentiation)
	pssOnly bool // quick tier: PSS units only (keys that exist for the width of the PSS top-bit mask)
}

func newKeyInfo(name string, z *zrsa.PrivateKey, gen bool) *keyInfo {
	ki := &keyInfo{name: name, N: z.N, E: z.E, D: z.D, primes: z.Primes, gen: gen}
	ki.bits = z.N.BitLen()
	ki.k = (ki.bits + 7) / 8
	ki.stdOK = z.E.IsInt64() && z.E.Int64() <= 1<<31-1 && z.E.Int64() >= 2
	return ki
}

func (ki *keyInfo) export() *genKey {
	g := &genKey{N: ki.N.Text(16), E: ki.E.Text(16), D: ki.D.Text(16)}
	for _, p := range ki.primes {
		g.Primes = append(g.Primes, p.Text(16))
	}
	return g
}

func keyFromGen(name string, g *genKey) *keyInfo {
	bi := func(s string) *big.Int { x, _ := new(big.Int).SetString(s, 16); return x }
	z := &zrsa.PrivateKey{PublicKey: zrsa.PublicKey{N: bi(g.N), E: bi(g.E)}, D: bi(g.D)}
	for _, p := range g.Primes {
		z.Primes = append(z.Primes, bi(p))
	}
	return newKeyInfo(name, z, true)
}

func cp(x *big.Int) *big.Int { return new(big.Int).Set(x) }

var formNames = []string{"plain", "precomputed", "swapped"}

// zc returns a fresh zcrypto key in one of the three forms:
// plain (no Precompute), precomputed, swapped (prime order reversed, then Precompute).
func (ki *keyInfo) zc(form string) *zcKey {
	p := &zrsa.PrivateKey{PublicKey: zrsa.PublicKey{N: cp(ki.N), E: cp(ki.E)}, D: cp(ki.D)}
	for _, q := range ki.primes {
		p.Primes = append(p.Primes, cp(q))
	}
	switch form {
	case "precomputed":
		p.Precompute()
	case "swapped":
		for i, j := 0, len(p.Primes)-1; i < j; i, j = i+1, j-1 {
			p.Primes[i], p.Primes[j] = p.Primes[j], p.Primes[i]
		}
		p.Precompute()
	}
	return &zcKey{priv: p, form: form}
}

func (ki *keyInfo) std() *stdPeer {
	if !ki.stdOK {
		return nil
	}
	p := &stdrsa.PrivateKey{PublicKey: stdrsa.PublicKey{N: cp(ki.N), E: int(ki.E.Int64())}, D: cp(ki.D)}
	for _, q := range ki.primes {
		p.Primes = append(p.Primes, cp(q))
	}
	p.Precompute()
	return &stdPeer{p}
}

func (ki *keyInfo) ref() *refKey {
	return &refKey{N: ki.N, E: ki.E, D: ki.D, k: ki.k, bits: ki.bits}
}

// ---------------------------------------------------------------- units

type unit struct {
	id   string // sect/key[/arg]
	sect string
	key  string
	arg  string
	cost int
}

type witness struct {
	Unit   string  `json:"unit"`
	Key    string  `json:"key,omitempty"`
	Form   string  `json:"form,omitempty"`
	Op     string  `json:"op,omitempty"`
	Peer   string  `json:"peer,omitempty"`
	Hash   string  `json:"hash,omitempty"`
	Case   string  `json:"case,omitempty"`
	Detail string  `json:"detail,omitempty"`
	Input  string  `json:"input_hex,omitempty"`
	Cases  []any   `json:"cases,omitempty"`
	Gen    *genKey `json:"generated_key,omitempty"`
}

type uctx struct {
	c        *ev.Ctx
	u        unit
	ki       *keyInfo
	h        ev.Hist
	ref      *refKey
	primary  peer   // crypto/rsa when the exponent fits, else the textbook reference
	second   peer   // textbook reference when primary is crypto/rsa
	all      []peer // producers for the peer→zcrypto direction
	thorough bool

	st, tr, evl, trc, dist int64
}

var rawBad sync.Map // "key/form" or "key/pub" → true after phase 1

func newUctx(c *ev.Ctx, u unit, ki *keyInfo) *uctx {
	x := &uctx{c: c, u: u, ki: ki, h: ev.Hist{}, thorough: !c.Quick()}
	if ki != nil {
		x.ref = ki.ref()
		if s := ki.std(); s != nil {
			x.primary, x.second = s, x.ref
			x.all = []peer{s, x.ref}
		} else {
			x.primary = x.ref
			x.all = []peer{x.ref}
		}
	}
	return x
}

func (x *uctx) flush() {
	x.c.Merge(x.h)
	x.c.States.Add(x.st)
	x.c.Transitions.Add(x.tr)
	x.c.Evaluations.Add(x.evl)
	x.c.Traces.Add(x.trc)
	x.c.Distinct.Add(x.dist)
}

func (x *uctx) viol(sig string, w witness) {
	w.Unit = x.u.id
	w.Key = x.u.key
	if x.ki != nil && x.ki.gen {
		w.Gen = x.ki.export()
	}
	if x.ki != nil {
		w.Detail = fmt.Sprintf("[%d-bit, %d primes, %d-bit exponent] %s", x.ki.bits, len(x.ki.primes), x.ki.E.BitLen(), w.Detail)
	}
	x.c.Violation(sig, w)
}

func rawPrivSig(form string) string {
	return "raw private operation: result does not satisfy m^E = c (mod N), 0 <= m < N [form=" + form + "]"
}

const rawRangeSig = "raw private operation accepts a ciphertext representative >= N"

const rawPubSig = "raw public operation: result differs from m^E mod N"

// failPriv reports a failure of an operation that used zcrypto's private-key
// path; when phase 1 already showed that the raw private operation of this
// form is wrong, the failure is attributed to that one signature.
func (x *uctx) failPriv(form, sig string, w witness) {
	if _, bad := rawBad.Load(x.u.key + "/" + form); bad {
		sig = rawPrivSig(form)
	}
	w.Form = form
	x.viol(sig, w)
}

// failPub is the same for operations that only use the public-key path.
func (x *uctx) failPub(sig string, w witness) {
	if _, bad := rawBad.Load(x.u.key + "/pub"); bad {
		sig = rawPubSig
	}
	x.viol(sig, w)
}

// isPanic reports a panic of zcrypto on a VALID key (always a violation).
func (x *uctx) isPanic(op string, err error, w witness) bool {
	pe, ok := err.(*panicErr)
	if !ok {
		return false
	}
	w.Op = op
	w.Detail = pe.msg + " " + w.Detail
	x.viol(fmt.Sprintf("panic@%s: %s (valid key)", pe.site, ev.MsgClass(pe.msg)), w)
	return true
}

// oracleSplit: crypto/rsa and the textbook reference disagree — the check is broken, not zcrypto.
func (x *uctx) oracleSplit(what string, a, b error, in []byte) {
	x.c.Broken("oracles disagree in %s on %s: crypto/rsa=%v textbook=%v input=%s", x.u.id, what, a, b, hx(in))
}

func hx(b []byte) string {
	if len(b) > 600 {
		return hex.EncodeToString(b[:600]) + "…"
	}
	return hex.EncodeToString(b)
}

func det(seed string, n int) []byte {
	b := make([]byte, n)
	fx.NewRand(seed).Read(b)
	return b
}

func hname(h crypto.Hash) string {
	if h == 0 {
		return "none"
	}
	return h.String()
}

// ---------------------------------------------------------------- mutations

type mutation struct {
	kind string // identity | bitflip | byte | arith | length
	name string
	b    []byte
}

// mutate enumerates: the identity; every single-bit flip (bitGran) or the three
// byte substitutions {00, ff, ^b} at every offset; base+N, N-base, 0, 1, N-1, N;
// length changes (prepend/append 00, drop first/last octet, empty).
func mutate(base []byte, N *big.Int, bitGran, byteGran bool) []mutation {
	k := len(base)
	var out []mutation
	add := func(kind, name string, b []byte) { out = append(out, mutation{kind, name, b}) }
	add("identity", "identity", append([]byte{}, base...))
	if bitGran {
		for i := 0; i < 8*k; i++ {
			b := append([]byte{}, base...)
			b[i/8] ^= 0x80 >> uint(i%8)
			add("bitflip", fmt.Sprintf("bit %d", i), b)
		}
	}
	if byteGran {
		for i := 0; i < k; i++ {
			for _, v := range []byte{0x00, 0xff, ^base[i]} {
				if v == base[i] {
					continue
				}
				b := append([]byte{}, base...)
				b[i] = v
				add("byte", fmt.Sprintf("byte %d=%02x", i, v), b)
			}
		}
	}
	enc := func(v *big.Int) []byte {
		if b := i2osp(v, k); b != nil {
			return b
		}
		return v.Bytes()
	}
	s := os2ip(base)
	add("arith", "+N", enc(new(big.Int).Add(s, N)))
	if s.Cmp(N) < 0 && s.Sign() > 0 {
		add("arith", "N-x", enc(new(big.Int).Sub(N, s)))
	}
	add("arith", "=0", enc(big.NewInt(0)))
	add("arith", "=1", enc(big.NewInt(1)))
	add("arith", "=N-1", enc(new(big.Int).Sub(N, big.NewInt(1))))
	add("arith", "=N", enc(N))
	add("length", "prepend 00", append([]byte{0}, base...))
	add("length", "append 00", append(append([]byte{}, base...), 0))
	if k > 0 {
		add("length", "drop first", append([]byte{}, base[1:]...))
		add("length", "drop last", append([]byte{}, base[:k-1]...))
	}
	add("length", "empty", []byte{})
	return out
}

// ---------------------------------------------------------------- phase 1: raw operations

func pow2(i int) *big.Int { return new(big.Int).Lsh(big.NewInt(1), uint(i)) }

type rawIn struct {
	name string
	v    *big.Int
}

func (x *uctx) rawInputs(family string) []rawIn {
	ki := x.ki
	var out []rawIn
	add := func(n string, v *big.Int) {
		if v.Sign() >= 0 {
			out = append(out, rawIn{n, v})
		}
	}
	one := big.NewInt(1)
	switch family {
	case "edge":
		for _, s := range []int64{0, 1, 2, 3} {
			add(fmt.Sprint(s), big.NewInt(s))
			add(fmt.Sprintf("N-%d", s+1), new(big.Int).Sub(ki.N, big.NewInt(s+1)))
		}
		h := new(big.Int).Rsh(ki.N, 1)
		add("(N-1)/2", h)
		add("(N+1)/2", new(big.Int).Add(h, one))
		for i, p := range ki.primes {
			co := new(big.Int).Div(ki.N, p)
			add(fmt.Sprintf("p%d", i), p)
			add(fmt.Sprintf("p%d-1", i), new(big.Int).Sub(p, one))
			add(fmt.Sprintf("p%d+1", i), new(big.Int).Add(p, one))
			add(fmt.Sprintf("2*p%d", i), new(big.Int).Lsh(p, 1))
			add(fmt.Sprintf("3*p%d", i), new(big.Int).Mul(p, big.NewInt(3)))
			add(fmt.Sprintf("N/p%d", i), co)
			add(fmt.Sprintf("N-p%d", i), new(big.Int).Sub(ki.N, p))
		}
		// 64 fixed SHA-256-derived vectors reduced mod N
		for i := 0; i < 64; i++ {
			v := os2ip(det(fmt.Sprintf("rawvec-%s-%d", ki.name, i), ki.k))
			add(fmt.Sprintf("vec%d", i), v.Mod(v, ki.N))
		}
		// out of range
		add("N", cp(ki.N))
		add("N+1", new(big.Int).Add(ki.N, one))
		add("N+2^7", new(big.Int).Add(ki.N, big.NewInt(128)))
		add("2^(8k)-1", new(big.Int).Sub(pow2(8*ki.k), one))
		add("2N", new(big.Int).Lsh(ki.N, 1))
	case "pow2":
		step := 1
		if !x.thorough && ki.bits > 1025 {
			step = 8 // quick tier, large keys: every 8th bit position and the top one
		}
		for i := 0; i < ki.bits; i++ {
			if i%step == 0 || i == ki.bits-1 {
				add(fmt.Sprintf("2^%d", i), pow2(i))
			}
		}
	case "pow2m1":
		for i := 2; i <= ki.bits; i++ {
			add(fmt.Sprintf("2^%d-1", i), new(big.Int).Sub(pow2(i), one))
		}
	case "nminus":
		for i := 0; i < ki.bits-1; i++ {
			add(fmt.Sprintf("N-2^%d", i), new(big.Int).Sub(ki.N, pow2(i)))
		}
	}
	return out
}

func (x *uctx) runRaw(form, family string) {
	ki := x.ki
	z := ki.zc(form)
	doPub := form == "plain"
	for idx, in := range x.rawInputs(family) {
		if idx&63 == 0 && x.c.TimeUp() {
			x.c.Incomplete("raw operation inputs of " + x.u.id + " not finished")
			return
		}
		cb := i2osp(in.v, ki.k)
		if cb == nil {
			cb = in.v.Bytes()
		}
		inRange := in.v.Cmp(ki.N) < 0
		checks := []bool{false}
		if family == "edge" || idx%16 == 0 {
			checks = append(checks, true)
		}
		for _, chk := range checks {
			x.st++
			x.tr++
			out, err := z.RawPriv(cb, chk)
			w := witness{Form: form, Op: fmt.Sprintf("decrypt(check=%v)", chk), Case: in.name, Input: hx(cb)}
			if x.isPanic(w.Op, err, w) {
				continue
			}
			if !inRange {
				if err == nil {
					w.Detail = "c >= N accepted, returned " + hx(out)
					rawBad.Store(ki.name+"/"+form+"/range", true)
					x.viol(rawRangeSig, w)
				}
				x.h["raw-priv:out-of-range:"+verdict(err)]++
				continue
			}
			x.evl++
			x.trc++
			ok := err == nil && len(out) == ki.k
			if ok {
				m := os2ip(out)
				ok = m.Cmp(ki.N) < 0 && modexp(m, ki.E, ki.N).Cmp(in.v) == 0
			}
			if !ok {
				rawBad.Store(ki.name+"/"+form, true)
				w.Detail = fmt.Sprintf("err=%v out=%s", err, hx(out))
				x.viol(rawPrivSig(form), w)
				x.h["raw-priv:WRONG"]++
				continue
			}
			x.dist++
			x.h["raw-priv:correct"]++
			if idx == 5 && x.c.WantSample() {
				x.c.Sample(map[string]any{"unit": x.u.id, "c": in.name, "m": hx(out), "oracle": "m^E mod N == c by square-and-multiply"})
			}
		}
		if inRange && family == "edge" {
			// octet string one longer than k with the same value: the statement is silent; a result must still be right.
			x.tr++
			out, err := z.RawPriv(append([]byte{0}, cb...), false)
			w := witness{Form: form, Op: "decrypt(00||c)", Case: in.name, Input: hx(cb)}
			if !x.isPanic(w.Op, err, w) {
				if err == nil && modexp(os2ip(out), ki.E, ki.N).Cmp(in.v) != 0 {
					rawBad.Store(ki.name+"/"+form, true)
					w.Detail = "out=" + hx(out)
					x.viol(rawPrivSig(form), w)
				}
				x.h["raw-priv:k+1 octets:"+verdict(err)]++
			}
		}
		if doPub {
			x.st++
			x.tr++
			out, err := z.RawPub(cb)
			w := witness{Op: "encrypt", Case: in.name, Input: hx(cb)}
			if x.isPanic(w.Op, err, w) {
				continue
			}
			if !inRange {
				if err == nil {
					w.Detail = "m >= N accepted"
					x.viol("raw public operation accepts a message representative >= N", w)
				}
				x.h["raw-pub:out-of-range:"+verdict(err)]++
				continue
			}
			x.evl++
			x.trc++
			if err != nil || !bytes.Equal(out, i2osp(modexp(in.v, ki.E, ki.N), ki.k)) {
				rawBad.Store(ki.name+"/pub", true)
				w.Detail = fmt.Sprintf("err=%v out=%s", err, hx(out))
				x.viol(rawPubSig, w)
				x.h["raw-pub:WRONG"]++
				continue
			}
			x.dist++
			x.h["raw-pub:correct"]++
		}
	}
}

// ---------------------------------------------------------------- main

func quickKeys() []string {
	var out []string
	multi := false
	for _, n := range fx.RSANames() {
		z := fx.ZRSA(n)
		if z.N.BitLen() > 2048 {
			continue
		}
		if len(z.Primes) > 2 {
			if multi {
				continue
			}
			multi = true
		}
		out = append(out, n)
	}
	return out
}

// quickLite: fixtures that the quick tier runs with the reduced ("lite") unit set: the 5-prime
// 2048-bit key (the 4- and 5-prime keys get the full unit set in thorough; quick also has a
// 3-prime fixture and a 3-prime generated key with the full set).
var quickLite = []string{"rsa2048p5"}

type genSpec struct {
	name          string
	nprimes, bits int
}

// startGodebug is GODEBUG as the runtime saw it at process start (fips140 is fixed then).
var startGodebug = os.Getenv("GODEBUG")

func main() {
	if nohb.IsWorker() {
		nohb.WorkerMain(reentrantOps(), reentrantRepoDir())
		return
	}
	os.Setenv("GODEBUG", "rsa1024min=0") // crypto/rsa: allow the 512-bit fixture (also set by the //go:debug line)
	if pf := os.Getenv("VERIF_C23_PPROF"); pf != "" { // tuning aid only
		if f, err := os.Create(pf); err == nil {
			pprof.StartCPUProfile(f)
		}
	}
	ev.Main("C23", "model_checking", func(c *ev.Ctx) {
		c.Rule("differential enumeration per key × form{plain,precomputed,swapped} × operation × parameter alphabet; " +
			"keys: fixtures 512..2048 bits (thorough: ..4096), 1025 bits, 3 primes, exponents 3, 2^31-1, 2^32+15, 256 bits; a 5-prime 2048-bit fixture (lite unit set; 4- and 5-prime keys full in thorough); harness-built deterministic keys of 1023 and 1030 bits (lite) and 1018..1021 bits (PSS units only: 2..7 masked top bits of EM between them), exponents just above 2^31 (lite; just below 2^32 in thorough) and longer than the modulus (2^1029+.., micro: no bit/byte mutation menu in quick), and at the machine-word boundaries 2^63, 2^64-13, 2^64+1 (micro); keys from zcrypto's own generator (2 and 3 primes; 4 and 5 in thorough); " +
			"signatures/ciphertexts: identity + every single-bit flip (keys <= 2048 bits; all keys in thorough) or byte substitutions {00,ff,^b} at every offset + {x+N, N-x, 0, 1, N-1, N} + length {prepend/append 00, drop first/last, empty}; " +
			"PKCS#1 v1.5 signatures under every crypto.Hash 0..19 (no waiver: what the oracle signs zcrypto must sign and verify); OAEP with SHA-1/SHA-256 × labels {none, x} and SHA-256/384/512 × a 32-octet label; PSS salt modes, wrong-length digests, textbook salts; " +
			"encoded-message deviations (one field off the valid EM) for PKCS#1 v1.5 enc/sig, OAEP, PSS (incl. 01||EM for 8k+1-bit moduli, first of 256 salts with EM < N); raw private/public operation on {0..3, N-1..N-4, (N±1)/2, primes and their multiples, every 2^i, every 2^i-1, 64 fixed vectors, out-of-range values}; " +
			"legacy random argument {nil, live, failing reader} on every API documenting it as ignored; failing readers (after 0, 1, need-1 bytes) on every API that consumes randomness, judged against crypto/rsa on the same reader; " +
			"call histories on ONE caller-owned hash.Hash (1024-bit fixture, SHA-1/SHA-256; SHA-384 too in thorough): every sequence of 2 (thorough: 3) calls from {EncryptOAEP admissible / one octet too long / failing reader / key without modulus, DecryptOAEP genuine / bit-flipped / representative N / k+1 octets} × labels {none, x, 32 octets}, crypto/rsa running the same sequence on one hash object of its own: error class, cross-decryption, plaintext, and the hash object left reset after every call exactly where crypto/rsa leaves it reset (a hash handed over with data already absorbed: recorded only); " +
			"malformed public keys N∈{nil,0,1,-N} × E∈{nil,0,1,-1,-65537,2,65536} × public operations × signature shapes AND × private-key operations (Sign*, Decrypt*, PrivateKey.Sign/Decrypt, Validate; CRT values present and absent) × ciphertext shapes; Size/Equal/Public (no error result) recorded next to crypto/rsa. " +
			"distinct non-trivial = cases in which zcrypto produced/accepted a value that the oracle then validated")
		c.Assume("crypto/rsa (Go standard library of the toolchain) is the primary oracle whenever 2 <= E <= 2^31-1; GODEBUG rsa1024min=0 so that it accepts the 512-bit fixture; a start-up probe turns an unusable oracle (GODEBUG fips140=only, ...) into CHECK-BROKEN, never into a verdict",
			"textbook reference (RFC 8017 encodings, square-and-multiply over math/big Mul/Mod, every private result proven by m^E = c) is the oracle for larger exponents and a second opinion elsewhere; the two oracles are required to agree (else CHECK-BROKEN)",
			"validity of generated and harness-built keys is judged by the definition (product of distinct probable primes, E*D = 1 mod every p-1) with harness arithmetic; a key that crypto/rsa refuses to load (e.g. a future release without multi-prime keys) is compared with the textbook reference only and the run is marked incomplete",
			"the statement's malformed values are zero, negative or missing N/E: for those an error is demanded from every operation that can return one, public-key and private-key alike; for N=1, E=1 and even E only 'no panic' is demanded (statement silent); methods without an error result (Size, Equal) are recorded only",
			"ciphertexts whose octet length differs from k: statement silent, zcrypto may accept or reject, an accepted plaintext must be the correct one",
			"a hash function that the oracle signs PKCS#1 v1.5 with must work in zcrypto too (sign and verify); hash functions the oracle refuses must be refused")

		// false-alarm guard: an oracle that refuses what it is asked for (GODEBUG=fips140=only, a
		// toolchain without the 512-bit escape hatch) makes the check unusable, it says nothing about zcrypto
		if err := oracleUsable(startGodebug); err != nil {
			c.Broken("the crypto/rsa oracle is not usable in this environment: %v", err)
		}

		keys := map[string]*keyInfo{}
		var names []string
		var rw witness
		if c.Replay != nil {
			if err := json.Unmarshal(c.Replay, &rw); err != nil {
				c.Broken("bad witness: %v", err)
			}
		}
		// (witnesses of the key-generation / Validate pre-checks are replayed by the full run below)
		if c.Replay != nil && !strings.HasPrefix(rw.Unit, "gen/") && !strings.HasPrefix(rw.Unit, "validate/") {
			w := rw
			u := parseUnit(w.Unit)
			if u.sect == "malformed" {
				x := newUctx(c, u, nil)
				x.runMalformed()
				x.flush()
				return
			}
			var ki *keyInfo
			if w.Gen != nil {
				ki = keyFromGen(u.key, w.Gen)
			} else {
				ki = newKeyInfo(u.key, fx.ZRSA(u.key), false)
			}
			for _, ru := range rawUnits(ki, !c.Quick()) {
				x := newUctx(c, ru, ki)
				x.runUnit()
				x.flush()
			}
			if u.sect != "raw" {
				x := newUctx(c, u, ki)
				x.runUnit()
				x.flush()
			}
			return
		}

		fixt := ev.Pick(c, quickKeys(), fx.RSANames())
		for _, n := range fixt {
			keys[n] = newKeyInfo(n, fx.ZRSA(n), false)
			names = append(names, n)
		}
		if c.Quick() {
			for _, n := range quickLite {
				keys[n] = newKeyInfo(n, fx.ZRSA(n), false)
				keys[n].lite = true
				names = append(names, n)
			}
		}
		// deterministic keys built by the harness (own prime search over fx.NewRand):
		// moduli of 1023 and 1030 bits with the full unit set (PSS masks 2 resp. 3 top bits of EM,
		// k*8-1 and k*8+6 bits), 1018..1021 bits lite (7, 6, 5, 4 masked bits), a 1025-bit modulus
		// is a fixture; exponents just beyond crypto/rsa's limit (first usable odd E >= 2^31+1,
		// and >= 2^32-13) and an exponent LONGER than the modulus (>= 2^1029), on the primes of rsa1024.
		add := func(ki *keyInfo, profile string) {
			if err := validByDefinition(ki); err != nil {
				c.Broken("harness-built key %s is not a valid RSA key: %v", ki.name, err)
			}
			if c.Quick() {
				switch profile {
				case "lite":
					ki.lite = true
				case "micro":
					ki.lite, ki.micro = true, true
				case "pss":
					ki.lite, ki.pssOnly = true, true
				case "thorough-only":
					return
				}
			}
			keys[ki.name] = ki
			names = append(names, ki.name)
		}
		add(detKey("det1023", 1023), "lite")
		add(detKey("det1030", 1030), "lite")
		for _, b := range []int{1018, 1019, 1020, 1021} {
			add(detKey(fmt.Sprintf("det%d", b), b), "pss")
		}
		add(expKey("rsa1024e32lo", "rsa1024", new(big.Int).Lsh(big.NewInt(1), 31)), "lite")
		add(expKey("rsa1024e32hi", "rsa1024", new(big.Int).Sub(new(big.Int).Lsh(big.NewInt(1), 32), big.NewInt(13))), "thorough-only")
		add(expKey("rsa1024e1030", "rsa1024", new(big.Int).Lsh(big.NewInt(1), 1029)), "micro")
		// machine-word boundaries of the exponent: first usable odd E >= 2^63 (bit 63 set: negative as int64), >= 2^64-13
		// (all-ones low word) and >= 2^64+1 (low word 1)
		add(expKey("rsa1024e64lo", "rsa1024", new(big.Int).Lsh(big.NewInt(1), 63)), "micro")
		add(expKey("rsa1024e64hi", "rsa1024", new(big.Int).Sub(new(big.Int).Lsh(big.NewInt(1), 64), big.NewInt(13))), "micro")
		add(expKey("rsa1024e65", "rsa1024", new(big.Int).Add(new(big.Int).Lsh(big.NewInt(1), 64), big.NewInt(1))), "micro")

		// keys produced by zcrypto's own generator (deterministic byte stream; the generator
		// itself may consume one extra byte at its own discretion, the key is recorded in every witness)
		gens := ev.Pick(c, []genSpec{{"gen512", 2, 512}, {"gen1024p3", 3, 1024}},
			[]genSpec{{"gen512", 2, 512}, {"gen1024", 2, 1024}, {"gen1024p3", 3, 1024}, {"gen2048", 2, 2048}, {"gen2048p4", 4, 2048}, {"gen2048p5", 5, 2048}})
		for _, g := range gens {
			var k *zrsa.PrivateKey
			var err error
			if pan, msg, site := ev.Try(func() { k, err = zrsa.GenerateMultiPrimeKey(fx.NewRand("c23-"+g.name), g.nprimes, g.bits) }); pan {
				c.Violation("panic@"+site+": "+ev.MsgClass(msg)+" (GenerateMultiPrimeKey)", witness{Unit: "gen/" + g.name, Detail: msg})
				continue
			}
			if err != nil {
				c.Violation("GenerateMultiPrimeKey failed", witness{Unit: "gen/" + g.name, Detail: err.Error()})
				continue
			}
			c.Transitions.Add(1)
			ki := newKeyInfo(g.name, k, true)
			if verr := k.Validate(); verr != nil || k.N.BitLen() != g.bits || len(k.Primes) != g.nprimes || k.Precomputed.Dp == nil {
				c.Violation("GenerateMultiPrimeKey returned a key that is invalid or not of the requested shape",
					witness{Unit: "gen/" + g.name, Detail: fmt.Sprintf("Validate=%v bits=%d primes=%d precomputed=%v", verr, k.N.BitLen(), len(k.Primes), k.Precomputed.Dp != nil), Gen: ki.export()})
			}
			// validity is judged by the definition (harness arithmetic), not by what a given
			// version of crypto/rsa is willing to load: multi-prime keys are deprecated there
			if derr := validByDefinition(ki); derr != nil {
				c.Violation("GenerateMultiPrimeKey returned a key that is not a valid RSA key (RFC 8017 section 3)", witness{Unit: "gen/" + g.name, Detail: derr.Error(), Gen: ki.export()})
				continue
			}
			c.Outcome("generated-key:valid-by-definition", 1)
			keys[g.name] = ki
			names = append(names, g.name)
		}
		c.Set("keys", names)

		// sanity of fixtures in all forms: Validate in zcrypto and crypto/rsa
		for _, n := range names {
			ki := keys[n]
			for _, f := range formNames {
				var verr error
				z := ki.zc(f)
				if pan, msg, site := ev.Try(func() { verr = z.priv.Validate() }); pan || verr != nil {
					c.Violation("Validate rejects a valid key [form="+f+"]", witness{Unit: "validate/" + n, Form: f, Detail: fmt.Sprint(verr, msg, site)})
				}
				c.Transitions.Add(1)
			}
			if s := ki.std(); s != nil {
				if err := s.k.Validate(); err != nil {
					if len(ki.primes) > 2 || ki.gen {
						// out of the oracle's domain (e.g. a Go release that drops multi-prime keys):
						// the textbook reference alone judges this key; the run is not complete.
						ki.stdOK = false
						c.Outcome("oracle:crypto/rsa refuses key "+n+" (textbook reference only)", 1)
						c.Incomplete(fmt.Sprintf("crypto/rsa refuses key %s (%v): compared with the textbook reference only", n, err))
						continue
					}
					c.Broken("crypto/rsa refuses fixture %s: %v", n, err)
				}
				c.Outcome("oracle:crypto/rsa loads the key", 1)
			} else {
				c.Outcome("oracle:exponent beyond crypto/rsa (textbook reference only)", 1)
			}
		}

		var unitsDone atomic.Int64
		runAll := func(us []unit) bool {
			sort.SliceStable(us, func(i, j int) bool { return us[i].cost > us[j].cost })
			before := unitsDone.Load()
			ok := c.Parallel(len(us), func(w, i int) {
				t0 := time.Now()
				x := newUctx(c, us[i], keys[us[i].key])
				x.runUnit()
				x.flush()
				unitsDone.Add(1)
				noteTime(us[i].id, time.Since(t0))
			})
			// no unit may be dropped silently (loaded machine, few cores): planned == executed, or the run says so
			if n := unitsDone.Load() - before; n != int64(len(us)) {
				c.Incomplete(fmt.Sprintf("%d of %d units were not executed (budget)", int64(len(us))-n, len(us)))
				return false
			}
			return ok
		}

		// phase 1: raw operations (decides attribution of later failures)
		var p1 []unit
		for _, n := range names {
			p1 = append(p1, rawUnits(keys[n], !c.Quick())...)
		}
		if os.Getenv("VERIF_C23_ONLY") != "" {
			p1 = nil
		}
		if !runAll(p1) {
			c.Incomplete("budget hit in phase 1 (raw operations)")
		}
		// phase 2: API level
		var p2 []unit
		for _, n := range names {
			p2 = append(p2, apiUnits(keys[n], !c.Quick())...)
			p2 = append(p2, histUnits(keys[n], !c.Quick())...)
		}
		p2 = append(p2, unit{id: "malformed", sect: "malformed", cost: 1 << 30})
		if only := os.Getenv("VERIF_C23_ONLY"); only != "" { // development aid: one section only, never a complete run
			var f []unit
			for _, u := range p2 {
				if u.sect == only {
					f = append(f, u)
				}
			}
			p2 = f
			c.Incomplete("VERIF_C23_ONLY=" + only + ": only that section was executed")
		}
		c.Set("units", len(p1)+len(p2))
		defer func() { c.Set("units_executed", unitsDone.Load()) }()
		if !runAll(p2) {
			c.Incomplete("budget hit in phase 2 (API level units)")
		}
		pprof.StopCPUProfile()
		c.Set("slowest_units", slowest(8))
		bySect := map[string]float64{}
		byKey := map[string]float64{}
		timeMu.Lock()
		for id, t := range times {
			bySect[parseUnit(id).sect] += t
			byKey[parseUnit(id).key] += t
		}
		timeMu.Unlock()
		if os.Getenv("VERIF_C23_ONLY") == "" {
			reentrantPhase(c)
		}
		c.Set("unit_seconds_by_section", bySect)
		c.Set("unit_seconds_by_key", byKey)
	})
}

var (
	timeMu sync.Mutex
	times  = map[string]float64{}
)

// noteTime keeps per-unit wall times for the evidence file (tuning information only, never a verdict).
func noteTime(id string, d time.Duration) {
	timeMu.Lock()
	times[id] = d.Seconds()
	timeMu.Unlock()
}

func slowest(n int) []string {
	timeMu.Lock()
	defer timeMu.Unlock()
	var ids []string
	for id := range times {
		ids = append(ids, id)
	}
	sort.Slice(ids, func(i, j int) bool { return times[ids[i]] > times[ids[j]] })
	if len(ids) > n {
		ids = ids[:n]
	}
	for i, id := range ids {
		ids[i] = fmt.Sprintf("%s %.1fs", id, times[id])
	}
	return ids
}

func parseUnit(id string) unit {
	parts := strings.SplitN(id, "/", 3)
	u := unit{id: id, sect: parts[0]}
	if len(parts) > 1 {
		u.key = parts[1]
	}
	if len(parts) > 2 {
		u.arg = parts[2]
	}
	return u
}

func mk(sect string, ki *keyInfo, arg string, weight int) unit {
	id := sect + "/" + ki.name
	if arg != "" {
		id += "/" + arg
	}
	b := ki.bits / 256
	return unit{id: id, sect: sect, key: ki.name, arg: arg, cost: weight * b * b * b}
}

func rawUnits(ki *keyInfo, thorough bool) []unit {
	var us []unit
	for _, f := range formNames {
		fams := []string{"edge", "pow2"}
		if ki.lite && !thorough {
			fams = []string{"edge"}
		}
		if ki.pssOnly && !thorough && f != "precomputed" {
			continue
		}
		if thorough || (!ki.lite && ki.bits <= 1025 && f == "precomputed") {
			fams = append(fams, "pow2m1") // quick tier: only on the CRT form of keys up to 1025 bits
		}
		if thorough {
			fams = append(fams, "nminus")
		}
		for _, fam := range fams {
			w := 8
			if fam == "edge" {
				w = 2
			}
			us = append(us, mk("raw", ki, f+"/"+fam, w))
		}
	}
	return us
}

// hashes enumerated: every crypto.Hash value the toolchain knows (1..19) plus 0.
func allHashes() []crypto.Hash {
	var hs []crypto.Hash
	for h := crypto.Hash(0); h <= crypto.BLAKE2b_512; h++ {
		hs = append(hs, h)
	}
	return hs
}

const ctChunks = 4

// liteHashes: the hashes of the lite unit set.
var liteP1Hashes = []crypto.Hash{0, crypto.SHA256}
var litePSSHashes = []crypto.Hash{crypto.SHA1, crypto.SHA256, crypto.SHA512}

func apiUnits(ki *keyInfo, thorough bool) []unit {
	if ki.pssOnly && !thorough {
		return []unit{mk("pss", ki, fmt.Sprint(int(crypto.SHA256)), 5), mk("pss", ki, fmt.Sprint(int(crypto.SHA1)), 5)}
	}
	us := []unit{mk("p1enc", ki, "", 2), mk("oaep", ki, "", 3)}
	if ki.stdOK {
		us = append(us, mk("rdr", ki, "", 1))
	}
	if ki.lite && !thorough {
		// lite: no ciphertext-mutation units, three hashes; everything else as for any key
		p1h, pssh := liteP1Hashes, litePSSHashes
		if len(ki.primes) > 3 { // 2048-bit multi-prime key (private operation without CRT): one hash each
			p1h, pssh = []crypto.Hash{crypto.SHA256}, []crypto.Hash{crypto.SHA256}
		}
		for _, h := range p1h {
			us = append(us, mk("p1sig", ki, fmt.Sprint(int(h)), 2))
		}
		for _, h := range pssh {
			us = append(us, mk("pss", ki, fmt.Sprint(int(h)), 5))
		}
		return us
	}
	for _, scheme := range []string{"p1", "oaep"} {
		for ch := 0; ch < ctChunks; ch++ {
			us = append(us, mk("ctmut", ki, fmt.Sprintf("%s/%d", scheme, ch), 6))
		}
	}
	for _, h := range allHashes() {
		us = append(us, mk("p1sig", ki, fmt.Sprint(int(h)), 2))
		if h != 0 && h.Available() {
			us = append(us, mk("pss", ki, fmt.Sprint(int(h)), 5))
		}
	}
	return us
}

func (x *uctx) runUnit() {
	switch x.u.sect {
	case "raw":
		p := strings.SplitN(x.u.arg, "/", 2)
		x.runRaw(p[0], p[1])
	case "p1enc":
		x.runP1Enc()
	case "oaep":
		x.runOAEP()
	case "ctmut":
		p := strings.SplitN(x.u.arg, "/", 2)
		var ch int
		fmt.Sscan(p[1], &ch)
		x.runCtMut(p[0], ch)
	case "p1sig":
		var h int
		fmt.Sscan(x.u.arg, &h)
		x.runP1Sig(crypto.Hash(h))
	case "pss":
		var h int
		fmt.Sscan(x.u.arg, &h)
		x.runPSS(crypto.Hash(h))
	case "rdr":
		x.runReaders()
	case "hist":
		x.runHist()
	case "malformed":
		x.runMalformed()
	default:
		x.c.Broken("unknown unit %q", x.u.id)
	}
}
