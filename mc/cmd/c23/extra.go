package main

// Strengthening of C23 (audit B, section C23): deterministic extra keys (odd
// modulus sizes, exponents just beyond crypto/rsa's limit and longer than the
// modulus), the "lite" unit profile for expensive keys, the oracle-usability
// probe, and the sections on failing readers / the legacy random argument.

import (
	"bytes"
	"crypto"
	stdrsa "crypto/rsa"
	"errors"
	"fmt"
	"io"
	"math/big"
	"strings"

	zrsa "github.com/zmap/zcrypto/rsa"
	"verifmc/internal/ev"
	"verifmc/internal/fx"
)

// ---------------------------------------------------------------- deterministic keys

// detPrime: the first probable prime at or above a bits-bit odd candidate drawn
// from rnd with its two top bits set (so that a product of two such primes of
// b1 and b2 bits has exactly b1+b2 bits). Fully deterministic in rnd, unlike
// crypto/rand.Prime (which may consume an extra byte at its own discretion).
func detPrime(rnd io.Reader, bits int) *big.Int {
	buf := make([]byte, (bits+7)/8)
	for {
		if _, err := io.ReadFull(rnd, buf); err != nil {
			panic(err)
		}
		p := new(big.Int).SetBytes(buf)
		p.Rsh(p, uint(8*len(buf)-bits))
		p.SetBit(p, bits-1, 1)
		p.SetBit(p, bits-2, 1)
		p.SetBit(p, 0, 1)
		for i := 0; i < 4096; i++ {
			if p.BitLen() != bits {
				break
			}
			if p.ProbablyPrime(32) {
				return p
			}
			p.Add(p, big.NewInt(2))
		}
	}
}

// detKey builds a two-prime key whose modulus has exactly `bits` bits.
func detKey(name string, bits int) *keyInfo {
	rnd := fx.NewRand("c23-detkey-" + name)
	e := big.NewInt(65537)
	one := big.NewInt(1)
	for {
		p := detPrime(rnd, (bits+1)/2)
		q := detPrime(rnd, bits-(bits+1)/2)
		if p.Cmp(q) == 0 {
			continue
		}
		n := new(big.Int).Mul(p, q)
		if n.BitLen() != bits {
			continue
		}
		tot := new(big.Int).Mul(new(big.Int).Sub(p, one), new(big.Int).Sub(q, one))
		d := new(big.Int).ModInverse(e, tot)
		if d == nil {
			continue
		}
		z := &zrsa.PrivateKey{PublicKey: zrsa.PublicKey{N: n, E: e}, D: d, Primes: []*big.Int{p, q}}
		return newKeyInfo(name, z, true)
	}
}

// expKey: the primes of a fixture with another public exponent: the first odd
// E >= from that is invertible modulo (p-1)(q-1).
func expKey(name, fixture string, from *big.Int) *keyInfo {
	b := fx.ZRSA(fixture)
	one := big.NewInt(1)
	tot := big.NewInt(1)
	for _, p := range b.Primes {
		tot.Mul(tot, new(big.Int).Sub(p, one))
	}
	e := new(big.Int).Set(from)
	e.SetBit(e, 0, 1)
	for {
		if d := new(big.Int).ModInverse(e, tot); d != nil {
			z := &zrsa.PrivateKey{PublicKey: zrsa.PublicKey{N: b.N, E: e}, D: d, Primes: b.Primes}
			return newKeyInfo(name, z, true)
		}
		e.Add(e, big.NewInt(2))
	}
}

// validByDefinition checks a key against RFC 8017 §3 with the harness' own
// arithmetic (no RSA library): N is the product of >= 2 distinct probable
// primes, and E*D = 1 modulo every (p-1).
func validByDefinition(ki *keyInfo) error {
	if len(ki.primes) < 2 {
		return errors.New("fewer than two primes")
	}
	n := big.NewInt(1)
	one := big.NewInt(1)
	de := new(big.Int).Mul(ki.D, ki.E)
	for i, p := range ki.primes {
		if !p.ProbablyPrime(20) {
			return fmt.Errorf("prime %d is composite", i)
		}
		for j := 0; j < i; j++ {
			if ki.primes[j].Cmp(p) == 0 {
				return errors.New("repeated prime")
			}
		}
		n.Mul(n, p)
		if new(big.Int).Mod(de, new(big.Int).Sub(p, one)).Cmp(one) != 0 {
			return fmt.Errorf("E*D != 1 mod (p%d-1)", i)
		}
	}
	if n.Cmp(ki.N) != 0 {
		return errors.New("N is not the product of the primes")
	}
	return nil
}

// oracleUsable: crypto/rsa must be able to do, on a known-good fixture, what the
// check asks of it. GODEBUG=fips140=only (read by the runtime at process start,
// before main can change it) makes it refuse SHA-1, PKCS#1 v1.5 encryption,
// small keys ...: every difference would then be the oracle's, not zcrypto's.
func oracleUsable(startGodebug string) error {
	if strings.Contains(startGodebug, "fips140=only") {
		return errors.New("GODEBUG contains fips140=only")
	}
	k := fx.StdRSA("rsa1024")
	d := make([]byte, 20)
	sig, err := stdrsa.SignPKCS1v15(nil, k, crypto.SHA1, d)
	if err != nil {
		return fmt.Errorf("crypto/rsa cannot sign with SHA-1 and a 1024-bit key: %v", err)
	}
	if err := stdrsa.VerifyPKCS1v15(&k.PublicKey, crypto.SHA1, d, sig); err != nil {
		return fmt.Errorf("crypto/rsa cannot verify its own signature: %v", err)
	}
	if _, err := stdrsa.EncryptPKCS1v15(fx.NewRand("probe"), &k.PublicKey, []byte("x")); err != nil {
		return fmt.Errorf("crypto/rsa cannot PKCS#1 v1.5-encrypt: %v", err)
	}
	k5 := fx.StdRSA("rsa512")
	if _, err := stdrsa.SignPKCS1v15(nil, k5, crypto.SHA1, d); err != nil {
		return fmt.Errorf("crypto/rsa refuses the 512-bit fixture (GODEBUG rsa1024min=0 not effective): %v", err)
	}
	return nil
}

// ---------------------------------------------------------------- readers

// failAfter delivers n bytes of a deterministic stream and then fails.
type failAfter struct {
	r io.Reader
	n int
}

var errReader = errors.New("c23: injected reader failure")

func (f *failAfter) Read(p []byte) (int, error) {
	if f.n <= 0 {
		return 0, errReader
	}
	if len(p) > f.n {
		p = p[:f.n]
	}
	n, _ := f.r.Read(p)
	f.n -= n
	return n, nil
}

// runReaders: (1) every API that documents its random argument as "legacy and
// ignored" gives the same result with nil, a live reader and a reader that
// always fails; (2) every API that consumes randomness returns an error (no
// panic, no output) when the reader fails before enough bytes were delivered —
// crypto/rsa is run on the same reader and must refuse too (else not judged).
func (x *uctx) runReaders() {
	ki, k := x.ki, x.ki.k
	z := ki.zc("precomputed")
	msg := det("rdr-msg-"+ki.name, 16)
	digest := det("rdr-digest", 32)
	ct, err := x.ref.EncP1(fx.NewRand("rdr-ct-"+ki.name), msg)
	if err != nil {
		x.c.Broken("reference cannot encrypt: %v", err)
	}
	readers := []struct {
		name string
		mk   func() io.Reader
	}{
		{"live reader", func() io.Reader { return fx.NewRand("legacy") }},
		{"failing reader", func() io.Reader { return &failAfter{fx.NewRand("legacy"), 0} }},
	}
	type legacyOp struct {
		name string
		run  func(r io.Reader) ([]byte, error)
	}
	ops := []legacyOp{
		{"DecryptPKCS1v15", func(r io.Reader) ([]byte, error) {
			return guardB(func() ([]byte, error) { return zrsa.DecryptPKCS1v15(r, z.priv, ct) })
		}},
		{"DecryptPKCS1v15SessionKey", func(r io.Reader) ([]byte, error) {
			key := bytes.Repeat([]byte{0xA5}, 16)
			e := guardE(func() error { return zrsa.DecryptPKCS1v15SessionKey(r, z.priv, ct, key) })
			return key, e
		}},
		{"SignPKCS1v15", func(r io.Reader) ([]byte, error) {
			return guardB(func() ([]byte, error) { return zrsa.SignPKCS1v15(r, z.priv, crypto.SHA256, digest) })
		}},
		{"PrivateKey.Sign(PKCS#1 v1.5)", func(r io.Reader) ([]byte, error) { return z.Sign(r, digest, crypto.SHA256) }},
		{"PrivateKey.Decrypt(nil opts)", func(r io.Reader) ([]byte, error) { return z.Decrypt(r, ct, nil) }},
	}
	if k >= 2*20+2 {
		oct, err := x.ref.EncOAEP(crypto.SHA1, fx.NewRand("rdr-oaep-"+ki.name), msg, nil)
		if err != nil {
			x.c.Broken("reference cannot OAEP-encrypt: %v", err)
		}
		ops = append(ops,
			legacyOp{"DecryptOAEP", func(r io.Reader) ([]byte, error) {
				return guardB(func() ([]byte, error) { return zrsa.DecryptOAEP(crypto.SHA1.New(), r, z.priv, oct, nil) })
			}},
			legacyOp{"PrivateKey.Decrypt(OAEPOptions)", func(r io.Reader) ([]byte, error) {
				return z.Decrypt(r, oct, &zrsa.OAEPOptions{Hash: crypto.SHA1})
			}})
	}
	for _, op := range ops {
		x.st++
		x.tr++
		base, berr := op.run(nil)
		w := witness{Op: op.name, Case: "random=nil"}
		if x.isPanic(op.name, berr, w) {
			continue
		}
		if berr != nil {
			w.Detail = "err=" + errStr(berr)
			x.failPriv(z.form, "legacy random argument: "+op.name+" fails on a genuine input with random=nil", w)
			continue
		}
		for _, rd := range readers {
			x.st++
			x.tr++
			x.trc++
			out, oerr := op.run(rd.mk())
			w := witness{Op: op.name, Case: "random=" + rd.name}
			if x.isPanic(op.name, oerr, w) {
				continue
			}
			if oerr != nil || !bytes.Equal(out, base) {
				w.Detail = fmt.Sprintf("err=%v out=%s; with random=nil out=%s", oerr, hx(out), hx(base))
				x.viol("legacy random argument (documented as ignored) changes the result of "+op.name, w)
				continue
			}
			x.dist++
			x.h["legacy-random:"+rd.name+":same result as nil"]++
		}
	}

	// (2) failing readers where randomness is needed
	type rndOp struct {
		name string
		need int // bytes the operation must read at least
		zc   func(r io.Reader) ([]byte, error)
		std  func(r io.Reader) ([]byte, error)
	}
	s, ok := x.primary.(*stdPeer)
	if !ok {
		return // exponent beyond crypto/rsa: nothing to compare the reader behaviour with
	}
	maxSalt := (ki.bits-1+7)/8 - 32 - 2
	rops := []rndOp{
		{"EncryptPKCS1v15", k - 3 - len(msg),
			func(r io.Reader) ([]byte, error) { return z.EncP1(r, msg) },
			func(r io.Reader) ([]byte, error) { return s.EncP1(r, msg) }},
	}
	if k >= 2*32+2+len(msg) {
		rops = append(rops, rndOp{"EncryptOAEP(SHA-256)", 32,
			func(r io.Reader) ([]byte, error) { return z.EncOAEP(crypto.SHA256, r, msg, nil) },
			func(r io.Reader) ([]byte, error) { return s.EncOAEP(crypto.SHA256, r, msg, nil) }})
	}
	if maxSalt >= 32 {
		rops = append(rops,
			rndOp{"SignPSS(salt=hash length)", 32,
				func(r io.Reader) ([]byte, error) { return z.SignPSS(r, crypto.SHA256, digest, -1) },
				func(r io.Reader) ([]byte, error) { return s.SignPSS(r, crypto.SHA256, digest, -1) }},
			rndOp{"PrivateKey.Sign(PSSOptions)", 32,
				func(r io.Reader) ([]byte, error) {
					return z.Sign(r, digest, &zrsa.PSSOptions{SaltLength: -1, Hash: crypto.SHA256})
				},
				func(r io.Reader) ([]byte, error) {
					return s.k.Sign(r, digest, &stdrsa.PSSOptions{SaltLength: -1, Hash: crypto.SHA256})
				}})
	}
	rops = append(rops, rndOp{"PrivateKey.Decrypt(SessionKeyLen=16)", 16,
		func(r io.Reader) ([]byte, error) {
			return z.Decrypt(r, ct, &zrsa.PKCS1v15DecryptOptions{SessionKeyLen: 16})
		},
		func(r io.Reader) ([]byte, error) {
			return s.k.Decrypt(r, ct, &stdrsa.PKCS1v15DecryptOptions{SessionKeyLen: 16})
		}})
	for _, op := range rops {
		for _, n := range dedupe([]int{0, 1, op.need - 1}) {
			if n < 0 || n >= op.need {
				continue
			}
			x.st++
			x.tr++
			x.trc++
			out, err := op.zc(&failAfter{fx.NewRand("rdr"), n})
			w := witness{Op: op.name, Case: fmt.Sprintf("reader fails after %d of >= %d bytes", n, op.need)}
			if x.isPanic(op.name, err, w) {
				continue
			}
			if err != nil {
				x.dist++
				x.h["failing-reader:"+op.name+":error"]++
				continue
			}
			// success with too little randomness: judged only when crypto/rsa refuses the same reader
			x.evl++
			if _, serr := op.std(&failAfter{fx.NewRand("rdr"), n}); serr == nil {
				x.h["failing-reader:"+op.name+":both succeed (not judged)"]++
				continue
			}
			w.Detail = "returned " + hx(out) + " and no error"
			x.viol("failing random reader: "+op.name+" returns a result instead of the reader's error", w)
		}
	}

	// key generation with a failing reader (zcrypto's generator; once, on the first key only)
	if ki.name == "rsa512" {
		for _, n := range []int{0, 7, 40} {
			x.st++
			x.tr++
			var gk *zrsa.PrivateKey
			var gerr error
			pan, msg, site := ev.Try(func() { gk, gerr = zrsa.GenerateKey(&failAfter{fx.NewRand("gen-fail"), n}, 512) })
			w := witness{Op: "GenerateKey", Case: fmt.Sprintf("reader fails after %d bytes", n)}
			switch {
			case pan:
				w.Detail = msg
				x.viol("panic@"+site+": "+ev.MsgClass(msg)+" (GenerateKey, failing reader)", w)
			case gerr == nil:
				w.Detail = fmt.Sprintf("returned a key of %d bits", gk.N.BitLen())
				x.viol("failing random reader: GenerateKey returns a key instead of the reader's error", w)
			default:
				x.dist++
				x.h["failing-reader:GenerateKey:error"]++
			}
		}
	}
}
