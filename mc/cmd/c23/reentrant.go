package main

// Re-entrancy pass (internal/nohb): a TLS server signs and decrypts with ONE private key on all its goroutines —
// crypto/rsa, which this package is a fork of and whose API contract it keeps, documents the operations on a
// PrivateKey as safe for concurrent use — and every scanner goroutine verifies and encrypts with its own keys at the
// same time. "The result is the RSA result for (key, input)" must not depend on another goroutine's operation:
// a scratch big.Int / hasher / padding buffer at package scope, or a value computed lazily into the shared key
// (precomputation) would break it. Every ordered pair of the menu below is run as "first call to completion, then
// the second on another goroutine" WITHOUT a happens-before edge in a -race build: ThreadSanitizer reports every
// location both calls touch unsynchronised, for all interleavings at once.
//
// Menu: every exported entry point of the package (Sign/Verify PKCS#1 v1.5 and PSS, Encrypt/Decrypt PKCS#1 v1.5,
// session key, OAEP, PrivateKey.Sign/Decrypt/Validate/Precompute/Public/Equal/Size, GenerateKey,
// GenerateMultiPrimeKey, the raw private and public operation) on the caller's OWN key objects (plain and
// precomputed 1024-bit key, a 3-prime key, an exponent above 2^32, a malformed public key), and the private-key
// operations (SignPKCS1v15, SignPSS, DecryptPKCS1v15, DecryptOAEP, PrivateKey.Sign, PrivateKey.Decrypt, Validate,
// Public/Equal) by both calls of a pair on ONE shared *rsa.PrivateKey — once precomputed, once not (a fresh key
// object per pair, so that a value cached lazily in the key by the first call is seen in every pair).
// Precompute itself is a documented writer of the key and is never applied to a shared key.

import (
	"crypto"
	"crypto/sha256"
	"math/big"
	"os"
	"time"

	zrsa "github.com/zmap/zcrypto/rsa"
	"verifmc/internal/ev"
	"verifmc/internal/fx"
	"verifmc/internal/nohb"
)

func reentrantRepoDir() string {
	if v := os.Getenv("VERIF_REPO_DIR"); v != "" {
		return v
	}
	return "/repo"
}

func reentrantOps() []nohb.Op {
	os.Setenv("GODEBUG", "rsa1024min=0")
	var ops []nohb.Op
	digest := sha256.Sum256([]byte("c23 re-entrancy"))
	msg := []byte("sixteen byte key")
	label := []byte("label")
	key := func(name string, pre bool) *zrsa.PrivateKey {
		k := fx.ZRSA(name)
		if pre {
			k.Precompute()
		}
		return k
	}
	// fixtures produced once (standard operations of the package itself on a construction-time key)
	k0 := key("rsa1024", true)
	sigP1, err1 := zrsa.SignPKCS1v15(nil, k0, crypto.SHA256, digest[:])
	sigPSS, err2 := zrsa.SignPSS(fx.NewRand("c23-re-pss"), k0, crypto.SHA256, digest[:], &zrsa.PSSOptions{SaltLength: zrsa.PSSSaltLengthEqualsHash})
	ctP1, err3 := zrsa.EncryptPKCS1v15(fx.NewRand("c23-re-enc"), &k0.PublicKey, msg)
	ctOAEP, err4 := zrsa.EncryptOAEP(sha256.New(), fx.NewRand("c23-re-oaep"), &k0.PublicKey, msg, label)
	_, _, _, _ = err1, err2, err3, err4 // a failing fixture operation is the main phase's finding; the calls below then run on empty inputs
	cpb := func(b []byte) []byte { return append([]byte{}, b...) }

	// the private-key operations, on a key supplied by get (own or shared)
	type privOp struct {
		name string
		f    func(k *zrsa.PrivateKey)
	}
	privOps := []privOp{
		{"SignPKCS1v15(SHA-256)", func(k *zrsa.PrivateKey) { zrsa.SignPKCS1v15(nil, k, crypto.SHA256, cpb(digest[:])) }},
		{"SignPSS(SHA-256, salt=hash)", func(k *zrsa.PrivateKey) {
			zrsa.SignPSS(fx.NewRand("c23-re-pss2"), k, crypto.SHA256, cpb(digest[:]), &zrsa.PSSOptions{SaltLength: zrsa.PSSSaltLengthEqualsHash})
		}},
		{"DecryptPKCS1v15", func(k *zrsa.PrivateKey) { zrsa.DecryptPKCS1v15(nil, k, cpb(ctP1)) }},
		{"DecryptOAEP(SHA-256, label)", func(k *zrsa.PrivateKey) { zrsa.DecryptOAEP(sha256.New(), nil, k, cpb(ctOAEP), cpb(label)) }},
		{"PrivateKey.Sign(PSS auto salt)", func(k *zrsa.PrivateKey) {
			k.Sign(fx.NewRand("c23-re-sign"), cpb(digest[:]), &zrsa.PSSOptions{SaltLength: zrsa.PSSSaltLengthAuto, Hash: crypto.SHA256})
			k.Sign(nil, cpb(digest[:]), crypto.SHA256)
		}},
		{"PrivateKey.Decrypt(nil / OAEPOptions / session key)", func(k *zrsa.PrivateKey) {
			k.Decrypt(nil, cpb(ctP1), nil)
			k.Decrypt(nil, cpb(ctOAEP), &zrsa.OAEPOptions{Hash: crypto.SHA256, Label: cpb(label)})
			k.Decrypt(fx.NewRand("c23-re-sk"), cpb(ctOAEP), &zrsa.PKCS1v15DecryptOptions{SessionKeyLen: 16})
		}},
		{"Validate + Public + Equal + Size", func(k *zrsa.PrivateKey) {
			k.Validate()
			pub := k.Public()
			k.PublicKey.Equal(pub)
			k.Equal(k)
			k.PublicKey.Size()
		}},
	}
	for _, pre := range []bool{true, false} {
		form := map[bool]string{true: "precomputed", false: "plain"}[pre]
		for _, po := range privOps {
			po := po
			ops = append(ops, nohb.Op{Name: po.name + " own " + form + " rsa1024 key", New: func() func() {
				k := key("rsa1024", pre)
				return func() { po.f(k) }
			}})
		}
		shared := rePairShared(func() *zrsa.PrivateKey { return key("rsa1024", pre) })
		for _, po := range privOps {
			po := po
			ops = append(ops, nohb.Op{Name: po.name + " SHARED " + form + " rsa1024 key", New: func() func() {
				k := shared()
				return func() { po.f(k) }
			}})
		}
	}
	// the remaining entry points, own keys
	own := func(name string, f func(k *zrsa.PrivateKey)) {
		ops = append(ops, nohb.Op{Name: name, New: func() func() {
			k := key("rsa1024", false)
			return func() { f(k) }
		}})
	}
	own("VerifyPKCS1v15 (genuine, tampered)", func(k *zrsa.PrivateKey) {
		zrsa.VerifyPKCS1v15(&k.PublicKey, crypto.SHA256, cpb(digest[:]), cpb(sigP1))
		bad := append(cpb(sigP1), 0)
		bad[len(bad)/2] ^= 1
		bad = bad[:len(bad)-1]
		zrsa.VerifyPKCS1v15(&k.PublicKey, crypto.SHA256, cpb(digest[:]), bad)
	})
	own("VerifyPSS (genuine auto salt, tampered)", func(k *zrsa.PrivateKey) {
		zrsa.VerifyPSS(&k.PublicKey, crypto.SHA256, cpb(digest[:]), cpb(sigPSS), &zrsa.PSSOptions{SaltLength: zrsa.PSSSaltLengthAuto})
		bad := append(cpb(sigPSS), 0)
		bad[len(bad)/2] ^= 1
		bad = bad[:len(bad)-1]
		zrsa.VerifyPSS(&k.PublicKey, crypto.SHA256, cpb(digest[:]), bad, nil)
	})
	own("EncryptPKCS1v15", func(k *zrsa.PrivateKey) { zrsa.EncryptPKCS1v15(fx.NewRand("c23-re-e1"), &k.PublicKey, cpb(msg)) })
	own("EncryptOAEP(SHA-256, label)", func(k *zrsa.PrivateKey) {
		zrsa.EncryptOAEP(sha256.New(), fx.NewRand("c23-re-e2"), &k.PublicKey, cpb(msg), cpb(label))
	})
	own("DecryptPKCS1v15SessionKey (valid and invalid padding)", func(k *zrsa.PrivateKey) {
		sk := make([]byte, 16)
		zrsa.DecryptPKCS1v15SessionKey(fx.NewRand("c23-re-sk2"), k, cpb(ctP1), sk)
		zrsa.DecryptPKCS1v15SessionKey(fx.NewRand("c23-re-sk3"), k, cpb(ctOAEP), sk)
	})
	own("Precompute (own key)", func(k *zrsa.PrivateKey) { k.Precompute() })
	own("raw private and public operation", func(k *zrsa.PrivateKey) {
		if m, err := zrsa.VerifC23Decrypt(k, cpb(ctP1), true); err == nil {
			zrsa.VerifC23Encrypt(&k.PublicKey, m)
		}
	})
	own("SignPKCS1v15(hash 0) + Verify", func(k *zrsa.PrivateKey) {
		if s, err := zrsa.SignPKCS1v15(nil, k, 0, cpb(msg)); err == nil {
			zrsa.VerifyPKCS1v15(&k.PublicKey, 0, cpb(msg), s)
		}
	})
	ops = append(ops, nohb.Op{Name: "SignPSS + VerifyPSS, own precomputed 3-prime key", New: func() func() {
		k := key("rsa1024p3", true)
		return func() {
			if s, err := zrsa.SignPSS(fx.NewRand("c23-re-p3"), k, crypto.SHA384, make([]byte, 48), nil); err == nil {
				zrsa.VerifyPSS(&k.PublicKey, crypto.SHA384, make([]byte, 48), s, nil)
			}
		}
	}})
	ops = append(ops, nohb.Op{Name: "SignPKCS1v15 + VerifyPKCS1v15, own key with exponent 2^32+15", New: func() func() {
		k := key("rsa1024e33", false)
		return func() {
			if s, err := zrsa.SignPKCS1v15(nil, k, crypto.SHA256, cpb(digest[:])); err == nil {
				zrsa.VerifyPKCS1v15(&k.PublicKey, crypto.SHA256, cpb(digest[:]), s)
			}
		}
	}})
	ops = append(ops, nohb.Op{Name: "Verify*/Encrypt* with malformed public keys (N nil, E -1)", New: func() func() {
		k := key("rsa1024", false)
		return func() {
			for _, pub := range []*zrsa.PublicKey{{N: nil, E: big.NewInt(65537)}, {N: k.N, E: big.NewInt(-1)}} {
				zrsa.VerifyPKCS1v15(pub, crypto.SHA256, cpb(digest[:]), cpb(sigP1))
				zrsa.VerifyPSS(pub, crypto.SHA256, cpb(digest[:]), cpb(sigPSS), nil)
				zrsa.EncryptPKCS1v15(fx.NewRand("c23-re-m"), pub, cpb(msg))
			}
		}
	}})
	ops = append(ops, nohb.Op{Name: "GenerateKey(512 bits, deterministic reader)", New: func() func() {
		return func() { zrsa.GenerateKey(fx.NewRand("c23-re-gen"), 512) }
	}})
	ops = append(ops, nohb.Op{Name: "GenerateMultiPrimeKey(3 primes, 768 bits, deterministic reader)", New: func() func() {
		return func() { zrsa.GenerateMultiPrimeKey(fx.NewRand("c23-re-gen3"), 3, 768) }
	}})
	return rePairing(ops)
}

// nohb.WorkerMain builds every pair with exactly two New calls (first call, then second call) and calls New for
// nothing else, so New calls number 2k and 2k+1 belong to pair k. rePairing counts them; rePairShared(mk) returns
// an accessor that hands both calls of a pair the same object and makes a fresh one for the next pair.
var reNewCalls int

func rePairing(ops []nohb.Op) []nohb.Op {
	for i := range ops {
		inner := ops[i].New
		ops[i].New = func() func() { reNewCalls++; return inner() }
	}
	return ops
}

func rePairShared[T any](mk func() T) func() T {
	pair, cur := -1, *new(T)
	return func() T {
		if p := (reNewCalls - 1) / 2; p != pair {
			pair, cur = p, mk()
		}
		return cur
	}
}

const reentrantMenuText = "every exported entry point of the rsa package on own keys (plain/precomputed 1024-bit, 3-prime, exponent 2^32+15, malformed public keys, GenerateKey, GenerateMultiPrimeKey, raw operations) and SignPKCS1v15, SignPSS, DecryptPKCS1v15, DecryptOAEP, PrivateKey.Sign, PrivateKey.Decrypt, Validate/Public/Equal/Size through ONE shared *rsa.PrivateKey (precomputed and not; fresh per pair). Precompute is never applied to a shared key"

func reentrantPhase(c *ev.Ctx) {
	if c.Replay != nil {
		return // --replay re-executes one recorded witness of the main phase only
	}
	t0 := time.Now()
	o := nohb.Run(os.Getenv("VERIF_RACE_BIN"), nil, 10*time.Minute)
	if o.Broken != "" {
		c.Broken("re-entrancy pass: %s", o.Broken)
	}
	for _, sig := range o.Sigs() {
		c.Violation("re-entrancy: two calls on different goroutines share unsynchronised state: "+sig, map[string]any{"pair": o.Races[sig], "kind": "nohb"})
	}
	for k, v := range o.Panics {
		c.Violation("re-entrancy: "+k, map[string]any{"pair": v, "kind": "nohb"})
	}
	c.Outcome("re-entrancy pairs without a report", int64(o.Pairs))
	c.States.Add(int64(o.Pairs))
	c.Traces.Add(int64(o.Pairs))
	c.Set("reentrancy", map[string]any{"calls": o.Ops, "ordered_pairs": o.Pairs, "race_signatures": len(o.Races), "harness_only_reports": o.Harness, "canary_ok": o.CanaryOK,
		"seconds": time.Since(t0).Seconds(), "menu": reentrantMenuText,
		"method": "every ordered pair (a, b) of the menu: a to completion on one goroutine, then b on another, without a happens-before edge, in a -race build; a ThreadSanitizer report with both accesses in the repository is a violation"})
}
