package main

// History oracle over ONE caller-owned hash.Hash (round-3 strengthening).
//
// EncryptOAEP and DecryptOAEP are the two entry points of the package that take a hash.Hash OBJECT from the caller
// (SignPSS / VerifyPSS / the PKCS#1 v1.5 functions take a crypto.Hash identifier and make their own objects, as
// does PrivateKey.Decrypt with OAEPOptions). Applications keep one sha256.New() around and pass it to every call,
// exactly as crypto/rsa's own documentation examples do. "zcrypto computes what crypto/rsa computes" must
// therefore hold for every CALL HISTORY on one hash object, including the histories that pass through an error
// return: whatever a call leaves absorbed in the caller's hash changes lHash (and the MGF) of the next call.
//
// Enumerated: every sequence of n calls (n = 2 quick, 3 thorough) over the menu
//
//	EncryptOAEP of an admissible message | of a message one octet too long (error) | with a random reader that
//	fails after one byte (error) | with a public key whose modulus is missing (error)
//	DecryptOAEP of a genuine ciphertext | of a ciphertext with one bit flipped (error) | of the representative N
//	(out of range, error) | of a ciphertext of k+1 octets (error)
//
// x labels {none, "x", 32 octets}, all calls of one sequence on ONE hash object (fresh at the start of the
// sequence); crypto/rsa runs the same sequence on ONE hash object of its own. After every call:
//   - the error class (ok / message too long / reader error / decryption error / other) equals crypto/rsa's;
//   - a ciphertext produced is decrypted to the message by crypto/rsa (fresh hash) and the textbook reference, a
//     plaintext returned equals crypto/rsa's and the message that was encrypted;
//   - "the hash passed in is left ready": h.Sum(nil) of the caller's object equals the digest of the empty input
//     whenever that holds for crypto/rsa's object after the same history (it does after every call of the menu,
//     successful or not).
//
// A hash object that the CALLER hands over with data already absorbed is outside the statement (crypto/rsa
// resets on entry since Go 1.24, older releases and this fork do not in DecryptOAEP): one call per menu entry is
// executed on such an object and the pair of outcomes is recorded, never judged.

import (
	"bytes"
	"crypto"
	stdrsa "crypto/rsa"
	"errors"
	"fmt"
	"hash"
	"io"
	"math/big"

	zrsa "github.com/zmap/zcrypto/rsa"
	"verifmc/internal/fx"
)

type histKind struct {
	name string
	enc  bool
}

var histKinds = []histKind{
	{"EncryptOAEP(admissible message)", true},
	{"EncryptOAEP(message one octet too long)", true},
	{"EncryptOAEP(random reader fails after 1 byte)", true},
	{"EncryptOAEP(public key without modulus)", true},
	{"DecryptOAEP(genuine ciphertext)", false},
	{"DecryptOAEP(ciphertext with one bit flipped)", false},
	{"DecryptOAEP(ciphertext representative = N)", false},
	{"DecryptOAEP(ciphertext of k+1 octets)", false},
}

const (
	hkEncOK = iota
	hkEncLong
	hkEncRdr
	hkEncBadKey
	hkDecOK
	hkDecFlip
	hkDecN
	hkDecLong
)

var histLabels = [][]byte{nil, []byte("x"), det("oaep-label32", 32)}

// histHashes: the hash functions of the history units (every one fits a 1024-bit modulus).
func histHashes(thorough bool) []crypto.Hash {
	if thorough {
		return []crypto.Hash{crypto.SHA1, crypto.SHA256, crypto.SHA384}
	}
	return []crypto.Hash{crypto.SHA1, crypto.SHA256}
}

func histVariants() int { return len(histKinds) * len(histLabels) }

// histKeyOK: the history units run on the 1024-bit two-prime fixture with exponent 65537 only (cheap; the
// arithmetic of every other key is the business of the other sections).
func histKeyOK(ki *keyInfo) bool { return ki.name == "rsa1024" && ki.stdOK }

func histUnits(ki *keyInfo, thorough bool) []unit {
	if !histKeyOK(ki) {
		return nil
	}
	var us []unit
	for _, h := range histHashes(thorough) {
		for a := 0; a < histVariants(); a++ {
			u := mk("hist", ki, fmt.Sprintf("%d/%d", int(h), a), 1)
			u.cost = 1 << 29 // cheap units, scheduled first: covered even when a loaded machine exhausts the budget
			us = append(us, u)
		}
	}
	return us
}

type histCall struct {
	kind  int
	label int
}

func (hc histCall) String() string {
	return fmt.Sprintf("%s label=%q", histKinds[hc.kind].name, histLabels[hc.label])
}

func histErrClass(err error) string {
	var pe *panicErr
	switch {
	case err == nil:
		return "ok"
	case errors.As(err, &pe):
		return "panic"
	case errors.Is(err, errReader):
		return "reader error"
	case errors.Is(err, zrsa.ErrMessageTooLong), errors.Is(err, stdrsa.ErrMessageTooLong):
		return "message too long"
	case errors.Is(err, zrsa.ErrDecryption), errors.Is(err, stdrsa.ErrDecryption):
		return "decryption error"
	}
	return "other error"
}

type histFix struct {
	h      crypto.Hash
	msg    []byte
	long   []byte
	ct     [3][]byte // genuine ciphertext per label (textbook reference)
	flip   [3][]byte
	ctN    []byte
	ctLong []byte
	empty  []byte            // digest of the empty input
	fresh  map[string]string // form/kind/label -> problem of that call on a fresh hash object ("" none)
}

func (x *uctx) histFixture(h crypto.Hash) *histFix {
	ki, k := x.ki, x.ki.k
	f := &histFix{h: h, empty: h.New().Sum(nil), fresh: map[string]string{}}
	max := k - 2*h.Size() - 2
	f.msg = det("hist-msg-"+ki.name, 16%(max+1))
	f.long = make([]byte, max+1)
	for li, label := range histLabels {
		ct, err := x.ref.EncOAEP(h, fx.NewRand(fmt.Sprintf("hist-ct-%s-%d-%d", ki.name, int(h), li)), f.msg, label)
		if err != nil {
			x.c.Broken("textbook reference cannot OAEP-encrypt the history fixture: %v", err)
		}
		if pt, perr := x.expDecOAEP(h, h, ct, label, true); perr != nil || !bytes.Equal(pt, f.msg) {
			x.c.Broken("crypto/rsa does not decrypt the history fixture: %v", perr)
		}
		fl := clone(ct)
		fl[len(fl)-1] ^= 1
		if _, perr := x.expDecOAEP(h, h, fl, label, true); perr == nil {
			x.c.Broken("crypto/rsa decrypts the bit-flipped history fixture")
		}
		f.ct[li], f.flip[li] = ct, fl
	}
	f.ctN = i2osp(ki.N, k)
	f.ctLong = append(clone(f.ct[0]), 0)
	return f
}

type histRes struct {
	out []byte
	err error
}

// histDo executes one call of the menu on the given hash object with either implementation.
func histDo(hc histCall, f *histFix, z *zcKey, s *stdPeer, hz hash.Hash, zc bool, seq string) histRes {
	label := histLabels[hc.label]
	var rnd io.Reader = fx.NewRand("hist-rnd-" + seq)
	msg := f.msg
	var ct []byte
	switch hc.kind {
	case hkEncLong:
		msg = f.long
	case hkEncRdr:
		rnd = &failAfter{fx.NewRand("hist-rdr"), 1}
	case hkDecOK:
		ct = f.ct[hc.label]
	case hkDecFlip:
		ct = f.flip[hc.label]
	case hkDecN:
		ct = f.ctN
	case hkDecLong:
		ct = f.ctLong
	}
	var r histRes
	if zc {
		pub := &z.priv.PublicKey
		if hc.kind == hkEncBadKey {
			pub = &zrsa.PublicKey{N: nil, E: big.NewInt(65537)}
		}
		if histKinds[hc.kind].enc {
			r.out, r.err = guardB(func() ([]byte, error) { return zrsa.EncryptOAEP(hz, rnd, pub, msg, label) })
		} else {
			r.out, r.err = guardB(func() ([]byte, error) { return zrsa.DecryptOAEP(hz, nil, z.priv, ct, label) })
		}
		return r
	}
	pub := &s.k.PublicKey
	if hc.kind == hkEncBadKey {
		pub = &stdrsa.PublicKey{N: nil, E: 65537}
	}
	r.out, r.err = guardB(func() ([]byte, error) {
		if histKinds[hc.kind].enc {
			return stdrsa.EncryptOAEP(hz, rnd, pub, msg, label)
		}
		return stdrsa.DecryptOAEP(hz, nil, s.k, ct, label)
	})
	return r
}

func (x *uctx) runHist() {
	ki := x.ki
	var hi, first int
	fmt.Sscanf(x.u.arg, "%d/%d", &hi, &first)
	h := crypto.Hash(hi)
	s, ok := x.primary.(*stdPeer)
	if !ok || !histKeyOK(ki) {
		x.c.Broken("history unit %s on a key outside crypto/rsa's domain", x.u.id)
	}
	f := x.histFixture(h)
	depth := 2
	forms := []string{"precomputed"}
	if x.thorough {
		depth = 3
		forms = []string{"precomputed", "plain"}
	}
	nv := histVariants()
	call := func(v int) histCall { return histCall{kind: v / len(histLabels), label: v % len(histLabels)} }
	for _, form := range forms {
		z := ki.zc(form)
		// the caller's hash object arrives with data absorbed: recorded, not judged
		if form == forms[0] {
			hz, hs := h.New(), h.New()
			hz.Write([]byte("abc"))
			hs.Write([]byte("abc"))
			hc := call(first)
			rz := histDo(hc, f, z, s, hz, true, "dirty")
			rs := histDo(hc, f, z, s, hs, false, "dirty")
			x.tr++
			if !x.isPanic(hc.String(), rz.err, witness{Form: form, Hash: hname(h), Case: "hash object handed over with 3 octets absorbed"}) {
				x.h[fmt.Sprintf("oaep-history:hash handed over with data absorbed (not judged): %s: zc=%s crypto/rsa=%s", histKinds[hc.kind].name, histErrClass(rz.err), histErrClass(rs.err))]++
			}
		}
		seq := make([]int, depth)
		seq[0] = first
		total := 1
		for i := 1; i < depth; i++ {
			total *= nv
		}
		for n := 0; n < total; n++ {
			if n&63 == 0 && x.c.TimeUp() {
				x.c.Incomplete("call histories of " + x.u.id + " not finished")
				return
			}
			r := n
			for i := depth - 1; i >= 1; i-- {
				seq[i] = r % nv
				r /= nv
			}
			x.runHistSeq(f, z, s, seq, call)
		}
	}
}

func (x *uctx) runHistSeq(f *histFix, z *zcKey, s *stdPeer, seq []int, call func(int) histCall) {
	h := f.h
	hz, hs := h.New(), h.New()
	x.st++
	var names []string
	for _, v := range seq {
		names = append(names, call(v).String())
	}
	notReadyBy := ""
	prev := "a fresh hash object"
	for i, v := range seq {
		hc := call(v)
		kn := histKinds[hc.kind].name
		id := fmt.Sprintf("%s-%d-%v-%d", x.ki.name, int(h), seq, i)
		rz := histDo(hc, f, z, s, hz, true, id)
		rs := histDo(hc, f, z, s, hs, false, id)
		x.tr++
		x.evl++
		w := witness{Form: z.form, Op: hc.String(), Hash: hname(h), Cases: []any{names}, Case: fmt.Sprintf("call %d of the history (all calls on one %s object)", i+1, hname(h))}
		if x.isPanic(hc.String(), rz.err, w) {
			return
		}
		if pe, isP := rs.err.(*panicErr); isP {
			x.c.Broken("crypto/rsa panics in %s: %s", hc, pe.msg)
		}
		after := ""
		if notReadyBy != "" {
			after = " (the hash was left with data absorbed by " + notReadyBy + ")"
		}
		cz, cs := histErrClass(rz.err), histErrClass(rs.err)
		bad := false
		if prob, detail := x.histJudge(hc, f, rz, rs); prob != "" {
			bad = true
			w.Detail = detail
			// the same call on a FRESH hash object: a failure there is not a matter of the history and is
			// reported under the signature of the OAEP section (one defect, one signature)
			fk := fmt.Sprintf("%s/%d/%d", z.form, hc.kind, hc.label)
			fresh, seen := f.fresh[fk]
			if !seen {
				fz := histDo(hc, f, z, s, h.New(), true, "fresh")
				fs := histDo(hc, f, z, s, h.New(), false, "fresh")
				fresh, _ = x.histJudge(hc, f, fz, fs)
				f.fresh[fk] = fresh
			}
			var sig string
			switch {
			case fresh != "" && histKinds[hc.kind].enc && prob == "ciphertext":
				sig = "EncryptOAEP: the oracle does not decrypt the ciphertext to the message (or accepts it under another label)"
			case fresh != "" && histKinds[hc.kind].enc:
				sig = "EncryptOAEP: error class differs from crypto/rsa (zc=" + cz + ", crypto/rsa=" + cs + ")"
			case fresh != "" && prob == "plaintext":
				sig = "DecryptOAEP: plaintext differs from the oracle"
			case fresh != "":
				sig = "DecryptOAEP: verdict differs from the oracle (zc=" + verdict(rz.err) + ")"
			case prob == "class":
				sig = fmt.Sprintf("OAEP call history on one hash.Hash: %s directly after %s: zc=%s, crypto/rsa=%s%s", kn, prev, cz, cs, after)
			case prob == "ciphertext":
				sig = fmt.Sprintf("OAEP call history on one hash.Hash: %s directly after %s: the oracle does not decrypt the ciphertext to the message%s", kn, prev, after)
			default:
				sig = fmt.Sprintf("OAEP call history on one hash.Hash: %s directly after %s: plaintext differs from crypto/rsa%s", kn, prev, after)
			}
			if histKinds[hc.kind].enc {
				x.failPub(sig, w)
			} else {
				x.failPriv(z.form, sig, w)
			}
		} else if rz.err == nil {
			x.trc++
			x.dist++
		}
		if !bad {
			x.h["oaep-history:"+kn+":"+cz+" like crypto/rsa"]++
		}
		// the hash passed in is left ready for the next use
		zReady, sReady := bytes.Equal(hz.Sum(nil), f.empty), bytes.Equal(hs.Sum(nil), f.empty)
		switch {
		case !sReady:
			x.h["oaep-history:crypto/rsa leaves data absorbed after "+kn+" (readiness not judged)"]++
		case !zReady && notReadyBy == "":
			w.Detail = fmt.Sprintf("Sum(nil) of the caller's hash after the call = %s, digest of the empty input = %s; crypto/rsa leaves its hash object reset after the same history", hx(hz.Sum(nil)), hx(f.empty))
			x.viol(fmt.Sprintf("OAEP call history on one hash.Hash: the caller's hash object is left with data absorbed after %s (%s); crypto/rsa leaves it reset", kn, cz), w)
			notReadyBy = kn
		case zReady:
			x.h["oaep-history:hash left reset after the call ("+cz+")"]++
			notReadyBy = ""
		}
		prev = kn
	}
}

// histJudge compares one call's result with crypto/rsa's result for the same call after the same history:
// "" fine, "class" the error classes differ, "ciphertext" the oracle does not decrypt the ciphertext produced to
// the message, "plaintext" the plaintext returned differs.
func (x *uctx) histJudge(hc histCall, f *histFix, rz, rs histRes) (problem, detail string) {
	cz, cs := histErrClass(rz.err), histErrClass(rs.err)
	switch {
	case cz != cs:
		return "class", fmt.Sprintf("zc err=%v, crypto/rsa err=%v", rz.err, rs.err)
	case rz.err == nil && histKinds[hc.kind].enc:
		pt, perr := x.expDecOAEP(f.h, f.h, rz.out, histLabels[hc.label], true)
		if perr != nil || !bytes.Equal(pt, f.msg) {
			return "ciphertext", fmt.Sprintf("oracle err=%v plaintext=%s ct=%s", perr, hx(pt), hx(rz.out))
		}
	case rz.err == nil:
		if !bytes.Equal(rz.out, rs.out) || !bytes.Equal(rz.out, f.msg) {
			return "plaintext", fmt.Sprintf("zc=%s crypto/rsa=%s message=%s", hx(rz.out), hx(rs.out), hx(f.msg))
		}
	}
	return "", ""
}
